(* C03 - HISTORIES: any sequence of sc_reduce / sc_allreduce / sc_reduce_custom / sc_allreduce_custom calls on ONE communicator,
   issued back to back with no barrier in between - different buffers (counts, datatypes), different operators, different
   targets - under EVERY interleaving ACROSS the calls: a fast rank may be several calls ahead of a slow one, and all calls
   use the same tag SC_TAG_REDUCE, so messages of different calls (of different lengths) queue up in the same channels.

   One call is the per-rank program of C03/ReduceModel.v in CONTINUATION form (call_prog: rec_prog with the rank's input
   buffer `c_x c me` and an arbitrary continuation; reduce_prog is the instance with sym_leaf me and Ret, call_prog_reduce_prog).
   The single-call schedule theorems of C03/ReduceSched.v (reduce_sched, allreduce_sched) are stated for arbitrary inputs and
   continuations, start from empty channels and leave ALL channels empty.  Hence the calls compose (hist_sched: the schedule that
   runs the calls one after the other), and the confluence theorems of the interleaving semantics (MPI/Sem.v: FIFO per (source,
   destination, tag), named-source receives; MPI/SemPosted.v for the Irecv/Isend window of sc_allreduce) give the result for
   EVERY schedule: a message of call k+1 that is already waiting in a channel while a receive of call k is pending on the same
   (source, tag) cannot be taken by that receive, because the sender issued its message of call k to this destination before it
   (program order + FIFO) and call k receives from a source exactly as often as that source sends to it (channels end empty).

   What a call hands on: the target of a reduce and every rank of an allreduce continue with the value of the call; the other
   ranks of a reduce continue with nothing (their receive buffer is unspecified: `keep`).

   Operators, datatypes, counts: payloads are symbolic expression trees over the ranks' input buffers (c_x c r is any payload -
   the name of the buffer of rank r in call c); call_result_eval interprets the tree of a call with ANY operator on ANY type,
   so every call of the history may have its own. *)
From Coq Require Import ZArith Lia List Bool ZifyBool FunctionalExtensionality.
From ScV Require Import Base.CInt Gen.Search Gen.Consts MPI.Prog MPI.Sem MPI.SemFrame MPI.SemPosted.
From ScV Require Import C03.ReduceModel C03.ReduceProofs C03.ReduceSched C03.ReducePosted.
Import ListNotations.
Local Open Scope Z_scope.

(* ---- one call ---------------------------------------------------------------------------------------------------------------- *)
Record call := mkcall { c_all : bool;             (* sc_allreduce(_custom) *)
                        c_target : Z;             (* target of sc_reduce(_custom); not used by an allreduce *)
                        c_x : Z -> payload }.     (* the input buffer of every rank *)

Definition wt (c : call) : Z := if c_all c then 0 else c_target c.      (* the working target (target == -1 -> 0) *)
Definition call_ok (P : Z) (c : call) : Prop := c_all c = true \/ 0 <= c_target c < P.
Definition has_out (c : call) (me : Z) : bool := c_all c || (me =? c_target c).
Definition keep (c : call) (me : Z) (out : payload) : payload := if has_out c me then out else [].

(* the LITERAL per-rank program (posting order, the one that is extracted and co-simulated), in continuation form *)
Definition call_prog (P me : Z) (c : call) (k : payload -> prog) : prog :=
  rec_prog P (maxlevel P) (c_all c) (wt c) (S (Z.to_nat (maxlevel P))) (maxlevel P) me (c_x c me) k.

Lemma call_prog_reduce_prog P doall target me :
  reduce_prog P (maxlevel P) doall (if doall then 0 else target) me = call_prog P me (mkcall doall target sym_leaf) (fun d => Ret d).
Proof. reflexivity. Qed.

(* the same with the all-to-all window of an allreduce in canonical window order (all sends, then the receives) *)
Definition a2a_w (P m : Z) (da : bool) (t : Z) : Z -> Z -> payload -> (payload -> prog) -> prog :=
  if da then a2a_prog_w P m t else a2a_prog P m false t.
Definition call_prog_w (P me : Z) (c : call) (k : payload -> prog) : prog :=
  rec_gen P (maxlevel P) (c_all c) (wt c) (a2a_w P (maxlevel P) (c_all c) (wt c))
          (S (Z.to_nat (maxlevel P))) (maxlevel P) me (c_x c me) k.

(* the value of the call: the balanced tree over rank order - no target, no schedule in it *)
Definition call_result (P : Z) (c : call) : payload := reduce_result payload sym_f P (c_x c).

Lemma call_result_V P c : V P (maxlevel P) (c_x c) 0 0 = call_result P c.
Proof. unfold V, call_result, reduce_result. rewrite Z.sub_0_r. reflexivity. Qed.

(* ---- ONE CALL inside a longer program: every rank of the communicator stands at the call (continuation k r), all channels
   are empty: the call can be scheduled to the point where every rank continues - nobody outside moves, all channels empty *)
Theorem call_sched P (c : call) (k : Z -> payload -> prog) (s : gs) : 1 <= P <= 2 ^ 30 -> call_ok P c ->
  (forall r, 0 <= r < P -> pr s r = call_prog_w P r c (k r)) ->
  (forall a b t, ch s a b t = []) ->
  exists n s', run n s s' /\
    (forall r, 0 <= r < P -> has_out c r = true -> pr s' r = k r (call_result P c)) /\
    (forall r, 0 <= r < P -> has_out c r = false -> exists o, pr s' r = k r o) /\
    (forall r, ~ 0 <= r < P -> pr s' r = pr s r) /\
    (forall a b t, ch s' a b t = []).
Proof.
  intros HP Hok Hp Hch. pose proof (maxlevel_le30 P HP) as Hm. pose proof (maxlevel_cover P ltac:(lia)) as [_ Hc].
  rewrite <- call_result_V. destruct c as [da t x]. unfold call_ok, has_out, call_prog_w, wt, a2a_w in *. cbn [c_all c_target c_x] in *.
  destruct da.
  - destruct (allreduce_sched P (maxlevel P) 0 Hm ltac:(lia) ltac:(lia) x k true (a2a_prog_w P (maxlevel P) 0) eq_refl
                              (fun _ _ _ _ => eq_refl) s Hp Hch) as [n [f [Hrun [Hres [Hout Hch']]]]].
    exists n, f. split; [exact Hrun|]. split; [intros r Hr _; apply Hres; exact Hr|]. split; [intros r Hr E; discriminate|].
    split; [exact Hout|exact Hch'].
  - assert (Ht : 0 <= t < P) by (destruct Hok as [E|E]; [discriminate|exact E]).
    destruct (reduce_sched P (maxlevel P) t Hm ltac:(lia) Ht x k false (a2a_prog P (maxlevel P) false t) eq_refl
                           (fun _ _ _ _ => eq_refl) s Hp Hch) as [n [f [Hrun [Hres [Hoth [Hout Hch']]]]]].
    exists n, f. split; [exact Hrun|]. cbn [orb]. split; [|split; [|split; [exact Hout|exact Hch']]].
    + intros r Hr E. assert (r = t) as -> by lia. exact Hres.
    + intros r Hr E. apply Hoth; [exact Hr|lia].
Qed.

(* ---- HISTORIES ---------------------------------------------------------------------------------------------------------------- *)
Fixpoint hist_prog (P me : Z) (cs : list call) (acc : payload) : prog :=
  match cs with
  | [] => Ret acc
  | c :: cs' => call_prog P me c (fun out => hist_prog P me cs' (acc ++ keep c me out))
  end.
Fixpoint hist_prog_w (P me : Z) (cs : list call) (acc : payload) : prog :=
  match cs with
  | [] => Ret acc
  | c :: cs' => call_prog_w P me c (fun out => hist_prog_w P me cs' (acc ++ keep c me out))
  end.
(* what rank `me` has collected at the end: the values of the calls it is entitled to, in call order *)
Definition hist_out (P me : Z) (cs : list call) : payload := concat (map (fun c => keep c me (call_result P c)) cs).

Lemma hist_out_cons P me c cs : hist_out P me (c :: cs) = keep c me (call_result P c) ++ hist_out P me cs.
Proof. reflexivity. Qed.

Theorem hist_sched P : 1 <= P <= 2 ^ 30 -> forall cs (acc : Z -> payload) s, Forall (call_ok P) cs ->
  (forall r, 0 <= r < P -> pr s r = hist_prog_w P r cs (acc r)) ->
  (forall a b t, ch s a b t = []) ->
  exists n s', run n s s' /\
    (forall r, 0 <= r < P -> pr s' r = Ret (acc r ++ hist_out P r cs)) /\
    (forall r, ~ 0 <= r < P -> pr s' r = pr s r) /\
    (forall a b t, ch s' a b t = []).
Proof.
  intros HP. induction cs as [|c cs IH]; intros acc s Hok Hp Hch.
  - exists 0%nat, s. split; [apply run_nil|]. split; [|split; [reflexivity|exact Hch]].
    intros r Hr. rewrite Hp by exact Hr. cbn. rewrite app_nil_r. reflexivity.
  - inversion Hok as [|? ? Hcok Hrest]; subst.
    destruct (call_sched P c (fun r out => hist_prog_w P r cs (acc r ++ keep c r out)) s HP Hcok) as [n1 [s1 [Hrun1 [Hy1 [Hn1 [Hpo1 Hc1]]]]]].
    + intros r Hr. rewrite Hp by exact Hr. reflexivity.
    + exact Hch.
    + destruct (IH (fun r => acc r ++ keep c r (call_result P c)) s1 Hrest) as [n2 [s2 [Hrun2 [Hp2 [Hpo2 Hc2]]]]].
      * intros r Hr. destruct (has_out c r) eqn:E.
        -- rewrite (Hy1 r Hr E). reflexivity.
        -- destruct (Hn1 r Hr E) as [o Ho]. rewrite Ho. unfold keep. rewrite E. reflexivity.
      * exact Hc1.
      * exists (n1 + n2)%nat, s2. split; [eapply run_app; eauto|]. split; [|split; [|exact Hc2]].
        -- intros r Hr. rewrite Hp2 by exact Hr. rewrite hist_out_cons, app_assoc. reflexivity.
        -- intros r Hr. rewrite Hpo2 by exact Hr. apply Hpo1. exact Hr.
Qed.

(* ---- the whole systems: rank r < P runs the history from an empty network ------------------------------------------------- *)
Definition hist_start (P : Z) (cs : list call) : gs :=
  mkgs (fun r => if (0 <=? r) && (r <? P) then hist_prog P r cs [] else Ret []) (fun _ _ _ => []).
Definition hist_start_w (P : Z) (cs : list call) : gs :=
  mkgs (fun r => if (0 <=? r) && (r <? P) then hist_prog_w P r cs [] else Ret []) (fun _ _ _ => []).
Definition hist_end (P : Z) (cs : list call) : gs :=
  mkgs (fun r => if (0 <=? r) && (r <? P) then Ret (hist_out P r cs) else Ret []) (fun _ _ _ => []).

Lemma hist_end_final P cs : final (hist_end P cs).
Proof. intros r. unfold hist_end. cbn. destruct ((0 <=? r) && (r <? P)); eauto. Qed.

Theorem hist_w_one_schedule P cs : 1 <= P <= 2 ^ 30 -> Forall (call_ok P) cs -> exists n, run n (hist_start_w P cs) (hist_end P cs).
Proof.
  intros HP Hok. destruct (hist_sched P HP cs (fun _ => []) (hist_start_w P cs) Hok) as [n [s' [Hrun [Hp [Hpo Hc]]]]].
  - intros r Hr. unfold hist_start_w. cbn [pr]. replace ((0 <=? r) && (r <? P)) with true by lia. reflexivity.
  - reflexivity.
  - exists n. replace (hist_end P cs) with s'; [exact Hrun|]. apply gs_eq.
    + intros r. unfold hist_end. cbn [pr]. destruct ((0 <=? r) && (r <? P)) eqn:E.
      * rewrite Hp by lia. reflexivity.
      * rewrite Hpo by lia. unfold hist_start_w. cbn [pr]. rewrite E. reflexivity.
    + intros a d t. rewrite Hc. reflexivity.
Qed.

(* ---- the literal (posting-order) history is the window-order history with sends moved behind receives posted before them -- *)
Lemma a2a_post_cong P m t L me data : forall is sl k k', (forall x, nbeq (k x) (k' x)) ->
  nbeq (a2a_post P m false t is L me data sl k) (a2a_post P m false t is L me data sl k').
Proof.
  induction is as [|i rest IH]; intros sl k k' Hk; cbn [a2a_post]; [apply Hk|].
  destruct (sc_search_bias m L i t =? me); [apply IH; exact Hk|].
  destruct (sc_search_bias m L i t <? P); [|apply IH; exact Hk].
  apply nbeq_recv. intros v. apply IH. exact Hk.
Qed.

Lemma a2a_w_nbeq P m da t l b d k k' : (forall x, nbeq (k x) (k' x)) ->
  nbeq (a2a_prog P m da t l b d k) (a2a_w P m da t l b d k').
Proof.
  intros Hk. unfold a2a_w. destruct da; [apply a2a_prog_norm; exact Hk|].
  unfold a2a_prog. cbn [orb]. destruct (t =? sc_search_bias m l b t).
  - apply a2a_post_cong. intros sl. apply Hk.
  - apply nbeq_send. apply Hk.
Qed.

Lemma call_prog_nbeq P me c k k' : (forall x, nbeq (k x) (k' x)) -> nbeq (call_prog P me c k) (call_prog_w P me c k').
Proof.
  intros Hk. unfold call_prog, call_prog_w. rewrite rec_gen_eq. apply rec_gen_nbeq; [|exact Hk].
  intros l b d k1 k2 H12. apply a2a_w_nbeq. exact H12.
Qed.

Lemma hist_prog_nbeq P me : forall cs acc, nbeq (hist_prog P me cs acc) (hist_prog_w P me cs acc).
Proof.
  induction cs as [|c cs IH]; intros acc; cbn [hist_prog hist_prog_w]; [apply nb_refl|].
  apply call_prog_nbeq. intros out. apply IH.
Qed.

Lemma hist_start_window_form P cs : nbrel (hist_start P cs) (hist_start_w P cs).
Proof.
  split; [|reflexivity]. intros r. unfold hist_start, hist_start_w. cbn [pr].
  destruct ((0 <=? r) && (r <? P)); [apply hist_prog_nbeq|apply nb_refl].
Qed.

(* a history without allreduce has no window: the literal program IS the window-order program *)
Lemma call_prog_w_reduce P me c k : c_all c = false -> call_prog_w P me c k = call_prog P me c k.
Proof. intros E. unfold call_prog_w, call_prog, a2a_w. rewrite E. reflexivity. Qed.

Lemma hist_prog_w_reduce P me : forall cs acc, Forall (fun c => c_all c = false) cs -> hist_prog_w P me cs acc = hist_prog P me cs acc.
Proof.
  induction cs as [|c cs IH]; intros acc H; [reflexivity|]. inversion H as [|? ? Hc Hrest]; subst.
  cbn [hist_prog hist_prog_w]. rewrite call_prog_w_reduce by exact Hc. f_equal. extensionality out. apply IH. exact Hrest.
Qed.

Lemma hist_start_w_reduce P cs : Forall (fun c => c_all c = false) cs -> hist_start_w P cs = hist_start P cs.
Proof.
  intros H. apply gs_eq; [|reflexivity]. intros r. unfold hist_start_w, hist_start. cbn [pr].
  destruct ((0 <=? r) && (r <? P)); [apply hist_prog_w_reduce; exact H|reflexivity].
Qed.

(* ---- EVERY schedule ------------------------------------------------------------------------------------------------------------ *)
(* the literal programs under the posted-receive semantics (which contains every schedule of the blocking semantics) *)
Theorem hist_all_schedules P cs : 1 <= P <= 2 ^ 30 -> Forall (call_ok P) cs ->
  exists n, run_p n (hist_start P cs) (hist_end P cs) /\ terminal_for_p (hist_start P cs) (hist_end P cs) n.
Proof.
  intros HP Hok. destruct (hist_w_one_schedule P cs HP Hok) as [n Hn]. exists n.
  apply (posting_order_same_result (hist_start P cs) (hist_start_w P cs) n (hist_end P cs)).
  - apply hist_start_window_form.
  - apply run_in_run_p. exact Hn.
  - apply hist_end_final.
Qed.

(* the window-order programs under the blocking semantics *)
Theorem hist_w_all_schedules P cs : 1 <= P <= 2 ^ 30 -> Forall (call_ok P) cs ->
  exists n, run n (hist_start_w P cs) (hist_end P cs) /\ terminal_for (hist_start_w P cs) (hist_end P cs) n.
Proof.
  intros HP Hok. destruct (hist_w_one_schedule P cs HP Hok) as [n Hn]. exists n. split; [exact Hn|].
  apply one_schedule_all_schedules; [exact Hn|apply hist_end_final].
Qed.

(* histories of sc_reduce / sc_reduce_custom calls only: the LITERAL programs under the blocking semantics *)
Theorem hist_reduce_all_schedules P cs : 1 <= P <= 2 ^ 30 -> Forall (call_ok P) cs -> Forall (fun c => c_all c = false) cs ->
  exists n, run n (hist_start P cs) (hist_end P cs) /\ terminal_for (hist_start P cs) (hist_end P cs) n.
Proof. intros HP Hok Hred. rewrite <- (hist_start_w_reduce P cs Hred). apply hist_w_all_schedules; assumption. Qed.

(* A RANK THAT HAS RETURNED HAS THE RIGHT RESULTS, whatever the others are still doing: in every reachable state of the history
   (any interleaving, the other ranks anywhere in their calls, messages of later calls already queued) *)
Lemma ret_stable_p : forall n s s' r out, run_p n s s' -> pr s r = Ret out -> pr s' r = Ret out.
Proof.
  induction 1 as [|n s r0 s1 s2 Hstep Hrun IH]; intros Hr; [exact Hr|]. apply IH.
  inversion Hstep; subst; cbn [pr]; unfold updp; destruct (Z.eqb_spec r r0); subst; try exact Hr; rewrite Hr; reflexivity.
Qed.

Theorem hist_finished_rank P cs : 1 <= P <= 2 ^ 30 -> Forall (call_ok P) cs ->
  forall m s' r out, run_p m (hist_start P cs) s' -> 0 <= r < P -> pr s' r = Ret out -> out = hist_out P r cs.
Proof.
  intros HP Hok m s' r out Hrun Hr Hret. destruct (hist_all_schedules P cs HP Hok) as [n [_ H2]].
  destruct (H2 m s' Hrun) as [_ [Hc _]]. pose proof (ret_stable_p _ _ _ r out Hc Hret) as He.
  unfold hist_end in He. cbn [pr] in He. replace ((0 <=? r) && (r <? P)) with true in He by lia. congruence.
Qed.

(* ---- every call has ITS OWN operator, datatype and inputs --------------------------------------------------------------------
   If the buffers of call c are named by leaves (c_x c r = sym_leaf (g r), g any numbering of the input buffers of the whole
   history), the value of the call, interpreted with any operator f on any type T and any assignment x of buffers to the
   names, is the balanced tree of THAT operator over THAT call's buffers in rank order. *)
Lemma sym_eval_treeval_g {T} (f : T -> T -> T) (x : Z -> T) (g : Z -> Z) P m : forall d fuel br rest, (d < fuel)%nat ->
  sym_eval f x fuel (treeval payload sym_f P m (fun r => sym_leaf (g r)) d br ++ rest) = Some (treeval T f P m (fun r => x (g r)) d br, rest).
Proof.
  induction d as [|d IH]; intros fuel br rest Hf; (destruct fuel as [|fu]; [lia|]).
  - reflexivity.
  - cbn [treeval]. cbv zeta. destruct (left_end m (m - Z.of_nat (S d) + 1) (2 * br + 1) <? P).
    + unfold sym_f. cbn [app sym_eval]. rewrite <- app_assoc. rewrite IH by lia. rewrite IH by lia. reflexivity.
    + apply IH. lia.
Qed.

Theorem call_result_eval {T} (f : T -> T -> T) (x : Z -> T) (g : Z -> Z) P c : (forall r, c_x c r = sym_leaf (g r)) -> forall rest,
  sym_eval f x (S (Z.to_nat (maxlevel P))) (call_result P c ++ rest) = Some (reduce_result T f P (fun r => x (g r)), rest).
Proof.
  intros Hx rest. unfold call_result, reduce_result.
  replace (treeval payload sym_f P (maxlevel P) (c_x c)) with (treeval payload sym_f P (maxlevel P) (fun r => sym_leaf (g r))).
  - apply sym_eval_treeval_g. lia.
  - f_equal. extensionality r. symmetry. apply Hx.
Qed.

(* ---- REUSE OF OUTPUTS: the k-th call is computed from what the rank has collected so far -------------------------------------
   (an allreduce result fed into the next reduce, the next target chosen from a result, ..).  All ranks must agree on the kind
   of the call and on its target (`same_shape`, judged against rank 0's view); the buffer of rank r is the one rank r computes. *)
Definition same_shape (c1 c2 : call) : Prop := c_all c1 = c_all c2 /\ c_target c1 = c_target c2.
Definition resolve (acc : Z -> payload) (c : payload -> call) : call :=
  mkcall (c_all (c (acc 0))) (c_target (c (acc 0))) (fun r => c_x (c (acc r)) r).

Fixpoint dhist_prog (P me : Z) (cs : list (payload -> call)) (acc : payload) : prog :=
  match cs with
  | [] => Ret acc
  | c :: cs' => call_prog P me (c acc) (fun out => dhist_prog P me cs' (acc ++ keep (c acc) me out))
  end.
Fixpoint dhist_prog_w (P me : Z) (cs : list (payload -> call)) (acc : payload) : prog :=
  match cs with
  | [] => Ret acc
  | c :: cs' => call_prog_w P me (c acc) (fun out => dhist_prog_w P me cs' (acc ++ keep (c acc) me out))
  end.
Fixpoint dhist_ok (P : Z) (cs : list (payload -> call)) (acc : Z -> payload) : Prop :=
  match cs with
  | [] => True
  | c :: cs' => (forall r, 0 <= r < P -> same_shape (c (acc r)) (c (acc 0))) /\ call_ok P (resolve acc c) /\
                dhist_ok P cs' (fun r => acc r ++ keep (resolve acc c) r (call_result P (resolve acc c)))
  end.
Fixpoint dhist_out (P : Z) (cs : list (payload -> call)) (acc : Z -> payload) : Z -> payload :=
  match cs with
  | [] => acc
  | c :: cs' => dhist_out P cs' (fun r => acc r ++ keep (resolve acc c) r (call_result P (resolve acc c)))
  end.

Lemma call_prog_w_resolve P acc c me k : same_shape (c (acc me)) (c (acc 0)) ->
  call_prog_w P me (c (acc me)) k = call_prog_w P me (resolve acc c) k.
Proof. intros [H1 H2]. unfold call_prog_w, wt, resolve. cbn [c_all c_target c_x]. rewrite H1, H2. reflexivity. Qed.
Lemma keep_resolve acc c me out : same_shape (c (acc me)) (c (acc 0)) -> keep (c (acc me)) me out = keep (resolve acc c) me out.
Proof. intros [H1 H2]. unfold keep, has_out, resolve. cbn [c_all c_target]. rewrite H1, H2. reflexivity. Qed.

Theorem dhist_sched P : 1 <= P <= 2 ^ 30 -> forall cs (acc : Z -> payload) s, dhist_ok P cs acc ->
  (forall r, 0 <= r < P -> pr s r = dhist_prog_w P r cs (acc r)) ->
  (forall a b t, ch s a b t = []) ->
  exists n s', run n s s' /\
    (forall r, 0 <= r < P -> pr s' r = Ret (dhist_out P cs acc r)) /\
    (forall r, ~ 0 <= r < P -> pr s' r = pr s r) /\
    (forall a b t, ch s' a b t = []).
Proof.
  intros HP. induction cs as [|c cs IH]; intros acc s Hok Hp Hch.
  - exists 0%nat, s. split; [apply run_nil|]. split; [exact Hp|]. split; [reflexivity|exact Hch].
  - destruct Hok as [Hsh [Hcok Hrest]].
    destruct (call_sched P (resolve acc c) (fun r out => dhist_prog_w P r cs (acc r ++ keep (resolve acc c) r out)) s HP Hcok)
      as [n1 [s1 [Hrun1 [Hy1 [Hn1 [Hpo1 Hc1]]]]]].
    + intros r Hr. rewrite Hp by exact Hr. cbn [dhist_prog_w]. rewrite (call_prog_w_resolve P acc c r) by (apply Hsh; exact Hr).
      f_equal. extensionality out. rewrite (keep_resolve acc c r) by (apply Hsh; exact Hr). reflexivity.
    + exact Hch.
    + destruct (IH (fun r => acc r ++ keep (resolve acc c) r (call_result P (resolve acc c))) s1 Hrest) as [n2 [s2 [Hrun2 [Hp2 [Hpo2 Hc2]]]]].
      * intros r Hr. destruct (has_out (resolve acc c) r) eqn:E.
        -- rewrite (Hy1 r Hr E). reflexivity.
        -- destruct (Hn1 r Hr E) as [o Ho]. rewrite Ho. unfold keep. rewrite E. reflexivity.
      * exact Hc1.
      * exists (n1 + n2)%nat, s2. split; [eapply run_app; eauto|]. split; [exact Hp2|]. split; [|exact Hc2].
        intros r Hr. rewrite Hpo2 by exact Hr. apply Hpo1. exact Hr.
Qed.

Definition dhist_start (P : Z) (cs : list (payload -> call)) : gs :=
  mkgs (fun r => if (0 <=? r) && (r <? P) then dhist_prog P r cs [] else Ret []) (fun _ _ _ => []).
Definition dhist_start_w (P : Z) (cs : list (payload -> call)) : gs :=
  mkgs (fun r => if (0 <=? r) && (r <? P) then dhist_prog_w P r cs [] else Ret []) (fun _ _ _ => []).
Definition dhist_end (P : Z) (cs : list (payload -> call)) : gs :=
  mkgs (fun r => if (0 <=? r) && (r <? P) then Ret (dhist_out P cs (fun _ => []) r) else Ret []) (fun _ _ _ => []).

Lemma dhist_end_final P cs : final (dhist_end P cs).
Proof. intros r. unfold dhist_end. cbn. destruct ((0 <=? r) && (r <? P)); eauto. Qed.

Lemma dhist_prog_nbeq P me : forall cs acc, nbeq (dhist_prog P me cs acc) (dhist_prog_w P me cs acc).
Proof.
  induction cs as [|c cs IH]; intros acc; cbn [dhist_prog dhist_prog_w]; [apply nb_refl|].
  apply call_prog_nbeq. intros out. apply IH.
Qed.

Theorem dhist_all_schedules P cs : 1 <= P <= 2 ^ 30 -> dhist_ok P cs (fun _ => []) ->
  exists n, run_p n (dhist_start P cs) (dhist_end P cs) /\ terminal_for_p (dhist_start P cs) (dhist_end P cs) n.
Proof.
  intros HP Hok. destruct (dhist_sched P HP cs (fun _ => []) (dhist_start_w P cs) Hok) as [n [s' [Hrun [Hp [Hpo Hc]]]]].
  - intros r Hr. unfold dhist_start_w. cbn [pr]. replace ((0 <=? r) && (r <? P)) with true by lia. reflexivity.
  - reflexivity.
  - exists n. apply (posting_order_same_result (dhist_start P cs) (dhist_start_w P cs) n (dhist_end P cs)).
    + split; [|reflexivity]. intros r. unfold dhist_start, dhist_start_w. cbn [pr].
      destruct ((0 <=? r) && (r <? P)); [apply dhist_prog_nbeq|apply nb_refl].
    + apply run_in_run_p. replace (dhist_end P cs) with s'; [exact Hrun|]. apply gs_eq.
      * intros r. unfold dhist_end. cbn [pr]. destruct ((0 <=? r) && (r <? P)) eqn:E.
        -- rewrite Hp by lia. reflexivity.
        -- rewrite Hpo by lia. unfold dhist_start_w. cbn [pr]. rewrite E. reflexivity.
      * intros a d t. rewrite Hc. reflexivity.
    + apply dhist_end_final.
Qed.

Lemma dhist_systems P cs :
  (forall r, 0 <= r < P -> pr (dhist_start P cs) r = dhist_prog P r cs []) /\
  (forall r, ~ 0 <= r < P -> pr (dhist_start P cs) r = Ret []) /\ (forall a b t, ch (dhist_start P cs) a b t = []) /\
  (forall r, 0 <= r < P -> pr (dhist_end P cs) r = Ret (dhist_out P cs (fun _ => []) r)) /\
  (forall r, ~ 0 <= r < P -> pr (dhist_end P cs) r = Ret []) /\ (forall a b t, ch (dhist_end P cs) a b t = []) /\
  (forall me c cs' acc, dhist_prog P me (c :: cs') acc = call_prog P me (c acc) (fun out => dhist_prog P me cs' (acc ++ keep (c acc) me out))) /\
  (forall me acc, dhist_prog P me [] acc = Ret acc) /\
  (forall c cs' acc, dhist_out P (c :: cs') acc = dhist_out P cs' (fun r => acc r ++ keep (resolve acc c) r (call_result P (resolve acc c)))) /\
  (forall acc, dhist_out P [] acc = acc) /\
  (forall c cs' acc, dhist_ok P (c :: cs') acc <->
     (forall r, 0 <= r < P -> c_all (c (acc r)) = c_all (c (acc 0)) /\ c_target (c (acc r)) = c_target (c (acc 0))) /\ call_ok P (resolve acc c) /\
     dhist_ok P cs' (fun r => acc r ++ keep (resolve acc c) r (call_result P (resolve acc c)))) /\
  (forall acc c, resolve acc c = mkcall (c_all (c (acc 0))) (c_target (c (acc 0))) (fun r => c_x (c (acc r)) r)).
Proof.
  unfold dhist_start, dhist_end. cbn [pr ch].
  split; [intros r Hr; replace ((0 <=? r) && (r <? P)) with true by lia; reflexivity|].
  split; [intros r Hr; replace ((0 <=? r) && (r <? P)) with false by lia; reflexivity|].
  split; [reflexivity|].
  split; [intros r Hr; replace ((0 <=? r) && (r <? P)) with true by lia; reflexivity|].
  split; [intros r Hr; replace ((0 <=? r) && (r <? P)) with false by lia; reflexivity|].
  split; [reflexivity|]. split; [reflexivity|]. split; [reflexivity|]. split; [reflexivity|]. split; [reflexivity|].
  split; [|reflexivity]. intros c cs' acc. apply iff_refl.
Qed.

(* ---- the histories of the correspondence run: call number j names the buffer of rank r by the leaf 65536 * j + r ----------- *)
Fixpoint hist_calls (j : Z) (l : list (bool * Z)) : list call :=
  match l with
  | [] => []
  | (da, t) :: l' => mkcall da t (fun r => sym_leaf (65536 * j + r)) :: hist_calls (j + 1) l'
  end.

(* ---- the statements in the form the properties file quotes --------------------------------------------------------------- *)
Lemma hist_systems P cs :
  (forall r, 0 <= r < P -> pr (hist_start P cs) r = hist_prog P r cs []) /\
  (forall r, ~ 0 <= r < P -> pr (hist_start P cs) r = Ret []) /\ (forall a b t, ch (hist_start P cs) a b t = []) /\
  (forall r, 0 <= r < P -> pr (hist_end P cs) r = Ret (hist_out P r cs)) /\
  (forall r, ~ 0 <= r < P -> pr (hist_end P cs) r = Ret []) /\ (forall a b t, ch (hist_end P cs) a b t = []) /\
  (forall me c cs' acc, hist_prog P me (c :: cs') acc = call_prog P me c (fun out => hist_prog P me cs' (acc ++ keep c me out))) /\
  (forall me acc, hist_prog P me [] acc = Ret acc).
Proof.
  unfold hist_start, hist_end. cbn [pr ch].
  repeat split; intros r Hr; try reflexivity;
    (replace ((0 <=? r) && (r <? P)) with true by lia) || (replace ((0 <=? r) && (r <? P)) with false by lia); reflexivity.
Qed.

Lemma hist_call_is_reduce_prog P doall target me :
  reduce_prog P (maxlevel P) doall (if doall then 0 else target) me = call_prog P me (mkcall doall target sym_leaf) (fun d => Ret d) /\
  (forall c k, call_prog P me c k =
     rec_prog P (maxlevel P) (c_all c) (if c_all c then 0 else c_target c) (S (Z.to_nat (maxlevel P))) (maxlevel P) me (c_x c me) k).
Proof. split; reflexivity. Qed.

Lemma hist_outputs P me c cs :
  hist_out P me (c :: cs) = keep c me (call_result P c) ++ hist_out P me cs /\ hist_out P me [] = [] /\
  keep c me (call_result P c) = (if c_all c || (me =? c_target c) then call_result P c else []) /\
  call_result P c = reduce_result payload sym_f P (c_x c).
Proof. repeat split; reflexivity. Qed.

(* ---- an executable scheduler for the blocking semantics (examples) -------------------------------------------------------- *)
Definition xstep (s : gs) (r : Z) : option gs :=
  match pr s r with
  | Do (Send d t m) k => Some (mkgs (updp (pr s) r (k [])) (updc (ch s) r d t (ch s r d t ++ [m])))
  | Do (Recv x t) k =>
    if 0 <=? x then
      match ch s x r t with
      | m :: q => Some (mkgs (updp (pr s) r (k (x :: m))) (updc (ch s) x r t q))
      | [] => None
      end
    else None
  | _ => None
  end.
Fixpoint xrun (l : list Z) (s : gs) : option gs :=
  match l with [] => Some s | r :: l' => match xstep s r with Some s1 => xrun l' s1 | None => None end end.

Lemma xstep_sound s r s' : xstep s r = Some s' -> step s r s'.
Proof.
  unfold xstep. destruct (pr s r) as [o|[d t m|x t|kd rt cb] k] eqn:E; try discriminate.
  - intros H. injection H as <-. apply step_send. exact E.
  - destruct (Z.leb_spec 0 x) as [H0|H0]; [|discriminate].
    destruct (ch s x r t) as [|m q] eqn:Ec; [discriminate|]. intros H. injection H as <-.
    apply step_recv; assumption.
Qed.
Lemma xrun_sound : forall l s s', xrun l s = Some s' -> run (length l) s s'.
Proof.
  induction l as [|r l IH]; intros s s' H; cbn [xrun length] in *.
  - injection H as <-. constructor.
  - destruct (xstep s r) as [s1|] eqn:E; [|discriminate]. econstructor; [apply (xstep_sound _ _ _ E)|apply IH; exact H].
Qed.

(* ---- EXAMPLES (non-vacuity) ------------------------------------------------------------------------------------------------- *)
(* buffers of call number j: leaf 100 * j + r *)
Definition leaves (j : Z) : Z -> payload := fun r => sym_leaf (100 * j + r).

(* 13 ranks (recursive levels and the all-to-all stage): reduce to 7, allreduce, reduce to 0, reduce to 12, allreduce *)
Definition ex_hist : list call :=
  [ mkcall false 7 (leaves 0); mkcall true 0 (leaves 1); mkcall false 0 (leaves 2); mkcall false 12 (leaves 3); mkcall true 0 (leaves 4) ].
Lemma ex_hist_ok : Forall (call_ok 13) ex_hist.
Proof. unfold ex_hist. repeat constructor; unfold call_ok; cbn; lia. Qed.

Example ex_hist_schedules :
  (exists n, run_p n (hist_start 13 ex_hist) (hist_end 13 ex_hist) /\ terminal_for_p (hist_start 13 ex_hist) (hist_end 13 ex_hist) n) /\
  (* rank 7: target of the first call, and the two allreduces; evaluated with list concatenation (associative, not commutative) *)
  (let cat := fun (s r : list Z) => r ++ s in
   let one := fun i : Z => [i] in
   pr (hist_end 13 ex_hist) 7 = Ret (call_result 13 (nth 0 ex_hist (mkcall true 0 (leaves 0))) ++
                                     call_result 13 (nth 1 ex_hist (mkcall true 0 (leaves 0))) ++
                                     call_result 13 (nth 4 ex_hist (mkcall true 0 (leaves 0)))) /\
   sym_eval cat one 5 (call_result 13 (nth 1 ex_hist (mkcall true 0 (leaves 0)))) =
     Some ([100; 101; 102; 103; 104; 105; 106; 107; 108; 109; 110; 111; 112], [])) /\
  (* rank 3 is never a target: the two allreduces *)
  pr (hist_end 13 ex_hist) 3 = Ret (call_result 13 (mkcall true 0 (leaves 1)) ++ call_result 13 (mkcall true 0 (leaves 4))).
Proof.
  split; [apply hist_all_schedules; [lia|apply ex_hist_ok]|]. split; [split|]; vm_compute; reflexivity.
Qed.

(* A FAST RANK SEVERAL CALLS AHEAD, messages of three different calls (different buffers, same tag) in ONE channel.
   Three ranks: reduce to 2, reduce to 2 (longer buffers), reduce to 1, allreduce.  Rank 0 runs its send of call 1, its send
   of call 2, its send of call 3 and the two sends of the allreduce window before anybody else moves: channel 0 -> 2 holds the
   messages of calls 1, 2 and 4, rank 2 stands at its first receive of call 1.  From this state, too, every continuation
   ends with every call having returned its own fold. *)
Definition ex_fast : list call :=
  [ mkcall false 2 (leaves 0); mkcall false 2 (fun r => [0; 100 + r; 7; 7; 7]); mkcall false 1 (leaves 2); mkcall true 0 (leaves 3) ].
Lemma ex_fast_ok : Forall (call_ok 3) ex_fast.
Proof. unfold ex_fast. repeat constructor; unfold call_ok; cbn; lia. Qed.

Example ex_fast_rank :
  exists s', run 5 (hist_start_w 3 ex_fast) s' /\
    ch s' 0 2 c_SC_TAG_REDUCE = [[0; 0]; [0; 100; 7; 7; 7]; [0; 300]] /\       (* calls 1, 2 and 4 in the same channel *)
    (exists k, pr s' 2 = Do (Recv 0 c_SC_TAG_REDUCE) k) /\                       (* rank 2: first receive of call 1 still pending *)
    (exists n, run n s' (hist_end 3 ex_fast)) /\                                 (* ... and the run can only end correctly *)
    pr (hist_end 3 ex_fast) 2 =
      Ret (sym_f (sym_leaf 2) (sym_f (sym_leaf 1) (sym_leaf 0)) ++
           sym_f [0; 102; 7; 7; 7] (sym_f [0; 101; 7; 7; 7] [0; 100; 7; 7; 7]) ++
           sym_f (sym_leaf 302) (sym_f (sym_leaf 301) (sym_leaf 300))).
Proof.
  assert (Hsome : (if xrun [0; 0; 0; 0; 0] (hist_start_w 3 ex_fast) then true else false) = true) by (vm_compute; reflexivity).
  destruct (xrun [0; 0; 0; 0; 0] (hist_start_w 3 ex_fast)) as [s'|] eqn:E; [|discriminate Hsome].
  exists s'. pose proof (xrun_sound _ _ _ E) as Hrun. split; [exact Hrun|].
  assert (Hs : Some s' = xrun [0; 0; 0; 0; 0] (hist_start_w 3 ex_fast)) by (symmetry; exact E).
  split; [|split; [|split]].
  - assert (H : option_map (fun s => ch s 0 2 c_SC_TAG_REDUCE) (Some s') = Some [[0; 0]; [0; 100; 7; 7; 7]; [0; 300]]) by (rewrite Hs; vm_compute; reflexivity).
    injection H as H. exact H.
  - assert (H : match option_map (fun s => pr s 2) (Some s') with Some (Do (Recv 0 t) _) => t = c_SC_TAG_REDUCE | _ => False end) by (rewrite Hs; vm_compute; reflexivity).
    cbn [option_map] in H. destruct (pr s' 2) as [|[| x t |] k]; try contradiction.
    destruct x; try contradiction. subst t. exists k. reflexivity.
  - destruct (hist_w_all_schedules 3 ex_fast ltac:(lia) ex_fast_ok) as [n [_ H2]].
    destruct (H2 _ _ Hrun) as [_ [Hc _]]. eexists. exact Hc.
  - vm_compute. reflexivity.
Qed.

(* REUSE OF OUTPUTS: 5 ranks.  Call 1: allreduce of the leaves 0..4.  Call 2: reduce to rank 3 of buffers computed from the result
   of call 1 (the result itself with the rank's number in front).  Call 3: allreduce in which every rank contributes what it has
   collected so far - rank 3 the results of calls 1 and 2, the others the result of call 1. *)
Definition ex_dhist : list (payload -> call) :=
  [ (fun _ => mkcall true 0 (leaves 0));
    (fun acc => mkcall false 3 (fun r => r :: acc));
    (fun acc => mkcall true 0 (fun _ => acc)) ].

Example ex_dhist_schedules :
  (exists n, run_p n (dhist_start 5 ex_dhist) (dhist_end 5 ex_dhist) /\ terminal_for_p (dhist_start 5 ex_dhist) (dhist_end 5 ex_dhist) n) /\
  (let r1 := call_result 5 (mkcall true 0 (leaves 0)) in
   let r2 := call_result 5 (mkcall false 3 (fun r => r :: r1)) in
   let r3 := call_result 5 (mkcall true 0 (fun r => if r =? 3 then r1 ++ r2 else r1)) in
   pr (dhist_end 5 ex_dhist) 3 = Ret (r1 ++ r2 ++ r3) /\ pr (dhist_end 5 ex_dhist) 0 = Ret (r1 ++ r3)).
Proof.
  split; [|split; vm_compute; reflexivity].
  apply dhist_all_schedules; [lia|].
  assert (Hr : forall r, 0 <= r < 5 -> r = 0 \/ r = 1 \/ r = 2 \/ r = 3 \/ r = 4) by (intros; lia).
  unfold ex_dhist. cbn [dhist_ok]. repeat split; try (intros r H; split; reflexivity); try (left; reflexivity); try (right; cbn; lia).
Qed.
