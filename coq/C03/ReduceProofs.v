From Coq Require Import ZArith Lia List Bool ZifyBool.
From ScV Require Import Base.CInt Gen.Consts C03.ReduceModel.
Import ListNotations.
Local Open Scope Z_scope.

Section Proofs.
  Variable T : Type.
  Variable f : T -> T -> T.
  Notation stdval := (treeval T f).

  (* ---- associative operation: the tree is the fold over the ranks in rank order -------- *)
  (* leaves of node (d, br) that exist: ranks br*2^d .. min((br+1)*2^d, P) - 1 *)
  Definition op (a b : T) : T := f b a.          (* recvbuf (op) sendbuf, read left to right *)
  Fixpoint fold1 (a : T) (l : list T) : T := match l with [] => a | b :: r => fold1 (op a b) r end.

  Hypothesis assoc : forall a b c, op (op a b) c = op a (op b c).

  Lemma fold1_app a l1 b l2 : fold1 a (l1 ++ b :: l2) = op (fold1 a l1) (fold1 b l2).
  Proof.
    revert a b l2. induction l1 as [|c l1 IH]; intros a b l2; simpl.
    - revert a b. induction l2 as [|c l2 IH2]; intros a b; simpl; [reflexivity|].
      rewrite IH2. rewrite (IH2 b c). apply assoc.
    - apply IH.
  Qed.

  (* ranks lo .. lo+n-1 as values *)
  Definition vals (x : Z -> T) (lo : Z) (n : nat) : list T := map (fun k => x (lo + Z.of_nat k)) (seq 0 n).

  Lemma map_seq_shift {B} (g : nat -> B) a n : map g (seq a n) = map (fun k => g (a + k)%nat) (seq 0 n).
  Proof.
    revert g a. induction n as [|n IH]; intros g a; simpl; [reflexivity|].
    f_equal; [f_equal; lia|]. rewrite (IH g (S a)), (IH (fun k => g (a + k)%nat) 1%nat). apply map_ext. intros k. f_equal. lia.
  Qed.

  Lemma vals_app x lo n1 n2 : vals x lo (n1 + n2) = vals x lo n1 ++ vals x (lo + Z.of_nat n1) n2.
  Proof.
    unfold vals. rewrite seq_app, map_app. f_equal. simpl.
    rewrite map_seq_shift. apply map_ext. intros k. f_equal. lia.
  Qed.

  (* number of existing leaves under node (d, br) *)
  Definition nleaves (P : Z) (d : nat) (br : Z) : nat :=
    Z.to_nat (Z.min ((br + 1) * 2 ^ Z.of_nat d) P - br * 2 ^ Z.of_nat d).

  Theorem stdval_fold P x : forall d br m, m = Z.of_nat d -> 0 <= br -> br * 2 ^ Z.of_nat d < P ->
    forall M, Z.of_nat d <= M ->
    (* the node sits at level M - d of a tree of depth M *)
    stdval P M x d br =
    fold1 (x (br * 2 ^ Z.of_nat d)) (vals x (br * 2 ^ Z.of_nat d + 1) (nleaves P d br - 1)).
  Proof.
    induction d as [|d IH]; intros br m Hm Hb Hex M HM.
    - simpl. unfold nleaves. simpl. replace (Z.to_nat (Z.min ((br + 1) * 1) P - br * 1) - 1)%nat with 0%nat by lia.
      simpl. f_equal. lia.
    - cbn [ReduceModel.treeval]. cbv zeta.
      assert (Hp : 0 < 2 ^ Z.of_nat d) by (apply pow2_pos; lia).
      assert (H2 : 2 ^ Z.of_nat (S d) = 2 * 2 ^ Z.of_nat d).
      { rewrite Nat2Z.inj_succ, Z.pow_succ_r by lia. reflexivity. }
      assert (Hle : left_end M (M - Z.of_nat (S d) + 1) (2 * br + 1) = (2 * br + 1) * 2 ^ Z.of_nat d).
      { unfold left_end. f_equal. f_equal. lia. }
      rewrite Hle.
      rewrite (IH (2 * br) (Z.of_nat d)) by (try reflexivity; try lia; rewrite H2 in Hex; lia).
      replace (2 * br * 2 ^ Z.of_nat d) with (br * 2 ^ Z.of_nat (S d)) by (rewrite H2; ring).
      destruct ((2 * br + 1) * 2 ^ Z.of_nat d <? P) eqn:E.
      + rewrite (IH (2 * br + 1) (Z.of_nat d)) by (try reflexivity; lia).
        change (f ?a ?b) with (op b a).
        rewrite <- fold1_app. f_equal.
        set (lo := br * 2 ^ Z.of_nat (S d)).
        assert (Hmid : (2 * br + 1) * 2 ^ Z.of_nat d = lo + 2 ^ Z.of_nat d) by (unfold lo; rewrite H2; ring).
        assert (N1 : nleaves P d (2 * br) = Z.to_nat (2 ^ Z.of_nat d)).
        { unfold nleaves. replace ((2 * br + 1) * 2 ^ Z.of_nat d) with (lo + 2 ^ Z.of_nat d) by lia.
          replace (2 * br * 2 ^ Z.of_nat d) with lo by (unfold lo; rewrite H2; ring). lia. }
        assert (N : (nleaves P (S d) br - 1 = (nleaves P d (2 * br) - 1) + S (nleaves P d (2 * br + 1) - 1))%nat).
        { rewrite N1. unfold nleaves. rewrite H2.
          replace ((2 * br + 1 + 1) * 2 ^ Z.of_nat d) with ((br + 1) * (2 * 2 ^ Z.of_nat d)) by ring.
          replace (br * (2 * 2 ^ Z.of_nat d)) with lo by (unfold lo; rewrite H2; ring).
          rewrite Hmid. lia. }
        rewrite N, vals_app. f_equal. rewrite Hmid.
        replace (S (nleaves P d (2 * br + 1) - 1)) with (1 + (nleaves P d (2 * br + 1) - 1))%nat by lia.
        rewrite vals_app.
        assert (V1 : forall a, vals x a 1 = [x a]) by (intros a; unfold vals; cbn [seq map]; f_equal; f_equal; lia).
        rewrite V1. cbn [app]. rewrite N1. f_equal; [f_equal; lia|]. f_equal. lia.
      + f_equal. f_equal. unfold nleaves. rewrite H2.
        replace (2 * br * 2 ^ Z.of_nat d) with (br * (2 * 2 ^ Z.of_nat d)) by ring. lia.
  Qed.
End Proofs.

Section Corollaries.
  Variable T : Type.
  Variable f : T -> T -> T.

  Lemma maxlevel_cover P : 1 <= P -> 0 <= maxlevel P /\ P <= 2 ^ maxlevel P.
  Proof.
    intros HP. unfold maxlevel. destruct (P <=? 1) eqn:E; [simpl; lia|].
    pose proof (Z.log2_nonneg (P - 1)). split; [lia|].
    pose proof (Z.log2_spec (P - 1) ltac:(lia)) as [_ Hhi].
    replace (Z.succ (Z.log2 (P - 1))) with (Z.log2 (P - 1) + 1) in Hhi by lia. lia.
  Qed.

  Theorem reduce_fold P x :
    (forall a b c, op T f (op T f a b) c = op T f a (op T f b c)) -> 1 <= P ->
    reduce_result T f P x = fold1 T f (x 0) (vals T x 1 (Z.to_nat P - 1)).
  Proof.
    intros Ha HP. unfold reduce_result.
    destruct (maxlevel_cover P HP) as [Hm Hc].
    rewrite (stdval_fold T f Ha P x (Z.to_nat (maxlevel P)) 0 (maxlevel P)) by lia.
    simpl. f_equal. unfold nleaves. rewrite Z2Nat.id by lia. f_equal. lia.
  Qed.
End Corollaries.

From ScV Require Import Gen.Macros C18.MacroProofs.
Lemma maxlevel_generated P : 2 <= P <= 2 ^ 31 -> w_sc_log2_32 (P - 1) + 1 = maxlevel P.
Proof.
  intros HP. unfold maxlevel. destruct (P <=? 1) eqn:E; [lia|].
  rewrite log2_32_correct; [reflexivity|]. lia.
Qed.
