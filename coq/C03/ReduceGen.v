(* C03 - tie T1: the hand-written per-rank program of sc_reduce / sc_allreduce (ReduceModel.v) computes exactly what the
   definitions GENERATED from /repo/src/sc_reduce.c (Gen/ReduceC03.v, regenerated on every run) compute: the working target,
   myrank / peer / higher through the generated sc_search_bias, all tests, the recursion arguments, peers and tags of the
   messages, the operand order of reduce_fn, the all-to-all slots and offsets, maxlevel; and the dispatch tables of the typed
   kernels (datatype -> element type of the branch) with the element operation of every integer branch.
   Levels, branches and ranks are C ints (below 2^30).
   An edit of that arithmetic changes a generated definition and one of these lemmas stops checking. *)
From Coq Require Import ZArith Lia List Bool.
From ScV Require Import Base.CInt Gen.Search Gen.Macros Gen.Consts Gen.ReduceC03 MPI.Prog C03.ReduceModel C03.ReduceProofs.
Import ListNotations.
Local Open Scope Z_scope.

Definition B30 : Z := 2 ^ 30.
Lemma s32_sm x : - B30 <= x <= B30 -> s32 x = x.
Proof. intros H. apply s32_id. unfold in_s32, M32. unfold B30 in H. change (2 ^ 30) with 1073741824 in H. lia. Qed.
Lemma u64_sm x : 0 <= x < 2 ^ 62 -> u64 x = x.
Proof. intros H. apply u64_id. unfold M64. change (2 ^ 62) with 4611686018427387904 in H. lia. Qed.
Lemma z2b_b2z b : z2b (b2z b) = b.
Proof. destruct b; reflexivity. Qed.
Ltac tup := repeat match goal with |- (_, _) = (_, _) => apply f_equal2 end.

(* ---------- the working target -------------------------------------------------------------------------------------------------- *)
(* target = -1 means allreduce: doall, and the tree is the one for target 0 (the model's parameters doall / target) *)
Lemma gen_target t :
  rec_target t = (t, b2z (t =? -1), if t =? -1 then 0 else t) /\ a2a_target t = (b2z (t =? -1), if t =? -1 then 0 else t).
Proof. unfold rec_target, a2a_target. cbv zeta. destruct (t =? -1); split; reflexivity. Qed.

(* ---------- sc_reduce_recursive ---------------------------------------------------------------------------------------------------- *)
Lemma gen_rec_values m level branch target P orig : 0 <= level <= B30 -> 0 <= branch <= B30 ->
  rec_myrank m level branch target = sc_search_bias m level branch target /\
  rec_peer_higher m level branch target =
    (sc_search_bias m level (Z.lxor branch 1) target, sc_search_bias m (level - 1) (branch / 2) target) /\
  rec_recurse P orig m level branch = (P, orig, m, level - 1, branch / 2) /\
  rec_a2a_args P orig m level branch = (P, orig, m, level, branch).
Proof.
  intros Hl Hb. unfold rec_myrank, rec_peer_higher, rec_recurse, rec_a2a_args. cbv zeta. unfold cdiv.
  rewrite Z.quot_div_nonneg by lia.
  assert (0 <= branch / 2 <= branch) by (split; [apply Z.div_pos; lia | apply Z.div_le_upper_bound; lia]).
  rewrite !s32_sm by (unfold B30 in *; lia). repeat split; reflexivity.
Qed.

Lemma gen_rec_tests level myrank higher peer P (doall : bool) :
  rec_is_leaf level = (level =? 0) /\ rec_is_a2a level = (level <=? c_SC_REDUCE_ALLTOALL_LEVEL) /\
  rec_is_higher myrank higher = (myrank =? higher) /\ rec_peer_exists1 peer P = (peer <? P) /\ rec_peer_exists2 peer P = (peer <? P) /\
  rec_lower_rank myrank peer = (myrank <? peer) /\ rec_send_back (b2z doall) peer P = (doall && (peer <? P)).
Proof. unfold rec_send_back. rewrite z2b_b2z. repeat split; reflexivity. Qed.

(* every message of the recursion goes to / comes from `peer` with SC_TAG_REDUCE *)
Lemma gen_rec_msgs peer tag :
  (rec_msg1_peer peer tag, rec_msg1_tag peer tag) = (peer, tag) /\ (rec_msg2_peer peer tag, rec_msg2_tag peer tag) = (peer, tag) /\
  (rec_msg3_peer peer tag, rec_msg3_tag peer tag) = (peer, tag) /\ (rec_msg4_peer peer tag, rec_msg4_tag peer tag) = (peer, tag).
Proof. repeat split; reflexivity. Qed.

(* operands in rank order: the lower rank's data is the receive buffer.  myrank < peer: reduce_fn (sendbuf = peerdata, recvbuf = data)
   (model: sym_f v data); otherwise reduce_fn (data, peerdata) and the result is copied back (model: sym_f data v) *)
Lemma gen_rec_combine myrank peer data peerdata sz :
  rec_combine myrank peer data peerdata sz =
  if myrank <? peer then (1, peerdata, data, 0, 0, 0, 0, 0, 0, 0) else (0, 0, 0, 1, data, peerdata, 1, data, peerdata, sz).
Proof. unfold rec_combine. destruct (myrank <? peer); reflexivity. Qed.

(* one level of the model's recursion, written with the generated definitions *)
Lemma gen_rec_prog_step P m (doall : bool) target fu level branch data k : 0 <= level <= B30 -> 0 <= branch <= B30 ->
  rec_prog P m doall target (S fu) level branch data k =
  let myrank := rec_myrank m level branch target in
  if rec_is_leaf level then k data
  else if rec_is_a2a level then a2a_prog P m doall target level branch data k
  else
    let '(peer, higher) := rec_peer_higher m level branch target in
    let '(_, _, _, level', branch') := rec_recurse P target m level branch in
    let tag := c_SC_TAG_REDUCE in
    if rec_is_higher myrank higher then
      let cont (d : payload) :=
        rec_prog P m doall target fu level' branch' d (fun d' =>
          if rec_send_back (b2z doall) peer P then send (rec_msg2_peer peer tag) (rec_msg2_tag peer tag) d' (k d') else k d') in
      if rec_peer_exists1 peer P
      then recv (rec_msg1_peer peer tag) (rec_msg1_tag peer tag) (fun v => cont (if rec_lower_rank myrank peer then sym_f v data else sym_f data v))
      else cont data
    else
      if rec_peer_exists2 peer P
      then send (rec_msg3_peer peer tag) (rec_msg3_tag peer tag) data
                (if doall then recv (rec_msg4_peer peer tag) (rec_msg4_tag peer tag) (fun v => k v) else k data)
      else k data.
Proof.
  intros Hl Hb. destruct (gen_rec_values m level branch target P target Hl Hb) as [E1 [E2 [E3 _]]].
  rewrite E1, E2, E3. cbv zeta. unfold rec_send_back. rewrite z2b_b2z. reflexivity.
Qed.

(* ---------- sc_reduce_alltoall ------------------------------------------------------------------------------------------------------- *)
Lemma gen_a2a_values m level branch target i l : 0 <= level <= 30 -> 0 <= l <= 30 -> 0 <= i <= B30 / 4 ->
  a2a_myrank m level branch target = sc_search_bias m level branch target /\
  a2a_allcount level = 2 ^ level /\
  ReduceC03.a2a_peer m level i target = sc_search_bias m level i target /\
  a2a_peer2 m l i target = sc_search_bias m (l + 1) (2 * i + 1) target /\
  a2a_inner_cond i l = (i <? 2 ^ l) /\ a2a_outer_cond l = (0 <=? l) /\
  a2a_outer_init level = (0, level - 1) /\ a2a_outer_next l l = (l + 1, l - 1).
Proof.
  intros Hl Hl2 Hi. unfold a2a_myrank, a2a_allcount, ReduceC03.a2a_peer, a2a_peer2, a2a_inner_cond, a2a_outer_cond, a2a_outer_init, a2a_outer_next, shl. cbv zeta.
  assert (P1 : forall e, 0 <= e <= 30 -> 1 <= 2 ^ e <= B30).
  { intros e He. unfold B30. split; [apply (Z.pow_le_mono_r 2 0 e); lia | apply Z.pow_le_mono_r; lia]. }
  pose proof (P1 level Hl). pose proof (P1 l Hl2).
  assert (B30 / 4 = 268435456) by reflexivity.
  rewrite !Z.mul_1_l. rewrite (s32_sm (2 ^ level)), (s32_sm (2 ^ l)) by lia.
  rewrite (s32_sm (2 * i)) by (unfold B30 in *; lia). rewrite (s32_sm (2 * i + 1)) by (unfold B30 in *; lia).
  rewrite !s32_sm by (unfold B30; lia). repeat split; reflexivity.
Qed.

Lemma gen_a2a_tests (doall : bool) target myrank peer peer2 P :
  a2a_collects (b2z doall) target myrank = (doall || (target =? myrank)) /\ a2a_is_self peer myrank = (peer =? myrank) /\
  a2a_peer_exists peer P = (peer <? P) /\ a2a_sends_too (b2z doall) = doall /\ a2a_waits_sends (b2z doall) = doall /\
  a2a_peer2_exists peer2 P = (peer2 <? P).
Proof. unfold a2a_collects, a2a_sends_too, a2a_waits_sends. rewrite z2b_b2z. repeat split; reflexivity. Qed.

Lemma gen_a2a_msgs peer target tag :
  (a2a_recv_peer peer target tag, a2a_recv_tag peer target tag) = (peer, tag) /\
  (a2a_send_peer peer target tag, a2a_send_tag peer target tag) = (peer, tag) /\
  (a2a_send_target_peer peer target tag, a2a_send_target_tag peer target tag) = (target, tag).
Proof. repeat split; reflexivity. Qed.

(* slot i of the collecting buffer is at byte offset i * datasize; the combination of level l with stride 2^shift applies
   reduce_fn (sendbuf = slot (2 i + 1) * 2^shift, recvbuf = slot (2 i) * 2^shift): the model's a2a_inner *)
Lemma gen_a2a_offsets i shift sz allcount request : 0 <= i -> 0 <= shift <= 30 -> (2 * i + 1) * 2 ^ shift <= B30 -> 0 <= sz -> (2 * i + 1) * 2 ^ shift * sz < 2 ^ 62 ->
  0 <= allcount <= B30 -> allcount * sz < 2 ^ 62 ->
  a2a_recv_offset i sz = i * sz /\ a2a_self_offset i sz = i * sz /\
  a2a_combine_send_offset i shift sz = ((2 * i + 1) * 2 ^ shift) * sz /\ a2a_combine_recv_offset i shift sz = ((2 * i) * 2 ^ shift) * sz /\
  a2a_alldata_bytes allcount sz = allcount * sz /\ a2a_requests request allcount = (request, request + allcount).
Proof.
  intros Hi Hs Hb Hsz Hbb Ha Hab.
  unfold a2a_recv_offset, a2a_self_offset, a2a_combine_send_offset, a2a_combine_recv_offset, a2a_alldata_bytes, a2a_requests, shl. cbv zeta.
  assert (1 <= 2 ^ shift) by (apply (Z.pow_le_mono_r 2 0 shift); lia).
  assert (i < 2 ^ 62 /\ i * sz < 2 ^ 62) by (unfold B30 in *; nia).
  rewrite (s32_sm (2 * i)) by (unfold B30 in *; nia). rewrite (s32_sm (2 * i + 1)) by (unfold B30 in *; nia).
  rewrite (s32_sm ((2 * i + 1) * 2 ^ shift)) by lia. rewrite (s32_sm (2 * i * 2 ^ shift)) by (unfold B30 in *; nia).
  rewrite (u64_sm i) by lia. rewrite (u64_sm (i * sz)) by lia.
  rewrite (u64_sm ((2 * i + 1) * 2 ^ shift)) by (unfold B30 in *; nia). rewrite (u64_sm (2 * i * 2 ^ shift)) by (unfold B30 in *; nia).
  rewrite (u64_sm ((2 * i + 1) * 2 ^ shift * sz)) by nia. rewrite (u64_sm (2 * i * 2 ^ shift * sz)) by nia.
  rewrite (u64_sm allcount) by (unfold B30 in *; lia). rewrite Z.mul_1_r. rewrite !(u64_sm (allcount * sz)) by lia.
  repeat split; reflexivity.
Qed.

(* one step of the model's posting loop and of its combination loop, written with the generated definitions *)
Lemma gen_a2a_post_step P m (doall : bool) target i rest level myrank data sl k : 0 <= level <= 30 -> 0 <= i <= B30 / 4 ->
  a2a_post P m doall target (i :: rest) level myrank data sl k =
  let peer := ReduceC03.a2a_peer m level i target in
  let tag := c_SC_TAG_REDUCE in
  if a2a_is_self peer myrank then a2a_post P m doall target rest level myrank data (supd sl i data) k
  else if a2a_peer_exists peer P then
    recv (a2a_recv_peer peer target tag) (a2a_recv_tag peer target tag) (fun v =>
      if a2a_sends_too (b2z doall) then send (a2a_send_peer peer target tag) (a2a_send_tag peer target tag) data
                                            (a2a_post P m doall target rest level myrank data (supd sl i v) k)
      else a2a_post P m doall target rest level myrank data (supd sl i v) k)
  else a2a_post P m doall target rest level myrank data sl k.
Proof.
  intros Hl Hi. destruct (gen_a2a_values m level 0 target i 0 Hl ltac:(lia) Hi) as [_ [_ [E _]]].
  rewrite E. unfold a2a_sends_too. rewrite z2b_b2z. reflexivity.
Qed.

Lemma gen_a2a_inner_step P m target i rest l shift sl : 0 <= l <= 30 -> 0 <= i <= B30 / 4 ->
  a2a_inner P m target (i :: rest) l shift sl =
  let peer2 := a2a_peer2 m l i target in
  let sl' := if a2a_peer2_exists peer2 P
             then supd sl ((2 * i) * 2 ^ shift) (sym_f (sl ((2 * i + 1) * 2 ^ shift)) (sl ((2 * i) * 2 ^ shift)))
             else sl in
  a2a_inner P m target rest l shift sl'.
Proof.
  intros Hl Hi. destruct (gen_a2a_values m 0 0 target i l ltac:(lia) Hl Hi) as [_ [_ [_ [E _]]]].
  rewrite E. reflexivity.
Qed.

Lemma gen_a2a_prog P m (doall : bool) target level branch data k : 0 <= level <= 30 ->
  a2a_prog P m doall target level branch data k =
  let myrank := a2a_myrank m level branch target in
  if a2a_collects (b2z doall) target myrank then
    a2a_post P m doall target (map Z.of_nat (seq 0 (Z.to_nat (a2a_allcount level)))) level myrank data (fun _ => []) (fun sl =>
      k (a2a_outer P m target (Z.to_nat level) (snd (a2a_outer_init level)) (fst (a2a_outer_init level)) sl 0))
  else send (a2a_send_target_peer 0 target c_SC_TAG_REDUCE) (a2a_send_target_tag 0 target c_SC_TAG_REDUCE) data (k data).
Proof.
  intros Hl. destruct (gen_a2a_values m level branch target 0 0 Hl ltac:(lia) ltac:(unfold B30; change (2 ^ 30 / 4) with 268435456; lia))
    as [E1 [E2 [_ [_ [_ [_ [E3 _]]]]]]].
  rewrite E1, E2, E3. unfold a2a_collects. rewrite z2b_b2z. reflexivity.
Qed.

(* ---------- sc_reduce_custom_dispatch --------------------------------------------------------------------------------------------------- *)
(* maxlevel = SC_LOG2_32 (mpisize - 1) + 1 = the model's maxlevel; the recursion starts at (maxlevel, branch = rank) *)
Lemma gen_dispatch P t r : 2 <= P <= B30 ->
  dispatch_maxlevel P = maxlevel P /\ dispatch_args P t (maxlevel P) r = (P, t, maxlevel P, maxlevel P, r).
Proof.
  intros HP. split; [|reflexivity].
  change (dispatch_maxlevel P) with (s32 (w_sc_log2_32 (s32 (P - 1)) + 1)).
  rewrite (s32_sm (P - 1)) by lia.
  rewrite maxlevel_generated by (unfold B30 in *; lia).
  apply s32_sm. unfold maxlevel. destruct (P <=? 1) eqn:E; [unfold B30; lia|].
  assert (Z.log2 (P - 1) < 31). { apply Z.log2_lt_pow2; unfold B30 in *; lia. }
  pose proof (Z.log2_nonneg (P - 1)). unfold B30. lia.
Qed.

(* ---------- the typed kernels -------------------------------------------------------------------------------------------------------------- *)
(* what every part of the verification assumes about the datatypes (checks/C03.py: SZ, SIGNED; datatypes numbered as in
   Gen/ReduceC03.v): (datatype, bytes, signed, floating) *)
Definition dt_spec : list (Z * Z * Z * Z) :=
  [(0, 1, 1, 0);    (* sc_MPI_CHAR *)            (1, 1, 1, 0);    (* sc_MPI_BYTE: reduced as char *)
   (2, 2, 1, 0);    (* sc_MPI_SHORT *)           (3, 2, 0, 0);    (* sc_MPI_UNSIGNED_SHORT *)
   (4, 4, 1, 0);    (* sc_MPI_INT *)             (5, 4, 0, 0);    (* sc_MPI_UNSIGNED *)
   (6, 8, 1, 0);    (* sc_MPI_LONG *)            (7, 8, 0, 0);    (* sc_MPI_UNSIGNED_LONG *)
   (8, 8, 1, 0);    (* sc_MPI_LONG_LONG_INT *)   (9, 4, 1, 1);    (* sc_MPI_FLOAT *)
   (10, 8, 1, 1);   (* sc_MPI_DOUBLE *)          (11, 16, 1, 1)]. (* sc_MPI_LONG_DOUBLE *)

(* the if chains of sc_reduce_max / _min / _sum send every datatype to a loop over the element type of this table *)
Lemma gen_kernel_tables : reduce_max_types = dt_spec /\ reduce_min_types = dt_spec /\ reduce_sum_types = dt_spec.
Proof. repeat split; reflexivity. Qed.

(* the element operations: the receive buffer keeps the larger / smaller value (ties: unchanged), resp. the wrapped sum *)
Lemma gen_kernel_max s r i :
  let f := if r i <? s i then s i else r i in
  reduce_max_char s r i = f /\ reduce_max_short s r i = f /\ reduce_max_ushort s r i = f /\ reduce_max_int s r i = f /\
  reduce_max_unsigned s r i = f /\ reduce_max_long s r i = f /\ reduce_max_ulong s r i = f /\ reduce_max_longlong s r i = f.
Proof. cbv zeta. repeat split; reflexivity. Qed.

Lemma gen_kernel_min s r i :
  let f := if s i <? r i then s i else r i in
  reduce_min_char s r i = f /\ reduce_min_short s r i = f /\ reduce_min_ushort s r i = f /\ reduce_min_int s r i = f /\
  reduce_min_unsigned s r i = f /\ reduce_min_long s r i = f /\ reduce_min_ulong s r i = f /\ reduce_min_longlong s r i = f.
Proof. cbv zeta. repeat split; reflexivity. Qed.

Lemma gen_kernel_sum r s i : - 65536 <= r i < 65536 -> - 65536 <= s i < 65536 ->
  reduce_sum_char r s i = s8 (r i + s i) /\ reduce_sum_short r s i = s16 (r i + s i) /\ reduce_sum_ushort r s i = u16 (r i + s i).
Proof.
  intros Hr Hs. unfold reduce_sum_char, reduce_sum_short, reduce_sum_ushort. cbv zeta.
  rewrite s32_sm by (unfold B30; lia). repeat split; reflexivity.
Qed.

Lemma gen_kernel_sum_wide r s i :
  reduce_sum_int r s i = s32 (r i + s i) /\ reduce_sum_unsigned r s i = u32 (r i + s i) /\ reduce_sum_long r s i = s64 (r i + s i) /\
  reduce_sum_ulong r s i = u64 (r i + s i) /\ reduce_sum_longlong r s i = s64 (r i + s i).
Proof. repeat split; reflexivity. Qed.

Lemma gen_datasize count ts : 0 <= count < 2 ^ 31 -> 0 <= ts < 2 ^ 31 -> rec_datasize count ts = count * ts.
Proof. intros Hc Ht. unfold rec_datasize. cbv zeta. rewrite (u64_sm count) by lia. apply u64_sm. nia. Qed.
