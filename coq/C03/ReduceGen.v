(* C03 - tie T1: the hand-written per-rank program of sc_reduce / sc_allreduce (ReduceModel.v) computes exactly what the
   definitions GENERATED from /repo/src/sc_reduce.c (Gen/ReduceC03.v, regenerated on every run) compute: the working target,
   myrank / peer / higher through the generated sc_search_bias, all tests, the recursion arguments, peers and tags of the
   messages, the operand order of reduce_fn, the all-to-all slots and offsets, maxlevel; and the dispatch tables of the typed
   kernels (datatype -> element type of the branch) with the element operation of every integer branch.
   Levels, branches and ranks are C ints (below 2^30).
   An edit of that arithmetic changes a generated definition and one of these lemmas stops checking. *)
From Coq Require Import ZArith Lia List Bool.
From ScV Require Import Base.CInt Gen.Search Gen.Macros Gen.Consts Gen.ReduceC03 MPI.Prog C03.ReduceModel C03.ReduceProofs.
Import ListNotations.
Local Open Scope Z_scope.

Definition B30 : Z := 2 ^ 30.
Lemma s32_sm x : - B30 <= x <= B30 -> s32 x = x.
Proof. intros H. apply s32_id. unfold in_s32, M32. unfold B30 in H. change (2 ^ 30) with 1073741824 in H. lia. Qed.
Lemma u64_sm x : 0 <= x < 2 ^ 62 -> u64 x = x.
Proof. intros H. apply u64_id. unfold M64. change (2 ^ 62) with 4611686018427387904 in H. lia. Qed.
Lemma u64_ex x : 0 <= x < 2 ^ 64 -> u64 x = x.
Proof. intros H. apply u64_id. unfold M64. change (2 ^ 64) with 18446744073709551616 in H. exact H. Qed.
Lemma z2b_b2z b : z2b (b2z b) = b.
Proof. destruct b; reflexivity. Qed.
Ltac tup := repeat match goal with |- (_, _) = (_, _) => apply f_equal2 end.

(* ---------- the working target -------------------------------------------------------------------------------------------------- *)
(* target = -1 means allreduce: doall, and the tree is the one for target 0 (the model's parameters doall / target) *)
Lemma gen_target t :
  rec_target t = (t, b2z (t =? -1), if t =? -1 then 0 else t) /\ a2a_target t = (b2z (t =? -1), if t =? -1 then 0 else t).
Proof. unfold rec_target, a2a_target. cbv zeta. destruct (t =? -1); split; reflexivity. Qed.

(* ---------- sc_reduce_recursive ---------------------------------------------------------------------------------------------------- *)
Lemma gen_rec_values m level branch target P orig : 0 <= level <= B30 -> 0 <= branch <= B30 ->
  rec_myrank m level branch target = sc_search_bias m level branch target /\
  rec_peer_higher m level branch target =
    (sc_search_bias m level (Z.lxor branch 1) target, sc_search_bias m (level - 1) (branch / 2) target) /\
  rec_recurse P orig m level branch = (P, orig, m, level - 1, branch / 2) /\
  rec_a2a_args P orig m level branch = (P, orig, m, level, branch).
Proof.
  intros Hl Hb. unfold rec_myrank, rec_peer_higher, rec_recurse, rec_a2a_args. cbv zeta. unfold cdiv.
  rewrite Z.quot_div_nonneg by lia.
  assert (0 <= branch / 2 <= branch) by (split; [apply Z.div_pos; lia | apply Z.div_le_upper_bound; lia]).
  rewrite !s32_sm by (unfold B30 in *; lia). repeat split; reflexivity.
Qed.

Lemma gen_rec_tests level myrank higher peer P (doall : bool) :
  rec_is_leaf level = (level =? 0) /\ rec_is_a2a level = (level <=? c_SC_REDUCE_ALLTOALL_LEVEL) /\
  rec_is_higher myrank higher = (myrank =? higher) /\ rec_peer_exists1 peer P = (peer <? P) /\ rec_peer_exists2 peer P = (peer <? P) /\
  rec_lower_rank myrank peer = (myrank <? peer) /\ rec_send_back (b2z doall) peer P = (doall && (peer <? P)).
Proof. unfold rec_send_back. rewrite z2b_b2z. repeat split; reflexivity. Qed.

(* every message of the recursion goes to / comes from `peer` with SC_TAG_REDUCE *)
Lemma gen_rec_msgs peer tag :
  (rec_msg1_peer peer tag, rec_msg1_tag peer tag) = (peer, tag) /\ (rec_msg2_peer peer tag, rec_msg2_tag peer tag) = (peer, tag) /\
  (rec_msg3_peer peer tag, rec_msg3_tag peer tag) = (peer, tag) /\ (rec_msg4_peer peer tag, rec_msg4_tag peer tag) = (peer, tag).
Proof. repeat split; reflexivity. Qed.

(* operands in rank order: the lower rank's data is the receive buffer.  myrank < peer: reduce_fn (sendbuf = peerdata, recvbuf = data)
   (model: sym_f v data); otherwise reduce_fn (data, peerdata) and the result is copied back (model: sym_f data v) *)
Lemma gen_rec_combine myrank peer data peerdata sz :
  rec_combine myrank peer data peerdata sz =
  if myrank <? peer then (1, peerdata, data, 0, 0, 0, 0, 0, 0, 0) else (0, 0, 0, 1, data, peerdata, 1, data, peerdata, sz).
Proof. unfold rec_combine. destruct (myrank <? peer); reflexivity. Qed.

(* one level of the model's recursion, written with the generated definitions *)
Lemma gen_rec_prog_step P m (doall : bool) target fu level branch data k : 0 <= level <= B30 -> 0 <= branch <= B30 ->
  rec_prog P m doall target (S fu) level branch data k =
  let myrank := rec_myrank m level branch target in
  if rec_is_leaf level then k data
  else if rec_is_a2a level then a2a_prog P m doall target level branch data k
  else
    let '(peer, higher) := rec_peer_higher m level branch target in
    let '(_, _, _, level', branch') := rec_recurse P target m level branch in
    let tag := c_SC_TAG_REDUCE in
    if rec_is_higher myrank higher then
      let cont (d : payload) :=
        rec_prog P m doall target fu level' branch' d (fun d' =>
          if rec_send_back (b2z doall) peer P then send (rec_msg2_peer peer tag) (rec_msg2_tag peer tag) d' (k d') else k d') in
      if rec_peer_exists1 peer P
      then recv (rec_msg1_peer peer tag) (rec_msg1_tag peer tag) (fun v => cont (if rec_lower_rank myrank peer then sym_f v data else sym_f data v))
      else cont data
    else
      if rec_peer_exists2 peer P
      then send (rec_msg3_peer peer tag) (rec_msg3_tag peer tag) data
                (if doall then recv (rec_msg4_peer peer tag) (rec_msg4_tag peer tag) (fun v => k v) else k data)
      else k data.
Proof.
  intros Hl Hb. destruct (gen_rec_values m level branch target P target Hl Hb) as [E1 [E2 [E3 _]]].
  rewrite E1, E2, E3. cbv zeta. unfold rec_send_back. rewrite z2b_b2z. reflexivity.
Qed.

(* ---------- sc_reduce_alltoall ------------------------------------------------------------------------------------------------------- *)
Lemma gen_a2a_values m level branch target i l : 0 <= level <= 30 -> 0 <= l <= 30 -> 0 <= i <= B30 / 4 ->
  a2a_myrank m level branch target = sc_search_bias m level branch target /\
  a2a_allcount level = 2 ^ level /\
  ReduceC03.a2a_peer m level i target = sc_search_bias m level i target /\
  a2a_peer2 m l i target = sc_search_bias m (l + 1) (2 * i + 1) target /\
  a2a_inner_cond i l = (i <? 2 ^ l) /\ a2a_outer_cond l = (0 <=? l) /\
  a2a_outer_init level = (0, level - 1) /\ a2a_outer_next l l = (l + 1, l - 1).
Proof.
  intros Hl Hl2 Hi. unfold a2a_myrank, a2a_allcount, ReduceC03.a2a_peer, a2a_peer2, a2a_inner_cond, a2a_outer_cond, a2a_outer_init, a2a_outer_next, shl. cbv zeta.
  assert (P1 : forall e, 0 <= e <= 30 -> 1 <= 2 ^ e <= B30).
  { intros e He. unfold B30. split; [apply (Z.pow_le_mono_r 2 0 e); lia | apply Z.pow_le_mono_r; lia]. }
  pose proof (P1 level Hl). pose proof (P1 l Hl2).
  assert (B30 / 4 = 268435456) by reflexivity.
  rewrite !Z.mul_1_l. rewrite (s32_sm (2 ^ level)), (s32_sm (2 ^ l)) by lia.
  rewrite (s32_sm (2 * i)) by (unfold B30 in *; lia). rewrite (s32_sm (2 * i + 1)) by (unfold B30 in *; lia).
  rewrite !s32_sm by (unfold B30; lia). repeat split; reflexivity.
Qed.

Lemma gen_a2a_tests (doall : bool) target myrank peer peer2 P :
  a2a_collects (b2z doall) target myrank = (doall || (target =? myrank)) /\ a2a_is_self peer myrank = (peer =? myrank) /\
  a2a_peer_exists peer P = (peer <? P) /\ a2a_sends_too (b2z doall) = doall /\ a2a_waits_sends (b2z doall) = doall /\
  a2a_peer2_exists peer2 P = (peer2 <? P).
Proof. unfold a2a_collects, a2a_sends_too, a2a_waits_sends. rewrite z2b_b2z. repeat split; reflexivity. Qed.

Lemma gen_a2a_msgs peer target tag :
  (a2a_recv_peer peer target tag, a2a_recv_tag peer target tag) = (peer, tag) /\
  (a2a_send_peer peer target tag, a2a_send_tag peer target tag) = (peer, tag) /\
  (a2a_send_target_peer peer target tag, a2a_send_target_tag peer target tag) = (target, tag).
Proof. repeat split; reflexivity. Qed.

(* slot i of the collecting buffer is at byte offset i * datasize; the combination of level l with stride 2^shift applies
   reduce_fn (sendbuf = slot (2 i + 1) * 2^shift, recvbuf = slot (2 i) * 2^shift): the model's a2a_inner *)
Lemma gen_a2a_offsets i shift sz allcount request : 0 <= i -> 0 <= shift <= 30 -> (2 * i + 1) * 2 ^ shift <= B30 -> 0 <= sz -> (2 * i + 1) * 2 ^ shift * sz < 2 ^ 64 ->
  0 <= allcount <= B30 -> allcount * sz < 2 ^ 64 ->
  a2a_recv_offset i sz = i * sz /\ a2a_self_offset i sz = i * sz /\
  a2a_combine_send_offset i shift sz = ((2 * i + 1) * 2 ^ shift) * sz /\ a2a_combine_recv_offset i shift sz = ((2 * i) * 2 ^ shift) * sz /\
  a2a_alldata_bytes allcount sz = allcount * sz /\ a2a_requests request allcount = (request, request + allcount).
Proof.
  (* size_t arithmetic: exact as long as the products stay below 2^64 - the whole range of size_t, nothing is given away *)
  intros Hi Hs Hb Hsz Hbb Ha Hab.
  unfold a2a_recv_offset, a2a_self_offset, a2a_combine_send_offset, a2a_combine_recv_offset, a2a_alldata_bytes, a2a_requests, shl. cbv zeta.
  assert (H2s : 1 <= 2 ^ shift) by (apply (Z.pow_le_mono_r 2 0 shift); lia).
  assert (H64 : 2 ^ 64 = 18446744073709551616) by reflexivity.
  assert (HB : B30 = 1073741824) by reflexivity.
  assert (Hi30 : 2 * i + 1 <= B30) by nia.
  assert (Hisz : 0 <= i * sz < 2 ^ 64) by nia.
  rewrite (s32_sm (2 * i)) by lia. rewrite (s32_sm (2 * i + 1)) by lia.
  rewrite (s32_sm ((2 * i + 1) * 2 ^ shift)) by lia. rewrite (s32_sm (2 * i * 2 ^ shift)) by nia.
  rewrite (u64_ex i) by lia. rewrite (u64_ex (i * sz)) by exact Hisz.
  rewrite (u64_ex ((2 * i + 1) * 2 ^ shift)) by lia. rewrite (u64_ex (2 * i * 2 ^ shift)) by nia.
  rewrite (u64_ex ((2 * i + 1) * 2 ^ shift * sz)) by nia. rewrite (u64_ex (2 * i * 2 ^ shift * sz)) by nia.
  rewrite (u64_ex allcount) by lia. rewrite Z.mul_1_r. rewrite !(u64_ex (allcount * sz)) by nia.
  repeat split; reflexivity.
Qed.

(* one step of the model's posting loop and of its combination loop, written with the generated definitions *)
Lemma gen_a2a_post_step P m (doall : bool) target i rest level myrank data sl k : 0 <= level <= 30 -> 0 <= i <= B30 / 4 ->
  a2a_post P m doall target (i :: rest) level myrank data sl k =
  let peer := ReduceC03.a2a_peer m level i target in
  let tag := c_SC_TAG_REDUCE in
  if a2a_is_self peer myrank then a2a_post P m doall target rest level myrank data (supd sl i data) k
  else if a2a_peer_exists peer P then
    recv (a2a_recv_peer peer target tag) (a2a_recv_tag peer target tag) (fun v =>
      if a2a_sends_too (b2z doall) then send (a2a_send_peer peer target tag) (a2a_send_tag peer target tag) data
                                            (a2a_post P m doall target rest level myrank data (supd sl i v) k)
      else a2a_post P m doall target rest level myrank data (supd sl i v) k)
  else a2a_post P m doall target rest level myrank data sl k.
Proof.
  intros Hl Hi. destruct (gen_a2a_values m level 0 target i 0 Hl ltac:(lia) Hi) as [_ [_ [E _]]].
  rewrite E. unfold a2a_sends_too. rewrite z2b_b2z. reflexivity.
Qed.

Lemma gen_a2a_inner_step P m target i rest l shift sl : 0 <= l <= 30 -> 0 <= i <= B30 / 4 ->
  a2a_inner P m target (i :: rest) l shift sl =
  let peer2 := a2a_peer2 m l i target in
  let sl' := if a2a_peer2_exists peer2 P
             then supd sl ((2 * i) * 2 ^ shift) (sym_f (sl ((2 * i + 1) * 2 ^ shift)) (sl ((2 * i) * 2 ^ shift)))
             else sl in
  a2a_inner P m target rest l shift sl'.
Proof.
  intros Hl Hi. destruct (gen_a2a_values m 0 0 target i l ltac:(lia) Hl Hi) as [_ [_ [_ [E _]]]].
  rewrite E. reflexivity.
Qed.

Lemma gen_a2a_prog P m (doall : bool) target level branch data k : 0 <= level <= 30 ->
  a2a_prog P m doall target level branch data k =
  let myrank := a2a_myrank m level branch target in
  if a2a_collects (b2z doall) target myrank then
    a2a_post P m doall target (map Z.of_nat (seq 0 (Z.to_nat (a2a_allcount level)))) level myrank data (fun _ => []) (fun sl =>
      k (a2a_outer P m target (Z.to_nat level) (snd (a2a_outer_init level)) (fst (a2a_outer_init level)) sl 0))
  else send (a2a_send_target_peer 0 target c_SC_TAG_REDUCE) (a2a_send_target_tag 0 target c_SC_TAG_REDUCE) data (k data).
Proof.
  intros Hl. destruct (gen_a2a_values m level branch target 0 0 Hl ltac:(lia) ltac:(unfold B30; change (2 ^ 30 / 4) with 268435456; lia))
    as [E1 [E2 [_ [_ [_ [_ [E3 _]]]]]]].
  rewrite E1, E2, E3. unfold a2a_collects. rewrite z2b_b2z. reflexivity.
Qed.

(* ---------- sc_reduce_custom_dispatch --------------------------------------------------------------------------------------------------- *)
(* maxlevel = SC_LOG2_32 (mpisize - 1) + 1 = the model's maxlevel; the recursion starts at (maxlevel, branch = rank) *)
Lemma gen_dispatch P t r : 2 <= P <= B30 ->
  dispatch_maxlevel P = maxlevel P /\ dispatch_args P t (maxlevel P) r = (P, t, maxlevel P, maxlevel P, r).
Proof.
  intros HP. split; [|reflexivity].
  change (dispatch_maxlevel P) with (s32 (w_sc_log2_32 (s32 (P - 1)) + 1)).
  rewrite (s32_sm (P - 1)) by lia.
  rewrite maxlevel_generated by (unfold B30 in *; lia).
  apply s32_sm. unfold maxlevel. destruct (P <=? 1) eqn:E; [unfold B30; lia|].
  assert (Z.log2 (P - 1) < 31). { apply Z.log2_lt_pow2; unfold B30 in *; lia. }
  pose proof (Z.log2_nonneg (P - 1)). unfold B30. lia.
Qed.

(* ---------- the typed kernels -------------------------------------------------------------------------------------------------------------- *)
(* what every part of the verification assumes about the datatypes (checks/C03.py: SZ, SIGNED; datatypes numbered as in
   Gen/ReduceC03.v): (datatype, bytes, signed, floating) *)
Definition dt_spec : list (Z * Z * Z * Z) :=
  [(0, 1, 1, 0);    (* sc_MPI_CHAR *)            (1, 1, 1, 0);    (* sc_MPI_BYTE: reduced as char *)
   (2, 2, 1, 0);    (* sc_MPI_SHORT *)           (3, 2, 0, 0);    (* sc_MPI_UNSIGNED_SHORT *)
   (4, 4, 1, 0);    (* sc_MPI_INT *)             (5, 4, 0, 0);    (* sc_MPI_UNSIGNED *)
   (6, 8, 1, 0);    (* sc_MPI_LONG *)            (7, 8, 0, 0);    (* sc_MPI_UNSIGNED_LONG *)
   (8, 8, 1, 0);    (* sc_MPI_LONG_LONG_INT *)   (9, 4, 1, 1);    (* sc_MPI_FLOAT *)
   (10, 8, 1, 1);   (* sc_MPI_DOUBLE *)          (11, 16, 1, 1)]. (* sc_MPI_LONG_DOUBLE *)

(* the if chains of sc_reduce_max / _min / _sum send every datatype to a loop over the element type of this table *)
Lemma gen_kernel_tables : reduce_max_types = dt_spec /\ reduce_min_types = dt_spec /\ reduce_sum_types = dt_spec.
Proof. repeat split; reflexivity. Qed.

(* the element operations: the receive buffer keeps the larger / smaller value (ties: unchanged), resp. the wrapped sum *)
Lemma gen_kernel_max s r i :
  let f := if r i <? s i then s i else r i in
  reduce_max_char s r i = f /\ reduce_max_short s r i = f /\ reduce_max_ushort s r i = f /\ reduce_max_int s r i = f /\
  reduce_max_unsigned s r i = f /\ reduce_max_long s r i = f /\ reduce_max_ulong s r i = f /\ reduce_max_longlong s r i = f.
Proof. cbv zeta. repeat split; reflexivity. Qed.

Lemma gen_kernel_min s r i :
  let f := if s i <? r i then s i else r i in
  reduce_min_char s r i = f /\ reduce_min_short s r i = f /\ reduce_min_ushort s r i = f /\ reduce_min_int s r i = f /\
  reduce_min_unsigned s r i = f /\ reduce_min_long s r i = f /\ reduce_min_ulong s r i = f /\ reduce_min_longlong s r i = f.
Proof. cbv zeta. repeat split; reflexivity. Qed.

Lemma gen_kernel_sum r s i : - 65536 <= r i < 65536 -> - 65536 <= s i < 65536 ->
  reduce_sum_char r s i = s8 (r i + s i) /\ reduce_sum_short r s i = s16 (r i + s i) /\ reduce_sum_ushort r s i = u16 (r i + s i).
Proof.
  intros Hr Hs. unfold reduce_sum_char, reduce_sum_short, reduce_sum_ushort. cbv zeta.
  rewrite s32_sm by (unfold B30; lia). repeat split; reflexivity.
Qed.

Lemma gen_kernel_sum_wide r s i :
  reduce_sum_int r s i = s32 (r i + s i) /\ reduce_sum_unsigned r s i = u32 (r i + s i) /\ reduce_sum_long r s i = s64 (r i + s i) /\
  reduce_sum_ulong r s i = u64 (r i + s i) /\ reduce_sum_longlong r s i = s64 (r i + s i).
Proof. repeat split; reflexivity. Qed.

Lemma gen_datasize count ts : 0 <= count < 2 ^ 31 -> 0 <= ts < 2 ^ 31 -> rec_datasize count ts = count * ts.
Proof. intros Hc Ht. unfold rec_datasize. cbv zeta. rewrite (u64_sm count) by lia. apply u64_sm. nia. Qed.

(* =====================================================================================================================================
   WHOLE BUFFERS.  The user function is handed the whole buffers with the caller's count and datatype at every tree node; every message
   carries the whole buffer (datasize bytes); nothing in between touches count, data or datatype (groups_C03.py: no_writes).
   Pointers are integers; datasize = count * sizeof (datatype) (gen_datasize).  Since the repair of F-C03e every message is
   (count, datatype) - the caller's int count and the caller's datatype, NO size guard; what remains of size arithmetic is size_t
   (datasize, the buffers alldata / peerdata, the offsets i * datasize): exact below 2^64, the whole range of the type (gen_sizes_exact).
   ===================================================================================================================================== *)
Lemma gen_rec_combine_args myrank peer data peerdata sz count dt :
  rec_combine_args myrank peer data peerdata sz count dt =
  if myrank <? peer then (1, peerdata, data, count, dt, 0, 0, 0, 0, 0, 0, 0, 0, 0)
  else (0, 0, 0, 0, 0, 1, data, peerdata, count, dt, 1, data, peerdata, sz).
Proof. unfold rec_combine_args. destruct (myrank <? peer); reflexivity. Qed.

(* every level works on the same buffer with the same count and datatype *)
Lemma gen_bufs data count dt :
  rec_recurse_bufs data count dt = (data, count, dt) /\ rec_a2a_bufs data count dt = (data, count, dt) /\
  dispatch_bufs data count dt = (data, count, dt).
Proof. repeat split; reflexivity. Qed.

(* the four messages of the recursion: Recv into peerdata, Send back / Send / Recv back on data, always `count` items of `datatype`
   (for EVERY count and datatype: the arguments are the function's parameters); peerdata has datasize bytes *)
Lemma gen_rec_msg_bufs data peerdata count dt sz : 0 <= sz < 2 ^ 64 ->
  (rec_msg1_buf data peerdata, rec_msg1_count count, rec_msg1_type dt) = (peerdata, count, dt) /\
  (rec_msg2_buf data peerdata, rec_msg2_count count, rec_msg2_type dt) = (data, count, dt) /\
  (rec_msg3_buf data peerdata, rec_msg3_count count, rec_msg3_type dt) = (data, count, dt) /\
  (rec_msg4_buf data peerdata, rec_msg4_count count, rec_msg4_type dt) = (data, count, dt) /\
  rec_peerdata_bytes sz = sz.
Proof.
  intros H. unfold rec_peerdata_bytes. rewrite Z.mul_1_r, u64_ex by exact H. repeat split; reflexivity.
Qed.

(* ---------- the WHOLE body of the posting loop of sc_reduce_alltoall -------------------------------------------------------------------
   outputs: memcpy (called, dst, src, n) | Irecv (called, buf, count, datatype, source, tag, comm, request) | Isend (the same) |
   rrequest[i], srequest[i] after the turn (r0 / s0: untouched by an assignment - the Irecv / Isend writes its request there) *)
Lemma gen_a2a_post_body m level i target myrank P (doall : bool) alldata data sz rreq sreq comm tag count dt ri si r0 s0 :
  0 <= i <= B30 -> 0 <= sz -> i * sz < 2 ^ 64 ->
  let peer := sc_search_bias m level i target in
  let slot := alldata + i * sz in
  let null := a2a_request_null in
  a2a_post_body m level i target myrank P (b2z doall) alldata data sz rreq sreq comm tag count dt ri si r0 s0 =
  if peer =? myrank then (1, slot, data, sz, 0, 0, 0, 0, 0, 0, 0, 0, 0, 0, 0, 0, 0, 0, 0, 0, null, null)
  else if peer <? P then
    if doall then (0, 0, 0, 0, 1, slot, count, dt, peer, tag, comm, rreq + i, 1, data, count, dt, peer, tag, comm, sreq + i, r0, s0)
    else (0, 0, 0, 0, 1, slot, count, dt, peer, tag, comm, rreq + i, 0, 0, 0, 0, 0, 0, 0, 0, r0, null)
  else (0, 0, 0, 0, 0, 0, 0, 0, 0, 0, 0, 0, 0, 0, 0, 0, 0, 0, 0, 0, null, null).
Proof.
  intros Hi Hsz His. cbv zeta. unfold a2a_post_body, a2a_request_null. cbv zeta. rewrite z2b_b2z.
  assert (Hi64 : 0 <= i < 2 ^ 64) by (unfold B30 in Hi; change (2 ^ 30) with 1073741824 in Hi; change (2 ^ 64) with 18446744073709551616; lia).
  rewrite (u64_ex i) by exact Hi64. rewrite (u64_ex (i * sz)) by nia.
  destruct (sc_search_bias m level i target =? myrank); [reflexivity|].
  destruct (sc_search_bias m level i target <? P); [|reflexivity]. destruct doall; reflexivity.
Qed.

(* one turn of the MODEL's posting loop is decided by the generated body and by nothing else: the slot is filled with the own
   contribution iff the body calls memcpy; a Recv is issued iff it calls Irecv - from the Irecv's source with the Irecv's tag; a
   Send of the own data is issued after it iff it calls Isend - to the Isend's destination with the Isend's tag *)
Lemma gen_a2a_post_step_body P m (doall : bool) target i rest level myrank data sl k alldata dptr sz rreq sreq comm count dt ri si r0 s0 :
  0 <= i <= B30 -> 0 <= sz -> i * sz < 2 ^ 64 ->
  a2a_post P m doall target (i :: rest) level myrank data sl k =
  let '(mc, _, _, _, rc, _, _, _, rpeer, rtag, _, _, sc, _, _, _, speer, stag, _, _, _, _) :=
    a2a_post_body m level i target myrank P (b2z doall) alldata dptr sz rreq sreq comm c_SC_TAG_REDUCE count dt ri si r0 s0 in
  if mc =? 1 then a2a_post P m doall target rest level myrank data (supd sl i data) k
  else if rc =? 1 then
    recv rpeer rtag (fun v => if sc =? 1 then send speer stag data (a2a_post P m doall target rest level myrank data (supd sl i v) k)
                              else a2a_post P m doall target rest level myrank data (supd sl i v) k)
  else a2a_post P m doall target rest level myrank data sl k.
Proof.
  intros Hi Hsz His. rewrite (gen_a2a_post_body m level i target myrank P doall alldata dptr sz rreq sreq comm c_SC_TAG_REDUCE count dt ri si r0 s0 Hi Hsz His).
  cbv zeta. cbn [a2a_post].
  destruct (sc_search_bias m level i target =? myrank); [reflexivity|].
  destruct (sc_search_bias m level i target <? P); [|reflexivity]. destruct doall; reflexivity.
Qed.

(* the header of the posting loop: i = 0, 1, .., allcount - 1 = the index list of the model *)
Fixpoint gen_post_indices (fuel : nat) (i allcount : Z) : list Z :=
  match fuel with
  | O => []
  | S f => if a2a_post_cond i allcount then i :: gen_post_indices f (a2a_post_next i) allcount else []
  end.

Lemma gen_post_indices_spec : forall fuel i n, 0 <= i <= n -> n <= B30 -> (Z.to_nat (n - i) < fuel)%nat ->
  gen_post_indices fuel i n = map (fun k => i + Z.of_nat k) (seq 0 (Z.to_nat (n - i))).
Proof.
  induction fuel as [|fuel IH]; intros i n Hi Hn Hf; [lia|]. cbn [gen_post_indices]. unfold a2a_post_cond, a2a_post_next. cbv zeta.
  destruct (i <? n) eqn:E.
  - rewrite s32_sm by (unfold B30 in *; lia). rewrite IH by lia.
    replace (Z.to_nat (n - i)) with (S (Z.to_nat (n - (i + 1)))) by lia. cbn [seq map]. f_equal; [lia|].
    rewrite <- seq_shift, map_map. apply map_ext. intros k. lia.
  - replace (Z.to_nat (n - i)) with 0%nat by lia. reflexivity.
Qed.

Lemma gen_a2a_post_indices level : 0 <= level <= 30 ->
  gen_post_indices (S (Z.to_nat (a2a_allcount level))) a2a_post_init (a2a_allcount level) = map Z.of_nat (seq 0 (Z.to_nat (2 ^ level))).
Proof.
  intros Hl. destruct (gen_a2a_values 0 level 0 0 0 0 Hl ltac:(lia) ltac:(unfold B30; change (2 ^ 30 / 4) with 268435456; lia)) as [_ [E _]].
  rewrite E. unfold a2a_post_init. cbv zeta.
  assert (1 <= 2 ^ level <= B30) by (unfold B30; split; [apply (Z.pow_le_mono_r 2 0 level); lia | apply Z.pow_le_mono_r; lia]).
  rewrite gen_post_indices_spec by lia. rewrite Z.sub_0_r. apply map_ext. intros k. lia.
Qed.

(* the request array has 2 * allcount entries (of 4 bytes in the build the translator sees): slot i of the first half for the Irecv,
   slot i of the second half for the Isend (a2a_requests: rrequest = request, srequest = request + allcount); the first Waitall
   completes the allcount receive requests *)
Lemma gen_a2a_requests request allcount i : 0 <= allcount <= B30 / 4 ->
  a2a_request_bytes allcount = (2 * allcount) * 4 /\
  a2a_wait_recvs allcount (fst (a2a_requests request allcount)) = (1, allcount, request) /\
  fst (a2a_requests request allcount) + i = request + i /\ snd (a2a_requests request allcount) + i = request + allcount + i.
Proof.
  intros Ha. assert (B30 / 4 = 268435456) by reflexivity. unfold a2a_request_bytes, a2a_wait_recvs, a2a_requests. cbv zeta. cbn [fst snd].
  rewrite s32_sm by (unfold B30; lia). rewrite (u64_sm (2 * allcount)) by (change (2 ^ 62) with 4611686018427387904; lia).
  rewrite u64_sm by (change (2 ^ 62) with 4611686018427387904; lia). repeat split; reflexivity.
Qed.

(* after the combination: for allreduce the SEND requests are completed (all allcount of them) BEFORE the result overwrites the send
   buffer; then memcpy (data, alldata, datasize) - the whole result, slot 0 -; both allocations are freed *)
Lemma gen_a2a_finish allcount rreq sreq (doall : bool) data alldata sz request mpiret wret :
  a2a_finish allcount rreq sreq (b2z doall) data alldata sz request mpiret wret =
  (b2z doall, (if doall then allcount else 0), (if doall then sreq else 0), 1, data, alldata, sz, 1, alldata, 1, request).
Proof. unfold a2a_finish. cbv zeta. rewrite z2b_b2z. destruct doall; reflexivity. Qed.

(* the reduce_fn call of the combination loops: whole slots, the caller's count and datatype *)
Lemma gen_a2a_combine_args alldata i shift sz count dt : 0 <= i -> 0 <= shift <= 30 -> (2 * i + 1) * 2 ^ shift <= B30 -> 0 <= sz ->
  (2 * i + 1) * 2 ^ shift * sz < 2 ^ 64 ->
  a2a_combine_args alldata i shift sz count dt =
  (1, alldata + ((2 * i + 1) * 2 ^ shift) * sz, alldata + ((2 * i) * 2 ^ shift) * sz, count, dt).
Proof.
  intros Hi Hs Hb Hsz Hbb.
  destruct (gen_a2a_offsets i shift sz 0 0 Hi Hs Hb Hsz Hbb ltac:(unfold B30; lia) ltac:(change (2 ^ 64) with 18446744073709551616; lia))
    as [_ [_ [E1 [E2 _]]]].
  unfold a2a_combine_args. cbv zeta. unfold a2a_combine_send_offset in E1. unfold a2a_combine_recv_offset in E2. rewrite E1, E2. reflexivity.
Qed.

(* a rank that does not collect sends its whole buffer once, to the target: `count` items of `datatype`, whatever they are *)
Lemma gen_a2a_send_whole data count dt target comm tag ret :
  a2a_send_whole data count dt target comm tag ret = (1, data, count, dt, target, tag, comm).
Proof. reflexivity. Qed.

(* THE BYTES THAT TRAVEL: a message of `count` items of a datatype of `ts` bytes is count * ts bytes = the datasize the buffers are
   made for - for EVERY count in [0, 2^31) (all non-negative ints) and every element size *)
Lemma gen_msg_travel_bytes count ts : 0 <= count < 2 ^ 31 -> 0 <= ts < 2 ^ 31 ->
  rec_msg1_count count * ts = rec_datasize count ts /\ rec_msg2_count count * ts = rec_datasize count ts /\
  rec_msg3_count count * ts = rec_datasize count ts /\ rec_msg4_count count * ts = rec_datasize count ts.
Proof. intros Hc Ht. rewrite (gen_datasize count ts Hc Ht). repeat split; reflexivity. Qed.

(* ALL size arithmetic that is left is size_t and exact: for every count in [0, 2^31), every element size up to 16 bytes (long double)
   and every window of up to 2^28 slots (the code has at most 2^SC_REDUCE_ALLTOALL_LEVEL = 8): datasize < 2^35, every offset and the
   size of alldata stay below 2^63 - no wrap of the 64-bit arithmetic anywhere *)
Lemma gen_sizes_exact count ts i shift allcount request : 0 <= count < 2 ^ 31 -> 0 <= ts <= 16 -> 0 <= i -> 0 <= shift <= 30 ->
  (2 * i + 1) * 2 ^ shift < allcount -> allcount <= 2 ^ 28 ->
  let sz := rec_datasize count ts in
  sz = count * ts /\ 0 <= sz < 2 ^ 35 /\ allcount * sz < 2 ^ 63 /\
  a2a_recv_offset i sz = i * sz /\ a2a_self_offset i sz = i * sz /\
  a2a_combine_send_offset i shift sz = ((2 * i + 1) * 2 ^ shift) * sz /\ a2a_combine_recv_offset i shift sz = ((2 * i) * 2 ^ shift) * sz /\
  a2a_alldata_bytes allcount sz = allcount * sz /\ rec_peerdata_bytes sz = sz /\ a2a_requests request allcount = (request, request + allcount).
Proof.
  intros Hc Ht Hi Hs Hlt Ha. cbv zeta. rewrite (gen_datasize count ts Hc ltac:(change (2 ^ 31) with 2147483648; lia)).
  assert (H31 : 2 ^ 31 = 2147483648) by reflexivity. assert (H35 : 2 ^ 35 = 34359738368) by reflexivity.
  assert (H28 : 2 ^ 28 = 268435456) by reflexivity. assert (H63 : 2 ^ 63 = 9223372036854775808) by reflexivity.
  assert (H64 : 2 ^ 64 = 18446744073709551616) by reflexivity.
  assert (Hsz : 0 <= count * ts < 2 ^ 35) by nia.
  assert (H2s : 1 <= 2 ^ shift) by (apply (Z.pow_le_mono_r 2 0 shift); lia).
  assert (Hall : allcount * (count * ts) < 2 ^ 63) by nia.
  destruct (gen_a2a_offsets i shift (count * ts) allcount request Hi Hs ltac:(unfold B30; change (2 ^ 30) with 1073741824; lia) ltac:(lia)
              ltac:(nia) ltac:(unfold B30; change (2 ^ 30) with 1073741824; nia) ltac:(lia)) as [E1 [E2 [E3 [E4 [E5 E6]]]]].
  destruct (gen_rec_msg_bufs 0 0 0 0 (count * ts) ltac:(lia)) as [_ [_ [_ [_ E7]]]].
  repeat split; try assumption; lia.
Qed.

(* ---------- entry points -------------------------------------------------------------------------------------------------------------- *)
(* the reduction works in recvbuf, which starts as a copy of the whole sendbuf *)
Lemma gen_dispatch_copy sendbuf recvbuf count ts : 0 <= count < 2 ^ 31 -> 0 <= ts < 2 ^ 31 ->
  dispatch_copy sendbuf recvbuf count ts = (1, recvbuf, sendbuf, count * ts).
Proof.
  intros Hc Ht. unfold dispatch_copy. cbv zeta. pose proof (gen_datasize count ts Hc Ht) as E. unfold rec_datasize in E. cbv zeta in E.
  rewrite E. reflexivity.
Qed.

(* target == -1 exactly in the two allreduce entry points; buffers, count, datatype, operation and communicator are handed down unchanged *)
Lemma gen_entries sendbuf recvbuf count dt op target comm :
  entry_allreduce sendbuf recvbuf count dt op comm = (sendbuf, recvbuf, count, dt, op, -1, comm) /\
  entry_reduce sendbuf recvbuf count dt op target comm = (sendbuf, recvbuf, count, dt, op, target, comm) /\
  entry_allreduce_custom sendbuf recvbuf count dt comm = (sendbuf, recvbuf, count, dt, -1, comm) /\
  entry_reduce_custom sendbuf recvbuf count dt target comm = (sendbuf, recvbuf, count, dt, target, comm) /\
  entry_reduce_dispatch sendbuf recvbuf count dt target comm = (sendbuf, recvbuf, count, dt, target, comm).
Proof. repeat split; reflexivity. Qed.

(* sc_reduce_dispatch: MAX -> sc_reduce_max, MIN -> sc_reduce_min, SUM -> sc_reduce_sum *)
Lemma gen_op_table : reduce_op_table = [(0, 0); (1, 1); (2, 2)].
Proof. reflexivity. Qed.

(* ---------- how often the operator is applied ------------------------------------------------------------------------------------------
   treeval is polymorphic in the buffer type: read with T = Z, every input 0 and f s r = r + s + 1 it counts the applications of the
   operator in the tree.  Exactly P - 1: one per tree node with two existing children, none anywhere else. *)
Lemma count_fold : forall l a, (forall b, In b l -> b = 0) ->
  fold1 Z (fun s r => r + s + 1) a l = a + Z.of_nat (length l).
Proof.
  induction l as [|b l IH]; intros a H; cbn [fold1 length]; [lia|].
  rewrite IH by (intros c Hc; apply H; right; exact Hc). unfold op. rewrite (H b (or_introl eq_refl)). lia.
Qed.

Theorem reduce_applications P : 1 <= P -> reduce_result Z (fun s r => r + s + 1) P (fun _ => 0) = P - 1.
Proof.
  intros HP. rewrite reduce_fold by (try exact HP; intros a b c; unfold op; lia).
  rewrite count_fold.
  - unfold vals. rewrite map_length, seq_length. lia.
  - intros b Hb. unfold vals in Hb. apply in_map_iff in Hb. destruct Hb as [k [E _]]. symmetry. exact E.
Qed.

(* the same for every node of the tree: (number of existing ranks under the node) - 1 applications *)
Theorem node_applications P d br M : 0 <= br -> br * 2 ^ Z.of_nat d < P -> Z.of_nat d <= M ->
  treeval Z (fun s r => r + s + 1) P M (fun _ => 0) d br = Z.of_nat (nleaves P d br - 1).
Proof.
  intros Hb Hex HM. rewrite (stdval_fold Z (fun s r => r + s + 1) ltac:(intros a b c; unfold op; lia) P (fun _ => 0) d br (Z.of_nat d) eq_refl Hb Hex M HM).
  rewrite count_fold.
  - unfold vals. rewrite map_length, seq_length. lia.
  - intros b Hb'. unfold vals in Hb'. apply in_map_iff in Hb'. destruct Hb' as [k [E _]]. symmetry. exact E.
Qed.

(* ---------- F-C03e, REPAIRED (fix: the seven point-to-point calls take (count, datatype) instead of (datasize, sc_MPI_BYTE)) -------------
   Regression guard about the OLD call arguments: the byte count datasize (size_t) went through the int count of MPI_Send / Recv /
   Irecv / Isend, i.e. through s32.  For 2^29 + 1 doubles datasize = 4294967304 and s32 datasize = 8: every message carried 8 bytes,
   the call returned a wrong sum (observed with Open MPI, 2 ranks: last item 10 instead of 30); for 2^30 shorts s32 datasize is
   negative (MPI_ERR_COUNT).  The repaired calls carry count * 8 = datasize bytes for the same input.  A revert changes the
   generated rec_msgK_count / a2a_post_body / a2a_send_whole (free variable datasize instead of count: the group fails). *)
Theorem gen_msg_bytes_old_refuted :
  let sz := rec_datasize 536870913 8 in
  sz = 4294967304 /\ s32 sz = 8 /\ s32 sz <> sz /\
  s32 (rec_datasize 1073741824 2) = -2147483648 /\
  rec_msg3_count 536870913 * 8 = sz /\ rec_msg3_count 1073741824 * 2 = rec_datasize 1073741824 2.
Proof. vm_compute. repeat split; try reflexivity. discriminate. Qed.
