(* C03 - sc_allreduce: the every-schedule theorem for the LITERAL per-rank program `reduce_prog P m true 0 me`
   (C03/ReduceModel.v; the program that is extracted and co-simulated against the traces of the real code), under
   the POSTED-RECEIVE interleaving semantics of MPI/SemPosted.v.

   The literal program lists the all-to-all window in posting order, Irecv(peer_0); Isend(peer_0); Irecv(peer_1); ...
   Under the blocking reading of MPI/Sem.v that system is stuck (ReduceSched.allreduce_posting_order_blocks); under
   the posted reading - a pending Irecv does not hold back the Isends posted after it, receives of the window are
   completed in any order as the messages arrive, the computation after Waitall runs when all of them are complete -
   it is not.  The proof has three parts:
   1. `nbeq` (ReduceSched.v: congruence closure of "a send moves in front of an earlier posted receive whose reply it
      does not use") is a SIMULATION for step_p: if p is nbeq-related to q and q can issue a send / complete a
      receive, then p can do the same and the results are related again (nbeq_canS, nbeq_canR, nbrel_step).
   2. Hence a terminating schedule of the window-normalised system (allreduce_w_one_schedule, a schedule of Sem.v and
      therefore of step_p) is replayed step by step by the literal system, and the final states are EQUAL, since
      only `Ret x` is related to `Ret x` (nbrel_run, nbrel_final).
   3. Confluence of step_p (SemPosted.one_schedule_all_schedules_p) turns the one schedule into all schedules. *)
From Coq Require Import ZArith Lia List Bool.
From ScV Require Import Base.CInt Gen.Consts MPI.Prog MPI.Sem MPI.SemFrame MPI.SemPosted.
From ScV Require Import C03.ReduceModel C03.ReduceProofs C03.ReduceSched.
Import ListNotations.
Local Open Scope Z_scope.

(* ---- nbeq is a simulation for the posted semantics ---------------------------------------------------------- *)
Lemma nbeq_ret p q : nbeq p q -> forall x, q = Ret x -> p = Ret x.
Proof.
  induction 1 as [p|p q r _ IH1 _ IH2|a k k' _ _|src t d t' msg k]; intros x E.
  - exact E.
  - apply IH1. apply IH2. exact E.
  - discriminate.
  - discriminate.
Qed.

Lemma nbeq_canS p q : nbeq p q -> forall d t m, canS q d t m -> canS p d t m /\ nbeq (strip_send p) (strip_send q).
Proof.
  induction 1 as [p|p q r _ IH1 _ IH2|a k k' H IH|src t0 d0 t' msg k]; intros d t m C.
  - split; [exact C|apply nb_refl].
  - destruct (IH2 d t m C) as [Cq Nq]. destruct (IH1 d t m Cq) as [Cp Np].
    split; [exact Cp|]. eapply nb_trans; eassumption.
  - destruct a as [d0 t0 m0|s0 t0|c r0 x]; [| |inversion C].
    + destruct (canS_inv_send _ _ _ _ _ _ _ C) as [-> [-> ->]]. split; [apply canS_here|]. cbn [strip_send]. apply H.
    + pose proof (canS_inv_recv _ _ _ _ _ _ C) as Ck. split.
      * apply canS_skip. intros v. apply (IH v d t m). apply Ck.
      * cbn [strip_send]. apply nb_cong. intros v. apply (IH v d t m). apply Ck.
  - destruct (canS_inv_send _ _ _ _ _ _ _ C) as [-> [-> ->]]. split.
    + apply canS_skip. intros v. apply canS_here.
    + cbn [strip_send]. apply nb_refl.
Qed.

Lemma nbeq_canR p q : nbeq p q -> forall src tg, canR q src tg ->
  canR p src tg /\ forall v, nbeq (strip_recv src tg v p) (strip_recv src tg v q).
Proof.
  induction 1 as [p|p q r _ IH1 _ IH2|a k k' H IH|src0 t0 d0 t' msg k]; intros src tg C.
  - split; [exact C|intros v; apply nb_refl].
  - destruct (IH2 src tg C) as [Cq Nq]. destruct (IH1 src tg Cq) as [Cp Np].
    split; [exact Cp|]. intros v. eapply nb_trans; [apply Np|apply Nq].
  - destruct a as [d0 t0 m0|s0 t0|c r0 x]; [inversion C| |inversion C].
    destruct (canR_inv _ _ _ _ _ C) as [E|[N0 [E Ck]]].
    + assert (s0 = src /\ t0 = tg) as [-> ->] by (unfold keq in E; lia). split; [apply canR_here|].
      intros v. cbn [strip_recv]. rewrite E. apply H.
    + split.
      * apply canR_skip; [exact N0|exact E|]. intros v. apply (IH v src tg). apply Ck.
      * intros v. cbn [strip_recv]. rewrite E. apply nb_cong. intros u. apply (IH u src tg). apply Ck.
  - inversion C.
Qed.

(* two global states: programs related rank by rank, the same channels *)
Definition nbrel (s s' : gs) : Prop :=
  (forall r, nbeq (pr s r) (pr s' r)) /\ (forall a b t, ch s a b t = ch s' a b t).

Lemma nbrel_step s s' r s1' : nbrel s s' -> step_p s' r s1' -> exists s1, step_p s r s1 /\ nbrel s1 s1'.
Proof.
  intros [Hp Hc] Hs. inversion Hs as [? ? d t m C|? ? src t m q S0 C Q]; subst.
  - destruct (nbeq_canS _ _ (Hp r) d t m C) as [C' N'].
    exists (mkgs (updp (pr s) r (strip_send (pr s r))) (updc (ch s) r d t (ch s r d t ++ [m]))).
    split; [apply sp_send; exact C'|]. split; cbn [pr ch].
    + intros x. unfold updp. destruct (x =? r); [exact N'|apply Hp].
    + intros a b t0. unfold updc. rewrite !Hc. reflexivity.
  - destruct (nbeq_canR _ _ (Hp r) src t C) as [C' N'].
    exists (mkgs (updp (pr s) r (strip_recv src t (src :: m) (pr s r))) (updc (ch s) src r t q)).
    split; [apply sp_recv; [exact S0|exact C'|rewrite Hc; exact Q]|]. split; cbn [pr ch].
    + intros x. unfold updp. destruct (x =? r); [apply N'|apply Hp].
    + intros a b t0. unfold updc. rewrite !Hc. reflexivity.
Qed.

Lemma nbrel_run n : forall s s' f', nbrel s s' -> run_p n s' f' -> exists f, run_p n s f /\ nbrel f f'.
Proof.
  induction n as [|n IH]; intros s s' f' HR Hrun.
  - inversion Hrun; subst. exists s. split; [apply runp_nil|exact HR].
  - inversion Hrun as [|? ? r s1' ? Hs Hrest]; subst.
    destruct (nbrel_step s s' r s1' HR Hs) as [s1 [Hs1 HR1]].
    destruct (IH s1 s1' f' HR1 Hrest) as [f [Hf HRf]].
    exists f. split; [econstructor; eassumption|exact HRf].
Qed.

Lemma nbrel_final f f' : nbrel f f' -> final f' -> f = f'.
Proof.
  intros [Hp Hc] Hfin. apply gs_eq; [|exact Hc].
  intros r. destruct (Hfin r) as [o Ho]. rewrite Ho. exact (nbeq_ret _ _ (Hp r) o Ho).
Qed.

(* GENERAL: a system whose programs are the programs of a second system with sends moved behind receives posted
   earlier (nbeq) has, in the posted semantics, every terminating schedule of the second system - and therefore
   all its schedules end in the second system's final state *)
Theorem posting_order_same_result s s' n f : nbrel s s' -> run_p n s' f -> final f ->
  run_p n s f /\ terminal_for_p s f n.
Proof.
  intros HR Hrun Hfin. destruct (nbrel_run n s s' f HR Hrun) as [f0 [Hrun0 HR0]].
  rewrite (nbrel_final f0 f HR0 Hfin) in Hrun0. split; [exact Hrun0|].
  apply one_schedule_all_schedules_p; assumption.
Qed.

(* ---- sc_allreduce: the literal, co-simulated per-rank programs --------------------------------------------- *)
Definition all_start (P : Z) : gs :=
  mkgs (fun r => if (0 <=? r) && (r <? P) then reduce_prog P (maxlevel P) true 0 r else Ret []) (fun _ _ _ => []).

Lemma all_start_spec P :
  (forall r, 0 <= r < P -> pr (all_start P) r = reduce_prog P (maxlevel P) true 0 r) /\
  (forall r, ~ 0 <= r < P -> pr (all_start P) r = Ret []) /\ (forall a b t, ch (all_start P) a b t = []).
Proof.
  split; [|split; [|reflexivity]]; intros r Hr; unfold all_start; cbn [pr].
  - replace ((0 <=? r) && (r <? P)) with true by lia. reflexivity.
  - replace ((0 <=? r) && (r <? P)) with false by lia. reflexivity.
Qed.

Lemma all_start_window_form P : nbrel (all_start P) (all_start_w P).
Proof.
  split; [|reflexivity]. intros r. unfold all_start, all_start_w. cbn [pr].
  destruct ((0 <=? r) && (r <? P)); [apply allreduce_prog_window_form|apply nb_refl].
Qed.

Theorem allreduce_all_schedules P : 1 <= P <= 2 ^ 30 ->
  exists n, run_p n (all_start P) (all_end P) /\ terminal_for_p (all_start P) (all_end P) n.
Proof.
  intros HP. destruct (allreduce_w_one_schedule P HP) as [n Hn]. exists n.
  apply (posting_order_same_result (all_start P) (all_start_w P) n (all_end P)).
  - apply all_start_window_form.
  - apply run_in_run_p. exact Hn.
  - apply all_end_final.
Qed.

(* ---- sc_reduce and the window-normalised allreduce system under the posted semantics ----------------------- *)
Theorem reduce_all_posted_schedules P target : 1 <= P <= 2 ^ 30 -> 0 <= target < P ->
  exists n f, run_p n (red_start P target) f /\ final f /\ pr f target = Ret (sym_reduce_result P) /\
    (forall a b t, ch f a b t = []) /\ terminal_for_p (red_start P target) f n.
Proof.
  intros HP Ht. destruct (reduce_one_schedule P target HP Ht) as [n [f [Hrun [Hfin [Hres Hch]]]]].
  exists n, f. split; [apply run_in_run_p; exact Hrun|]. split; [exact Hfin|]. split; [exact Hres|]. split; [exact Hch|].
  apply blocking_schedule_all_posted_schedules; assumption.
Qed.

(* the two-rank system that is stuck under the blocking reading moves under the posted reading: both ranks issue the
   send of the window although the receive posted before it is pending *)
Example allreduce_posting_order_runs :
  let s0 := mkgs (fun r => if (0 <=? r) && (r <? 2) then reduce_prog 2 (maxlevel 2) true 0 r else Ret []) (fun _ _ _ => []) in
  (exists s', step_p s0 0 s') /\ (exists s', step_p s0 1 s').
Proof.
  cbv zeta. split; eexists; (eapply sp_send; cbn [pr]; vm_compute; apply canS_skip; intros v; apply canS_here).
Qed.
