(* Every error return of sc_puff is one of its documented codes (sc_puff.c: 2, 1, -1 .. -11), for EVERY input and every
   configuration - no precondition: the proof follows the error paths only (a negative symbol can come out of decode ()
   only through a negative table entry; construct () writes symbol numbers, which are not negative).
   The model returns *destlen / *sourcelen unchanged and no output bytes with every error code. *)
From Coq Require Import ZArith List Bool Lia.
From ScV Require Import Base.CInt C06.Res C06.ResProofs C07.PuffModel.
Import ListNotations.
Local Open Scope Z_scope.

Definition doc_code (e : Z) : Prop := -11 <= e <= -1 \/ e = 1 \/ e = 2.
Definition errs {A} (r : res A) : Prop := match r with Err e => doc_code e | _ => True end.
Definition noerr {A} (r : res A) : Prop := match r with Err _ => False | _ => True end.
Definition nonneg (l : list Z) : Prop := Forall (fun x => 0 <= x) l.

Lemma noerr_errs {A} (r : res A) : noerr r -> errs r.
Proof. destruct r; cbn; tauto. Qed.

Lemma bind_errs {A B} (r : res A) (f : A -> res B) : errs r -> (forall a, r = Ok a -> errs (f a)) -> errs (bind r f).
Proof. destruct r; cbn; auto. Qed.

Lemma bind_noerr {A B} (r : res A) (f : A -> res B) : noerr r -> (forall a, r = Ok a -> noerr (f a)) -> noerr (bind r f).
Proof. destruct r; cbn; auto. Qed.

Lemma rd_noerr b i : noerr (rd b i).
Proof. unfold rd. destruct ((0 <=? i) && (i <? len b)); exact I. Qed.
Lemma wr_noerr b i v : noerr (wr b i v).
Proof. unfold wr. destruct ((0 <=? i) && (i <? len b)); exact I. Qed.
Lemma in_byte_noerr s : noerr (in_byte s).
Proof. unfold in_byte. destruct (p_in s); exact I. Qed.
Lemma out_put_noerr c s v : noerr (out_put c s v).
Proof. unfold out_put. destruct ((0 <=? p_outcnt s) && (p_outcnt s <? c_outcap c)); exact I. Qed.
Lemma out_back_noerr s d : noerr (out_back s d).
Proof. unfold out_back. destruct ((0 <=? p_outcnt s - d) && (p_outcnt s - d <? p_outcnt s)); [|exact I]. destruct (nth_error _ _); exact I. Qed.

Lemma doc2 : doc_code 2. Proof. unfold doc_code; lia. Qed.
Lemma doc1 : doc_code 1. Proof. unfold doc_code; lia. Qed.
Ltac docn := cbn; unfold doc_code; lia.

Lemma nonneg_rd l i v : nonneg l -> rd l i = Ok v -> 0 <= v.
Proof.
  intros Hl. unfold rd. destruct ((0 <=? i) && (i <? len l)) eqn:E; [|discriminate]. intros H; injection H as <-.
  apply andb_true_iff in E. destruct E as [E1 E2]. apply Z.leb_le in E1. apply Z.ltb_lt in E2. unfold len in E2.
  unfold nonneg in Hl. rewrite Forall_forall in Hl. apply Hl. apply nth_In. lia.
Qed.

Lemma nonneg_wr l i v l' : nonneg l -> 0 <= v -> wr l i v = Ok l' -> nonneg l'.
Proof.
  intros Hl Hv. unfold wr. destruct ((0 <=? i) && (i <? len l)); [|discriminate]. intros H; injection H as <-.
  unfold upd, nonneg in *. rewrite Forall_forall in *. intros x Hx. apply in_app_or in Hx. destruct Hx as [Hx|[<-|Hx]].
  - apply Hl. eapply In_firstn; eauto.
  - exact Hv.
  - apply Hl. eapply In_skipn; eauto.
Qed.

(* ---- bits, stored --------------------------------------------------------------------------------- *)
Lemma bits_loop_errs : forall fuel c s val need, errs (bits_loop fuel c s val need).
Proof.
  induction fuel as [|f IH]; intros; cbn [bits_loop]; destruct (p_bitcnt s <? need); try exact I.
  destruct (p_incnt s =? c_inlen c); [exact doc2|].
  apply bind_errs; [apply noerr_errs, in_byte_noerr|]. intros [b s1] _. apply IH.
Qed.

Lemma bits_errs c s need : errs (bits c s need).
Proof. unfold bits. apply bind_errs; [apply bits_loop_errs|]. intros [s1 val] _. exact I. Qed.

Lemma stored_errs c s : errs (stored c s).
Proof.
  unfold stored.
  repeat first
    [ exact I | exact doc2 | exact doc1 | docn
    | match goal with
      | |- errs (if ?b then _ else _) => destruct b
      | |- errs (bind (in_byte ?s) _) => apply bind_errs; [apply noerr_errs, in_byte_noerr|intros [? ?] _]
      end ].
Qed.

(* ---- decode ---------------------------------------------------------------------------------------- *)
Definition dpost (r : res (Z * pstate)) : Prop := match r with Ok (sym, _) => 0 <= sym | Err e => doc_code e | _ => True end.

Lemma decode_loop_dpost h : nonneg (h_symbol h) -> forall fuel c s bitbuf lft code first index ln next,
  dpost (decode_loop fuel c h s bitbuf lft code first index ln next).
Proof.
  intros Hn. induction fuel as [|f IH]; intros; cbn [decode_loop]; [exact I|].
  destruct (negb (lft =? 0)).
  - pose proof (rd_noerr (h_count h) next) as N1.
    destruct (rd (h_count h) next) as [cnt| | |]; cbn [bind]; try exact I; [|contradiction].
    destruct (Z.lor code (Z.land bitbuf 1) - cnt <? first); [|apply IH].
    pose proof (rd_noerr (h_symbol h) (index + (Z.lor code (Z.land bitbuf 1) - first))) as N2.
    destruct (rd (h_symbol h) _) as [sym| | |] eqn:E; cbn [bind]; try exact I; [|contradiction].
    cbn. eapply nonneg_rd; eauto.
  - destruct (MAXBITS + 1 - ln =? 0); [docn|]. destruct (p_incnt s =? c_inlen c); [exact doc2|].
    unfold in_byte. destruct (p_in s); cbn [bind]; [exact I|]. apply IH.
Qed.

Lemma decode_dpost c h s : nonneg (h_symbol h) -> dpost (decode c h s).
Proof. intros. unfold decode. now apply decode_loop_dpost. Qed.

(* ---- construct: no error return at all; the symbol table stays non-negative ------------------------------- *)
Lemma zero_counts_noerr : forall k i cnt, noerr (zero_counts k i cnt).
Proof. induction k; intros; cbn [zero_counts]; [exact I|]. apply bind_noerr; [apply wr_noerr|]. intros; apply IHk. Qed.

Lemma count_lengths_noerr : forall k sym lengths loff cnt, noerr (count_lengths k sym lengths loff cnt).
Proof.
  induction k; intros; cbn [count_lengths]; [exact I|].
  apply bind_noerr; [apply rd_noerr|]. intros l _. apply bind_noerr; [apply rd_noerr|]. intros v _.
  apply bind_noerr; [apply wr_noerr|]. intros; apply IHk.
Qed.

Lemma check_left_noerr : forall k ln cnt lft, noerr (check_left k ln cnt lft).
Proof.
  induction k; intros; cbn [check_left]; [exact I|].
  apply bind_noerr; [apply rd_noerr|]. intros v _. destruct (shl lft 1 - v <? 0); [exact I|apply IHk].
Qed.

Lemma make_offs_noerr : forall k ln cnt offs, noerr (make_offs k ln cnt offs).
Proof.
  induction k; intros; cbn [make_offs]; [exact I|].
  apply bind_noerr; [apply rd_noerr|]. intros o _. apply bind_noerr; [apply rd_noerr|]. intros v _.
  apply bind_noerr; [apply wr_noerr|]. intros; apply IHk.
Qed.

Definition tpost (r : res (list Z)) : Prop := match r with Ok t => nonneg t | Err _ => False | _ => True end.

Lemma fill_symbols_tpost : forall k sym lengths loff offs symtab, 0 <= sym -> nonneg symtab ->
  tpost (fill_symbols k sym lengths loff offs symtab).
Proof.
  induction k; intros sym lengths loff offs symtab Hs Hn; cbn [fill_symbols]; [exact Hn|].
  pose proof (rd_noerr lengths (loff + sym)) as N1.
  destruct (rd lengths (loff + sym)) as [l| | |]; cbn [bind]; try exact I; [|contradiction].
  destruct (negb (l =? 0)); [|apply IHk; [lia|exact Hn]].
  pose proof (rd_noerr offs l) as N2.
  destruct (rd offs l) as [o| | |]; cbn [bind]; try exact I; [|contradiction].
  destruct (wr symtab o sym) as [t1| | |] eqn:E; cbn [bind]; try exact I; [|pose proof (wr_noerr symtab o sym) as W; rewrite E in W; exact W].
  destruct (wr offs l (s16 (o + 1))) as [o1| | |] eqn:E2; cbn [bind]; try exact I; [|pose proof (wr_noerr offs l (s16 (o + 1))) as W; rewrite E2 in W; exact W].
  apply IHk; [lia|]. eapply nonneg_wr; eauto.
Qed.

Definition cpost (r : res (Z * huff)) : Prop := match r with Ok (_, h') => nonneg (h_symbol h') | Err _ => False | _ => True end.

Lemma construct_cpost h lengths loff n : nonneg (h_symbol h) -> cpost (construct h lengths loff n).
Proof.
  intros Hn. unfold construct.
  pose proof (zero_counts_noerr 16 0 (h_count h)) as H1. destruct (zero_counts 16 0 (h_count h)) as [cnt| | |]; cbn [bind]; try exact I; [|exact H1].
  pose proof (count_lengths_noerr (Z.to_nat n) 0 lengths loff cnt) as H2. destruct (count_lengths _ _ _ _ _) as [cnt2| | |]; cbn [bind]; try exact I; [|exact H2].
  pose proof (rd_noerr cnt2 0) as H3. destruct (rd cnt2 0) as [c0| | |]; cbn [bind]; try exact I; [|exact H3].
  destruct (c0 =? n); [exact Hn|].
  pose proof (check_left_noerr 15 1 cnt2 1) as H4. destruct (check_left 15 1 cnt2 1) as [[lft|lft]| | |]; cbn [bind]; try exact I; [exact Hn| |exact H4].
  pose proof (wr_noerr (repeat 0 16) 1 0) as H5. destruct (wr (repeat 0 16) 1 0) as [offs| | |]; cbn [bind]; try exact I; [|exact H5].
  pose proof (make_offs_noerr 14 1 cnt2 offs) as H6. destruct (make_offs 14 1 cnt2 offs) as [offs2| | |]; cbn [bind]; try exact I; [|exact H6].
  pose proof (fill_symbols_tpost (Z.to_nat n) 0 lengths loff offs2 (h_symbol h) ltac:(lia) Hn) as H7.
  destruct (fill_symbols _ _ _ _ _ _) as [t| | |]; cbn [bind]; try exact I; [exact H7|exact H7].
Qed.

Lemma nonneg_repeat0 n : nonneg (repeat 0 n).
Proof. unfold nonneg. apply Forall_forall. intros x Hx. apply repeat_spec in Hx. lia. Qed.

(* ---- codes ----------------------------------------------------------------------------------------- *)
Lemma copy_back_noerr : forall k c s d, noerr (copy_back k c s d).
Proof.
  induction k; intros; cbn [copy_back]; [exact I|].
  apply bind_noerr; [apply out_back_noerr|]. intros v _. apply bind_noerr; [apply out_put_noerr|]. intros; apply IHk.
Qed.

Lemma codes_step_errs c lc dc s : nonneg (h_symbol lc) -> nonneg (h_symbol dc) -> errs (codes_step c lc dc s).
Proof.
  intros Hl Hd. unfold codes_step.
  pose proof (decode_dpost c lc s Hl) as H1. destruct (decode c lc s) as [[symbol s1]| | |]; cbn [bind]; try exact I; [|exact H1].
  cbn in H1. destruct (Z.ltb_spec symbol 0); [lia|].
  destruct (symbol <? 256).
  - destruct (negb (c_nil c)); [|exact I]. destruct (p_outcnt s1 =? c_outlen c); [exact doc1|].
    apply bind_errs; [apply noerr_errs, out_put_noerr|]. intros; exact I.
  - destruct (256 <? symbol); [|exact I]. destruct (29 <=? symbol - 257); [docn|].
    apply bind_errs; [apply noerr_errs, rd_noerr|]. intros lbase _.
    apply bind_errs; [apply noerr_errs, rd_noerr|]. intros lx _.
    apply bind_errs; [apply bits_errs|]. intros [eb s2] _.
    pose proof (decode_dpost c dc s2 Hd) as H2. destruct (decode c dc s2) as [[dsym s3]| | |]; cbn [bind]; try exact I; [|exact H2].
    cbn in H2. destruct (Z.ltb_spec dsym 0); [lia|].
    apply bind_errs; [apply noerr_errs, rd_noerr|]. intros dbase _.
    apply bind_errs; [apply noerr_errs, rd_noerr|]. intros dx _.
    apply bind_errs; [apply bits_errs|]. intros [eb2 s4] _.
    destruct (p_outcnt s4 <? u32 (dbase + eb2)); [docn|].
    destruct (negb (c_nil c)); [|exact I]. destruct (c_outlen c <? u64 (p_outcnt s4 + (lbase + eb))); [exact doc1|].
    apply bind_errs; [apply noerr_errs, copy_back_noerr|]. intros; exact I.
Qed.

Lemma loop_nat_errs {A B} (body : A -> A + res B) : (forall a, match body a with inr r => errs r | inl _ => True end) ->
  forall n a, match loop_nat n body a with inr r => errs r | inl _ => True end.
Proof.
  intros Hb. induction n as [|n IH]; intros a; cbn [loop_nat]; [exact I|].
  specialize (Hb a). destruct (body a) as [a'|r]; [apply IH|exact Hb].
Qed.

Lemma run_loop_errs {A B} (body : A -> A + res B) bound a :
  (forall a, match body a with inr r => errs r | inl _ => True end) -> errs (run_loop bound body a).
Proof.
  intros Hb. unfold run_loop. destruct bound as [|p|p]; try exact I.
  rewrite loop_pos_nat. pose proof (loop_nat_errs body Hb (Pos.to_nat p) a) as H.
  destruct (loop_nat (Pos.to_nat p) body a); [exact I|exact H].
Qed.

Lemma lift_step_errs {S} (r : res (bool * S)) : errs r ->
  match lift_step r (fun s => s) with inr r' => errs r' | inl _ => True end.
Proof. destruct r as [[[|] s]| | |]; cbn; auto. Qed.

Lemma codes_errs c lc dc s : nonneg (h_symbol lc) -> nonneg (h_symbol dc) -> errs (codes c lc dc s).
Proof. intros Hl Hd. unfold codes. apply run_loop_errs. intros a. apply lift_step_errs. now apply codes_step_errs. Qed.

Lemma fixed_frame_errs c s (r1 r2 : res (Z * huff)) : cpost r1 -> cpost r2 ->
  errs ('(_, lc) <- r1 ;; '(_, dc) <- r2 ;; codes c lc dc s).
Proof.
  intros H1 H2. destruct r1 as [[e1 lc]| | |]; cbn [bind]; try exact I; [|contradiction].
  destruct r2 as [[e2 dc]| | |]; cbn [bind]; try exact I; [|contradiction].
  apply codes_errs; assumption.
Qed.

Lemma fixed_errs c s : errs (fixed c s).
Proof.
  unfold fixed. apply fixed_frame_errs.
  - unfold fixed_lencode. apply construct_cpost. cbn [h_symbol]. apply nonneg_repeat0.
  - unfold fixed_distcode. apply construct_cpost. cbn [h_symbol]. apply nonneg_repeat0.
Qed.

(* ---- dynamic --------------------------------------------------------------------------------------- *)
Lemma read_cl_errs : forall k index c s lengths, errs (read_cl k index c s lengths).
Proof.
  induction k; intros; cbn [read_cl]; [exact I|].
  apply bind_errs; [apply bits_errs|]. intros [v s1] _.
  apply bind_errs; [apply noerr_errs, rd_noerr|]. intros o _.
  apply bind_errs; [apply noerr_errs, wr_noerr|]. intros; apply IHk.
Qed.

Lemma zero_cl_noerr : forall k index lengths, noerr (zero_cl k index lengths).
Proof.
  induction k; intros; cbn [zero_cl]; [exact I|].
  apply bind_noerr; [apply rd_noerr|]. intros o _. apply bind_noerr; [apply wr_noerr|]. intros; apply IHk.
Qed.

Lemma repeat_len_noerr : forall k index v lengths, noerr (repeat_len k index v lengths).
Proof. induction k; intros; cbn [repeat_len]; [exact I|]. apply bind_noerr; [apply wr_noerr|]. intros; apply IHk. Qed.

Lemma read_lengths_errs lc : nonneg (h_symbol lc) -> forall fuel c s lengths index nlen ndist,
  errs (read_lengths fuel c lc s lengths index nlen ndist).
Proof.
  intros Hl. induction fuel as [|f IH]; intros; cbn [read_lengths]; destruct (index <? nlen + ndist); try exact I.
  pose proof (decode_dpost c lc s Hl) as H1. destruct (decode c lc s) as [[symbol s1]| | |]; cbn [bind]; try exact I; [|exact H1].
  cbn in H1. destruct (Z.ltb_spec symbol 0); [lia|].
  destruct (symbol <? 16).
  - apply bind_errs; [apply noerr_errs, wr_noerr|]. intros; apply IH.
  - apply bind_errs.
    + destruct (symbol =? 16).
      * destruct (index =? 0); [docn|]. apply bind_errs; [apply noerr_errs, rd_noerr|]. intros l _.
        apply bind_errs; [apply bits_errs|]. intros [v s2] _. exact I.
      * destruct (symbol =? 17); (apply bind_errs; [apply bits_errs|]; intros [v s2] _; exact I).
    + intros [[ln sym2] s2] _. destruct (nlen + ndist <? index + sym2); [docn|].
      apply bind_errs; [apply noerr_errs, repeat_len_noerr|]. intros; apply IH.
Qed.

Lemma dynamic_errs c s : errs (dynamic c s).
Proof.
  unfold dynamic.
  apply bind_errs; [apply bits_errs|]. intros [v1 s1] _.
  apply bind_errs; [apply bits_errs|]. intros [v2 s2] _.
  apply bind_errs; [apply bits_errs|]. intros [v3 s3] _.
  destruct ((MAXLCODES <? v1 + 257) || (MAXDCODES <? v2 + 1)); [docn|].
  apply bind_errs; [apply read_cl_errs|]. intros [s4 l4] _.
  apply bind_errs; [apply noerr_errs, zero_cl_noerr|]. intros l5 _.
  pose proof (construct_cpost (mkH (repeat 0 16) (repeat 0 286)) l5 0 19 (nonneg_repeat0 _)) as H1.
  destruct (construct _ l5 0 19) as [[err lc]| | |]; cbn [bind]; try exact I; [|contradiction].
  destruct (negb (err =? 0)); [docn|].
  apply bind_errs; [now apply read_lengths_errs|]. intros [s6 l6] _.
  apply bind_errs; [apply noerr_errs, rd_noerr|]. intros l256 _.
  destruct (l256 =? 0); [docn|].
  pose proof (construct_cpost lc l6 0 (v1 + 257) H1) as H2.
  destruct (construct lc l6 0 (v1 + 257)) as [[err2 lc2]| | |]; cbn [bind]; try exact I; [|contradiction].
  apply bind_errs; [apply noerr_errs, rd_noerr|]. intros c0 _.
  apply bind_errs; [apply noerr_errs, rd_noerr|]. intros c1 _.
  destruct (negb (err2 =? 0) && ((err2 <? 0) || negb (v1 + 257 =? c0 + c1))); [docn|].
  pose proof (construct_cpost (mkH (repeat 0 16) (repeat 0 30)) l6 (v1 + 257) (v2 + 1) (nonneg_repeat0 _)) as H3.
  destruct (construct _ l6 (v1 + 257) (v2 + 1)) as [[err3 dc]| | |]; cbn [bind]; try exact I; [|contradiction].
  apply bind_errs; [apply noerr_errs, rd_noerr|]. intros d0 _.
  apply bind_errs; [apply noerr_errs, rd_noerr|]. intros d1 _.
  destruct (negb (err3 =? 0) && ((err3 <? 0) || negb (v2 + 1 =? d0 + d1))); [docn|].
  apply codes_errs; assumption.
Qed.

(* ---- sc_puff --------------------------------------------------------------------------------------- *)
Lemma block_step_errs c s : errs (block_step c s).
Proof.
  unfold block_step.
  apply bind_errs; [apply bits_errs|]. intros [last s1] _.
  apply bind_errs; [apply bits_errs|]. intros [type s2] _.
  apply bind_errs; [|intros; exact I].
  destruct (type =? 0); [apply stored_errs|]. destruct (type =? 1); [apply fixed_errs|]. destruct (type =? 2); [apply dynamic_errs|]. docn.
Qed.

(* the return value is 0 or a documented code; with a code the lengths come back unchanged and no byte is delivered *)
Theorem puff_codes : forall nil outcap destlen src sourcelen,
  match puff nil outcap destlen src sourcelen with
  | Ok (rc, dl, sl, ob) => (rc = 0 \/ doc_code rc) /\ (rc <> 0 -> dl = destlen /\ sl = sourcelen /\ ob = [])
  | Err _ => False
  | _ => True
  end.
Proof.
  intros. unfold puff.
  pose proof (run_loop_errs (fun s => lift_step (block_step (mkCfg nil destlen outcap sourcelen) s) (fun s => s)) (8 * sourcelen + 8)
                (mkSt [] 0 src 0 0 0) (fun a => lift_step_errs _ (block_step_errs _ a))) as H.
  destruct (run_loop _ _ _) as [s|e| |]; try exact I.
  - split; [left; reflexivity|]. intros Hc; contradiction.
  - cbn in H. split; [right; exact H|]. intros _. repeat split.
Qed.

(* non-vacuity: a stream with block type 3 gives -1, an empty input gives 2 *)
Example puff_codes_ex : puff false 4 4 [7] 1 = Ok (-1, 4, 1, []) /\ puff false 4 4 [] 0 = Ok (2, 4, 0, []).
Proof. split; vm_compute; reflexivity. Qed.
