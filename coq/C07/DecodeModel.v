(* sc_io_decode_info, sc_io_decode and sc_io_nonuncompress (sc_io.c): instrumented model.
   Every access to the input text, to base_out[76] / dec[12], to the array `compressed`, and to the
   destination carries its index and is checked against the size of the buffer (result Oob); the
   line arithmetic is the GENERATED slice of the C function (Gen/Codec.v: dec_base64_lines,
   dec_compressed_size, dec_guard_short, dec_irem, dec_lein), size_t arithmetic wraps modulo 2^64.
   A read of a byte of `compressed` that was never written counts as Oob as well.
   Definitions only. *)
From Coq Require Import ZArith List Bool.
From ScV Require Import Base.CInt Gen.Codec C06.Res C06.B64Model C06.StoredModel C07.PuffModel.
Import ListNotations.
Local Open Scope Z_scope.

(* the output array as the caller passes it: an owner of any current size, or a view whose
   memory holds o_cnt * o_esz bytes; in-place operation passes the descriptor of the input array *)
Record outdesc := mkOut { o_owner : bool; o_esz : Z; o_cnt : Z }.

(* ---- sc_io_decode_info --------------------------------------------------------------------- *)
Fixpoint be_value (l : list Z) (acc : Z) : Z :=       (* osize |= ((size_t) uc) << ((7 - i) * 8) *)
  match l with
  | [] => acc
  | x :: r => be_value r (Z.lor acc (u64 (shl x (Z.of_nat (length r) * 8))))
  end.

(* result: (original size, format character) *)
Definition sc_decode_info (data : list Z) : res (Z * Z) :=
  if len data <? 12 then Err (-1) else
  code <- slice data 0 12 ;;
  '(osize, dec, _) <- decode_block code (repeat 0 12) d_init ;;
  if negb (osize =? 9) then Err (-1) else
  hdr <- slice dec 0 8 ;;
  fc <- rd dec 8 ;;
  Ok (be_value hdr 0, fc).

(* ---- sc_io_nonuncompress (SC_PUFF_INCLUDED is defined by sc_puff.h) -------------------------- *)
(* src: the src_size bytes at the source pointer; dest_cap: bytes really available at dest *)
Definition nonuncompress (src : list Z) (dest_size dest_cap : Z) (dest_nil : bool) : res (list Z) :=
  let src_size := len src in
  if src_size <? 2 then Err (-1) else
  uca <- rd src 0 ;;
  if negb (Z.land uca 143 =? 8) then Err (-1) else
  ucb <- rd src 1 ;;
  if negb ((u32 (shl uca 8) + ucb) mod 31 =? 0) then Err (-1) else
  if negb (Z.land ucb 32 =? 0) then Err (-1) else
  let src := skipn 2 src in
  let src_size := src_size - 2 in
  if src_size <? 5 then Err (-1) else
  let sourcelen := u64 (src_size - 4) in
  '(err, destlen, srclen, outb) <- puff dest_nil dest_cap dest_size src sourcelen ;;
  if negb (err =? 0) then Err (-1) else
  if negb (destlen =? dest_size) || negb (srclen =? u64 (src_size - 4)) then Err (-1) else
  let adler := adler_update adler_init outb in        (* reads dest[0 .. dest_size) *)
  tail <- slice src srclen 4 ;;                        (* src += sourcelen; src[0..3] *)
  if list_eq_dec Z.eq_dec tail (be4 adler) then Ok outb else Err (-1).

(* ---- sc_io_decode ---------------------------------------------------------------------------- *)
(* memcpy (opos, base_out, n): reads base_out[0..n), writes compressed[ocnt .. ocnt+n);
   rcomp = the bytes of `compressed` written so far, last first *)
Definition comp_append (rcomp : list Z) (ocnt csize : Z) (pt : list Z) (n : Z) : res (list Z) :=
  blk <- slice pt 0 n ;;
  if csize <? ocnt + n then Oob else Ok (rev_append blk rcomp).

(* the for loop over the lines; k = lines still to read, zlin = base64_lines - k;
   dlen = size of the input array, irest = the input from index ipos on *)
Fixpoint dec_lines (k : nat) (dlen : Z) (irest : list Z) (ipos irem zlin lines : Z)
         (rcomp : list Z) (ocnt csize : Z) (pt : list Z) (bst : dstate) : res (list Z * Z) :=
  match k with
  | O => Ok (rev_append rcomp [], ocnt)
  | S k' =>
    let lein := dec_lein irem in
    if negb ((0 <=? ipos) && (ipos + lein <=? dlen)) then Oob else   (* code_in[0 .. lein) *)
    let code := firstn (Z.to_nat lein) irest in
    '(lout, pt1, bst1) <- decode_block code pt bst ;;
    if lout =? 0 then Err (-1) else
    if zlin <? u64 (lines - 1) then
      if negb (lout =? 57) then Err (-1) else
      comp1 <- comp_append rcomp ocnt csize pt1 57 ;;
      dec_lines k' dlen (skipn 78 irest) (ipos + 78) (u64 (irem - 76)) (zlin + 1) lines
                comp1 (u64 (ocnt + 57)) csize pt1 bst1
    else
      comp1 <- comp_append rcomp ocnt csize pt1 lout ;;
      dec_lines k' dlen (skipn (Z.to_nat (lein + 2)) irest) (ipos + (lein + 2)) (u64 (irem - lein)) (zlin + 1) lines
                comp1 (u64 (ocnt + lout)) csize pt1 bst1
  end.

(* sc_array_resize (out, size / elem_size) on an OWNER of `size` bytes allocates SC_ROUNDUP2_64 (size) =
   1LL << (SC_LOG2_64 (size - 1) + 1) bytes.  For size > 2^63 the shift count is 64 - undefined in C; gcc on
   x86-64 shifts by the count modulo 64 and the allocation has ONE byte (observed with ASan: finding
   declared-size-over-2^62, repaired by 5c6a588: the guard dec_guard_ratio makes such sizes unreachable for
   inputs below 2^51 bytes).  Otherwise the model keeps exactly `size` bytes: the surplus of the rounding is
   never relied upon, and a failing allocation aborts the process (no memory access). *)
Definition owner_capacity (size : Z) : Z := if 9223372036854775808 <? size then 1 else size.

(* `unc src dest_size dest_cap dest_nil`: the decompressor of the build
   (sc_io_nonuncompress, or zlib's uncompress followed by the length check) *)
Definition sc_decode_with (unc : list Z -> Z -> Z -> bool -> res (list Z))
           (data : list Z) (out : outdesc) (maxsz : Z) : res (Z * list Z) :=
  let encoded_size := len data in
  if encoded_size =? 0 then Err (-1) else
  last <- rd data (encoded_size - 1) ;;
  if negb (last =? 0) then Err (-1) else
  let lines := dec_base64_lines encoded_size in
  let csize := dec_compressed_size lines in
  if dec_guard_short encoded_size lines then Err (-1) else
  let irem := dec_irem encoded_size lines in
  '(comp, ocnt) <- dec_lines (Z.to_nat lines) encoded_size data 0 irem 0 lines [] 0 csize (repeat 0 76) d_init ;;
  if ocnt <? 9 then Err (-1) else
  fc <- rd comp 8 ;;
  if negb (fc =? 122) then Err (-1) else
  hdr <- slice comp 0 8 ;;
  let size := be_value hdr 0 in
  if dec_guard_ratio size ocnt then Err (-1) else           (* commit 5c6a588: size / 1032 > ocnt is refused *)
  if negb (size mod o_esz out =? 0) then Err (-1) else
  if (0 <? maxsz) && (maxsz <? size) then Err (-1) else
  if negb (o_owner out) && (u64 (o_cnt out * o_esz out) <? size) then Err (-1) else
  (* sc_array_resize (out, size / elem_size): an owner now holds `size` bytes (array == NULL when 0),
     a view keeps its memory *)
  let dest_cap := if o_owner out then owner_capacity size else o_cnt out * o_esz out in
  let dest_nil := o_owner out && (size =? 0) in
  src <- slice comp 9 (u64 (ocnt - 9)) ;;
  bytes <- unc src size dest_cap dest_nil ;;
  Ok (size / o_esz out, bytes).

(* the function as it was before commit 5c6a588 (no bound on the declared size): kept only for the regression
   theorem C07_decode_old_refuted *)
Definition sc_decode_with_old (unc : list Z -> Z -> Z -> bool -> res (list Z))
           (data : list Z) (out : outdesc) (maxsz : Z) : res (Z * list Z) :=
  let encoded_size := len data in
  if encoded_size =? 0 then Err (-1) else
  last <- rd data (encoded_size - 1) ;;
  if negb (last =? 0) then Err (-1) else
  let lines := dec_base64_lines encoded_size in
  let csize := dec_compressed_size lines in
  if dec_guard_short encoded_size lines then Err (-1) else
  let irem := dec_irem encoded_size lines in
  '(comp, ocnt) <- dec_lines (Z.to_nat lines) encoded_size data 0 irem 0 lines [] 0 csize (repeat 0 76) d_init ;;
  if ocnt <? 9 then Err (-1) else
  fc <- rd comp 8 ;;
  if negb (fc =? 122) then Err (-1) else
  hdr <- slice comp 0 8 ;;
  let size := be_value hdr 0 in
  if negb (size mod o_esz out =? 0) then Err (-1) else
  if (0 <? maxsz) && (maxsz <? size) then Err (-1) else
  if negb (o_owner out) && (u64 (o_cnt out * o_esz out) <? size) then Err (-1) else
  (* sc_array_resize (out, size / elem_size): an owner now holds `size` bytes (array == NULL when 0),
     a view keeps its memory *)
  let dest_cap := if o_owner out then owner_capacity size else o_cnt out * o_esz out in
  let dest_nil := o_owner out && (size =? 0) in
  src <- slice comp 9 (u64 (ocnt - 9)) ;;
  bytes <- unc src size dest_cap dest_nil ;;
  Ok (size / o_esz out, bytes).

(* the build without zlib *)
Definition sc_decode (data : list Z) (out : outdesc) (maxsz : Z) : res (Z * list Z) :=
  sc_decode_with nonuncompress data out maxsz.
Definition sc_decode_old (data : list Z) (out : outdesc) (maxsz : Z) : res (Z * list Z) :=
  sc_decode_with_old nonuncompress data out maxsz.

(* the build with zlib: uncompress (dest, &uncompsize = size, src, len) then `uncompsize != size` *)
(* uncompress may write anywhere in dest[0 .. size): the destination must really have `size` bytes *)
Definition zlib_unc (inflate : list Z -> Z -> option (list Z)) (src : list Z) (size cap : Z) (nil : bool) : res (list Z) :=
  if cap <? size then Oob else
  match inflate src size with
  | Some d => if len d =? size then Ok d else Err (-1)
  | None => Err (-1)
  end.
