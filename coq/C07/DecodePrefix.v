(* Truncated input and the terminating NUL.
   * every prefix of every text (with and without a NUL appended) through sc_io_decode: an error or a result that
     satisfies decode_post - never an access outside a buffer, never an exhausted bound; a prefix of at least 12
     characters that is accepted delivers exactly the size the FULL text declares (never shorter data);
   * sc_puff on every truncation of its input: safe;
   * the code characters of line zlin end at least 3 bytes in front of the end of the array: the NUL is never read as code
     and nothing behind it is read (closed forms of the generated line arithmetic). *)
From Coq Require Import ZArith List Bool Lia.
From ScV Require Import Base.CInt Gen.Codec Gen.DecodeC07 C06.Res C06.ResProofs C06.B64Model C07.PuffModel C07.DecodeModel
  C07.PuffSafe C07.PuffHuffman C07.DecodeSafe.
Import ListNotations.
Local Open Scope Z_scope.

Lemma len_firstn_le {A} k (l : list A) : len (firstn k l) <= len l.
Proof. rewrite len_firstn_nat. lia. Qed.

Theorem decode_prefixes_safe : forall text out maxsz, bytes text -> len text + 1 < DATA_MAX -> out_ok out -> 0 <= maxsz ->
  forall k, decode_post out maxsz (sc_decode (firstn k text) out maxsz) /\
            decode_post out maxsz (sc_decode (firstn k text ++ [0]) out maxsz).
Proof.
  intros text out maxsz Hb Hl Ho Hm k. pose proof (len_firstn_le k text). split; apply decode_safe; auto.
  - now apply bytes_firstn.
  - lia.
  - apply bytes_app. split; [now apply bytes_firstn|]. apply bytes_cons. split; [unfold byte; lia|apply bytes_nil].
  - rewrite len_app, len_cons, len_nil. lia.
Qed.

Lemma info_prefix : forall text k, (12 <= k)%nat -> 12 <= len text -> sc_decode_info (firstn k text ++ [0]) = sc_decode_info text.
Proof.
  intros text k Hk Hl. unfold sc_decode_info.
  assert (Hlen : 12 <= len (firstn k text ++ [0])).
  { rewrite len_app, len_firstn_nat, len_cons, len_nil. lia. }
  destruct (Z.ltb_spec (len (firstn k text ++ [0])) 12); [lia|]. destruct (Z.ltb_spec (len text) 12); [lia|].
  rewrite !slice_ok by lia. change (Z.to_nat 0) with 0%nat. rewrite !skipn_O.
  replace (firstn (Z.to_nat 12) (firstn k text ++ [0])) with (firstn (Z.to_nat 12) text); [reflexivity|].
  change (Z.to_nat 12) with 12%nat. rewrite firstn_app. rewrite firstn_firstn. rewrite Nat.min_l by lia.
  replace (12 - length (firstn k text))%nat with 0%nat; [cbn [firstn]; now rewrite app_nil_r|].
  rewrite firstn_length. unfold len in Hl. lia.
Qed.

(* never shorter data: an accepted truncation (at least the 12 header characters kept) delivers the declared size *)
Theorem decode_prefix_size : forall unc text out maxsz k n b sz fc,
  (12 <= k)%nat -> len text + 1 < BIG -> 0 < o_esz out ->
  sc_decode_with unc (firstn k text ++ [0]) out maxsz = Ok (n, b) -> sc_decode_info text = Ok (sz, fc) ->
  sz = n * o_esz out /\ fc = 122.
Proof.
  intros unc text out maxsz k n b sz fc Hk Hl He Hd Hi.
  assert (H12 : 12 <= len text).
  { unfold sc_decode_info in Hi. destruct (Z.ltb_spec (len text) 12); [discriminate|lia]. }
  rewrite <- (info_prefix text k Hk H12) in Hi.
  pose proof (len_firstn_le k text).
  assert (Hlt : len (firstn k text ++ [0]) < BIG) by (unfold BIG in *; rewrite len_app, len_cons, len_nil; lia).
  destruct (decode_info_consistent unc (firstn k text ++ [0]) out maxsz n b sz fc Hlt He Hd Hi) as (A & _ & C).
  split; assumption.
Qed.

(* sc_puff on every truncation of its input (the memory ends where the claimed length ends, or goes on behind it) *)
Theorem puff_truncations_safe : forall nil outcap destlen src, bytes src -> len src < BIG ->
  (nil = false -> 0 <= destlen <= outcap /\ outcap < BIG) ->
  forall k, puff_post nil destlen (len (firstn k src)) (puff nil outcap destlen (firstn k src) (len (firstn k src))) /\
            (Z.of_nat k <= len src -> puff_post nil destlen (Z.of_nat k) (puff nil outcap destlen src (Z.of_nat k))).
Proof.
  intros nil outcap destlen src Hb Hl Hd k. pose proof (len_firstn_le k src). pose proof (len_nonneg (firstn k src)). split.
  - apply puff_safe; auto; [now apply bytes_firstn|lia|lia].
  - intros Hk. apply puff_safe; auto. lia.
Qed.

(* the terminating NUL: line zlin (0 <= zlin < L) starts at character 78 * zlin with irem0 - 76 * zlin code characters left
   (the iterates of the generated line arithmetic dec_line_full: ipos + 78, irem - 76); its code characters end at least
   2 * (L - zlin) + 1 >= 3 bytes in front of the end of the array, so the last byte (the NUL) is never read *)
Theorem decode_reads_before_nul : forall E zlin,
  1 <= E < BIG -> dec_guard_short E (dec_base64_lines E) = false -> 0 <= zlin < dec_base64_lines E ->
  let L := dec_base64_lines E in
  let ipos := 78 * zlin in
  let irem := dec_irem E L - 76 * zlin in
  0 <= ipos /\ ipos + dec_lein irem <= E - 1 - 2 * (L - zlin) /\ ipos + dec_lein irem <= E - 3.
Proof.
  intros E zlin HE Hg Hz. cbv zeta. rewrite lines_eq in * by exact HE.
  set (L := (E + 76) / 78) in *.
  assert (HL : 0 <= L /\ 78 * L <= E + 76 /\ E + 76 < 78 * L + 78) by (unfold L; lia).
  rewrite guard_eq in Hg by (unfold BIG in *; lia). apply Z.ltb_ge in Hg.
  rewrite irem_eq by (unfold BIG in *; lia). rewrite dec_lein_eq. lia.
Qed.

(* the moves of the generated line arithmetic are the ones used above *)
Theorem decode_line_moves : forall ipos irem opos ocnt, 76 <= irem < BIG -> 0 <= ocnt < BIG ->
  dec_line_full ipos irem opos ocnt = (57, ipos + 78, irem - 76, opos + 57, ocnt + 57, 0).
Proof.
  intros ipos irem opos ocnt Hi Ho. unfold dec_line_full, BIG in *.
  replace (s32 (s32 (s32 (s32 (cdiv 57 3) * 4) + 1) + 1)) with 78 by reflexivity.
  replace (u64 (s32 (s32 (cdiv 57 3) * 4))) with 76 by reflexivity.
  rewrite !u64_id by (unfold M64; lia). reflexivity.
Qed.


(* ---- the lower boundary of sc_io_nonuncompress --------------------------------------------------------------------------
   Behind the 2-byte zlib header at least 5 bytes must follow (one byte of deflate data and the 4 bytes of the adler32): a shorter
   source is refused with -1 BEFORE sc_puff is called, for every content and every destination.  The test `src_size < 5` is what
   keeps `sourcelen = src_size - 4` (unsigned long) from wrapping: whenever the model calls puff, the claimed length is
   len src - 6, at least 1 and 4 less than the bytes that follow the header. *)
Theorem nonuncompress_short_input : forall src dest_size dest_cap dest_nil,
  len src < 7 -> nonuncompress src dest_size dest_cap dest_nil = Err (-1).
Proof.
  intros src ds dc dn Hl. unfold nonuncompress. pose proof (len_nonneg src).
  destruct (Z.ltb_spec (len src) 2); [reflexivity|].
  rewrite (rd_ok src 0), (rd_ok src 1) by lia. cbn [bind].
  destruct (negb (Z.land (nth (Z.to_nat 0) src 0) 143 =? 8)); [reflexivity|].
  destruct (negb ((u32 (shl (nth (Z.to_nat 0) src 0) 8) + nth (Z.to_nat 1) src 0) mod 31 =? 0)); [reflexivity|].
  destruct (negb (Z.land (nth (Z.to_nat 1) src 0) 32 =? 0)); [reflexivity|].
  destruct (Z.ltb_spec (len src - 2) 5); [reflexivity|lia].
Qed.

(* the claimed input length handed to sc_puff never wraps: it is the number of bytes behind the header minus the 4 trailer bytes *)
Theorem nonuncompress_sourcelen_no_wrap : forall src : list Z, 7 <= len src < BIG ->
  let src_size := len src - 2 in
  (src_size <? 5) = false /\ u64 (src_size - 4) = len src - 6 /\ 1 <= len src - 6 /\ len src - 6 + 4 = len (skipn 2 src).
Proof.
  intros src Hl. cbv zeta. unfold BIG in Hl. split; [apply Z.ltb_ge; lia|]. split; [rewrite u64_id by (unfold M64; lia); lia|].
  split; [lia|]. rewrite len_skipn_nat. lia.
Qed.

(* non-vacuity: zlib header 78 01, one byte 0xbb behind it (a final fixed block that would not end): refused, whatever the destination *)
Example nonuncompress_short_ex : nonuncompress [120; 1; 187] 0 0 true = Err (-1) /\ nonuncompress [120; 1; 187; 190; 190; 190] 4096 4096 false = Err (-1).
Proof. split; vm_compute; reflexivity. Qed.

(* non-vacuity: a text cut in the middle of its second line is refused, its first 12 characters still declare the size *)
Example prefix_ex : sc_decode (firstn 20 ex_data ++ [0]) (mkOut true 1 0) 0 = Err (-1).
Proof. vm_compute. reflexivity. Qed.
