(* sc_io_decode_info / sc_io_decode / sc_io_nonuncompress (C07/DecodeModel.v): for EVERY input the
   instrumented model never reads or writes outside a buffer (Oob), never exhausts an iteration bound
   (NoFuel), fails only with the code -1, and a successful result respects the size declared in the
   header, the element size, the maximum and the capacity of a view.

   The theorems hold for every input text below DATA_MAX = 2^52 bytes, every kind of output array and
   every maximum: the guard of commit 5c6a588 (declared size / 1032 <= decoded bytes) keeps every
   accepted declared size below BIG = 2^62, so that sc_array_resize really provides that many bytes.
   The code before that commit is refuted by a concrete text (decode_old_refuted). *)
From Coq Require Import ZArith List Bool Lia.
From ScV Require Import Base.CInt Gen.Codec C06.Res C06.ResProofs C06.B64Model C06.B64Proofs
     C06.StoredModel C06.AdlerProofs C07.PuffModel C07.PuffSafe C07.PuffHuffman C07.DecodeModel.
Import ListNotations.
Local Open Scope Z_scope.

(* ---- the generated index formulas without wrap-around ------------------------------------------ *)
Lemma c77 : (u64 (s32 ((s32 ((s32 (cdiv 57 3)) * 4)) + 1))) = 77.  Proof. reflexivity. Qed.
Lemma c78 : (u64 (s32 ((s32 ((s32 ((s32 (cdiv 57 3)) * 4)) + 1)) + 1))) = 78.  Proof. reflexivity. Qed.
Lemma c76 : (u64 (s32 ((s32 (cdiv 57 3)) * 4))) = 76.  Proof. reflexivity. Qed.

Lemma BIG_M64 : BIG < M64.  Proof. reflexivity. Qed.

Lemma lines_eq E : 1 <= E < BIG -> dec_base64_lines E = (E + 76) / 78.
Proof.
  intros H. unfold dec_base64_lines. rewrite c77, c78. unfold BIG in H.
  rewrite (u64_id (E - 1)) by (unfold M64; lia). rewrite u64_id by (unfold M64; lia). f_equal; lia.
Qed.

Lemma dec_lein_eq irem : dec_lein irem = Z.min irem 76.
Proof. unfold dec_lein. rewrite c76. destruct (Z.ltb_spec irem 76); lia. Qed.

Lemma guard_eq E L : 1 <= E < BIG -> 0 <= L < BIG -> dec_guard_short E L = (E - 1 <? 2 * L).
Proof.
  intros H1 H2. unfold dec_guard_short, BIG in *.
  rewrite (u64_id (E - 1)), (u64_id (2 * L)) by (unfold M64; lia). reflexivity.
Qed.

Lemma irem_eq E L : 1 <= E < BIG -> 0 <= L -> 2 * L <= E - 1 -> dec_irem E L = E - 1 - 2 * L.
Proof.
  intros H1 H2 H3. unfold dec_irem, BIG in *.
  rewrite (u64_id (E - 1)), (u64_id (2 * L)) by (unfold M64; lia). rewrite u64_id by (unfold M64; lia). reflexivity.
Qed.

Lemma csize_eq L : 0 <= 57 * L < M64 -> dec_compressed_size L = 57 * L.
Proof. intros H. unfold dec_compressed_size. rewrite u64_id by lia. lia. Qed.

(* ---- results ----------------------------------------------------------------------------------- *)
Definition res_safe {A} (P : A -> Prop) (r : res A) : Prop :=
  match r with Ok a => P a | Err e => e = -1 | Oob => False | NoFuel => False end.

(* ---- the pure base64 decoder emits bytes ------------------------------------------------------- *)
Lemma u8_byte x : byte (u8 x).
Proof. unfold byte, u8. apply wrapu_range. reflexivity. Qed.

Lemma pdec_char_bytes st c : bytes (snd (pdec_char st c)).
Proof.
  unfold pdec_char. destruct (dec_value c <? 0); [apply bytes_nil|].
  destruct st; cbn [snd]; try apply bytes_nil; (apply bytes_cons; split; [apply u8_byte|apply bytes_nil]).
Qed.

Lemma pdec_bytes cs : forall st, bytes (snd (pdec cs st)).
Proof.
  induction cs as [|c cs IH]; intros st; cbn [pdec]; [apply bytes_nil|].
  pose proof (pdec_char_bytes st c) as H1. destruct (pdec_char st c) as [s1 o1].
  pose proof (IH s1) as H2. destruct (pdec cs s1) as [s2 o2]. cbn [snd] in *. apply bytes_app; auto.
Qed.

Lemma psi_nonneg s : 0 <= psi s <= 3.
Proof. destruct s; cbn; lia. Qed.

(* ---- the loop over the lines -------------------------------------------------------------------- *)
Definition lines_post (csize : Z) (r : list Z * Z) : Prop :=
  let '(comp, oc) := r in oc = len comp /\ bytes comp /\ len comp <= csize.

Lemma dec_lines_safe : forall k dlen irest ipos irem zlin lines rcomp ocnt csize pt bst,
  Z.of_nat k = lines - zlin -> 0 <= zlin -> 57 * lines < BIG ->
  0 <= ipos -> 0 <= irem -> ipos + irem + 2 * (lines - zlin) = dlen - 1 -> dlen < BIG ->
  len pt = 76 -> ocnt = len rcomp -> ocnt <= 57 * zlin -> csize = 57 * lines -> bytes rcomp ->
  psi (d_step bst) = 0 ->
  res_safe (lines_post csize) (dec_lines k dlen irest ipos irem zlin lines rcomp ocnt csize pt bst).
Proof.
  induction k as [|k IH]; intros dlen irest ipos irem zlin lines rcomp ocnt csize pt bst
    Hk Hz HL Hip Hir Hrel Hd Hpt Hoc Hoc2 Hcs Hrc Hpsi; pose proof (len_nonneg rcomp) as Hrn.
  - cbn [dec_lines res_safe lines_post]. rewrite rev_append_rev, app_nil_r, len_rev.
    split; [exact Hoc|]. split; [now apply bytes_rev|]. lia.
  - cbn [dec_lines]. rewrite dec_lein_eq. set (lein := Z.min irem 76).
    replace ((0 <=? ipos) && (ipos + lein <=? dlen)) with true
      by (symmetry; apply andb_true_iff; split; apply Z.leb_le; lia).
    cbn [negb]. set (code := firstn (Z.to_nat lein) irest).
    assert (Hcode : len code <= lein).
    { unfold code. rewrite len_firstn_nat. lia. }
    destruct (decode_block_refine code pt bst) as (lout & pt' & st' & E & L & _ & F & A & Q & R); [lia|].
    rewrite E. cbn [bind]. rewrite Hpsi in Q. pose proof (psi_nonneg (d_step st')) as Hps'.
    destruct (Z.eqb_spec lout 0) as [|Hl0]; [reflexivity|].
    unfold BIG in *. rewrite (u64_id (lines - 1)) by (unfold M64; lia).
    assert (Hblk : bytes (firstn (Z.to_nat lout) (skipn (Z.to_nat 0) pt'))).
    { change (Z.to_nat 0) with 0%nat. rewrite skipn_O, F. apply pdec_bytes. }
    destruct (Z.ltb_spec zlin (lines - 1)) as [Hnf|Hfin].
    + destruct (Z.eqb_spec lout 57) as [H57|]; cbn [negb]; [|reflexivity]. subst lout.
      unfold comp_append. rewrite slice_ok by lia. cbn [bind].
      destruct (Z.ltb_spec csize (ocnt + 57)); [lia|].
      rewrite (u64_id (irem - 76)) by (unfold M64; lia). rewrite (u64_id (ocnt + 57)) by (unfold M64; lia).
      apply IH; try lia.
      * rewrite rev_append_rev, len_app, len_rev, len_firstn by (rewrite len_skipn; lia).
        rewrite <- Hoc. lia.
      * rewrite rev_append_rev. apply bytes_app; split; [now apply bytes_rev|exact Hrc].
    + unfold comp_append. rewrite slice_ok by lia. cbn [bind].
      destruct (Z.ltb_spec csize (ocnt + lout)); [lia|].
      rewrite (u64_id (irem - lein)) by (unfold M64; lia). rewrite (u64_id (ocnt + lout)) by (unfold M64; lia).
      assert (Hk0 : k = 0%nat) by lia. subst k.
      cbn [dec_lines bind res_safe lines_post].
      rewrite !rev_append_rev, app_nil_r, len_rev, len_app, len_rev, len_firstn by (rewrite len_skipn; lia).
      split; [lia|]. split; [|lia].
      apply bytes_rev. apply bytes_app; split; [now apply bytes_rev|exact Hrc].
Qed.

(* ---- the size field ------------------------------------------------------------------------------ *)
Lemma lor_range a b n : 0 <= a < 2 ^ n -> 0 <= b < 2 ^ n -> 0 <= Z.lor a b < 2 ^ n.
Proof.
  intros Ha Hb. split; [apply Z.lor_nonneg; lia|].
  destruct (Z.eq_dec a 0) as [->|Ha0]; [rewrite Z.lor_0_l; lia|].
  destruct (Z.eq_dec b 0) as [->|Hb0]; [rewrite Z.lor_0_r; lia|].
  assert (Hl : 0 < Z.lor a b).
  { assert (0 <= Z.lor a b) by (apply Z.lor_nonneg; lia).
    destruct (Z.eq_dec (Z.lor a b) 0) as [E|]; [|lia]. apply Z.lor_eq_0_iff in E. lia. }
  apply Z.log2_lt_pow2; [exact Hl|]. rewrite Z.log2_lor by lia.
  apply Z.max_lub_lt; apply Z.log2_lt_pow2; lia.
Qed.

Lemma be_value_range l : forall acc, 0 <= acc < M64 -> 0 <= be_value l acc < M64.
Proof.
  induction l as [|x l IH]; intros acc Ha; cbn [be_value]; [exact Ha|].
  apply IH. change M64 with (2 ^ 64) in *. apply lor_range; [exact Ha|].
  change (2 ^ 64) with M64. apply u64_range.
Qed.

(* ---- sc_io_decode_info --------------------------------------------------------------------------- *)
Theorem decode_info_safe data : bytes data ->
  match sc_decode_info data with
  | Ok (sz, fc) => 0 <= sz < M64 /\ byte fc | Err e => e = -1 | Oob => False | NoFuel => False end.
Proof.
  intros _. unfold sc_decode_info. destruct (Z.ltb_spec (len data) 12); [reflexivity|].
  rewrite slice_ok by lia. cbn [bind].
  set (code := firstn (Z.to_nat 12) (skipn (Z.to_nat 0) data)).
  assert (Hc : len code <= 12) by (unfold code; rewrite len_firstn_nat; lia).
  destruct (decode_block_refine code (repeat 0 12) d_init) as (lout & pt' & st' & E & L & _ & F & _ & _ & R).
  { rewrite len_repeat. lia. }
  rewrite E. cbn [bind]. rewrite len_repeat in L.
  destruct (Z.eqb_spec lout 9) as [->|]; cbn [negb]; [|reflexivity].
  rewrite slice_ok by lia. cbn [bind]. rewrite rd_ok by lia. cbn [bind].
  split; [apply be_value_range; unfold M64; lia|].
  change (Z.to_nat 8) with 8%nat. change (Z.to_nat 9) with 9%nat in F.
  rewrite <- (nth_firstn' pt' 9 8 0) by lia. rewrite F. apply bytes_nth, pdec_bytes.
Qed.

(* ---- the decompressor passed to sc_decode_with ---------------------------------------------------- *)
(* contract: given the declared size and the real capacity of the destination it never leaves its
   buffers, and a result has exactly `size` bytes *)
Definition unc_safe (unc : list Z -> Z -> Z -> bool -> res (list Z)) : Prop :=
  forall src size cap nil, bytes src -> len src < BIG -> 0 <= size ->
    (nil = false -> size <= cap < BIG) -> (nil = true -> size = 0 /\ 0 <= cap) ->
    match unc src size cap nil with
    | Ok b => len b = size /\ bytes b | Err e => e = -1 | Oob => False | NoFuel => False end.

(* the same contract with any condition capP on the capacity (zlib: none) *)
Definition unc_safe_lim (capP : Z -> Prop) (unc : list Z -> Z -> Z -> bool -> res (list Z)) : Prop :=
  forall src size cap nil, bytes src -> len src < BIG -> 0 <= size ->
    (nil = false -> size <= cap /\ capP cap) -> (nil = true -> size = 0 /\ 0 <= cap) ->
    match unc src size cap nil with
    | Ok b => len b = size /\ bytes b | Err e => e = -1 | Oob => False | NoFuel => False end.

Lemma unc_safe_is_lim unc : unc_safe unc <-> unc_safe_lim (fun cap => cap < BIG) unc.
Proof. unfold unc_safe, unc_safe_lim. tauto. Qed.

Theorem nonuncompress_safe : unc_safe nonuncompress.
Proof.
  intros src size cap nil Hb Hl Hs Hcap Hnil. unfold nonuncompress.
  destruct (Z.ltb_spec (len src) 2) as [|Hl2]; [reflexivity|].
  rewrite rd_ok by lia. cbn [bind].
  match goal with |- context [if negb ?X then _ else _] => destruct X end; cbn [negb]; [|reflexivity].
  rewrite rd_ok by lia. cbn [bind].
  match goal with |- context [if negb ?X then _ else _] => destruct X end; cbn [negb]; [|reflexivity].
  match goal with |- context [if negb ?X then _ else _] => destruct X end; cbn [negb]; [|reflexivity].
  destruct (Z.ltb_spec (len src - 2) 5) as [|Hl5]; [reflexivity|].
  unfold BIG in Hl. rewrite !(u64_id (len src - 2 - 4)) by (unfold M64; lia).
  assert (Hls : len (skipn 2 src) = len src - 2) by (rewrite len_skipn_nat; lia).
  pose proof (puff_safe nil cap size (skipn 2 src) (len src - 2 - 4)) as H.
  specialize (H (bytes_skipn 2 src Hb)). rewrite Hls in H.
  specialize (H ltac:(lia) ltac:(unfold BIG; lia)).
  assert (Hd : nil = false -> 0 <= size <= cap /\ cap < BIG) by (intros Hn; specialize (Hcap Hn); lia).
  specialize (H Hd). unfold puff_post in H.
  destruct (puff nil cap size (skipn 2 src) (len src - 2 - 4)) as [[[[err dl] sl] ob]| | |]; cbn [bind]; try contradiction.
  destruct (Z.eqb_spec err 0) as [He|]; cbn [negb]; [|reflexivity].
  destruct (H He) as (Hsl & Hob & Hdl).
  destruct (Z.eqb_spec dl size) as [Hds|]; cbn [negb orb]; [|reflexivity].
  destruct (Z.eqb_spec sl (len src - 2 - 4)) as [Hss|]; cbn [negb]; [|reflexivity].
  rewrite slice_ok by lia. cbn [bind].
  match goal with |- context [if ?X then _ else _] => destruct X end; [|reflexivity].
  split; [|exact Hob].
  destruct nil; [rewrite Hdl, (proj1 (Hnil eq_refl)); reflexivity|lia].
Qed.

Section Zlib.
  (* zlib's uncompress is external code; `inflate src size` is its result when it returns Z_OK *)
  Variable inflate : list Z -> Z -> option (list Z).
  Hypothesis inflate_bytes : forall src size d, inflate src size = Some d -> bytes d.

  Theorem zlib_unc_safe_lim capP : unc_safe_lim capP (zlib_unc inflate).
  Proof.
    intros src size cap nil _ _ _ Hcap Hnil. unfold zlib_unc.
    destruct (Z.ltb_spec cap size) as [Hlt|_].
    { destruct nil; [destruct (Hnil eq_refl)|destruct (Hcap eq_refl)]; lia. }
    destruct (inflate src size) as [d|] eqn:E; [|reflexivity].
    destruct (Z.eqb_spec (len d) size); [|reflexivity]. split; [assumption|]. eapply inflate_bytes; eauto.
  Qed.

  Theorem zlib_unc_safe : unc_safe (zlib_unc inflate).
  Proof. apply unc_safe_is_lim, zlib_unc_safe_lim. Qed.
End Zlib.

(* ---- sc_io_decode ---------------------------------------------------------------------------------- *)
Definition out_ok (o : outdesc) : Prop := 0 < o_esz o /\ 0 <= o_cnt o /\ o_cnt o * o_esz o < BIG.

(* bound on the size of the input text: BIG / 1024 = 2^52.  With the guard of commit 5c6a588
   (declared size / 1032 <= decoded bytes) it keeps every declared size that is accepted below BIG. *)
Definition DATA_MAX : Z := 4503599627370496.
Lemma DATA_MAX_eq : DATA_MAX = BIG / 1024.  Proof. reflexivity. Qed.
Lemma DATA_MAX_BIG : DATA_MAX < BIG.  Proof. reflexivity. Qed.

(* the base64 part of sc_io_decode: all lines into the array `compressed` *)
Definition dec_all (data : list Z) : res (list Z * Z) :=
  dec_lines (Z.to_nat (dec_base64_lines (len data))) (len data) data 0
            (dec_irem (len data) (dec_base64_lines (len data))) 0 (dec_base64_lines (len data)) [] 0
            (dec_compressed_size (dec_base64_lines (len data))) (repeat 0 76) d_init.

(* the original size that the header of the data declares (0 when the base64 text is refused) *)
Definition hdr_size (data : list Z) : Z :=
  match dec_all data with Ok (comp, _) => be_value (firstn 8 comp) 0 | _ => 0 end.

(* at most 57 bytes for every 78 characters of text *)
Definition all_post (E : Z) (r : list Z * Z) : Prop :=
  let '(comp, oc) := r in oc = len comp /\ bytes comp /\ 78 * len comp <= 57 * (E + 76).

Lemma dec_all_safe data : 1 <= len data < BIG ->
  dec_guard_short (len data) (dec_base64_lines (len data)) = false ->
  res_safe (fun r => all_post (len data) r) (dec_all data).
Proof.
  intros HE Hg. unfold dec_all. rewrite lines_eq in * by exact HE.
  set (E := len data) in *. set (L := (E + 76) / 78) in *.
  assert (HL : 0 <= L /\ 78 * L <= E + 76 /\ E + 76 < 78 * L + 78) by (unfold L; lia).
  unfold BIG in HE.
  rewrite guard_eq in Hg by (unfold BIG; lia). apply Z.ltb_ge in Hg.
  rewrite irem_eq by (unfold BIG; lia). rewrite csize_eq by (unfold M64; lia).
  pose proof (dec_lines_safe (Z.to_nat L) E data 0 (E - 1 - 2 * L) 0 L [] 0 (57 * L) (repeat 0 76) d_init) as H.
  specialize (H ltac:(lia) ltac:(lia) ltac:(unfold BIG; lia) ltac:(lia) ltac:(lia) ltac:(lia) ltac:(unfold BIG; lia)).
  specialize (H (len_repeat 0 76) eq_refl ltac:(lia) eq_refl bytes_nil eq_refl).
  destruct (dec_lines (Z.to_nat L) E data 0 (E - 1 - 2 * L) 0 L [] 0 (57 * L) (repeat 0 76) d_init) as [[comp oc]| | |];
    cbn [res_safe lines_post all_post] in *; auto.
  destruct H as (H1 & H2 & H3). split; [exact H1|]. split; [exact H2|]. lia.
Qed.

Definition decode_post (out : outdesc) (maxsz : Z) (r : res (Z * list Z)) : Prop :=
  match r with
  | Ok (n, b) => 0 <= n /\ len b = n * o_esz out /\ bytes b /\ (maxsz = 0 \/ len b <= maxsz) /\
                 (o_owner out = false -> len b <= o_cnt out * o_esz out)
  | Err e => e = -1
  | Oob => False
  | NoFuel => False
  end.

(* sc_array_resize gives an owner `size` bytes only up to 2^63 (DecodeModel.owner_capacity) *)
Definition OWNER_MAX : Z := 9223372036854775808.

Lemma owner_capacity_id size : size <= OWNER_MAX -> owner_capacity size = size.
Proof. unfold owner_capacity, OWNER_MAX. intros H. destruct (Z.ltb_spec 9223372036854775808 size); lia. Qed.

(* general form: capP is the condition that the decompressor puts on the capacity of the destination;
   every capacity that occurs is below BIG *)
Theorem decode_with_safe_lim (capP : Z -> Prop) unc data out maxsz :
  unc_safe_lim capP unc -> (forall c, 0 <= c < BIG -> capP c) ->
  bytes data -> len data < DATA_MAX -> out_ok out -> 0 <= maxsz ->
  decode_post out maxsz (sc_decode_with unc data out maxsz).
Proof.
  intros Hunc HcapP Hb HE (Hesz & Hcnt & Hcap) Hmax. unfold sc_decode_with, decode_post.
  unfold DATA_MAX in HE. pose proof (len_nonneg data) as Hn.
  destruct (Z.eqb_spec (len data) 0) as [|Hne]; [reflexivity|].
  rewrite rd_ok by lia. cbn [bind].
  match goal with |- context [if negb ?X then _ else _] => destruct X end; cbn [negb]; [|reflexivity].
  destruct (dec_guard_short (len data) (dec_base64_lines (len data))) eqn:Hg; [reflexivity|].
  pose proof (dec_all_safe data ltac:(unfold BIG; lia) Hg) as Hall.
  change (dec_lines (Z.to_nat (dec_base64_lines (len data))) (len data) data 0
            (dec_irem (len data) (dec_base64_lines (len data))) 0 (dec_base64_lines (len data)) [] 0
            (dec_compressed_size (dec_base64_lines (len data))) (repeat 0 76) d_init) with (dec_all data).
  destruct (dec_all data) as [[comp ocnt]| | |]; cbn [res_safe all_post bind] in *; auto.
  destruct Hall as (Hoc & Hcb & Hcl).
  destruct (Z.ltb_spec ocnt 9) as [|H9]; [reflexivity|].
  rewrite rd_ok by lia. cbn [bind].
  match goal with |- context [if negb ?X then _ else _] => destruct X end; cbn [negb]; [|reflexivity].
  rewrite slice_ok by lia. cbn [bind].
  change (firstn (Z.to_nat 8) (skipn (Z.to_nat 0) comp)) with (firstn 8 comp).
  pose proof (be_value_range (firstn 8 comp) 0 ltac:(unfold M64; lia)) as Hsz.
  set (size := be_value (firstn 8 comp) 0) in *.
  (* the guard of the repair: size / 1032 <= ocnt, so the declared size is below BIG *)
  unfold dec_guard_ratio. destruct (Z.ltb_spec ocnt (size / 1032)) as [|Hratio]; [reflexivity|].
  assert (Hbig : size < BIG) by (unfold BIG; lia).
  destruct (Z.eqb_spec (size mod o_esz out) 0) as [Hmod|]; cbn [negb]; [|reflexivity].
  destruct ((0 <? maxsz) && (maxsz <? size)) eqn:Hmx; [reflexivity|].
  assert (Hmx' : maxsz = 0 \/ size <= maxsz).
  { destruct (Z.ltb_spec 0 maxsz); [|lia]. destruct (Z.ltb_spec maxsz size); [discriminate|lia]. }
  unfold BIG in *. rewrite (u64_id (o_cnt out * o_esz out)) by (unfold M64; nia).
  destruct (negb (o_owner out) && (o_cnt out * o_esz out <? size)) eqn:Hvw; [reflexivity|].
  assert (Hvw' : o_owner out = false -> size <= o_cnt out * o_esz out).
  { intros Ho. rewrite Ho in Hvw. cbn [negb andb] in Hvw. apply Z.ltb_ge in Hvw. exact Hvw. }
  rewrite (u64_id (ocnt - 9)) by (unfold M64; lia).
  rewrite slice_ok by lia. cbn [bind].
  set (src := firstn (Z.to_nat (ocnt - 9)) (skipn (Z.to_nat 9) comp)).
  assert (Hsb : bytes src) by (apply bytes_firstn, bytes_skipn, Hcb).
  assert (Hsl : len src < BIG).
  { unfold src. rewrite len_firstn by (rewrite len_skipn; lia). unfold BIG. lia. }
  set (cap := if o_owner out then owner_capacity size else o_cnt out * o_esz out).
  set (nil := o_owner out && (size =? 0)).
  specialize (Hunc src size cap nil Hsb Hsl ltac:(lia)).
  assert (G1 : nil = false -> size <= cap /\ capP cap).
  { intros _. unfold cap. destruct (o_owner out).
    - rewrite owner_capacity_id by (unfold OWNER_MAX; lia). split; [lia|apply HcapP; lia].
    - split; [now apply Hvw'|apply HcapP; nia]. }
  assert (G2 : nil = true -> size = 0 /\ 0 <= cap).
  { unfold nil, cap. intros G. apply andb_true_iff in G. destruct G as [Go G]. apply Z.eqb_eq in G.
    rewrite Go, G. split; [reflexivity|]. rewrite owner_capacity_id by (unfold OWNER_MAX; lia). lia. }
  specialize (Hunc G1 G2).
  destruct (unc src size cap nil) as [b| | |]; cbn [bind]; auto.
  destruct Hunc as [Hlb Hbb].
  assert (Hdiv : size = size / o_esz out * o_esz out) by lia.
  split; [apply Z.div_pos; lia|]. split; [lia|]. split; [exact Hbb|]. split; [lia|].
  intros Ho. specialize (Hvw' Ho). lia.
Qed.

(* for every input text, every kind of output array and every maximum *)
Theorem decode_with_safe unc data out maxsz :
  unc_safe unc -> bytes data -> len data < DATA_MAX -> out_ok out -> 0 <= maxsz ->
  decode_post out maxsz (sc_decode_with unc data out maxsz).
Proof.
  intros Hunc Hb HE Hout Hmax.
  apply (decode_with_safe_lim (fun cap => cap < BIG)); auto; try (now apply unc_safe_is_lim).
  intros c Hc. lia.
Qed.

(* the build without zlib *)
Theorem decode_safe data out maxsz :
  bytes data -> len data < DATA_MAX -> out_ok out -> 0 <= maxsz ->
  decode_post out maxsz (sc_decode data out maxsz).
Proof. intros; unfold sc_decode; apply decode_with_safe; auto. apply nonuncompress_safe. Qed.

(* the build with zlib *)
Section ZlibDecode.
  Variable inflate : list Z -> Z -> option (list Z).
  Hypothesis inflate_bytes : forall src size d, inflate src size = Some d -> bytes d.

  Theorem decode_zlib_safe data out maxsz :
    bytes data -> len data < DATA_MAX -> out_ok out -> 0 <= maxsz ->
    decode_post out maxsz (sc_decode_with (zlib_unc inflate) data out maxsz).
  Proof. intros. apply decode_with_safe; auto. apply zlib_unc_safe. exact inflate_bytes. Qed.
End ZlibDecode.

(* ---- the output is consistent with the header that sc_io_decode_info reports ------------------------ *)
Lemma dec_lines_prefix : forall k dlen irest ipos irem zlin lines rcomp ocnt csize pt bst comp oc,
  dec_lines k dlen irest ipos irem zlin lines rcomp ocnt csize pt bst = Ok (comp, oc) ->
  exists rest, comp = rev rcomp ++ rest.
Proof.
  induction k as [|k IH]; intros dlen irest ipos irem zlin lines rcomp ocnt csize pt bst comp oc H.
  - cbn [dec_lines] in H. inversion H. exists []. now rewrite rev_append_rev.
  - cbn [dec_lines] in H.
    destruct (negb ((0 <=? ipos) && (ipos + dec_lein irem <=? dlen))); [discriminate|].
    destruct (decode_block (firstn (Z.to_nat (dec_lein irem)) irest) pt bst) as [[[lout pt1] bst1]| | |]; try discriminate.
    cbn [bind] in H. destruct (lout =? 0); [discriminate|].
    destruct (zlin <? u64 (lines - 1)).
    + destruct (negb (lout =? 57)); [discriminate|].
      unfold comp_append in H. destruct (slice pt1 0 57) as [blk| | |]; try discriminate. cbn [bind] in H.
      destruct (csize <? ocnt + 57); [discriminate|]. cbn [bind] in H.
      apply IH in H. destruct H as [rest ->]. rewrite rev_append_rev, rev_app_distr, rev_involutive, <- app_assoc.
      now exists (blk ++ rest).
    + unfold comp_append in H. destruct (slice pt1 0 lout) as [blk| | |]; try discriminate. cbn [bind] in H.
      destruct (csize <? ocnt + lout); [discriminate|]. cbn [bind] in H.
      apply IH in H. destruct H as [rest ->]. rewrite rev_append_rev, rev_app_distr, rev_involutive, <- app_assoc.
      now exists (blk ++ rest).
Qed.

(* the array `compressed` begins with the decoding of (a prefix of) the first line *)
Lemma dec_all_first data comp oc : 1 <= len data < BIG ->
  dec_guard_short (len data) (dec_base64_lines (len data)) = false ->
  dec_all data = Ok (comp, oc) -> 9 <= oc ->
  exists m rest, comp = snd (pdec (firstn m data) PA) ++ rest /\
                 9 <= len (snd (pdec (firstn m data) PA)) /\ (12 <= m)%nat /\ 12 <= len data.
Proof.
  intros HE Hg H H9. unfold dec_all in H. rewrite lines_eq in * by exact HE.
  set (E := len data) in *. set (L := (E + 76) / 78) in *.
  assert (HL : 0 <= L /\ 78 * L <= E + 76 /\ E + 76 < 78 * L + 78) by (unfold L; lia).
  unfold BIG in HE.
  destruct (Z.to_nat L) as [|k] eqn:Ek.
  { cbn [dec_lines] in H. inversion H. lia. }
  cbn [dec_lines] in H. rewrite dec_lein_eq in H.
  set (lein := Z.min (dec_irem E L) 76) in *.
  destruct (negb ((0 <=? 0) && (0 + lein <=? E))); [discriminate|].
  set (code := firstn (Z.to_nat lein) data) in *.
  assert (Hcode : len code <= 76 /\ len code <= len data /\ len code <= Z.of_nat (Z.to_nat lein)).
  { unfold code. rewrite len_firstn_nat. lia. }
  destruct (decode_block_refine code (repeat 0 76) d_init) as (lout & pt' & st' & E1 & L1 & P & F & _ & Q & R).
  { rewrite len_repeat. lia. }
  rewrite E1 in H. cbn [bind] in H. cbn [d_init d_step d_plain abs_st psi] in *.
  pose proof (psi_nonneg (d_step st')) as Hps. rewrite len_repeat in L1.
  destruct (lout =? 0); [discriminate|].
  rewrite (u64_id (L - 1)) in H by (unfold M64; lia).
  assert (Hblk : forall n, n = lout -> firstn (Z.to_nat n) (skipn (Z.to_nat 0) pt') = snd (pdec code PA)).
  { intros n ->. change (Z.to_nat 0) with 0%nat. now rewrite skipn_O. }
  exists (Z.to_nat lein).
  destruct (Z.ltb_spec 0 (L - 1)) as [Hnf|Hfin].
  - destruct (Z.eqb_spec lout 57) as [H57|]; cbn [negb] in H; [|discriminate].
    unfold comp_append in H. rewrite slice_ok in H by lia. cbn [bind] in H.
    destruct (dec_compressed_size L <? 0 + 57); [discriminate|].
    apply dec_lines_prefix in H. destruct H as [rest ->].
    rewrite Hblk by (symmetry; exact H57). rewrite rev_append_rev, app_nil_r, rev_involutive.
    exists rest. fold code. split; [reflexivity|]. rewrite <- P. lia.
  - unfold comp_append in H. rewrite slice_ok in H by lia. cbn [bind] in H.
    destruct (dec_compressed_size L <? 0 + lout); [discriminate|].
    assert (Hk0 : k = 0%nat) by lia. subst k. cbn [dec_lines] in H.
    rewrite (u64_id (0 + lout)) in H by (unfold M64; lia). inversion H; subst comp oc.
    rewrite Hblk by reflexivity. rewrite !rev_append_rev, !app_nil_r, rev_involutive.
    exists []. fold code. rewrite app_nil_r. split; [reflexivity|]. rewrite <- P. lia.
Qed.

Lemma firstn_app_exact {A} (a b : list A) n : length a = n -> firstn n (a ++ b) = a.
Proof. intros <-. induction a as [|x a IH]; cbn [length firstn app]; [now destruct b|now rewrite IH]. Qed.

(* what a successful sc_io_decode has seen *)
Lemma decode_ok_inv unc data out maxsz n b : sc_decode_with unc data out maxsz = Ok (n, b) ->
  len data <> 0 /\ dec_guard_short (len data) (dec_base64_lines (len data)) = false /\
  exists comp ocnt, dec_all data = Ok (comp, ocnt) /\ 9 <= ocnt /\ rd comp 8 = Ok 122 /\
    n = hdr_size data / o_esz out /\ hdr_size data mod o_esz out = 0 /\
    (maxsz <= 0 \/ hdr_size data <= maxsz) /\
    exists src cap nil, unc src (hdr_size data) cap nil = Ok b.
Proof.
  unfold sc_decode_with. intros H.
  destruct (Z.eqb_spec (len data) 0) as [|Hne]; [discriminate|]. split; [exact Hne|].
  destruct (rd data (len data - 1)) as [last| | |]; try discriminate. cbn [bind] in H.
  destruct (negb (last =? 0)); [discriminate|].
  destruct (dec_guard_short (len data) (dec_base64_lines (len data))); [discriminate|]. split; [reflexivity|].
  change (dec_lines (Z.to_nat (dec_base64_lines (len data))) (len data) data 0
            (dec_irem (len data) (dec_base64_lines (len data))) 0 (dec_base64_lines (len data)) [] 0
            (dec_compressed_size (dec_base64_lines (len data))) (repeat 0 76) d_init) with (dec_all data) in H.
  unfold hdr_size.
  destruct (dec_all data) as [[comp ocnt]| | |]; try discriminate. cbn [bind] in H.
  exists comp, ocnt. split; [reflexivity|].
  destruct (Z.ltb_spec ocnt 9); [discriminate|]. split; [assumption|].
  destruct (rd comp 8) as [fc| | |]; try discriminate. cbn [bind] in H.
  destruct (Z.eqb_spec fc 122) as [Hfc|]; cbn [negb] in H; [|discriminate]. split; [now rewrite Hfc|].
  destruct (slice_cases comp 0 8) as [(_ & _ & _ & Es)|[_ Es]]; rewrite Es in H; [|discriminate]. cbn [bind] in H.
  change (firstn (Z.to_nat 8) (skipn (Z.to_nat 0) comp)) with (firstn 8 comp) in H.
  set (size := be_value (firstn 8 comp) 0) in *.
  destruct (dec_guard_ratio size ocnt); [discriminate|].
  destruct (Z.eqb_spec (size mod o_esz out) 0) as [Hmod|]; cbn [negb] in H; [|discriminate].
  destruct (Z.ltb_spec 0 maxsz); destruct (Z.ltb_spec maxsz size); cbn [andb] in H; try discriminate;
  (destruct (negb (o_owner out) && (u64 (o_cnt out * o_esz out) <? size)); [discriminate|];
   destruct (slice comp 9 (u64 (ocnt - 9))) as [src| | |]; try discriminate; cbn [bind] in H;
   destruct (unc src size _ _) as [bb| | |] eqn:Eu; try discriminate; cbn [bind] in H;
   inversion H; split; [reflexivity|]; split; [exact Hmod|]; split; [lia|];
   subst bb; eauto).
Qed.

Theorem decode_info_consistent unc data out maxsz n b sz fc :
  len data < BIG -> 0 < o_esz out ->
  sc_decode_with unc data out maxsz = Ok (n, b) -> sc_decode_info data = Ok (sz, fc) ->
  sz = n * o_esz out /\ sz = hdr_size data /\ fc = 122.
Proof.
  intros HE Hesz Hd Hi. pose proof (len_nonneg data) as Hn.
  destruct (decode_ok_inv _ _ _ _ _ _ Hd) as (Hne & Hg & comp & ocnt & Ha & H9 & Hfc & Hnn & Hmod & _ & _).
  destruct (dec_all_first data comp ocnt ltac:(lia) Hg Ha H9) as (m & rest & Hcomp & Hlen & Hm & H12).
  pose proof (dec_all_safe data ltac:(lia) Hg) as Hs. rewrite Ha in Hs. cbn [res_safe all_post] in Hs.
  destruct Hs as (Hoc & _ & _).
  (* the side of decode_info *)
  unfold sc_decode_info in Hi. destruct (Z.ltb_spec (len data) 12); [lia|].
  rewrite slice_ok in Hi by lia. cbn [bind] in Hi.
  change (firstn (Z.to_nat 12) (skipn (Z.to_nat 0) data)) with (firstn 12 data) in Hi.
  assert (Hc12 : len (firstn 12 data) = 12) by (rewrite len_firstn_nat; lia).
  destruct (decode_block_refine (firstn 12 data) (repeat 0 12) d_init) as (lout & pt' & st' & E1 & L1 & P & F & _ & _ & R).
  { rewrite len_repeat. lia. }
  rewrite E1 in Hi. cbn [bind] in Hi. cbn [d_init d_step d_plain abs_st] in *. rewrite len_repeat in L1.
  destruct (Z.eqb_spec lout 9) as [H9'|]; cbn [negb] in Hi; [|discriminate]. rewrite H9' in *. clear H9' lout.
  rewrite slice_ok in Hi by lia. cbn [bind] in Hi. rewrite rd_ok in Hi by lia. cbn [bind] in Hi.
  change (firstn (Z.to_nat 8) (skipn (Z.to_nat 0) pt')) with (firstn 8 pt') in Hi.
  change (Z.to_nat 8) with 8%nat in Hi. change (Z.to_nat 9) with 9%nat in F.
  assert (Hsz : sz = be_value (firstn 8 pt') 0) by congruence.
  assert (Hfcc : fc = nth 8 pt' 0) by congruence. clear Hi. subst sz fc.
  (* the first 12 characters are a prefix of the first line *)
  assert (Hsplit : firstn m data = firstn 12 data ++ skipn 12 (firstn m data)).
  { rewrite <- (firstn_skipn 12 (firstn m data)) at 1. f_equal. rewrite firstn_firstn. f_equal. lia. }
  rewrite Hsplit, pdec_app in Hcomp.
  destruct (pdec (firstn 12 data) PA) as [s1 o1]. cbn [snd] in *.
  destruct (pdec (skipn 12 (firstn m data)) s1) as [s2 o2]. cbn [snd] in *.
  assert (H9o : firstn 9 comp = o1).
  { rewrite Hcomp, <- app_assoc. apply firstn_app_exact. unfold len in P. lia. }
  assert (H9p : firstn 9 pt' = firstn 9 comp) by congruence.
  assert (H8 : firstn 8 pt' = firstn 8 comp).
  { replace (firstn 8 pt') with (firstn 8 (firstn 9 pt')) by (rewrite firstn_firstn; reflexivity).
    rewrite H9p, firstn_firstn. reflexivity. }
  assert (Hn8 : nth 8 pt' 0 = nth 8 comp 0).
  { rewrite <- (nth_firstn' pt' 9 8 0) by lia. rewrite H9p. apply nth_firstn'. lia. }
  rewrite rd_ok in Hfc by lia. change (Z.to_nat 8) with 8%nat in Hfc. inversion Hfc as [Hfc'].
  unfold hdr_size in *. rewrite Ha in *. rewrite H8, Hn8, Hfc'. 
  split; [|split; reflexivity]. rewrite Hnn. lia.
Qed.

(* with the contract of the decompressor: the size that sc_io_decode_info reports is the number of
   bytes that sc_io_decode delivers, and the format character is 'z' *)
Theorem decode_consistent_with_info_lim (capP : Z -> Prop) unc data out maxsz n b sz fc :
  unc_safe_lim capP unc -> (forall c, 0 <= c < BIG -> capP c) ->
  bytes data -> len data < DATA_MAX -> out_ok out -> 0 <= maxsz ->
  sc_decode_with unc data out maxsz = Ok (n, b) -> sc_decode_info data = Ok (sz, fc) ->
  sz = len b /\ fc = 122.
Proof.
  intros Hunc Hcap Hb HE Hout Hmax Hd Hi.
  pose proof (decode_with_safe_lim capP unc data out maxsz Hunc Hcap Hb HE Hout Hmax) as Hs.
  rewrite Hd in Hs. cbn [decode_post] in Hs. destruct Hs as (_ & Hlen & _).
  assert (HE' : len data < BIG) by (pose proof DATA_MAX_BIG; lia).
  destruct (decode_info_consistent unc data out maxsz n b sz fc HE' (proj1 Hout) Hd Hi) as (H1 & _ & H2).
  split; [congruence|exact H2].
Qed.

Theorem decode_consistent_with_info unc data out maxsz n b sz fc :
  unc_safe unc -> bytes data -> len data < DATA_MAX -> out_ok out -> 0 <= maxsz ->
  sc_decode_with unc data out maxsz = Ok (n, b) -> sc_decode_info data = Ok (sz, fc) ->
  sz = len b /\ fc = 122.
Proof.
  intros Hunc Hb HE Hout Hmax.
  apply (decode_consistent_with_info_lim (fun cap => cap < BIG)); auto; try (now apply unc_safe_is_lim).
  intros c Hc. lia.
Qed.

Section ZlibConsistent.
  Variable inflate : list Z -> Z -> option (list Z).
  Hypothesis inflate_bytes : forall src size d, inflate src size = Some d -> bytes d.

  Theorem decode_zlib_consistent_with_info data out maxsz n b sz fc :
    bytes data -> len data < BIG -> out_ok out -> 0 <= maxsz ->
    sc_decode_with (zlib_unc inflate) data out maxsz = Ok (n, b) -> sc_decode_info data = Ok (sz, fc) ->
    sz = len b /\ fc = 122.
  Proof.
    intros _ HE Hout _ Hd Hi.
    destruct (decode_info_consistent _ data out maxsz n b sz fc HE (proj1 Hout) Hd Hi) as (_ & H1 & H2).
    split; [|exact H2]. rewrite H1.
    destruct (decode_ok_inv _ _ _ _ _ _ Hd) as (_ & _ & comp & ocnt & _ & _ & _ & _ & _ & _ & src & cap & nil & Eu).
    unfold zlib_unc in Eu. destruct (cap <? hdr_size data); [discriminate|].
    destruct (inflate src (hdr_size data)) as [d|]; [|discriminate].
    destruct (Z.eqb_spec (len d) (hdr_size data)); [|discriminate]. congruence.
  Qed.
End ZlibConsistent.

(* ---- the success branch is inhabited: "abc", stored block, one line ---------------------------------- *)
Definition ex_data : list Z :=
  [65; 65; 65; 65; 65; 65; 65; 65; 65; 65; 78; 54; 101; 65; 69; 66; 65; 119; 68; 56; 47; 50; 70; 105; 89;
   119; 74; 78; 65; 83; 99; 61; 61; 10; 0].

Example ex_decode_owner : sc_decode ex_data (mkOut true 1 0) 0 = Ok (3, [97; 98; 99]).
Proof. vm_compute. reflexivity. Qed.
Example ex_decode_view : sc_decode ex_data (mkOut false 1 3) 0 = Ok (3, [97; 98; 99]).
Proof. vm_compute. reflexivity. Qed.
Example ex_decode_view_small : sc_decode ex_data (mkOut false 1 2) 0 = Err (-1).
Proof. vm_compute. reflexivity. Qed.
Example ex_decode_max : sc_decode ex_data (mkOut true 1 0) 2 = Err (-1).
Proof. vm_compute. reflexivity. Qed.
Example ex_info : sc_decode_info ex_data = Ok (3, 122) /\ hdr_size ex_data = 3.
Proof. vm_compute. split; reflexivity. Qed.

(* ---- regression: the code before commit 5c6a588 does leave its buffer ------------------------------- *)
(* armor 61 ([128;0;0;0;0;0;0;8] ++ [122] ++ [120;218;75;76;4;0;1;37;0;195]): header size 2^63 + 8,
   format 'z', the zlib stream of "aa".  In the old code an owner is resized to ONE byte
   (owner_capacity) and the decompressor writes the second byte behind it; the repaired code refuses
   the text because 2^63 + 8 bytes cannot come out of 10 bytes of compressed data. *)
Definition refute_text : list Z :=
  [103; 65; 65; 65; 65; 65; 65; 65; 65; 65; 104; 54; 101; 78; 112; 76; 84; 65; 81; 65; 65; 83; 85; 65;
   119; 119; 61; 61; 61; 10; 0].
Definition refute_out : outdesc := mkOut true 1 0.

Lemma refute_text_hdr : hdr_size refute_text = 9223372036854775816.
Proof. vm_compute. reflexivity. Qed.

Theorem decode_old_refuted :
  exists data out, bytes data /\ len data < DATA_MAX /\ out_ok out /\ sc_decode_old data out 0 = Oob.
Proof.
  exists refute_text, refute_out. split; [|split; [|split]].
  - unfold refute_text, bytes. repeat (constructor; [unfold byte; lia|]). constructor.
  - vm_compute. reflexivity.
  - unfold out_ok, refute_out, BIG; cbn. lia.
  - vm_compute. reflexivity.
Qed.

(* the build with zlib: uncompress was handed a one-byte destination for 2^63 + 8 bytes of output *)
Theorem decode_zlib_old_refuted inflate :
  sc_decode_with_old (zlib_unc inflate) refute_text refute_out 0 = Oob.
Proof. vm_compute. reflexivity. Qed.

(* the repaired code refuses the witness *)
Theorem decode_new_rejects_witness : sc_decode refute_text refute_out 0 = Err (-1).
Proof. vm_compute. reflexivity. Qed.
