(* sc_puff: the instrumented model never accesses memory outside its buffers, never exhausts its
   iteration bounds, and keeps incnt <= inlen, outcnt <= outlen.  Part 1: state invariant, bits,
   stored blocks, and the block loop for ANY block decoders that keep the invariant (the Huffman
   block decoders are shown to do so in PuffHuffman.v). *)
From Coq Require Import ZArith List Bool Lia.
From ScV Require Import Base.CInt C06.Res C06.ResProofs C07.PuffModel.
Import ListNotations.
Local Open Scope Z_scope.

Definition BIG : Z := 4611686018427387904.     (* 2^62: sizes of objects in memory stay below *)

(* configuration: the claimed lengths are covered by real memory *)
Definition cfg_ok (c : pcfg) : Prop :=
  0 <= c_inlen c < BIG /\ (c_nil c = false -> 0 <= c_outlen c <= c_outcap c /\ c_outcap c < BIG).

(* state invariant: everything but the bit counter ... *)
Definition inv0 (c : pcfg) (s : pstate) : Prop :=
  0 <= p_incnt s <= c_inlen c /\ c_inlen c - p_incnt s <= len (p_in s) /\ bytes (p_in s) /\
  0 <= p_outcnt s < M64 /\
  (if c_nil c then p_out s = [] else p_outcnt s <= c_outlen c /\ len (p_out s) = p_outcnt s) /\
  bytes (p_out s).
(* ... and zero to seven bits left in the bit buffer *)
Definition inv (c : pcfg) (s : pstate) : Prop := inv0 c s /\ 0 <= p_bitcnt s <= 7.

(* bits not yet consumed *)
Definition mu (c : pcfg) (s : pstate) : Z := 8 * (c_inlen c - p_incnt s) + p_bitcnt s.

(* same output side *)
Definition same_out (s s' : pstate) : Prop := p_out s' = p_out s /\ p_outcnt s' = p_outcnt s.

Lemma inv0_set_bits c s bb bc : inv0 c s -> inv0 c (set_bits s bb bc).
Proof. unfold inv0, set_bits; cbn. tauto. Qed.
Lemma inv_set_bits c s bb bc : inv c s -> 0 <= bc <= 7 -> inv c (set_bits s bb bc).
Proof. unfold inv; intros [H _] Hb; split; [now apply inv0_set_bits|exact Hb]. Qed.

Definition next_in (s : pstate) (r : list Z) : pstate :=
  mkSt (p_out s) (p_outcnt s) r (p_incnt s + 1) (p_bitbuf s) (p_bitcnt s).

Lemma in_byte_ok c s : cfg_ok c -> inv0 c s -> p_incnt s <> c_inlen c ->
  exists b r, p_in s = b :: r /\ byte b /\ in_byte s = Ok (b, next_in s r) /\ inv0 c (next_in s r).
Proof.
  intros (Hc & _) (Hi & Hm & Hb & Ho) Hne. unfold in_byte, next_in, BIG in *.
  destruct (p_in s) as [|b r] eqn:E.
  - rewrite len_nil in Hm. lia.
  - apply bytes_cons in Hb. destruct Hb as [Hb Hr]. exists b, r. split; [reflexivity|]. split; [exact Hb|].
    rewrite u64_id by (unfold M64; lia). split; [reflexivity|].
    unfold inv0; cbn. rewrite len_cons in Hm. repeat split; try tauto; lia.
Qed.

(* ---- bits ---------------------------------------------------------------------------------------- *)
Definition bits_post (c : pcfg) (s : pstate) (need : Z) (r : res (Z * pstate)) : Prop :=
  match r with
  | Ok (v, s') => inv c s' /\ 0 <= v < 2 ^ need /\ mu c s' = mu c s - need /\ same_out s s'
  | Err e => e = 2
  | Oob => False
  | NoFuel => False
  end.

Lemma bits_loop_ok c : cfg_ok c -> forall fuel s val need,
  inv0 c s -> 0 <= p_bitcnt s <= need + 7 -> 0 <= need -> need < p_bitcnt s + 8 * Z.of_nat fuel ->
  match bits_loop fuel c s val need with
  | Ok (s', v) => inv0 c s' /\ need <= p_bitcnt s' <= need + 7 /\ mu c s' = mu c s /\ same_out s s'
  | Err e => e = 2
  | Oob => False
  | NoFuel => False
  end.
Proof.
  intros Hc. induction fuel as [|fuel IH]; intros s val need Hi Hbc Hneed Hfuel.
  - cbn [bits_loop]. destruct (Z.ltb_spec (p_bitcnt s) need); [lia|].
    split; [exact Hi|]. unfold same_out. repeat split; lia.
  - cbn [bits_loop]. destruct (Z.ltb_spec (p_bitcnt s) need) as [Hlt|Hge].
    + destruct (Z.eqb_spec (p_incnt s) (c_inlen c)) as [He|Hne]; [reflexivity|].
      destruct (in_byte_ok c s Hc Hi Hne) as (b & r & Ein & Hb & E & Hi').
      rewrite E. cbn [bind].
      set (s1 := set_bits (next_in s r) (p_bitbuf (next_in s r)) (p_bitcnt (next_in s r) + 8)).
      specialize (IH s1 (Z.lor val (shl b (p_bitcnt s))) need).
      assert (Hi1 : inv0 c s1) by (apply inv0_set_bits; exact Hi').
      assert (Hb1 : p_bitcnt s1 = p_bitcnt s + 8) by reflexivity.
      assert (Hm1 : mu c s1 = mu c s) by (unfold mu, s1, next_in, set_bits; cbn [p_incnt p_bitcnt]; lia).
      assert (Ho1 : same_out s s1) by (unfold same_out, s1, next_in, set_bits; cbn; auto).
      assert (G1 : 0 <= p_bitcnt s1 <= need + 7) by lia.
      assert (G2 : need < p_bitcnt s1 + 8 * Z.of_nat fuel) by lia.
      specialize (IH Hi1 G1 Hneed G2).
      fold s1. destruct (bits_loop fuel c s1 (Z.lor val (shl b (p_bitcnt s))) need) as [[s' v]| | |]; auto.
      destruct IH as (I1 & I2 & I4 & I5). unfold same_out in *.
      destruct I5 as [I5 I6], Ho1 as [Ho1 Ho2]. rewrite Ho1 in I5. rewrite Ho2 in I6.
      split; [exact I1|]. repeat split; try tauto; try lia.
    + split; [exact Hi|]. unfold same_out. repeat split; lia.
Qed.

Lemma bits_ok c s need : cfg_ok c -> inv c s -> 0 <= need <= 24 -> bits_post c s need (bits c s need).
Proof.
  intros Hc [Hi Hbc] Hn. unfold bits, bits_post.
  pose proof (bits_loop_ok c Hc 4 s (p_bitbuf s) need Hi ltac:(lia) ltac:(lia) ltac:(cbn; lia)) as H.
  destruct (bits_loop 4 c s (p_bitbuf s) need) as [[s' v]| | |]; cbn [bind]; auto.
  destruct H as (I1 & I2 & I4 & I5).
  split; [|split; [|split]].
  - split; [now apply inv0_set_bits|]. unfold set_bits; cbn [p_bitcnt]. lia.
  - unfold shl. rewrite Z.mul_1_l. rewrite land_ones_mod by lia. apply Z.mod_pos_bound. apply pow2_pos; lia.
  - unfold mu, set_bits in *; cbn [p_incnt p_bitcnt] in *. lia.
  - unfold same_out, set_bits in *; cbn [p_out p_outcnt]. exact I5.
Qed.

(* ---- stored -------------------------------------------------------------------------------------- *)
Definition step_post (c : pcfg) (s : pstate) (r : res pstate) : Prop :=
  match r with
  | Ok s' => inv c s' /\ mu c s' <= mu c s
  | Err e => e <> 0
  | Oob => False
  | NoFuel => False
  end.

Ltac err_nz := cbv beta; lia.

Lemma lor_byte_range b0 b1 : byte b0 -> byte b1 -> 0 <= Z.lor b0 (shl b1 8) < 65536.
Proof.
  intros H0 H1. unfold byte, shl in *. change (2 ^ 8) with 256.
  rewrite Z.lor_comm. rewrite (lor_disjoint_add (b1 * 256) b0 8); change (2 ^ 8) with 256; try lia.
Qed.

Lemma stored_ok c s : cfg_ok c -> inv c s -> step_post c s (stored c s).
Proof.
  intros Hc [Hi Hbc]. pose proof Hc as (Hcin & Hcout). unfold BIG in *.
  unfold stored, step_post.
  set (s0 := set_bits s 0 0).
  assert (Hi0 : inv0 c s0) by (apply inv0_set_bits; exact Hi).
  assert (Hmu0 : mu c s0 <= mu c s) by (unfold mu, s0, set_bits; cbn [p_incnt p_bitcnt]; lia).
  assert (Hbc0 : p_bitcnt s0 = 0) by reflexivity.
  clearbody s0. clear Hi Hbc.
  assert (Hinc0 : 0 <= p_incnt s0 <= c_inlen c) by (apply Hi0).
  rewrite (u64_id (p_incnt s0 + 4)) by (unfold M64; lia).
  destruct (Z.ltb_spec (c_inlen c) (p_incnt s0 + 4)) as [|Hroom]; [err_nz|].
  destruct (in_byte_ok c s0 Hc Hi0 ltac:(lia)) as (b0 & r0 & _ & Hb0 & E0 & Hi1). rewrite E0. cbn [bind].
  set (s1 := next_in s0 r0) in *.
  assert (F1 : p_incnt s1 = p_incnt s0 + 1 /\ p_bitcnt s1 = 0 /\ same_out s0 s1) by (unfold same_out; cbn; auto).
  destruct (in_byte_ok c s1 Hc Hi1 ltac:(lia)) as (b1 & r1 & _ & Hb1 & E1 & Hi2). rewrite E1. cbn [bind].
  set (s2 := next_in s1 r1) in *.
  assert (F2 : p_incnt s2 = p_incnt s0 + 2 /\ p_bitcnt s2 = 0 /\ same_out s0 s2) by (unfold same_out in *; cbn; repeat split; try tauto; lia).
  destruct (in_byte_ok c s2 Hc Hi2 ltac:(lia)) as (b2 & r2 & _ & Hb2 & E2 & Hi3). rewrite E2. cbn [bind].
  set (s3 := next_in s2 r2) in *.
  assert (F3 : p_incnt s3 = p_incnt s0 + 3 /\ p_bitcnt s3 = 0 /\ same_out s0 s3) by (unfold same_out in *; cbn; repeat split; try tauto; lia).
  match goal with |- context [if negb ?X then _ else _] => destruct X end; cbn [negb]; [|err_nz].
  destruct (in_byte_ok c s3 Hc Hi3 ltac:(lia)) as (b3 & r3 & _ & Hb3 & E3 & Hi4). rewrite E3. cbn [bind].
  set (s4 := next_in s3 r3) in *.
  assert (F4 : p_incnt s4 = p_incnt s0 + 4 /\ p_bitcnt s4 = 0 /\ same_out s0 s4) by (unfold same_out in *; cbn; repeat split; try tauto; lia).
  clearbody s4. clear E0 E1 E2 E3 F1 F2 F3 Hi1 Hi2 Hi3 s1 s2 s3.
  match goal with |- context [if negb ?X then _ else _] => destruct X end; cbn [negb]; [|err_nz].
  pose proof (lor_byte_range b0 b1 Hb0 Hb1) as Hln. set (ln := Z.lor b0 (shl b1 8)) in *. clearbody ln.
  destruct F4 as (Hinc4 & Hbc4 & Ho4 & Ho4').
  rewrite (u64_id (p_incnt s4 + ln)) by (unfold M64; lia).
  destruct (Z.ltb_spec (c_inlen c) (p_incnt s4 + ln)) as [|Hroom2]; [err_nz|].
  destruct Hi4 as (A1 & A2 & A3 & A5 & A6 & A7).
  destruct (c_nil c) eqn:Hnil; cbn [negb].
  - (* scanning *)
    split.
    + split; [|cbn [p_bitcnt]; lia]. unfold inv0; cbn [p_incnt p_in p_out p_outcnt p_bitcnt p_bitbuf]. rewrite Hnil.
      repeat split; try lia; try tauto.
      * rewrite len_skipn by lia. lia.
      * now apply bytes_skipn.
      * unfold u64, wrapu. apply Z.mod_pos_bound. reflexivity.
      * unfold u64, wrapu. apply Z.mod_pos_bound. reflexivity.
    + unfold mu in *; cbn [p_incnt p_bitcnt] in *. lia.
  - specialize (Hcout eq_refl). destruct A6 as [A6 A6'].
    rewrite (u64_id (p_outcnt s4 + ln)) by (unfold M64; lia).
    destruct (Z.ltb_spec (c_outlen c) (p_outcnt s4 + ln)) as [|Hroom3]; [err_nz|].
    destruct (Z.ltb_spec (len (p_in s4)) ln); [lia|].
    destruct (Z.ltb_spec (c_outcap c) (p_outcnt s4 + ln)); [lia|]. cbn [orb].
    split.
    + split; [|cbn [p_bitcnt]; lia]. unfold inv0; cbn [p_incnt p_in p_out p_outcnt p_bitcnt p_bitbuf]. rewrite Hnil.
      repeat split; try lia; try tauto.
      * rewrite len_skipn by lia. lia.
      * now apply bytes_skipn.
      * unfold M64; lia.
      * rewrite rev_append_rev, len_app, len_rev, len_firstn by lia. lia.
      * rewrite rev_append_rev. apply bytes_app; split; [apply bytes_rev; now apply bytes_firstn|exact A7].
    + unfold mu in *; cbn [p_incnt p_bitcnt] in *. lia.
Qed.

(* ---- the block loop, for any Huffman block decoders that keep the invariant ------------------------ *)
Section Frame.
Variable c : pcfg.
Hypothesis Hc : cfg_ok c.
Hypothesis fixed_ok : forall s, inv c s -> step_post c s (fixed c s).
Hypothesis dynamic_ok : forall s, inv c s -> step_post c s (dynamic c s).

Lemma block_step_ok s : inv c s ->
  match block_step c s with
  | Ok (_, s') => inv c s' /\ 0 <= mu c s' < mu c s
  | Err e => e <> 0
  | Oob => False
  | NoFuel => False
  end.
Proof.
  intros Hi. unfold block_step.
  pose proof (bits_ok c s 1 Hc Hi ltac:(lia)) as H1. unfold bits_post in H1.
  destruct (bits c s 1) as [[last s1]| | |]; cbn [bind]; auto; [|lia].
  destruct H1 as (Hi1 & _ & Hm1 & _).
  pose proof (bits_ok c s1 2 Hc Hi1 ltac:(lia)) as H2. unfold bits_post in H2.
  destruct (bits c s1 2) as [[type s2]| | |]; cbn [bind]; auto; [|lia].
  destruct H2 as (Hi2 & _ & Hm2 & _).
  assert (Hpost : forall r, step_post c s2 r ->
            match (s' <- r ;; Ok (negb (last =? 0), s')) with
            | Ok (_, s') => inv c s' /\ 0 <= mu c s' < mu c s | Err e => e <> 0 | Oob => False | NoFuel => False end).
  { intros [s'| | |]; cbn [bind step_post]; auto. intros [Hi' Hm']. split; [exact Hi'|].
    destruct Hi' as ((B1 & _) & B4). unfold mu in *. lia. }
  destruct (type =? 0); [apply Hpost, stored_ok; assumption|].
  destruct (type =? 1); [apply Hpost, fixed_ok; assumption|].
  destruct (type =? 2); [apply Hpost, dynamic_ok; assumption|].
  cbn [bind]. lia.
Qed.
End Frame.

(* the result of sc_puff *)
Definition puff_post (nil : bool) (destlen sourcelen : Z) (r : res (Z * Z * Z * list Z)) : Prop :=
  match r with
  | Ok (err, dl, sl, ob) =>
      err = 0 -> 0 <= sl <= sourcelen /\ bytes ob /\ (if nil then ob = [] else 0 <= dl <= destlen /\ len ob = dl)
  | Err _ => False
  | Oob => False
  | NoFuel => False
  end.

Section PuffFrame.
Hypothesis fixed_ok : forall c s, cfg_ok c -> inv c s -> step_post c s (fixed c s).
Hypothesis dynamic_ok : forall c s, cfg_ok c -> inv c s -> step_post c s (dynamic c s).

Theorem puff_safe_frame nil outcap destlen src sourcelen :
  bytes src -> 0 <= sourcelen <= len src -> len src < BIG ->
  (nil = false -> 0 <= destlen <= outcap /\ outcap < BIG) ->
  puff_post nil destlen sourcelen (puff nil outcap destlen src sourcelen).
Proof.
  intros Hb Hs Hbig Hd. unfold puff.
  set (c := mkCfg nil destlen outcap sourcelen).
  assert (Hc : cfg_ok c) by (unfold cfg_ok, c; cbn; split; [lia|exact Hd]).
  set (s0 := mkSt [] 0 src 0 0 0).
  assert (Hi0 : inv c s0).
  { unfold inv, inv0, c, s0; cbn. repeat split; try lia; auto; try apply bytes_nil; try (unfold M64; lia).
    destruct nil; [reflexivity|]. specialize (Hd eq_refl). split; [lia|reflexivity]. }
  pose proof (run_loop_inv (fun s => lift_step (block_step c s) (fun s => s)) (inv c)
                (fun r => match r with Ok s => inv c s | Err e => e <> 0 | _ => False end) (mu c)
                (8 * sourcelen + 8) s0) as H.
  match type of H with ?P -> _ => assert (Hbody : P) end.
  { intros s Hi. pose proof (block_step_ok c Hc (fun s => fixed_ok c s Hc) (fun s => dynamic_ok c s Hc) s Hi) as Hb'.
    unfold lift_step. destruct (block_step c s) as [[[|] s']| | |]; tauto. }
  assert (Hm0 : 0 <= mu c s0 < 8 * sourcelen + 8) by (unfold mu, c, s0; cbn [c_inlen p_incnt p_bitcnt]; lia).
  specialize (H Hbody Hi0 Hm0).
  destruct (run_loop (8 * sourcelen + 8) (fun s => lift_step (block_step c s) (fun s => s)) s0) as [s| | |]; try tauto.
  - unfold puff_post. intros _. destruct H as ((A1 & A2 & A3 & A5 & A6 & A7) & A4). unfold c in *; cbn in *.
    split; [lia|]. rewrite rev_append_rev, app_nil_r. split; [now apply bytes_rev|].
    destruct nil; [now rewrite A6|]. rewrite len_rev. lia.
  - unfold puff_post. intros He. contradiction.
Qed.
End PuffFrame.
