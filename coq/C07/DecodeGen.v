(* Tie T1 for libb64/cdecode.c and the remaining parts of sc_io.c: the hand-written models (C06/B64Model.v decoder,
   C07/DecodeModel.v) compute what the slices generated from the CURRENT source compute (Gen/DecodeC07.v,
   tools/c2g/groups_C07.py).  A C `char` is signed: the slices read and store chars (s8), the models bytes (u8);
   the theorems state the equality of the BYTES (u8 of the stored char), with `pt_at p = s8 (the byte at p)`. *)
From Coq Require Import ZArith List Bool Lia.
From ScV Require Import Base.CInt Gen.Codec Gen.DecodeC07 C06.Res C06.ResProofs C06.B64Model C06.B64Proofs C06.StoredModel
  C07.PuffModel C07.DecodeModel C07.PuffGen.
Import ListNotations.
Local Open Scope Z_scope.

(* ---- chars and bytes -------------------------------------------------------------------------------- *)
Lemma u8_s8 x : u8 (s8 x) = u8 x.
Proof. unfold u8, s8, wrapu, wraps, M8. change (256 / 2) with 128. lia. Qed.

Lemma s8_eq_byte t y : byte t -> (s8 t =? s8 y) = (t =? u8 y).
Proof.
  intros Ht. unfold byte in Ht. unfold u8, s8, wrapu, wraps, M8. change (256 / 2) with 128.
  destruct (Z.eqb_spec ((t + 128) mod 256 - 128) ((y + 128) mod 256 - 128)); destruct (Z.eqb_spec t (y mod 256)); try reflexivity; lia.
Qed.

(* ---- base64_decode_block: the four steps ------------------------------------------------------------ *)
Lemma store_a f : 0 <= f < 64 -> u8 (s8 (s32 (shl (Z.land f 63) 2))) = u8 (shl (Z.land f 63) 2).
Proof. intros H. apply Z.eqb_eq. apply (all_upto 64 (fun f => u8 (s8 (s32 (shl (Z.land f 63) 2))) =? u8 (shl (Z.land f 63) 2))); [vm_compute; reflexivity|exact H]. Qed.
Lemma store_b1 v f : 0 <= v < 256 -> 0 <= f < 64 -> u8 (s8 (Z.lor (s8 v) (shr (Z.land f 48) 4))) = u8 (Z.lor v (shr (Z.land f 48) 4)).
Proof. intros Hv Hf. apply Z.eqb_eq. apply (all2_upto 256 64 (fun v f => u8 (s8 (Z.lor (s8 v) (shr (Z.land f 48) 4))) =? u8 (Z.lor v (shr (Z.land f 48) 4)))); [vm_compute; reflexivity|exact Hv|exact Hf]. Qed.
Lemma store_b2 f : 0 <= f < 64 -> u8 (s8 (s32 (shl (Z.land f 15) 4))) = u8 (shl (Z.land f 15) 4).
Proof. intros H. apply Z.eqb_eq. apply (all_upto 64 (fun f => u8 (s8 (s32 (shl (Z.land f 15) 4))) =? u8 (shl (Z.land f 15) 4))); [vm_compute; reflexivity|exact H]. Qed.
Lemma store_c1 v f : 0 <= v < 256 -> 0 <= f < 64 -> u8 (s8 (Z.lor (s8 v) (shr (Z.land f 60) 2))) = u8 (Z.lor v (shr (Z.land f 60) 2)).
Proof. intros Hv Hf. apply Z.eqb_eq. apply (all2_upto 256 64 (fun v f => u8 (s8 (Z.lor (s8 v) (shr (Z.land f 60) 2))) =? u8 (Z.lor v (shr (Z.land f 60) 2)))); [vm_compute; reflexivity|exact Hv|exact Hf]. Qed.
Lemma store_c2 f : 0 <= f < 64 -> u8 (s8 (s32 (shl (Z.land f 3) 6))) = u8 (shl (Z.land f 3) 6).
Proof. intros H. apply Z.eqb_eq. apply (all_upto 64 (fun f => u8 (s8 (s32 (shl (Z.land f 3) 6))) =? u8 (shl (Z.land f 3) 6))); [vm_compute; reflexivity|exact H]. Qed.
Lemma store_d v f : 0 <= v < 256 -> 0 <= f < 64 -> u8 (s8 (Z.lor (s8 v) (Z.land f 63))) = u8 (Z.lor v (Z.land f 63)).
Proof. intros Hv Hf. apply Z.eqb_eq. apply (all2_upto 256 64 (fun v f => u8 (s8 (Z.lor (s8 v) (Z.land f 63))) =? u8 (Z.lor v (Z.land f 63)))); [vm_compute; reflexivity|exact Hv|exact Hf]. Qed.

(* one alphabet character in each of the four steps: the stores and the move of plainchar are the generated ones *)
Theorem gen_b64_step_a : forall pc pt c, 0 <= dec_value c < 64 ->
  dec_char Sa pc pt c = let '(widx, wval, _) := b64d_step_a_store pc (dec_value c) in pt1 <- wr pt widx (u8 wval) ;; Ok (Sb, pc, pt1).
Proof.
  intros pc pt c H. unfold dec_char, b64d_step_a_store. destruct (Z.ltb_spec (dec_value c) 0); [lia|]. rewrite store_a by lia. reflexivity.
Qed.

Theorem gen_b64_step_b : forall pc pt c pt_at, 0 <= dec_value c < 64 ->
  (forall v, rd pt pc = Ok v -> byte v /\ pt_at pc = s8 v) ->
  dec_char Sb pc pt c =
    let '(w1, v1, w2, v2, pc', _) := b64d_step_b_store pt_at pc (dec_value c) in
    v <- rd pt pc ;; pt1 <- wr pt w1 (u8 v1) ;; pt2 <- wr pt1 w2 (u8 v2) ;; Ok (Sc, pc', pt2).
Proof.
  intros pc pt c pt_at H Hp. unfold dec_char, b64d_step_b_store. destruct (Z.ltb_spec (dec_value c) 0); [lia|].
  destruct (rd pt pc) as [v| | |] eqn:E; cbn [bind]; try reflexivity.
  destruct (Hp v eq_refl) as [Hv ->]. rewrite store_b1, store_b2 by (unfold byte in *; lia). reflexivity.
Qed.

Theorem gen_b64_step_c : forall pc pt c pt_at, 0 <= dec_value c < 64 ->
  (forall v, rd pt pc = Ok v -> byte v /\ pt_at pc = s8 v) ->
  dec_char Sc pc pt c =
    let '(w1, v1, w2, v2, pc', _) := b64d_step_c_store pt_at pc (dec_value c) in
    v <- rd pt pc ;; pt1 <- wr pt w1 (u8 v1) ;; pt2 <- wr pt1 w2 (u8 v2) ;; Ok (Sd, pc', pt2).
Proof.
  intros pc pt c pt_at H Hp. unfold dec_char, b64d_step_c_store. destruct (Z.ltb_spec (dec_value c) 0); [lia|].
  destruct (rd pt pc) as [v| | |] eqn:E; cbn [bind]; try reflexivity.
  destruct (Hp v eq_refl) as [Hv ->]. rewrite store_c1, store_c2 by (unfold byte in *; lia). reflexivity.
Qed.

Theorem gen_b64_step_d : forall pc pt c pt_at, 0 <= dec_value c < 64 ->
  (forall v, rd pt pc = Ok v -> byte v /\ pt_at pc = s8 v) ->
  dec_char Sd pc pt c =
    let '(w1, v1, pc', _) := b64d_step_d_store pt_at pc (dec_value c) in
    v <- rd pt pc ;; pt1 <- wr pt w1 (u8 v1) ;; Ok (Sa, pc', pt1).
Proof.
  intros pc pt c pt_at H Hp. unfold dec_char, b64d_step_d_store. destruct (Z.ltb_spec (dec_value c) 0); [lia|].
  destruct (rd pt pc) as [v| | |] eqn:E; cbn [bind]; try reflexivity.
  destruct (Hp v eq_refl) as [Hv ->]. rewrite store_d by (unfold byte in *; lia). reflexivity.
Qed.

(* the do loops: end of input saves the step and *plainchar and returns plainchar - plaintext_out; otherwise the next
   character is fetched, codechar moves on, a negative value (not in the alphabet) repeats the loop *)
Theorem gen_b64_fetch : forall pt_at code_at codechar code_in length_in st plainchar plaintext_out fragment ret st_step st_plain,
  let r := if codechar =? code_in + length_in
           then (u64 (s64 (plainchar - plaintext_out)), 1, 0, u32 st, pt_at plainchar, fragment, codechar, 1)
           else (0, 0, code_at codechar, st_step, st_plain, ret, codechar + 1, if negb (ret <? 0) then 1 else 0) in
  b64d_step_a_fetch pt_at code_at codechar code_in length_in st plainchar plaintext_out fragment ret st_step st_plain = r /\
  b64d_step_b_fetch pt_at code_at codechar code_in length_in st plainchar plaintext_out fragment ret st_step st_plain = r /\
  b64d_step_c_fetch pt_at code_at codechar code_in length_in st plainchar plaintext_out fragment ret st_step st_plain = r /\
  b64d_step_d_fetch pt_at code_at codechar code_in length_in st plainchar plaintext_out fragment ret st_step st_plain = r.
Proof.
  intros. unfold r, b64d_step_a_fetch, b64d_step_b_fetch, b64d_step_c_fetch, b64d_step_d_fetch.
  destruct (codechar =? code_in + length_in); [repeat split; reflexivity|].
  destruct (ret <? 0); repeat split; reflexivity.
Qed.

(* the entry: *plainchar = state_in->plainchar; and what the model does with a character of negative value: nothing *)
Theorem gen_b64_enter : forall code pt st,
  decode_block code pt st =
    let '(widx, wval, _) := b64d_enter 0 (d_plain st) in
    pt0 <- wr pt widx wval ;;
    '(s1, pc1, pt1) <- dec_chars code (d_step st) 0 pt0 ;;
    v <- rd pt1 pc1 ;; Ok (pc1, pt1, mkD s1 v).
Proof. reflexivity. Qed.

Theorem gen_b64_skip : forall stp pc pt c, dec_value c < 0 -> dec_char stp pc pt c = Ok (stp, pc, pt).
Proof. intros. unfold dec_char. destruct (Z.ltb_spec (dec_value c) 0); [reflexivity|lia]. Qed.

(* ---- sc_io_nonuncompress --------------------------------------------------------------------------- *)
(* the zlib header: the values the generated slice computes, for the two header bytes a, b *)
Theorem gen_nonu_header : forall src_at a b src_size u0 u1 p,
  byte a -> byte b -> u8 (src_at 0) = a -> u8 (src_at 1) = b -> 2 <= src_size < 2 ^ 63 ->
  nonu_header src_at src_size u0 u1 p =
    if negb (Z.land a 143 =? 8) then (-1, 1, a, u1, p, src_size, 1) else
    if negb ((u32 (shl a 8) + b) mod 31 =? 0) then (-1, 1, a, b, p, src_size, 1) else
    if negb (Z.land b 32 =? 0) then (-1, 1, a, b, p, src_size, 1) else
    (0, 0, a, b, p + 2, src_size - 2, 0).
Proof.
  intros src_at a b src_size u0 u1 p Ha Hb Ea Eb Hs. unfold nonu_header, z2b. rewrite Ea, Eb.
  destruct (Z.ltb_spec src_size 2); [lia|].
  destruct (negb (Z.land a 143 =? 8)); [reflexivity|].
  assert (H1 : 0 <= shl a 8 < 2 ^ (8 + 8)) by (apply shl_bound; unfold byte in *; cbn; lia).
  rewrite (u32_id (shl a 8)) by (unfold M32; cbn in *; lia).
  rewrite (u32_id (shl a 8 + b)) by (unfold M32, byte in *; cbn in *; lia).
  destruct (negb ((shl a 8 + b) mod 31 =? 0)); [reflexivity|].
  destruct (negb (Z.land b 32 =? 0)); [reflexivity|].
  rewrite u64_id by (unfold M64; pw; lia). reflexivity.
Qed.

(* the model performs exactly these tests on its first two bytes and goes on with the rest *)
Definition nonu_body (src : list Z) (dest_size dest_cap : Z) (dest_nil : bool) : res (list Z) :=
  let src_size := len src in
  if src_size <? 5 then Err (-1) else
  let sourcelen := u64 (src_size - 4) in
  '(err, destlen, srclen, outb) <- puff dest_nil dest_cap dest_size src sourcelen ;;
  if negb (err =? 0) then Err (-1) else
  if negb (destlen =? dest_size) || negb (srclen =? u64 (src_size - 4)) then Err (-1) else
  let adler := adler_update adler_init outb in
  tail <- slice src srclen 4 ;;
  if list_eq_dec Z.eq_dec tail (be4 adler) then Ok outb else Err (-1).

Theorem gen_nonu_model : forall a b rest dest_size dest_cap dest_nil, byte a -> byte b -> len rest < 2 ^ 62 ->
  nonuncompress (a :: b :: rest) dest_size dest_cap dest_nil =
    let '(retv, returned, _, _, p, ssz, _) := nonu_header (fun k => if k =? 0 then a else b) (len (a :: b :: rest)) 0 0 0 in
    if returned =? 1 then Err retv else
    if negb ((p =? 2) && (ssz =? len rest)) then NoFuel else nonu_body rest dest_size dest_cap dest_nil.
Proof.
  intros a b rest ds dc dn Ha Hb Hl.
  assert (Hlen : len (a :: b :: rest) = len rest + 2) by (rewrite !len_cons; lia).
  pose proof (len_nonneg rest).
  rewrite (gen_nonu_header _ a b) by (try assumption; try (cbn; apply wrapu_id; unfold byte, M8 in *; lia); pw; lia).
  unfold nonuncompress, nonu_body. rewrite Hlen.
  destruct (Z.ltb_spec (len rest + 2) 2); [lia|].
  rewrite (rd_ok (a :: b :: rest) 0), (rd_ok (a :: b :: rest) 1) by (rewrite Hlen; lia).
  change (nth (Z.to_nat 0) (a :: b :: rest) 0) with a. change (nth (Z.to_nat 1) (a :: b :: rest) 0) with b. cbn [bind].
  destruct (negb (Z.land a 143 =? 8)); [reflexivity|].
  destruct (negb ((u32 (shl a 8) + b) mod 31 =? 0)); [reflexivity|].
  destruct (negb (Z.land b 32 =? 0)); [reflexivity|].
  cbn [Z.eqb skipn]. replace (len rest + 2 - 2) with (len rest) by lia. rewrite !Z.eqb_refl. cbn [andb negb]. reflexivity.
Qed.

(* the loop body: minimum size, the call of sc_puff, the comparison of the lengths, the pointers behind it *)
Theorem gen_nonu_block : forall src_size dl0 sl0 adler src dest dest_size fb puff_ret dl sl adler',
  nonu_block src_size dl0 sl0 adler src dest dest_size fb puff_ret dl sl adler' =
    if src_size <? 5 then (-1, 1, 0, dl0, sl0, adler, src, src_size, dest, dest_size, fb, 1) else
    if negb (puff_ret =? 0) then (-1, 1, 0, dl, sl, adler, src, src_size, dest, dest_size, fb, 1) else
    if negb (dl =? dest_size) || negb (sl =? u64 (src_size - 4)) then (-1, 1, 0, dl, sl, adler, src, src_size, dest, dest_size, fb, 1) else
    (0, 0, dest_size, dl, sl, adler', src + sl, 4, dest + dl, 0, 1, 1).
Proof.
  intros. unfold nonu_block, z2b. destruct (src_size <? 5); [reflexivity|].
  destruct (negb (puff_ret =? 0)); [reflexivity|].
  destruct (negb (dl =? dest_size) || negb (sl =? u64 (src_size - 4))); reflexivity.
Qed.

(* the trailer: the four bytes behind the deflate stream are the big-endian adler32 *)
Theorem gen_nonu_trailer : forall src_at t0 t1 t2 t3 adler,
  byte t0 -> byte t1 -> byte t2 -> byte t3 -> 0 <= adler < 2 ^ 32 ->
  src_at 0 = s8 t0 -> src_at 1 = s8 t1 -> src_at 2 = s8 t2 -> src_at 3 = s8 t3 ->
  nonu_trailer src_at 4 0 adler = if list_eq_dec Z.eq_dec [t0; t1; t2; t3] (be4 adler) then (0, 1, 1) else (-1, 1, 1).
Proof.
  intros src_at t0 t1 t2 t3 adler H0 H1 H2 H3 Ha E0 E1 E2 E3. unfold nonu_trailer, be4. cbn [Z.eqb negb orb].
  rewrite E0, E1, E2, E3. rewrite !s8_eq_byte by assumption.
  assert (B16 : u8 (Z.land (shr adler 16) 255) = Z.land (shr adler 16) 255).
  { apply wrapu_id. pose proof (land_bound (shr adler 16) 255). unfold M8.
    assert (0 <= shr adler 16) by (unfold shr; apply Z.div_pos; lia). lia. }
  assert (B8 : u8 (Z.land (shr adler 8) 255) = Z.land (shr adler 8) 255).
  { apply wrapu_id. pose proof (land_bound (shr adler 8) 255). unfold M8.
    assert (0 <= shr adler 8) by (unfold shr; apply Z.div_pos; lia). lia. }
  assert (B0 : u8 (Z.land adler 255) = Z.land adler 255).
  { apply wrapu_id. pose proof (land_bound adler 255). unfold M8. lia. }
  rewrite B16, B8, B0.
  destruct (list_eq_dec Z.eq_dec [t0; t1; t2; t3] [u8 (shr adler 24); Z.land (shr adler 16) 255; Z.land (shr adler 8) 255; Z.land adler 255]) as [E|E].
  - injection E as -> -> -> ->. rewrite !Z.eqb_refl. reflexivity.
  - destruct (Z.eqb_spec t0 (u8 (shr adler 24))); cbn [negb orb]; [|reflexivity].
    destruct (Z.eqb_spec t1 (Z.land (shr adler 16) 255)); cbn [negb orb]; [|reflexivity].
    destruct (Z.eqb_spec t2 (Z.land (shr adler 8) 255)); cbn [negb orb]; [|reflexivity].
    destruct (Z.eqb_spec t3 (Z.land adler 255)); cbn [negb orb]; [|reflexivity].
    exfalso. apply E. congruence.
Qed.

(* ---- sc_io_decode_info ------------------------------------------------------------------------------ *)
Theorem gen_info_tests : forall n r,
  info_short n = (if n <? 12 then (-1, 1, 1) else (0, 0, 0)) /\
  info_decode12 r = (0, 12, 12, (if negb (r =? 9) then -1 else 0), (if negb (r =? 9) then 1 else 0), r, (if negb (r =? 9) then 1 else 0)).
Proof. intros. unfold info_short, info_decode12. destruct (n <? 12), (negb (r =? 9)); split; reflexivity. Qed.

(* the model: fewer than 12 characters, 12 characters decoded into dec[12], 9 bytes required *)
Theorem gen_info_model : forall data,
  sc_decode_info data =
    let '(retv, returned, _) := info_short (len data) in
    if returned =? 1 then Err retv else
    code <- slice data 0 12 ;;
    '(osize, dec, _) <- decode_block code (repeat 0 12) d_init ;;
    let '(_, n1, n2, retv, returned, _, _) := info_decode12 osize in
    if negb ((n1 =? 12) && (n2 =? 12)) then NoFuel else
    if returned =? 1 then Err retv else
    hdr <- slice dec 0 8 ;; fc <- rd dec 8 ;; Ok (be_value hdr 0, fc).
Proof.
  intros. unfold sc_decode_info, info_short, info_decode12. destruct (len data <? 12); cbn [Z.eqb]; [reflexivity|].
  destruct (slice data 0 12) as [code| | |]; cbn [bind]; try reflexivity.
  destruct (decode_block code (repeat 0 12) d_init) as [[[osize dec] st]| | |]; cbn [bind]; try reflexivity.
  destruct (negb (osize =? 9)); reflexivity.
Qed.

(* osize |= ((size_t) uc) << ((7 - i) * 8): one step of be_value (the list holds the bytes still to come) *)
Theorem gen_info_size_step : forall dec i uc osize x r, 0 <= i < 8 -> len r = 7 - i -> byte x -> u8 (dec i) = x ->
  info_size_step dec i uc osize = (x, Z.lor osize (u64 (shl x (Z.of_nat (length r) * 8))), i + 1, 0) /\
  be_value (x :: r) osize = be_value r (Z.lor osize (u64 (shl x (Z.of_nat (length r) * 8)))) /\
  dec_size_step dec i osize = (Z.lor osize (u64 (shl x (Z.of_nat (length r) * 8))), i + 1, 0).
Proof.
  intros dec i uc osize x r Hi Hr Hx Ex. unfold info_size_step, dec_size_step. destruct (Z.ltb_spec i 8); [|lia]. cbn [negb].
  rewrite Ex. unfold len in Hr. rewrite Hr.
  rewrite (s32_id (7 - i)), (s32_id ((7 - i) * 8)), (s32_id (i + 1)) by (unfold in_s32, M32; change (4294967296 / 2) with 2147483648; lia).
  repeat split; try reflexivity. cbn [be_value]. rewrite Hr. reflexivity.
Qed.

Theorem gen_size_loop_end : forall dec uc osize, info_size_step dec 8 uc osize = (uc, osize, 8, 1) /\ dec_size_step dec 8 osize = (osize, 8, 1).
Proof. intros. split; reflexivity. Qed.

Theorem gen_info_format : forall dec p, info_format dec p = (p, dec 8, 0).
Proof. reflexivity. Qed.

(* ---- sc_io_decode: the tests behind the base-64 loop, the arguments of resize and of the decompressor -------- *)
Definition decode_tail (unc : list Z -> Z -> Z -> bool -> res (list Z)) (comp : list Z) (ocnt : Z) (out : outdesc) (maxsz : Z) : res (Z * list Z) :=
  if dec_payload_short ocnt then Err (-1) else
  fc <- rd comp 8 ;;
  if dec_format_bad (fun _ => fc) then Err (-1) else
  hdr <- slice comp 0 8 ;;
  let size := be_value hdr 0 in
  if dec_guard_ratio size ocnt then Err (-1) else
  if dec_not_commensurable size (o_esz out) then Err (-1) else
  if dec_over_maximum maxsz size then Err (-1) else
  if dec_over_view (if o_owner out then 0 else -1) size (o_cnt out) (o_esz out) then Err (-1) else
  let dest_cap := if o_owner out then owner_capacity size else o_cnt out * o_esz out in
  let dest_nil := o_owner out && (size =? 0) in
  src <- slice comp (dec_unc_src 0) (dec_unc_src_size ocnt) ;;
  bytes <- unc src (dec_unc_dest_size size) dest_cap dest_nil ;;
  Ok (dec_resize_count size (o_esz out), bytes).

Theorem gen_decode_tail : forall unc data out maxsz,
  sc_decode_with unc data out maxsz =
    (let encoded_size := len data in
     if encoded_size =? 0 then Err (-1) else
     last <- rd data (encoded_size - 1) ;;
     if negb (last =? 0) then Err (-1) else
     let lines := dec_base64_lines encoded_size in
     let csize := dec_compressed_size lines in
     if dec_guard_short encoded_size lines then Err (-1) else
     let irem := dec_irem encoded_size lines in
     '(comp, ocnt) <- dec_lines (Z.to_nat lines) encoded_size data 0 irem 0 lines [] 0 csize (repeat 0 76) d_init ;;
     decode_tail unc comp ocnt out maxsz).
Proof.
  intros. unfold sc_decode_with, decode_tail, dec_payload_short, dec_format_bad, dec_not_commensurable, dec_over_maximum, dec_over_view,
    dec_unc_src, dec_unc_src_size, dec_unc_dest_size, dec_resize_count.
  destruct (len data =? 0); [reflexivity|].
  destruct (rd data (len data - 1)) as [last| | |]; cbn [bind]; try reflexivity.
  destruct (negb (last =? 0)); [reflexivity|].
  destruct (dec_guard_short (len data) (dec_base64_lines (len data))); [reflexivity|].
  destruct (dec_lines _ _ _ _ _ _ _ _ _ _ _ _) as [[comp ocnt]| | |]; cbn [bind]; try reflexivity.
  destruct (ocnt <? 9); [reflexivity|].
  replace (s32 (9 - 1)) with 8 by reflexivity.
  destruct (rd comp 8) as [fc| | |]; cbn [bind]; try reflexivity.
  destruct (negb (fc =? 122)); [reflexivity|].
  destruct (slice comp 0 8) as [hdr| | |]; cbn [bind]; try reflexivity.
  destruct (dec_guard_ratio (be_value hdr 0) ocnt); [reflexivity|].
  destruct (negb (be_value hdr 0 mod o_esz out =? 0)); [reflexivity|].
  destruct ((0 <? maxsz) && (maxsz <? be_value hdr 0)); [reflexivity|].
  destruct (o_owner out); cbn [negb andb Z.leb]; reflexivity.
Qed.

(* the line loop: the tests and the moves of the pointers and counters (57 bytes / 78 characters, or lout / lein + 2) *)
Theorem gen_decode_lines : forall k dlen irest ipos irem zlin lines rcomp ocnt csize pt bst,
  dec_lines (S k) dlen irest ipos irem zlin lines rcomp ocnt csize pt bst =
    (let lein := dec_lein irem in
     if negb ((0 <=? ipos) && (ipos + lein <=? dlen)) then Oob else
     let code := firstn (Z.to_nat lein) irest in
     '(lout, pt1, bst1) <- decode_block code pt bst ;;
     if dec_line_empty lout then Err (-1) else
     if dec_line_not_last zlin lines then
       if dec_line_mismatch lout then Err (-1) else
       let '(n, ipos', irem', _, ocnt', _) := dec_line_full ipos irem 0 ocnt in
       comp1 <- comp_append rcomp ocnt csize pt1 n ;;
       dec_lines k dlen (skipn 78 irest) ipos' irem' (zlin + 1) lines comp1 ocnt' csize pt1 bst1
     else
       let '(n, ipos', irem', _, ocnt', _) := dec_line_last lout ipos lein irem 0 ocnt in
       comp1 <- comp_append rcomp ocnt csize pt1 n ;;
       dec_lines k dlen (skipn (Z.to_nat (lein + 2)) irest) (if (lein + 2 =? u64 (lein + 2)) then ipos' else ipos + (lein + 2)) irem' (zlin + 1) lines comp1 ocnt' csize pt1 bst1).
Proof.
  intros. cbn [dec_lines]. unfold dec_line_empty, dec_line_not_last, dec_line_mismatch, dec_line_full, dec_line_last.
  destruct (negb ((0 <=? ipos) && (ipos + dec_lein irem <=? dlen))); [reflexivity|].
  destruct (decode_block _ pt bst) as [[[lout pt1] bst1]| | |]; cbn [bind]; try reflexivity.
  destruct (lout =? 0); [reflexivity|].
  destruct (zlin <? u64 (lines - 1)).
  - destruct (negb (lout =? 57)); [reflexivity|]. reflexivity.
  - destruct (Z.eqb_spec (dec_lein irem + 2) (u64 (dec_lein irem + 2))) as [E|E]; [rewrite <- E|]; reflexivity.
Qed.

Theorem gen_decode_loop_test : forall zlin lines, dec_more_lines zlin lines = (zlin <? lines).
Proof. reflexivity. Qed.
