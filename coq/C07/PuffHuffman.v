(* sc_puff, part 2: the Huffman paths (decode, construct, codes, fixed, dynamic) keep the state
   invariant, index count[16], symbol[n], lengths[316] and the constant tables inside their bounds,
   copy only from distances <= outcnt, and terminate within the model's iteration bounds. *)
From Coq Require Import ZArith List Bool Lia.
From ScV Require Import Base.CInt C06.Res C06.ResProofs C07.PuffModel C07.PuffSafe.
Import ListNotations.
Local Open Scope Z_scope.

(* ---- sums over tables ------------------------------------------------------------------------------ *)
Definition sumZ (l : list Z) : Z := fold_right Z.add 0 l.

Lemma sumZ_app a b : sumZ (a ++ b) = sumZ a + sumZ b.
Proof. unfold sumZ. induction a; cbn [app fold_right]; lia. Qed.

Lemma sumZ_nonneg l : Forall (fun v => 0 <= v) l -> 0 <= sumZ l.
Proof. unfold sumZ. induction 1; cbn [fold_right]; lia. Qed.

Lemma nth_split_Z (l : list Z) i : 0 <= i < len l ->
  l = firstn (Z.to_nat i) l ++ nth (Z.to_nat i) l 0 :: skipn (S (Z.to_nat i)) l.
Proof.
  intros H. rewrite <- (firstn_skipn (Z.to_nat i) l) at 1. f_equal.
  remember (Z.to_nat i) as k. assert (Hk : (k < length l)%nat) by (unfold len in H; lia). clear Heqk H.
  revert k Hk. induction l as [|x l IH]; intros [|k] Hk; cbn [length] in Hk; try lia; [reflexivity|].
  cbn [skipn nth]. apply IH. lia.
Qed.

Lemma sumZ_upd l i v : 0 <= i < len l -> sumZ (upd l i v) = sumZ l - nth (Z.to_nat i) l 0 + v.
Proof.
  intros H. unfold upd. rewrite (nth_split_Z l i H) at 3. rewrite !sumZ_app. change (sumZ (v :: skipn (S (Z.to_nat i)) l)) with (v + sumZ (skipn (S (Z.to_nat i)) l)).
  change (sumZ (nth (Z.to_nat i) l 0 :: skipn (S (Z.to_nat i)) l)) with (nth (Z.to_nat i) l 0 + sumZ (skipn (S (Z.to_nat i)) l)). lia.
Qed.

Lemma Forall_upd {P : Z -> Prop} l i v : Forall P l -> P v -> Forall P (upd l i v).
Proof.
  intros Hl Hv. unfold upd. apply Forall_app; split; [|constructor; [exact Hv|]].
  - rewrite Forall_forall in *. intros x Hx. apply Hl. eapply In_firstn; eauto.
  - rewrite Forall_forall in *. intros x Hx. apply Hl. eapply In_skipn; eauto.
Qed.

Lemma Forall_nth_Z {P : Z -> Prop} l i : Forall P l -> 0 <= i < len l -> P (nth (Z.to_nat i) l 0).
Proof. intros Hl Hi. rewrite Forall_forall in Hl. apply Hl, nth_In. unfold len in Hi. lia. Qed.

(* partial sums of count[1 .. k-1] *)
Definition psum (cnt : list Z) (k : Z) : Z := sumZ (firstn (Z.to_nat (k - 1)) (skipn 1 cnt)).

Lemma sumZ_firstn_succ (l : list Z) j : (j < length l)%nat -> sumZ (firstn (S j) l) = sumZ (firstn j l) + nth j l 0.
Proof. intros H. rewrite firstn_succ_nth' by exact H. rewrite sumZ_app. change (sumZ [nth j l 0]) with (nth j l 0 + 0). lia. Qed.

Lemma psum_succ cnt k : len cnt = 16 -> 1 <= k <= 15 -> psum cnt (k + 1) = psum cnt k + nth (Z.to_nat k) cnt 0.
Proof.
  intros Hl Hk. unfold psum. replace (Z.to_nat (k + 1 - 1)) with (S (Z.to_nat (k - 1))) by lia.
  rewrite sumZ_firstn_succ by (rewrite skipn_length; unfold len in Hl; lia).
  f_equal. rewrite nth_skipn'. f_equal. lia.
Qed.

Lemma psum_1 cnt : psum cnt 1 = 0.  Proof. reflexivity. Qed.

Lemma psum_mono cnt k : len cnt = 16 -> Forall (fun v => 0 <= v) cnt -> 1 <= k <= 16 -> 0 <= psum cnt k <= psum cnt 16.
Proof.
  intros Hl Hf Hk. unfold psum.
  assert (Hs : Forall (fun v => 0 <= v) (skipn 1 cnt)) by (rewrite Forall_forall in *; intros x Hx; apply Hf; eapply In_skipn; eauto).
  remember (skipn 1 cnt) as t. assert (Ht : length t = 15%nat) by (subst t; rewrite skipn_length; unfold len in Hl; lia).
  replace (Z.to_nat (16 - 1)) with 15%nat by reflexivity. rewrite <- Ht, firstn_all.
  assert (E : sumZ t = sumZ (firstn (Z.to_nat (k - 1)) t) + sumZ (skipn (Z.to_nat (k - 1)) t)) by (rewrite <- sumZ_app, firstn_skipn; reflexivity).
  assert (0 <= sumZ (firstn (Z.to_nat (k - 1)) t)).
  { apply sumZ_nonneg. rewrite Forall_forall in *; intros x Hx; apply Hs; eapply In_firstn; eauto. }
  assert (0 <= sumZ (skipn (Z.to_nat (k - 1)) t)).
  { apply sumZ_nonneg. rewrite Forall_forall in *; intros x Hx; apply Hs; eapply In_skipn; eauto. }
  lia.
Qed.

Lemma sumZ_psum cnt : len cnt = 16 -> sumZ cnt = nth 0 cnt 0 + psum cnt 16.
Proof.
  intros Hl. unfold psum. destruct cnt as [|x t]; [discriminate|]. cbn [skipn nth].
  replace (Z.to_nat (16 - 1)) with 15%nat by reflexivity.
  assert (Ht : length t = 15%nat) by (rewrite len_cons in Hl; unfold len in Hl; lia).
  rewrite <- Ht, firstn_all. reflexivity.
Qed.

(* ---- Huffman tables ---------------------------------------------------------------------------------- *)
(* B bounds every entry of the symbol table *)
Definition huff_ok (h : huff) (B : Z) : Prop :=
  len (h_count h) = 16 /\ Forall (fun v => 0 <= v) (h_count h) /\
  psum (h_count h) 16 <= len (h_symbol h) /\ Forall (fun v => 0 <= v < B) (h_symbol h).

Definition dec_post (c : pcfg) (s0 : pstate) (B : Z) (r : res (Z * pstate)) : Prop :=
  match r with
  | Ok (sym, s') => inv c s' /\ 0 <= sym < B /\ mu c s' < mu c s0 /\ same_out s0 s'
  | Err e => e <> 0
  | Oob => False
  | NoFuel => False
  end.

Lemma lor_bit code bb : 0 <= code -> code mod 2 = 0 ->
  Z.lor code (Z.land bb 1) = code + bb mod 2 /\ 0 <= bb mod 2 <= 1.
Proof.
  intros H0 He. change 1 with (2 ^ 1 - 1). rewrite land_ones_mod by lia. change (2 ^ 1) with 2.
  assert (Hb : 0 <= bb mod 2 < 2) by (apply Z.mod_pos_bound; lia).
  split; [|lia]. apply (lor_disjoint_add code (bb mod 2) 1); [lia|exact Hb|exact He].
Qed.

Lemma decode_loop_ok c h B s0 : cfg_ok c -> huff_ok h B -> inv c s0 ->
  forall fuel s bitbuf lft code first index ln,
  inv0 c s -> p_bitcnt s = p_bitcnt s0 -> same_out s0 s ->
  1 <= ln -> 0 <= lft -> lft + ln <= 16 -> index = psum (h_count h) ln -> 0 <= first <= code -> code mod 2 = 0 ->
  ((p_incnt s = p_incnt s0 /\ lft = p_bitcnt s0 - (ln - 1)) \/ p_incnt s0 < p_incnt s) ->
  2 * (16 - ln) + (if lft =? 0 then 1 else 0) < Z.of_nat fuel ->
  dec_post c s0 B (decode_loop fuel c h s bitbuf lft code first index ln ln).
Proof.
  intros Hc (Hl & Hnn & Hsum & Hsym) [Hi00 Hbc0].
  induction fuel as [|fuel IH]; intros s bitbuf lft code first index ln Hi Hbc Hout Hln Hlft Hsum16 Hidx Hcode Heven Htrack Hfuel.
  - exfalso. destruct (lft =? 0); lia.
  - cbn [decode_loop]. destruct (Z.eqb_spec lft 0) as [Hz|Hnz]; cbn [negb].
    + (* load the next byte *)
      unfold MAXBITS. destruct (Z.eqb_spec (15 + 1 - ln) 0); [unfold dec_post; lia|].
      destruct (Z.eqb_spec (p_incnt s) (c_inlen c)); [unfold dec_post; lia|].
      destruct (in_byte_ok c s Hc Hi ltac:(assumption)) as (b & r & _ & Hb & E & Hi').
      rewrite E. cbn [bind].
      apply IH; auto.
      * destruct (Z.ltb_spec 8 (15 + 1 - ln)); lia.
      * destruct (Z.ltb_spec 8 (15 + 1 - ln)); lia.
      * right. destruct Htrack as [[Ht _]|Ht]; cbn [next_in p_incnt]; lia.
      * subst lft. cbn [Z.eqb] in Hfuel. destruct (Z.ltb_spec 8 (15 + 1 - ln)).
        -- cbn [Z.eqb]. lia.
        -- destruct (Z.eqb_spec (15 + 1 - ln) 0); lia.
    + (* one more bit *)
      assert (Hln15 : ln <= 15) by lia.
      destruct (lor_bit code bitbuf ltac:(lia) Heven) as [Ecode Hbit]. rewrite Ecode.
      rewrite rd_ok by lia. cbn [bind].
      set (count := nth (Z.to_nat ln) (h_count h) 0).
      assert (Hcnt : 0 <= count) by (apply (Forall_nth_Z (h_count h) ln Hnn); lia).
      pose proof (psum_succ (h_count h) ln Hl ltac:(lia)) as Hps. fold count in Hps.
      pose proof (psum_mono (h_count h) (ln + 1) Hl Hnn ltac:(lia)) as Hpm.
      pose proof (psum_mono (h_count h) ln Hl Hnn ltac:(lia)) as Hpm0.
      destruct (Z.ltb_spec (code + bitbuf mod 2 - count) first) as [Hhit|Hmiss].
      * (* a code of this length *)
        rewrite rd_ok by lia. cbn [bind]. unfold dec_post.
        assert (Hand : 0 <= Z.land (p_bitcnt s - ln) 7 <= 7).
        { change 7 with (2 ^ 3 - 1). rewrite land_ones_mod by lia. change (2 ^ 3) with 8.
          pose proof (Z.mod_pos_bound (p_bitcnt s - ln) 8 ltac:(lia)). lia. }
        split; [split; [now apply inv0_set_bits|unfold set_bits; cbn [p_bitcnt]; exact Hand]|].
        split; [apply (Forall_nth_Z (h_symbol h) _ Hsym); lia|].
        split.
        -- unfold mu, set_bits; cbn [p_incnt p_bitcnt].
           destruct Htrack as [[Ht1 Ht2]|Ht].
           ++ assert (E8 : Z.land (p_bitcnt s - ln) 7 = p_bitcnt s - ln).
              { change 7 with (2 ^ 3 - 1). rewrite land_ones_mod by lia. change (2 ^ 3) with 8. apply Z.mod_small. lia. }
              rewrite E8. lia.
           ++ destruct Hi as (Hi1 & _). lia.
        -- destruct Hout. split; cbn; congruence.
      * apply IH; auto; try lia.
        -- unfold shl. change (2 ^ 1) with 2. lia.
        -- unfold shl. change (2 ^ 1) with 2. lia.
        -- destruct (Z.eqb_spec (lft - 1) 0); destruct (Z.eqb_spec lft 0); lia.
Qed.

Lemma decode_ok c h B s : cfg_ok c -> huff_ok h B -> inv c s -> dec_post c s B (decode c h s).
Proof.
  intros Hc Hh Hi. unfold decode. pose proof Hi as [Hi0 Hbc].
  apply (decode_loop_ok c h B s Hc Hh Hi); auto; try lia.
  - split; reflexivity.
  - change (Z.of_nat 40) with 40. destruct (p_bitcnt s =? 0); lia.
Qed.

(* ---- construct ------------------------------------------------------------------------------------- *)
Definition occ (ls : list Z) (l : Z) : Z := Z.of_nat (count_occ Z.eq_dec ls l).

Lemma occ_snoc ls x l : occ (ls ++ [x]) l = occ ls l + (if x =? l then 1 else 0).
Proof.
  unfold occ. rewrite count_occ_app. cbn [count_occ].
  destruct (Z.eq_dec x l) as [->|Hne]; [rewrite Z.eqb_refl|destruct (Z.eqb_spec x l); [contradiction|]]; lia.
Qed.

Lemma occ_nonneg ls l : 0 <= occ ls l.  Proof. unfold occ; lia. Qed.

Lemma occ_firstn_le ls k l : occ (firstn k ls) l <= occ ls l.
Proof.
  unfold occ. rewrite <- (firstn_skipn k ls) at 2. rewrite count_occ_app. lia.
Qed.

(* the n code lengths the call looks at *)
Definition lens_at (lengths : list Z) (loff n : Z) : list Z :=
  firstn (Z.to_nat n) (skipn (Z.to_nat loff) lengths).

Lemma s16_small x : 0 <= x < 32768 -> s16 x = x.
Proof. intros H. apply wraps_id; [reflexivity|reflexivity|]. change (M16 / 2) with 32768. lia. Qed.

Section Construct.
Variables (lengths : list Z) (loff n : Z).
Hypothesis Hloff : 0 <= loff.
Hypothesis Hn : 0 <= n <= 1000.
Hypothesis Hfit : loff + n <= len lengths.
Let ls := lens_at lengths loff n.
Hypothesis Hrange : Forall (fun v => 0 <= v <= 15) ls.

Lemma ls_len : len ls = n.
Proof. unfold ls, lens_at. rewrite len_firstn; [reflexivity|]. rewrite len_skipn by lia. lia. Qed.

Lemma rd_lengths sym : 0 <= sym < n -> rd lengths (loff + sym) = Ok (nth (Z.to_nat sym) ls 0).
Proof.
  intros H. rewrite rd_ok by lia. f_equal. unfold ls, lens_at.
  rewrite nth_firstn' by lia. rewrite nth_skipn'. f_equal. lia.
Qed.

Lemma ls_nth_range sym : 0 <= sym < n -> 0 <= nth (Z.to_nat sym) ls 0 <= 15.
Proof. intros H. apply (Forall_nth_Z ls sym Hrange). rewrite ls_len. exact H. Qed.

Lemma firstn_ls_succ sym : 0 <= sym < n ->
  firstn (Z.to_nat (sym + 1)) ls = firstn (Z.to_nat sym) ls ++ [nth (Z.to_nat sym) ls 0].
Proof.
  intros H. replace (Z.to_nat (sym + 1)) with (S (Z.to_nat sym)) by lia.
  apply firstn_succ_nth'. pose proof ls_len. unfold len in *. lia.
Qed.

Lemma zero_counts_ok k : forall i cnt, 0 <= i -> i + Z.of_nat k <= len cnt ->
  (forall j, 0 <= j < i -> nth (Z.to_nat j) cnt 0 = 0) ->
  exists cnt', zero_counts k i cnt = Ok cnt' /\ len cnt' = len cnt /\
               (forall j, 0 <= j < i + Z.of_nat k -> nth (Z.to_nat j) cnt' 0 = 0).
Proof.
  induction k as [|k IH]; intros i cnt Hi Hlen Hz.
  - exists cnt. cbn [zero_counts]. repeat split; auto. intros j Hj. apply Hz. lia.
  - cbn [zero_counts]. rewrite wr_ok by lia. cbn [bind].
    destruct (IH (i + 1) (upd cnt i 0)) as (cnt' & E & L & Z'); try lia.
    + rewrite len_upd by lia. lia.
    + intros j Hj. destruct (Z.eq_dec j i) as [->|Hne]; [apply nth_upd_same; lia|].
      rewrite nth_upd_other by lia. apply Hz. lia.
    + exists cnt'. rewrite len_upd in L by lia. repeat split; auto. intros j Hj. apply Z'. lia.
Qed.

Lemma all_zero_sum (l : list Z) : (forall j, 0 <= j < len l -> nth (Z.to_nat j) l 0 = 0) -> sumZ l = 0.
Proof.
  induction l as [|x l IH]; intros H; [reflexivity|]. unfold sumZ in *. cbn [fold_right].
  rewrite IH.
  - specialize (H 0). rewrite len_cons in H. pose proof (len_nonneg l). cbn in H. lia.
  - intros j Hj. specialize (H (j + 1)). rewrite len_cons in H.
    replace (Z.to_nat (j + 1)) with (S (Z.to_nat j)) in H by lia. cbn [nth] in H. apply H. lia.
Qed.

Lemma count_lengths_ok k : forall sym cnt, 0 <= sym -> sym + Z.of_nat k = n -> len cnt = 16 ->
  (forall l, 0 <= l < 16 -> nth (Z.to_nat l) cnt 0 = occ (firstn (Z.to_nat sym) ls) l) -> sumZ cnt = sym ->
  exists cnt', count_lengths k sym lengths loff cnt = Ok cnt' /\ len cnt' = 16 /\
               (forall l, 0 <= l < 16 -> nth (Z.to_nat l) cnt' 0 = occ ls l) /\ sumZ cnt' = n.
Proof.
  induction k as [|k IH]; intros sym cnt Hs Hk Hl Hocc Hsum.
  - exists cnt. cbn [count_lengths]. repeat split; auto; [|lia].
    intros l Hl'. rewrite Hocc by exact Hl'. f_equal. apply firstn_all2. pose proof ls_len. unfold len in *. lia.
  - cbn [count_lengths]. rewrite rd_lengths by lia. cbn [bind].
    pose proof (ls_nth_range sym ltac:(lia)) as Hr. set (l := nth (Z.to_nat sym) ls 0) in *.
    rewrite rd_ok by lia. cbn [bind].
    assert (Hv : 0 <= nth (Z.to_nat l) cnt 0 <= sym).
    { rewrite Hocc by lia. split; [apply occ_nonneg|].
      unfold occ. pose proof (count_occ_bound Z.eq_dec l (firstn (Z.to_nat sym) ls)) as Hb.
      rewrite firstn_length in Hb. lia. }
    rewrite s16_small by lia.
    rewrite wr_ok by lia. cbn [bind].
    destruct (IH (sym + 1) (upd cnt l (nth (Z.to_nat l) cnt 0 + 1))) as (cnt' & E & L & O & S'); try lia.
    + rewrite len_upd by lia. exact Hl.
    + intros l' Hl'. rewrite firstn_ls_succ by lia. fold l. rewrite occ_snoc.
      destruct (Z.eqb_spec l l') as [<-|Hne].
      * rewrite nth_upd_same by lia. rewrite Hocc by lia. reflexivity.
      * rewrite nth_upd_other by lia. rewrite Hocc by lia. lia.
    + rewrite sumZ_upd by lia. lia.
    + exists cnt'. repeat split; auto.
Qed.

Lemma check_left_ok k : forall ln cnt left, len cnt = 16 -> 1 <= ln -> ln + Z.of_nat k <= 16 ->
  exists r, check_left k ln cnt left = Ok r.
Proof.
  induction k as [|k IH]; intros ln cnt left Hl Hln Hk; cbn [check_left]; [eauto|].
  rewrite rd_ok by lia. cbn [bind]. destruct (shl left 1 - nth (Z.to_nat ln) cnt 0 <? 0); [eauto|].
  apply IH; lia.
Qed.

Lemma make_offs_ok cnt : len cnt = 16 -> Forall (fun v => 0 <= v) cnt -> psum cnt 16 <= n ->
  forall k ln offs, 1 <= ln -> ln + Z.of_nat k <= 15 -> len offs = 16 ->
  (forall j, 1 <= j <= ln -> nth (Z.to_nat j) offs 0 = psum cnt j) ->
  exists offs', make_offs k ln cnt offs = Ok offs' /\ len offs' = 16 /\
                (forall j, 1 <= j <= ln + Z.of_nat k -> nth (Z.to_nat j) offs' 0 = psum cnt j).
Proof.
  intros Hl Hnn Htot. induction k as [|k IH]; intros ln offs Hln Hk Hlo Hp.
  - exists offs. cbn [make_offs]. repeat split; auto. intros j Hj. apply Hp. lia.
  - cbn [make_offs]. rewrite rd_ok by lia. cbn [bind]. rewrite rd_ok by lia. cbn [bind].
    rewrite Hp by lia.
    pose proof (psum_succ cnt ln Hl ltac:(lia)) as Hs.
    pose proof (psum_mono cnt (ln + 1) Hl Hnn ltac:(lia)) as Hm.
    rewrite <- Hs. rewrite s16_small by lia.
    rewrite wr_ok by lia. cbn [bind].
    destruct (IH (ln + 1) (upd offs (ln + 1) (psum cnt (ln + 1)))) as (offs' & E & L & P); try lia.
    + rewrite len_upd by lia. exact Hlo.
    + intros j Hj. destruct (Z.eq_dec j (ln + 1)) as [->|Hne]; [apply nth_upd_same; lia|].
      rewrite nth_upd_other by lia. apply Hp. lia.
    + exists offs'. repeat split; auto. intros j Hj. apply P. lia.
Qed.

Lemma fill_symbols_ok cnt B : len cnt = 16 -> Forall (fun v => 0 <= v) cnt -> psum cnt 16 <= n -> n <= B ->
  (forall l, 0 <= l < 16 -> nth (Z.to_nat l) cnt 0 = occ ls l) ->
  forall k sym offs symtab, 0 <= sym -> sym + Z.of_nat k = n -> len offs = 16 -> n <= len symtab ->
  Forall (fun v => 0 <= v < B) symtab ->
  (forall l, 1 <= l <= 15 -> nth (Z.to_nat l) offs 0 = psum cnt l + occ (firstn (Z.to_nat sym) ls) l) ->
  exists symtab', fill_symbols k sym lengths loff offs symtab = Ok symtab' /\ len symtab' = len symtab /\
                  Forall (fun v => 0 <= v < B) symtab'.
Proof.
  intros Hl Hnn Htot HB Hocc. induction k as [|k IH]; intros sym offs symtab Hs Hk Hlo Hcap Hf Hp.
  - exists symtab. cbn [fill_symbols]. auto.
  - cbn [fill_symbols]. rewrite rd_lengths by lia. cbn [bind].
    pose proof (ls_nth_range sym ltac:(lia)) as Hr. set (l := nth (Z.to_nat sym) ls 0) in *.
    destruct (Z.eqb_spec l 0) as [Hz|Hnz]; cbn [negb].
    + apply IH; auto; try lia. intros l' Hl'. rewrite firstn_ls_succ by lia. fold l. rewrite occ_snoc.
      destruct (Z.eqb_spec l l'); [lia|]. rewrite Hp by lia. lia.
    + rewrite rd_ok by lia. cbn [bind]. rewrite Hp by lia.
      (* this symbol is one of the occ ls l symbols of length l and was not counted yet *)
      assert (Hlt : occ (firstn (Z.to_nat sym) ls) l + 1 <= occ ls l).
      { pose proof (occ_firstn_le ls (Z.to_nat (sym + 1)) l) as Hle.
        rewrite firstn_ls_succ in Hle by lia. fold l in Hle. rewrite occ_snoc, Z.eqb_refl in Hle. exact Hle. }
      pose proof (psum_succ cnt l Hl ltac:(lia)) as Hs1. rewrite Hocc in Hs1 by lia.
      pose proof (psum_mono cnt (l + 1) Hl Hnn ltac:(lia)) as Hm.
      pose proof (psum_mono cnt l Hl Hnn ltac:(lia)) as Hm0.
      pose proof (occ_nonneg (firstn (Z.to_nat sym) ls) l) as Hon.
      set (o := psum cnt l + occ (firstn (Z.to_nat sym) ls) l) in *.
      rewrite wr_ok by lia. cbn [bind].
      rewrite s16_small by lia.
      rewrite wr_ok by lia. cbn [bind].
      destruct (IH (sym + 1) (upd offs l (o + 1)) (upd symtab o sym)) as (st' & E & L & F); try lia.
      * rewrite len_upd by lia. exact Hlo.
      * rewrite len_upd by lia. exact Hcap.
      * apply Forall_upd; [exact Hf|lia].
      * intros l' Hl'. rewrite firstn_ls_succ by lia. fold l. rewrite occ_snoc.
        destruct (Z.eqb_spec l l') as [<-|Hne].
        -- rewrite nth_upd_same by lia. unfold o. lia.
        -- rewrite nth_upd_other by lia. rewrite Hp by lia. lia.
      * exists st'. rewrite len_upd in L by lia. auto.
Qed.

(* the tables construct() leaves behind are always usable by decode(), whatever it returns *)
Theorem construct_ok h B : len (h_count h) = 16 -> n <= len (h_symbol h) -> n <= B ->
  Forall (fun v => 0 <= v < B) (h_symbol h) ->
  exists err h', construct h lengths loff n = Ok (err, h') /\ huff_ok h' B /\
                 len (h_symbol h') = len (h_symbol h) /\
                 nth 0 (h_count h') 0 + psum (h_count h') 16 = n.
Proof.
  intros Hl Hcap HB Hf. unfold construct.
  destruct (zero_counts_ok 16 0 (h_count h)) as (c0 & E0 & L0 & Z0); try lia.
  rewrite E0. cbn [bind]. rewrite Hl in L0.
  destruct (count_lengths_ok (Z.to_nat n) 0 c0) as (cnt & E1 & L1 & O1 & S1); try lia.
  { intros l Hl'. rewrite Z0 by lia. cbn [Z.to_nat firstn]. reflexivity. }
  { apply all_zero_sum. intros j Hj. apply Z0. lia. }
  rewrite E1. cbn [bind].
  assert (Hnn : Forall (fun v => 0 <= v) cnt).
  { apply Forall_forall. intros x Hx. destruct (In_nth cnt x 0 Hx) as (i & Hi & <-).
    replace i with (Z.to_nat (Z.of_nat i)) by lia. rewrite O1 by (unfold len in L1; lia). apply occ_nonneg. }
  pose proof (sumZ_psum cnt L1) as Hsp. rewrite S1 in Hsp.
  pose proof (psum_mono cnt 16 L1 Hnn ltac:(lia)) as Hp16.
  assert (Hc0 : 0 <= nth 0 cnt 0) by (apply (Forall_nth_Z cnt 0 Hnn); lia).
  assert (Hok : forall st, len st = len (h_symbol h) -> Forall (fun v => 0 <= v < B) st -> huff_ok (mkH cnt st) B).
  { intros st Ls Fs. unfold huff_ok; cbn [h_count h_symbol]. repeat split; auto. lia. }
  rewrite rd_ok by lia. cbn [bind]. change (Z.to_nat 0) with 0%nat.
  destruct (nth 0 cnt 0 =? n).
  { do 2 eexists. split; [reflexivity|]. cbn [h_count h_symbol]. repeat split; auto; try lia. apply Hok; auto. }
  destruct (check_left_ok 15 1 cnt 1 L1 ltac:(lia) ltac:(lia)) as [r Er]. rewrite Er. cbn [bind].
  destruct r as [left|left].
  { do 2 eexists. split; [reflexivity|]. cbn [h_count h_symbol]. repeat split; auto; try lia. apply Hok; auto. }
  rewrite wr_ok by (rewrite len_repeat; lia). cbn [bind].
  destruct (make_offs_ok cnt L1 Hnn ltac:(lia) 14 1 (upd (repeat 0 16) 1 0)) as (offs & E2 & L2 & P2); try lia.
  { rewrite len_upd by (rewrite len_repeat; lia). now rewrite len_repeat. }
  { intros j Hj. replace j with 1 by lia. rewrite nth_upd_same by (rewrite len_repeat; lia). reflexivity. }
  rewrite E2. cbn [bind].
  destruct (fill_symbols_ok cnt B L1 Hnn ltac:(lia) HB O1 (Z.to_nat n) 0 offs (h_symbol h)) as (st & E3 & L3 & F3); try lia; auto.
  { intros l Hl'. rewrite P2 by lia. cbn [Z.to_nat firstn]. unfold occ. cbn. lia. }
  rewrite E3. cbn [bind]. do 2 eexists. split; [reflexivity|]. cbn [h_count h_symbol]. repeat split; auto; try lia.
  apply Hok; auto.
Qed.
End Construct.

(* ---- codes ----------------------------------------------------------------------------------------- *)
Lemma lens_range i : 0 <= i < 29 -> 3 <= nth (Z.to_nat i) lens 0 <= 258.
Proof.
  intros H. assert (F : Forall (fun v => 3 <= v <= 258) lens) by (unfold lens; repeat constructor; lia).
  apply (Forall_nth_Z lens i F). exact H.
Qed.
Lemma lext_range i : 0 <= i < 29 -> 0 <= nth (Z.to_nat i) lext 0 <= 5.
Proof.
  intros H. assert (F : Forall (fun v => 0 <= v <= 5) lext) by (unfold lext; repeat constructor; lia).
  apply (Forall_nth_Z lext i F). exact H.
Qed.
Lemma dists_range i : 0 <= i < 30 -> 1 <= nth (Z.to_nat i) dists 0 <= 24577.
Proof.
  intros H. assert (F : Forall (fun v => 1 <= v <= 24577) dists) by (unfold dists; repeat constructor; lia).
  apply (Forall_nth_Z dists i F). exact H.
Qed.
Lemma dext_range i : 0 <= i < 30 -> 0 <= nth (Z.to_nat i) dext 0 <= 13.
Proof.
  intros H. assert (F : Forall (fun v => 0 <= v <= 13) dext) by (unfold dext; repeat constructor; lia).
  apply (Forall_nth_Z dext i F). exact H.
Qed.

Lemma out_put_ok c s v : cfg_ok c -> c_nil c = false -> inv c s -> p_outcnt s < c_outlen c ->
  exists s', out_put c s v = Ok s' /\ inv c s' /\ mu c s' = mu c s /\ p_outcnt s' = p_outcnt s + 1.
Proof.
  intros (Hcin & Hcout) Hnil [(A1 & A2 & A3 & A5 & A6 & A7) Hbc] Hlt. specialize (Hcout Hnil). unfold BIG in *.
  rewrite Hnil in A6. unfold out_put.
  destruct (Z.leb_spec 0 (p_outcnt s)); [|lia]. destruct (Z.ltb_spec (p_outcnt s) (c_outcap c)); [|lia]. cbn [andb].
  rewrite u64_id by (unfold M64; lia). eexists. split; [reflexivity|].
  split; [|split; reflexivity]. split; [|exact Hbc].
  unfold inv0; cbn [p_incnt p_in p_out p_outcnt]. rewrite Hnil. rewrite len_cons.
  repeat split; try lia; try tauto; try (unfold M64; lia). apply bytes_cons; split; [|exact A7].
  unfold byte, u8, wrapu, M8. apply Z.mod_pos_bound. lia.
Qed.

Lemma copy_back_ok c dist : cfg_ok c -> c_nil c = false -> 1 <= dist ->
  forall k s, inv c s -> dist <= p_outcnt s -> p_outcnt s + Z.of_nat k <= c_outlen c ->
  exists s', copy_back k c s dist = Ok s' /\ inv c s' /\ mu c s' = mu c s.
Proof.
  intros Hc Hnil Hd. induction k as [|k IH]; intros s Hi Hdist Hroom.
  - exists s. cbn [copy_back]. auto.
  - cbn [copy_back]. unfold out_back.
    pose proof Hi as [(A1 & A2 & A3 & A5 & A6 & A7) Hbc]. rewrite Hnil in A6. destruct A6 as [A6 A6'].
    destruct (Z.leb_spec 0 (p_outcnt s - dist)); [|lia]. destruct (Z.ltb_spec (p_outcnt s - dist) (p_outcnt s)); [|lia].
    cbn [andb].
    rewrite (nth_error_nth' (p_out s) 0) by (unfold len in A6'; lia). cbn [bind].
    destruct (out_put_ok c s (nth (Z.to_nat (dist - 1)) (p_out s) 0) Hc Hnil Hi ltac:(lia)) as (s1 & E1 & Hi1 & Hm1 & Ho1).
    rewrite E1. cbn [bind].
    destruct (IH s1 Hi1 ltac:(lia) ltac:(lia)) as (s2 & E2 & Hi2 & Hm2).
    exists s2. split; [exact E2|]. split; [exact Hi2|lia].
Qed.

Lemma inv_add_outcnt c s k : c_nil c = true -> inv c s -> inv c (add_outcnt s k) /\ mu c (add_outcnt s k) = mu c s.
Proof.
  intros Hnil [(A1 & A2 & A3 & A5 & A6 & A7) Hbc]. rewrite Hnil in A6.
  split; [|reflexivity]. split; [|exact Hbc]. unfold inv0, add_outcnt; cbn [p_incnt p_in p_out p_outcnt]. rewrite Hnil.
  repeat split; try lia; try tauto; unfold u64, wrapu; apply Z.mod_pos_bound; reflexivity.
Qed.

Definition codes_post (c : pcfg) (s0 : pstate) (r : res (bool * pstate)) : Prop :=
  match r with
  | Ok (_, s') => inv c s' /\ 0 <= mu c s' < mu c s0
  | Err e => e <> 0
  | Oob => False
  | NoFuel => False
  end.

Lemma mu_nonneg c s : inv c s -> 0 <= mu c s.
Proof. intros [(A1 & _) Hbc]. unfold mu. lia. Qed.

Opaque decode bits copy_back.

Lemma codes_step_ok c lc dc Bl s : cfg_ok c -> huff_ok lc Bl -> huff_ok dc 30 -> inv c s ->
  codes_post c s (codes_step c lc dc s).
Proof.
  intros Hc Hlc Hdc Hi. unfold codes_step, codes_post.
  pose proof (decode_ok c lc Bl s Hc Hlc Hi) as H1. unfold dec_post in H1.
  destruct (decode c lc s) as [[symbol s1]| | |]; cbn [bind]; auto.
  destruct H1 as (Hi1 & Hsym & Hm1 & Ho1).
  destruct (Z.ltb_spec symbol 0); [lia|].
  destruct (Z.ltb_spec symbol 256) as [Hlit|Hnl].
  - (* literal *)
    destruct (c_nil c) eqn:Hnil; cbn [negb].
    + destruct (inv_add_outcnt c s1 1 Hnil Hi1) as [Hi2 Hm2]. split; [exact Hi2|]. rewrite Hm2.
      pose proof (mu_nonneg c s1 Hi1). lia.
    + destruct (Z.eqb_spec (p_outcnt s1) (c_outlen c)); [lia|].
      assert (Hlt : p_outcnt s1 < c_outlen c).
      { destruct Hi1 as [(_ & _ & _ & _ & A6 & _) _]. rewrite Hnil in A6. lia. }
      destruct (out_put_ok c s1 symbol Hc Hnil Hi1 Hlt) as (s2 & E2 & Hi2 & Hm2 & _).
      rewrite E2. cbn [bind]. split; [exact Hi2|]. rewrite Hm2. pose proof (mu_nonneg c s1 Hi1). lia.
  - destruct (Z.ltb_spec 256 symbol) as [Hlen|Heob].
    + (* length / distance pair *)
      destruct (Z.leb_spec 29 (symbol - 257)); [lia|].
      rewrite (rd_ok lens) by (change (len lens) with 29; lia). cbn [bind].
      rewrite (rd_ok lext) by (change (len lext) with 29; lia). cbn [bind].
      pose proof (lens_range (symbol - 257) ltac:(lia)) as Hlb.
      pose proof (lext_range (symbol - 257) ltac:(lia)) as Hlx.
      pose proof (bits_ok c s1 (nth (Z.to_nat (symbol - 257)) lext 0) Hc Hi1 ltac:(lia)) as H2. unfold bits_post in H2.
      destruct (bits c s1 (nth (Z.to_nat (symbol - 257)) lext 0)) as [[eb s2]| | |]; cbn [bind]; auto; [|lia].
      destruct H2 as (Hi2 & Heb & Hm2 & Ho2).
      assert (Heb5 : 0 <= eb < 32).
      { destruct Heb as [He1 He2]. split; [exact He1|]. eapply Z.lt_le_trans; [exact He2|].
        change 32 with (2 ^ 5). apply Z.pow_le_mono_r; lia. }
      pose proof (decode_ok c dc 30 s2 Hc Hdc Hi2) as H3. unfold dec_post in H3.
      destruct (decode c dc s2) as [[dsym s3]| | |]; cbn [bind]; auto.
      destruct H3 as (Hi3 & Hds & Hm3 & Ho3).
      destruct (Z.ltb_spec dsym 0); [lia|].
      rewrite (rd_ok dists) by (change (len dists) with 30; lia). cbn [bind].
      rewrite (rd_ok dext) by (change (len dext) with 30; lia). cbn [bind].
      pose proof (dists_range dsym ltac:(lia)) as Hdb.
      pose proof (dext_range dsym ltac:(lia)) as Hdx.
      pose proof (bits_ok c s3 (nth (Z.to_nat dsym) dext 0) Hc Hi3 ltac:(lia)) as H4. unfold bits_post in H4.
      destruct (bits c s3 (nth (Z.to_nat dsym) dext 0)) as [[eb2 s4]| | |]; cbn [bind]; auto; [|lia].
      destruct H4 as (Hi4 & Heb2 & Hm4 & Ho4).
      assert (Heb13 : 0 <= eb2 < 8192).
      { destruct Heb2 as [He1 He2]. split; [exact He1|]. eapply Z.lt_le_trans; [exact He2|].
        change 8192 with (2 ^ 13). apply Z.pow_le_mono_r; lia. }
      rewrite (u32_id (nth (Z.to_nat dsym) dists 0 + eb2)) by (unfold M32; lia).
      set (dist := nth (Z.to_nat dsym) dists 0 + eb2) in *.
      set (ln := nth (Z.to_nat (symbol - 257)) lens 0 + eb) in *.
      pose proof (mu_nonneg c s4 Hi4) as Hmn.
      destruct (Z.ltb_spec (p_outcnt s4) dist); [lia|].
      destruct (c_nil c) eqn:Hnil; cbn [negb].
      * destruct (inv_add_outcnt c s4 ln Hnil Hi4) as [Hi5 Hm5]. split; [exact Hi5|]. rewrite Hm5. lia.
      * assert (Hob : p_outcnt s4 <= c_outlen c /\ c_outlen c < BIG).
        { destruct Hi4 as [(_ & _ & _ & _ & A6 & _) _]. rewrite Hnil in A6. destruct Hc as [_ Hco]. specialize (Hco Hnil). lia. }
        unfold BIG in Hob.
        rewrite u64_id by (unfold M64; lia).
        destruct (Z.ltb_spec (c_outlen c) (p_outcnt s4 + ln)); [lia|].
        destruct (copy_back_ok c dist Hc Hnil ltac:(lia) (Z.to_nat ln) s4 Hi4 ltac:(lia) ltac:(lia)) as (s5 & E5 & Hi5 & Hm5).
        rewrite E5. cbn [bind]. split; [exact Hi5|]. rewrite Hm5. lia.
    + (* end of block *)
      split; [exact Hi1|]. pose proof (mu_nonneg c s1 Hi1). lia.
Qed.

Theorem codes_ok c lc dc Bl s : cfg_ok c -> huff_ok lc Bl -> huff_ok dc 30 -> inv c s ->
  step_post c s (codes c lc dc s).
Proof.
  intros Hc Hlc Hdc Hi. unfold codes.
  apply (run_loop_inv (fun s1 => lift_step (codes_step c lc dc s1) (fun s2 => s2))
           (fun s1 => inv c s1 /\ mu c s1 <= mu c s) (step_post c s) (mu c)).
  - intros s1 [Hi1 Hm1]. pose proof (codes_step_ok c lc dc Bl s1 Hc Hlc Hdc Hi1) as H. unfold codes_post in H.
    unfold lift_step. destruct (codes_step c lc dc s1) as [[[|] s2]| | |]; cbn [step_post]; try tauto.
    + destruct H as [H1 H2]. split; [exact H1|lia].
    + destruct H as [H1 H2]. split; [split; [exact H1|lia]|lia].
  - split; [exact Hi|lia].
  - pose proof (mu_nonneg c s Hi). destruct Hi as [(A1 & _) Hbc]. unfold mu in *. lia.
Qed.

Opaque codes construct.

(* ---- fixed ----------------------------------------------------------------------------------------- *)
Lemma Forall_repeat {P : Z -> Prop} x k : P x -> Forall P (repeat x k).
Proof. intros H. apply Forall_forall. intros y Hy. apply repeat_spec in Hy. now subst. Qed.

Lemma Forall_firstn {P : Z -> Prop} k l : Forall P l -> Forall P (firstn k l).
Proof. rewrite !Forall_forall. intros H x Hx. apply H. eapply In_firstn; eauto. Qed.
Lemma Forall_skipn {P : Z -> Prop} k l : Forall P l -> Forall P (skipn k l).
Proof. rewrite !Forall_forall. intros H x Hx. apply H. eapply In_skipn; eauto. Qed.

Lemma fixed_lengths_range : Forall (fun v => 0 <= v <= 15) fixed_lengths.
Proof. unfold fixed_lengths. repeat (apply Forall_app; split); apply Forall_repeat; lia. Qed.

Lemma fixed_tables_ok :
  (exists e h, fixed_lencode = Ok (e, h) /\ huff_ok h 288) /\ (exists e h, fixed_distcode = Ok (e, h) /\ huff_ok h 30).
Proof.
  split.
  - destruct (construct_ok fixed_lengths 0 288 ltac:(lia) ltac:(lia)) with (h := mkH (repeat 0 16) (repeat 0 288)) (B := 288)
      as (e & h & E & Hh & _); try (cbn; lia).
    + unfold lens_at. apply Forall_firstn, Forall_skipn, fixed_lengths_range.
    + cbn [h_symbol]. apply Forall_repeat. lia.
    + exists e, h. split; [exact E|exact Hh].
  - destruct (construct_ok fixed_dlengths 0 30 ltac:(lia) ltac:(lia)) with (h := mkH (repeat 0 16) (repeat 0 30)) (B := 30)
      as (e & h & E & Hh & _); try (cbn; lia).
    + unfold lens_at, fixed_dlengths. apply Forall_firstn, Forall_skipn. apply Forall_app; split; [apply Forall_repeat; lia|].
      apply Forall_skipn, fixed_lengths_range.
    + cbn [h_symbol]. apply Forall_repeat. lia.
    + exists e, h. split; [exact E|exact Hh].
Qed.

Theorem fixed_ok c s : cfg_ok c -> inv c s -> step_post c s (fixed c s).
Proof.
  intros Hc Hi. unfold fixed. destruct fixed_tables_ok as [(e1 & h1 & E1 & H1) (e2 & h2 & E2 & H2)].
  rewrite E1, E2. cbn [bind]. eapply codes_ok; eauto.
Qed.

(* ---- dynamic --------------------------------------------------------------------------------------- *)
Definition lens_ok (l : list Z) : Prop := len l = 316 /\ Forall (fun v => 0 <= v <= 15) l.

Definition rl_post (c : pcfg) (s0 : pstate) (r : res (pstate * list Z)) : Prop :=
  match r with
  | Ok (s', l') => inv c s' /\ mu c s' <= mu c s0 /\ lens_ok l'
  | Err e => e <> 0
  | Oob => False
  | NoFuel => False
  end.

Lemma order_range i : 0 <= i < 19 -> 0 <= nth (Z.to_nat i) order 0 <= 18.
Proof.
  intros H. assert (F : Forall (fun v => 0 <= v <= 18) order) by (unfold order; repeat constructor; lia).
  apply (Forall_nth_Z order i F). exact H.
Qed.

Lemma lens_ok_upd l i v : lens_ok l -> 0 <= i < 316 -> 0 <= v <= 15 -> lens_ok (upd l i v).
Proof. intros [Hl Hf] Hi Hv. split; [rewrite len_upd by lia; exact Hl|apply Forall_upd; auto]. Qed.

Lemma read_cl_ok c : cfg_ok c -> forall k index s lengths, inv c s -> 0 <= index -> index + Z.of_nat k <= 19 ->
  lens_ok lengths -> rl_post c s (read_cl k index c s lengths).
Proof.
  intros Hc. induction k as [|k IH]; intros index s lengths Hi Hidx Hk Hl.
  - cbn [read_cl rl_post]. split; [exact Hi|split; [lia|exact Hl]].
  - cbn [read_cl]. pose proof (bits_ok c s 3 Hc Hi ltac:(lia)) as Hb. unfold bits_post in Hb.
    destruct (bits c s 3) as [[v s1]| | |]; cbn [bind rl_post]; auto; [|lia].
    destruct Hb as (Hi1 & Hv & Hm1 & _). change (2 ^ 3) with 8 in Hv.
    rewrite (rd_ok order) by (change (len order) with 19; lia). cbn [bind].
    pose proof (order_range index ltac:(lia)) as Ho.
    rewrite wr_ok by (destruct Hl as [Hl _]; lia). cbn [bind].
    assert (Hl1 : lens_ok (upd lengths (nth (Z.to_nat index) order 0) v)) by (apply lens_ok_upd; [exact Hl|lia|lia]).
    specialize (IH (index + 1) s1 (upd lengths (nth (Z.to_nat index) order 0) v) Hi1 ltac:(lia) ltac:(lia) Hl1).
    unfold rl_post in *. destruct (read_cl k (index + 1) c s1 _) as [[s2 l2]| | |]; auto.
    destruct IH as (A & B' & C). split; [exact A|split; [lia|exact C]].
Qed.

Lemma zero_cl_ok : forall k index lengths, 0 <= index -> index + Z.of_nat k <= 19 -> lens_ok lengths ->
  exists l', zero_cl k index lengths = Ok l' /\ lens_ok l'.
Proof.
  induction k as [|k IH]; intros index lengths Hidx Hk Hl.
  - exists lengths. cbn [zero_cl]. auto.
  - cbn [zero_cl]. rewrite (rd_ok order) by (change (len order) with 19; lia). cbn [bind].
    pose proof (order_range index ltac:(lia)) as Ho.
    rewrite wr_ok by (destruct Hl as [Hl _]; lia). cbn [bind].
    apply IH; try lia. apply lens_ok_upd; auto; lia.
Qed.

Lemma repeat_len_ok v : 0 <= v <= 15 -> forall k index lengths, 0 <= index -> index + Z.of_nat k <= 316 ->
  lens_ok lengths -> exists l', repeat_len k index v lengths = Ok l' /\ lens_ok l'.
Proof.
  intros Hv. induction k as [|k IH]; intros index lengths Hidx Hk Hl.
  - exists lengths. cbn [repeat_len]. auto.
  - cbn [repeat_len]. rewrite wr_ok by (destruct Hl as [Hl _]; lia). cbn [bind].
    apply IH; try lia. apply lens_ok_upd; auto; lia.
Qed.

Lemma read_lengths_ok c lc s0 : cfg_ok c -> huff_ok lc 286 ->
  forall fuel s lengths index nlen ndist, inv c s -> mu c s <= mu c s0 -> lens_ok lengths ->
  0 <= index -> nlen + ndist <= 316 -> nlen + ndist - index < Z.of_nat fuel ->
  rl_post c s0 (read_lengths fuel c lc s lengths index nlen ndist).
Proof.
  intros Hc Hlc. induction fuel as [|fuel IH]; intros s lengths index nlen ndist Hi Hm Hl Hidx Hn Hfuel.
  - cbn [read_lengths]. destruct (Z.ltb_spec index (nlen + ndist)); [lia|]. cbn [rl_post]. auto.
  - cbn [read_lengths]. destruct (Z.ltb_spec index (nlen + ndist)) as [Hlt|Hge]; [|cbn [rl_post]; auto].
    pose proof (decode_ok c lc 286 s Hc Hlc Hi) as Hd. unfold dec_post in Hd.
    destruct (decode c lc s) as [[symbol s1]| | |]; cbn [bind rl_post]; auto.
    destruct Hd as (Hi1 & Hsym & Hm1 & _).
    destruct (Z.ltb_spec symbol 0); [lia|].
    destruct (Z.ltb_spec symbol 16) as [Hs16|Hrep].
    + rewrite wr_ok by (destruct Hl as [Hl _]; lia). cbn [bind].
      apply IH; auto; try lia. apply lens_ok_upd; auto; lia.
    + (* repeat instruction: the value to repeat, the count, the state after reading the extra bits *)
      assert (Hrep_post : forall (r : res (Z * Z * pstate)),
                (match r with
                 | Ok (ln, rep, s2) => inv c s2 /\ mu c s2 <= mu c s1 /\ 0 <= ln <= 15 /\ 3 <= rep <= 138
                 | Err e => e <> 0 | Oob => False | NoFuel => False end) ->
                rl_post c s0
                  ('(ln, symbol0, s2) <- r ;;
                   if nlen + ndist <? index + symbol0 then Err (-6) else
                   l1 <- repeat_len (Z.to_nat symbol0) index ln lengths ;;
                   read_lengths fuel c lc s2 l1 (index + symbol0) nlen ndist)).
      { intros [[[ln rep] s2]| | |]; cbn [bind rl_post]; auto. intros (Hi2 & Hm2 & Hln & Hrp).
        destruct (Z.ltb_spec (nlen + ndist) (index + rep)); [cbn [rl_post]; lia|].
        destruct (repeat_len_ok ln Hln (Z.to_nat rep) index lengths Hidx ltac:(lia) Hl) as (l1 & E1 & Hl1).
        rewrite E1. cbn [bind]. apply IH; auto; lia. }
      apply Hrep_post.
      destruct (Z.eqb_spec symbol 16).
      * destruct (Z.eqb_spec index 0); [lia|].
        rewrite rd_ok by (destruct Hl as [Hl _]; lia). cbn [bind].
        pose proof (bits_ok c s1 2 Hc Hi1 ltac:(lia)) as Hb. unfold bits_post in Hb.
        destruct (bits c s1 2) as [[v s2]| | |]; cbn [bind]; auto; [|lia].
        destruct Hb as (Hi2 & Hv & Hm2 & _). change (2 ^ 2) with 4 in Hv.
        split; [exact Hi2|split; [lia|split; [|lia]]].
        apply (Forall_nth_Z lengths (index - 1) (proj2 Hl)); destruct Hl as [Hl _]; lia.
      * destruct (Z.eqb_spec symbol 17).
        -- pose proof (bits_ok c s1 3 Hc Hi1 ltac:(lia)) as Hb. unfold bits_post in Hb.
           destruct (bits c s1 3) as [[v s2]| | |]; cbn [bind]; auto; [|lia].
           destruct Hb as (Hi2 & Hv & Hm2 & _). change (2 ^ 3) with 8 in Hv. split; [exact Hi2|lia].
        -- pose proof (bits_ok c s1 7 Hc Hi1 ltac:(lia)) as Hb. unfold bits_post in Hb.
           destruct (bits c s1 7) as [[v s2]| | |]; cbn [bind]; auto; [|lia].
           destruct Hb as (Hi2 & Hv & Hm2 & _). change (2 ^ 7) with 128 in Hv. split; [exact Hi2|lia].
Qed.

Opaque read_cl zero_cl read_lengths.

Lemma lens_at_range lengths loff n : lens_ok lengths -> Forall (fun v => 0 <= v <= 15) (lens_at lengths loff n).
Proof. intros [_ Hf]. unfold lens_at. apply Forall_firstn, Forall_skipn, Hf. Qed.

Theorem dynamic_ok c s : cfg_ok c -> inv c s -> step_post c s (dynamic c s).
Proof.
  intros Hc Hi. unfold dynamic.
  pose proof (bits_ok c s 5 Hc Hi ltac:(lia)) as Hb1. unfold bits_post in Hb1.
  destruct (bits c s 5) as [[v1 s1]| | |]; cbn [bind step_post]; auto; [|lia].
  destruct Hb1 as (Hi1 & Hv1 & Hm1 & _). change (2 ^ 5) with 32 in Hv1.
  pose proof (bits_ok c s1 5 Hc Hi1 ltac:(lia)) as Hb2. unfold bits_post in Hb2.
  destruct (bits c s1 5) as [[v2 s2]| | |]; cbn [bind step_post]; auto; [|lia].
  destruct Hb2 as (Hi2 & Hv2 & Hm2 & _). change (2 ^ 5) with 32 in Hv2.
  pose proof (bits_ok c s2 4 Hc Hi2 ltac:(lia)) as Hb3. unfold bits_post in Hb3.
  destruct (bits c s2 4) as [[v3 s3]| | |]; cbn [bind step_post]; auto; [|lia].
  destruct Hb3 as (Hi3 & Hv3 & Hm3 & _). change (2 ^ 4) with 16 in Hv3.
  unfold MAXLCODES, MAXDCODES.
  destruct (Z.ltb_spec 286 (v1 + 257)); cbn [orb]; [cbn [step_post]; lia|].
  destruct (Z.ltb_spec 30 (v2 + 1)); [cbn [step_post]; lia|].
  set (nlen := v1 + 257) in *. set (ndist := v2 + 1) in *. set (ncode := v3 + 4) in *.
  assert (Hl0 : lens_ok (repeat 0 316)) by (split; [reflexivity|apply Forall_repeat; lia]).
  pose proof (read_cl_ok c Hc (Z.to_nat ncode) 0 s3 (repeat 0 316) Hi3 ltac:(lia) ltac:(lia) Hl0) as Hr1. unfold rl_post in Hr1.
  destruct (read_cl (Z.to_nat ncode) 0 c s3 (repeat 0 316)) as [[s4 l4]| | |]; cbn [bind]; auto.
  destruct Hr1 as (Hi4 & Hm4 & Hl4).
  destruct (zero_cl_ok (Z.to_nat (19 - ncode)) ncode l4 ltac:(lia) ltac:(lia) Hl4) as (l5 & E5 & Hl5).
  rewrite E5. cbn [bind].
  destruct (construct_ok l5 0 19 ltac:(lia) ltac:(lia) ltac:(destruct Hl5; lia) (lens_at_range l5 0 19 Hl5)
              (mkH (repeat 0 16) (repeat 0 286)) 286) as (err1 & h1 & E6 & Hh1 & Hs1 & _); try (cbn; lia).
  { cbn [h_symbol]. apply Forall_repeat. lia. }
  rewrite E6. cbn [bind].
  destruct (err1 =? 0); cbn [negb]; [|cbn [step_post]; lia].
  pose proof (read_lengths_ok c h1 s4 Hc Hh1 320 s4 l5 0 nlen ndist Hi4 ltac:(lia) Hl5 ltac:(lia) ltac:(lia) ltac:(cbn; lia)) as Hr2.
  unfold rl_post in Hr2.
  destruct (read_lengths 320 c h1 s4 l5 0 nlen ndist) as [[s6 l6]| | |]; cbn [bind]; auto.
  destruct Hr2 as (Hi6 & Hm6 & Hl6).
  rewrite rd_ok by (destruct Hl6; lia). cbn [bind].
  destruct (nth (Z.to_nat 256) l6 0 =? 0); [cbn [step_post]; lia|].
  cbn [h_symbol] in Hs1.
  destruct (construct_ok l6 0 nlen ltac:(lia) ltac:(lia) ltac:(destruct Hl6; lia) (lens_at_range l6 0 nlen Hl6)
              h1 286) as (err2 & h2 & E7 & Hh2 & Hs2 & _); try lia.
  { apply Hh1. } { rewrite Hs1. rewrite len_repeat. lia. } { apply Hh1. }
  rewrite E7. cbn [bind].
  rewrite !rd_ok by (destruct Hh2 as (Hl2 & _); lia). cbn [bind].
  match goal with |- context [if ?X then Err (-7) else _] => destruct X end; [cbn [step_post]; lia|].
  destruct (construct_ok l6 nlen ndist ltac:(lia) ltac:(lia) ltac:(destruct Hl6; lia) (lens_at_range l6 nlen ndist Hl6)
              (mkH (repeat 0 16) (repeat 0 30)) 30) as (err3 & h3 & E8 & Hh3 & _); try (cbn; lia).
  { cbn [h_symbol]. apply Forall_repeat. lia. }
  rewrite E8. cbn [bind].
  rewrite !rd_ok by (destruct Hh3 as (Hl3 & _); lia). cbn [bind].
  match goal with |- context [if ?X then Err (-8) else _] => destruct X end; [cbn [step_post]; lia|].
  pose proof (codes_ok c h2 h3 286 s6 Hc Hh2 Hh3 Hi6) as Hcd. unfold step_post in *.
  destruct (codes c h2 h3 s6) as [s7| | |]; auto. destruct Hcd as [Hi7 Hm7]. split; [exact Hi7|lia].
Qed.

Transparent decode bits copy_back codes construct read_cl zero_cl read_lengths.

(* ---- sc_puff, all paths ------------------------------------------------------------------------------ *)
Theorem puff_safe nil outcap destlen src sourcelen :
  bytes src -> 0 <= sourcelen <= len src -> len src < BIG ->
  (nil = false -> 0 <= destlen <= outcap /\ outcap < BIG) ->
  puff_post nil destlen sourcelen (puff nil outcap destlen src sourcelen).
Proof. apply puff_safe_frame; [exact fixed_ok|exact dynamic_ok]. Qed.
