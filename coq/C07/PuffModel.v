(* sc_puff.c (Mark Adler's puff 2.3 as shipped in libsc; used by sc_io_nonuncompress in builds without
   zlib, SLOW undefined): instrumented model.  Every access to the input, the output, the Huffman
   tables (count[16], symbol[n]) and the code-length array (lengths[316]) carries its index and is
   checked against the size of the array (result Oob otherwise); longjmp(env, 1) is the result Err 2.
   unsigned long arithmetic wraps modulo 2^64.  Definitions only.

   Representation: the output written so far is kept reversed (p_out, length p_outcnt), the unread
   input as the remaining list (p_in); a write happens at index p_outcnt and is checked against the
   real size of the destination memory (c_outcap), a read of the input takes the next byte and is Oob
   when the memory is exhausted. *)
From Coq Require Import ZArith List Bool.
From ScV Require Import Base.CInt C06.Res.
Import ListNotations.
Local Open Scope Z_scope.

Record pcfg := mkCfg {
  c_nil : bool;        (* dest == NIL: scanning only *)
  c_outlen : Z;        (* s.outlen = *destlen *)
  c_outcap : Z;        (* bytes of memory really available at dest *)
  c_inlen : Z          (* s.inlen = *sourcelen *)
}.

Record pstate := mkSt {
  p_out : list Z;      (* output bytes written so far, last first *)
  p_outcnt : Z;
  p_in : list Z;       (* memory at source from index p_incnt on *)
  p_incnt : Z;
  p_bitbuf : Z;
  p_bitcnt : Z
}.

Definition set_bits (s : pstate) (bb bc : Z) : pstate :=
  mkSt (p_out s) (p_outcnt s) (p_in s) (p_incnt s) bb bc.

(* s->in[s->incnt++] *)
Definition in_byte (s : pstate) : res (Z * pstate) :=
  match p_in s with
  | [] => Oob
  | x :: r => Ok (x, mkSt (p_out s) (p_outcnt s) r (u64 (p_incnt s + 1)) (p_bitbuf s) (p_bitcnt s))
  end.

(* s->out[s->outcnt] = v; s->outcnt++ *)
Definition out_put (c : pcfg) (s : pstate) (v : Z) : res pstate :=
  if (0 <=? p_outcnt s) && (p_outcnt s <? c_outcap c)
  then Ok (mkSt (u8 v :: p_out s) (u64 (p_outcnt s + 1)) (p_in s) (p_incnt s) (p_bitbuf s) (p_bitcnt s))
  else Oob.

(* s->out[s->outcnt - dist] *)
Definition out_back (s : pstate) (dist : Z) : res Z :=
  let idx := p_outcnt s - dist in
  if (0 <=? idx) && (idx <? p_outcnt s) then
    match nth_error (p_out s) (Z.to_nat (dist - 1)) with Some v => Ok v | None => Oob end
  else Oob.

(* ---- bits ----------------------------------------------------------------------------------- *)
Fixpoint bits_loop (fuel : nat) (c : pcfg) (s : pstate) (val need : Z) : res (pstate * Z) :=
  if p_bitcnt s <? need then
    match fuel with
    | O => NoFuel
    | S f =>
      if p_incnt s =? c_inlen c then Err 2 else
      '(b, s1) <- in_byte s ;;
      bits_loop f c (set_bits s1 (p_bitbuf s1) (p_bitcnt s1 + 8)) (Z.lor val (shl b (p_bitcnt s))) need
    end
  else Ok (s, val).

Definition bits (c : pcfg) (s : pstate) (need : Z) : res (Z * pstate) :=
  '(s1, val) <- bits_loop 4 c s (p_bitbuf s) need ;;
  Ok (Z.land val (shl 1 need - 1), set_bits s1 (shr val need) (p_bitcnt s1 - need)).

(* ---- stored --------------------------------------------------------------------------------- *)
Definition stored (c : pcfg) (s : pstate) : res pstate :=
  let s := set_bits s 0 0 in
  if c_inlen c <? u64 (p_incnt s + 4) then Err 2 else
  '(b0, s) <- in_byte s ;;
  '(b1, s) <- in_byte s ;;
  let ln := Z.lor b0 (shl b1 8) in
  '(b2, s) <- in_byte s ;;
  if negb (b2 =? Z.land (u32 (Z.lnot ln)) 255) then Err (-2) else
  '(b3, s) <- in_byte s ;;
  if negb (b3 =? Z.land (shr (u32 (Z.lnot ln)) 8) 255) then Err (-2) else
  if c_inlen c <? u64 (p_incnt s + ln) then Err 2 else
  if negb (c_nil c) then
    if c_outlen c <? u64 (p_outcnt s + ln) then Err 1 else
    (* while (len--) s->out[s->outcnt++] = s->in[s->incnt++]; as one checked block move *)
    if (len (p_in s) <? ln) || (c_outcap c <? p_outcnt s + ln) then Oob else
    Ok (mkSt (rev_append (firstn (Z.to_nat ln) (p_in s)) (p_out s)) (u64 (p_outcnt s + ln))
             (skipn (Z.to_nat ln) (p_in s)) (u64 (p_incnt s + ln)) (p_bitbuf s) (p_bitcnt s))
  else
    Ok (mkSt (p_out s) (u64 (p_outcnt s + ln)) (skipn (Z.to_nat ln) (p_in s)) (u64 (p_incnt s + ln))
             (p_bitbuf s) (p_bitcnt s)).

(* ---- Huffman tables -------------------------------------------------------------------------- *)
Record huff := mkH { h_count : list Z; h_symbol : list Z }.

Definition MAXBITS : Z := 15.

(* decode (fast version) *)
Fixpoint decode_loop (fuel : nat) (c : pcfg) (h : huff) (s : pstate)
         (bitbuf lft code first index ln next : Z) : res (Z * pstate) :=
  match fuel with
  | O => NoFuel
  | S f =>
    if negb (lft =? 0) then
      let lft := lft - 1 in
      let code := Z.lor code (Z.land bitbuf 1) in
      let bitbuf := shr bitbuf 1 in
      count <- rd (h_count h) next ;;
      let next := next + 1 in
      if code - count <? first then
        sym <- rd (h_symbol h) (index + (code - first)) ;;
        Ok (sym, set_bits s bitbuf (Z.land (p_bitcnt s - ln) 7))
      else
        decode_loop f c h s bitbuf lft (shl code 1) (shl (first + count) 1) (index + count) (ln + 1) next
    else
      let lft := (MAXBITS + 1) - ln in
      if lft =? 0 then Err (-10) else
      if p_incnt s =? c_inlen c then Err 2 else
      '(b, s1) <- in_byte s ;;
      decode_loop f c h s1 b (if 8 <? lft then 8 else lft) code first index ln next
  end.

Definition decode (c : pcfg) (h : huff) (s : pstate) : res (Z * pstate) :=
  decode_loop 40 c h s (p_bitbuf s) (p_bitcnt s) 0 0 0 1 1.

(* construct (h, length + loff, n): returns (return value, tables) *)
Fixpoint zero_counts (k : nat) (i : Z) (cnt : list Z) : res (list Z) :=
  match k with
  | O => Ok cnt
  | S k' => cnt1 <- wr cnt i 0 ;; zero_counts k' (i + 1) cnt1
  end.

Fixpoint count_lengths (k : nat) (sym : Z) (lengths : list Z) (loff : Z) (cnt : list Z) : res (list Z) :=
  match k with
  | O => Ok cnt
  | S k' => l <- rd lengths (loff + sym) ;;
            v <- rd cnt l ;;
            cnt1 <- wr cnt l (s16 (v + 1)) ;;
            count_lengths k' (sym + 1) lengths loff cnt1
  end.

(* the over-subscription loop: returns inl lft (negative: returned early) or inr lft (after the loop) *)
Fixpoint check_left (k : nat) (ln : Z) (cnt : list Z) (lft : Z) : res (Z + Z) :=
  match k with
  | O => Ok (inr lft)
  | S k' => v <- rd cnt ln ;;
            let lft := shl lft 1 - v in
            if lft <? 0 then Ok (inl lft) else check_left k' (ln + 1) cnt lft
  end.

Fixpoint make_offs (k : nat) (ln : Z) (cnt offs : list Z) : res (list Z) :=
  match k with
  | O => Ok offs
  | S k' => o <- rd offs ln ;;
            v <- rd cnt ln ;;
            offs1 <- wr offs (ln + 1) (s16 (o + v)) ;;
            make_offs k' (ln + 1) cnt offs1
  end.

Fixpoint fill_symbols (k : nat) (sym : Z) (lengths : list Z) (loff : Z) (offs symtab : list Z) : res (list Z) :=
  match k with
  | O => Ok symtab
  | S k' => l <- rd lengths (loff + sym) ;;
            if negb (l =? 0) then
              o <- rd offs l ;;
              symtab1 <- wr symtab o sym ;;
              offs1 <- wr offs l (s16 (o + 1)) ;;
              fill_symbols k' (sym + 1) lengths loff offs1 symtab1
            else fill_symbols k' (sym + 1) lengths loff offs symtab
  end.

Definition construct (h : huff) (lengths : list Z) (loff n : Z) : res (Z * huff) :=
  cnt <- zero_counts 16 0 (h_count h) ;;
  cnt <- count_lengths (Z.to_nat n) 0 lengths loff cnt ;;
  c0 <- rd cnt 0 ;;
  if c0 =? n then Ok (0, mkH cnt (h_symbol h)) else
  r <- check_left 15 1 cnt 1 ;;
  match r with
  | inl lft => Ok (lft, mkH cnt (h_symbol h))
  | inr lft =>
    offs <- wr (repeat 0 16) 1 0 ;;
    offs <- make_offs 14 1 cnt offs ;;
    symtab <- fill_symbols (Z.to_nat n) 0 lengths loff offs (h_symbol h) ;;
    Ok (lft, mkH cnt symtab)
  end.

(* ---- codes ---------------------------------------------------------------------------------- *)
Definition lens : list Z := [3; 4; 5; 6; 7; 8; 9; 10; 11; 13; 15; 17; 19; 23; 27; 31; 35; 43; 51; 59; 67; 83; 99; 115; 131; 163; 195; 227; 258].
Definition lext : list Z := [0; 0; 0; 0; 0; 0; 0; 0; 1; 1; 1; 1; 2; 2; 2; 2; 3; 3; 3; 3; 4; 4; 4; 4; 5; 5; 5; 5; 0].
Definition dists : list Z := [1; 2; 3; 4; 5; 7; 9; 13; 17; 25; 33; 49; 65; 97; 129; 193; 257; 385; 513; 769; 1025; 1537; 2049; 3073; 4097; 6145; 8193; 12289; 16385; 24577].
Definition dext : list Z := [0; 0; 0; 0; 1; 1; 2; 2; 3; 3; 4; 4; 5; 5; 6; 6; 7; 7; 8; 8; 9; 9; 10; 10; 11; 11; 12; 12; 13; 13].

Fixpoint copy_back (k : nat) (c : pcfg) (s : pstate) (dist : Z) : res pstate :=
  match k with
  | O => Ok s
  | S k' => v <- out_back s dist ;;
            s1 <- out_put c s v ;;
            copy_back k' c s1 dist
  end.

Definition add_outcnt (s : pstate) (n : Z) : pstate :=
  mkSt (p_out s) (u64 (p_outcnt s + n)) (p_in s) (p_incnt s) (p_bitbuf s) (p_bitcnt s).

(* one iteration of the do-while loop of codes(): (end of block?, state) *)
Definition codes_step (c : pcfg) (lc dc : huff) (s : pstate) : res (bool * pstate) :=
  '(symbol, s) <- decode c lc s ;;
  if symbol <? 0 then Err symbol else
  if symbol <? 256 then
    if negb (c_nil c) then
      if p_outcnt s =? c_outlen c then Err 1 else
      s1 <- out_put c s symbol ;; Ok (false, s1)
    else Ok (false, add_outcnt s 1)
  else if 256 <? symbol then
    let symbol := symbol - 257 in
    if 29 <=? symbol then Err (-10) else
    lbase <- rd lens symbol ;;
    lx <- rd lext symbol ;;
    '(eb, s) <- bits c s lx ;;
    let ln := lbase + eb in
    '(dsym, s) <- decode c dc s ;;
    if dsym <? 0 then Err dsym else
    dbase <- rd dists dsym ;;
    dx <- rd dext dsym ;;
    '(eb2, s) <- bits c s dx ;;
    let dist := u32 (dbase + eb2) in
    if p_outcnt s <? dist then Err (-11) else
    if negb (c_nil c) then
      if c_outlen c <? u64 (p_outcnt s + ln) then Err 1 else
      s1 <- copy_back (Z.to_nat ln) c s dist ;; Ok (false, s1)
    else Ok (false, add_outcnt s ln)
  else Ok (true, s).

Definition lift_step {S B} (r : res (bool * S)) (fin : S -> B) : S + res B :=
  match r with
  | Ok (true, s) => inr (Ok (fin s))
  | Ok (false, s) => inl s
  | Err e => inr (Err e)
  | Oob => inr Oob
  | NoFuel => inr NoFuel
  end.

Definition codes (c : pcfg) (lc dc : huff) (s : pstate) : res pstate :=
  run_loop (8 * c_inlen c + 8) (fun s => lift_step (codes_step c lc dc s) (fun s => s)) s.

(* ---- fixed ---------------------------------------------------------------------------------- *)
Definition FIXLCODES : Z := 288.
Definition MAXDCODES : Z := 30.
Definition MAXLCODES : Z := 286.
Definition MAXCODES : Z := 316.

Definition fixed_lengths : list Z := repeat 8 144 ++ repeat 9 112 ++ repeat 7 24 ++ repeat 8 8.
Definition fixed_dlengths : list Z := repeat 5 30 ++ skipn 30 fixed_lengths.
Definition fixed_lencode : res (Z * huff) := construct (mkH (repeat 0 16) (repeat 0 288)) fixed_lengths 0 FIXLCODES.
Definition fixed_distcode : res (Z * huff) := construct (mkH (repeat 0 16) (repeat 0 30)) fixed_dlengths 0 MAXDCODES.

Definition fixed (c : pcfg) (s : pstate) : res pstate :=
  '(_, lc) <- fixed_lencode ;;
  '(_, dc) <- fixed_distcode ;;
  codes c lc dc s.

(* ---- dynamic -------------------------------------------------------------------------------- *)
Definition order : list Z := [16; 17; 18; 0; 8; 7; 9; 6; 10; 5; 11; 4; 12; 3; 13; 2; 14; 1; 15].

(* for (index = 0; index < ncode; index++) lengths[order[index]] = bits(s, 3); *)
Fixpoint read_cl (k : nat) (index : Z) (c : pcfg) (s : pstate) (lengths : list Z) : res (pstate * list Z) :=
  match k with
  | O => Ok (s, lengths)
  | S k' => '(v, s1) <- bits c s 3 ;;
            o <- rd order index ;;
            l1 <- wr lengths o v ;;
            read_cl k' (index + 1) c s1 l1
  end.

(* for (; index < 19; index++) lengths[order[index]] = 0; *)
Fixpoint zero_cl (k : nat) (index : Z) (lengths : list Z) : res (list Z) :=
  match k with
  | O => Ok lengths
  | S k' => o <- rd order index ;;
            l1 <- wr lengths o 0 ;;
            zero_cl k' (index + 1) l1
  end.

(* while (symbol--) lengths[index++] = len; *)
Fixpoint repeat_len (k : nat) (index : Z) (v : Z) (lengths : list Z) : res (list Z) :=
  match k with
  | O => Ok lengths
  | S k' => l1 <- wr lengths index v ;; repeat_len k' (index + 1) v l1
  end.

(* while (index < nlen + ndist) { ... } *)
Fixpoint read_lengths (fuel : nat) (c : pcfg) (lc : huff) (s : pstate) (lengths : list Z)
         (index nlen ndist : Z) : res (pstate * list Z) :=
  if index <? nlen + ndist then
    match fuel with
    | O => NoFuel
    | S f =>
      '(symbol, s) <- decode c lc s ;;
      if symbol <? 0 then Err symbol else
      if symbol <? 16 then
        l1 <- wr lengths index symbol ;;
        read_lengths f c lc s l1 (index + 1) nlen ndist
      else
        '(ln, symbol, s) <-
          (if symbol =? 16 then
             if index =? 0 then Err (-5) else
             l <- rd lengths (index - 1) ;;
             '(v, s1) <- bits c s 2 ;; Ok (l, 3 + v, s1)
           else if symbol =? 17 then
             '(v, s1) <- bits c s 3 ;; Ok (0, 3 + v, s1)
           else
             '(v, s1) <- bits c s 7 ;; Ok (0, 11 + v, s1)) ;;
        if nlen + ndist <? index + symbol then Err (-6) else
        l1 <- repeat_len (Z.to_nat symbol) index ln lengths ;;
        read_lengths f c lc s l1 (index + symbol) nlen ndist
    end
  else Ok (s, lengths).

Definition dynamic (c : pcfg) (s : pstate) : res pstate :=
  let lengths := repeat 0 316 in
  let lencode := mkH (repeat 0 16) (repeat 0 286) in
  let distcode := mkH (repeat 0 16) (repeat 0 30) in
  '(v, s) <- bits c s 5 ;; let nlen := v + 257 in
  '(v, s) <- bits c s 5 ;; let ndist := v + 1 in
  '(v, s) <- bits c s 4 ;; let ncode := v + 4 in
  if (MAXLCODES <? nlen) || (MAXDCODES <? ndist) then Err (-3) else
  '(s, lengths) <- read_cl (Z.to_nat ncode) 0 c s lengths ;;
  lengths <- zero_cl (Z.to_nat (19 - ncode)) ncode lengths ;;
  '(err, lencode) <- construct lencode lengths 0 19 ;;
  if negb (err =? 0) then Err (-4) else
  '(s, lengths) <- read_lengths 320 c lencode s lengths 0 nlen ndist ;;
  l256 <- rd lengths 256 ;;
  if l256 =? 0 then Err (-9) else
  '(err, lencode) <- construct lencode lengths 0 nlen ;;
  c0 <- rd (h_count lencode) 0 ;;
  c1 <- rd (h_count lencode) 1 ;;
  if negb (err =? 0) && ((err <? 0) || negb (nlen =? c0 + c1)) then Err (-7) else
  '(err, distcode) <- construct distcode lengths nlen ndist ;;
  d0 <- rd (h_count distcode) 0 ;;
  d1 <- rd (h_count distcode) 1 ;;
  if negb (err =? 0) && ((err <? 0) || negb (ndist =? d0 + d1)) then Err (-8) else
  codes c lencode distcode s.

(* ---- sc_puff -------------------------------------------------------------------------------- *)
Definition block_step (c : pcfg) (s : pstate) : res (bool * pstate) :=
  '(last, s) <- bits c s 1 ;;
  '(type, s) <- bits c s 2 ;;
  s <- (if type =? 0 then stored c s
        else if type =? 1 then fixed c s
        else if type =? 2 then dynamic c s
        else Err (-1)) ;;
  Ok (negb (last =? 0), s).

(* result: (return value, *destlen, *sourcelen, bytes written to dest in order) *)
Definition puff (nil : bool) (outcap destlen : Z) (src : list Z) (sourcelen : Z) : res (Z * Z * Z * list Z) :=
  let c := mkCfg nil destlen outcap sourcelen in
  let s0 := mkSt [] 0 src 0 0 0 in
  match run_loop (8 * sourcelen + 8) (fun s => lift_step (block_step c s) (fun s => s)) s0 with
  | Ok s => Ok (0, p_outcnt s, p_incnt s, rev_append (p_out s) [])
  | Err e => Ok (e, destlen, sourcelen, [])
  | Oob => Oob
  | NoFuel => NoFuel
  end.
