(* C02 - the epilogue model (C02/CleanupModel.v, tied to the C source by C02/CleanupGen.v) delivers every item at the
   position of its sender: for EVERY item size, record size, number of senders and memory content.
   The restatement of the epilogue inside the per-rank programs (C01/NotifyProgs.v: `if sorted then sort_by_src got else got`)
   is shown to be what the memory-level loop produces. *)
From Coq Require Import ZArith Lia List Bool Permutation.
From ScV Require Import Base.CInt MPI.Prog C02.CleanupModel C01.MergeProofs C01.NotifyProgs C01.NotifyProgProofs.
Import ListNotations.
Local Open Scope Z_scope.

(* ---- the copy loop only writes the output region ---------------------------------------------------------------------- *)
Lemma mcopy_in m dst src len a : dst <= a < dst + len -> mcopy m dst src len a = m (src + (a - dst)).
Proof.
  intros H. unfold mcopy. replace ((dst <=? a) && (a <? dst + len)) with true; [reflexivity|].
  symmetry. apply andb_true_iff. split; [apply Z.leb_le|apply Z.ltb_lt]; lia.
Qed.
Lemma mcopy_out m dst src len a : a < dst \/ dst + len <= a -> mcopy m dst src len a = m a.
Proof.
  intros H. unfold mcopy. replace ((dst <=? a) && (a <? dst + len)) with false; [reflexivity|].
  symmetry. apply andb_false_iff. destruct H; [left; apply Z.leb_gt|right; apply Z.ltb_ge]; lia.
Qed.

Lemma cl_copy_outside m rb esz out msz n a : 0 <= msz ->
  a < out \/ out + msz * Z.of_nat n <= a -> cl_copy m rb esz out msz n a = m a.
Proof.
  intros Hm. induction n as [|k IH]; intros Ha; [reflexivity|].
  cbn [cl_copy]. rewrite mcopy_out by (unfold cl_copy_dst; nia). apply IH. nia.
Qed.

(* byte k of output item i = byte k of the item part (the last msz mbytes) of record i *)
Lemma cl_copy_at m rb esz out msz n i k :
  0 < msz <= esz ->
  rb + esz * Z.of_nat n <= out \/ out + msz * Z.of_nat n <= rb ->
  (i < n)%nat -> 0 <= k < msz ->
  cl_copy m rb esz out msz n (cl_copy_dst out msz (Z.of_nat i) + k) = m (cl_copy_src (elem_addr rb esz (Z.of_nat i)) esz msz + k).
Proof.
  intros Hm. induction n as [|j IH]; intros Hd Hi Hk; [lia|].
  cbn [cl_copy]. destruct (Nat.eq_dec i j) as [->|Hne].
  - rewrite mcopy_in by (unfold cl_copy_dst; lia).
    replace (cl_copy_dst out msz (Z.of_nat j) + k - cl_copy_dst out msz (Z.of_nat j)) with k by lia.
    apply cl_copy_outside; [lia|]. unfold cl_copy_src, elem_addr. nia.
  - assert (Hij : (i < j)%nat) by lia.
    rewrite mcopy_out by (unfold cl_copy_dst; nia). apply IH; [nia|lia|lia].
Qed.

Lemma mbytes_ext m1 m2 a1 a2 n : (forall k, 0 <= k < Z.of_nat n -> m1 (a1 + k) = m2 (a2 + k)) -> mbytes m1 a1 n = mbytes m2 a2 n.
Proof.
  intros H. unfold mbytes. apply map_ext_in. intros k Hk. apply in_seq in Hk. apply H. lia.
Qed.

(* the caller's arrays after the epilogue = the records, field by field *)
Lemma out_items_records rank_of m rb esz out msz n :
  0 < msz <= esz -> rb + esz * Z.of_nat n <= out \/ out + msz * Z.of_nat n <= rb ->
  cl_out_items (cl_copy m rb esz out msz n) out msz n = map snd (cl_records rank_of m rb esz msz n).
Proof.
  intros Hm Hd. unfold cl_out_items, cl_records. rewrite map_map. cbn [snd]. apply map_ext_in. intros i Hi. apply in_seq in Hi.
  unfold rec_item. apply mbytes_ext. intros k Hk. apply cl_copy_at; [assumption|assumption|lia|lia].
Qed.

Lemma out_senders_records rank_of m rb esz msz n : cl_out_senders rank_of rb esz n = map fst (cl_records rank_of m rb esz msz n).
Proof. unfold cl_out_senders, cl_records. rewrite map_map. reflexivity. Qed.

Lemma combine_fst_snd {A B} (l : list (A * B)) : combine (map fst l) (map snd l) = l.
Proof. induction l as [|[a b] l IH]; simpl; [reflexivity|rewrite IH; reflexivity]. Qed.

(* (senders[i], item i) = record i for every i: nothing is exchanged between senders, whatever the sizes *)
Theorem cleanup_delivers_records rank_of m rb esz out msz n :
  0 < msz <= esz -> rb + esz * Z.of_nat n <= out \/ out + msz * Z.of_nat n <= rb ->
  combine (cl_out_senders rank_of rb esz n) (cl_out_items (cl_copy m rb esz out msz n) out msz n) = cl_records rank_of m rb esz msz n.
Proof.
  intros Hm Hd. rewrite (out_items_records rank_of) by assumption. rewrite (out_senders_records rank_of m rb esz msz n).
  apply combine_fst_snd.
Qed.

(* sorted mode: the sort (any routine that leaves the records a rank-ascending permutation of what was received - the
   contract of qsort with the record size as element size and sc_int_compare) followed by the epilogue loops is exactly the
   `sort_by_src got` of the per-rank programs *)
Theorem cleanup_sorted_is_sort_by_src rank_of m rb esz out msz n (got : list (Z * payload)) :
  0 < msz <= esz -> rb + esz * Z.of_nat n <= out \/ out + msz * Z.of_nat n <= rb ->
  NoDup (map fst got) ->
  ssorted fst (cl_records rank_of m rb esz msz n) -> Permutation (cl_records rank_of m rb esz msz n) got ->
  combine (cl_out_senders rank_of rb esz n) (cl_out_items (cl_copy m rb esz out msz n) out msz n) = sort_by_src got.
Proof.
  intros Hm Hd Hnd Hs Hp. rewrite cleanup_delivers_records by assumption.
  destruct (sort_by_src_spec got Hnd) as [Hs2 Hp2].
  apply (ssorted_perm_eq fst); [assumption|assumption|].
  eapply Permutation_trans; [exact Hp|apply Permutation_sym; exact Hp2].
Qed.

(* unsorted mode with a separate receive buffer (elements = items): arrival order is kept *)
Theorem cleanup_unsorted_keeps_order m rb out msz n :
  0 < msz -> rb + msz * Z.of_nat n <= out \/ out + msz * Z.of_nat n <= rb ->
  cl_out_items (cl_copy m rb msz out msz n) out msz n = map (fun i => mbytes m (elem_addr rb msz (Z.of_nat i)) (Z.to_nat msz)) (seq 0 n).
Proof.
  intros Hm Hd. rewrite (out_items_records (fun _ => 0)) by (try assumption; lia).
  unfold cl_records. rewrite map_map. cbn [snd]. apply map_ext. intros i. unfold rec_item, cl_copy_src.
  replace (elem_addr rb msz (Z.of_nat i) + (msz - msz)) with (elem_addr rb msz (Z.of_nat i)) by lia. reflexivity.
Qed.

(* the size-class independence that a sound epilogue has: the position at which an item lands never depends on its size *)
Corollary cleanup_position_independent_of_size rank_of m rb out msz n i :
  0 < msz -> rb + (msz + 4) * Z.of_nat n <= out \/ out + msz * Z.of_nat n <= rb -> (i < n)%nat ->
  nth i (combine (cl_out_senders rank_of rb (msz + 4) n) (cl_out_items (cl_copy m rb (msz + 4) out msz n) out msz n)) (0, []) =
  (rank_of (elem_addr rb (msz + 4) (Z.of_nat i)), mbytes m (elem_addr rb (msz + 4) (Z.of_nat i) + 4) (Z.to_nat msz)).
Proof.
  intros Hm Hd Hi. rewrite cleanup_delivers_records by (try assumption; lia).
  unfold cl_records.
  set (f := fun i : nat => (rank_of (elem_addr rb (msz + 4) (Z.of_nat i)), rec_item m rb (msz + 4) msz i)).
  rewrite (nth_indep (map f (seq 0 n)) (0, []) (f 0%nat)) by (rewrite map_length, seq_length; assumption).
  rewrite (map_nth f), seq_nth by assumption. cbn [Nat.add]. unfold f, rec_item, cl_copy_src.
  replace (msz + 4 - msz) with 4 by lia. reflexivity.
Qed.

(* sc_int_compare orders cl_records by their first int *)
Lemma cmp3_spec a b : (cmp3 a b < 0 <-> a < b) /\ (cmp3 a b = 0 <-> a = b) /\ (cmp3 a b > 0 <-> a > b).
Proof.
  unfold cmp3. destruct (Z.compare_spec a b); repeat split; intros; try lia.
Qed.
