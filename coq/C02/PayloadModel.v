(* C02 - byte level packing of payload items behind sender ranks, variable-size offsets, sorting of (sender, payload). *)
From Coq Require Import ZArith Lia List Bool Permutation Sorting.Sorted.
From ScV Require Import Base.CInt.
Import ListNotations.
Local Open Scope Z_scope.

(* a record slot of n ints holds an item of sz bytes followed by padding the code never initialises *)
Definition pack (n : Z) (item junk : list Z) : list Z := item ++ firstn (Z.to_nat (4 * n) - length item) junk.
Definition unpack (sz : Z) (slot : list Z) : list Z := firstn (Z.to_nat sz) slot.
(* instrumented write: copying sz bytes into a slot of 4*n bytes stays inside the slot iff sz <= 4*n *)
Definition write_in_bounds (n sz : Z) : bool := sz <=? 4 * n.

Lemma unpack_pack n sz item junk : Z.of_nat (length item) = sz -> unpack sz (pack n item junk) = item.
Proof.
  intros H. unfold unpack, pack. rewrite <- H, Nat2Z.id.
  rewrite firstn_app, Nat.sub_diag, firstn_all. simpl. apply app_nil_r.
Qed.

Lemma pack_length n item junk : (Z.to_nat (4 * n) - length item <= length junk)%nat -> Z.of_nat (length item) <= 4 * n ->
  Z.of_nat (length (pack n item junk)) = 4 * n.
Proof. intros Hj Hi. unfold pack. rewrite app_length, firstn_length. lia. Qed.

(* variable-size payloads: output offsets are the prefix sums of the lengths sent *)
Fixpoint offsets_from (o : Z) (lens : list Z) : list Z :=
  match lens with [] => [o] | l :: r => o :: offsets_from (o + l) r end.
Definition out_offsets (lens : list Z) : list Z := offsets_from 0 lens.

Lemma offsets_from_length o lens : length (offsets_from o lens) = S (length lens).
Proof. revert o; induction lens as [|l r IH]; intros o; simpl; [reflexivity|rewrite IH; reflexivity]. Qed.

Lemma offsets_from_diff lens : forall o i, (i < length lens)%nat ->
  nth (S i) (offsets_from o lens) 0 - nth i (offsets_from o lens) 0 = nth i lens 0.
Proof.
  induction lens as [|l r IH]; intros o i Hi; simpl in Hi; [lia|].
  destruct i as [|i].
  - simpl. destruct r; simpl; lia.
  - change (offsets_from o (l :: r)) with (o :: offsets_from (o + l) r).
    change (nth (S (S i)) (o :: offsets_from (o + l) r) 0) with (nth (S i) (offsets_from (o + l) r) 0).
    change (nth (S i) (o :: offsets_from (o + l) r) 0) with (nth i (offsets_from (o + l) r) 0).
    change (nth (S i) (l :: r) 0) with (nth i r 0). apply IH. lia.
Qed.

Lemma out_offsets_spec lens :
  nth 0 (out_offsets lens) 0 = 0 /\ length (out_offsets lens) = S (length lens) /\
  forall i, (i < length lens)%nat -> nth (S i) (out_offsets lens) 0 - nth i (out_offsets lens) 0 = nth i lens 0.
Proof.
  unfold out_offsets. split; [destruct lens; reflexivity|]. split; [apply offsets_from_length|apply offsets_from_diff].
Qed.

(* sorting by sender rank keeps every payload with its sender, for ANY sorting routine that returns a sorted permutation *)
Section Sorting.
  Variable sort : list (Z * list Z) -> list (Z * list Z).
  Hypothesis sort_perm : forall l, Permutation (sort l) l.

  Lemma sort_keeps_pairs l s p : In (s, p) (sort l) <-> In (s, p) l.
  Proof. split; intros H; [apply (Permutation_in _ (sort_perm l) H)|apply (Permutation_in _ (Permutation_sym (sort_perm l)) H)]. Qed.

  Lemma sort_keeps_count l : length (sort l) = length l.
  Proof. apply Permutation_length. apply sort_perm. Qed.
End Sorting.
