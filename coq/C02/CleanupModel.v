(* C02 - the EPILOGUES of the notify algorithms that receive in an order decided by the message schedule
   (sc_notify_payload_cleanup for nbx / superset, the tail of sc_notify_payload_census for pcx / rsx, the sorted tail of
   sc_notify_payloadv_census): what is received lies in a record array (rank int + item, or item only); the epilogue
   sorts the records, extracts the sender ranks and copies every item to the caller's payload array.

   This file: the hand-written model (decisions, addresses, a byte memory with the copy loop).  Definitions only.
   coq/C02/CleanupGen.v   proves that the slices GENERATED from the C source (Gen/NotifyC02.v) compute exactly these;
   coq/C02/CleanupProofs.v proves that the model delivers every item at the position of its sender. *)
From Coq Require Import ZArith List Bool.
From ScV Require Import Base.CInt.
Import ListNotations.
Local Open Scope Z_scope.

(* ---- decisions of sc_notify_payload_cleanup (senders, recv_buf, in_payload, out_payload, sorted) ------------------ *)
(* item size: 0 without payload *)
Definition cl_msg_size (in_payload esz_in : Z) : Z := if in_payload =? 0 then 0 else esz_in.
(* number of senders: length of the record array if there is one, else of the sender array *)
Definition cl_num_senders (recv_buf cnt_recv cnt_senders : Z) : Z := if recv_buf =? 0 then cnt_senders else cnt_recv.
(* which array is sorted: the WHOLE cl_records whenever there is a payload, else the ranks; a function of (sorted, msg_size) only *)
Definition cl_sort_records (sorted msg_size : Z) : bool := negb (sorted =? 0) && negb (msg_size =? 0).
Definition cl_sort_senders (sorted msg_size : Z) : bool := negb (sorted =? 0) && (msg_size =? 0).
(* the array that receives the items: in place when no output array is given *)
Definition cl_out (in_payload out_payload : Z) : Z := if out_payload =? 0 then in_payload else out_payload.
(* the copy loop runs unless the items were received into the output array itself *)
Definition cl_copy_runs (in_payload out_payload recv_buf : Z) : bool :=
  negb (in_payload =? 0) && negb (recv_buf =? cl_out in_payload out_payload).

(* ---- addresses ------------------------------------------------------------------------------------------------------ *)
(* element i of an array of elements of esz bytes (sc_array_index_int) *)
Definition elem_addr (base esz i : Z) : Z := base + esz * i.
(* item i of the output; the item is the LAST msg_size bytes of record i (the rank precedes it only in sorted cl_records) *)
Definition cl_copy_dst (cpayload msg_size i : Z) : Z := cpayload + msg_size * i.
Definition cl_copy_src (rec esz msg_size : Z) : Z := rec + (esz - msg_size).

(* ---- the receive buffer of nbx / superset and where an arriving message goes ---------------------------------------- *)
(* element size of a freshly created receive buffer: rank + item iff the records will be sorted *)
Definition rb_elem_size (sorted msg_size : Z) : Z := if cl_sort_records sorted msg_size then msg_size + 4 else msg_size.
(* received directly into the caller's output array: unsorted, payload, output array given *)
Definition rb_is_out (sorted msg_size out_payload : Z) : bool := (sorted =? 0) && negb (msg_size =? 0) && negb (out_payload =? 0).
(* an arriving message from rank j: the rank goes to the first int of a new record (sorted, payload) or to a new element
   of senders; the item goes behind the rank in the same record, or to a new element of the receive buffer *)
Definition slot_rank_array (sorted msg_size recv_buf senders : Z) : Z := if cl_sort_records sorted msg_size then recv_buf else senders.
Definition slot_item_addr (sorted msg_size rank_elem item_elem : Z) : Z :=
  if msg_size =? 0 then 0 else if sorted =? 0 then item_elem else rank_elem + 4.

(* ---- census (pcx, rsx): cl_records of stride sizeof (int) + msg_size in one array --------------------------------------- *)
Definition census_stride (msg_size : Z) : Z := 4 + msg_size.

(* ---- sc_int_compare ---------------------------------------------------------------------------------------------------- *)
Definition cmp3 (a b : Z) : Z := match a ?= b with Eq => 0 | Lt => -1 | Gt => 1 end.

(* ---- byte memory ------------------------------------------------------------------------------------------------------- *)
Definition mem := Z -> Z.
Definition mcopy (m : mem) (dst src len : Z) : mem :=
  fun a => if (dst <=? a) && (a <? dst + len) then m (src + (a - dst)) else m a.
Definition mbytes (m : mem) (a : Z) (n : nat) : list Z := map (fun k => m (a + Z.of_nat k)) (seq 0 n).

(* the copy loop of the epilogue: for i = 0 .. n - 1: memcpy (dst i, src (record i), msg_size) *)
Fixpoint cl_copy (m : mem) (rb esz out msz : Z) (n : nat) : mem :=
  match n with
  | O => m
  | S k => mcopy (cl_copy m rb esz out msz k) (cl_copy_dst out msz (Z.of_nat k))
                 (cl_copy_src (elem_addr rb esz (Z.of_nat k)) esz msz) msz
  end.

(* the records as the epilogue reads them: (rank, item) of record i; rank_of abstracts the int load at the record start *)
Definition rec_item (m : mem) (rb esz msz : Z) (i : nat) : list Z :=
  mbytes m (cl_copy_src (elem_addr rb esz (Z.of_nat i)) esz msz) (Z.to_nat msz).
Definition cl_records (rank_of : Z -> Z) (m : mem) (rb esz msz : Z) (n : nat) : list (Z * list Z) :=
  map (fun i => (rank_of (elem_addr rb esz (Z.of_nat i)), rec_item m rb esz msz i)) (seq 0 n).
(* what the caller gets: senders[i] = rank of record i, item i of the output array *)
Definition cl_out_senders (rank_of : Z -> Z) (rb esz : Z) (n : nat) : list Z :=
  map (fun i => rank_of (elem_addr rb esz (Z.of_nat i))) (seq 0 n).
Definition cl_out_items (m : mem) (out msz : Z) (n : nat) : list (list Z) :=
  map (fun i => mbytes m (cl_copy_dst out msz (Z.of_nat i)) (Z.to_nat msz)) (seq 0 n).

(* ---- sorted tail of sc_notify_payloadv_census: cl_records (rank, first item, end item) ------------------------------------- *)
Definition cv_copy_dst (cout off msg_size : Z) : Z := cout + off * msg_size.
Definition cv_copy_src (crecv roff msg_size : Z) : Z := crecv + roff * msg_size.
Definition cv_copy_len (roff roffnext msg_size : Z) : Z := (roffnext - roff) * msg_size.
Definition cv_next_off (off roff roffnext : Z) : Z := off + (roffnext - roff).
