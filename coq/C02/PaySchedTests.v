(* C02 - executable tests of the every-schedule theorems for the payload variants of the binary and the n-ary recursion
   (C02/BinaryPaySched.v, NaryPaySched.v) on small instances: the pseudo-random scheduler of C01/SchedTests.v over SemAny.enabled /
   exec_step, several seeds; every run must stop in a final state after exactly binary_pay_steps / nary_steps steps, with the transposed
   lists AND the items of the senders in the order of the senders as results, and no message left in the channels. *)
From Coq Require Import ZArith Lia List Bool.
From ScV Require Import Base.CInt MPI.Prog MPI.Sem MPI.SemAny MPI.SemRounds Gen.Consts Gen.NotifyC01 C01.NotifyProgs C01.NotifyProgProofs
     C01.NaryCore C01.NarySched C01.BinarySched C01.SchedTests.
From ScV Require C02.BinaryPaySched C02.NaryPaySched.
Import ListNotations.
Local Open Scope Z_scope.

Definition payb (sz : nat) : Z -> Z -> payload := fun f t => map (fun i => (17 * f + 5 * t + Z.of_nat i) mod 256) (seq 0 sz).
Definition expay G (R : Z -> list Z) (pay : Z -> Z -> payload) : list (option payload) :=
  map (fun r => Some (result (transpose G R r) (map (fun q => pay q r) (transpose G R r)))) (ranks G).
Definition ptags : list Z := c_SC_TAG_NOTIFY_WRAPPER :: btags ++ ntags.

Definition binary_pay_test G n R pay seeds : bool :=
  forallb (good_run G (BinaryPaySched.binary_pay_sys G R pay) ptags (BinaryPaySched.binary_pay_steps G R pay n) (expay G R pay)) seeds.
Definition nary_pay_test G ntop nint nbot R pay sz seeds : bool :=
  match nary_depth 64 G nbot ntop nint with
  | Some (depth, _) =>
    forallb (good_run G (NaryPaySched.nary_sys G R ntop nint nbot sz pay) ptags
                      (NaryPaySched.nary_steps G R (NaryPaySched.payfP pay sz) (NaryPaySched.nary_params G ntop nint nbot depth)) (expay G R pay)) seeds
  | None => false
  end.

Example binary_pay_random_schedules :
  binary_pay_test 3 2 Ra (payb 3) (ranks 10) = true /\ binary_pay_test 6 3 (Rd 6) (payb 5) (ranks 10) = true /\
  binary_pay_test 7 3 Rb (payb 1) (ranks 6) = true /\ binary_pay_test 1 0 (Rd 1) (payb 2) (ranks 2) = true.
Proof. vm_compute. repeat split; reflexivity. Qed.

Example nary_pay_random_schedules :
  nary_pay_test 3 2 2 2 Ra (payb 3) 3 (ranks 10) = true /\ nary_pay_test 7 2 2 2 Rb (payb 5) 5 (ranks 6) = true /\
  nary_pay_test 5 2 2 8 (Rd 5) (payb 8) 8 (ranks 6) = true.
Proof. vm_compute. repeat split; reflexivity. Qed.

Example pay_step_counts :
  (BinaryPaySched.binary_pay_steps 3 Ra (payb 3) 2, BinaryPaySched.binary_pay_steps 6 (Rd 6) (payb 5) 3) = (20, 70)%nat.
Proof. vm_compute. reflexivity. Qed.
