(* C02 - executable tests of the every-schedule theorems for the payload variants of the binary and the n-ary recursion
   (C02/BinaryPaySched.v, NaryPaySched.v) on small instances: the pseudo-random scheduler of C01/SchedTests.v over SemAny.enabled /
   exec_step, several seeds; every run must stop in a final state after exactly binary_pay_steps / nary_steps steps, with the transposed
   lists AND the items of the senders in the order of the senders as results, and no message left in the channels. *)
From Coq Require Import ZArith Lia List Bool.
From ScV Require Import Base.CInt MPI.Prog MPI.Sem MPI.SemAny MPI.SemRounds Gen.Consts Gen.NotifyC01 C01.NotifyProgs C01.NotifyProgProofs
     C01.NaryCore C01.NarySched C01.BinarySched C01.SchedTests.
From ScV Require C02.BinaryPaySched C02.NaryPaySched.
Import ListNotations.
Local Open Scope Z_scope.

Definition payb (sz : nat) : Z -> Z -> payload := fun f t => map (fun i => (17 * f + 5 * t + Z.of_nat i) mod 256) (seq 0 sz).
Definition expay G (R : Z -> list Z) (pay : Z -> Z -> payload) : list (option payload) :=
  map (fun r => Some (result (transpose G R r) (map (fun q => pay q r) (transpose G R r)))) (ranks G).
Definition ptags : list Z := c_SC_TAG_NOTIFY_WRAPPER :: btags ++ ntags.

Definition binary_pay_test G n R pay seeds : bool :=
  forallb (good_run G (BinaryPaySched.binary_pay_sys G R pay) ptags (BinaryPaySched.binary_pay_steps G R pay n) (expay G R pay)) seeds.
Definition nary_pay_test G ntop nint nbot R pay sz seeds : bool :=
  match nary_depth 64 G nbot ntop nint with
  | Some (depth, _) =>
    forallb (good_run G (NaryPaySched.nary_sys G R ntop nint nbot sz pay) ptags
                      (NaryPaySched.nary_steps G R (NaryPaySched.payfP pay sz) (NaryPaySched.nary_params G ntop nint nbot depth)) (expay G R pay)) seeds
  | None => false
  end.

Example binary_pay_random_schedules :
  binary_pay_test 3 2 Ra (payb 3) (ranks 10) = true /\ binary_pay_test 6 3 (Rd 6) (payb 5) (ranks 10) = true /\
  binary_pay_test 7 3 Rb (payb 1) (ranks 6) = true /\ binary_pay_test 1 0 (Rd 1) (payb 2) (ranks 2) = true.
Proof. vm_compute. repeat split; reflexivity. Qed.

Example nary_pay_random_schedules :
  nary_pay_test 3 2 2 2 Ra (payb 3) 3 (ranks 10) = true /\ nary_pay_test 7 2 2 2 Rb (payb 5) 5 (ranks 6) = true /\
  nary_pay_test 5 2 2 8 (Rd 5) (payb 8) 8 (ranks 6) = true.
Proof. vm_compute. repeat split; reflexivity. Qed.

Example pay_step_counts :
  (BinaryPaySched.binary_pay_steps 3 Ra (payb 3) 2, BinaryPaySched.binary_pay_steps 6 (Rd 6) (payb 5) 3) = (20, 70)%nat.
Proof. vm_compute. reflexivity. Qed.

(* ---- pex with payload and payloadv census (C02/CensusvSched.v) in the semantics with collectives: scheduler of C01/CollTests.v ---------------- *)
From ScV Require Import MPI.SemColl C01.CollSched C01.CollTests C02.PayloadModel C02.CensusvSched.

Example pex_pay_random_schedules :
  forallb (good_run_c 4 (pexp_sys 4 R4 true pay4 4) 1 (expp 4 R4 pay4)) (ranks 4) = true /\
  forallb (good_run_c 3 (pexp_sys 3 R3 true (payb 5) 5) 1 (expp 3 R3 (payb 5))) (ranks 4) = true.
Proof. vm_compute. repeat split; reflexivity. Qed.

Definition lenv : Z -> Z -> Z := fun f t => (f + 2 * t) mod 3.
Definition slicev : Z -> Z -> payload := fun f t => map (fun i => 10 * f + t + Z.of_nat i) (seq 0 (Z.to_nat (2 * lenv f t))).     (* items of 2 bytes *)
Definition expv P (R : Z -> list Z) : list (option payload) :=
  map (fun r => let f := transpose P R r in Some (resultv f (out_offsets (map (fun q => lenv q r) f)) (concat (map (fun q => slicev q r) f)))) (ranks P).
Example censusv_random_schedules :
  forallb (good_run_c 4 (censusv_sys K_RSB 4 R4 lenv slicev 2 true) (censusv_steps 4 R4 slicev) (expv 4 R4)) (ranks 10) = true /\
  forallb (good_run_c 3 (censusv_sys K_RMA 3 R3 lenv slicev 2 true) (censusv_steps 3 R3 slicev) (expv 3 R3)) (ranks 10) = true.
Proof. vm_compute. repeat split; reflexivity. Qed.
