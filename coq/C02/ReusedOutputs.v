(* C02 - out_payload arrays that are NOT EMPTY on entry (reused by the caller) in sc_notify_payload.
   Two places of the code do not empty the array they are handed: sc_notify_payload_nbx (unsorted: out_payload itself is the
   growing receive buffer) and sc_notify_reset_output (n-ary: the array is resized only if the final record array holds a
   record).  Since /repo 89355d2 the dispatcher sc_notify_payload resets out_payload before it calls the algorithm
   (`dispatch`), as sc_notify_payloadv always did; `dispatch_old` is the dispatcher before that repair.  These small models are
   tied to the code by the harness cases that reuse the caller's output arrays (checks/notify_common.reuse_cases). *)
From Coq Require Import ZArith List.
Import ListNotations.
Local Open Scope Z_scope.

Definition bytes := list Z.
Definition outcome := (list Z * list bytes)%type.             (* senders, out_payload *)

(* sc_notify_payload_nbx, unsorted, out_payload given: one item pushed per message behind what the array holds; afterwards
   num_senders = recv_buf->elem_count and senders is resized to it (entries behind the pushed ranks are uninitialised: junk) *)
Definition nbx_unsorted_out (junk : Z) (got : list (Z * bytes)) (held : list bytes) : outcome :=
  (map fst got ++ repeat junk (length held), held ++ map snd got).
(* sc_notify_reset_output: the payload array is resized only when the final record array holds a record *)
Definition nary_out (found : list (Z * bytes)) (held : list bytes) : outcome :=
  match found with [] => ([], held) | _ => (map fst found, map snd found) end.

(* the dispatcher: since 89355d2 `sc_array_reset (out_payload)` precedes the algorithm; before, the array went in as it was *)
Definition dispatch (alg : list bytes -> outcome) (initial : list bytes) : outcome := alg [].
Definition dispatch_old (alg : list bytes -> outcome) (initial : list bytes) : outcome := alg initial.

(* the result of a call does not depend on what out_payload held on entry, and is what was received *)
Theorem out_payload_initial_irrelevant junk got initial :
  dispatch (nbx_unsorted_out junk got) initial = (map fst got, map snd got) /\
  dispatch (nary_out got) initial = (map fst got, map snd got).
Proof. unfold dispatch, nbx_unsorted_out, nary_out. cbn [length repeat app]. rewrite app_nil_r. split; [reflexivity|]. destruct got; reflexivity. Qed.

(* the dispatcher before the repair: refuted (the witnesses are what the replayed reuse cases showed on the old tree) *)
Theorem dispatch_old_refuted :
  (exists junk initial got, nth 0 (snd (dispatch_old (nbx_unsorted_out junk got) initial)) [] <> nth 0 (map snd got) [] /\
                            length (fst (dispatch_old (nbx_unsorted_out junk got) initial)) <> length got) /\
  (exists initial, snd (dispatch_old (nary_out []) initial) <> []).
Proof. split; [exists (-1), [[7]], [(3, [9])]; split; vm_compute; discriminate|exists [[7]]; vm_compute; discriminate]. Qed.
