(* C02 - what sc_notify_payload does with an out_payload array that is NOT EMPTY on entry (reused by the caller), for the two
   places of the unchanged code where the array is not emptied first (recorded findings with keys reused-out-payload:...).  These small
   models are tied to the code by the replayed harness cases only; the program theorems of Properties_C02.v describe calls
   whose output arrays are empty on entry (the guard below). *)
From Coq Require Import ZArith List.
Import ListNotations.
Local Open Scope Z_scope.

Definition bytes := list Z.
(* sc_notify_payload_nbx, unsorted, out_payload given: recv_buf = out_payload, one item pushed per message; afterwards
   num_senders = recv_buf->elem_count and senders is resized to it (entries behind the pushed ranks are uninitialised: junk) *)
Definition nbx_unsorted_out (junk : Z) (stale : list bytes) (got : list (Z * bytes)) : list Z * list bytes :=
  (map fst got ++ repeat junk (length stale), stale ++ map snd got).
(* sc_notify_reset_output: the payload array is resized only when the final record array holds a record *)
Definition nary_out (stale : list bytes) (found : list (Z * bytes)) : list Z * list bytes :=
  match found with [] => ([], stale) | _ => (map fst found, map snd found) end.

(* guard: with an empty array on entry both return exactly what was received *)
Theorem reused_guard junk got : nbx_unsorted_out junk [] got = (map fst got, map snd got) /\ nary_out [] got = (map fst got, map snd got).
Proof. unfold nbx_unsorted_out, nary_out. cbn [length repeat app]. rewrite app_nil_r. split; [reflexivity|]. destruct got; reflexivity. Qed.

(* refuted without the guard: the item found at the position of the first sender is not the one it sent / items without sender *)
Theorem nbx_reused_out_payload_refuted : exists junk stale got,
  stale <> [] /\ nth 0 (snd (nbx_unsorted_out junk stale got)) [] <> nth 0 (map snd got) [] /\
  length (fst (nbx_unsorted_out junk stale got)) <> length got.
Proof. exists (-1), [[7]], [(3, [9])]. repeat split; vm_compute; discriminate. Qed.

Theorem nary_reused_out_payload_refuted : exists stale, stale <> [] /\ snd (nary_out stale []) <> [].
Proof. exists [[7]]. split; vm_compute; discriminate. Qed.
