(* C02 - sc_notify_payloadv for pcx / rsx (sc_notify_payloadv_census), program NotifyProgs.censusv_core (co-simulated with the
   real code): for every receiver family, every family of slice lengths (>= 0) and every order of arrival the output
   offsets start at 0, consecutive differences are the lengths the senders sent, and the payload is the concatenation of
   the senders' slices in the order of the senders array (arrival order, or ascending when sorted output is requested). *)
From Coq Require Import ZArith Lia List Bool Permutation.
From ScV Require Import Base.CInt MPI.Prog Gen.Consts C01.MergeModel C01.MergeProofs C01.NotifyProgs C01.NotifyProgProofs C01.PexRound
     C02.PayloadModel.
Import ListNotations.
Local Open Scope Z_scope.

Lemma prefix_sums_offsets o l : prefix_sums o l = offsets_from o l.
Proof. revert o; induction l as [|x l IH]; intros o; [reflexivity|]. cbn [prefix_sums offsets_from]. rewrite IH. reflexivity. Qed.

Section Censusv.
  Variable coll : Z -> list payload -> Z -> payload.
  Variable kind : Z.
  (* contract of Reduce_scatter_block (MPI_SUM, two ints per rank) resp. of the accumulate epoch of rsx *)
  Hypothesis coll_sum2 : forall cs r, coll kind cs r =
    [fold_right Z.add 0 (map (fun c => nth (Z.to_nat (2 * r)) c 0) cs); fold_right Z.add 0 (map (fun c => nth (Z.to_nat (2 * r + 1)) c 0) cs)].

  Variable P : Z.
  Variable R : Z -> list Z.
  Variable len : Z -> Z -> Z.                         (* len s r: number of items s addresses to r *)
  Variable slice : Z -> Z -> payload.                 (* their bytes *)
  Variable msz : Z.                                   (* item size *)
  Hypothesis HP : 0 < P.
  Hypothesis Hmsz : 0 < msz.
  Hypothesis Hlen : forall s r, 0 <= len s r /\ Z.of_nat (length (slice s r)) = len s r * msz.

  Definition cv_contrib (s : Z) : payload :=
    flat_map (fun i => match index_of i (R s) 0 with Some j => [1; nth j (map (len s) (R s)) 0] | None => [0; 0] end) (ranks P).

  Lemma cv_flag s me : 0 <= me < P -> nth (Z.to_nat (2 * me)) (cv_contrib s) 0 = if memz me (R s) then 1 else 0.
  Proof.
    intros Hme. unfold cv_contrib.
    set (f := fun i => match index_of i (R s) 0 with Some j => [1; nth j (map (len s) (R s)) 0] | None => [0; 0] end).
    assert (Hb : forall x, length (f x) = 2%nat) by (intros x; unfold f; destruct (index_of x (R s) 0); reflexivity).
    pose proof (block_flat_map f 2 Hb (ranks P) (Z.to_nat me) 0 ltac:(unfold ranks; rewrite map_length, seq_length; lia)) as Hblk.
    assert (Hn : nth (Z.to_nat me) (ranks P) 0 = me).
    { unfold ranks. rewrite (nth_indep _ 0 (Z.of_nat 0)) by (rewrite map_length, seq_length; lia). rewrite (map_nth Z.of_nat), seq_nth by lia. simpl. lia. }
    rewrite Hn in Hblk.
    replace (Z.to_nat (2 * me)) with (Z.to_nat me * 2)%nat by lia.
    assert (Hnth : nth (Z.to_nat me * 2) (flat_map f (ranks P)) 0 = nth 0 (firstn 2 (skipn (Z.to_nat me * 2) (flat_map f (ranks P)))) 0).
    { rewrite <- (firstn_skipn (Z.to_nat me * 2) (flat_map f (ranks P))) at 1.
      assert (Hl : (Z.to_nat me * 2 < length (flat_map f (ranks P)))%nat).
      { assert (H : forall l, length (flat_map f l) = (2 * length l)%nat) by (induction l as [|a l IH]; [reflexivity|]; cbn [flat_map]; rewrite app_length, Hb, IH; simpl; lia).
        rewrite H. unfold ranks. rewrite map_length, seq_length. lia. }
      rewrite app_nth2 by (rewrite firstn_length; lia). rewrite firstn_length. replace (Z.to_nat me * 2 - Nat.min (Z.to_nat me * 2) (length (flat_map f (ranks P))))%nat with 0%nat by lia.
      destruct (skipn (Z.to_nat me * 2) (flat_map f (ranks P))) as [|a [|b r]] eqn:E; reflexivity. }
    rewrite Hnth, Hblk. unfold f. destruct (index_of me (R s) 0) eqn:E.
    - replace (memz me (R s)) with true; [reflexivity|]. symmetry. apply memz_In.
      destruct (index_of_some _ _ _ _ E) as [_ [Hj Hx]]. rewrite Nat.sub_0_r in Hj, Hx. rewrite <- Hx. apply nth_In. exact Hj.
    - replace (memz me (R s)) with false; [reflexivity|]. symmetry. destruct (memz me (R s)) eqn:Em; [|reflexivity].
      apply memz_In in Em. exfalso. exact (index_of_none _ _ _ E Em).
  Qed.

  Lemma cv_census me : 0 <= me < P -> hd 0 (coll kind (map cv_contrib (ranks P)) me) = Z.of_nat (length (transpose P R me)).
  Proof.
    intros Hme. rewrite coll_sum2. cbn [hd]. rewrite map_map. unfold transpose.
    assert (H : forall l, fold_right Z.add 0 (map (fun s => nth (Z.to_nat (2 * me)) (cv_contrib s) 0) l)
                          = Z.of_nat (length (filter (fun f => memz me (R f)) l))).
    { induction l as [|s l IH]; [reflexivity|]. cbn [map fold_right filter]. rewrite cv_flag by lia. rewrite IH.
      destruct (memz me (R s)); simpl length; lia. }
    apply H.
  Qed.

  Theorem censusv_round me (sorted : bool) (order : list Z) : 0 <= me < P -> Permutation order (transpose P R me) ->
    let final := if sorted then transpose P R me else order in
    run (coll kind (map cv_contrib (ranks P)) me :: repeat [] (length (R me)) ++ map (fun s => s :: slice s me) order)
        (censusv_core kind P (R me) (map (len me) (R me)) (map (slice me) (R me)) msz sorted)
    = (Coll kind (-1) (cv_contrib me)
         :: map (fun r => Send r c_SC_TAG_NOTIFY_CENSUSV (slice me r)) (R me) ++ repeat (Recv ANY c_SC_TAG_NOTIFY_CENSUSV) (length order),
       Some (resultv final (out_offsets (map (fun s => len s me) final)) (concat (map (fun s => slice s me) final)))).
  Proof.
    intros Hme Hperm final. unfold censusv_core. fold (cv_contrib me). cbn [run].
    rewrite cv_census by assumption. rewrite Nat2Z.id. rewrite zip_map_l.
    set (S := map (fun rp : Z * payload => (fst rp, c_SC_TAG_NOTIFY_CENSUSV, snd rp)) (map (fun x => (x, slice me x)) (R me))).
    assert (HlenS : length S = length (R me)) by (unfold S; rewrite !map_length; reflexivity).
    rewrite <- HlenS. rewrite run_do_sends. rewrite <- (Permutation_length Hperm).
    replace (map (fun s => s :: slice s me) order) with (map (fun sp : Z * payload => fst sp :: snd sp) (map (fun s => (s, slice s me)) order) ++ [])
      by (rewrite app_nil_r, map_map; reflexivity).
    replace (length order) with (length (map (fun s => (s, slice s me)) order)) by apply map_length.
    rewrite run_recv_any_n. cbn [rev app].
    assert (Hgot : (if sorted then sort_by_src (map (fun s => (s, slice s me)) order) else map (fun s => (s, slice s me)) order)
                   = map (fun s => (s, slice s me)) final).
    { unfold final. destruct sorted; [|reflexivity]. apply (sort_arrivals (fun s => slice s me)); [apply transpose_ssorted|assumption]. }
    rewrite Hgot. cbn [run]. rewrite app_nil_r. unfold S. rewrite !map_map, !map_length. cbn [fst snd]. rewrite map_id.
    f_equal. f_equal. f_equal. unfold out_offsets. rewrite prefix_sums_offsets. f_equal.
    apply map_ext. intros s. destruct (Hlen s me) as [H0 Hl]. rewrite Hl. unfold cdiv. rewrite Z.quot_div_nonneg by nia. apply Z.div_mul. lia.
  Qed.
End Censusv.
