(* C02 - the n-ary notify recursion WITH ONE PAYLOAD ITEM PER RECEIVER (items packed into the int slots of the records) under EVERY
   SCHEDULE of the interleaving semantics with wildcard receives (MPI/SemAny.v): C01/NarySched.v's instance of
   MPI/SemRounds.all_schedules with the message contents `payf f t = pack_ints npay (pay f t)` instead of the empty payload, and
   the round property C01/NaryCore.nary_core_round_semantics_payload_full (= C02_nary_core_round_semantics).
   System: rank r, 0 <= r < G, runs  nary_core G r ntop nint nbot (R r) (Some (items pay r d, d in R r)) sz (fun s g => Ret (result s g));
   theorem nary_pay_every_schedule: no reachable state is stuck, a run has at most nary_steps steps and is final exactly after that
   many, and in every final state every rank has returned the transposed list WITH pay s r at the position of sender s, and all
   channels are empty.  The level facts (matching, one send per destination, sources) are NarySched.LevelFacts, which are generic in
   the payload; sections NaryPaySystem / NaryPayEverySchedule are NarySched's NarySystem / NaryEverySchedule with `payf` a variable. *)
From Coq Require Import ZArith Lia List Bool Permutation.
From ScV Require Import Base.CInt MPI.Prog MPI.Sem MPI.SemAny MPI.SemRounds Gen.Consts Gen.NotifyC01 C01.NaryArith C01.NaryDelivery
     C02.SlotProofs C01.MergeModel C01.MergeProofs C01.NotifyProgs C01.NotifyProgProofs C01.RecordOps C01.BinaryRound C01.NaryRound C01.NaryCore C01.NarySched.
Import ListNotations.
Local Open Scope Z_scope.

Section ParamsPay.
  Variable G : Z.
  Variable R : Z -> list Z.
  Variable payf : Z -> Z -> list Z.

  Lemma all_replies_params me orders : forall ls L h,
    all_replies G R payf me orders L ls h =
    flat_map (fun x => nlvl_replies G (pL x) (pD x) R payf (ph x) (plev x) me (orders (plev x))) (lparams G L ls h).
  Proof. induction ls as [|[lev D] ls IH]; intros L h; [reflexivity|]. cbn [all_replies lparams flat_map]. rewrite IH. reflexivity. Qed.

  Lemma all_acts_params me : forall ls L h,
    all_acts G R payf me L ls h = flat_map (fun x => nlvl_acts G (pL x) (pD x) R payf (ph x) (plev x) me) (lparams G L ls h).
  Proof. induction ls as [|[lev D] ls IH]; intros L h; [reflexivity|]. cbn [all_acts lparams flat_map]. rewrite IH. reflexivity. Qed.
End ParamsPay.

Section NaryPaySystem.
  Variable G : Z.
  Variable R : Z -> list Z.
  Variables ntop nint nbot : Z.
  Variable sz : Z.
  Variable pay : Z -> Z -> payload.                 (* pay s r: the item (sz bytes) sender s addresses to receiver r *)
  Variable payf : Z -> Z -> list Z.                 (* the item packed into the int slots of a record *)

  Definition nary_prog (r : Z) : prog :=
    if inr G r then nary_core G r ntop nint nbot (R r) (Some (map (pay r) (R r))) sz (fun s g => Ret (result s g)) else Ret [].
  Definition nary_sys : gs := mkgs nary_prog (fun _ _ _ => []).
  Definition nary_out (r : Z) : payload := if inr G r then result (transpose G R r) (map (fun s => pay s r) (transpose G R r)) else [].

  (* the instance of SemRounds for a list of level parameters *)
  Variable params : list prm.
  Definition nsendsI (r : Z) (p : nat) : list (Z * payload) :=
    if inr G r then let x := nth p params dprm in lsends G (pL x) (pD x) R payf (ph x) (plev x) r else [].
  Definition nsrcsI (r : Z) (p : nat) : list Z :=
    if inr G r then let x := nth p params dprm in senders G (pL x) (pD x) r else [].
  Definition nwireI (p : nat) (q r : Z) : payload := let x := nth p params dprm in nwire G (pL x) (pD x) R payf (ph x) r q.
  Definition ntagI (p : nat) : Z := ntag (plev (nth p params dprm)).
  Definition nnamedI : Z -> nat -> nat -> bool := fun _ _ _ => false.
  (* the number of steps of every maximal run: all sends and all receives of all ranks at all levels *)
  Definition nary_steps : nat := total_len (length params) nsendsI nsrcsI (ranks G).

  Hypothesis HG : 0 < G <= BIG.
  Hypothesis Hparams : forall x, In x params -> 0 < pL x /\ 2 <= pD x /\ pD x * pL x <= BIG.
  Hypothesis Hlevs : NoDup (map plev params).

  Lemma nth_params p : (p < length params)%nat -> let x := nth p params dprm in 0 < pL x /\ 2 <= pD x /\ pD x * pL x <= BIG.
  Proof. intros Hp. apply Hparams. apply nth_In. exact Hp. Qed.

  Lemma I_out r l : ~ In r (ranks G) -> nsendsI r l = [] /\ nsrcsI r l = [].
  Proof. intros Hr. unfold nsendsI, nsrcsI. destruct (inr G r) eqn:E; [apply inr_ranks in E; contradiction|auto]. Qed.

  Lemma I_tag l1 l2 : (l1 < length params)%nat -> (l2 < length params)%nat -> ntagI l1 = ntagI l2 -> l1 = l2.
  Proof.
    intros H1 H2 E. unfold ntagI, ntag in E. assert (E' : plev (nth l1 params dprm) = plev (nth l2 params dprm)) by lia.
    rewrite <- !(map_nth plev) in E'. apply (proj1 (NoDup_nth (map plev params) (plev dprm)) Hlevs); rewrite ?map_length; assumption.
  Qed.

  Lemma I_dst r l : (l < length params)%nat -> NoDup (map fst (nsendsI r l)).
  Proof.
    intros Hl. unfold nsendsI. destruct (inr G r) eqn:E; [|constructor]. apply inr_spec in E. destruct (nth_params l Hl) as [A [B C]]. cbv zeta.
    apply lsends_dst; assumption.
  Qed.

  Lemma I_src r l : (l < length params)%nat -> NoDup (nsrcsI r l).
  Proof.
    intros Hl. unfold nsrcsI. destruct (inr G r) eqn:E; [|constructor]. apply inr_spec in E. destruct (nth_params l Hl) as [A [B C]]. cbv zeta.
    apply (senders_nodup G _ _ R payf); assumption.
  Qed.

  Lemma I_src0 r l q : (l < length params)%nat -> In q (nsrcsI r l) -> 0 <= q.
  Proof.
    intros Hl. unfold nsrcsI. destruct (inr G r) eqn:E; [|intros []]. apply inr_spec in E. destruct (nth_params l Hl) as [A [B C]]. cbv zeta.
    intros Hq. apply (senders_range G _ _ R payf A B HG C r q E Hq).
  Qed.

  Lemma I_match1 q l d m : (l < length params)%nat -> In (d, m) (nsendsI q l) -> In q (nsrcsI d l) /\ m = nwireI l q d.
  Proof.
    intros Hl. unfold nsendsI, nsrcsI, nwireI. destruct (inr G q) eqn:E; [|intros []]. apply inr_spec in E. destruct (nth_params l Hl) as [A [B C]]. cbv zeta.
    intros Hin. destruct (lsends_match1 G _ _ R payf _ _ A B HG C q d m E Hin) as [Hd [Hs Hm]].
    apply inr_spec in Hd. rewrite Hd. auto.
  Qed.

  Lemma I_match2 r l q : (l < length params)%nat -> In q (nsrcsI r l) -> In (r, nwireI l q r) (nsendsI q l).
  Proof.
    intros Hl. unfold nsendsI, nsrcsI, nwireI. destruct (inr G r) eqn:E; [|intros []]. apply inr_spec in E. destruct (nth_params l Hl) as [A [B C]]. cbv zeta.
    intros Hq. pose proof (senders_range G _ _ R payf A B HG C r q E Hq) as Hqr. apply inr_spec in Hqr. rewrite Hqr.
    apply lsends_match2; assumption.
  Qed.

  (* the script of a rank is the history of the round-semantics theorem *)
  Definition ordersOf (ord : nat -> list Z) (lev : Z) : list Z := ord (posof (map plev params) lev).

  Lemma ordersOf_nth ord p : (p < length params)%nat -> ordersOf ord (plev (nth p params dprm)) = ord p.
  Proof.
    intros Hp. unfold ordersOf. rewrite <- (map_nth plev). rewrite posof_nth; [reflexivity|exact Hlevs|rewrite map_length; exact Hp].
  Qed.

  Lemma script_replies r ord : 0 <= r < G ->
    map (reply_of nwireI r) (script (length params) nsendsI nnamedI r ord) =
    flat_map (fun x => nlvl_replies G (pL x) (pD x) R payf (ph x) (plev x) r (ordersOf ord (plev x))) params.
  Proof.
    intros Hr. unfold script. rewrite map_flat_map. rewrite (flat_map_nth _ dprm params). apply flat_map_ext_in. intros p Hp. apply in_seq in Hp.
    rewrite ordersOf_nth by lia. unfold lvl_items, nlvl_replies. rewrite map_app, replies_sends, replies_recvs.
    unfold nsendsI. apply inr_spec in Hr. rewrite Hr. cbv zeta. unfold lsends. rewrite map_length. reflexivity.
  Qed.

  Lemma script_acts r ord : 0 <= r < G -> (forall p, (p < length params)%nat -> Permutation (ord p) (nsrcsI r p)) ->
    map (act_of ntagI) (script (length params) nsendsI nnamedI r ord) =
    flat_map (fun x => nlvl_acts G (pL x) (pD x) R payf (ph x) (plev x) r) params.
  Proof.
    intros Hr Hv. unfold script. rewrite map_flat_map. rewrite (flat_map_nth _ dprm params). apply flat_map_ext_in. intros p Hp. apply in_seq in Hp.
    destruct (nth_params p ltac:(lia)) as [A [B C]]. cbv zeta in A, B, C.
    unfold lvl_items, nlvl_acts. rewrite map_app, acts_sends, (acts_recvs_wild ntagI nnamedI r p (fun _ => eq_refl)).
    pose proof (Hv p ltac:(lia)) as Hperm. apply Permutation_length in Hperm. rewrite Hperm.
    unfold nsendsI, nsrcsI. pose proof Hr as Hr'. apply inr_spec in Hr'. rewrite Hr'. cbv zeta.
    rewrite (senders_length G _ _ R payf A B HG C (fun _ t => t) (hid_inv G _) r Hr). f_equal.
    unfold lsends. rewrite map_map. apply map_ext_in. intros [[d t] m] Hin. cbn [fst snd].
    apply nsends_In in Hin. destruct Hin as [j [_ [_ [_ E]]]]. injection E as _ -> _. reflexivity.
  Qed.

  (* a closed bound for nary_steps: a rank has at most D sends and 2 D receives at a level of width D *)
  Lemma nary_steps_bound : (nary_steps <= Z.to_nat G * list_sum (map (fun x => 3 * Z.to_nat (pD x)) params))%nat.
  Proof.
    unfold nary_steps. rewrite (map_nth_seq (fun x => (3 * Z.to_nat (pD x))%nat) dprm params).
    rewrite <- (ranks_length G). apply total_len_bound. intros r l Hr Hl. apply in_ranks in Hr.
    destruct (nth_params l Hl) as [A [B C]]. cbv zeta in A, B, C. unfold nsendsI, nsrcsI. pose proof Hr as Hr'. apply inr_spec in Hr'. rewrite Hr'. cbv zeta.
    set (x := nth l params dprm) in *.
    assert (H1 : (length (lsends G (pL x) (pD x) R payf (ph x) (plev x) r) <= Z.to_nat (pD x))%nat).
    { unfold lsends. rewrite map_length. unfold nsends. rewrite <- (ranks_length (pD x)). apply flat_map_length_le1.
      intros j. destruct (j =? _); [cbn; lia|]. cbv zeta. destruct (_ <? 0); cbn; lia. }
    rewrite (senders_length G _ _ R payf A B HG C (fun _ t => t) (hid_inv G _) r Hr).
    pose proof (nrecvs_ge G _ _ R payf A B HG C (fun _ t => t) (hid_inv G _) r Hr) as [_ H2]. lia.
  Qed.
End NaryPaySystem.


Section NaryPayEverySchedule.
  Variable G : Z.
  Variable R : Z -> list Z.
  Variables ntop nint nbot : Z.
  Hypothesis HG : 0 < G <= BIG.
  Hypothesis HG1 : G <> 1.
  Hypothesis HR : forall f, 0 <= f < G -> ssorted (fun x => x) (R f) /\ forall t, In t (R f) -> 0 <= t < G.
  Hypothesis Ht : 2 <= ntop.
  Hypothesis Hi : 2 <= nint.
  Hypothesis Hb : 2 <= nbot.
  Hypothesis HbB : nbot <= BIG.
  Hypothesis Hbt : nbot * ntop <= BIG.
  Hypothesis HGn : G * nint <= BIG.
  Variable pay : Z -> Z -> payload.
  Variable sz : Z.
  Hypothesis Hsz : 0 < sz < 2 ^ 31.
  Hypothesis Hbytes : forall f t, Forall isbyte (pay f t) /\ Z.of_nat (length (pay f t)) = sz.
  Definition payfP : Z -> Z -> list Z := fun f t => pack_ints (Z.to_nat (npay_nary 1 sz)) (pay f t).

  (* the level parameters of a call: from the deepest level (part length 1) to the top *)
  Definition nary_params (depth : Z) : list prm := lparams G 1 (nary_ls depth ntop nint nbot) h0.

  Theorem nary_pay_every_schedule :
    exists depth prod, nary_depth 64 G nbot ntop nint = Some (depth, prod) /\
    forall n s, run_a n (nary_sys G R ntop nint nbot sz pay) s ->
      ~ stuck s /\
      (n <= nary_steps G R payfP (nary_params depth))%nat /\
      (final s <-> n = nary_steps G R payfP (nary_params depth)) /\
      (final s -> (forall r, 0 <= r < G -> pr s r = Ret (result (transpose G R r) (map (fun q => pay q r) (transpose G R r)))) /\ (forall a b t, ch s a b t = [])).
  Proof.
    destruct (nary_depth_spec G ntop nint nbot HG Ht Hi Hb HbB Hbt HGn) as [depth [prod [Hdep [Hd [Hprod [Hcov _]]]]]].
    destruct (nary_core_round_semantics_payload_full G R ntop nint nbot HG HG1 HR Ht Hi Hb HbB Hbt HGn pay sz Hsz Hbytes) as [depth' [prod' [Hdep' [_ Hround]]]].
    rewrite Hdep in Hdep'. injection Hdep' as <- <-.
    exists depth, prod. split; [exact Hdep|].
    set (ls := nary_ls depth ntop nint nbot) in *. set (params := nary_params depth).
    assert (Hpl : prodl (map snd ls) = prod) by (unfold ls, nary_ls; rewrite map_rev, prodl_rev; symmetry; exact Hprod).
    assert (Hparams : forall x, In x params -> 0 < pL x /\ 2 <= pD x /\ pD x * pL x <= BIG).
    { intros x Hx. apply (lparams_ok G R ls 1 h0); [|lia|rewrite Hpl; lia|exact Hx].
      intros lev D Hin. apply (nary_ls_widths depth ntop nint nbot Ht Hi Hb ltac:(lia) lev D Hin). }
    assert (Hlevs : NoDup (map plev params)) by (unfold params, nary_params; rewrite lparams_lev; apply nary_ls_levels).
    assert (Hok : forall me o, 0 <= me < G -> (forall p, (p < length params)%nat -> Permutation (o p) (nsrcsI G params me p)) ->
                  orders_ok G me (ordersOf params o) 1 ls).
    { intros me o Hme Ho. apply (orders_ok_params G me (ordersOf params o) ls 1 h0). fold (nary_params depth). fold params.
      intros x Hx. destruct (In_nth params x dprm Hx) as [p [Hp <-]]. rewrite (ordersOf_nth params Hlevs o p Hp).
      specialize (Ho p Hp). unfold nsrcsI in Ho. apply inr_spec in Hme. rewrite Hme in Ho. exact Ho. }
    assert (HroundI : forall r ord, valid (length params) (nsrcsI G params) r ord ->
              feed (map (reply_of (nwireI G R payfP params) r) (script (length params) (nsendsI G R payfP params) nnamedI r ord)) (nary_prog G R ntop nint nbot sz pay r) =
              (map (act_of (ntagI params)) (script (length params) (nsendsI G R payfP params) nnamedI r ord), Some (nary_out G R pay r))).
    { intros r ord Hv. unfold nary_prog, nary_out. destruct (inr G r) eqn:E.
      - apply inr_spec in E. rewrite feed_run, (script_replies G R pay payfP params Hlevs r ord E), (script_acts G R pay payfP params HG Hparams r ord E Hv).
        unfold params, nary_params. rewrite <- (all_replies_params G R payfP), <- (all_acts_params G R payfP). fold ls.
        pose (orders := fun me' : Z => ordersOf params (if me' =? r then ord else nsrcsI G params me')).
        assert (Ho : forall me, 0 <= me < G -> orders_ok G me (orders me) 1 ls).
        { intros me Hme. unfold orders. apply Hok; [exact Hme|]. intros p Hp. destruct (Z.eqb_spec me r) as [->|_]; [apply Hv; exact Hp|apply Permutation_refl]. }
        pose proof (Hround orders Ho r E) as H. unfold orders in H at 1. rewrite Z.eqb_refl in H. exact H.
      - assert (Hs : script (length params) (nsendsI G R payfP params) nnamedI r ord = []).
        { apply (script_out (length params) (nsendsI G R payfP params) (nsrcsI G params) nnamedI (ranks G) (I_out G R payfP params) r ord); [|exact Hv].
          intros Hin. apply inr_ranks in Hin. congruence. }
        rewrite Hs. reflexivity. }
    intros n s Hrun.
    pose proof (all_schedules (length params) (ntagI params) (nsendsI G R payfP params) (nsrcsI G params) (nwireI G R payfP params) nnamedI
                  (nary_prog G R ntop nint nbot sz pay) (nary_out G R pay) (ranks G) (ranks_NoDup G) (I_out G R payfP params) (compat_of_injective _ _ _ _ (I_tag R sz pay payfP params Hlevs))
                  (I_dst G R payfP params HG Hparams) (I_src G R payfP params Hparams) (I_src0 G R payfP params HG Hparams)
                  (I_match1 G R payfP params HG Hparams) (I_match2 G R payfP params HG Hparams) HroundI n s Hrun) as [A [B [C E]]].
    split; [exact A|]. split; [exact B|]. split; [exact C|]. intros Hf. destruct (E Hf) as [E1 E2]. split; [|exact E2].
    intros r Hr. rewrite E1. unfold nary_out. apply inr_spec in Hr. rewrite Hr. reflexivity.
  Qed.

  (* the number of steps in closed form: at most 3 * (sum of the widths of the levels) per rank *)
  Theorem nary_pay_steps_le depth prod : nary_depth 64 G nbot ntop nint = Some (depth, prod) ->
    (nary_steps G R payfP (nary_params depth) <= Z.to_nat G * list_sum (map (fun D => 3 * Z.to_nat D) (map snd (nary_ls depth ntop nint nbot))))%nat.
  Proof.
    intros Hdep0. destruct (nary_depth_spec G ntop nint nbot HG Ht Hi Hb HbB Hbt HGn) as [depth' [prod' [Hdep [Hd [Hprod [Hcov _]]]]]].
    rewrite Hdep0 in Hdep. injection Hdep as <- <-.
    assert (Hpl : prodl (map snd (nary_ls depth ntop nint nbot)) = prod) by (unfold nary_ls; rewrite map_rev, prodl_rev; symmetry; exact Hprod).
    assert (Hparams : forall x, In x (nary_params depth) -> 0 < pL x /\ 2 <= pD x /\ pD x * pL x <= BIG).
    { intros x Hx. apply (lparams_ok G R (nary_ls depth ntop nint nbot) 1 h0); [|lia|rewrite Hpl; lia|exact Hx].
      intros lev D Hin. apply (nary_ls_widths depth ntop nint nbot Ht Hi Hb ltac:(lia) lev D Hin). }
    pose proof (nary_steps_bound G R pay payfP (nary_params depth) HG Hparams) as H.
    rewrite <- (lparams_D G (nary_ls depth ntop nint nbot) 1 h0), map_map. exact H.
  Qed.
End NaryPayEverySchedule.
