(* C02 - the binary notify recursion WITH ONE PAYLOAD ITEM PER RECEIVER (sc_notify_payload_wrapper after sc_notify: after the levels
   every rank sends its items to the receivers it lists and receives, by NAMED receives in ascending order, the items of the ranks
   that listed it) under EVERY SCHEDULE of the interleaving semantics with wildcard receives (MPI/SemAny.v).

   System binary_pay_sys G R pay: rank r, 0 <= r < G, runs
       binary_core G r (R r) (Some (items pay r d, d in R r)) (fun s g => Ret (result s g)).
   Instance of MPI/SemRoundsOrd.all_schedules with n + 1 levels: levels 0 .. n-1 are the levels of C01/BinarySched.v (tag
   SC_TAG_NOTIFY_RECURSIVE + j + 1, first receive a wildcard, second named), level n is the wrapper phase (tag SC_TAG_NOTIFY_WRAPPER,
   sends = the listed receivers with their items, sources = transpose, all receives named in the fixed ascending order: `fixedord`).
   Round property = BinaryRound.binary_round_semantics_payload (= C02_binary_round_semantics).  Theorem binary_pay_every_schedule:
   no reachable state is stuck, a run has at most binary_pay_steps steps and is final exactly after that many, every final state has
   the transposed list with pay s r at the position of sender s on every rank r, and empty channels. *)
From Coq Require Import ZArith Lia List Bool Permutation.
From ScV Require Import Base.CInt MPI.Prog MPI.Sem MPI.SemAny MPI.SemRounds MPI.SemColl MPI.SemRoundsOrd Gen.Consts Gen.NotifyC01
     C01.NaryArith C01.BinaryArith C01.MergeModel C01.MergeProofs C01.NotifyProgs C01.NotifyProgProofs C01.RecordOps C01.BinaryRound
     C01.NaryRound C01.NarySched C01.BinarySched.
Import ListNotations.
Local Open Scope Z_scope.

(* the script vocabulary of SemRoundsOrd is that of SemRounds (same definitions) *)
Lemma reply_of_eq : SemRoundsOrd.reply_of = SemRounds.reply_of.
Proof. reflexivity. Qed.
Lemma act_of_eq : SemRoundsOrd.act_of = SemRounds.act_of.
Proof. reflexivity. Qed.
Lemma mkrecvs_eq : SemRoundsOrd.mkrecvs = SemRounds.mkrecvs.
Proof. reflexivity. Qed.

Section BinaryPay.
  Variable G : Z.
  Variable R : Z -> list Z.
  Variable pay : Z -> Z -> payload.
  Variable n : nat.                                 (* number of levels: binary_pow2length G = 2 ^ n *)
  Hypothesis HG : 0 < G <= BIG.
  Hypothesis HnB : 2 ^ Z.of_nat n <= BIG.
  Hypothesis HR : forall f, 0 <= f < G -> ssorted (fun x => x) (R f) /\ forall t, In t (R f) -> 0 <= t < G.

  Definition binary_pay_prog (r : Z) : prog :=
    if inr G r then binary_core G r (R r) (Some (map (pay r) (R r))) (fun s g => Ret (result s g)) else Ret [].
  Definition binary_pay_sys : gs := mkgs binary_pay_prog (fun _ _ _ => []).
  Definition pout (r : Z) (ord : nat -> list Z) : payload :=
    if inr G r then result (transpose G R r) (map (fun s => pay s r) (transpose G R r)) else [].

  Definition psends (r : Z) (l : nat) : list (Z * payload) :=
    if (l <? n)%nat then bsendsI G R r l else if inr G r then map (fun d => (d, pay r d)) (R r) else [].
  Definition psrcs (r : Z) (l : nat) : list Z :=
    if (l <? n)%nat then bsrcsI G r l else if inr G r then transpose G R r else [].
  Definition pwire (l : nat) (q r : Z) : payload := if (l <? n)%nat then bwireI G R l q r else pay q r.
  Definition ptag (l : nat) : Z := if (l <? n)%nat then ltag l else c_SC_TAG_NOTIFY_WRAPPER.
  Definition pnamed (r : Z) (l i : nat) : bool := if (l <? n)%nat then bnamedI r l i else true.
  Definition pfixed (r : Z) (l : nat) : bool := negb (l <? n)%nat.
  Definition binary_pay_steps : nat := total_len (S n) psends psrcs (ranks G).

  Lemma lt_n l : (l < n)%nat -> (l <? n)%nat = true.
  Proof. intros H. apply Nat.ltb_lt. exact H. Qed.
  Lemma ge_n l : (l < S n)%nat -> (l <? n)%nat = false -> l = n.
  Proof. intros H E. apply Nat.ltb_ge in E. lia. Qed.

  Lemma Q_out r l : ~ In r (ranks G) -> psends r l = [] /\ psrcs r l = [].
  Proof.
    intros Hr. unfold psends, psrcs. destruct (l <? n)%nat; [apply (B_out G R r l Hr)|].
    destruct (inr G r) eqn:E; [apply inr_ranks in E; contradiction|auto].
  Qed.

  Lemma Q_compat r p p' : (p < p')%nat -> (p' < S n)%nat -> ptag p = ptag p' ->
    (forall q, In q (psrcs r p') -> In q (psrcs r p)) /\ (forall i, pnamed r p i = false -> i = 0%nat).
  Proof.
    intros H1 H2 E. exfalso. unfold ptag in E. rewrite (lt_n p ltac:(lia)) in E. destruct (p' <? n)%nat.
    - apply ltag_inj in E. lia.
    - unfold ltag in E. cbv [c_SC_TAG_NOTIFY_RECURSIVE c_SC_TAG_NOTIFY_WRAPPER] in E. lia.
  Qed.

  Lemma Q_fixed r l i : pfixed r l = true -> pnamed r l i = true.
  Proof. unfold pfixed, pnamed. destruct (l <? n)%nat; [discriminate|reflexivity]. Qed.

  Lemma RG_NoDup r : 0 <= r < G -> NoDup (R r).
  Proof. intros Hr. apply (ssorted_NoDup (fun x => x)). apply (HR r Hr). Qed.

  Lemma Q_dst r l : NoDup (map fst (psends r l)).
  Proof.
    unfold psends. destruct (l <? n)%nat; [apply B_dst|]. destruct (inr G r) eqn:E; [|constructor]. apply inr_spec in E.
    rewrite map_map. cbn [fst]. rewrite map_id. apply RG_NoDup. exact E.
  Qed.

  Lemma Q_src r l : (l < S n)%nat -> NoDup (psrcs r l).
  Proof.
    intros Hl. unfold psrcs. destruct (l <? n)%nat eqn:E; [apply Nat.ltb_lt in E; apply (B_src G n HG HnB r l E)|].
    destruct (inr G r); [|constructor]. unfold transpose. apply NoDup_filter. apply ranks_NoDup.
  Qed.

  Lemma Q_src0 r l q : (l < S n)%nat -> In q (psrcs r l) -> 0 <= q.
  Proof.
    intros Hl. unfold psrcs. destruct (l <? n)%nat eqn:E; [apply Nat.ltb_lt in E; apply (B_src0 G n HG HnB r l q E)|].
    destruct (inr G r); [|intros []]. intros Hq. apply transpose_In in Hq. lia.
  Qed.

  Lemma Q_match1 q l d m : (l < S n)%nat -> In (d, m) (psends q l) -> In q (psrcs d l) /\ m = pwire l q d.
  Proof.
    intros Hl. unfold psends, psrcs, pwire. destruct (l <? n)%nat eqn:E; [apply Nat.ltb_lt in E; apply (B_match1 G R n HG HnB q l d m E)|].
    destruct (inr G q) eqn:Eq; [|intros []]. apply inr_spec in Eq. intros Hin.
    apply in_map_iff in Hin. destruct Hin as [d' [Ed Hd]]. injection Ed as -> <-.
    pose proof (proj2 (HR q Eq) d Hd) as Hdr. apply inr_spec in Hdr. rewrite Hdr. split; [|reflexivity]. apply transpose_In. auto.
  Qed.

  Lemma Q_match2 r l q : (l < S n)%nat -> In q (psrcs r l) -> In (r, pwire l q r) (psends q l).
  Proof.
    intros Hl. unfold psends, psrcs, pwire. destruct (l <? n)%nat eqn:E; [apply Nat.ltb_lt in E; apply (B_match2 G R n HG HnB r l q E)|].
    destruct (inr G r) eqn:Er; [|intros []]. intros Hq. apply transpose_In in Hq. destruct Hq as [Hq Hr].
    pose proof Hq as Hq'. apply inr_spec in Hq'. rewrite Hq'. apply in_map_iff. exists r. auto.
  Qed.

  (* the script of a rank: the levels of the recursion, then the wrapper phase *)
  Lemma pvalid_level r ord j : 0 <= r < G -> (j < n)%nat -> valid (S n) psrcs pfixed r ord -> Permutation (ord j) (lvl_srcs G j r false).
  Proof.
    intros Hr Hj Hv. pose proof (proj1 (Hv j ltac:(lia))) as Hp. unfold psrcs in Hp. rewrite (lt_n j Hj) in Hp.
    unfold bsrcsI in Hp. apply inr_spec in Hr. rewrite Hr in Hp. exact Hp.
  Qed.

  Lemma pvalid_last r ord : 0 <= r < G -> valid (S n) psrcs pfixed r ord -> ord n = transpose G R r.
  Proof.
    intros Hr Hv. pose proof (proj2 (Hv n ltac:(lia))) as Hp. unfold psrcs, pfixed in Hp. rewrite Nat.ltb_irrefl in Hp.
    apply inr_spec in Hr. rewrite Hr in Hp. apply Hp. reflexivity.
  Qed.

  Lemma pscript_split r ord :
    script (S n) psends pnamed r ord =
    flat_map (fun j => map (fun dm => ISend j (fst dm) (snd dm)) (bsendsI G R r j) ++ SemRounds.mkrecvs pnamed r j 0 (ord j)) (seq 0 n)
      ++ (map (fun dm => ISend n (fst dm) (snd dm)) (psends r n) ++ SemRounds.mkrecvs pnamed r n 0 (ord n)).
  Proof.
    unfold script. rewrite seq_S, flat_map_app. cbn [Nat.add flat_map]. rewrite app_nil_r. f_equal.
    apply flat_map_ext_in. intros j Hj. apply in_seq in Hj. unfold lvl_items, psends. rewrite (lt_n j ltac:(lia)). reflexivity.
  Qed.

  Lemma recvs_named_last r : forall o i, map (SemRounds.act_of ptag) (SemRounds.mkrecvs pnamed r n i o) = map (fun q => Recv q c_SC_TAG_NOTIFY_WRAPPER) o.
  Proof.
    induction o as [|q o IH]; intros i; [reflexivity|]. cbn [map SemRounds.mkrecvs SemRounds.act_of]. rewrite IH.
    unfold pnamed, ptag. rewrite Nat.ltb_irrefl. reflexivity.
  Qed.

  Lemma pscript_replies r ord : 0 <= r < G -> valid (S n) psrcs pfixed r ord ->
    map (reply_of pwire r) (script (S n) psends pnamed r ord) =
    levels_replies G R (first2_of G ord) 0 n r ++ repeat [] (length (R r)) ++ map (fun s => s :: pay s r) (transpose G R r).
  Proof.
    intros Hr Hv. rewrite pscript_split, map_app. f_equal.
    - rewrite map_flat_map, levels_replies_flat. apply flat_map_ext_in. intros j Hj. apply in_seq in Hj.
      rewrite reply_of_eq. unfold first2_of.
      apply (blevel_replies G R n HG HnB pwire pnamed r j j (ord j) Hr ltac:(lia)); [|apply pvalid_level; [exact Hr|lia|exact Hv]].
      intros q. unfold pwire. rewrite (lt_n j ltac:(lia)). reflexivity.
    - rewrite reply_of_eq, map_app, SemRounds.replies_sends, SemRounds.replies_recvs. rewrite (pvalid_last r ord Hr Hv).
      unfold psends, pwire. rewrite Nat.ltb_irrefl. rewrite (proj2 (inr_spec G r) Hr), map_length. reflexivity.
  Qed.

  Lemma pscript_acts r ord : 0 <= r < G -> valid (S n) psrcs pfixed r ord ->
    map (act_of ptag) (script (S n) psends pnamed r ord) =
    levels_acts G R (first2_of G ord) 0 n r ++ map (fun d => Send d c_SC_TAG_NOTIFY_WRAPPER (pay r d)) (R r)
                                           ++ map (fun s => Recv s c_SC_TAG_NOTIFY_WRAPPER) (transpose G R r).
  Proof.
    intros Hr Hv. rewrite pscript_split, map_app. f_equal.
    - rewrite map_flat_map, levels_acts_flat. apply flat_map_ext_in. intros j Hj. apply in_seq in Hj.
      rewrite act_of_eq. unfold first2_of.
      apply (blevel_acts G R n HG HnB ptag pnamed r j j (ord j) Hr ltac:(lia)); [| | |apply pvalid_level; [exact Hr|lia|exact Hv]].
      + unfold ptag. rewrite (lt_n j ltac:(lia)). reflexivity.
      + unfold pnamed. rewrite (lt_n j ltac:(lia)). reflexivity.
      + unfold pnamed. rewrite (lt_n j ltac:(lia)). reflexivity.
    - rewrite act_of_eq, map_app, SemRounds.acts_sends, recvs_named_last. rewrite (pvalid_last r ord Hr Hv).
      unfold psends, ptag. rewrite Nat.ltb_irrefl. rewrite (proj2 (inr_spec G r) Hr), map_map. cbn [fst snd]. reflexivity.
  Qed.

  (* closed bound: levels as in BinarySched (3 per rank and level), wrapper phase at most 2 G per rank *)
  Lemma binary_pay_steps_le : (binary_pay_steps <= Z.to_nat G * (3 * n + 2 * Z.to_nat G))%nat.
  Proof.
    unfold binary_pay_steps. rewrite <- (ranks_length G) at 1.
    replace (3 * n + 2 * Z.to_nat G)%nat with (list_sum (map (fun l => if (l <? n)%nat then 3%nat else (2 * Z.to_nat G)%nat) (seq 0 (S n)))).
    - apply total_len_bound. intros r l Hr Hl. cbv beta. apply in_ranks in Hr. unfold psends, psrcs. destruct (l <? n)%nat eqn:E.
      + unfold bsendsI, bsrcsI. rewrite (proj2 (inr_spec G r) Hr).
        assert (H1 : (length (if (0 <=? bpeer (Z.of_nat l) G r)%Z then [(bpeer (Z.of_nat l) G r, wire G R l r)] else []) <= 1)%nat) by (destruct (0 <=? _)%Z; cbn; lia).
        assert (H2 : (length (lvl_srcs G l r false) <= 2)%nat) by (unfold lvl_srcs; cbv zeta; destruct (bstart _ _ <=? _)%Z; [destruct (0 <=? bpeer2 _ _ _)%Z|]; cbn; lia).
        exact (Nat.add_le_mono _ _ _ _ H1 H2).
      + rewrite (proj2 (inr_spec G r) Hr), map_length.
        assert (A : (length (R r) <= Z.to_nat G)%nat).
        { rewrite <- (ranks_length G). apply NoDup_incl_length; [apply RG_NoDup; exact Hr|]. intros t Ht. apply in_ranks. apply (HR r Hr). exact Ht. }
        assert (B : (length (transpose G R r) <= Z.to_nat G)%nat).
        { rewrite <- (ranks_length G). apply NoDup_incl_length; [unfold transpose; apply NoDup_filter, ranks_NoDup|]. intros t Ht. apply in_ranks. apply transpose_In in Ht. lia. }
        lia.
    - rewrite seq_S, map_app, list_sum_app. cbn [Nat.add map list_sum]. rewrite Nat.ltb_irrefl.
      rewrite (map_ext_in _ (fun _ : nat => 3%nat)) by (intros l Hl; apply in_seq in Hl; rewrite (lt_n l ltac:(lia)); reflexivity).
      rewrite list_sum_const. unfold list_sum. cbn [fold_right]. lia.
  Qed.
End BinaryPay.

Theorem binary_pay_every_schedule G (R : Z -> list Z) (pay : Z -> Z -> payload) :
  0 < G <= BIG ->
  (forall f, 0 <= f < G -> ssorted (fun x => x) (R f) /\ forall t, In t (R f) -> 0 <= t < G) ->
  exists n : nat, binary_pow2length G = 2 ^ Z.of_nat n /\
  forall k s, run_a k (binary_pay_sys G R pay) s ->
    ~ stuck s /\
    (k <= binary_pay_steps G R pay n)%nat /\
    (final s <-> k = binary_pay_steps G R pay n) /\
    (final s -> (forall r, 0 <= r < G -> pr s r = Ret (result (transpose G R r) (map (fun q => pay q r) (transpose G R r)))) /\
                (forall a b t, ch s a b t = [])).
Proof.
  intros HG HR. destruct (pow2length_levels G HG) as [n [Hn [HB [HP H29]]]]. exists n. split; [exact Hn|].
  assert (HroundI : forall r ord, valid (S n) (psrcs G R n) (pfixed n) r ord ->
            feed (map (reply_of (pwire G R pay n) r) (script (S n) (psends G R pay n) (pnamed n) r ord)) (binary_pay_prog G R pay r) =
            (map (act_of (ptag n)) (script (S n) (psends G R pay n) (pnamed n) r ord), Some (pout G R pay r ord))).
  { intros r ord Hv. unfold binary_pay_prog, pout. destruct (inr G r) eqn:E.
    - apply inr_spec in E. rewrite feed_run, (pscript_replies G R pay n HG HB r ord E Hv), (pscript_acts G R pay n HG HB r ord E Hv).
      apply (binary_round_semantics_payload G R HG HR (first2_of G ord) n Hn HB HP ltac:(lia) pay r E).
    - assert (Hs : script (S n) (psends G R pay n) (pnamed n) r ord = []).
      { apply (script_out (S n) (psends G R pay n) (psrcs G R n) (pnamed n) (pfixed n) (ranks G) (Q_out G R pay n) r ord); [|exact Hv].
        intros Hin. apply inr_ranks in Hin. congruence. }
      rewrite Hs. reflexivity. }
  intros k s Hrun.
  pose proof (all_schedules (S n) (ptag n) (psends G R pay n) (psrcs G R n) (pwire G R pay n) (pnamed n) (pfixed n) (binary_pay_prog G R pay) (pout G R pay) (ranks G)
                (ranks_NoDup G) (Q_out G R pay n) (Q_compat G R n) (fun r l i _ => Q_fixed n r l i) (fun r l _ => Q_dst G R pay n HR r l)
                (Q_src G R n HG HB) (Q_src0 G R n HG HB) (Q_match1 G R pay n HG HB HR) (Q_match2 G R pay n HG HB) HroundI k s Hrun) as [A [B [C E]]].
  split; [exact A|]. split; [exact B|]. split; [exact C|]. intros Hf. destruct (E Hf) as [E1 E2]. split; [|exact E2].
  intros r Hr. destruct (E1 r) as [ord [_ Ho]]. rewrite Ho. unfold pout. apply inr_spec in Hr. rewrite Hr. reflexivity.
Qed.
