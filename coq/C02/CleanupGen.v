(* C02 - tie T1 for the epilogues: the slices GENERATED from sc_notify.c / sc_containers.c / sc.c (Gen/NotifyC02.v,
   tools/c2g/groups_C02.py) compute exactly the hand-written model C02/CleanupModel.v.  Every statement is for all values of
   the free variables (addresses, sizes, counts) within the stated C ranges.  An edit of the sort call, of the record size,
   of a source / destination offset or of a loop bound changes a generated definition and one of these lemmas stops checking. *)
From Coq Require Import ZArith Lia List Bool.
From ScV Require Import Base.CInt Gen.NotifyC02 C02.CleanupModel.
Import ListNotations.
Local Open Scope Z_scope.

Local Ltac zb := unfold z2b in *; repeat match goal with |- context [?a =? ?b] => destruct (Z.eqb_spec a b); cbn [negb andb orb] end.
Local Ltac tup := repeat (match goal with |- (_, _) = (_, _) => f_equal | |- ?f ?a = ?f ?b => is_var f; f_equal end); lia.
Local Lemma u64_small x : 0 <= x < 2 ^ 63 -> u64 x = x.
Proof. intros H. apply u64_id. unfold M64. change (2 ^ 63) with 9223372036854775808 in H. lia. Qed.
Local Lemma s32_small x : 0 <= x < 2 ^ 31 -> s32 x = x.
Proof. intros H. apply s32_id. unfold in_s32, M32. change (2 ^ 31) with 2147483648 in H. simpl. lia. Qed.

(* ---- sc_notify_payload_cleanup ------------------------------------------------------------------------------------------ *)
Lemma gen_cleanup_msg_size (esz : Z -> Z) inp : 0 <= esz inp < 2 ^ 31 ->
  cleanup_msg_size esz inp = cl_msg_size inp (esz inp).
Proof. intros H. unfold cleanup_msg_size, cl_msg_size. rewrite s32_small by assumption. zb; reflexivity. Qed.

Lemma gen_cleanup_head (cnt arr : Z -> Z) rb snd : 0 <= cnt rb < 2 ^ 31 -> 0 <= cnt snd < 2 ^ 31 ->
  cleanup_head cnt arr rb snd =
  (cl_num_senders rb (cnt rb) (cnt snd), snd, cl_num_senders rb (cnt rb) (cnt snd), arr snd).
Proof.
  intros H1 H2. unfold cleanup_head, cl_num_senders. rewrite !s32_small by assumption.
  zb; rewrite u64_small by (change (2 ^ 63) with 9223372036854775808; change (2 ^ 31) with 2147483648 in *; lia); reflexivity.
Qed.

(* the sort: whole records iff sorted and payload, the rank array iff sorted and no payload - nothing else is consulted *)
Lemma gen_cleanup_sort sorted msz rb snd :
  cleanup_sort sorted msz rb snd =
  (b2z (cl_sort_records sorted msz), if cl_sort_records sorted msz then rb else 0,
   b2z (cl_sort_senders sorted msz), if cl_sort_senders sorted msz then snd else 0).
Proof. unfold cleanup_sort, cl_sort_records, cl_sort_senders. zb; reflexivity. Qed.

Lemma gen_cleanup_senders_when sorted msz : cleanup_senders_when sorted msz = b2z (cl_sort_records sorted msz).
Proof. unfold cleanup_senders_when, cl_sort_records. zb; reflexivity. Qed.

(* loop headers: for (i = 0; i < num_senders; i++) *)
Lemma gen_cleanup_senders_loop i n : 0 <= i < 2 ^ 31 - 1 ->
  cleanup_senders_init = 0 /\ cleanup_senders_cond i n = (i <? n) /\ cleanup_senders_step i = i + 1.
Proof. intros H. unfold cleanup_senders_init, cleanup_senders_cond, cleanup_senders_step. rewrite s32_small by lia. auto. Qed.
Lemma gen_cleanup_copy_loop i n : 0 <= i < 2 ^ 31 - 1 ->
  cleanup_copy_init = 0 /\ cleanup_copy_cond i n = (i <? n) /\ cleanup_copy_step i = i + 1.
Proof. intros H. unfold cleanup_copy_init, cleanup_copy_cond, cleanup_copy_step. rewrite s32_small by lia. auto. Qed.

(* senders[i] := the int at the start of record i *)
Lemma gen_cleanup_senders_body (ld : Z -> Z) rb i rec isnd :
  cleanup_senders_body ld rb i rec isnd = (rb, i, elem_addr isnd 4 i, ld rec).
Proof. unfold cleanup_senders_body, elem_addr. rewrite Z.mul_0_r, Z.add_0_r. reflexivity. Qed.

(* reset / resize / destroy and WHEN the copy loop runs *)
Lemma gen_cleanup_guard (arr : Z -> Z) inp outp n rb : 0 <= n < 2 ^ 31 ->
  cleanup_guard arr inp outp n rb =
  if inp =? 0 then (0, 0, 0, 0, 0, 0, 0, outp, 0, 0)
  else (b2z (outp =? 0), (if outp =? 0 then inp else 0), 1, cl_out inp outp, n,
        b2z (cl_copy_runs inp outp rb), (if cl_copy_runs inp outp rb then rb else 0),
        cl_out inp outp, arr (cl_out inp outp), b2z (cl_copy_runs inp outp rb)).
Proof.
  intros H. unfold cleanup_guard, cl_copy_runs, cl_out.
  rewrite u64_small by (change (2 ^ 63) with 9223372036854775808; change (2 ^ 31) with 2147483648 in *; lia).
  zb; try reflexivity; try congruence.
Qed.

(* the memcpy of the copy loop: item i of the output <- the last msg_size bytes of record i, msg_size bytes *)
Lemma gen_cleanup_copy_body (esz : Z -> Z) rb i rec cpay msz :
  0 <= msz <= esz rb -> esz rb < 2 ^ 63 -> 0 <= msz * i < 2 ^ 31 ->
  cleanup_copy_body esz rb i rec cpay msz = (rb, i, cl_copy_dst cpay msz i, cl_copy_src rec (esz rb) msz, msz).
Proof.
  intros H1 H2 H3. unfold cleanup_copy_body, cl_copy_dst, cl_copy_src.
  rewrite s32_small by assumption. rewrite (u64_small msz) by lia. rewrite u64_small by lia. reflexivity.
Qed.

(* ---- sc_array_index_int, sc_array_sort, sc_int_compare ------------------------------------------------------------------- *)
Lemma gen_array_index_int (arr esz : Z -> Z) a i : 0 <= i < 2 ^ 31 - 1 -> 0 <= esz a < 2 ^ 31 ->
  array_index_int arr esz a i = elem_addr (arr a) (esz a) i.
Proof.
  intros H1 H2. unfold array_index_int, elem_addr. change (2 ^ 31) with 2147483648 in *.
  rewrite (u64_small i) by (change (2 ^ 63) with 9223372036854775808; lia).
  rewrite u64_small by (change (2 ^ 63) with 9223372036854775808; nia). reflexivity.
Qed.

(* qsort gets the array's own element count and ELEMENT SIZE: whole records move *)
Lemma gen_array_sort_call (cnt esz : Z -> Z) a : array_sort_call cnt esz a = (cnt a, esz a).
Proof. reflexivity. Qed.

Lemma gen_int_compare a b : int_compare a b = cmp3 a b.
Proof.
  unfold int_compare, cmp3. destruct (Z.eqb_spec a b) as [->|Hne]; [rewrite Z.compare_refl; reflexivity|].
  destruct (Z.ltb_spec a b) as [Hl|Hg].
  - rewrite (proj2 (Z.compare_lt_iff a b) Hl). reflexivity.
  - rewrite (proj2 (Z.compare_gt_iff a b)) by lia. reflexivity.
Qed.

(* ---- the receive buffer of nbx and superset, and where an arriving message is stored --------------------------------------- *)
Lemma gen_nbx_recv_buf sorted msz new1 outp new2 : 0 <= msz < 2 ^ 31 ->
  nbx_recv_buf sorted msz new1 outp new2 =
  if cl_sort_records sorted msz then (1, rb_elem_size sorted msz, 0, 0, new1)
  else if msz =? 0 then (0, 0, 0, 0, 0)
  else if outp =? 0 then (0, 0, 1, rb_elem_size sorted msz, new2)
  else (0, 0, 0, 0, outp).
Proof.
  intros H. unfold nbx_recv_buf, rb_elem_size, cl_sort_records. change (2 ^ 31) with 2147483648 in *.
  rewrite (u64_small msz) by (change (2 ^ 63) with 9223372036854775808; lia).
  rewrite u64_small by (change (2 ^ 63) with 9223372036854775808; lia).
  zb; reflexivity.
Qed.

Lemma gen_super_recv_buf msz sorted nss newc outp new1 : 0 <= msz < 2 ^ 31 -> 0 <= nss < 2 ^ 31 ->
  super_recv_buf msz sorted nss newc outp new1 =
  if msz =? 0 then (0, 0, 0, 0, 0, 0, 0, 0, 0, 0, 0, 0, 0)
  else if cl_sort_records sorted msz then (1, rb_elem_size sorted msz, nss, 1, newc, 0, 0, 0, 0, 0, 0, 0, newc)
  else if outp =? 0 then (0, 0, 0, 0, 0, 1, rb_elem_size sorted msz, 1, new1, nss, 1, new1, new1)
  else (0, 0, 0, 0, 0, 0, 0, 1, outp, nss, 1, outp, outp).
Proof.
  intros H H2. unfold super_recv_buf, rb_elem_size, cl_sort_records. change (2 ^ 31) with 2147483648 in *.
  rewrite (u64_small msz) by (change (2 ^ 63) with 9223372036854775808; lia).
  rewrite (u64_small nss) by (change (2 ^ 63) with 9223372036854775808; lia).
  rewrite u64_small by (change (2 ^ 63) with 9223372036854775808; lia).
  zb; reflexivity.
Qed.

(* one arriving message: (push records?, array, push senders?, array, push items?, array, MPI_Recv called, buffer, count,
   source, tag, address of the rank store, rank stored) *)
Definition slot_model (src sorted msz rb p1 snd p2 p3 tag : Z) :=
  let rank_elem := if cl_sort_records sorted msz then p1 else p2 in
  let sep := negb (msz =? 0) && (sorted =? 0) in
  (b2z (cl_sort_records sorted msz), (if cl_sort_records sorted msz then rb else 0),
   b2z (negb (cl_sort_records sorted msz)), (if cl_sort_records sorted msz then 0 else snd),
   b2z sep, (if sep then rb else 0),
   1, slot_item_addr sorted msz rank_elem p3, msz, src, tag, rank_elem, src).

Lemma gen_nbx_recv_slot src sorted msz rb p1 snd p2 p3 tag ret :
  nbx_recv_slot src sorted msz rb p1 snd p2 p3 tag ret = slot_model src sorted msz rb p1 snd p2 p3 tag.
Proof.
  unfold nbx_recv_slot, slot_model, slot_item_addr, cl_sort_records, slot_rank_array.
  zb; rewrite ?Z.mul_0_r, ?Z.add_0_r, ?Z.mul_1_r; try reflexivity; try congruence.
Qed.

Lemma gen_super_recv_slot src sorted msz rb p1 snd p2 p3 tag ret :
  super_recv_slot src sorted msz rb p1 snd p2 p3 tag ret = slot_model src sorted msz rb p1 snd p2 p3 tag.
Proof.
  unfold super_recv_slot, slot_model, slot_item_addr, cl_sort_records, slot_rank_array.
  zb; rewrite ?Z.mul_0_r, ?Z.add_0_r, ?Z.mul_1_r; try reflexivity; try congruence.
Qed.

(* ---- census (pcx, rsx) ------------------------------------------------------------------------------------------------------ *)
Lemma gen_census_recv_buf msz snd n newc : 0 <= msz < 2 ^ 31 -> 0 <= n < 2 ^ 31 ->
  census_recv_buf msz snd n newc =
  if (msz =? 0) && negb (snd =? 0) then (census_stride msz, 1, snd, n, 0, 0, 0, snd)
  else (census_stride msz, 0, 0, 0, 1, census_stride msz, n, newc).
Proof.
  intros H1 H2. unfold census_recv_buf, census_stride. change (2 ^ 31) with 2147483648 in *.
  rewrite (u64_small (4 + msz)) by (change (2 ^ 63) with 9223372036854775808; lia).
  rewrite (u64_small n) by (change (2 ^ 63) with 9223372036854775808; lia).
  zb; reflexivity.
Qed.

Lemma gen_census_loops i n : 0 <= i < 2 ^ 31 - 1 ->
  census_recv_init = 0 /\ census_recv_cond i n = (i <? n) /\ census_recv_step i = i + 1 /\
  census_copy_init = 0 /\ census_copy_cond i n = (i <? n) /\ census_copy_step i = i + 1 /\
  census_senders_init = 0 /\ census_senders_cond i n = (i <? n) /\ census_senders_step i = i + 1.
Proof.
  intros H. unfold census_recv_init, census_recv_cond, census_recv_step, census_copy_init, census_copy_cond, census_copy_step,
    census_senders_init, census_senders_cond, census_senders_step. rewrite s32_small by lia. repeat split.
Qed.

(* message i is received into the item part of record i, its source is stored at the start of record i *)
Lemma gen_census_recv_body crecv i msz tag ret src : 0 <= i < 2 ^ 31 - 1 -> 0 <= msz < 2 ^ 31 ->
  census_recv_body crecv i (census_stride msz) msz tag ret src =
  (cl_copy_src (elem_addr crecv (census_stride msz) i) (census_stride msz) msz, msz, tag,
   elem_addr crecv (census_stride msz) i, src).
Proof.
  intros H1 H2. unfold census_recv_body, cl_copy_src, elem_addr, census_stride. change (2 ^ 31) with 2147483648 in *.
  rewrite (u64_small i) by (change (2 ^ 63) with 9223372036854775808; lia).
  rewrite (u64_small (i * _)) by (change (2 ^ 63) with 9223372036854775808; nia).
  rewrite u64_small by (change (2 ^ 63) with 9223372036854775808; nia).
  rewrite s32_small by (change (2 ^ 31) with 2147483648; lia).
  tup.
Qed.

Lemma gen_census_sort sorted rb : census_sort sorted rb = (b2z (negb (sorted =? 0)), if sorted =? 0 then 0 else rb).
Proof. unfold census_sort. zb; reflexivity. Qed.

(* sender i := rank of record i; item i of the output <- item part of record i *)
Lemma gen_census_copy_body (ld : Z -> Z) isnd i crecv cpay msz : 0 <= i < 2 ^ 31 - 1 -> 0 <= msz < 2 ^ 31 ->
  census_copy_body ld isnd i crecv (census_stride msz) cpay msz =
  (elem_addr isnd 4 i, ld (elem_addr crecv (census_stride msz) i), cl_copy_dst cpay msz i,
   cl_copy_src (elem_addr crecv (census_stride msz) i) (census_stride msz) msz, msz).
Proof.
  intros H1 H2. unfold census_copy_body, cl_copy_src, cl_copy_dst, elem_addr, census_stride. change (2 ^ 31) with 2147483648 in *.
  rewrite (u64_small i) by (change (2 ^ 63) with 9223372036854775808; lia).
  rewrite (u64_small (i * (4 + msz))) by (change (2 ^ 63) with 9223372036854775808; nia).
  rewrite (u64_small (i * msz)) by (change (2 ^ 63) with 9223372036854775808; nia).
  rewrite u64_small by (change (2 ^ 63) with 9223372036854775808; nia).
  tup.
Qed.

Lemma gen_census_senders_body (ld : Z -> Z) isnd i crecv msz : 0 <= i < 2 ^ 31 - 1 -> 0 <= msz < 2 ^ 31 ->
  census_senders_body ld isnd i crecv (census_stride msz) = (elem_addr isnd 4 i, ld (elem_addr crecv (census_stride msz) i)).
Proof.
  intros H1 H2. unfold census_senders_body, elem_addr, census_stride. change (2 ^ 31) with 2147483648 in *.
  rewrite (u64_small i) by (change (2 ^ 63) with 9223372036854775808; lia).
  rewrite u64_small by (change (2 ^ 63) with 9223372036854775808; nia).
  tup.
Qed.

(* ---- sorted tail of sc_notify_payloadv_census ---------------------------------------------------------------------------------- *)
Lemma gen_censusv_guard (arr : Z -> Z) outp rb inp rsz sorted fs snd outoff : 0 <= rsz < 2 ^ 31 ->
  censusv_guard arr outp rb inp rsz sorted fs snd outoff =
  if outp =? rb then (0, 0, 0, 0, 0, 0, 0, 0, 0, 0, outp, 0, 0, 0)
  else if sorted =? 0
       then (b2z (outp =? 0), (if outp =? 0 then inp else 0), 1, cl_out inp outp, rsz, 1, cl_out inp outp, rb, 0, 0, cl_out inp outp, 0, 0, 0)
       else (b2z (outp =? 0), (if outp =? 0 then inp else 0), 1, cl_out inp outp, rsz, 0, 0, 0, 1, fs, cl_out inp outp, elem_addr outoff 4 0, 0, 1).
Proof.
  intros H. unfold censusv_guard, cl_out, elem_addr. change (2 ^ 31) with 2147483648 in *.
  rewrite u64_small by (change (2 ^ 63) with 9223372036854775808; lia).
  zb; try reflexivity; try congruence.
Qed.

Lemma gen_censusv_copy_loop i n : 0 <= i < 2 ^ 31 - 1 ->
  censusv_copy_init = 0 /\ censusv_copy_cond i n = (i <? n) /\ censusv_copy_step i = i + 1.
Proof. intros H. unfold censusv_copy_init, censusv_copy_cond, censusv_copy_step. rewrite s32_small by lia. auto. Qed.

(* record i of the sorted (rank, first, end) triples: sender i, its slice copied behind the slices of the senders before it *)
Lemma gen_censusv_copy_body (ld : Z -> Z) fs i rec isnd cout outoff msz crecv :
  0 <= i < 2 ^ 31 - 1 -> 0 < msz < 2 ^ 31 ->
  0 <= ld (rec + 4 * 1) <= ld (rec + 4 * 2) -> ld (rec + 4 * 2) * msz < 2 ^ 63 ->
  0 <= ld (outoff + 4 * i) -> (ld (outoff + 4 * i) + ld (rec + 4 * 2)) * msz < 2 ^ 63 -> ld (outoff + 4 * i) + ld (rec + 4 * 2) < 2 ^ 31 ->
  censusv_copy_body ld fs i rec isnd cout outoff msz crecv =
  (fs, i, cv_copy_dst cout (ld (outoff + 4 * i)) msz, cv_copy_src crecv (ld (rec + 4 * 1)) msz,
   cv_copy_len (ld (rec + 4 * 1)) (ld (rec + 4 * 2)) msz,
   elem_addr isnd 4 i, ld rec, elem_addr outoff 4 (i + 1), cv_next_off (ld (outoff + 4 * i)) (ld (rec + 4 * 1)) (ld (rec + 4 * 2))).
Proof.
  intros Hi Hm Hr Hr2 Ho Ho2 Ho3. unfold censusv_copy_body, cv_copy_dst, cv_copy_src, cv_copy_len, cv_next_off, elem_addr.
  change (2 ^ 31) with 2147483648 in *. change (2 ^ 63) with 9223372036854775808 in *.
  rewrite Z.mul_0_r, Z.add_0_r.
  set (a := ld (rec + 4 * 1)) in *. set (b := ld (rec + 4 * 2)) in *. set (o := ld (outoff + 4 * i)) in *.
  rewrite (s32_small (i + 1)) by (change (2 ^ 31) with 2147483648; lia).
  rewrite (s32_small (b - a)) by (change (2 ^ 31) with 2147483648; nia).
  rewrite (s32_small (o + (b - a))) by (change (2 ^ 31) with 2147483648; nia).
  rewrite (u64_small o) by (change (2 ^ 63) with 9223372036854775808; nia).
  rewrite (u64_small a) by (change (2 ^ 63) with 9223372036854775808; nia).
  rewrite (u64_small (b - a)) by (change (2 ^ 63) with 9223372036854775808; nia).
  rewrite (u64_small (o * msz)) by (change (2 ^ 63) with 9223372036854775808; nia).
  rewrite (u64_small (a * msz)) by (change (2 ^ 63) with 9223372036854775808; nia).
  rewrite (u64_small ((b - a) * msz)) by (change (2 ^ 63) with 9223372036854775808; nia).
  reflexivity.
Qed.
