(* C02 - sc_notify_payloadv for pcx / rsx (sc_notify_payloadv_census, program censusv_core) and pex with payload under EVERY SCHEDULE of the
   interleaving semantics with wildcard receives and synchronising collectives (MPI/SemColl.v, contract SemColl.coll_reply): the
   instances of C01/CensusSched.v / C01/CollSched.v for the payload programs.
   censusv: census of (number of senders, number of items) by Reduce_scatter_block over TWO ints per rank (blk = 2) resp. the accumulate
   epoch, then the slices as messages on SC_TAG_NOTIFY_CENSUSV and `count` wildcard receives; round property = CensusvProofs.censusv_round.
   pex with payload: one MPI_Alltoall with 1 + npay_pex ints per rank; round property = PexRound.pex_round. *)
From Coq Require Import ZArith Lia List Bool Permutation.
From ScV Require Import Base.CInt MPI.Prog MPI.Sem MPI.SemAny MPI.SemRounds MPI.SemColl MPI.SemRoundsOrd Gen.Consts Gen.NotifyC01
     C02.SlotProofs C02.PayloadModel C01.MergeModel C01.MergeProofs C01.MergeCorr C01.NotifyProgs C01.NotifyProgProofs C01.RecordOps C01.NaryRound C01.PexRound
     C01.NarySched C01.CollSched C01.CensusSched C01.RangesSched C02.CensusvProofs.
Import ListNotations.
Local Open Scope Z_scope.

(* the contract for two ints per rank in the form censusv_round uses it *)
Definition csum2 : Z -> list payload -> Z -> payload := fun _ cs r =>
  [fold_right Z.add 0 (map (fun c => nth (Z.to_nat (2 * r)) c 0) cs); fold_right Z.add 0 (map (fun c => nth (Z.to_nat (2 * r + 1)) c 0) cs)].

Lemma coll_reply_census2 kind root cs r : kind = K_RSB \/ kind = K_RMA -> 0 <= r -> cs <> [] -> (forall c, In c cs -> length c = (2 * length cs)%nat) ->
  coll_reply kind root cs r = csum2 kind cs r.
Proof.
  intros Hk Hr Hne Hlen. unfold coll_reply, csum2.
  replace ((kind =? 1) || (kind =? 2)) with false by (destruct Hk as [-> | ->]; reflexivity).
  replace (kind =? 3) with false by (destruct Hk as [-> | ->]; reflexivity).
  replace ((kind =? 4) || (kind =? 5)) with true by (destruct Hk as [-> | ->]; reflexivity).
  rewrite (blk_uniform 2 cs Hne Hlen). cbn [seq map].
  replace (Z.to_nat r * 2 + 0)%nat with (Z.to_nat (2 * r)) by lia. replace (Z.to_nat r * 2 + 1)%nat with (Z.to_nat (2 * r + 1)) by lia. reflexivity.
Qed.

Section CensusvSched.
  Variable kind : Z.
  Hypothesis Hkind : kind = K_RSB \/ kind = K_RMA.
  Variable P : Z.
  Variable R : Z -> list Z.
  Variable len : Z -> Z -> Z.
  Variable slice : Z -> Z -> payload.
  Variable msz : Z.
  Variable sorted : bool.
  Hypothesis HP : 0 < P.
  Hypothesis Hmsz : 0 < msz.
  Hypothesis Hlen : forall s r, 0 <= len s r /\ Z.of_nat (length (slice s r)) = len s r * msz.
  Hypothesis HR : forall f, 0 <= f < P -> ssorted (fun x => x) (R f) /\ forall t, In t (R f) -> 0 <= t < P.

  Definition censusv_prog : Z -> prog := only P (fun r => censusv_core kind P (R r) (map (len r) (R r)) (map (slice r) (R r)) msz sorted).
  Definition censusv_sys : gs := sys censusv_prog.

  Definition vsends (r : Z) (l : nat) : list (Z * payload) := if inr P r then map (fun d => (d, slice r d)) (R r) else [].
  Definition vsrcs (r : Z) (l : nat) : list Z := if inr P r then transpose P R r else [].
  Definition vwire (l : nat) (q r : Z) : payload := slice q r.
  Definition vtag (l : nat) : Z := c_SC_TAG_NOTIFY_CENSUSV.
  Definition vnamed : Z -> nat -> nat -> bool := fun _ _ _ => false.
  Definition vfixed : Z -> nat -> bool := fun _ _ => false.
  Definition vfinal (r : Z) (o : list Z) : list Z := if sorted then transpose P R r else o.
  Definition vout (r : Z) (ord : nat -> list Z) : payload :=
    if inr P r then let f := vfinal r (ord 0%nat) in resultv f (out_offsets (map (fun s => len s r) f)) (concat (map (fun s => slice s r) f)) else [].
  Definition censusv_steps : nat := S (total_len 1 vsends vsrcs (ranks P)).

  Let s1 : gs := mkgs (advance P coll_reply censusv_sys kind (-1)) (ch censusv_sys).

  Lemma cv_contrib_length s : length (cv_contrib P R len s) = (2 * Z.to_nat P)%nat.
  Proof.
    unfold cv_contrib. rewrite <- (ranks_length P). induction (ranks P) as [|i l IH]; [reflexivity|]. cbn [flat_map]. rewrite app_length, IH.
    destruct (index_of i (R s) 0); cbn [length]; lia.
  Qed.

  Lemma censusv_contribs0 : contribs P censusv_sys = map (cv_contrib P R len) (ranks P).
  Proof. apply contribs_eq. intros r Hr. cbn [censusv_sys sys pr]. unfold censusv_prog. rewrite only_in by exact Hr. reflexivity. Qed.

  Lemma censusv_reply r : 0 <= r -> coll_reply kind (-1) (map (cv_contrib P R len) (ranks P)) r = csum2 kind (map (cv_contrib P R len) (ranks P)) r.
  Proof.
    intros Hr. apply coll_reply_census2; [exact Hkind|exact Hr| |].
    - intros E. apply (f_equal (@length _)) in E. rewrite map_length, ranks_length in E. cbn in E. lia.
    - intros c Hc. apply in_map_iff in Hc. destruct Hc as [q [<- _]]. rewrite cv_contrib_length, map_length, ranks_length. reflexivity.
  Qed.

  Lemma RV_NoDup r : 0 <= r < P -> NoDup (R r).
  Proof. intros Hr. apply (ssorted_NoDup (fun x => x)). apply (HR r Hr). Qed.

  Lemma V_out r l : ~ In r (ranks P) -> vsends r l = [] /\ vsrcs r l = [].
  Proof. intros Hr. unfold vsends, vsrcs. destruct (inr P r) eqn:E; [apply inr_ranks in E; contradiction|auto]. Qed.
  Lemma V_dst r l : NoDup (map fst (vsends r l)).
  Proof. unfold vsends. destruct (inr P r) eqn:E; [|constructor]. apply inr_spec in E. rewrite map_map. cbn [fst]. rewrite map_id. apply RV_NoDup. exact E. Qed.
  Lemma V_src r l : NoDup (vsrcs r l).
  Proof. unfold vsrcs. destruct (inr P r); [apply transpose_NoDup|constructor]. Qed.
  Lemma V_src0 r l q : In q (vsrcs r l) -> 0 <= q.
  Proof. unfold vsrcs. destruct (inr P r); [|intros []]. intros Hq. apply transpose_In in Hq. lia. Qed.
  Lemma V_match1 q l d m : In (d, m) (vsends q l) -> In q (vsrcs d l) /\ m = vwire l q d.
  Proof.
    unfold vsends, vsrcs, vwire. destruct (inr P q) eqn:E; [|intros []]. apply inr_spec in E. intros Hin.
    apply in_map_iff in Hin. destruct Hin as [d' [Ed Hd]]. injection Ed as -> <-.
    pose proof (proj2 (HR q E) d Hd) as Hdr. apply inr_spec in Hdr. rewrite Hdr. split; [|reflexivity]. apply transpose_In. auto.
  Qed.
  Lemma V_match2 r l q : In q (vsrcs r l) -> In (r, vwire l q r) (vsends q l).
  Proof.
    unfold vsends, vsrcs, vwire. destruct (inr P r) eqn:E; [|intros []]. intros Hq. apply transpose_In in Hq. destruct Hq as [Hq Hr].
    pose proof Hq as Hq'. apply inr_spec in Hq'. rewrite Hq'. apply in_map_iff. exists r. auto.
  Qed.

  Lemma censusv_hround r ord : valid 1 vsrcs vfixed r ord ->
    feed (map (reply_of vwire r) (script 1 vsends vnamed r ord)) (pr s1 r) = (map (act_of vtag) (script 1 vsends vnamed r ord), Some (vout r ord)).
  Proof.
    intros Hv. destruct (inr P r) eqn:E.
    - apply inr_spec in E. rewrite feed_run.
      pose proof (proj1 (Hv 0%nat ltac:(lia))) as Hperm. unfold vsrcs in Hperm. rewrite (proj2 (inr_spec P r) E) in Hperm.
      pose proof (censusv_round csum2 kind (fun cs r0 => eq_refl) P R len slice msz HP Hmsz Hlen r sorted (ord 0%nat) E Hperm) as H. cbv zeta in H.
      apply run_head in H. destruct H as [k [Ek H]].
      assert (Es1 : pr s1 r = k (csum2 kind (map (cv_contrib P R len) (ranks P)) r)).
      { unfold s1. cbn [pr]. erewrite advance_in; [|exact E|cbn [censusv_sys sys pr]; unfold censusv_prog; rewrite only_in by exact E; exact Ek].
        rewrite censusv_contribs0, censusv_reply by lia. reflexivity. }
      rewrite Es1. unfold script. cbn [seq flat_map]. rewrite app_nil_r. unfold lvl_items. rewrite !map_app, replies_sends, replies_recvs, acts_sends.
      rewrite (acts_recvs_wild vtag vnamed r 0 (fun _ => eq_refl)).
      unfold vsends, vout, vwire, vtag, vfinal. rewrite (proj2 (inr_spec P r) E). rewrite !map_map, map_length. cbn [fst snd]. exact H.
    - assert (Hnr : ~ (0 <= r < P)) by (intros H; apply inr_spec in H; congruence).
      assert (Hs : script 1 vsends vnamed r ord = []).
      { apply (script_out 1 vsends vsrcs vnamed vfixed (ranks P) V_out r ord); [|exact Hv]. intros Hin. apply inr_ranks in Hin. congruence. }
      rewrite Hs. unfold s1, vout. cbn [pr]. rewrite advance_out by exact Hnr. cbn [censusv_sys sys pr]. unfold censusv_prog. rewrite only_out by exact Hnr.
      rewrite E. reflexivity.
  Qed.

  Definition censusv_good (s : gs) : Prop :=
    (forall r, 0 <= r < P -> exists o, Permutation o (transpose P R r) /\ (sorted = true -> o = transpose P R r) /\
       pr s r = Ret (resultv o (out_offsets (map (fun q => len q r) o)) (concat (map (fun q => slice q r) o)))) /\
    (forall a b t, ch s a b t = []).

  Theorem censusv_every_schedule : every_schedule P coll_reply censusv_sys censusv_steps censusv_good.
  Proof.
    apply (es_coll P coll_reply censusv_sys kind (-1)); [exact HP| |apply outside_only|].
    { intros r Hr. cbn [censusv_sys sys pr]. unfold censusv_prog. rewrite only_in by exact Hr. unfold censusv_core. eauto. }
    fold s1. apply (es_weaken P coll_reply s1 _ (fun s => (forall r, exists ord, valid 1 vsrcs vfixed r ord /\ pr s r = Ret (vout r ord)) /\ (forall a b t, ch s a b t = []))).
    - intros s [H1 H2]. split; [|exact H2]. intros r Hr. destruct (H1 r) as [ord [Hv Ho]].
      pose proof (proj1 (Hv 0%nat ltac:(lia))) as Hperm. unfold vsrcs in Hperm. rewrite (proj2 (inr_spec P r) Hr) in Hperm.
      unfold vout in Ho. rewrite (proj2 (inr_spec P r) Hr) in Ho. cbv zeta in Ho. exists (vfinal r (ord 0%nat)). unfold vfinal in *.
      destruct sorted; [split; [apply Permutation_refl|split; [reflexivity|exact Ho]]|split; [exact Hperm|split; [discriminate|exact Ho]]].
    - apply (es_rounds P coll_reply 1 vtag vsends vsrcs vwire vnamed vfixed (pr s1) vout (ranks P) HP (ranks_NoDup P) V_out).
      + intros r p p' H1 H2. lia.
      + intros r l i _ H. discriminate.
      + intros r l _. apply V_dst.
      + intros r l _. apply V_src.
      + intros r l q _. apply V_src0.
      + intros q l d m _. apply V_match1.
      + intros r l q _. apply V_match2.
      + exact censusv_hround.
  Qed.
End CensusvSched.

(* ---- pex with one payload item per receiver ------------------------------------------------------------------------------------------------ *)
Section PexPaySched.
  Variable P : Z.
  Variable R : Z -> list Z.
  Variable hp : bool.
  Variable pay : Z -> Z -> payload.
  Variable sz : Z.
  Hypothesis HP : 0 < P.
  Hypothesis Hsz : 0 < sz < 2 ^ 31.
  Hypothesis Hbytes : forall f t, Forall isbyte (pay f t) /\ Z.of_nat (length (pay f t)) = sz.

  Definition pexp_prog : Z -> prog := only P (fun r => pex_core P (R r) (pex_ep R hp pay r) sz (fun s g => Ret (result s g))).
  Definition pexp_sys : gs := sys pexp_prog.
  Let s1 : gs := mkgs (advance P coll_reply pexp_sys K_ALLTOALL (-1)) (ch pexp_sys).

  Lemma pexp_core r : pex_core P (R r) (pex_ep R hp pay r) sz (fun s g => Ret (result s g)) =
    Do (Coll K_ALLTOALL (-1) (pex_contrib P R hp pay sz r)) (fun all =>
      let found := pex_scan (S (pex_npay hp sz)) sz (match pex_ep R hp pay r with None => false | Some _ => true end) all (Z.to_nat P) 0 in
      (fun s g => Ret (result s g)) (map fst found) (map snd found)).
  Proof. unfold pex_core, pex_contrib, pex_ep, pex_npay. destruct hp; reflexivity. Qed.

  Lemma pexp_contribs0 : contribs P pexp_sys = map (pex_contrib P R hp pay sz) (ranks P).
  Proof. apply contribs_eq. intros r Hr. cbn [pexp_sys sys pr]. unfold pexp_prog. rewrite only_in by exact Hr. rewrite pexp_core. reflexivity. Qed.

  Lemma pexp_s1 r : 0 <= r < P -> pr s1 r = Ret (result (transpose P R r) (if hp then map (fun s => pay s r) (transpose P R r) else [])).
  Proof.
    intros Hr. unfold s1. cbn [pr].
    erewrite advance_in; [|exact Hr|cbn [pexp_sys sys pr]; unfold pexp_prog; rewrite only_in by exact Hr; apply pexp_core].
    rewrite pexp_contribs0.
    pose proof (pex_round collf collf_alltoall P R HP hp pay sz Hsz Hbytes r Hr) as H.
    apply run_after in H. rewrite pexp_core in H. cbn [after] in H. exact H.
  Qed.

  Theorem pexp_every_schedule :
    every_schedule P coll_reply pexp_sys 1 (good_out P (fun r => result (transpose P R r) (if hp then map (fun s => pay s r) (transpose P R r) else []))).
  Proof.
    apply (es_coll P coll_reply pexp_sys K_ALLTOALL (-1)); [exact HP| |apply outside_only|].
    { intros r Hr. cbn [pexp_sys sys pr]. unfold pexp_prog. rewrite only_in by exact Hr. rewrite pexp_core. eauto. }
    fold s1. assert (Hout1 : outside_ret P s1) by (apply outside_advance, outside_only).
    apply es_final.
    - apply (final_of P); [intros r Hr; rewrite (pexp_s1 r Hr); eauto|exact Hout1].
    - split; [exact pexp_s1|reflexivity].
  Qed.
End PexPaySched.
