(* C02 - the number of int slots reserved per payload item in the notify records (four copies in sc_notify.c,
   all GENERATED into Gen/NotifyC01.v) is exactly ceil (size / sizeof (int)). *)
From Coq Require Import ZArith Lia List Bool ZifyBool.
From ScV Require Import Base.CInt Gen.NotifyC01.
Local Open Scope Z_scope.
Ltac Zify.zify_post_hook ::= Z.div_mod_to_equations.

Definition slots_ok (n sz : Z) : Prop := sz <= 4 * n /\ 4 * (n - 1) < sz /\ 0 < n.

Lemma npay_generic sz :
  0 < sz < 2 ^ 31 ->
  slots_ok (s32 (u64 ((if 4 <? sz then u64 (sz - 1) else 0) / 4 + 1))) sz.
Proof.
  intros Hs. change (2 ^ 31) with 2147483648 in Hs. unfold slots_ok.
  destruct (4 <? sz) eqn:E.
  - rewrite (u64_id (sz - 1)) by (unfold M64; lia).
    rewrite u64_id by (unfold M64; lia). rewrite s32_id by (unfold in_s32, M32; lia). lia.
  - change (0 / 4 + 1) with 1. change (s32 (u64 1)) with 1. lia.
Qed.

Lemma npay_init_input_ok p sz : p <> 0 -> 0 < sz < 2 ^ 31 -> slots_ok (npay_init_input p sz) sz.
Proof. intros Hp Hs. unfold npay_init_input, z2b. destruct (p =? 0) eqn:E; [lia|]. simpl negb. cbv iota zeta. apply npay_generic; exact Hs. Qed.
Lemma npay_reset_output_ok p sz : p <> 0 -> 0 < sz < 2 ^ 31 -> slots_ok (npay_reset_output p sz) sz.
Proof. intros Hp Hs. unfold npay_reset_output, z2b. destruct (p =? 0) eqn:E; [lia|]. simpl negb. cbv iota zeta. apply npay_generic; exact Hs. Qed.
Lemma npay_nary_ok p sz : p <> 0 -> 0 < sz < 2 ^ 31 -> slots_ok (npay_nary p sz) sz.
Proof. intros Hp Hs. unfold npay_nary, z2b. destruct (p =? 0) eqn:E; [lia|]. simpl negb. cbv iota zeta. apply npay_generic; exact Hs. Qed.
Lemma npay_pex_ok p sz : p <> 0 -> 0 < sz < 2 ^ 31 -> slots_ok (npay_pex p sz) sz.
Proof. intros Hp Hs. unfold npay_pex, z2b. destruct (p =? 0) eqn:E; [lia|]. simpl negb. cbv iota zeta. apply npay_generic; exact Hs. Qed.

(* all four sites agree (sender and receiver use the same record stride) *)
Lemma npay_sites_agree p sz :
  npay_init_input p sz = npay_reset_output p sz /\ npay_reset_output p sz = npay_nary p sz /\ npay_nary p sz = npay_pex p sz.
Proof. repeat split; reflexivity. Qed.

Lemma npay_no_payload sz : npay_init_input 0 sz = 0 /\ npay_reset_output 0 sz = 0 /\ npay_nary 0 sz = 0 /\ npay_pex 0 sz = 0.
Proof. repeat split; reflexivity. Qed.
