(* C10 - corollaries of status_exact over every legal history: the counter is never negative and is zero exactly
   when no block of the package is live (so a non-zero sc_memory_status always names a live block). *)
From Coq Require Import ZArith Lia List Bool.
From ScV Require Import Base.CInt C10.AllocModel C10.AllocTop.
Import ListNotations.
Local Open Scope Z_scope.

Lemma status_nonneg junk ops p : legal junk ops = true -> pkg_ok (run junk ops) p = true ->
  0 <= status (run junk ops) p.
Proof. intros Hl Hp. rewrite (status_exact junk ops p Hl Hp). unfold nlive. lia. Qed.

Lemma status_nonneg_always junk ops1 ops2 p : legal junk (ops1 ++ ops2) = true -> pkg_ok (run junk ops1) p = true ->
  0 <= status (run junk ops1) p.
Proof. intros Hl Hp. rewrite (status_exact_always junk ops1 ops2 p Hl Hp). unfold nlive. lia. Qed.

Lemma status_zero_iff junk ops p : legal junk ops = true -> pkg_ok (run junk ops) p = true ->
  (status (run junk ops) p = 0 <-> live_blocks (run junk ops) p = []).
Proof.
  intros Hl Hp. rewrite (status_exact junk ops p Hl Hp). unfold nlive. split.
  - intros H. destruct (live_blocks (run junk ops) p); [reflexivity | simpl in H; lia].
  - intros ->. reflexivity.
Qed.
