(* C10 - every legal call preserves the invariant: bookkeeping words intact, status p = live blocks of p. *)
From Coq Require Import ZArith Lia List Bool ZifyBool.
From ScV Require Import C10.AllocBase C10.AllocLists C10.AllocModel C10.AllocArith C10.AllocInv.
Import ListNotations.
Local Open Scope Z_scope.

Record HeapInv (st : state) : Prop := mkHI {
  H_null : lget (s_heap st) 0 = None;
  H_len : (1 <= length (s_heap st))%nat;
  H_wf : forall h b, hget st h = Some b -> blk_wf b;
  H_dist : raws_distinct (s_heap st);
  H_tag : forall h b, hget st h = Some b -> b_pkg b = -2 \/ pkg_ok st (b_pkg b) = true;
  H_bad : s_bad st = false }.

Definition CntInv (st : state) : Prop := forall p, pkg_ok st p = true -> status st p = cnt (s_heap st) p.
Definition Inv (st : state) : Prop := HeapInv st /\ CntInv st.

Lemma Inv_init : Inv init.
Proof.
  split.
  - constructor; try reflexivity; simpl; try lia.
    + intros [|[|h]] b Hg; unfold hget, lget in Hg; simpl in Hg; discriminate.
    + intros [|[|h1]] h2 b1 b2 Hg; unfold lget in Hg; simpl in Hg; discriminate.
    + intros [|[|h]] b Hg; unfold hget, lget in Hg; simpl in Hg; discriminate.
  - intros p Hp. unfold pkg_ok, is_reg, nalloc in Hp. simpl in Hp.
    assert (p = -1) by lia. subst p. reflexivity.
Qed.

(* ---------- is_reg / status under counter updates ------------------------------------------------------------ *)
Lemma pkg_ok_reg st p : pkg_ok st p = true -> p <> -1 -> is_reg st p = true.
Proof. unfold pkg_ok. intros H E. apply orb_prop in H. destruct H as [H|H]; [lia|exact H]. Qed.

Lemma to_nat_inj p q : 0 <= p -> 0 <= q -> Z.to_nat p = Z.to_nat q -> p = q.
Proof. lia. Qed.

Lemma pget_pset st p v q : 0 <= p < nalloc st -> 0 <= q ->
  pget (pset st p v) q = if q =? p then v else pget st q.
Proof.
  intros Hp Hq. unfold pget, pset, set_pkgs, nalloc in *. cbn [s_pkgs]. rewrite nth_setp.
  destruct (Z.eqb_spec q p) as [->|Hne].
  - rewrite Nat.eqb_refl. replace (Nat.ltb (Z.to_nat p) (length (s_pkgs st))) with true; [reflexivity|].
    symmetry. apply Nat.ltb_lt. lia.
  - replace (Nat.eqb (Z.to_nat p) (Z.to_nat q)) with false; [reflexivity|].
    symmetry. apply Nat.eqb_neq. lia.
Qed.

Lemma nalloc_pset st p v : nalloc (pset st p v) = nalloc st.
Proof. unfold nalloc, pset, set_pkgs. cbn [s_pkgs]. rewrite length_setp. reflexivity. Qed.

Section Upd.
  (* a counter update of package p (p = -1 or registered) that keeps the registered flag *)
  Variable st : state.
  Variable p : Z.
  Hypothesis Hp : pkg_ok st p = true.
  Variable f : pkg -> pkg.
  Hypothesis f_reg : forall q, p_reg (f q) = p_reg q.
  Variable g : state -> state.          (* what happens to the default counters when p = -1 *)
  Hypothesis g_pk : s_pkgs (g st) = s_pkgs st.
  Let st' := if p =? -1 then g st else pset st p (f (pget st p)).

  Lemma upd_is_reg q : is_reg st' q = is_reg st q.
  Proof.
    subst st'. destruct (Z.eqb_spec p (-1)) as [E|E].
    - unfold is_reg, nalloc, pget. rewrite g_pk. reflexivity.
    - pose proof (pkg_ok_reg st p Hp E) as Hr. unfold is_reg in Hr.
      unfold is_reg. rewrite nalloc_pset.
      destruct (0 <=? q) eqn:Eq; [|reflexivity]. destruct (q <? nalloc st) eqn:El; [|reflexivity]. cbn [andb].
      rewrite pget_pset by lia. destruct (Z.eqb_spec q p) as [->|_]; [|reflexivity]. rewrite f_reg. reflexivity.
  Qed.

  Lemma upd_pkg_ok q : pkg_ok st' q = pkg_ok st q.
  Proof. unfold pkg_ok. rewrite upd_is_reg. reflexivity. Qed.
End Upd.

Lemma add_mc_facts st p k : pkg_ok st p = true ->
  s_heap (add_mc st p k) = s_heap st /\ s_bad (add_mc st p k) = s_bad st /\
  (forall q, is_reg (add_mc st p k) q = is_reg st q) /\
  (forall q, pkg_ok st q = true -> status (add_mc st p k) q = status st q + (if q =? p then k else 0)).
Proof.
  intros Hp. unfold add_mc. split; [destruct (p =? -1); reflexivity|]. split; [destruct (p =? -1); reflexivity|]. split.
  - intros q. apply (upd_is_reg st p Hp (fun x => mkpkg (p_reg x) (p_mc x + k) (p_fc x) (p_rc x) (p_name x)) ltac:(reflexivity)
                       (fun s => set_def s (s_dmc s + k) (s_dfc s) (s_drc s)) ltac:(reflexivity)).
  - intros q Hq. unfold status. destruct (Z.eqb_spec p (-1)) as [->|E].
    + destruct (Z.eqb_spec q (-1)) as [->|E2]; cbn; [lia|]. unfold pget. cbn. lia.
    + pose proof (pkg_ok_reg st p Hp E) as Hr. unfold is_reg in Hr.
      destruct (Z.eqb_spec q (-1)) as [->|E2].
      * cbn [s_dmc s_dfc pset set_pkgs]. destruct (Z.eqb_spec (-1) p); lia.
      * pose proof (pkg_ok_reg st q Hq E2) as Hrq. unfold is_reg in Hrq.
        rewrite pget_pset by lia. destruct (Z.eqb_spec q p) as [->|_]; cbn [p_mc p_fc]; lia.
Qed.

Lemma add_fc_facts st p k : pkg_ok st p = true ->
  s_heap (add_fc st p k) = s_heap st /\ s_bad (add_fc st p k) = s_bad st /\
  (forall q, is_reg (add_fc st p k) q = is_reg st q) /\
  (forall q, pkg_ok st q = true -> status (add_fc st p k) q = status st q - (if q =? p then k else 0)).
Proof.
  intros Hp. unfold add_fc. split; [destruct (p =? -1); reflexivity|]. split; [destruct (p =? -1); reflexivity|]. split.
  - intros q. apply (upd_is_reg st p Hp (fun x => mkpkg (p_reg x) (p_mc x) (p_fc x + k) (p_rc x) (p_name x)) ltac:(reflexivity)
                       (fun s => set_def s (s_dmc s) (s_dfc s + k) (s_drc s)) ltac:(reflexivity)).
  - intros q Hq. unfold status. destruct (Z.eqb_spec p (-1)) as [->|E].
    + destruct (Z.eqb_spec q (-1)) as [->|E2]; cbn; [lia|]. unfold pget. cbn. lia.
    + pose proof (pkg_ok_reg st p Hp E) as Hr. unfold is_reg in Hr.
      destruct (Z.eqb_spec q (-1)) as [->|E2].
      * cbn [s_dmc s_dfc pset set_pkgs]. destruct (Z.eqb_spec (-1) p); lia.
      * pose proof (pkg_ok_reg st q Hq E2) as Hrq. unfold is_reg in Hrq.
        rewrite pget_pset by lia. destruct (Z.eqb_spec q p) as [->|_]; cbn [p_mc p_fc]; lia.
Qed.

Lemma add_rc_facts st p k : pkg_ok st p = true ->
  s_heap (add_rc st p k) = s_heap st /\ s_bad (add_rc st p k) = s_bad st /\
  (forall q, is_reg (add_rc st p k) q = is_reg st q) /\
  (forall q, pkg_ok st q = true -> status (add_rc st p k) q = status st q).
Proof.
  intros Hp. unfold add_rc. split; [destruct (p =? -1); reflexivity|]. split; [destruct (p =? -1); reflexivity|]. split.
  - intros q. apply (upd_is_reg st p Hp (fun x => mkpkg (p_reg x) (p_mc x) (p_fc x) (p_rc x + k) (p_name x)) ltac:(reflexivity)
                       (fun s => set_def s (s_dmc s) (s_dfc s) (s_drc s + k)) ltac:(reflexivity)).
  - intros q Hq. unfold status. destruct (Z.eqb_spec p (-1)) as [->|E].
    + destruct (Z.eqb_spec q (-1)) as [->|E2]; cbn; [lia|]. unfold pget. cbn. lia.
    + pose proof (pkg_ok_reg st p Hp E) as Hr. unfold is_reg in Hr.
      destruct (Z.eqb_spec q (-1)) as [->|E2].
      * cbn [s_dmc s_dfc pset set_pkgs]. lia.
      * pose proof (pkg_ok_reg st q Hq E2) as Hrq. unfold is_reg in Hrq.
        rewrite pget_pset by lia. destruct (Z.eqb_spec q p) as [->|_]; cbn [p_mc p_fc]; lia.
Qed.

(* a state that differs only in counters (same heap, same registered flags) keeps the heap invariant *)
Lemma HeapInv_same_heap st st' : HeapInv st -> s_heap st' = s_heap st -> s_bad st' = s_bad st ->
  (forall q, is_reg st' q = is_reg st q) -> HeapInv st'.
Proof.
  intros [A1 A2 A3 A4 A5 A6] Hh Hb Hr. constructor; rewrite ?Hh, ?Hb; try assumption.
  - intros h b Hg. apply (A3 h b). unfold hget in *. rewrite <- Hh. exact Hg.
  - intros h b Hg. unfold hget in Hg. rewrite Hh in Hg. destruct (A5 h b Hg) as [E|E]; [left; exact E|right].
    unfold pkg_ok in *. rewrite Hr. exact E.
Qed.

(* ---------- heap primitives ------------------------------------------------------------------------------------------ *)
Lemma live_In st h b : hget st h = Some b -> In b (live st).
Proof.
  unfold hget, live. generalize (s_heap st). intros H. revert h; induction H as [|x r IH]; intros h Hg.
  - rewrite lget_nil in Hg. discriminate.
  - destruct h as [|h].
    + unfold lget in Hg. cbn [nth] in Hg. subst x. cbn [flat_map]. left. reflexivity.
    + cbn [flat_map]. apply in_or_app. right. apply (IH h). exact Hg.
Qed.

Lemma raw_fresh_spec st raw n : raw_fresh st raw n = true ->
  0 <= raw /\ 0 <= n /\ raw + alloc_size ALIGN n < MAXA /\ forall h b, hget st h = Some b -> b_raw b <> raw.
Proof.
  unfold raw_fresh. intros H. apply andb_prop in H. destruct H as [H H4]. repeat split; try lia.
  intros h b Hg. rewrite forallb_forall in H4. specialize (H4 b (live_In st h b Hg)). lia.
Qed.

Lemma hget_app_old st x h : (h < length (s_heap st))%nat -> lget (s_heap st ++ [x]) h = lget (s_heap st) h.
Proof. intros. apply lget_app_l. assumption. Qed.

Lemma heap_append st nb : HeapInv st -> blk_wf nb -> (b_pkg nb = -2 \/ pkg_ok st (b_pkg nb) = true) ->
  (forall h b, hget st h = Some b -> b_raw b <> b_raw nb) ->
  HeapInv (set_heap st (s_heap st ++ [Some nb])) /\
  hget (set_heap st (s_heap st ++ [Some nb])) (length (s_heap st)) = Some nb /\
  forall p, cnt (s_heap st ++ [Some nb]) p = cnt (s_heap st) p + (if b_pkg nb =? p then 1 else 0).
Proof.
  intros [A1 A2 A3 A4 A5 A6] Hwf Htag Hfresh.
  assert (Hcase : forall h b, lget (s_heap st ++ [Some nb]) h = Some b ->
            ((h < length (s_heap st))%nat /\ lget (s_heap st) h = Some b) \/ (h = length (s_heap st) /\ b = nb)).
  { intros h b Hg. destruct (Nat.lt_ge_cases h (length (s_heap st))) as [Hl|Hl].
    - left. split; [exact Hl|]. rewrite lget_app_l in Hg by exact Hl. exact Hg.
    - right. destruct (Nat.eq_dec h (length (s_heap st))) as [->|Hne].
      + rewrite lget_app_len in Hg. inversion Hg. auto.
      + rewrite lget_beyond in Hg by (rewrite app_length; simpl; lia). discriminate. }
  split; [|split].
  - constructor; unfold hget; cbn [set_heap s_heap s_bad]; try assumption.
    + rewrite lget_app_l by lia. exact A1.
    + rewrite app_length. simpl. lia.
    + intros h b Hg. destruct (Hcase h b Hg) as [[_ Ho]|[_ ->]]; [apply (A3 h b Ho)|exact Hwf].
    + intros h1 h2 b1 b2 G1 G2 Hr.
      destruct (Hcase h1 b1 G1) as [[L1 O1]|[E1 ->]]; destruct (Hcase h2 b2 G2) as [[L2 O2]|[E2 ->]].
      * apply (A4 h1 h2 b1 b2 O1 O2 Hr).
      * exfalso. apply (Hfresh h1 b1 O1). exact Hr.
      * exfalso. apply (Hfresh h2 b2 O2). symmetry. exact Hr.
      * congruence.
    + intros h b Hg. destruct (Hcase h b Hg) as [[_ Ho]|[_ ->]]; [apply (A5 h b Ho)|exact Htag].
  - unfold hget. cbn [set_heap s_heap]. apply lget_app_len.
  - intros p. rewrite cnt_app. cbn [cnt]. lia.
Qed.

Lemma heap_replace st h b b' : HeapInv st -> hget st h = Some b -> blk_wf b' -> b_pkg b' = b_pkg b -> b_raw b' = b_raw b ->
  HeapInv (set_heap st (lset (s_heap st) h (Some b'))) /\
  forall p, cnt (lset (s_heap st) h (Some b')) p = cnt (s_heap st) p.
Proof.
  intros [A1 A2 A3 A4 A5 A6] Hg Hwf Hp Hr. unfold hget in Hg.
  pose proof (lget_some_lt _ _ _ Hg) as Hlt.
  assert (Hh0 : h <> O) by (intros ->; congruence).
  split.
  - constructor; unfold hget; cbn [set_heap s_heap s_bad]; try assumption.
    + rewrite lget_lset_other by exact Hh0. exact A1.
    + rewrite length_lset by exact Hlt. exact A2.
    + intros h1 b1 G. rewrite lget_lset in G. destruct (Nat.eqb_spec h h1) as [->|_]; [inversion G; subst; exact Hwf|apply (A3 h1 b1 G)].
    + intros h1 h2 b1 b2 G1 G2 E. rewrite lget_lset in G1, G2.
      destruct (Nat.eqb_spec h h1) as [<-|N1]; destruct (Nat.eqb_spec h h2) as [<-|N2]; try reflexivity.
      * inversion G1; subst b1. apply (A4 h h2 b b2 Hg G2). congruence.
      * inversion G2; subst b2. apply (A4 h1 h b1 b G1 Hg). congruence.
      * apply (A4 h1 h2 b1 b2 G1 G2 E).
    + intros h1 b1 G. rewrite lget_lset in G. destruct (Nat.eqb_spec h h1) as [->|_].
      * inversion G; subst b1. rewrite Hp. apply (A5 h1 b Hg).
      * apply (A5 h1 b1 G).
  - intros p. rewrite cnt_lset by exact Hlt. rewrite Hg. cbn [cnt]. rewrite Hp. lia.
Qed.

Lemma heap_remove st h b : HeapInv st -> hget st h = Some b ->
  HeapInv (set_heap st (lset (s_heap st) h None)) /\
  forall p, cnt (lset (s_heap st) h None) p = cnt (s_heap st) p - (if b_pkg b =? p then 1 else 0).
Proof.
  intros [A1 A2 A3 A4 A5 A6] Hg. unfold hget in Hg.
  pose proof (lget_some_lt _ _ _ Hg) as Hlt.
  assert (Hh0 : h <> O) by (intros ->; congruence).
  split.
  - constructor; unfold hget; cbn [set_heap s_heap s_bad]; try assumption.
    + rewrite lget_lset_other by exact Hh0. exact A1.
    + rewrite length_lset by exact Hlt. exact A2.
    + intros h1 b1 G. rewrite lget_lset in G. destruct (Nat.eqb_spec h h1) as [->|_]; [discriminate|apply (A3 h1 b1 G)].
    + intros h1 h2 b1 b2 G1 G2 E. rewrite lget_lset in G1, G2.
      destruct (Nat.eqb_spec h h1) as [<-|N1]; [discriminate|]. destruct (Nat.eqb_spec h h2) as [<-|N2]; [discriminate|].
      apply (A4 h1 h2 b1 b2 G1 G2 E).
    + intros h1 b1 G. rewrite lget_lset in G. destruct (Nat.eqb_spec h h1) as [->|_]; [discriminate|apply (A5 h1 b1 G)].
  - intros p. rewrite cnt_lset by exact Hlt. rewrite Hg. cbn [cnt]. lia.
Qed.

(* sc_free_aligned finds its raw block through the word in front of the user pointer *)
Lemma free_aligned_eq st h b : HeapInv st -> hget st h = Some b ->
  free_aligned st h = set_heap st (lset (s_heap st) h None).
Proof.
  intros HI Hg. unfold free_aligned. rewrite Hg.
  destruct (H_wf _ HI h b Hg) as (_ & _ & _ & _ & W1 & _). rewrite W1.
  rewrite (find_raw_unique _ h b (H_dist _ HI) Hg). reflexivity.
Qed.

(* ---------- combining heap and counter changes --------------------------------------------------------------------- *)
Lemma Inv_intro st st' : Inv st -> HeapInv st' -> (forall q, is_reg st' q = is_reg st q) ->
  (forall p, pkg_ok st p = true -> status st' p - status st p = cnt (s_heap st') p - cnt (s_heap st) p) -> Inv st'.
Proof.
  intros [HI HC] HI' Hr Hd. split; [exact HI'|]. intros p Hp.
  assert (Hp0 : pkg_ok st p = true) by (unfold pkg_ok in *; rewrite Hr in Hp; exact Hp).
  specialize (Hd p Hp0). specialize (HC p Hp0). lia.
Qed.

Lemma status_set_heap st H q : status (set_heap st H) q = status st q.
Proof. reflexivity. Qed.
Lemma heap_set_heap st H : s_heap (set_heap st H) = H.
Proof. reflexivity. Qed.

Lemma Inv_push_out st o : Inv st -> Inv (push_out st o).
Proof.
  intros [[A1 A2 A3 A4 A5 A6] HC]. split; [constructor; assumption|exact HC].
Qed.

Lemma ptr_nonzero raw : 0 <= raw -> (aligned_ptr ALIGN raw =? 0) = false.
Proof. intros. pose proof (uoff_range raw). lia. Qed.

Section Ops.
  Variable junk : nat -> Z -> Z.

  (* the block sc_malloc_aligned creates *)
  Definition fresh_blk (st : state) (tag raw n : Z) : blk :=
    let h := length (s_heap st) in
    let ptr := aligned_ptr ALIGN raw in
    mkblk tag raw n (upd (upd (mkjunk_from junk h 0 (Z.to_nat (alloc_size ALIGN n))) (ptr - raw - 8) (le64_enc raw)) (ptr - raw - 16) (le64_enc n)).

  Lemma malloc_aligned_eq st tag n raw :
    malloc_aligned junk st tag ALIGN n raw =
    (set_heap st (s_heap st ++ [Some (fresh_blk st tag raw n)]), length (s_heap st), aligned_ptr ALIGN raw).
  Proof. reflexivity. Qed.

  Lemma fresh_blk_wf st tag raw n : raw_fresh st raw n = true -> blk_wf (fresh_blk st tag raw n).
  Proof.
    intros Hf. destruct (raw_fresh_spec _ _ _ Hf) as (H1 & H2 & H3 & _). apply fresh_block_wf; assumption.
  Qed.

  Lemma malloc_aligned_Inv st tag n raw : HeapInv st -> pkg_ok st tag = true -> raw_fresh st raw n = true ->
    let st1 := set_heap st (s_heap st ++ [Some (fresh_blk st tag raw n)]) in
    HeapInv st1 /\ hget st1 (length (s_heap st)) = Some (fresh_blk st tag raw n) /\
    forall p, cnt (s_heap st1) p = cnt (s_heap st) p + (if tag =? p then 1 else 0).
  Proof.
    intros HI Hp Hf st1. destruct (raw_fresh_spec _ _ _ Hf) as (_ & _ & _ & Hfr).
    apply (heap_append st (fresh_blk st tag raw n) HI (fresh_blk_wf st tag raw n Hf)); [right; exact Hp|exact Hfr].
  Qed.

  Lemma sc_malloc_Inv st p n raw : Inv st -> pkg_ok st p = true -> raw_fresh st raw n = true ->
    Inv (fst (fst (sc_malloc junk st p n raw))).
  Proof.
    intros HInv Hp Hf. destruct (raw_fresh_spec _ _ _ Hf) as (Hr0 & Hn0 & _).
    unfold sc_malloc. rewrite malloc_aligned_eq. cbv beta iota. rewrite (ptr_nonzero raw Hr0).
    set (st1 := set_heap st (s_heap st ++ [Some (fresh_blk st p raw n)])).
    replace (if 0 <? n then add_mc st1 p 1 else add_mc st1 p 1) with (add_mc st1 p 1) by (destruct (0 <? n); reflexivity).
    cbn [fst].
    destruct (malloc_aligned_Inv st p n raw (proj1 HInv) Hp Hf) as (HI1 & _ & Hc). fold st1 in HI1, Hc.
    assert (Hp1 : pkg_ok st1 p = true) by exact Hp.
    destruct (add_mc_facts st1 p 1 Hp1) as (F1 & F2 & F3 & F4).
    apply (Inv_intro st _ HInv).
    - apply (HeapInv_same_heap st1 _ HI1 F1 F2 F3).
    - intros q. rewrite F3. reflexivity.
    - intros q Hq. rewrite F1, (F4 q Hq), (Hc q). replace (status st1 q) with (status st q) by reflexivity.
      destruct (Z.eqb_spec q p), (Z.eqb_spec p q); lia.
  Qed.

  Lemma sc_calloc_Inv st p nm sz raw : Inv st -> pkg_ok st p = true -> raw_fresh st raw (nm * sz) = true ->
    Inv (fst (fst (sc_calloc junk st p nm sz raw))).
  Proof.
    intros HInv Hp Hf. destruct (raw_fresh_spec _ _ _ Hf) as (Hr0 & Hn0 & _).
    unfold sc_calloc. cbv zeta. rewrite malloc_aligned_eq. cbv beta iota. rewrite (ptr_nonzero raw Hr0).
    set (n := nm * sz) in *.
    set (st1 := set_heap st (s_heap st ++ [Some (fresh_blk st p raw n)])).
    destruct (malloc_aligned_Inv st p n raw (proj1 HInv) Hp Hf) as (HI1 & Hg1 & Hc). fold st1 in HI1, Hg1, Hc.
    rewrite Hg1.
    set (b := fresh_blk st p raw n) in *.
    set (b' := with_mem b (upd (b_mem b) (aligned_ptr ALIGN raw - raw) (repeat 0 (Z.to_nat n)))).
    set (st2 := set_heap st1 (lset (s_heap st1) (length (s_heap st)) (Some b'))).
    replace (if 0 <? n then add_mc st2 p 1 else add_mc st2 p 1) with (add_mc st2 p 1) by (destruct (0 <? n); reflexivity).
    cbn [fst].
    assert (Hwf' : blk_wf b').
    { pose proof (user_write_wf b 0 (repeat 0 (Z.to_nat n)) (fresh_blk_wf st p raw n Hf) ltac:(lia)) as HW.
      rewrite len_repeat in HW. specialize (HW ltac:(subst b; cbn [fresh_blk b_size]; lia)).
      replace (b_uoff b + 0) with (aligned_ptr ALIGN raw - raw) in HW by (subst b; unfold b_uoff, b_ptr; cbn [fresh_blk b_raw]; lia).
      exact HW. }
    destruct (heap_replace st1 _ b b' HI1 Hg1 Hwf' eq_refl eq_refl) as (HI2 & Hc2). fold st2 in HI2.
    assert (Hp2 : pkg_ok st2 p = true) by exact Hp.
    destruct (add_mc_facts st2 p 1 Hp2) as (F1 & F2 & F3 & F4).
    apply (Inv_intro st _ HInv).
    - apply (HeapInv_same_heap st2 _ HI2 F1 F2 F3).
    - intros q. rewrite F3. reflexivity.
    - intros q Hq. rewrite F1, (F4 q Hq). replace (s_heap st2) with (lset (s_heap st1) (length (s_heap st)) (Some b')) by reflexivity.
      rewrite (Hc2 q), (Hc q). replace (status st2 q) with (status st q) by reflexivity.
      subst b. cbn [fresh_blk b_pkg]. destruct (Z.eqb_spec q p), (Z.eqb_spec p q); lia.
  Qed.

  Lemma owned_spec st p h : owned st p h = true -> exists b, hget st h = Some b /\ b_pkg b = p.
  Proof. unfold owned. destruct (hget st h) as [b|]; [|discriminate]. intros H. exists b. split; [reflexivity|lia]. Qed.

  Lemma sc_free_Inv st p h : Inv st -> pkg_ok st p = true -> match h with O => True | S _ => owned st p h = true end ->
    Inv (sc_free st p h).
  Proof.
    intros HInv Hp Ho. unfold sc_free. destruct h as [|h']; [exact HInv|]. set (h := S h') in *.
    destruct (owned_spec _ _ _ Ho) as (b & Hg & Hb).
    destruct (add_fc_facts st p 1 Hp) as (F1 & F2 & F3 & F4).
    set (st1 := add_fc st p 1) in *.
    assert (HI1 : HeapInv st1) by (apply (HeapInv_same_heap st _ (proj1 HInv) F1 F2 F3)).
    assert (Hg1 : hget st1 h = Some b) by (unfold hget; rewrite F1; exact Hg).
    rewrite (free_aligned_eq st1 h b HI1 Hg1).
    destruct (heap_remove st1 h b HI1 Hg1) as (HI2 & Hc2).
    apply (Inv_intro st _ HInv HI2).
    - intros q. exact (F3 q).
    - intros q Hq. change (status (set_heap st1 (lset (s_heap st1) h None)) q) with (status st1 q).
      change (s_heap (set_heap st1 (lset (s_heap st1) h None))) with (lset (s_heap st1) h None).
      rewrite (Hc2 q), F1, (F4 q Hq), Hb. destruct (Z.eqb_spec q p), (Z.eqb_spec p q); lia.
  Qed.

  Lemma len_user_sub b m : blk_wf b -> 0 <= m <= b_size b -> len (sub (b_mem b) (b_uoff b) m) = m.
  Proof.
    intros (H1 & H2 & H3 & H4 & _) Hm. pose proof (uoff_range (b_raw b)). unfold b_uoff, b_ptr.
    apply len_sub; unfold alloc_size, EXTRA, ALIGN in *; lia.
  Qed.

  (* the block sc_realloc_aligned leaves behind: fresh block with the first min (old, new) user bytes of the old one *)
  Definition realloc_blk (st : state) (b : blk) (tag raw n : Z) : blk :=
    let nb := fresh_blk st tag raw n in
    with_mem nb (upd (b_mem nb) (aligned_ptr ALIGN raw - raw) (sub (b_mem b) (b_uoff b) (Z.min (word_m2 b) n))).

  Lemma realloc_aligned_eq st p h b n raw : HeapInv st -> hget st h = Some b -> raw_fresh st raw n = true -> pkg_ok st p = true ->
    realloc_aligned junk st p h ALIGN n raw =
    (set_heap st (lset (s_heap st ++ [Some (realloc_blk st b p raw n)]) h None), length (s_heap st), aligned_ptr ALIGN raw) /\
    blk_wf (realloc_blk st b p raw n).
  Proof.
    intros HI Hg Hf Hp. destruct (raw_fresh_spec _ _ _ Hf) as (Hr0 & Hn0 & Hmax & Hfr).
    pose proof (H_wf _ HI h b Hg) as Hwb. pose proof Hwb as (B1 & B2 & B3 & B4 & B5 & B6).
    assert (Hlt : (h < length (s_heap st))%nat) by (apply (lget_some_lt _ _ _ Hg)).
    destruct (malloc_aligned_Inv st p n raw HI Hp Hf) as (HI1 & Hg1 & Hc1).
    set (st1 := set_heap st (s_heap st ++ [Some (fresh_blk st p raw n)])) in *.
    set (nb := fresh_blk st p raw n) in *.
    assert (Hwn : blk_wf (realloc_blk st b p raw n)).
    { unfold realloc_blk. fold nb. rewrite B6.
      pose proof (user_write_wf nb 0 (sub (b_mem b) (b_uoff b) (Z.min (b_size b) n)) (fresh_blk_wf st p raw n Hf) ltac:(lia)) as HW.
      rewrite (len_user_sub b _ Hwb) in HW by lia. specialize (HW ltac:(subst nb; cbn [fresh_blk b_size]; lia)).
      replace (b_uoff nb + 0) with (aligned_ptr ALIGN raw - raw) in HW by (subst nb; unfold b_uoff, b_ptr; cbn [fresh_blk b_raw]; lia).
      exact HW. }
    split; [|exact Hwn].
    unfold realloc_aligned. rewrite Hg. rewrite malloc_aligned_eq. cbv beta iota zeta. fold nb. fold st1. rewrite Hg1.
    change (with_mem nb (upd (b_mem nb) (aligned_ptr ALIGN raw - raw) (sub (b_mem b) (b_uoff b) (Z.min (word_m2 b) n))))
      with (realloc_blk st b p raw n).
    set (st2 := set_heap st1 (lset (s_heap st1) (length (s_heap st)) (Some (realloc_blk st b p raw n)))).
    destruct (heap_replace st1 _ nb (realloc_blk st b p raw n) HI1 Hg1 Hwn eq_refl eq_refl) as (HI2 & _). fold st2 in HI2.
    assert (Hheap2 : s_heap st2 = s_heap st ++ [Some (realloc_blk st b p raw n)]).
    { subst st2 st1. cbn [set_heap s_heap]. clear. induction (s_heap st) as [|x r IH]; [reflexivity|]. cbn [app length lset]. rewrite IH. reflexivity. }
    assert (Hg2 : hget st2 h = Some b).
    { unfold hget. rewrite Hheap2. rewrite lget_app_l by exact Hlt. exact Hg. }
    rewrite (free_aligned_eq st2 h b HI2 Hg2). rewrite Hheap2. reflexivity.
  Qed.

  Lemma lset_app_l {A} (l m : list (option A)) h v : (h < length l)%nat -> lset (l ++ m) h v = lset l h v ++ m.
  Proof. revert h; induction l as [|x r IH]; intros [|h] Hh; simpl in *; try lia; [reflexivity|]. rewrite IH by lia. reflexivity. Qed.

  Lemma realloc_aligned_Inv st p h b n raw : Inv st -> hget st h = Some b -> b_pkg b = p -> raw_fresh st raw n = true -> pkg_ok st p = true ->
    Inv (fst (fst (realloc_aligned junk st p h ALIGN n raw))).
  Proof.
    intros HInv Hg Hb Hf Hp. destruct (realloc_aligned_eq st p h b n raw (proj1 HInv) Hg Hf Hp) as [-> Hwn]. cbn [fst].
    destruct (raw_fresh_spec _ _ _ Hf) as (_ & _ & _ & Hfr).
    assert (Hlt : (h < length (s_heap st))%nat) by (apply (lget_some_lt _ _ _ Hg)).
    set (nb := realloc_blk st b p raw n) in *.
    destruct (heap_append st nb (proj1 HInv) Hwn (or_intror Hp) Hfr) as (HI1 & Hg1 & Hc1).
    set (st1 := set_heap st (s_heap st ++ [Some nb])) in *.
    assert (Hgb : hget st1 h = Some b) by (unfold hget; subst st1; cbn [set_heap s_heap]; rewrite lget_app_l by exact Hlt; exact Hg).
    destruct (heap_remove st1 h b HI1 Hgb) as (HI2 & Hc2).
    apply (Inv_intro st _ HInv HI2).
    - intros q. reflexivity.
    - intros q Hq. change (s_heap (set_heap st1 (lset (s_heap st1) h None))) with (lset (s_heap st1) h None).
      rewrite (Hc2 q). change (s_heap st1) with (s_heap st ++ [Some nb]). rewrite (Hc1 q).
      change (b_pkg nb) with p. rewrite Hb.
      change (status (set_heap st1 (lset (s_heap st ++ [Some nb]) h None)) q) with (status st q). lia.
  Qed.

  Lemma sc_realloc_Inv st p h n raw : Inv st -> pkg_ok st p = true -> raw_fresh st raw n = true ->
    match h with O => True | S _ => owned st p h = true end -> Inv (fst (sc_realloc junk st p h n raw)).
  Proof.
    intros HInv Hp Hf Ho. unfold sc_realloc. destruct h as [|h'].
    - pose proof (sc_malloc_Inv st p n raw HInv Hp Hf) as HM. destruct (sc_malloc junk st p n raw) as [[st1 h1] o]. exact HM.
    - destruct (n =? 0) eqn:En.
      + cbn [fst]. apply sc_free_Inv; assumption.
      + destruct (owned_spec _ _ _ Ho) as (b & Hg & Hb).
        pose proof (realloc_aligned_Inv st p (S h') b n raw HInv Hg Hb Hf Hp) as HR.
        destruct (realloc_aligned junk st p (S h') ALIGN n raw) as [[st1 h1] ret]. exact HR.
  Qed.

  Lemma sc_strdup_Inv st p s raw : Inv st -> pkg_ok st p = true ->
    match s with None => True | Some str => raw_fresh st raw (len str + 1) = true end -> Inv (fst (sc_strdup junk st p s raw)).
  Proof.
    intros HInv Hp Hf. unfold sc_strdup. destruct s as [str|]; [|exact HInv]. cbv zeta.
    pose proof (sc_malloc_Inv st p (len str + 1) raw HInv Hp Hf) as HM.
    assert (Hblk : forall st1 h o, sc_malloc junk st p (len str + 1) raw = (st1, h, o) ->
              match hget st1 h with Some b => b_size b = len str + 1 | None => True end).
    { intros st1 h o E. destruct (raw_fresh_spec _ _ _ Hf) as (Hr0 & _).
      unfold sc_malloc in E. rewrite malloc_aligned_eq in E. cbv beta iota in E. rewrite (ptr_nonzero raw Hr0) in E.
      destruct (malloc_aligned_Inv st p (len str + 1) raw (proj1 HInv) Hp Hf) as (_ & Hg1 & _).
      set (st0 := set_heap st (s_heap st ++ [Some (fresh_blk st p raw (len str + 1))])) in *.
      assert (E' : (add_mc st0 p 1, length (s_heap st)) = (st1, h)) by (destruct (0 <? len str + 1); inversion E; reflexivity).
      inversion E'; subst st1 h. destruct (add_mc_facts st0 p 1 Hp) as (F1 & _). unfold hget in *. rewrite F1, Hg1. reflexivity. }
    destruct (sc_malloc junk st p (len str + 1) raw) as [[st1 h] o] eqn:E. cbn [fst] in HM. specialize (Hblk st1 h o eq_refl).
    destruct (hget st1 h) as [b|] eqn:Hg; cbn [fst].
    - assert (Hwf' : blk_wf (with_mem b (upd (b_mem b) (b_uoff b) (str ++ [0])))).
      { pose proof (user_write_wf b 0 (str ++ [0]) (H_wf _ (proj1 HM) h b Hg) ltac:(lia)) as HW.
        rewrite len_app in HW. change (len [0]) with 1 in HW. rewrite Z.add_0_r in HW. apply HW. lia. }
      destruct (heap_replace st1 h b _ (proj1 HM) Hg Hwf' eq_refl eq_refl) as (HI2 & Hc2).
      apply (Inv_intro st1 _ HM HI2).
      + intros q. reflexivity.
      + intros q Hq. rewrite status_set_heap, heap_set_heap, (Hc2 q). lia.
    - (* cannot happen, but the invariant only needs the flag: derive a contradiction from sc_malloc's block *)
      exfalso. destruct (raw_fresh_spec _ _ _ Hf) as (Hr0 & _).
      unfold sc_malloc in E. rewrite malloc_aligned_eq in E. cbv beta iota in E. rewrite (ptr_nonzero raw Hr0) in E.
      destruct (malloc_aligned_Inv st p (len str + 1) raw (proj1 HInv) Hp Hf) as (_ & Hg1 & _).
      set (st0 := set_heap st (s_heap st ++ [Some (fresh_blk st p raw (len str + 1))])) in *.
      assert (E' : (add_mc st0 p 1, length (s_heap st)) = (st1, h)) by (destruct (0 <? len str + 1); inversion E; reflexivity).
      inversion E'; subst st1 h. destruct (add_mc_facts st0 p 1 Hp) as (F1 & _). unfold hget in *. rewrite F1, Hg1 in Hg. discriminate.
  Qed.

  Lemma write_Inv st h off d b : Inv st -> hget st h = Some b -> 0 <= off -> off + len d <= b_size b ->
    Inv (set_heap st (lset (s_heap st) h (Some (with_mem b (upd (b_mem b) (b_uoff b + off) d))))).
  Proof.
    intros HInv Hg Ho Hd.
    destruct (heap_replace st h b _ (proj1 HInv) Hg (user_write_wf b off d (H_wf _ (proj1 HInv) h b Hg) Ho Hd) eq_refl eq_refl) as (HI2 & Hc2).
    apply (Inv_intro st _ HInv HI2).
    - intros q. reflexivity.
    - intros q Hq. rewrite status_set_heap, heap_set_heap, (Hc2 q). lia.
  Qed.
End Ops.
