(* C10 - tie T1: the hand-written model of the allocation layer (AllocModel.v) computes exactly what the definitions
   GENERATED from /repo/src/sc.c (Gen/AllocC10.v, regenerated on every run) compute:
   the padding allocator's pointer arithmetic (size handed to malloc, shift, returned pointer, the two bookkeeping words'
   addresses and values), the words sc_free_aligned / sc_realloc_aligned read back, the SC_MIN of the copy, the alignment
   constant and the calloc size, and sc_package_register's first-free-slot search, growth test and new table size.
   An edit of that arithmetic in sc.c changes a generated definition and one of these lemmas stops checking. *)
From Coq Require Import ZArith Lia List Bool.
From ScV Require Import Base.CInt Gen.AllocC10 C10.AllocBase C10.AllocModel C10.AllocArith.
Import ListNotations.
Local Open Scope Z_scope.

(* ---------- fixed-width helpers ------------------------------------------------------------------------------------ *)
Lemma s64_small x : 0 <= x < 2 ^ 62 -> s64 x = x.
Proof. intros H. apply s64_id. unfold in_s64, M64. change (2 ^ 62) with 4611686018427387904 in H. lia. Qed.
Lemma u64_small x : 0 <= x < 2 ^ 62 -> u64 x = x.
Proof. intros H. apply u64_id. unfold M64. change (2 ^ 62) with 4611686018427387904 in H. lia. Qed.
Lemma s32_small x : 0 <= x < 2 ^ 31 -> s32 x = x.
Proof. intros H. apply s32_id. unfold in_s32, M32. change (2 ^ 31) with 2147483648 in H. lia. Qed.
Lemma cmod_nonneg a b : 0 <= a -> 0 < b -> cmod a b = a mod b.
Proof. intros. unfold cmod. apply Z.rem_mod_nonneg; lia. Qed.

(* ---------- sc_malloc_aligned ---------------------------------------------------------------------------------------- *)
(* for every alignment > 0, size >= 0 and address malloc may return (the raw block ends below 2^62):
   the generated body of sc_malloc_aligned asks malloc for alloc_size bytes, returns aligned_ptr, stores the raw pointer
   in the word at ptr - 8 and the size in the word at ptr - 16 *)
Lemma gen_malloc_aligned al size raw : 0 < al -> 0 <= size -> 0 <= raw -> raw + alloc_size al size < MAXA ->
  sc_malloc_aligned_arith al size raw =
  (alloc_size al size, aligned_ptr al raw - 8, raw, aligned_ptr al raw - 16, size, aligned_ptr al raw).
Proof.
  intros Hal Hs Hr Hb. unfold alloc_size, MAXA, EXTRA in Hb.
  unfold sc_malloc_aligned_arith. cbv zeta.
  change (2 * 8) with 16. rewrite (u64_small 16) by lia. rewrite (s64_small 16) by lia.
  rewrite (s64_small al) by lia. rewrite (u64_small 16) by lia.
  rewrite (u64_small (16 + size)) by lia. rewrite (u64_small (16 + size + al)) by lia.
  rewrite (s64_small raw) by lia. rewrite (s64_small (raw + 16)) by lia.
  rewrite (cmod_nonneg (raw + 16) al) by lia.
  pose proof (Z.mod_pos_bound (raw + 16) al Hal) as Hm.
  rewrite (s64_small (al - (raw + 16) mod al)) by lia.
  rewrite (cmod_nonneg (al - (raw + 16) mod al) al) by lia.
  pose proof (Z.mod_pos_bound (al - (raw + 16) mod al) al Hal) as Hm2.
  rewrite (s64_small (16 + (al - (raw + 16) mod al) mod al)) by lia.
  unfold alloc_size, aligned_ptr, shift_of, EXTRA. cbv zeta.
  repeat f_equal; lia.
Qed.

(* the model's sc_malloc_aligned is the generated one: block size, returned pointer and both word stores *)
Lemma gen_malloc_aligned_model junk st tag al size raw : 0 < al -> 0 <= size -> 0 <= raw -> raw + alloc_size al size < MAXA ->
  malloc_aligned junk st tag al size raw =
  let '(asz, a1, v1, a2, v2, p) := sc_malloc_aligned_arith al size raw in
  let h := length (s_heap st) in
  (set_heap st (s_heap st ++ [Some (mkblk tag raw size
      (upd (upd (mkjunk_from junk h 0 (Z.to_nat asz)) (a1 - raw) (le64_enc v1)) (a2 - raw) (le64_enc v2)))]), h, p).
Proof.
  intros. rewrite gen_malloc_aligned by assumption. unfold malloc_aligned. cbv zeta.
  replace (aligned_ptr al raw - raw - 8) with (aligned_ptr al raw - 8 - raw) by lia.
  replace (aligned_ptr al raw - raw - 16) with (aligned_ptr al raw - 16 - raw) by lia.
  reflexivity.
Qed.

(* hence C10_aligned / C10_layout / C10_aligned_least hold of the GENERATED definition: the pointer it returns is a multiple
   of the alignment, the least one that leaves room for the two words; the words lie inside the raw block directly in
   front of the pointer, hold the raw pointer and the size; the user area ends before the end of the raw block *)
Lemma gen_malloc_aligned_props al size raw : 0 < al -> 0 <= size -> 0 <= raw -> raw + alloc_size al size < MAXA ->
  let '(asz, a1, v1, a2, v2, p) := sc_malloc_aligned_arith al size raw in
  p mod al = 0 /\ raw <= a2 /\ a2 + 8 = a1 /\ a1 + 8 = p /\ p + size < raw + asz /\ v1 = raw /\ v2 = size /\
  (forall q, raw + 16 <= q -> q mod al = 0 -> p <= q).
Proof.
  intros Hal Hs Hr Hb. rewrite gen_malloc_aligned by assumption.
  pose proof (aligned_layout al raw size Hal Hs) as L. cbv zeta in L. unfold EXTRA in L.
  repeat split; try lia.
  - apply aligned_ptr_mod; exact Hal.
  - intros q Hq Hm. apply aligned_least; [exact Hal|unfold EXTRA; exact Hq|exact Hm].
Qed.

(* ---------- sc_free_aligned / sc_realloc_aligned ----------------------------------------------------------------------- *)
(* the 8-byte word at ABSOLUTE address a, read from the modelled memory of block b *)
Definition blk_word (b : blk) (a : Z) : Z := le_dec (sub (b_mem b) (a - b_raw b) 8).

(* the pointer the model hands to free () is the one the generated sc_free_aligned hands to free () *)
Lemma gen_free_aligned_model b al : word_m1 b = sc_free_aligned_arith (blk_word b) (b_ptr b) al.
Proof.
  unfold sc_free_aligned_arith, word_m1, blk_word, b_uoff. cbv zeta. do 2 f_equal. lia.
Qed.

(* old size, copy length (SC_MIN), copy source / destination, the pointer released, the returned pointer *)
Lemma gen_realloc_aligned_model b al size np :
  sc_realloc_aligned_arith (blk_word b) (b_ptr b) al size np =
  (al, size, np, b_ptr b, Z.min (word_m2 b) size, b_ptr b, al, np).
Proof.
  unfold sc_realloc_aligned_arith. cbv zeta.
  assert (E : blk_word b (b_ptr b + -2 * 8) = word_m2 b).
  { unfold word_m2, blk_word, b_uoff. do 2 f_equal. lia. }
  rewrite E. repeat f_equal.
  destruct (Z.ltb_spec (word_m2 b) size); lia.
Qed.

(* ---------- the arguments sc_malloc / sc_calloc / sc_realloc / sc_free pass on ------------------------------------------------ *)
Lemma gen_align : ALIGN = alloc_align_malloc /\ ALIGN = alloc_align_calloc /\ ALIGN = alloc_align_realloc /\ ALIGN = alloc_align_free.
Proof. repeat split; reflexivity. Qed.

Lemma gen_calloc_size nm sz : 0 <= nm * sz < MAXA -> alloc_calloc_size nm sz = nm * sz.
Proof. intros. unfold alloc_calloc_size. apply u64_small. exact H. Qed.

(* ---------- sc_package_register ------------------------------------------------------------------------------------------ *)
(* p->is_registered read from the modelled table that starts at (element) address B *)
Definition reg_at (l : list pkg) (B : Z) (p : Z) : Z := b2z (p_reg (nth (Z.to_nat (p - B)) l pkg0)).

Lemma first_free_ge l : forall i k, first_free l i = Some k -> (i <= k < i + length l)%nat.
Proof.
  induction l as [|q r IH]; intros i k H; simpl in H; [discriminate|].
  destruct (p_reg q).
  - apply IH in H. simpl. lia.
  - injection H as <-. simpl. lia.
Qed.

(* the generated search loop over a table of n slots, started at slot i with the slots l = table[i ..] still ahead *)
Lemma register_loop_spec B isreg n : forall l (i : nat) fuel np nid p,
  (length l < fuel)%nat -> Z.of_nat i + Z.of_nat (length l) = n -> n < 2 ^ 30 ->
  (forall k, (k < length l)%nat -> isreg (B + Z.of_nat (i + k)) = b2z (p_reg (nth k l pkg0))) ->
  exists p',
  register_slot_loop1 fuel isreg n B (Z.of_nat i) np nid p =
  Some (inl (match first_free l i with
             | Some k => (Z.of_nat k, B + Z.of_nat k, Z.of_nat k, p')
             | None => (n, np, nid, p')
             end)).
Proof.
  induction l as [|q r IH]; intros i fuel np nid p Hf Hn Hb Hr.
  - destruct fuel as [|fuel]; [simpl in Hf; lia|]. exists p. cbn [register_slot_loop1 first_free].
    simpl in Hn. replace (Z.of_nat i) with n by lia. rewrite Z.ltb_irrefl. reflexivity.
  - destruct fuel as [|fuel]; [simpl in Hf; lia|]. cbn [register_slot_loop1 first_free].
    cbn [length] in Hn, Hf.
    assert (Hlt : Z.of_nat i <? n = true) by (apply Z.ltb_lt; lia).
    rewrite Hlt.
    assert (Hq : isreg (B + Z.of_nat i) = b2z (p_reg q)).
    { specialize (Hr O ltac:(cbn [length]; lia)). rewrite Nat.add_0_r in Hr. exact Hr. }
    rewrite Hq. destruct (p_reg q) eqn:Eq.
    + change (negb (z2b (b2z true))) with false. cbv iota.
      change (2 ^ 30) with 1073741824 in Hb.
      rewrite s32_small by (change (2 ^ 31) with 2147483648; lia).
      replace (Z.of_nat i + 1) with (Z.of_nat (S i)) by lia.
      apply IH; [lia|lia|exact Hb|].
      intros k Hk. specialize (Hr (S k) ltac:(cbn [length]; lia)).
      replace (S i + k)%nat with (i + S k)%nat by lia. exact Hr.
    + change (negb (z2b (b2z false))) with true. cbv iota.
      exists (B + Z.of_nat i). reflexivity.
Qed.

(* sc_package_register, from the search for an unused slot to the growth of the table: for EVERY state of the table
   (below 2^30 slots), every base address B of the table, every sizeof (sc_package_t) and every address rr realloc may return,
   the generated code finds the id the model returns, and the table size afterwards is the model's; the table is
   reallocated exactly when the model grows it, with (2 n + 1) * sizeof (sc_package_t) bytes *)
Lemma gen_register_model st name B sz rr : nalloc st < 2 ^ 30 -> 0 <= sz < 2 ^ 31 ->
  let id := snd (register st name) in
  let st' := fst (register st name) in
  exists i np base rsz,
    register_slot (S (length (s_pkgs st))) (reg_at (s_pkgs st) B) (nalloc st) B sz rr = Some (i, np, id, nalloc st', base, rsz) /\
    np = base + id /\
    (id < nalloc st -> base = B /\ rsz = 0 /\ nalloc st' = nalloc st) /\
    (nalloc st <= id -> id = nalloc st /\ base = rr /\ rsz = (2 * nalloc st + 1) * sz /\ nalloc st' = 2 * nalloc st + 1).
Proof.
  intros Hn Hsz. unfold nalloc in *. cbv zeta.
  destruct (register_loop_spec B (reg_at (s_pkgs st) B) (Z.of_nat (length (s_pkgs st))) (s_pkgs st) O (S (length (s_pkgs st))) 0 (-1) 0)
    as [p' Hl]; [lia|lia|exact Hn| |].
  { intros k Hk. unfold reg_at. replace (B + Z.of_nat (0 + k) - B) with (Z.of_nat k) by lia. rewrite Nat2Z.id. reflexivity. }
  change (Z.of_nat 0) with 0 in Hl.
  unfold register_slot. cbv zeta. rewrite Hl. clear Hl.
  unfold register. destruct (first_free (s_pkgs st) 0) as [k|] eqn:Ef.
  - pose proof (first_free_ge _ _ _ Ef) as Hk. cbn [fst snd].
    assert (Hne : Z.of_nat k =? Z.of_nat (length (s_pkgs st)) = false) by (apply Z.eqb_neq; lia).
    rewrite Hne.
    assert (Hlen : length (setp (s_pkgs st) k (new_pkg name)) = length (s_pkgs st)).
    { clear. revert k. induction (s_pkgs st) as [|x r IH]; intros [|k]; simpl; try reflexivity. now rewrite IH. }
    exists (Z.of_nat k), (B + Z.of_nat k), B, 0. unfold set_pkgs. cbn [s_pkgs]. rewrite Hlen.
    repeat split; try reflexivity; lia.
  - cbn [fst snd]. rewrite Z.eqb_refl.
    set (n := Z.of_nat (length (s_pkgs st))) in *.
    change (2 ^ 30) with 1073741824 in Hn. change (2 ^ 31) with 2147483648 in Hsz.
    assert (n >= 0) by (subst n; lia).
    rewrite (s32_small (2 * n)) by (change (2 ^ 31) with 2147483648; lia).
    rewrite (s32_small (2 * n + 1)) by (change (2 ^ 31) with 2147483648; lia).
    rewrite (u64_small (2 * n + 1)) by (change (2 ^ 62) with 4611686018427387904; lia).
    rewrite (u64_small ((2 * n + 1) * sz)) by (change (2 ^ 62) with 4611686018427387904; nia).
    exists n, (rr + n), rr, ((2 * n + 1) * sz). unfold set_pkgs. cbn [s_pkgs].
    assert (Hlen : Z.of_nat (length (s_pkgs st ++ new_pkg name :: repeat pkg0 (length (s_pkgs st)))) = 2 * n + 1).
    { rewrite app_length. cbn [length]. rewrite repeat_length. subst n. lia. }
    rewrite Hlen. repeat split; try reflexivity; lia.
Qed.
