(* C10 - the ownership ledger of sc_notify_recursive (binary notify), regenerated from src/sc_notify.c on every run
   (Gen/LedgerC10.v), is balanced on every path. *)
From Coq Require Import ZArith List String Bool.
From ScV Require Import C10.LedgerModel Gen.LedgerC10.
Import ListNotations.

(* every branch condition becomes true / false (whatever their number is); the remaining closed term is evaluated *)
Ltac all_paths c :=
  repeat match goal with
         | |- context [c ?n] => destruct (c n)
         end; vm_compute; reflexivity.

Definition only_uses (a : string) (l : list lev) : bool :=
  forallb (fun e => match e with LUse x => String.eqb x a | _ => false end) l.

(* the statements in front of the slice (recursive call, computation of the peers) only hand the caller's array to
   the function itself *)
Lemma notify_recursive_prefix_only_uses : forall c : nat -> bool,
  only_uses "array" (notify_recursive_prefix_b c) = true.
Proof. intros c; unfold notify_recursive_prefix_b; all_paths c. Qed.

(* from "sendbuf = sc_array_new" to the end of the level: whatever the branch conditions evaluate to, no array is used
   before it is initialised or after it is freed, nothing is freed twice, sendbuf / recvbuf / morebuf are returned and the
   caller's array holds the one block that is left *)
Lemma notify_recursive_ledger_balanced : forall c : nat -> bool,
  balanced_run "array" (notify_recursive_ledger_b c) (entry_own "array") = true /\
  balanced_run "array" (notify_recursive_ledger_b c) (entry_empty "array") = true.
Proof. intros c; unfold notify_recursive_ledger_b; split; all_paths c. Qed.

Lemma balanced_run_meaning : forall a l st, balanced_run a l st = true ->
  exists st', l_run l st = Some st' /\ l_heap st' = [] /\
    (l_live st' = [] /\ l_lookup a (l_vars st') = Empty \/ exists b, l_live st' = [b] /\ l_lookup a (l_vars st') = Own b).
Proof.
  intros a l st H. unfold balanced_run in H. destruct (l_run l st) as [st'|]; [|discriminate].
  exists st'. split; [reflexivity|]. unfold balancedb in H.
  destruct (l_heap st'); [|discriminate]. split; [reflexivity|].
  destruct (l_lookup a (l_vars st')) as [| |b]; [discriminate| |].
  - destruct (l_live st'); [left; split; reflexivity|discriminate].
  - destruct (l_live st') as [|c [|d r]]; try discriminate.
    apply Nat.eqb_eq in H. subst c. right. exists b. split; reflexivity.
Qed.
