(* C10 - the ownership ledgers regenerated from the source on every run (Gen/LedgerC10.v) are balanced on every path:
   one level of the binary notify recursion, the rehash of a hash table, and the create / destroy pairs of sc_hash,
   sc_hash_array and sc_keyvalue. *)
From Coq Require Import ZArith List String Bool Arith.
From ScV Require Import C10.LedgerModel Gen.LedgerC10.
Import ListNotations.

(* every branch condition c n that occurs becomes true / false (whatever their number is) *)
Ltac paths c :=
  repeat match goal with
         | |- context [c ?n] => destruct (c n)
         end.
Ltac all_paths c := paths c; vm_compute; reflexivity.

Definition only_uses (a : string) (l : list lev) : bool :=
  forallb (fun e => match e with LUse x => String.eqb x a | _ => false end) l.

(* ---- sc_notify_recursive *)
(* the statements in front of the slice (recursive call, computation of the peers) only hand the caller's array to
   the function itself *)
Lemma notify_recursive_prefix_only_uses : forall c : nat -> bool,
  only_uses "array" (notify_recursive_prefix_b c) = true.
Proof. intros c; unfold notify_recursive_prefix_b; all_paths c. Qed.

(* from "sendbuf = sc_array_new" to the end of the level: whatever the branch conditions evaluate to, no array is used
   before it is initialised or after it is freed, nothing is freed twice, sendbuf / recvbuf / morebuf are returned and the
   caller's array holds the one block that is left *)
Lemma notify_recursive_ledger_balanced : forall c : nat -> bool,
  balanced_run "array" (notify_recursive_ledger_b c) (entry_own "array") = true /\
  balanced_run "array" (notify_recursive_ledger_b c) (entry_empty "array") = true.
Proof. intros c; unfold notify_recursive_ledger_b; split; all_paths c. Qed.

(* ---- sc_hash_maybe_resize *)
(* entered with hash->slots pointing to a heap array that holds the slot block: on the paths that decide not to resize
   nothing changes hands; on the resizing paths exactly one heap array - the one hash->slots points to afterwards - and
   exactly its block are left: the old structure AND the old block are gone, the new ones are not lost *)
Lemma hash_resize_prefix_balanced : forall c : nat -> bool,
  balanced_heap_run "hash->slots" (hash_resize_prefix_b c) (entry_heap "hash->slots") = true.
Proof. intros c; unfold hash_resize_prefix_b; all_paths c. Qed.

Lemma hash_resize_ledger_balanced : forall c1 c2 : nat -> bool,
  balanced_heap_run "hash->slots" (hash_resize_prefix_b c1 ++ hash_resize_ledger_b c2) (entry_heap "hash->slots") = true.
Proof. intros c1 c2; unfold hash_resize_prefix_b, hash_resize_ledger_b; paths c1; all_paths c2. Qed.

(* ---- create / destroy pairs: afterwards the live heap objects and blocks are those from before *)
(* sc_hash_new; sc_hash_destroy.  cn 0 = "an allocator was handed in", cd 0 = hash->allocator_owned: the flag is set
   to the negation in sc_hash_new (hypothesis; the flag itself is data, not ownership).  The caller's allocator (an
   external heap object) is still there afterwards, the own one is gone. *)
Lemma hash_new_destroy_restored : forall cn cd : nat -> bool, cd 0%nat = negb (cn 0%nat) ->
  restored_run (hash_new_ledger_b cn ++ hash_destroy_ledger_b cd) (entry_ext "allocator") = true.
Proof. intros cn cd H; unfold hash_new_ledger_b, hash_destroy_ledger_b; try rewrite H; paths cn; all_paths cd. Qed.

Lemma hash_new_unlink_destroy_restored : forall cn cd : nat -> bool, cd 0%nat = negb (cn 0%nat) ->
  restored_run (hash_new_ledger_b cn ++ hash_unlink_destroy_ledger_b cd) (entry_ext "allocator") = true.
Proof. intros cn cd H; unfold hash_new_ledger_b, hash_unlink_destroy_ledger_b; try rewrite H; paths cn; all_paths cd. Qed.

(* a rehash between creation and destruction *)
Lemma hash_new_resize_destroy_restored : forall cn c1 c2 cd : nat -> bool, cd 0%nat = negb (cn 0%nat) ->
  restored_run (hash_new_ledger_b cn ++ hash_resize_prefix_b c1 ++ hash_resize_ledger_b c2 ++ hash_destroy_ledger_b cd) (entry_ext "allocator") = true.
Proof.
  intros cn c1 c2 cd H; unfold hash_new_ledger_b, hash_resize_prefix_b, hash_resize_ledger_b, hash_destroy_ledger_b;
    try rewrite H; paths cn; paths c1; paths c2; all_paths cd.
Qed.

Lemma hash_array_new_destroy_restored : forall cn cd : nat -> bool,
  restored_run (hash_array_new_ledger_b cn ++ hash_array_destroy_ledger_b cd) entry_none = true.
Proof. intros cn cd; unfold hash_array_new_ledger_b, hash_array_destroy_ledger_b; paths cn; all_paths cd. Qed.

(* sc_hash_array_rip: everything is freed but the element block, which the caller's structure `rip` holds *)
Lemma hash_array_new_rip_balanced : forall cn cr : nat -> bool,
  balanced_run "rip" (hash_array_new_ledger_b cn ++ hash_array_rip_ledger_b cr) entry_none = true.
Proof. intros cn cr; unfold hash_array_new_ledger_b, hash_array_rip_ledger_b; paths cn; all_paths cr. Qed.

Lemma keyvalue_new_destroy_restored : forall cn cd : nat -> bool,
  restored_run (keyvalue_new_ledger_b cn ++ keyvalue_destroy_ledger_b cd) entry_none = true.
Proof. intros cn cd; unfold keyvalue_new_ledger_b, keyvalue_destroy_ledger_b; paths cn; all_paths cd. Qed.

(* ---- what the predicates say *)
Lemma l_eqlist_eq : forall a b, l_eqlist a b = true -> a = b.
Proof.
  induction a as [|x r IH]; destruct b as [|y s]; simpl; intros H; try discriminate; [reflexivity|].
  apply andb_prop in H. destruct H as [H1 H2]. apply Nat.eqb_eq in H1. subst. f_equal. apply IH. exact H2.
Qed.

Lemma balanced_run_meaning : forall a l st, balanced_run a l st = true ->
  exists st', l_run l st = Some st' /\ l_heap st' = [] /\
    (l_live st' = [] /\ (exists o, l_deref a st' = Some (o, Empty)) \/ exists o b, l_live st' = [b] /\ l_deref a st' = Some (o, Own b)).
Proof.
  intros a l st H. unfold balanced_run in H. destruct (l_run l st) as [st'|]; [|discriminate].
  exists st'. split; [reflexivity|]. unfold balancedb, l_holds in H.
  destruct (l_deref a st') as [[o d]|]; [|discriminate].
  destruct d as [| |b]; [discriminate| |]; apply andb_prop in H; destruct H as [H1 H2];
    apply l_eqlist_eq in H1; apply l_eqlist_eq in H2; (split; [exact H1|]).
  - left. split; [exact H2|]. exists o. reflexivity.
  - right. exists o, b. split; [exact H2|reflexivity].
Qed.

Lemma balanced_heap_run_meaning : forall a l st, balanced_heap_run a l st = true ->
  exists st' o, l_run l st = Some st' /\ l_var a (l_vars st') = Some o /\ l_heap st' = [o] /\
    (l_live st' = [] /\ l_deref a st' = Some (o, Empty) \/ exists b, l_live st' = [b] /\ l_deref a st' = Some (o, Own b)).
Proof.
  intros a l st H. unfold balanced_heap_run in H. destruct (l_run l st) as [st'|]; [|discriminate].
  unfold balanced_heapb in H. destruct (l_var a (l_vars st')) as [o|] eqn:Ev; [|discriminate].
  exists st', o. split; [reflexivity|]. split; [exact Ev|]. unfold l_holds in H.
  assert (Hd : forall p d, l_deref a st' = Some (p, d) -> p = o).
  { intros p d. unfold l_deref. rewrite Ev. destruct (l_obj o (l_objs st')); intros E; inversion E; reflexivity. }
  destruct (l_deref a st') as [[p d]|] eqn:Ed; [|discriminate].
  rewrite (Hd p d eq_refl) in *.
  destruct d as [| |b]; [discriminate| |]; apply andb_prop in H; destruct H as [H1 H2];
    apply l_eqlist_eq in H1; apply l_eqlist_eq in H2; (split; [exact H1|]).
  - left. split; [exact H2|reflexivity].
  - right. exists b. split; [exact H2|reflexivity].
Qed.

Lemma restored_run_meaning : forall l st, restored_run l st = true ->
  exists st', l_run l st = Some st' /\ l_heap st' = l_heap st /\ l_live st' = l_live st.
Proof.
  intros l st H. unfold restored_run in H. destruct (l_run l st) as [st'|]; [|discriminate].
  apply andb_prop in H. destruct H as [H1 H2]. exists st'. split; [reflexivity|]. split; apply l_eqlist_eq; assumption.
Qed.
