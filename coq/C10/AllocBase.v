(* C10 - small definitions shared by the allocation model: positional maps, byte strings, little-endian words.
   (Same definitions as in C08/ArrayModel.v; repeated here so that C10 does not depend on the generated Gen/Array.v.) *)
From Coq Require Import ZArith List Bool.
Import ListNotations.
Local Open Scope Z_scope.

Section LMap.
  Context {A : Type}.
  Definition lget (l : list (option A)) (k : nat) : option A := nth k l None.
  Fixpoint lset (l : list (option A)) (k : nat) (v : option A) : list (option A) :=
    match k, l with
    | O, [] => [v]
    | O, _ :: r => v :: r
    | S k', [] => None :: lset [] k' v
    | S k', x :: r => x :: lset r k' v
    end.
End LMap.

Definition len (l : list Z) : Z := Z.of_nat (length l).
Definition sub (l : list Z) (pos n : Z) : list Z := firstn (Z.to_nat n) (skipn (Z.to_nat pos) l).
Definition upd (l : list Z) (pos : Z) (d : list Z) : list Z :=
  firstn (Z.to_nat pos) l ++ d ++ skipn (Z.to_nat pos + length d) l.
Definition bytes_ok (d : list Z) : bool := forallb (fun b => (0 <=? b) && (b <? 256)) d.

(* size_t / pointers are stored little endian in 8 bytes (x86-64) *)
Fixpoint le_dec (l : list Z) : Z := match l with [] => 0 | b :: r => b + 256 * le_dec r end.
Fixpoint le_enc (n : nat) (v : Z) : list Z := match n with O => [] | S k => (v mod 256) :: le_enc k (v / 256) end.
Definition le64_enc (v : Z) : list Z := le_enc 8 v.
