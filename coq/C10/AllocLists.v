(* C10 - list lemmas: positional maps (lget/lset), byte strings (sub/upd), little-endian words. *)
From Coq Require Import ZArith Lia List Bool ZifyBool.
From ScV Require Import C10.AllocBase.
Import ListNotations.
Local Open Scope Z_scope.

(* ---------- lget / lset ---------------------------------------------------------------------------- *)
Section LMapFacts.
  Context {A : Type}.
  Implicit Types (l : list (option A)) (v : option A).

  Lemma lget_nil k : lget (@nil (option A)) k = None.
  Proof. unfold lget. destruct k; reflexivity. Qed.

  Lemma lget_lset_same l k v : lget (lset l k v) k = v.
  Proof.
    revert l; induction k as [|k IH]; intros [|x r]; simpl; try reflexivity.
    - unfold lget in *. simpl. apply (IH []).
    - unfold lget in *. simpl. apply IH.
  Qed.

  Lemma lget_lset_other l k k' v : k <> k' -> lget (lset l k v) k' = lget l k'.
  Proof.
    revert l k'; induction k as [|k IH]; intros [|x r] [|k'] Hne; simpl; try reflexivity; try congruence.
    - unfold lget. simpl. destruct k'; reflexivity.
    - unfold lget in *. simpl. rewrite (IH [] k') by congruence. destruct k'; reflexivity.
    - unfold lget in *. simpl. apply IH. congruence.
  Qed.

  Lemma lget_lset l k k' v : lget (lset l k v) k' = if Nat.eqb k k' then v else lget l k'.
  Proof.
    destruct (Nat.eqb_spec k k') as [->|Hne]; [apply lget_lset_same | apply lget_lset_other; exact Hne].
  Qed.

  Lemma length_lset l k v : (k < length l)%nat -> length (lset l k v) = length l.
  Proof.
    revert l; induction k as [|k IH]; intros [|x r] Hk; simpl in *; try lia.
    rewrite IH by lia. reflexivity.
  Qed.

  Lemma length_lset_ge l k v : (length l <= length (lset l k v))%nat.
  Proof.
    revert l; induction k as [|k IH]; intros [|x r]; simpl; try lia.
    specialize (IH r). lia.
  Qed.

  Lemma lget_beyond l k : (length l <= k)%nat -> lget l k = None.
  Proof. intros. unfold lget. apply nth_overflow. exact H. Qed.

  Lemma lget_some_lt l k x : lget l k = Some x -> (k < length l)%nat.
  Proof.
    intros H. destruct (Nat.lt_ge_cases k (length l)) as [Hl|Hl]; [exact Hl|].
    rewrite lget_beyond in H by exact Hl. discriminate.
  Qed.

  Lemma lget_app_l l m k : (k < length l)%nat -> lget (l ++ m) k = lget l k.
  Proof. intros. unfold lget. apply app_nth1. exact H. Qed.

  Lemma lget_app_len l v : lget (l ++ [v]) (length l) = v.
  Proof. unfold lget. rewrite app_nth2 by lia. rewrite Nat.sub_diag. reflexivity. Qed.

  Lemma lget_In l k x : lget l k = Some x -> In (Some x) l.
  Proof.
    intros H. pose proof (lget_some_lt _ _ _ H) as Hl. unfold lget in H. rewrite <- H. apply nth_In. exact Hl.
  Qed.

  Lemma In_lget l x : In (Some x) l -> exists k, lget l k = Some x.
  Proof.
    intros H. destruct (In_nth _ _ None H) as [k [Hk Hn]]. exists k. exact Hn.
  Qed.
End LMapFacts.

Lemma skipn_skipn' {A} (l : list A) a b : skipn a (skipn b l) = skipn (b + a) l.
Proof.
  revert l; induction b as [|b IH]; intros l; simpl; [reflexivity|].
  destruct l as [|x r]; [destruct a; reflexivity|]. apply IH.
Qed.

Lemma firstn_plus_split {A} (l : list A) a b : firstn (a + b) l = firstn a l ++ firstn b (skipn a l).
Proof.
  revert l; induction a as [|a IH]; intros [|x r]; simpl; try reflexivity.
  - destruct b; reflexivity.
  - rewrite IH. reflexivity.
Qed.

(* ---------- firstn / skipn over Z positions --------------------------------------------------------- *)
Lemma len_nonneg l : 0 <= len l.
Proof. unfold len. lia. Qed.

Lemma len_app a b : len (a ++ b) = len a + len b.
Proof. unfold len. rewrite app_length. lia. Qed.

Lemma len_nil : len [] = 0.
Proof. reflexivity. Qed.

Lemma len_firstn l n : 0 <= n <= len l -> len (firstn (Z.to_nat n) l) = n.
Proof. unfold len. intros. rewrite firstn_length. lia. Qed.

Lemma len_skipn l n : 0 <= n <= len l -> len (skipn (Z.to_nat n) l) = len l - n.
Proof. unfold len. intros. rewrite skipn_length. lia. Qed.

Lemma len_repeat (x : Z) n : len (repeat x n) = Z.of_nat n.
Proof. unfold len. rewrite repeat_length. reflexivity. Qed.

Lemma len_sub l p n : 0 <= p -> 0 <= n -> p + n <= len l -> len (sub l p n) = n.
Proof.
  unfold sub, len. intros. rewrite firstn_length, skipn_length. lia.
Qed.

Lemma sub_nil_n l p : sub l p 0 = [].
Proof. reflexivity. Qed.

Lemma sub_0_firstn l n : sub l 0 n = firstn (Z.to_nat n) l.
Proof. reflexivity. Qed.

Lemma sub_all l : sub l 0 (len l) = l.
Proof. unfold sub, len. simpl. rewrite Nat2Z.id. apply firstn_all. Qed.

Lemma sub_firstn l N p n : 0 <= p -> 0 <= n -> p + n <= N -> sub (firstn (Z.to_nat N) l) p n = sub l p n.
Proof.
  intros Hp Hn HN. unfold sub.
  rewrite skipn_firstn_comm. rewrite firstn_firstn. f_equal. lia.
Qed.

Lemma sub_sub l p n q m : 0 <= p -> 0 <= q -> 0 <= m -> q + m <= n -> sub (sub l p n) q m = sub l (p + q) m.
Proof.
  intros. unfold sub. rewrite skipn_firstn_comm, firstn_firstn, skipn_skipn'.
  f_equal; [lia|]. f_equal. lia.
Qed.

Lemma sub_app_l a b p n : 0 <= p -> 0 <= n -> p + n <= len a -> sub (a ++ b) p n = sub a p n.
Proof.
  unfold sub, len. intros. rewrite skipn_app, firstn_app.
  replace (Z.to_nat n - length (skipn (Z.to_nat p) a))%nat with 0%nat by (rewrite skipn_length; lia).
  simpl. apply app_nil_r.
Qed.

Lemma sub_app_r a b p n : len a <= p -> sub (a ++ b) p n = sub b (p - len a) n.
Proof.
  unfold sub, len. intros. rewrite skipn_app.
  rewrite (skipn_all2 a) by lia. simpl. f_equal. f_equal. lia.
Qed.

Lemma firstn_sub_prefix l n m : 0 <= m <= n -> firstn (Z.to_nat m) (sub l 0 n) = sub l 0 m.
Proof. intros. unfold sub. simpl. rewrite firstn_firstn. f_equal. lia. Qed.

Lemma sub_split l p n m : 0 <= p -> 0 <= n -> 0 <= m -> sub l p (n + m) = sub l p n ++ sub l (p + n) m.
Proof.
  intros. unfold sub.
  replace (Z.to_nat (n + m)) with (Z.to_nat n + Z.to_nat m)%nat by lia.
  rewrite firstn_plus_split. f_equal. rewrite skipn_skipn'. f_equal. f_equal. lia.
Qed.

(* ---------- upd ---------------------------------------------------------------------------------------- *)
Lemma upd_nil l p : upd l p [] = l.
Proof. unfold upd. simpl. rewrite Nat.add_0_r. apply firstn_skipn. Qed.

Lemma len_upd l p d : 0 <= p -> p + len d <= len l -> len (upd l p d) = len l.
Proof.
  unfold upd, len. intros. rewrite !app_length, firstn_length, skipn_length. lia.
Qed.

Lemma sub_upd_same l p d : 0 <= p -> p + len d <= len l -> sub (upd l p d) p (len d) = d.
Proof.
  unfold upd, sub, len. intros.
  rewrite skipn_app. rewrite (skipn_all2 (firstn (Z.to_nat p) l)) by (rewrite firstn_length; lia).
  rewrite firstn_length. replace (Z.to_nat p - Nat.min (Z.to_nat p) (length l))%nat with 0%nat by lia. simpl.
  rewrite firstn_app. rewrite Nat2Z.id. rewrite firstn_all. rewrite Nat.sub_diag. simpl. apply app_nil_r.
Qed.

Lemma sub_upd_prefix l p d N : 0 <= p -> p + len d <= N -> N <= len l ->
  sub (upd l p d) 0 N = upd (sub l 0 N) p d.
Proof.
  unfold upd, sub, len. intros Hp Hd HN. simpl.
  rewrite firstn_app, firstn_app, firstn_firstn, firstn_length.
  rewrite firstn_firstn.
  replace (Nat.min (Z.to_nat N) (Z.to_nat p)) with (Z.to_nat p) by lia.
  replace (Nat.min (Z.to_nat p) (Z.to_nat N)) with (Z.to_nat p) by lia.
  f_equal.
  replace (Z.to_nat N - Nat.min (Z.to_nat p) (length l))%nat with (Z.to_nat N - Z.to_nat p)%nat by lia.
  rewrite (firstn_all2 d) by lia. f_equal.
  rewrite skipn_firstn_comm. f_equal. lia.
Qed.

Lemma sub_upd_before l p d q m : 0 <= q -> 0 <= m -> q + m <= p -> p <= len l -> sub (upd l p d) q m = sub l q m.
Proof.
  unfold upd, sub, len. intros.
  rewrite skipn_app, firstn_app.
  rewrite skipn_length, firstn_length.
  replace (Z.to_nat m - (Nat.min (Z.to_nat p) (length l) - Z.to_nat q))%nat with 0%nat by lia.
  simpl. rewrite app_nil_r. rewrite skipn_firstn_comm, firstn_firstn. f_equal. lia.
Qed.

Lemma sub_upd_after l p d q m : 0 <= p -> p + len d <= q -> p + len d <= len l -> sub (upd l p d) q m = sub l q m.
Proof.
  unfold upd, sub, len. intros.
  rewrite app_assoc. rewrite skipn_app.
  rewrite (skipn_all2 (firstn (Z.to_nat p) l ++ d)) by (rewrite app_length, firstn_length; lia).
  simpl. rewrite app_length, firstn_length. rewrite skipn_skipn'. f_equal. f_equal. lia.
Qed.

(* writing d at p and reading the whole string: the string with [p, p + |d|) replaced *)
Lemma upd_app_tail b p d : 0 <= p -> p + len d = len b -> upd b p d = firstn (Z.to_nat p) b ++ d.
Proof.
  unfold upd, len. intros. rewrite skipn_all2 by lia. rewrite app_nil_r. reflexivity.
Qed.

Lemma firstn_len_le l n : len l <= n -> firstn (Z.to_nat n) l = l.
Proof. unfold len. intros. apply firstn_all2. lia. Qed.

(* ---------- little-endian words ------------------------------------------------------------------------ *)
Lemma len_le_enc n v : len (le_enc n v) = Z.of_nat n.
Proof. revert v; induction n as [|n IH]; intros v; [reflexivity|]. cbn [le_enc]. specialize (IH (v / 256)). unfold len in *. cbn [length]. lia. Qed.

Lemma le_dec_enc n v : 0 <= v < 256 ^ Z.of_nat n -> le_dec (le_enc n v) = v.
Proof.
  revert v; induction n as [|n IH]; intros v Hv.
  - simpl in *. lia.
  - cbn [le_enc le_dec]. rewrite IH.
    + pose proof (Z.div_mod v 256 ltac:(lia)). lia.
    + rewrite Nat2Z.inj_succ, Z.pow_succ_r in Hv by lia.
      split; [apply Z.div_pos; lia|]. apply Z.div_lt_upper_bound; lia.
Qed.

Lemma le64_dec_enc v : 0 <= v < 2 ^ 64 -> le_dec (le64_enc v) = v.
Proof. intros. unfold le64_enc. apply le_dec_enc. change (256 ^ Z.of_nat 8) with (2 ^ 64). assumption. Qed.

Lemma len_le64 v : len (le64_enc v) = 8.
Proof. unfold le64_enc. rewrite len_le_enc. reflexivity. Qed.
