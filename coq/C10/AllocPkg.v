(* C10 - the package table: register (first unused slot or growth to 2n+1), unregister, finalize. *)
From Coq Require Import ZArith Lia List Bool ZifyBool.
From ScV Require Import C10.AllocBase C10.AllocLists C10.AllocModel C10.AllocArith C10.AllocInv C10.AllocSteps.
Import ListNotations.
Local Open Scope Z_scope.

(* ---------- first unused slot ------------------------------------------------------------------------------------ *)
Lemma first_free_some l k i : first_free l k = Some i ->
  (k <= i)%nat /\ (i - k < length l)%nat /\ p_reg (nth (i - k) l pkg0) = false /\
  forall j, (j < i - k)%nat -> p_reg (nth j l pkg0) = true.
Proof.
  revert k; induction l as [|q r IH]; intros k H; [discriminate|]. cbn [first_free] in H.
  destruct (p_reg q) eqn:E.
  - destruct (IH _ H) as (A1 & A2 & A3 & A4). replace (i - k)%nat with (S (i - S k)) by lia.
    split; [lia|]. split; [simpl; lia|]. split; [exact A3|]. intros [|j] Hj; [exact E|]. apply A4. lia.
  - inversion H; subst. rewrite Nat.sub_diag. split; [lia|]. split; [simpl; lia|]. split; [exact E|]. intros j Hj. lia.
Qed.

Lemma first_free_none l k : first_free l k = None -> forall j, (j < length l)%nat -> p_reg (nth j l pkg0) = true.
Proof.
  revert k; induction l as [|q r IH]; intros k H j Hj; [simpl in Hj; lia|]. cbn [first_free] in H.
  destruct (p_reg q) eqn:E; [|discriminate]. destruct j as [|j]; [exact E|]. apply (IH _ H). simpl in Hj. lia.
Qed.

Lemma nth_app_new (l : list pkg) v m j : nth j (l ++ v :: repeat pkg0 m) pkg0 =
  if (j <? length l)%nat then nth j l pkg0 else if Nat.eqb j (length l) then v else pkg0.
Proof.
  destruct (Nat.ltb_spec j (length l)) as [H|H]; [apply app_nth1; exact H|].
  rewrite app_nth2 by lia. destruct (Nat.eqb_spec j (length l)) as [->|N].
  - rewrite Nat.sub_diag. reflexivity.
  - destruct (j - length l)%nat as [|d] eqn:E; [lia|]. cbn [nth].
    destruct (Nat.lt_ge_cases d m) as [Hd|Hd]; [apply nth_repeat|apply nth_overflow; rewrite repeat_length; exact Hd].
Qed.

(* what sc_package_register does to the table, in one statement for both branches *)
Lemma register_spec st name : let '(st', id) := register st name in
  0 <= id /\ is_reg st id = false /\
  (forall j, 0 <= j < id -> is_reg st j = true) /\                 (* the LOWEST unused id *)
  (id < nalloc st \/ (id = nalloc st /\ nalloc st' = 2 * nalloc st + 1)) /\
  s_heap st' = s_heap st /\ s_bad st' = s_bad st /\ s_dmc st' = s_dmc st /\ s_dfc st' = s_dfc st /\ s_drc st' = s_drc st /\
  (forall q, 0 <= q -> pget st' q = if q =? id then new_pkg name else pget st q) /\
  (forall q, is_reg st' q = (is_reg st q || (q =? id))%bool).
Proof.
  unfold register. destruct (first_free (s_pkgs st) 0) as [i|] eqn:E.
  - destruct (first_free_some _ _ _ E) as (_ & A2 & A3 & A4). rewrite Nat.sub_0_r in *.
    assert (Hpg : forall q, 0 <= q -> pget (set_pkgs st (setp (s_pkgs st) i (new_pkg name)) (s_npk st + 1)) q =
                                 if q =? Z.of_nat i then new_pkg name else pget st q).
    { intros q Hq. unfold pget. cbn [set_pkgs s_pkgs]. rewrite nth_setp.
      destruct (Z.eqb_spec q (Z.of_nat i)) as [->|N].
      - rewrite Nat2Z.id, Nat.eqb_refl. replace (Nat.ltb i (length (s_pkgs st))) with true by (symmetry; apply Nat.ltb_lt; exact A2). reflexivity.
      - replace (Nat.eqb i (Z.to_nat q)) with false by (symmetry; apply Nat.eqb_neq; lia). reflexivity. }
    assert (Hreg0 : is_reg st (Z.of_nat i) = false).
    { unfold is_reg, pget. rewrite Nat2Z.id, A3. rewrite andb_false_r. reflexivity. }
    repeat split; try reflexivity; try lia; try assumption.
    + intros j Hj. unfold is_reg, pget, nalloc. rewrite (A4 (Z.to_nat j)) by lia. lia.
    + left. unfold nalloc. lia.
    + intros q. unfold is_reg at 1. unfold nalloc. cbn [set_pkgs s_pkgs]. rewrite length_setp. fold (nalloc st).
      destruct (0 <=? q) eqn:Eq; [|unfold is_reg; rewrite Eq; cbn; lia].
      rewrite (Hpg q ltac:(lia)). unfold is_reg. rewrite Eq. destruct (Z.eqb_spec q (Z.of_nat i)) as [->|N].
      * cbn [new_pkg p_reg]. unfold nalloc. rewrite orb_true_r. lia.
      * rewrite orb_false_r. reflexivity.
  - pose proof (first_free_none _ _ E) as A.
    set (n := length (s_pkgs st)) in *.
    assert (Hpg : forall q, 0 <= q -> pget (set_pkgs st (s_pkgs st ++ new_pkg name :: repeat pkg0 n) (s_npk st + 1)) q =
                                 if q =? Z.of_nat n then new_pkg name else pget st q).
    { intros q Hq. unfold pget. cbn [set_pkgs s_pkgs]. rewrite nth_app_new. fold n.
      destruct (Nat.ltb_spec (Z.to_nat q) n) as [Hl|Hl].
      - destruct (Z.eqb_spec q (Z.of_nat n)); [lia|reflexivity].
      - destruct (Nat.eqb_spec (Z.to_nat q) n) as [Eq|Nq].
        + replace (q =? Z.of_nat n) with true by lia. reflexivity.
        + replace (q =? Z.of_nat n) with false by lia. symmetry. apply nth_overflow. fold n. lia. }
    assert (Hreg0 : is_reg st (Z.of_nat n) = false) by (unfold is_reg, nalloc; fold n; lia).
    repeat split; try reflexivity; try lia; try assumption.
    + intros j Hj. unfold is_reg, pget, nalloc. fold n. rewrite (A (Z.to_nat j)) by lia. lia.
    + right. unfold nalloc. cbn [set_pkgs s_pkgs]. rewrite app_length. cbn [length]. rewrite repeat_length. fold n. lia.
    + intros q. unfold is_reg at 1. unfold nalloc. cbn [set_pkgs s_pkgs]. rewrite app_length. cbn [length]. rewrite repeat_length. fold n.
      destruct (0 <=? q) eqn:Eq; [|unfold is_reg; rewrite Eq; cbn; lia].
      rewrite (Hpg q ltac:(lia)). unfold is_reg, nalloc. fold n. rewrite Eq.
      destruct (Z.eqb_spec q (Z.of_nat n)) as [->|N].
      * cbn [new_pkg p_reg]. rewrite orb_true_r. lia.
      * rewrite orb_false_r. cbn [andb].
        destruct (q <? Z.of_nat n) eqn:El; cbn [andb].
        -- replace (q <? Z.of_nat (n + S n)) with true by lia. reflexivity.
        -- unfold pget. rewrite nth_overflow by (fold n; lia). cbn. rewrite andb_false_r. reflexivity.
Qed.

Lemma status_pget st st' q : 0 <= q -> pget st' q = pget st q -> status st' q = status st q.
Proof. intros Hq E. unfold status. replace (q =? -1) with false by lia. rewrite E. reflexivity. Qed.

Lemma no_block_of_unregistered st i : HeapInv st -> 0 <= i -> is_reg st i = false -> cnt (s_heap st) i = 0.
Proof.
  intros HI Hi Hr. apply cnt_zero_iff. intros h b Hg E.
  destruct (H_tag _ HI h b Hg) as [T|T]; [lia|]. rewrite E in T. unfold pkg_ok in T. rewrite Hr, orb_false_r in T. lia.
Qed.

Lemma register_Inv st name : Inv st -> Inv (fst (register st name)).
Proof.
  intros HInv. pose proof (register_spec st name) as S. destruct (register st name) as [st' id]. cbn [fst].
  destruct S as (S1 & S2 & _ & _ & S5 & S6 & S7 & S8 & S9 & S10 & S11).
  destruct HInv as [HI HC]. pose proof HI as [A1 A2 A3 A4 A5 A6].
  assert (Hmono : forall q, pkg_ok st q = true -> pkg_ok st' q = true).
  { intros q Hq. unfold pkg_ok in *. rewrite S11. destruct (q =? -1), (is_reg st q); try reflexivity; discriminate. }
  split.
  - constructor; unfold hget; rewrite ?S5, ?S6; try assumption.
    intros h b Hg. destruct (A5 h b Hg) as [T|T]; [left; exact T|right; apply Hmono; exact T].
  - intros q Hq. rewrite S5. unfold pkg_ok in Hq. rewrite S11 in Hq.
    destruct (Z.eq_dec q id) as [E|N]; [subst q|].
    + rewrite (no_block_of_unregistered st id HI S1 S2). unfold status. replace (id =? -1) with false by lia.
      rewrite (S10 id S1), Z.eqb_refl. reflexivity.
    + assert (Hq0 : pkg_ok st q = true) by (unfold pkg_ok; replace (q =? id) with false in Hq by lia; rewrite orb_false_r in Hq; exact Hq).
      rewrite <- (HC q Hq0). destruct (Z.eq_dec q (-1)) as [E1|N1]; [subst q|].
      * unfold status. cbn. lia.
      * apply status_pget; [pose proof (pkg_ok_reg st q Hq0 N1) as R; unfold is_reg in R; lia|].
        rewrite S10 by (pose proof (pkg_ok_reg st q Hq0 N1) as R; unfold is_reg in R; lia).
        replace (q =? id) with false by lia. reflexivity.
Qed.

(* ---------- unregister ---------------------------------------------------------------------------------------------------- *)
Lemma blk_wf_with_pkg b t : blk_wf b -> blk_wf (with_pkg b t).
Proof. intros H. exact H. Qed.

Lemma unregister_spec st id : is_reg st id = true ->
  let '(st', e) := unregister_noabort st id in
  e = check_noerr st id /\ s_heap st' = orphan (s_heap st) id /\ s_bad st' = s_bad st /\
  s_dmc st' = s_dmc st /\ s_dfc st' = s_dfc st /\ s_drc st' = s_drc st /\ nalloc st' = nalloc st /\
  (forall q, 0 <= q -> pget st' q = if q =? id then pkg0 else pget st q) /\
  (forall q, is_reg st' q = (is_reg st q && negb (q =? id))%bool).
Proof.
  intros Hr. unfold unregister_noabort. rewrite Hr. cbn [negb]. cbv zeta.
  pose proof Hr as Hr'. unfold is_reg in Hr'.
  assert (Hpg : forall q, 0 <= q -> nth (Z.to_nat q) (setp (s_pkgs st) (Z.to_nat id) pkg0) pkg0 = if q =? id then pkg0 else pget st q).
  { intros q Hq. rewrite nth_setp. unfold nalloc in Hr'. destruct (Z.eqb_spec q id) as [->|N].
    - rewrite Nat.eqb_refl. replace (Nat.ltb (Z.to_nat id) (length (s_pkgs st))) with true by (symmetry; apply Nat.ltb_lt; lia). reflexivity.
    - replace (Nat.eqb (Z.to_nat id) (Z.to_nat q)) with false by (symmetry; apply Nat.eqb_neq; lia). reflexivity. }
  repeat split; try reflexivity.
  - unfold nalloc. cbn [set_heap set_pkgs s_pkgs]. rewrite length_setp. reflexivity.
  - intros q Hq. unfold pget at 1. cbn [set_heap set_pkgs s_pkgs]. apply Hpg. exact Hq.
  - intros q. unfold is_reg at 1. unfold nalloc, pget. cbn [set_heap set_pkgs s_pkgs]. rewrite length_setp. fold (nalloc st).
    destruct (0 <=? q) eqn:Eq; [|unfold is_reg; rewrite Eq; reflexivity].
    rewrite (Hpg q ltac:(lia)). unfold is_reg. rewrite Eq. destruct (Z.eqb_spec q id) as [->|N]; cbn [negb p_reg pkg0].
    + rewrite !andb_false_r. reflexivity.
    + rewrite andb_true_r. reflexivity.
Qed.

Lemma unregister_Inv st id : Inv st -> is_reg st id = true -> Inv (fst (unregister_noabort st id)).
Proof.
  intros HInv Hr. pose proof (unregister_spec st id Hr) as S. destruct (unregister_noabort st id) as [st' e]. cbn [fst].
  destruct S as (_ & S2 & S3 & S4 & S5 & S6 & S7 & S8 & S9).
  destruct HInv as [HI HC]. pose proof HI as [A1 A2 A3 A4 A5 A6].
  assert (Hid : 0 <= id) by (unfold is_reg in Hr; lia).
  split.
  - constructor; unfold hget; rewrite ?S2, ?S3; try assumption.
    + rewrite lget_orphan, A1. reflexivity.
    + rewrite length_orphan. exact A2.
    + intros h b Hg. rewrite lget_orphan in Hg. destruct (lget (s_heap st) h) as [b0|] eqn:E; [|discriminate].
      inversion Hg; subst b. destruct (b_pkg b0 =? id); [apply blk_wf_with_pkg|]; apply (A3 h b0 E).
    + intros h1 h2 b1 b2 G1 G2 Er. rewrite lget_orphan in G1, G2.
      destruct (lget (s_heap st) h1) as [c1|] eqn:E1; [|discriminate]. destruct (lget (s_heap st) h2) as [c2|] eqn:E2; [|discriminate].
      inversion G1; subst b1. inversion G2; subst b2. apply (A4 h1 h2 c1 c2 E1 E2).
      destruct (b_pkg c1 =? id), (b_pkg c2 =? id); exact Er.
    + intros h b Hg. rewrite lget_orphan in Hg. destruct (lget (s_heap st) h) as [b0|] eqn:E; [|discriminate].
      inversion Hg; subst b. destruct (Z.eqb_spec (b_pkg b0) id) as [Et|Nt]; [left; reflexivity|].
      destruct (A5 h b0 E) as [T|T]; [left; exact T|right]. unfold pkg_ok in *. rewrite S9.
      replace (b_pkg b0 =? id) with false by lia. cbn [negb]. rewrite andb_true_r. exact T.
  - intros q Hq. rewrite S2. unfold pkg_ok in Hq. rewrite S9 in Hq.
    assert (Hq0 : pkg_ok st q = true /\ q <> id).
    { destruct (Z.eqb_spec q (-1)) as [E1|E1].
      - split; [unfold pkg_ok; replace (q =? -1) with true by lia; reflexivity|lia].
      - cbn [orb] in Hq. apply andb_prop in Hq. destruct Hq as [Hq1 Hq2].
        split; [unfold pkg_ok; rewrite Hq1; apply orb_true_r|lia]. }
    destruct Hq0 as [Hq0 Nq].
    rewrite cnt_orphan by lia. replace (q =? id) with false by lia.
    assert (N2 : q <> -2) by (destruct (Z.eqb_spec q (-1)); [lia|pose proof (pkg_ok_reg st q Hq0 ltac:(assumption)) as R; unfold is_reg in R; lia]).
    replace (q =? -2) with false by lia. rewrite <- (HC q Hq0).
    destruct (Z.eq_dec q (-1)) as [E1|N1]; [subst q|].
    + unfold status. cbn. lia.
    + assert (0 <= q) by (pose proof (pkg_ok_reg st q Hq0 N1) as R; unfold is_reg in R; lia).
      apply status_pget; [lia|]. rewrite S8 by lia. replace (q =? id) with false by lia. reflexivity.
Qed.

(* ---------- finalize ---------------------------------------------------------------------------------------------------------- *)
Lemma fin_loop_Inv n : forall st e, Inv st -> (Z.of_nat n <= nalloc st) ->
  let '(st', e') := fin_loop n st e in
  Inv st' /\ nalloc st' = nalloc st /\ s_dmc st' = s_dmc st /\ s_dfc st' = s_dfc st /\ s_drc st' = s_drc st /\
  (forall q, 0 <= q < Z.of_nat n -> is_reg st' q = false) /\
  (forall q, Z.of_nat n <= q -> is_reg st' q = is_reg st q).
Proof.
  induction n as [|i IH]; intros st e HInv Hn; cbn [fin_loop].
  - split; [exact HInv|]. split; [reflexivity|]. split; [reflexivity|]. split; [reflexivity|]. split; [reflexivity|]. split; [intros; lia|reflexivity].
  - destruct (p_reg (pget st (Z.of_nat i))) eqn:Er.
    + assert (Hr : is_reg st (Z.of_nat i) = true) by (unfold is_reg; rewrite Er; lia).
      pose proof (unregister_spec st _ Hr) as S. pose proof (unregister_Inv st _ HInv Hr) as HI1.
      destruct (unregister_noabort st (Z.of_nat i)) as [st1 e1]. cbn [fst] in HI1.
      destruct S as (_ & _ & _ & S4 & S5 & S6 & S7 & _ & S9).
      specialize (IH st1 (e + e1) HI1 ltac:(lia)). destruct (fin_loop i st1 (e + e1)) as [st' e'].
      destruct IH as (B1 & B2 & B3 & B4 & B5 & B6 & B7).
      split; [exact B1|]. split; [lia|]. split; [congruence|]. split; [congruence|]. split; [congruence|]. split.
      * intros q Hq. destruct (Z.eq_dec q (Z.of_nat i)) as [->|N]; [|apply B6; lia].
        rewrite B7 by lia. rewrite S9. rewrite Z.eqb_refl. apply andb_false_r.
      * intros q Hq. rewrite B7 by lia. rewrite S9. replace (q =? Z.of_nat i) with false by lia. apply andb_true_r.
    + specialize (IH st e HInv ltac:(lia)). destruct (fin_loop i st e) as [st' e'].
      destruct IH as (B1 & B2 & B3 & B4 & B5 & B6 & B7).
      split; [exact B1|]. split; [lia|]. split; [exact B3|]. split; [exact B4|]. split; [exact B5|]. split.
      * intros q Hq. destruct (Z.eq_dec q (Z.of_nat i)) as [->|N]; [|apply B6; lia].
        rewrite B7 by lia. unfold is_reg. rewrite Er. apply andb_false_r.
      * intros q Hq. apply B7. lia.
Qed.

Lemma finalize_Inv st : Inv st -> Inv (fst (finalize st)).
Proof.
  intros HInv. unfold finalize.
  pose proof (fin_loop_Inv (length (s_pkgs st)) st 0 HInv ltac:(unfold nalloc; lia)) as F.
  destruct (fin_loop (length (s_pkgs st)) st 0) as [st1 e1]. cbn [fst].
  destruct F as ([HI HC] & B2 & B3 & B4 & B5 & B6 & _).
  pose proof HI as [A1 A2 A3 A4 A5 A6].
  assert (Hnone : forall q, is_reg st1 q = false).
  { intros q. destruct (Z_lt_ge_dec q 0) as [L|L]; [unfold is_reg; lia|].
    destruct (Z_lt_ge_dec q (nalloc st)) as [L2|L2]; [apply B6; unfold nalloc in *; lia|unfold is_reg; lia]. }
  assert (Hreg' : forall q, is_reg (set_pkgs st1 [] (s_npk st1)) q = false).
  { intros q. unfold is_reg, nalloc. cbn [set_pkgs s_pkgs length]. lia. }
  split.
  - constructor; try assumption.
    intros h b Hg. destruct (A5 h b Hg) as [T|T]; [left; exact T|right].
    unfold pkg_ok in *. rewrite Hnone in T. rewrite Hreg'. exact T.
  - intros q Hq. unfold pkg_ok in Hq. rewrite Hreg' in Hq. assert (q = -1) by lia. subst q.
    specialize (HC (-1) eq_refl). exact HC.
Qed.
