(* C10 - invariant of the allocation machine: block bookkeeping intact, counters = live blocks per package. *)
From Coq Require Import ZArith Lia List Bool ZifyBool.
From ScV Require Import C10.AllocBase C10.AllocLists C10.AllocModel C10.AllocArith.
Import ListNotations.
Local Open Scope Z_scope.

(* ---------- counting live blocks per package ---------------------------------------------------------------- *)
Fixpoint cnt (H : list (option blk)) (p : Z) : Z :=
  match H with
  | [] => 0
  | Some b :: r => (if b_pkg b =? p then 1 else 0) + cnt r p
  | None :: r => cnt r p
  end.

Lemma nlive_cnt st p : nlive st p = cnt (s_heap st) p.
Proof.
  unfold nlive, live_blocks, live. induction (s_heap st) as [|x r IH]; [reflexivity|].
  destruct x as [b|]; cbn [flat_map cnt app]; [|exact IH].
  cbn [filter]. destruct (b_pkg b =? p); cbn [length]; lia.
Qed.

Lemma cnt_nonneg H p : 0 <= cnt H p.
Proof. induction H as [|[b|] r IH]; cbn [cnt]; try lia. destruct (b_pkg b =? p); lia. Qed.

Lemma cnt_app H1 H2 p : cnt (H1 ++ H2) p = cnt H1 p + cnt H2 p.
Proof. induction H1 as [|[b|] r IH]; cbn [cnt app]; lia. Qed.

Lemma cnt_lset H h v p : (h < length H)%nat ->
  cnt (lset H h v) p = cnt H p - cnt [lget H h] p + cnt [v] p.
Proof.
  revert h; induction H as [|x r IH]; intros h Hh; [simpl in Hh; lia|].
  destruct h as [|h].
  - cbn [lset]. unfold lget. cbn [nth]. destruct x as [b|], v as [b'|]; cbn [cnt]; lia.
  - cbn [lset]. replace (lget (x :: r) (S h)) with (lget r h) by reflexivity.
    specialize (IH h ltac:(simpl in Hh; lia)). destruct x as [b|]; cbn [cnt] in *; lia.
Qed.

Lemma cnt_zero_iff H p : cnt H p = 0 <-> forall h b, lget H h = Some b -> b_pkg b <> p.
Proof.
  induction H as [|x r IH].
  - split; [intros _ h b Hg; rewrite lget_nil in Hg; discriminate|reflexivity].
  - split.
    + intros Hc h b Hg. destruct h as [|h].
      * unfold lget in Hg. cbn [nth] in Hg. subst x. cbn [cnt] in Hc. pose proof (cnt_nonneg r p). destruct (b_pkg b =? p) eqn:E; lia.
      * assert (Hr : cnt r p = 0) by (pose proof (cnt_nonneg r p); destruct x as [b0|]; cbn [cnt] in Hc; [destruct (b_pkg b0 =? p)|]; lia).
        apply (proj1 IH Hr h b). exact Hg.
    + intros Hf. assert (Hr : cnt r p = 0) by (apply IH; intros h b Hg; apply (Hf (S h) b); exact Hg).
      destruct x as [b|]; cbn [cnt]; [|exact Hr]. specialize (Hf O b eq_refl). destruct (Z.eqb_spec (b_pkg b) p); [contradiction|lia].
Qed.

(* ---------- orphaning the blocks of a package ------------------------------------------------------------------ *)
Lemma cnt_orphan H i p : i <> -2 ->
  cnt (orphan H i) p = if p =? i then 0 else if p =? -2 then cnt H (-2) + cnt H i else cnt H p.
Proof.
  intros Hi. induction H as [|[b|] r IH]; cbn [orphan map].
  - cbn [cnt]. destruct (p =? i), (p =? -2); reflexivity.
  - fold (orphan r i). destruct (Z.eqb_spec (b_pkg b) i) as [E|E]; cbn [cnt with_pkg b_pkg]; rewrite IH;
      repeat match goal with |- context [?a =? ?b] => destruct (Z.eqb_spec a b) end; lia.
  - fold (orphan r i). cbn [cnt]. exact IH.
Qed.

Lemma lget_orphan H i h : lget (orphan H i) h =
  match lget H h with Some b => Some (if b_pkg b =? i then with_pkg b (-2) else b) | None => None end.
Proof.
  unfold orphan, lget. revert h; induction H as [|x r IH]; intros [|h]; cbn [map nth]; try reflexivity.
  - destruct x as [b|]; [destruct (b_pkg b =? i)|]; reflexivity.
  - apply IH.
Qed.

Lemma length_orphan H i : length (orphan H i) = length H.
Proof. apply map_length. Qed.

(* ---------- free (alloc_ptr) finds the block -------------------------------------------------------------------- *)
Lemma find_raw_some H a i h : find_raw H a i = Some h ->
  (i <= h)%nat /\ exists b, lget H (h - i) = Some b /\ b_raw b = a.
Proof.
  revert i; induction H as [|x r IH]; intros i Hf; [discriminate|].
  cbn [find_raw] in Hf. destruct x as [b|].
  - destruct (b_raw b =? a) eqn:E.
    + inversion Hf; subst. split; [lia|]. rewrite Nat.sub_diag. exists b. split; [reflexivity|lia].
    + destruct (IH _ Hf) as [Hle [b' [Hg Hr]]]. split; [lia|]. exists b'. split; [|exact Hr].
      replace (h - i)%nat with (S (h - S i)) by lia. exact Hg.
  - destruct (IH _ Hf) as [Hle [b' [Hg Hr]]]. split; [lia|]. exists b'. split; [|exact Hr].
    replace (h - i)%nat with (S (h - S i)) by lia. exact Hg.
Qed.

Lemma find_raw_total H a i h b : lget H h = Some b -> b_raw b = a -> exists h', find_raw H a i = Some h'.
Proof.
  revert i h; induction H as [|x r IH]; intros i h Hg Hr; [rewrite lget_nil in Hg; discriminate|].
  cbn [find_raw]. destruct h as [|h].
  - unfold lget in Hg. cbn [nth] in Hg. subst x. replace (b_raw b =? a) with true by lia. eauto.
  - destruct x as [b0|]; [destruct (b_raw b0 =? a); [eauto|]|]; eapply IH; eassumption.
Qed.

Definition raws_distinct (H : list (option blk)) : Prop :=
  forall h1 h2 b1 b2, lget H h1 = Some b1 -> lget H h2 = Some b2 -> b_raw b1 = b_raw b2 -> h1 = h2.

Lemma find_raw_unique H h b : raws_distinct H -> lget H h = Some b -> find_raw H (b_raw b) 0 = Some h.
Proof.
  intros Hd Hg. destruct (find_raw_total H (b_raw b) 0 h b Hg eq_refl) as [h' Hf].
  destruct (find_raw_some _ _ _ _ Hf) as [_ [b' [Hg' Hr]]]. rewrite Nat.sub_0_r in Hg'.
  rewrite Hf. f_equal. apply (Hd h' h b' b Hg' Hg Hr).
Qed.

(* ---------- package table ------------------------------------------------------------------------------------------ *)
Lemma length_setp l i v : length (setp l i v) = length l.
Proof. revert i; induction l as [|x r IH]; intros [|i]; cbn [setp length]; try reflexivity. rewrite IH. reflexivity. Qed.

Lemma nth_setp l i v j : nth j (setp l i v) pkg0 = if (Nat.eqb i j && Nat.ltb i (length l))%bool then v else nth j l pkg0.
Proof.
  revert i j; induction l as [|x r IH]; intros i j.
  - cbn [setp length]. destruct i, j; cbn; try reflexivity; rewrite ?andb_false_r; reflexivity.
  - destruct i as [|i], j as [|j]; cbn [setp nth length Nat.eqb]; try reflexivity.
    rewrite IH. replace (Nat.ltb (S i) (S (length r))) with (Nat.ltb i (length r)) by reflexivity. reflexivity.
Qed.

(* ---------- the two words ------------------------------------------------------------------------------------------- *)
Lemma uoff_range raw : 16 <= aligned_ptr ALIGN raw - raw < 24.
Proof. unfold aligned_ptr, EXTRA, ALIGN. pose proof (shift_range 8 raw ltac:(lia)). unfold ALIGN in *. lia. Qed.

Section Junk.
  Variable junk : nat -> Z -> Z.
  Lemma mkjunk_from_length b i n : length (mkjunk_from junk b i n) = n.
  Proof. revert i; induction n as [|n IH]; intros i; cbn [mkjunk_from length]; [reflexivity|]. rewrite IH. reflexivity. Qed.
End Junk.

(* block well-formedness: sizes in range, raw block of alloc_size bytes, the words hold raw pointer and size *)
Definition blk_wf (b : blk) : Prop :=
  0 <= b_raw b /\ 0 <= b_size b /\ b_raw b + alloc_size ALIGN (b_size b) < MAXA /\
  len (b_mem b) = alloc_size ALIGN (b_size b) /\ word_m1 b = b_raw b /\ word_m2 b = b_size b.

Lemma fresh_block_wf junk h tag raw size :
  0 <= raw -> 0 <= size -> raw + alloc_size ALIGN size < MAXA ->
  let ptr := aligned_ptr ALIGN raw in
  let mem0 := mkjunk_from junk h 0 (Z.to_nat (alloc_size ALIGN size)) in
  blk_wf (mkblk tag raw size (upd (upd mem0 (ptr - raw - 8) (le64_enc raw)) (ptr - raw - 16) (le64_enc size))).
Proof.
  intros Hr Hs Hb ptr mem0. pose proof (uoff_range raw) as Hu. fold ptr in Hu.
  assert (Hl0 : len mem0 = alloc_size ALIGN size).
  { unfold len. subst mem0. rewrite mkjunk_from_length. unfold alloc_size, EXTRA, ALIGN. lia. }
  assert (HM : MAXA = 4611686018427387904) by reflexivity.
  unfold alloc_size, EXTRA, ALIGN in *.
  assert (Hl1 : len (upd mem0 (ptr - raw - 8) (le64_enc raw)) = len mem0) by (apply len_upd; rewrite ?len_le64; lia).
  assert (Hl2 : len (upd (upd mem0 (ptr - raw - 8) (le64_enc raw)) (ptr - raw - 16) (le64_enc size)) = len mem0).
  { rewrite len_upd; rewrite ?len_le64; lia. }
  unfold blk_wf, word_m1, word_m2, b_uoff, b_ptr. cbn [b_raw b_size b_mem]. unfold alloc_size, EXTRA, ALIGN in *. fold ptr.
  repeat split; try lia.
  - rewrite sub_upd_after by (rewrite ?len_le64; lia).
    rewrite <- (len_le64 raw) at 2. rewrite sub_upd_same by (rewrite ?len_le64; lia).
    apply le64_dec_enc. change (2 ^ 64) with 18446744073709551616. lia.
  - rewrite <- (len_le64 size) at 2. rewrite sub_upd_same by (rewrite ?len_le64; lia).
    apply le64_dec_enc. change (2 ^ 64) with 18446744073709551616. lia.
Qed.

(* a write inside the user area leaves both words alone *)
Lemma user_write_wf b off d : blk_wf b -> 0 <= off -> off + len d <= b_size b ->
  blk_wf (with_mem b (upd (b_mem b) (b_uoff b + off) d)).
Proof.
  intros (H1 & H2 & H3 & H4 & H5 & H6) Ho Hd. pose proof (uoff_range (b_raw b)) as Hu.
  pose proof (len_nonneg d) as Hd0.
  unfold blk_wf, word_m1, word_m2, b_uoff, b_ptr in *. cbn [with_mem b_raw b_size b_mem b_pkg].
  unfold alloc_size, EXTRA, ALIGN in *.
  repeat split; try assumption.
  - rewrite len_upd; lia.
  - rewrite sub_upd_before by lia. exact H5.
  - rewrite sub_upd_before by lia. exact H6.
Qed.

Lemma user_write_read b off d : blk_wf b -> 0 <= off -> off + len d <= b_size b ->
  sub (b_mem (with_mem b (upd (b_mem b) (b_uoff b + off) d))) (b_uoff b + off) (len d) = d.
Proof.
  intros (H1 & H2 & H3 & H4 & H5 & H6) Ho Hd. pose proof (uoff_range (b_raw b)) as Hu.
  cbn [with_mem b_mem]. unfold b_uoff, b_ptr in *. unfold alloc_size, EXTRA, ALIGN in *.
  apply sub_upd_same; lia.
Qed.
