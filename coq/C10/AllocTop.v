(* C10 - every legal history: the ledger is exact.  Content of blocks under calloc / realloc.  Finalize. *)
From Coq Require Import ZArith Lia List Bool ZifyBool.
From ScV Require Import C10.AllocBase C10.AllocLists C10.AllocModel C10.AllocArith C10.AllocInv C10.AllocSteps C10.AllocPkg.
Import ListNotations.
Local Open Scope Z_scope.

Section Top.
  Variable junk : nat -> Z -> Z.
  Notation step := (step junk).
  Notation exec := (exec junk).
  Notation run := (run junk).

  Ltac bools H := repeat (apply andb_prop in H; let G := fresh "L" in destruct H as [H G]).

  Lemma exec_Inv st o : Inv st -> legal_step st o = true -> Inv (fst (exec st o)).
  Proof.
    intros HInv HL. destruct o; cbn [legal_step] in HL; cbn [AllocModel.exec].
    - (* malloc *) apply andb_prop in HL. destruct HL as [Hp Hf].
      pose proof (sc_malloc_Inv junk st p n raw HInv Hp Hf) as H. destruct (sc_malloc junk st p n raw) as [[st1 h] out]. exact H.
    - (* calloc *) bools HL.
      pose proof (sc_calloc_Inv junk st p nmemb size raw HInv HL L) as H. destruct (sc_calloc junk st p nmemb size raw) as [[st1 h] out]. exact H.
    - (* realloc *) bools HL. apply (sc_realloc_Inv junk st p h n raw HInv HL L0). destruct h; [exact I|exact L].
    - (* strdup *) apply andb_prop in HL. destruct HL as [Hp Hs]. apply (sc_strdup_Inv junk st p s raw HInv Hp).
      destruct s as [str|]; [|exact I]. apply andb_prop in Hs. destruct Hs as [Hs _]. exact Hs.
    - (* free *) apply andb_prop in HL. destruct HL as [Hp Ho]. cbn [fst]. apply (sc_free_Inv junk st p h HInv Hp). destruct h; [exact I|exact Ho].
    - (* write *) destruct (hget st h) as [b|] eqn:Hg; [|discriminate]. bools HL. cbn [fst]. apply (write_Inv junk st h off d b HInv Hg); lia.
    - (* read *) destruct (hget st h) as [b|] eqn:Hg; [|discriminate]. exact HInv.
    - (* register *) pose proof (register_Inv st name HInv) as H. destruct (register st name) as [st1 id]. exact H.
    - (* unregister *) apply andb_prop in HL. destruct HL as [Hr _].
      pose proof (unregister_Inv st id HInv Hr) as H. destruct (unregister_noabort st id) as [st1 e]. exact H.
    - exact HInv.
    - exact HInv.
    - (* rc *) cbn [fst]. destruct (add_rc_facts st p k HL) as (F1 & F2 & F3 & F4).
      apply (Inv_intro st _ HInv).
      + apply (HeapInv_same_heap st _ (proj1 HInv) F1 F2 F3).
      + exact F3.
      + intros q Hq. rewrite F1, (F4 q Hq). lia.
    - (* finalize *) pose proof (finalize_Inv st HInv) as H. destruct (finalize st) as [st1 e]. exact H.
  Qed.

  Lemma step_Inv st o : Inv st -> legal_step st o = true -> Inv (step st o).
  Proof.
    intros HInv HL. pose proof (exec_Inv st o HInv HL) as H. unfold AllocModel.step.
    destruct (exec st o) as [st1 out]. apply Inv_push_out. exact H.
  Qed.

  Lemma run_from_Inv ops : forall st, Inv st -> legal_from junk st ops = true -> Inv (fold_left step ops st).
  Proof.
    induction ops as [|o r IH]; intros st HInv HL; [exact HInv|]. cbn [legal_from] in HL. apply andb_prop in HL.
    destruct HL as [H1 H2]. cbn [fold_left]. apply IH; [apply step_Inv; assumption|exact H2].
  Qed.

  Theorem run_Inv ops : legal junk ops = true -> Inv (run ops).
  Proof. intros HL. apply run_from_Inv; [apply Inv_init|exact HL]. Qed.

  (* the ledger: for the default package and every registered package, sc_memory_status = number of live blocks *)
  Theorem status_exact ops p : legal junk ops = true -> pkg_ok (run ops) p = true ->
    status (run ops) p = nlive (run ops) p.
  Proof. intros HL Hp. rewrite nlive_cnt. apply (proj2 (run_Inv ops HL) p Hp). Qed.

  (* ... after every call of the history, not only at its end *)
  Lemma legal_from_app st a b : legal_from junk st (a ++ b) = true -> legal_from junk st a = true.
  Proof.
    revert st; induction a as [|o r IH]; intros st H; [reflexivity|]. cbn [app legal_from] in *.
    apply andb_prop in H. destruct H as [H1 H2]. rewrite H1. apply IH. exact H2.
  Qed.

  Theorem status_exact_always ops1 ops2 p : legal junk (ops1 ++ ops2) = true -> pkg_ok (run ops1) p = true ->
    status (run ops1) p = nlive (run ops1) p.
  Proof. intros HL. apply status_exact. apply (legal_from_app init ops1 ops2 HL). Qed.

  (* no call of a legal history ever fails to find the raw block through the bookkeeping words *)
  Theorem never_bad ops : legal junk ops = true -> s_bad (run ops) = false.
  Proof. intros HL. exact (H_bad _ (proj1 (run_Inv ops HL))). Qed.

  (* every live block of a legal history: the two words in front of the user pointer hold raw pointer and size,
     the raw block has extrasize + size + alignment bytes, and distinct blocks have distinct raw addresses *)
  Theorem blocks_wf ops h b : legal junk ops = true -> hget (run ops) h = Some b ->
    word_m1 b = b_raw b /\ word_m2 b = b_size b /\ len (b_mem b) = alloc_size ALIGN (b_size b) /\ 0 <= b_size b /\
    len (b_user b) = b_size b.
  Proof.
    intros HL Hg. pose proof (H_wf _ (proj1 (run_Inv ops HL)) h b Hg) as Hw. pose proof Hw as (W1 & W2 & W3 & W4 & W5 & W6).
    repeat split; try assumption. unfold b_user. apply (len_user_sub junk); [exact Hw|lia].
  Qed.

  (* if nothing obtained for p is live, the counter is back at zero: create ... destroy leaves the ledger unchanged *)
  Theorem balanced_when_returned ops p : legal junk ops = true -> pkg_ok (run ops) p = true ->
    live_blocks (run ops) p = [] -> status (run ops) p = 0.
  Proof. intros HL Hp Hn. rewrite (status_exact ops p HL Hp). unfold nlive. rewrite Hn. reflexivity. Qed.
End Top.

(* ---------- package ids -------------------------------------------------------------------------------------------------- *)
(* the id returned by register is not the id of a live package, it is the lowest such id, every other package keeps its
   registration, and the new package starts with status 0 *)
Theorem register_fresh st name : let '(st', id) := register st name in
  0 <= id /\ is_reg st id = false /\ is_reg st' id = true /\ (forall j, 0 <= j < id -> is_reg st j = true) /\
  (forall q, q <> id -> is_reg st' q = is_reg st q) /\ status st' id = 0 /\
  (id < nalloc st \/ (id = nalloc st /\ nalloc st' = 2 * nalloc st + 1)).
Proof.
  pose proof (register_spec st name) as S. destruct (register st name) as [st' id].
  destruct S as (S1 & S2 & S3 & S4 & _ & _ & _ & _ & _ & S10 & S11).
  split; [exact S1|]. split; [exact S2|]. split; [rewrite S11, Z.eqb_refl; apply orb_true_r|]. split; [exact S3|]. split.
  - intros q Hq. rewrite S11. replace (q =? id) with false by lia. apply orb_false_r.
  - split; [|exact S4]. unfold status. replace (id =? -1) with false by lia. rewrite (S10 id S1), Z.eqb_refl. reflexivity.
Qed.

(* an id that was unregistered is free again: the next registration returns an id not above it (lowest unused slot) *)
Theorem unregister_then_register st id name : is_reg st id = true ->
  let st1 := fst (unregister_noabort st id) in
  is_reg st1 id = false /\ (forall q, q <> id -> is_reg st1 q = is_reg st q) /\ snd (register st1 name) <= id.
Proof.
  intros Hr. pose proof (unregister_spec st id Hr) as S. destruct (unregister_noabort st id) as [st1 e]. cbn [fst].
  destruct S as (_ & _ & _ & _ & _ & _ & _ & _ & S9).
  assert (H1 : is_reg st1 id = false) by (rewrite S9, Z.eqb_refl; apply andb_false_r).
  split; [exact H1|]. split.
  - intros q Hq. rewrite S9. replace (q =? id) with false by lia. apply andb_true_r.
  - pose proof (register_spec st1 name) as R. destruct (register st1 name) as [st2 id2]. cbn [snd].
    destruct R as (R1 & _ & R3 & _). destruct (Z_le_gt_dec id2 id) as [L|G]; [exact L|].
    assert (0 <= id) by (unfold is_reg in Hr; lia). specialize (R3 id ltac:(lia)). congruence.
Qed.

(* ---------- content: calloc is zero, realloc keeps min (old, new) bytes, a write is read back ----------------------------- *)
Section Content.
  Variable junk : nat -> Z -> Z.

  Theorem calloc_zero st p nm sz raw : HeapInv st -> pkg_ok st p = true -> raw_fresh st raw (nm * sz) = true ->
    let '(st1, h, out) := sc_calloc junk st p nm sz raw in
    exists b, hget st1 h = Some b /\ b_pkg b = p /\ b_size b = nm * sz /\ b_user b = repeat 0 (Z.to_nat (nm * sz)) /\
              b_ptr b mod ALIGN = 0.
  Proof.
    intros HI Hp Hf. destruct (raw_fresh_spec _ _ _ Hf) as (Hr0 & Hn0 & _).
    unfold sc_calloc. cbv zeta. rewrite malloc_aligned_eq. cbv beta iota. rewrite (ptr_nonzero raw Hr0).
    set (n := nm * sz) in *.
    destruct (malloc_aligned_Inv junk st p n raw HI Hp Hf) as (HI1 & Hg1 & _).
    set (st1 := set_heap st (s_heap st ++ [Some (fresh_blk junk st p raw n)])) in *. rewrite Hg1.
    set (b := fresh_blk junk st p raw n) in *.
    set (b' := with_mem b (upd (b_mem b) (aligned_ptr ALIGN raw - raw) (repeat 0 (Z.to_nat n)))).
    set (st2 := set_heap st1 (lset (s_heap st1) (length (s_heap st)) (Some b'))).
    assert (Hg2 : hget st2 (length (s_heap st)) = Some b').
    { unfold hget. subst st2. cbn [set_heap s_heap]. apply lget_lset_same. }
    assert (Hfin : forall st3, s_heap st3 = s_heap st2 -> exists b0, hget st3 (length (s_heap st)) = Some b0 /\ b_pkg b0 = p /\ b_size b0 = n /\
                     b_user b0 = repeat 0 (Z.to_nat n) /\ b_ptr b0 mod ALIGN = 0).
    { intros st3 E. exists b'. unfold hget. rewrite E. split; [exact Hg2|]. split; [reflexivity|]. split; [reflexivity|]. split.
      - pose proof (fresh_blk_wf junk st p raw n Hf) as (W1 & W2 & W3 & W4 & _). fold b in W1, W2, W3, W4.
        pose proof (uoff_range raw) as Hu.
        unfold b_user, b_uoff, b_ptr. subst b'. cbn [with_mem b_mem b_raw b_size]. change (b_raw b) with raw. change (b_size b) with n.
        assert (Hlz : len (repeat 0 (Z.to_nat n)) = n) by (rewrite len_repeat; lia).
        change (b_size b) with n in W4.
        pose proof (sub_upd_same (b_mem b) (aligned_ptr ALIGN raw - raw) (repeat 0 (Z.to_nat n)) ltac:(lia)
                      ltac:(rewrite Hlz, W4; unfold alloc_size, EXTRA, ALIGN in *; lia)) as HS.
        rewrite Hlz in HS. exact HS.
      - unfold b_ptr. change (b_raw b') with raw. apply aligned_ptr_mod. reflexivity. }
    destruct (add_mc_facts st2 p 1 Hp) as (F1 & _).
    destruct (0 <? n); apply Hfin; exact F1.
  Qed.

  Theorem realloc_keeps st p h b n raw : HeapInv st -> hget st h = Some b -> pkg_ok st p = true -> raw_fresh st raw n = true ->
    let '(st1, h1, ptr) := realloc_aligned junk st p h ALIGN n raw in
    exists nb, hget st1 h1 = Some nb /\ hget st1 h = None /\ b_size nb = n /\ ptr = b_ptr nb /\ ptr mod ALIGN = 0 /\
               let m := Z.min (b_size b) n in sub (b_user nb) 0 m = sub (b_user b) 0 m.
  Proof.
    intros HI Hg Hp Hf. destruct (realloc_aligned_eq junk st p h b n raw HI Hg Hf Hp) as [-> Hwn].
    destruct (raw_fresh_spec _ _ _ Hf) as (Hr0 & Hn0 & _).
    assert (Hlt : (h < length (s_heap st))%nat) by (apply (lget_some_lt _ _ _ Hg)).
    pose proof (H_wf _ HI h b Hg) as Hwb. pose proof Hwb as (B1 & B2 & B3 & B4 & B5 & B6).
    set (nb := realloc_blk junk st b p raw n) in *.
    exists nb. unfold hget. cbn [set_heap s_heap]. rewrite (lset_app_l junk) by exact Hlt.
    split; [rewrite <- (length_lset (s_heap st) h None Hlt); apply lget_app_len|].
    split; [rewrite lget_app_l by (rewrite length_lset by exact Hlt; exact Hlt); apply lget_lset_same|].
    split; [reflexivity|]. split; [reflexivity|]. split; [apply aligned_ptr_mod; reflexivity|]. cbv zeta.
    set (m := Z.min (b_size b) n).
    pose proof (uoff_range raw) as Hu. pose proof (uoff_range (b_raw b)) as Hub.
    pose proof Hwn as (N1 & N2 & N3 & N4 & _). change (b_size nb) with n in *. change (b_raw nb) with raw in *.
    assert (Hm : 0 <= m /\ m <= n /\ m <= b_size b) by (subst m; lia).
    unfold b_user. change (b_size nb) with n. change (b_uoff nb) with (aligned_ptr ALIGN raw - raw).
    assert (Hub' : 16 <= b_uoff b < 24) by exact Hub.
    rewrite !sub_sub by lia. rewrite !Z.add_0_r.
    unfold nb, realloc_blk. cbv zeta. cbn [with_mem b_mem]. rewrite B6. fold m.
    assert (Hld : len (sub (b_mem b) (b_uoff b) m) = m) by (apply (len_user_sub junk b m Hwb); lia).
    pose proof (fresh_blk_wf junk st p raw n Hf) as (_ & _ & _ & W4 & _). cbn [fresh_blk b_mem b_size] in W4.
    pose proof (sub_upd_same _ (aligned_ptr ALIGN raw - raw) (sub (b_mem b) (b_uoff b) m) ltac:(lia)
                  ltac:(rewrite Hld; cbn [fresh_blk b_mem]; rewrite W4; unfold alloc_size, EXTRA, ALIGN in *; lia)) as HS.
    rewrite Hld in HS. exact HS.
  Qed.

  Theorem write_read b off d : blk_wf b -> 0 <= off -> off + len d <= b_size b ->
    let b' := with_mem b (upd (b_mem b) (b_uoff b + off) d) in
    sub (b_user b') off (len d) = d /\
    (forall q m, 0 <= q -> 0 <= m -> q + m <= off -> sub (b_user b') q m = sub (b_user b) q m) /\
    (forall q m, off + len d <= q -> 0 <= m -> q + m <= b_size b -> sub (b_user b') q m = sub (b_user b) q m).
  Proof.
    intros Hw Ho Hd b'. pose proof Hw as (B1 & B2 & B3 & B4 & B5 & B6). pose proof (uoff_range (b_raw b)) as Hu.
    pose proof (len_nonneg d) as Hd0.
    unfold b_user, b'. cbn [with_mem b_mem b_size b_raw]. change (b_uoff (with_mem b (upd (b_mem b) (b_uoff b + off) d))) with (b_uoff b).
    unfold b_uoff, b_ptr in *. unfold alloc_size, EXTRA, ALIGN in *.
    split; [|split].
    - rewrite sub_sub by lia. apply sub_upd_same; lia.
    - intros q m Hq Hm Hqm. rewrite !sub_sub by lia. apply sub_upd_before; lia.
    - intros q m Hq Hm Hqm. rewrite !sub_sub by lia. apply sub_upd_after; lia.
  Qed.
End Content.

(* ---------- sc_memory_check_noerr and sc_finalize_noabort ------------------------------------------------------------------ *)
Lemma check_nonneg st p : 0 <= check_noerr st p.
Proof.
  unfold check_noerr. destruct (p =? -1); [destruct (s_drc st =? 0), (s_dmc st =? s_dfc st); lia|].
  destruct (negb (is_reg st p)); [lia|]. destruct (p_rc (pget st p) =? 0), (p_mc (pget st p) =? p_fc (pget st p)); lia.
Qed.

(* zero errors for a package iff it is known, its status is 0 and no reference is active *)
Theorem check_zero_iff st p : -1 <= p ->
  (check_noerr st p = 0 <-> pkg_ok st p = true /\ status st p = 0 /\ (if p =? -1 then s_drc st else p_rc (pget st p)) = 0).
Proof.
  intros Hp. unfold check_noerr, pkg_ok, status. destruct (Z.eqb_spec p (-1)) as [E|E].
  - cbn [orb]. destruct (Z.eqb_spec (s_drc st) 0), (Z.eqb_spec (s_dmc st) (s_dfc st)); split; intros H; try lia;
      try (repeat split; try reflexivity; lia); destruct H as (_ & H1 & H2); lia.
  - cbn [orb]. destruct (is_reg st p); cbn [negb].
    + destruct (Z.eqb_spec (p_rc (pget st p)) 0), (Z.eqb_spec (p_mc (pget st p)) (p_fc (pget st p))); split; intros H; try lia;
        try (repeat split; try reflexivity; lia); destruct H as (_ & H1 & H2); lia.
    + split; [lia|intros [H _]; discriminate].
Qed.

Fixpoint errs_upto (st : state) (n : nat) : Z :=
  match n with O => 0 | S i => (if is_reg st (Z.of_nat i) then check_noerr st (Z.of_nat i) else 0) + errs_upto st i end.

Lemma errs_upto_nonneg st n : 0 <= errs_upto st n.
Proof. induction n as [|i IH]; cbn [errs_upto]; [lia|]. pose proof (check_nonneg st (Z.of_nat i)). destruct (is_reg st (Z.of_nat i)); lia. Qed.

Lemma errs_upto_zero st n : errs_upto st n = 0 <-> forall j, 0 <= j < Z.of_nat n -> is_reg st j = true -> check_noerr st j = 0.
Proof.
  induction n as [|i IH]; cbn [errs_upto]; [split; [intros _ j Hj; lia|reflexivity]|].
  pose proof (errs_upto_nonneg st i). pose proof (check_nonneg st (Z.of_nat i)). split.
  - intros H1 j Hj Hr. destruct (Z.eq_dec j (Z.of_nat i)) as [->|N].
    + rewrite Hr in H1. lia.
    + apply IH; [destruct (is_reg st (Z.of_nat i)); lia|lia|exact Hr].
  - intros Hall. assert (E : errs_upto st i = 0) by (apply IH; intros j Hj Hr; apply Hall; [lia|exact Hr]). rewrite E.
    destruct (is_reg st (Z.of_nat i)) eqn:Er; [|reflexivity]. rewrite (Hall (Z.of_nat i)); [reflexivity|lia|exact Er].
Qed.

Lemma errs_upto_ext st st' n : (forall j, 0 <= j < Z.of_nat n -> is_reg st' j = is_reg st j /\ check_noerr st' j = check_noerr st j) ->
  errs_upto st' n = errs_upto st n.
Proof.
  induction n as [|i IH]; intros H; cbn [errs_upto]; [reflexivity|].
  destruct (H (Z.of_nat i) ltac:(lia)) as [-> ->]. rewrite IH; [reflexivity|]. intros j Hj. apply H. lia.
Qed.

Lemma fin_loop_errs n : forall st e, Z.of_nat n <= nalloc st -> snd (fin_loop n st e) = e + errs_upto st n.
Proof.
  induction n as [|i IH]; intros st e Hn; cbn [fin_loop errs_upto]; [cbn; lia|].
  assert (Hreg : is_reg st (Z.of_nat i) = p_reg (pget st (Z.of_nat i))) by (unfold is_reg; destruct (p_reg (pget st (Z.of_nat i))); lia).
  rewrite Hreg. destruct (p_reg (pget st (Z.of_nat i))) eqn:Er.
  - pose proof (unregister_spec st (Z.of_nat i) ltac:(rewrite Hreg; reflexivity)) as S.
    destruct (unregister_noabort st (Z.of_nat i)) as [st1 e1]. destruct S as (S1 & _ & _ & S4 & S5 & S6 & S7 & S8 & S9).
    rewrite IH by lia. subst e1. rewrite (errs_upto_ext st st1 i); [lia|].
    intros j Hj. split.
    + rewrite S9. replace (j =? Z.of_nat i) with false by lia. apply andb_true_r.
    + unfold check_noerr. replace (j =? -1) with false by lia. rewrite S9, (S8 j ltac:(lia)). replace (j =? Z.of_nat i) with false by lia.
      rewrite andb_true_r. reflexivity.
  - rewrite IH by lia. lia.
Qed.

(* sc_finalize_noabort reports zero errors exactly when every registered package and the default package are balanced *)
Theorem finalize_zero_iff st : Inv st ->
  (snd (finalize st) = 0 <-> (forall i, is_reg st i = true -> check_noerr st i = 0) /\ check_noerr st (-1) = 0).
Proof.
  intros HInv. unfold finalize.
  pose proof (fin_loop_errs (length (s_pkgs st)) st 0 ltac:(unfold nalloc; lia)) as E.
  pose proof (fin_loop_Inv (length (s_pkgs st)) st 0 HInv ltac:(unfold nalloc; lia)) as F.
  destruct (fin_loop (length (s_pkgs st)) st 0) as [st1 e1]. cbn [snd] in *.
  destruct F as (_ & _ & B3 & B4 & B5 & _).
  assert (Hc : check_noerr st1 (-1) = check_noerr st (-1)) by (unfold check_noerr; cbn; rewrite B3, B4, B5; reflexivity).
  rewrite Hc, E. pose proof (errs_upto_nonneg st (length (s_pkgs st))). pose proof (check_nonneg st (-1)).
  split.
  - intros H1. split; [|lia]. intros i Hr. apply (proj1 (errs_upto_zero st (length (s_pkgs st))) ltac:(lia)); [|exact Hr].
    unfold is_reg, nalloc in Hr. lia.
  - intros [H1 H2]. rewrite H2. rewrite (proj2 (errs_upto_zero st (length (s_pkgs st)))); [reflexivity|]. intros j _ Hr. apply H1. exact Hr.
Qed.

(* in terms of the ledger: for a legal history, finalize = 0 iff no block of the default or a registered package is live
   and no reference counter is active *)
Theorem finalize_zero_ledger junk ops : legal junk ops = true ->
  (snd (finalize (run junk ops)) = 0 <->
   (forall p, pkg_ok (run junk ops) p = true -> nlive (run junk ops) p = 0 /\ (if p =? -1 then s_drc (run junk ops) else p_rc (pget (run junk ops) p)) = 0)).
Proof.
  intros HL. pose proof (run_Inv junk ops HL) as HInv. set (st := run junk ops) in *.
  rewrite (finalize_zero_iff st HInv). split.
  - intros [H1 H2] p Hp. rewrite nlive_cnt, <- (proj2 HInv p Hp).
    destruct (Z.eq_dec p (-1)) as [->|N].
    + destruct (proj1 (check_zero_iff st (-1) ltac:(lia)) H2) as (_ & A & B). split; assumption.
    + pose proof (pkg_ok_reg st p Hp N) as Hr. assert (-1 <= p) by (unfold is_reg in Hr; lia).
      destruct (proj1 (check_zero_iff st p ltac:(lia)) (H1 p Hr)) as (_ & A & B). split; assumption.
  - intros H. split.
    + intros i Hr. assert (Hp : pkg_ok st i = true) by (unfold pkg_ok; rewrite Hr; apply orb_true_r).
      destruct (H i Hp) as [A B]. apply check_zero_iff; [unfold is_reg in Hr; lia|]. split; [exact Hp|]. split; [|exact B].
      rewrite (proj2 HInv i Hp), <- nlive_cnt. exact A.
    + destruct (H (-1) eq_refl) as [A B]. apply check_zero_iff; [lia|]. split; [reflexivity|]. split; [|exact B].
      rewrite (proj2 HInv (-1) eq_refl), <- nlive_cnt. exact A.
Qed.
