(* C10 - the pointer arithmetic of libsc's padding allocator (sc_malloc_aligned, src/sc.c). *)
From Coq Require Import ZArith Lia List Bool.
From ScV Require Import C10.AllocBase C10.AllocModel.
Import ListNotations.
Local Open Scope Z_scope.
Ltac Zify.zify_post_hook ::= Z.div_mod_to_equations.

Lemma shift_range al raw : 0 < al -> 0 <= shift_of al raw < al.
Proof. intros. unfold shift_of. cbv zeta. apply Z.mod_pos_bound. lia. Qed.

(* the returned pointer is a multiple of the alignment *)
Lemma aligned_ptr_mod al raw : 0 < al -> aligned_ptr al raw mod al = 0.
Proof.
  intros Hal. unfold aligned_ptr, shift_of, EXTRA. cbv zeta.
  set (m := (raw + 16) mod al).
  assert (Hm : 0 <= m < al) by (apply Z.mod_pos_bound; lia).
  destruct (Z.eq_dec m 0) as [E|E].
  - rewrite E, Z.sub_0_r, Z.mod_same by lia. replace (raw + (16 + 0)) with (raw + 16) by lia. exact E.
  - rewrite (Z.mod_small (al - m)) by lia.
    replace (raw + (16 + (al - m))) with ((raw + 16 - m) + 1 * al) by lia.
    rewrite Z.mod_add by lia. subst m. rewrite Zminus_mod_idemp_r. rewrite Z.sub_diag. apply Z.mod_0_l. lia.
Qed.

(* layout of the raw block [raw, raw + alloc_size): the two bookkeeping words [ptr - 16, ptr) and the user area
   [ptr, ptr + size) lie inside it, the user area starts at most alignment - 1 bytes behind the words' earliest
   position, and at least one byte is left behind the user area *)
Lemma aligned_layout al raw size : 0 < al -> 0 <= size ->
  let p := aligned_ptr al raw in
  raw <= p - EXTRA /\ p - EXTRA < raw + al /\ p + size < raw + alloc_size al size.
Proof.
  intros Hal Hs p. subst p. unfold aligned_ptr, alloc_size. pose proof (shift_range al raw Hal). unfold EXTRA in *. lia.
Qed.

(* the shift is the LEAST one that aligns: no aligned address in [raw + 16, ptr) *)
Lemma aligned_least al raw q : 0 < al -> raw + EXTRA <= q -> q mod al = 0 -> aligned_ptr al raw <= q.
Proof.
  intros Hal Hq Hm. unfold aligned_ptr, shift_of, EXTRA in *. cbv zeta.
  set (m := (raw + 16) mod al). assert (Hmr : 0 <= m < al) by (apply Z.mod_pos_bound; lia).
  destruct (Z.eq_dec m 0) as [E|E].
  - rewrite E, Z.sub_0_r, Z.mod_same by lia. lia.
  - rewrite (Z.mod_small (al - m)) by lia.
    (* q = al * k, raw + 16 = al * j + m with 0 < m: q >= al * (j + 1) *)
    pose proof (Z.div_mod (raw + 16) al ltac:(lia)) as D1. fold m in D1.
    pose proof (Z.div_mod q al ltac:(lia)) as D2. rewrite Hm in D2.
    assert ((raw + 16) / al < q / al) by nia. nia.
Qed.
