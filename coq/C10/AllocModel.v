(* C10 - executable model of the allocation layer of src/sc.c in the pinned configuration
   (SC_ENABLE_MEMALIGN on, SC_HAVE_ANY_MEMALIGN undefined by sc.h, SC_MEMALIGN_BYTES = sizeof (void * ) = 8,
   counters on, no pthreads):

   * sc_malloc_aligned / sc_free_aligned / sc_realloc_aligned: libsc's own padding allocator.  A raw block of
     extrasize + size + alignment bytes is obtained from malloc at address `raw`; the user pointer is
     raw + extrasize + shift with shift = (alignment - (raw + extrasize) mod alignment) mod alignment; the raw pointer
     and the size are stored in the two words in front of the user pointer.  The model keeps the raw block as a byte list
     (initial content arbitrary: `junk`), WRITES the two words little-endian into it and READS them back where the C code
     does (old size in realloc, raw pointer in free), so that "the bookkeeping is intact" is a theorem.
   * sc_malloc / sc_calloc / sc_realloc / sc_strdup / sc_free with their counting statements, branch by branch.
   * the package table: sc_package_register (first unused slot, otherwise growth to 2n+1 slots), sc_package_unregister
     (sc_package_unregister_noabort), sc_package_is_registered, sc_memory_status, sc_memory_check_noerr,
     sc_package_rc_count_add, sc_finalize_noabort.
   Ghost fields (not in the C code): the package a block was obtained for (b_pkg; -2 once that package was
   unregistered with the block still live) and the requested size (b_size).  No proofs in this file. *)
From Coq Require Import ZArith List Bool.
From ScV Require Import C10.AllocBase.
Import ListNotations.
Local Open Scope Z_scope.

Definition EXTRA : Z := 16.          (* 2 * sizeof (char ** ) *)
Definition ALIGN : Z := 8.           (* SC_MEMALIGN_BYTES *)
Definition MAXA : Z := 2 ^ 62.       (* addresses and sizes stay below this bound *)

(* ---------- the pointer arithmetic of sc_malloc_aligned ----------------------------------------------- *)
Definition alloc_size (al size : Z) : Z := EXTRA + size + al.
Definition shift_of (al raw : Z) : Z := let modu := (raw + EXTRA) mod al in (al - modu) mod al.
Definition aligned_ptr (al raw : Z) : Z := raw + (EXTRA + shift_of al raw).

(* ---------- state ----------------------------------------------------------------------------------------------- *)
Record blk := mkblk { b_pkg : Z; b_raw : Z; b_size : Z; b_mem : list Z }.
Record pkg := mkpkg { p_reg : bool; p_mc : Z; p_fc : Z; p_rc : Z; p_name : Z }.
Definition pkg0 : pkg := mkpkg false 0 0 0 0.
Record state := mkst { s_pkgs : list pkg;              (* sc_packages[0 .. sc_num_packages_alloc) *)
                       s_npk : Z;                       (* sc_num_packages *)
                       s_dmc : Z; s_dfc : Z; s_drc : Z; (* default_malloc_count / free_count / rc_active *)
                       s_heap : list (option blk);      (* handle -> raw block; handle 0 is NULL *)
                       s_outs : list (list Z); s_bad : bool }.
Definition init : state := mkst [] 0 0 0 0 [None] [] false.

Definition set_pkgs st l n := mkst l n (s_dmc st) (s_dfc st) (s_drc st) (s_heap st) (s_outs st) (s_bad st).
Definition set_def st m f r := mkst (s_pkgs st) (s_npk st) m f r (s_heap st) (s_outs st) (s_bad st).
Definition set_heap st H := mkst (s_pkgs st) (s_npk st) (s_dmc st) (s_dfc st) (s_drc st) H (s_outs st) (s_bad st).
Definition set_bad st := mkst (s_pkgs st) (s_npk st) (s_dmc st) (s_dfc st) (s_drc st) (s_heap st) (s_outs st) true.
Definition push_out st o := mkst (s_pkgs st) (s_npk st) (s_dmc st) (s_dfc st) (s_drc st) (s_heap st) (o :: s_outs st) (s_bad st).

Definition nalloc st : Z := Z.of_nat (length (s_pkgs st)).
Definition pget st (p : Z) : pkg := nth (Z.to_nat p) (s_pkgs st) pkg0.
Fixpoint setp (l : list pkg) (i : nat) (v : pkg) : list pkg :=
  match l, i with [], _ => [] | _ :: r, O => v :: r | x :: r, S k => x :: setp r k v end.
Definition pset st (p : Z) (v : pkg) := set_pkgs st (setp (s_pkgs st) (Z.to_nat p) v) (s_npk st).

(* sc_package_is_registered *)
Definition is_reg st (p : Z) : bool := (0 <=? p) && (p <? nalloc st) && p_reg (pget st p).
(* a package argument the allocation functions accept: -1 or a registered id *)
Definition pkg_ok st (p : Z) : bool := (p =? -1) || is_reg st p.

(* *sc_malloc_count (package) += k   and   *sc_free_count (package) += k *)
Definition add_mc st p k :=
  if p =? -1 then set_def st (s_dmc st + k) (s_dfc st) (s_drc st)
  else let q := pget st p in pset st p (mkpkg (p_reg q) (p_mc q + k) (p_fc q) (p_rc q) (p_name q)).
Definition add_fc st p k :=
  if p =? -1 then set_def st (s_dmc st) (s_dfc st + k) (s_drc st)
  else let q := pget st p in pset st p (mkpkg (p_reg q) (p_mc q) (p_fc q + k) (p_rc q) (p_name q)).
(* sc_package_rc_count_add *)
Definition add_rc st p k :=
  if p =? -1 then set_def st (s_dmc st) (s_dfc st) (s_drc st + k)
  else let q := pget st p in pset st p (mkpkg (p_reg q) (p_mc q) (p_fc q) (p_rc q + k) (p_name q)).

(* sc_memory_status *)
Definition status st (p : Z) : Z := if p =? -1 then s_dmc st - s_dfc st else p_mc (pget st p) - p_fc (pget st p).
(* sc_memory_check_noerr *)
Definition check_noerr st (p : Z) : Z :=
  if p =? -1 then (if s_drc st =? 0 then 0 else 1) + (if s_dmc st =? s_dfc st then 0 else 1)
  else if negb (is_reg st p) then 1
  else let q := pget st p in (if p_rc q =? 0 then 0 else 1) + (if p_mc q =? p_fc q then 0 else 1).

(* ---------- blocks ---------------------------------------------------------------------------------------------- *)
Definition hget st (h : nat) : option blk := lget (s_heap st) h.
Definition b_ptr (b : blk) : Z := aligned_ptr ALIGN (b_raw b).
Definition b_uoff (b : blk) : Z := b_ptr b - b_raw b.                 (* offset of the user area inside the raw block *)
Definition b_user (b : blk) : list Z := sub (b_mem b) (b_uoff b) (b_size b).
Definition word_m1 (b : blk) : Z := le_dec (sub (b_mem b) (b_uoff b - 8) 8).     (* ((char ** ) ptr)[-1] *)
Definition word_m2 (b : blk) : Z := le_dec (sub (b_mem b) (b_uoff b - 16) 8).    (* ((char ** ) ptr)[-2] *)
Definition with_mem (b : blk) (m : list Z) := mkblk (b_pkg b) (b_raw b) (b_size b) m.
Definition with_pkg (b : blk) (p : Z) := mkblk p (b_raw b) (b_size b) (b_mem b).

(* free (alloc_ptr): the live raw block that starts at this address *)
Fixpoint find_raw (H : list (option blk)) (a : Z) (i : nat) : option nat :=
  match H with
  | [] => None
  | Some b :: r => if b_raw b =? a then Some i else find_raw r a (S i)
  | None :: r => find_raw r a (S i)
  end.

Definition live (st : state) : list blk := flat_map (fun x => match x with Some b => [b] | None => [] end) (s_heap st).
Definition live_blocks (st : state) (p : Z) : list blk := filter (fun b => b_pkg b =? p) (live st).
Definition nlive st p : Z := Z.of_nat (length (live_blocks st p)).

Inductive op :=
| OMalloc (p n raw : Z)                          (* sc_malloc (p, n); malloc returns address raw *)
| OCalloc (p nmemb size raw : Z)                 (* sc_calloc *)
| ORealloc (p : Z) (h : nat) (n raw : Z)         (* sc_realloc (p, ptr of handle h (0 = NULL), n) *)
| OStrdup (p : Z) (s : option (list Z)) (raw : Z) (* sc_strdup (p, s); None = NULL *)
| OFree (p : Z) (h : nat)                        (* sc_free (p, ptr of handle h) *)
| OWrite (h : nat) (off : Z) (d : list Z)        (* memcpy (ptr + off, d, |d|) by the caller *)
| ORead (h : nat) (off n : Z)                    (* the caller reads n bytes at ptr + off *)
| ORegister (name : Z)                           (* sc_package_register (NULL, SC_LP_DEFAULT, name, ..) *)
| OUnregister (id : Z)                           (* sc_package_unregister of a balanced package *)
| OIsReg (id : Z)                                (* sc_package_is_registered *)
| OCheck (p : Z)                                 (* sc_memory_check_noerr *)
| ORc (p k : Z)                                  (* sc_package_rc_count_add *)
| OFinalize.                                     (* sc_finalize_noabort *)

Section Model.
  Variable junk : nat -> Z -> Z.                   (* content of memory fresh from malloc: handle, offset *)

  Fixpoint mkjunk_from (b : nat) (i : Z) (n : nat) : list Z :=
    match n with O => [] | S k => junk b i :: mkjunk_from b (i + 1) k end.

  (* sc_malloc_aligned (alignment, size), the block is recorded for package tag; returns (state, handle, ptr) *)
  Definition malloc_aligned st (tag al size raw : Z) : state * nat * Z :=
    let h := length (s_heap st) in
    let asz := alloc_size al size in
    let mem0 := mkjunk_from h 0 (Z.to_nat asz) in
    let ptr := aligned_ptr al raw in
    let mem1 := upd mem0 (ptr - raw - 8) (le64_enc raw) in            (* ((char ** ) ptr)[-1] = alloc_ptr *)
    let mem2 := upd mem1 (ptr - raw - 16) (le64_enc size) in          (* ((char ** ) ptr)[-2] = (char * ) size *)
    (set_heap st (s_heap st ++ [Some (mkblk tag raw size mem2)]), h, ptr).

  (* sc_free_aligned (ptr): alloc_ptr is READ from the word in front of ptr, then free (alloc_ptr) *)
  Definition free_aligned st (h : nat) : state :=
    match hget st h with
    | Some b =>
      match find_raw (s_heap st) (word_m1 b) 0 with
      | Some h' => set_heap st (lset (s_heap st) h' None)
      | None => set_bad st
      end
    | None => set_bad st
    end.

  (* sc_realloc_aligned (ptr, alignment, size): old size READ from the word, new block, copy min, free old *)
  Definition realloc_aligned st (tag : Z) (h : nat) (al size raw : Z) : state * nat * Z :=
    match hget st h with
    | Some b =>
      let old_size := word_m2 b in
      let '(st1, h1, ptr1) := malloc_aligned st tag al size raw in
      let min_size := Z.min old_size size in
      let st2 := match hget st1 h1 with
                 | Some nb => set_heap st1 (lset (s_heap st1) h1 (Some (with_mem nb (upd (b_mem nb) (ptr1 - raw) (sub (b_mem b) (b_uoff b) min_size)))))
                 | None => set_bad st1
                 end in
      (free_aligned st2 h, h1, ptr1)
    | None => (set_bad st, O, 0)
    end.

  Definition alloc_out st (h : nat) (ptr raw : Z) : list Z :=
    match hget st h with
    | Some b => [Z.of_nat h; ptr mod ALIGN; ptr - raw; word_m2 b; word_m1 b - raw]
    | None => [0]
    end.

  (* sc_malloc *)
  Definition sc_malloc st (p n raw : Z) : state * nat * list Z :=
    let '(st1, h, ret) := malloc_aligned st p ALIGN n raw in
    let st2 := if 0 <? n then add_mc st1 p 1 else add_mc st1 p (if ret =? 0 then 0 else 1) in
    (st2, h, alloc_out st2 h ret raw).

  (* sc_calloc *)
  Definition sc_calloc st (p nmemb size raw : Z) : state * nat * list Z :=
    let n := nmemb * size in
    let '(st1, h, ret) := malloc_aligned st p ALIGN n raw in
    let st1' := match hget st1 h with
                | Some b => set_heap st1 (lset (s_heap st1) h (Some (with_mem b (upd (b_mem b) (ret - raw) (repeat 0 (Z.to_nat n))))))
                | None => set_bad st1
                end in                                                    (* memset (ret, 0, nmemb * size) *)
    let st2 := if 0 <? n then add_mc st1' p 1 else add_mc st1' p (if ret =? 0 then 0 else 1) in
    (st2, h, alloc_out st2 h ret raw).

  (* sc_free *)
  Definition sc_free st (p : Z) (h : nat) : state :=
    match h with
    | O => st
    | S _ => free_aligned (add_fc st p 1) h
    end.

  (* sc_realloc *)
  Definition sc_realloc st (p : Z) (h : nat) (n raw : Z) : state * list Z :=
    match h with
    | O => let '(st1, _, o) := sc_malloc st p n raw in (st1, o)
    | S _ => if n =? 0 then (sc_free st p h, [0])
             else let '(st1, h1, ret) := realloc_aligned st p h ALIGN n raw in (st1, alloc_out st1 h1 ret raw)
    end.

  (* sc_strdup *)
  Definition sc_strdup st (p : Z) (s : option (list Z)) (raw : Z) : state * list Z :=
    match s with
    | None => (st, [0])
    | Some str =>
      let l := len str + 1 in
      let '(st1, h, o) := sc_malloc st p l raw in
      match hget st1 h with
      | Some b => (set_heap st1 (lset (s_heap st1) h (Some (with_mem b (upd (b_mem b) (b_uoff b) (str ++ [0]))))), o)
      | None => (set_bad st1, o)
      end
    end.

  (* ---------- packages --------------------------------------------------------------------------------------------- *)
  Fixpoint first_free (l : list pkg) (i : nat) : option nat :=
    match l with [] => None | q :: r => if p_reg q then first_free r (S i) else Some i end.
  Definition new_pkg (name : Z) : pkg := mkpkg true 0 0 0 name.

  (* sc_package_register; returns the new id *)
  Definition register st (name : Z) : state * Z :=
    match first_free (s_pkgs st) 0 with
    | Some i => (set_pkgs st (setp (s_pkgs st) i (new_pkg name)) (s_npk st + 1), Z.of_nat i)
    | None =>                                       (* realloc to 2 * sc_num_packages_alloc + 1 slots *)
      let n := length (s_pkgs st) in
      (set_pkgs st (s_pkgs st ++ new_pkg name :: repeat pkg0 n) (s_npk st + 1), Z.of_nat n)
    end.

  Definition orphan (H : list (option blk)) (p : Z) : list (option blk) :=
    map (fun x => match x with Some b => if b_pkg b =? p then Some (with_pkg b (-2)) else Some b | None => None end) H.

  (* sc_package_unregister_noabort; returns the number of errors *)
  Definition unregister_noabort st (id : Z) : state * Z :=
    if negb (is_reg st id) then (st, 1)
    else let errs := check_noerr st id in
         let st1 := set_pkgs st (setp (s_pkgs st) (Z.to_nat id) pkg0) (s_npk st - 1) in
         (set_heap st1 (orphan (s_heap st1) id), errs).

  (* the loop of sc_finalize_noabort: i = n - 1 down to 0 *)
  Fixpoint fin_loop (n : nat) (st : state) (errs : Z) : state * Z :=
    match n with
    | O => (st, errs)
    | S i => if p_reg (pget st (Z.of_nat i))
             then let '(st1, e) := unregister_noabort st (Z.of_nat i) in fin_loop i st1 (errs + e)
             else fin_loop i st errs
    end.
  Definition finalize st : state * Z :=
    let '(st1, errs) := fin_loop (length (s_pkgs st)) st 0 in
    let errs2 := errs + check_noerr st1 (-1) in
    (set_pkgs st1 [] (s_npk st1), errs2).                     (* free (sc_packages); sc_num_packages_alloc = 0 *)

  (* ---------- one call --------------------------------------------------------------------------------------------- *)
  Definition exec st (o : op) : state * list Z :=
    match o with
    | OMalloc p n raw => let '(st1, _, out) := sc_malloc st p n raw in (st1, out)
    | OCalloc p nm sz raw => let '(st1, _, out) := sc_calloc st p nm sz raw in (st1, out)
    | ORealloc p h n raw => sc_realloc st p h n raw
    | OStrdup p s raw => sc_strdup st p s raw
    | OFree p h => (sc_free st p h, [])
    | OWrite h off d =>
      match hget st h with
      | Some b => (set_heap st (lset (s_heap st) h (Some (with_mem b (upd (b_mem b) (b_uoff b + off) d)))), [])
      | None => (set_bad st, [])
      end
    | ORead h off n =>
      match hget st h with
      | Some b => (st, sub (b_mem b) (b_uoff b + off) n)
      | None => (set_bad st, [])
      end
    | ORegister name => let '(st1, id) := register st name in (st1, [id])
    | OUnregister id => let '(st1, _) := unregister_noabort st id in (st1, [])
    | OIsReg id => (st, [if is_reg st id then 1 else 0])
    | OCheck p => (st, [check_noerr st p])
    | ORc p k => (add_rc st p k, [])
    | OFinalize => let '(st1, e) := finalize st in (st1, [e])
    end.
  Definition step st o : state := let '(st1, out) := exec st o in push_out st1 out.
  Definition run (ops : list op) : state := fold_left step ops init.

  (* ---------- documented preconditions ----------------------------------------------------------------------------- *)
  Definition raw_fresh st (raw n : Z) : bool :=
    (0 <=? raw) && (0 <=? n) && (raw + alloc_size ALIGN n <? MAXA) &&
    forallb (fun b => negb (b_raw b =? raw)) (live st).
  Definition owned st (p : Z) (h : nat) : bool := match hget st h with Some b => b_pkg b =? p | None => false end.
  Definition name_free st (name : Z) : bool := forallb (fun q => negb (p_reg q && (p_name q =? name))) (s_pkgs st).

  Definition legal_step st (o : op) : bool :=
    match o with
    | OMalloc p n raw => pkg_ok st p && raw_fresh st raw n
    | OCalloc p nm sz raw => pkg_ok st p && (0 <=? nm) && (0 <=? sz) && raw_fresh st raw (nm * sz)
    | ORealloc p h n raw => pkg_ok st p && raw_fresh st raw n && match h with O => true | S _ => owned st p h end
    | OStrdup p s raw =>
      pkg_ok st p && match s with None => true
                     | Some str => raw_fresh st raw (len str + 1) && forallb (fun c => (1 <=? c) && (c <? 256)) str end
    | OFree p h => pkg_ok st p && match h with O => true | S _ => owned st p h end
    | OWrite h off d => match hget st h with Some b => (0 <=? off) && (off + len d <=? b_size b) && bytes_ok d | None => false end
    | ORead h off n => match hget st h with Some b => (0 <=? off) && (0 <=? n) && (off + n <=? b_size b) | None => false end
    | ORegister name => name_free st name
    | OUnregister id => is_reg st id && (check_noerr st id =? 0)    (* otherwise sc_package_unregister aborts *)
    | OIsReg id => 0 <=? id
    | OCheck p => -1 <=? p
    | ORc p k => pkg_ok st p
    | OFinalize => true
    end.
  Fixpoint legal_from st (ops : list op) : bool :=
    match ops with [] => true | o :: r => legal_step st o && legal_from (step st o) r end.
  Definition legal (ops : list op) : bool := legal_from init ops.
End Model.

Definition junk0 (b : nat) (i : Z) : Z := (Z.of_nat b * 29 + i * 13 + 90) mod 256.
Definition step0 := step junk0.
Definition legal_step0 := legal_step.
