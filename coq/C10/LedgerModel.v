(* C10 - ownership ledger of a function body over its sc_array_t variables and the heap objects it creates
   (executable definitions only).

   The translator (tools/c2g/ledgerlib.py, group LedgerC10) abstracts a function body to a list of events on named
   variables (locals, parameters, fields such as "hash->slots"), as a function of its branch conditions.  This file gives
   the events their meaning on an abstract state: which variable refers to which OBJECT (an sc_array_t structure, or an
   opaque heap object: a block from SC_ALLOC, a memory pool, a hash table), which data block an array structure holds,
   which heap objects and data blocks are live.  [l_run] fails (None) on a use of an uninitialised / freed object, a use
   after free and a double free; an object or block that nobody frees stays in [l_heap] / [l_live] and is seen by the
   balance predicates at the end.

   Abstraction of sc_array_t (src/sc_containers.c): a valid owner array holds at most one block (array->array is NULL after
   sc_array_reset / sc_array_resize (0), one block otherwise; sc_array_init allocates a block even for zero elements;
   resize / push keep "at most one block": this is C08_ledger_balanced).  [LGrow] on an empty array takes the worst case
   for leaks (the array holds a block afterwards); sc_array_reset of an empty array is a no-op in either case. *)
From Coq Require Import ZArith List String Bool Arith.
Import ListNotations.

Inductive lev :=
| LNew (x : string)             (* x = sc_array_new[_count] (..): heap structure and data block *)
| LInit (x : string)            (* sc_array_init[_count] (x): the data pointer is OVERWRITTEN by a fresh block *)
| LReset (x : string)           (* sc_array_reset (x) *)
| LDestroy (x : string)         (* sc_array_destroy (x): data block and heap structure *)
| LUse (x : string)             (* x is read (elements, count, merge input, MPI buffer, argument of another function) *)
| LGrow (x : string)            (* sc_array_resize / push / merge output *)
| LCopy (dst src : string)      (* *dst = *src (or memcpy of the structure): the data pointer of dst is OVERWRITTEN *)
| LAlias (x y : string)         (* x = y between pointers (or x = &y): x refers to the object y refers to *)
| LAlloc (x : string)           (* x = SC_ALLOC / sc_malloc / sc_mempool_new / sc_hash_new (..): an opaque heap object *)
| LFree (x : string).           (* SC_FREE / sc_free / sc_mempool_destroy / sc_hash_destroy (x): the object itself is freed *)

Inductive l_data := Dead | Empty | Own (b : nat).

Record lstate := mkL {
  l_vars : list (string * nat);    (* variable -> object id; first match counts *)
  l_objs : list (nat * l_data);    (* structures that exist (not freed) -> what their data pointer holds; first match counts *)
  l_heap : list nat;               (* objects that are live heap allocations (sc_array_new, SC_ALLOC, ..) *)
  l_live : list nat;               (* live data blocks *)
  l_next : nat }.                  (* next fresh id (objects and blocks) *)

Fixpoint l_var (x : string) (v : list (string * nat)) : option nat :=
  match v with
  | [] => None
  | (y, o) :: r => if String.eqb x y then Some o else l_var x r
  end.

Fixpoint l_obj (o : nat) (l : list (nat * l_data)) : option l_data :=
  match l with
  | [] => None
  | (p, d) :: r => if Nat.eqb o p then Some d else l_obj o r
  end.

Fixpoint l_remove1 (b : nat) (l : list nat) : list nat :=
  match l with
  | [] => []
  | c :: r => if Nat.eqb b c then r else c :: l_remove1 b r
  end.

Fixpoint l_dropobj (o : nat) (l : list (nat * l_data)) : list (nat * l_data) :=
  match l with
  | [] => []
  | (p, d) :: r => if Nat.eqb o p then l_dropobj o r else (p, d) :: l_dropobj o r
  end.

Definition l_memb (b : nat) (l : list nat) : bool := existsb (Nat.eqb b) l.

(* the structure x refers to, if it still exists, with its data *)
Definition l_deref (x : string) (st : lstate) : option (nat * l_data) :=
  match l_var x (l_vars st) with
  | Some o => match l_obj o (l_objs st) with
              | Some d => Some (o, d)
              | None => None             (* dangling: the structure was freed *)
              end
  | None => None
  end.

Definition l_setdata (o : nat) (d : l_data) (st : lstate) : lstate :=
  mkL (l_vars st) ((o, d) :: l_objs st) (l_heap st) (l_live st) (l_next st).

(* data is usable: an empty array, or a block that is still live *)
Definition l_dataok (d : l_data) (st : lstate) : bool :=
  match d with
  | Dead => false
  | Empty => true
  | Own b => l_memb b (l_live st)
  end.

(* a structure of automatic / embedded storage named for the first time: it exists, uninitialised *)
Definition l_bind_auto (x : string) (st : lstate) : lstate * nat :=
  (mkL ((x, l_next st) :: l_vars st) ((l_next st, Dead) :: l_objs st) (l_heap st) (l_live st) (S (l_next st)), l_next st).

(* the structure x names: the one it refers to, or a new automatic one if the name is new; None if x dangles *)
Definition l_struct (x : string) (st : lstate) : option (lstate * nat) :=
  match l_var x (l_vars st) with
  | Some o => match l_obj o (l_objs st) with
              | Some _ => Some (st, o)
              | None => None
              end
  | None => Some (l_bind_auto x st)
  end.

(* free the block the structure o holds; o is an empty valid array afterwards *)
Definition l_release (o : nat) (d : l_data) (st : lstate) : option lstate :=
  match d with
  | Dead => None                                            (* reset of garbage *)
  | Empty => Some st
  | Own b => if l_memb b (l_live st)
             then Some (mkL (l_vars st) ((o, Empty) :: l_objs st) (l_heap st) (l_remove1 b (l_live st)) (l_next st))
             else None                                      (* double free *)
  end.

Definition l_freeobj (o : nat) (st : lstate) : option lstate :=
  if l_memb o (l_heap st)
  then Some (mkL (l_vars st) (l_dropobj o (l_objs st)) (l_remove1 o (l_heap st)) (l_live st) (l_next st))
  else None.                                                (* free of something that is not a live heap object *)

Definition l_run_ev (e : lev) (st : lstate) : option lstate :=
  match e with
  | LNew x =>
      let o := l_next st in let b := S o in
      Some (mkL ((x, o) :: l_vars st) ((o, Own b) :: l_objs st) (o :: l_heap st) (b :: l_live st) (S b))
  | LAlloc x =>
      let o := l_next st in
      Some (mkL ((x, o) :: l_vars st) ((o, Empty) :: l_objs st) (o :: l_heap st) (l_live st) (S o))
  | LInit x =>
      match l_struct x st with
      | Some (st1, o) =>
          let b := l_next st1 in
          Some (mkL (l_vars st1) ((o, Own b) :: l_objs st1) (l_heap st1) (b :: l_live st1) (S b))
      | None => None
      end
  | LReset x =>
      match l_deref x st with
      | Some (o, d) => l_release o d st
      | None => None
      end
  | LDestroy x =>
      match l_deref x st with
      | Some (o, d) => match l_release o d st with
                       | Some st1 => l_freeobj o st1
                       | None => None
                       end
      | None => None
      end
  | LFree x =>
      match l_deref x st with
      | Some (o, _) => l_freeobj o st             (* a block the structure still holds stays live: a leak *)
      | None => None
      end
  | LUse x =>
      match l_deref x st with
      | Some (_, d) => if l_dataok d st then Some st else None
      | None => None
      end
  | LGrow x =>
      match l_deref x st with
      | Some (o, d) =>
          if l_dataok d st
          then match d with
               | Empty => let b := l_next st in
                          Some (mkL (l_vars st) ((o, Own b) :: l_objs st) (l_heap st) (b :: l_live st) (S b))
               | _ => Some st
               end
          else None
      | None => None
      end
  | LCopy dst src =>
      match l_deref src st with
      | Some (_, d) =>
          if l_dataok d st
          then match l_struct dst st with
               | Some (st1, o) => Some (l_setdata o d st1)
               | None => None
               end
          else None
      | None => None
      end
  | LAlias x y =>
      match l_var y (l_vars st) with
      | Some o => Some (mkL ((x, o) :: l_vars st) (l_objs st) (l_heap st) (l_live st) (l_next st))
      | None => None
      end
  end.

Fixpoint l_run (l : list lev) (st : lstate) : option lstate :=
  match l with
  | [] => Some st
  | e :: r => match l_run_ev e st with
              | Some st' => l_run r st'
              | None => None
              end
  end.

Fixpoint l_eqlist (a b : list nat) : bool :=
  match a, b with
  | [], [] => true
  | x :: r, y :: s => Nat.eqb x y && l_eqlist r s
  | _, _ => false
  end.

(* ---- entry states *)
(* the caller's array structure [a] (not a heap object of this function) holding a block / empty, nothing else *)
Definition entry_own (a : string) : lstate := mkL [(a, 0)] [(0, Own 1)] [] [1] 2.
Definition entry_empty (a : string) : lstate := mkL [(a, 0)] [(0, Empty)] [] [] 1.
(* the caller's variable [a] points to a heap array (sc_array_new) holding a block, nothing else *)
Definition entry_heap (a : string) : lstate := mkL [(a, 0)] [(0, Own 1)] [0] [1] 2.
(* nothing exists / only an external heap object [p] of the caller (a memory pool handed in) *)
Definition entry_none : lstate := mkL [] [] [] [] 0.
Definition entry_ext (p : string) : lstate := mkL [(p, 0)] [(0, Empty)] [0] [] 1.

(* ---- balance at the end *)
(* [a] still names an existing structure; the live heap objects are exactly [hs]; the live blocks are exactly what
   [a] holds *)
Definition l_holds (a : string) (hs : list nat) (st : lstate) : bool :=
  match l_deref a st with
  | Some (_, Dead) => false
  | Some (_, Empty) => l_eqlist (l_heap st) hs && l_eqlist (l_live st) []
  | Some (_, Own b) => l_eqlist (l_heap st) hs && l_eqlist (l_live st) [b]
  | None => false
  end.

(* the caller's array structure: no heap object of the function is left *)
Definition balancedb (a : string) (st : lstate) : bool := l_holds a [] st.

(* the caller's pointer [a] to a heap array: that array is the only heap object left *)
Definition balanced_heapb (a : string) (st : lstate) : bool :=
  match l_var a (l_vars st) with
  | Some o => l_holds a [o] st
  | None => false
  end.

Definition balanced_run (a : string) (l : list lev) (st : lstate) : bool :=
  match l_run l st with
  | Some st' => balancedb a st'
  | None => false
  end.

Definition balanced_heap_run (a : string) (l : list lev) (st : lstate) : bool :=
  match l_run l st with
  | Some st' => balanced_heapb a st'
  | None => false
  end.

(* create ... destroy: live heap objects and blocks are what they were before *)
Definition restored_run (l : list lev) (st : lstate) : bool :=
  match l_run l st with
  | Some st' => l_eqlist (l_heap st') (l_heap st) && l_eqlist (l_live st') (l_live st)
  | None => false
  end.
