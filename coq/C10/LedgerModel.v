(* C10 - ownership ledger of a function body over its sc_array_t variables (executable definitions only).

   The translator (tools/c2g/ledgerlib.py, group LedgerC10) abstracts a function body to a list of events on named array
   variables, as a function of its branch conditions.  This file gives the events their meaning on an abstract state:
   which variable holds which block, which blocks and heap structs are live.  [l_run] fails (None) on a use of an
   uninitialised / destroyed array, a use after free and a double free; a block that nobody frees stays in [l_live] and is
   seen by [balancedb] at the end.

   Abstraction of sc_array_t (src/sc_containers.c): a valid owner array holds at most one block (array->array is NULL after
   sc_array_reset / sc_array_resize (0), one block otherwise; sc_array_init allocates a block even for zero elements;
   resize / push keep "at most one block": this is C08_ledger_balanced).  [LGrow] on an empty array takes the worst case
   for leaks (the array holds a block afterwards); sc_array_reset of an empty array is a no-op in either case. *)
From Coq Require Import ZArith List String Bool Arith.
Import ListNotations.

Inductive lev :=
| LNew (x : string)             (* x = sc_array_new[_count] (..): heap struct and data block *)
| LInit (x : string)            (* sc_array_init[_count] (x): the data pointer is OVERWRITTEN by a fresh block *)
| LReset (x : string)           (* sc_array_reset (x) *)
| LDestroy (x : string)         (* sc_array_destroy (x) *)
| LUse (x : string)             (* x is read (elements, count, merge input, MPI buffer) *)
| LGrow (x : string)            (* sc_array_resize / push / merge output *)
| LCopy (dst src : string).     (* *dst = src: the struct, i.e. the data pointer, is OVERWRITTEN *)

Inductive l_slot := Dead | Empty | Own (b : nat).

Record lstate := mkL {
  l_vars : list (string * l_slot);   (* association list, first match counts *)
  l_heap : list string;            (* variables whose struct is a live heap block (one entry per sc_array_new) *)
  l_live : list nat;               (* live data blocks *)
  l_next : nat }.                  (* next fresh block id *)

Fixpoint l_lookup (x : string) (v : list (string * l_slot)) : l_slot :=
  match v with
  | [] => Dead
  | (y, s) :: r => if String.eqb x y then s else l_lookup x r
  end.

Definition l_setv (x : string) (s : l_slot) (st : lstate) : lstate :=
  mkL ((x, s) :: l_vars st) (l_heap st) (l_live st) (l_next st).

Fixpoint l_remove1 (b : nat) (l : list nat) : list nat :=
  match l with
  | [] => []
  | c :: r => if Nat.eqb b c then r else c :: l_remove1 b r
  end.

Fixpoint l_remove1s (x : string) (l : list string) : list string :=
  match l with
  | [] => []
  | c :: r => if String.eqb x c then r else c :: l_remove1s x r
  end.

Definition l_memb (b : nat) (l : list nat) : bool := existsb (Nat.eqb b) l.
Definition l_mems (x : string) (l : list string) : bool := existsb (String.eqb x) l.

Definition l_fresh (x : string) (st : lstate) : lstate :=
  mkL ((x, Own (l_next st)) :: l_vars st) (l_heap st) (l_next st :: l_live st) (S (l_next st)).

(* free the block x holds; x is an empty valid array afterwards *)
Definition l_release (x : string) (st : lstate) : option lstate :=
  match l_lookup x (l_vars st) with
  | Dead => None                                           (* reset of garbage *)
  | Empty => Some st
  | Own b => if l_memb b (l_live st)
             then Some (mkL ((x, Empty) :: l_vars st) (l_heap st) (l_remove1 b (l_live st)) (l_next st))
             else None                                     (* double free *)
  end.

Definition l_valid (x : string) (st : lstate) : bool :=
  match l_lookup x (l_vars st) with
  | Dead => false
  | Empty => true
  | Own b => l_memb b (l_live st)
  end.

Definition l_run_ev (e : lev) (st : lstate) : option lstate :=
  match e with
  | LNew x => Some (let st' := l_fresh x st in mkL (l_vars st') (x :: l_heap st') (l_live st') (l_next st'))
  | LInit x => Some (l_fresh x st)
  | LReset x => l_release x st
  | LDestroy x =>
      if l_mems x (l_heap st)
      then match l_release x st with
           | Some st' => Some (mkL ((x, Dead) :: l_vars st') (l_remove1s x (l_heap st')) (l_live st') (l_next st'))
           | None => None
           end
      else None
  | LUse x => if l_valid x st then Some st else None
  | LGrow x =>
      if l_valid x st
      then match l_lookup x (l_vars st) with
           | Empty => Some (l_fresh x st)
           | _ => Some st
           end
      else None
  | LCopy d s => if l_valid s st then Some (l_setv d (l_lookup s (l_vars st)) st) else None
  end.

Fixpoint l_run (l : list lev) (st : lstate) : option lstate :=
  match l with
  | [] => Some st
  | e :: r => match l_run_ev e st with
              | Some st' => l_run r st'
              | None => None
              end
  end.

(* the function was entered with the array [a] valid and nothing else live: it must leave the same way *)
Definition entry_own (a : string) : lstate := mkL [(a, Own 0)] [] [0] 1.
Definition entry_empty (a : string) : lstate := mkL [(a, Empty)] [] [] 0.

Definition balancedb (a : string) (st : lstate) : bool :=
  match l_heap st with
  | [] => match l_lookup a (l_vars st) with
          | Dead => false
          | Empty => match l_live st with [] => true | _ => false end
          | Own b => match l_live st with [c] => Nat.eqb b c | _ => false end
          end
  | _ => false
  end.

Definition balanced_run (a : string) (l : list lev) (st : lstate) : bool :=
  match l_run l st with
  | Some st' => balancedb a st'
  | None => false
  end.
