(* C09 - the hash array model refines an insertion-ordered set with stable positions, for every user hash function. *)
From Coq Require Import ZArith List Bool Lia Permutation.
From ScV Require Import Base.CInt Gen.HashResize C09.HashModel C09.HashProofs C09.HashArrayModel.
Import ListNotations.
Local Open Scope Z_scope.

Lemma find_ext_in {A} (f g : A -> bool) l : (forall x, In x l -> f x = g x) -> find f l = find g l.
Proof.
  induction l as [|a t IH]; simpl; intros H; auto. rewrite (H a) by auto. destruct (g a); auto.
Qed.

Lemma find_app {A} (p : A -> bool) a b : find p (a ++ b) = match find p a with Some x => Some x | None => find p b end.
Proof. induction a as [|x t IH]; simpl; auto. destruct (p x); auto. Qed.

Lemma replace_first_snoc {A} (p : A -> bool) y a x : find p a = None -> p x = true ->
  replace_first p y (a ++ [x]) = a ++ [y].
Proof.
  induction a as [|z t IH]; simpl; intros F P.
  - rewrite P; auto.
  - destruct (p z); [discriminate|]. f_equal. auto.
Qed.

(* a hash table in relation R stays in relation when hash and equality are replaced by functions that agree on
   the stored elements *)
Lemma R_ext key (hf hf' : key -> Z) (eqb eqb' : key -> key -> bool) h s :
  (forall x, In x s -> hf' x = hf x) -> (forall x y, In x s -> In y s -> eqb' x y = eqb x y) ->
  R key hf eqb h s -> R key hf' eqb' h s.
Proof.
  intros Hh He [P C PL [ND U] POS]. constructor; auto.
  - intros i x Hx.
    assert (Hs : In x s).
    { eapply Permutation_in; [exact P|]. apply in_concat_nth. exists i. split; auto. eapply nth_nil_in; eauto. }
    unfold slot_of. rewrite (Hh x Hs). apply (PL i x Hx).
  - split; auto. intros x y Hx Hy E. apply U; auto. rewrite <- He; auto.
Qed.

Lemma positions_snoc n : positions (S n) = positions n ++ [Z.of_nat n].
Proof. unfold positions. rewrite seq_S, map_app. reflexivity. Qed.

Lemma positions_in n x : In x (positions n) <-> 0 <= x < Z.of_nat n.
Proof.
  unfold positions. rewrite in_map_iff. split.
  - intros [k [<- Hk]]. apply in_seq in Hk. lia.
  - intros H. exists (Z.to_nat x). split; [lia|]. apply in_seq. lia.
Qed.

Lemma positions_length n : length (positions n) = n.
Proof. unfold positions. rewrite map_length, seq_length. auto. Qed.

Section HashArrayProofs.
  Variable elem : Type.
  Variable hfu : elem -> Z.
  Variable equ : elem -> elem -> bool.
  Hypothesis equ_refl : forall a, equ a a = true.
  Hypothesis equ_sym : forall a b, equ a b = true -> equ b a = true.
  Hypothesis equ_trans : forall a b c, equ a b = true -> equ b c = true -> equ a c = true.
  Hypothesis equ_hf : forall a b, equ a b = true -> hfu a = hfu b.

  Notation ha_get := (ha_get elem).
  Notation ha_hf := (ha_hf elem hfu).
  Notation ha_eq := (ha_eq elem equ).
  Notation harray := (harray elem).

  Lemma ha_eq_refl arr cur a : ha_eq arr cur a a = true.
  Proof. apply equ_refl. Qed.
  Lemma ha_eq_sym arr cur a b : ha_eq arr cur a b = true -> ha_eq arr cur b a = true.
  Proof. apply equ_sym. Qed.
  Lemma ha_eq_trans arr cur a b c : ha_eq arr cur a b = true -> ha_eq arr cur b c = true -> ha_eq arr cur a c = true.
  Proof. apply equ_trans. Qed.
  Lemma ha_eq_hf arr cur a b : ha_eq arr cur a b = true -> ha_hf arr cur a = ha_hf arr cur b.
  Proof. apply equ_hf. Qed.

  Lemma ha_get_cur arr cur : ha_get arr cur (-1) = cur.
  Proof. reflexivity. Qed.

  Lemma ha_get_pos arr cur p : 0 <= p -> ha_get arr cur p = nth (Z.to_nat p) arr cur.
  Proof. intros H. unfold HashArrayModel.ha_get. destruct (Z.eqb_spec p (-1)); [lia|reflexivity]. Qed.

  (* positions up to and including the length read the same element before and after the push of v *)
  Lemma ha_get_snoc arr v cur' x : 0 <= x <= Z.of_nat (length arr) ->
    ha_get (arr ++ [v]) cur' x = ha_get arr v x.
  Proof.
    intros H. rewrite !ha_get_pos by lia.
    destruct (Z.eq_dec x (Z.of_nat (length arr))) as [->|Hne].
    - rewrite Nat2Z.id. rewrite app_nth2 by lia. rewrite Nat.sub_diag. simpl. rewrite nth_overflow by lia. reflexivity.
    - rewrite app_nth1 by lia. apply nth_indep. lia.
  Qed.

  Lemma ha_get_indep arr cur cur' x : 0 <= x < Z.of_nat (length arr) -> ha_get arr cur' x = ha_get arr cur x.
  Proof. intros H. rewrite !ha_get_pos by lia. apply nth_indep. lia. Qed.

  Lemma find_positions v cur : forall (l pre : list elem),
    find (fun p => equ (nth (Z.to_nat p) (pre ++ l) cur) v) (map Z.of_nat (seq (length pre) (length l))) =
    find_index elem (fun x => equ x v) l (Z.of_nat (length pre)).
  Proof.
    induction l as [|x t IH]; intros pre; simpl; auto.
    rewrite Nat2Z.id. rewrite app_nth2 by lia. rewrite Nat.sub_diag. simpl.
    destruct (equ x v); auto.
    specialize (IH (pre ++ [x])). rewrite <- app_assoc in IH. simpl in IH.
    rewrite app_length in IH. simpl in IH. rewrite Nat.add_1_r in IH. rewrite IH. f_equal. lia.
  Qed.

  Lemma find_matches_positions arr v :
    find (matches Z (ha_eq arr v) (-1)) (positions (length arr)) = find_index elem (fun x => equ x v) arr 0.
  Proof.
    pose proof (find_positions v v arr []) as FP. cbn [app length Z.of_nat] in FP. rewrite <- FP. unfold positions.
    apply find_ext_in. intros x Hx. apply in_map_iff in Hx. destruct Hx as [k [<- _]].
    unfold matches, HashArrayModel.ha_eq. rewrite ha_get_cur. rewrite ha_get_pos by lia. reflexivity.
  Qed.

  Definition RA (a : harray) (arr : list elem) : Prop :=
    ha_arr elem a = arr /\
    Permutation (elements Z (ha_h elem a)) (positions (length arr)) /\
    hcount Z (ha_h elem a) = Z.of_nat (length arr) /\
    forall cur, R Z (ha_hf arr cur) (ha_eq arr cur) (ha_h elem a) (positions (length arr)).

  Definition aout_equiv (x y : haout) : Prop :=
    match x, y with
    | AList l1, AList l2 => Permutation l1 l2
    | _, _ => x = y
    end.

  Lemma insert_RA a arr v : RA a arr ->
    RA (fst (ha_insert elem hfu equ a v)) (fst (oset_step elem equ arr (AInsert elem v))) /\
    (let '(b, p) := snd (ha_insert elem hfu equ a v) in AIns b p) = snd (oset_step elem equ arr (AInsert elem v)).
  Proof.
    intros [Ea [HP [HC HR]]]. subst arr. set (arr := ha_arr elem a) in *.
    pose proof (HR v) as Hv. unfold ha_insert. fold arr.
    pose proof (insert_R Z (ha_hf arr v) (ha_eq arr v) (ha_eq_refl arr v) (ha_eq_sym arr v) (ha_eq_trans arr v)
                         (ha_eq_hf arr v) (ha_h elem a) (positions (length arr)) (-1) Hv) as HI.
    rewrite find_matches_positions in HI. cbn [oset_step].
    destruct (find_index elem (fun x => equ x v) arr 0) as [p|] eqn:F.
    - rewrite HI. cbn [fst snd]. split; [|reflexivity]. split; [reflexivity|]. split; [exact HP|]. split; [exact HC|exact HR].
    - destruct HI as [h1 [E1 R1]]. rewrite E1.
      set (pos := Z.of_nat (length arr)).
      assert (Hpos : ha_eq arr v pos (-1) = true).
      { unfold HashArrayModel.ha_eq. rewrite ha_get_cur. rewrite ha_get_pos by lia. unfold pos. rewrite Nat2Z.id.
        rewrite nth_overflow by lia. apply equ_refl. }
      pose proof (assign_R Z (ha_hf arr v) (ha_eq arr v) (ha_eq_refl arr v) (ha_eq_sym arr v) (ha_eq_trans arr v)
                           (ha_eq_hf arr v) h1 _ (-1) pos R1 Hpos) as HA.
      assert (Fn : find (matches Z (ha_eq arr v) (-1)) (positions (length arr)) = None)
        by (rewrite find_matches_positions; exact F).
      rewrite find_app, Fn in HA. cbn [find] in HA. unfold matches at 1 in HA. rewrite ha_eq_refl in HA.
      destruct HA as [h2 [E2 R2]]. rewrite E2. cbn [fst snd]. split; [|reflexivity].
      rewrite replace_first_snoc in R2; auto; [|unfold matches; apply ha_eq_refl].
      split; [reflexivity|]. cbn [ha_h ha_arr].
      rewrite app_length. cbn [length]. rewrite Nat.add_1_r, positions_snoc. fold pos.
      split; [apply (R_perm _ _ _ _ _ R2)|]. split.
      { rewrite (R_cnt _ _ _ _ _ R2). rewrite app_length, positions_length. cbn [length]. lia. }
      intros cur'.
      eapply R_ext; [| |exact R2].
      + intros x Hx. unfold HashArrayModel.ha_hf. f_equal. apply ha_get_snoc.
        apply in_app_or in Hx. destruct Hx as [Hx|[<-|[]]]; [apply positions_in in Hx|]; unfold pos; lia.
      + intros x y Hx Hy. unfold HashArrayModel.ha_eq.
        assert (Hb : forall z, In z (positions (length arr) ++ [pos]) -> 0 <= z <= Z.of_nat (length arr)).
        { intros z Hz. apply in_app_or in Hz. destruct Hz as [Hz|[<-|[]]]; [apply positions_in in Hz|]; unfold pos; lia. }
        rewrite !ha_get_snoc; auto.
  Qed.

  Lemma truncate_elements (h : hash Z) : Permutation (elements Z h) [] \/ hcount Z h <> 0 ->
    elements Z (truncate Z h) = [] /\ hcount Z (truncate Z h) = 0.
  Proof.
    intros H. unfold truncate. destruct (hcount Z h =? 0) eqn:E.
    - apply Z.eqb_eq in E. destruct H as [H|H]; [|contradiction]. apply Permutation_sym, Permutation_nil in H. auto.
    - destruct (howned Z h); unfold HashModel.elements; cbn [slots hcount]; rewrite concat_map_nil; auto.
  Qed.

  Lemma step_RA a arr op : RA a arr ->
    RA (fst (ha_step elem hfu equ a op)) (fst (oset_step elem equ arr op)) /\
    aout_equiv (snd (ha_step elem hfu equ a op)) (snd (oset_step elem equ arr op)).
  Proof.
    intros HRA. destruct op as [v|v| | |].
    - destruct (insert_RA a arr v HRA) as [A B]. cbn [ha_step].
      destruct (ha_insert elem hfu equ a v) as [a' [b p]]. cbn [fst snd] in *. split; [exact A|]. rewrite B.
      unfold aout_equiv. destruct (snd (oset_step elem equ arr (AInsert elem v))); try reflexivity.
    - destruct HRA as [Ea [HP [HC HR]]]. cbn [ha_step oset_step fst snd]. split; [split; [exact Ea|]; split; [exact HP|]; split; [exact HC|exact HR]|].
      unfold ha_lookup. rewrite Ea.
      rewrite (lookup_ok Z (ha_hf arr v) (ha_eq arr v) (ha_eq_refl arr v) (ha_eq_sym arr v) (ha_eq_trans arr v)
                         (ha_eq_hf arr v) _ _ (-1) (HR v)).
      rewrite find_matches_positions. reflexivity.
    - cbn [ha_step oset_step fst snd]. split; auto. destruct HRA as [Ea [HP [HC HR]]]. cbn [aout_equiv]. exact HP.
    - cbn [ha_step oset_step fst snd]. split; [|reflexivity]. destruct HRA as [Ea [HP [HC HR]]].
      assert (HT : elements Z (truncate Z (ha_h elem a)) = [] /\ hcount Z (truncate Z (ha_h elem a)) = 0).
      { apply truncate_elements. destruct (Z.eq_dec (hcount Z (ha_h elem a)) 0) as [E|E]; [left|right; auto].
        rewrite HC in E. destruct arr; [exact HP|cbn [length] in E; lia]. }
      destruct HT as [HT1 HT2].
      unfold ha_truncate. split; [reflexivity|]. cbn [ha_h ha_arr length]. split; [rewrite HT1; constructor|]. split; [exact HT2|].
      intros cur.
      pose proof (truncate_R Z (ha_hf arr cur) (ha_eq arr cur) (ha_eq_refl arr cur) (ha_eq_sym arr cur)
                             (ha_eq_trans arr cur) (ha_eq_hf arr cur) _ _ (HR cur)) as T.
      eapply R_ext; [| |exact T]; [intros x []|intros x y []].
    - cbn [ha_step oset_step fst snd]. split; auto. destruct HRA as [Ea [HP [HC HR]]]. rewrite Ea, HC. reflexivity.
  Qed.

  Lemma new_RA : RA (ha_new elem) [].
  Proof.
    split; [reflexivity|]. cbn [ha_new ha_h length]. split; [|split].
    - unfold HashModel.elements, hash_new. cbn [slots]. rewrite concat_repeat_nil. constructor.
    - reflexivity.
    - intros cur. apply new_R.
  Qed.

  Lemma run_from_RA ops : forall a arr, RA a arr ->
    RA (fst (ha_run_from elem hfu equ a ops)) (fst (oset_run_from elem equ arr ops)) /\
    Forall2 aout_equiv (snd (ha_run_from elem hfu equ a ops)) (snd (oset_run_from elem equ arr ops)).
  Proof.
    induction ops as [|op r IH]; intros a arr HR; cbn [ha_run_from oset_run_from].
    - split; [exact HR|constructor].
    - destruct (step_RA a arr op HR) as [R1 O1].
      destruct (ha_step elem hfu equ a op) as [a1 o]. destruct (oset_step elem equ arr op) as [s1 o'].
      cbn [fst snd] in R1, O1. destruct (IH a1 s1 R1) as [R2 O2].
      destruct (ha_run_from elem hfu equ a1 r) as [a2 os]. destruct (oset_run_from elem equ s1 r) as [s2 os'].
      cbn [fst snd] in *. split; auto.
  Qed.

  Lemma positions_NoDup n : NoDup (positions n).
  Proof.
    unfold positions. apply FinFun.Injective_map_NoDup; [|apply seq_NoDup]. intros x y H. lia.
  Qed.

  (* the theorem of the property: for every user hash function and every history the hash array behaves as the
     insertion-ordered set: same return values and positions, the array holds the elements in insertion order
     (position = insertion rank), the table enumerates every position exactly once, both counts = cardinality,
     no two stored elements are equal *)
  Theorem hash_array_refines ops :
    let '(a, outs) := ha_run_from elem hfu equ (ha_new elem) ops in
    let '(s, souts) := oset_run_from elem equ [] ops in
    ha_arr elem a = s /\ Forall2 aout_equiv outs souts /\
    Permutation (ha_positions elem a) (positions (length s)) /\ NoDup (ha_positions elem a) /\
    hcount Z (ha_h elem a) = Z.of_nat (length s) /\
    (forall i j x y, nth_error s i = Some x -> nth_error s j = Some y -> equ x y = true -> i = j).
  Proof.
    destruct (run_from_RA ops _ _ new_RA) as [HR O].
    destruct (ha_run_from elem hfu equ (ha_new elem) ops) as [a outs].
    destruct (oset_run_from elem equ [] ops) as [s souts]. cbn [fst snd] in *.
    destruct HR as [Ea [HP [HC HR]]].
    split; [exact Ea|]. split; [exact O|]. split; [exact HP|]. split.
    { eapply Permutation_NoDup; [apply Permutation_sym; exact HP|apply positions_NoDup]. }
    split; [exact HC|].
    intros i j x y Hi Hj E.
    pose proof (R_nd _ _ _ _ _ (HR x)) as [_ U].
    assert (Li : (i < length s)%nat) by (apply nth_error_Some; congruence).
    assert (Lj : (j < length s)%nat) by (apply nth_error_Some; congruence).
    assert (Z.of_nat i = Z.of_nat j); [|lia].
    apply U; try (apply positions_in; lia).
    unfold HashArrayModel.ha_eq. rewrite !ha_get_pos by lia. rewrite !Nat2Z.id.
    rewrite (nth_error_nth _ _ _ Hi), (nth_error_nth _ _ _ Hj). exact E.
  Qed.

  (* positions are stable: every operation except truncate keeps the array as a prefix *)
  Theorem hash_array_positions_stable a op : op <> ATruncate ->
    exists t, ha_arr elem (fst (ha_step elem hfu equ a op)) = ha_arr elem a ++ t.
  Proof.
    intros H. destruct op as [v|v| | |]; cbn [ha_step]; try (exists []; rewrite app_nil_r; reflexivity); [|congruence].
    unfold ha_insert.
    destruct (insert_unique Z (ha_hf (ha_arr elem a) v) (ha_eq (ha_arr elem a) v) (ha_h elem a) (-1)) as [h1 [added found]].
    destruct added.
    - destruct (assign Z _ _ h1 (-1) _) as [h2 b]. exists [v]. reflexivity.
    - exists []. rewrite app_nil_r. reflexivity.
  Qed.
End HashArrayProofs.
