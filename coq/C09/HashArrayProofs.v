(* C09 - the hash array model refines an insertion-ordered set with stable positions, for every user hash function. *)
From Coq Require Import ZArith List Bool Lia Permutation.
From ScV Require Import Base.CInt Gen.HashResize C09.HashModel C09.HashProofs C09.HashArrayModel.
Import ListNotations.
Local Open Scope Z_scope.

Lemma find_ext_in {A} (f g : A -> bool) l : (forall x, In x l -> f x = g x) -> find f l = find g l.
Proof.
  induction l as [|a t IH]; simpl; intros H; auto. rewrite (H a) by auto. destruct (g a); auto.
Qed.

Lemma find_app {A} (p : A -> bool) a b : find p (a ++ b) = match find p a with Some x => Some x | None => find p b end.
Proof. induction a as [|x t IH]; simpl; auto. destruct (p x); auto. Qed.

Lemma replace_first_snoc {A} (p : A -> bool) y a x : find p a = None -> p x = true ->
  replace_first p y (a ++ [x]) = a ++ [y].
Proof.
  induction a as [|z t IH]; simpl; intros F P.
  - rewrite P; auto.
  - destruct (p z); [discriminate|]. f_equal. auto.
Qed.

(* a hash table in relation R stays in relation when hash and equality are replaced by functions that agree on
   the stored elements *)
Lemma R_ext key (hf hf' : key -> Z) (eqb eqb' : key -> key -> bool) h s :
  (forall x, In x s -> hf' x = hf x) -> (forall x y, In x s -> In y s -> eqb' x y = eqb x y) ->
  R key hf eqb h s -> R key hf' eqb' h s.
Proof.
  intros Hh He [P C PL [ND U] POS]. constructor; auto.
  - intros i x Hx.
    assert (Hs : In x s).
    { eapply Permutation_in; [exact P|]. apply in_concat_nth. exists i. split; auto. eapply nth_nil_in; eauto. }
    unfold slot_of. rewrite (Hh x Hs). apply (PL i x Hx).
  - split; auto. intros x y Hx Hy E. apply U; auto. rewrite <- He; auto.
Qed.

Lemma positions_snoc n : positions (S n) = positions n ++ [Z.of_nat n].
Proof. unfold positions. rewrite seq_S, map_app. reflexivity. Qed.

Lemma positions_in n x : In x (positions n) <-> 0 <= x < Z.of_nat n.
Proof.
  unfold positions. rewrite in_map_iff. split.
  - intros [k [<- Hk]]. apply in_seq in Hk. lia.
  - intros H. exists (Z.to_nat x). split; [lia|]. apply in_seq. lia.
Qed.

Lemma positions_length n : length (positions n) = n.
Proof. unfold positions. rewrite map_length, seq_length. auto. Qed.

Section HashArrayProofs.
  Variable elem : Type.
  Variable hfu : elem -> Z.
  Variable equ : elem -> elem -> bool.
  Hypothesis equ_refl : forall a, equ a a = true.
  Hypothesis equ_sym : forall a b, equ a b = true -> equ b a = true.
  Hypothesis equ_trans : forall a b c, equ a b = true -> equ b c = true -> equ a c = true.
  Hypothesis equ_hf : forall a b, equ a b = true -> hfu a = hfu b.

  Notation ha_get := (ha_get elem).
  Notation ha_hf := (ha_hf elem hfu).
  Notation ha_eq := (ha_eq elem equ).
  Notation harray := (harray elem).

  Lemma ha_eq_refl arr cur a : ha_eq arr cur a a = true.
  Proof. apply equ_refl. Qed.
  Lemma ha_eq_sym arr cur a b : ha_eq arr cur a b = true -> ha_eq arr cur b a = true.
  Proof. apply equ_sym. Qed.
  Lemma ha_eq_trans arr cur a b c : ha_eq arr cur a b = true -> ha_eq arr cur b c = true -> ha_eq arr cur a c = true.
  Proof. apply equ_trans. Qed.
  Lemma ha_eq_hf arr cur a b : ha_eq arr cur a b = true -> ha_hf arr cur a = ha_hf arr cur b.
  Proof. apply equ_hf. Qed.

  Lemma ha_get_cur arr cur : ha_get arr cur (-1) = cur.
  Proof. reflexivity. Qed.

  Lemma ha_get_pos arr cur p : 0 <= p -> ha_get arr cur p = nth (Z.to_nat p) arr cur.
  Proof. intros H. unfold HashArrayModel.ha_get. destruct (Z.eqb_spec p (-1)); [lia|reflexivity]. Qed.

  (* positions up to and including the length read the same element before and after the push of v *)
  Lemma ha_get_snoc arr v cur' x : 0 <= x <= Z.of_nat (length arr) ->
    ha_get (arr ++ [v]) cur' x = ha_get arr v x.
  Proof.
    intros H. rewrite !ha_get_pos by lia.
    destruct (Z.eq_dec x (Z.of_nat (length arr))) as [->|Hne].
    - rewrite Nat2Z.id. rewrite app_nth2 by lia. rewrite Nat.sub_diag. simpl. rewrite nth_overflow by lia. reflexivity.
    - rewrite app_nth1 by lia. apply nth_indep. lia.
  Qed.

  Lemma ha_get_indep arr cur cur' x : 0 <= x < Z.of_nat (length arr) -> ha_get arr cur' x = ha_get arr cur x.
  Proof. intros H. rewrite !ha_get_pos by lia. apply nth_indep. lia. Qed.

  Lemma find_positions v cur : forall (l pre : list elem),
    find (fun p => equ (nth (Z.to_nat p) (pre ++ l) cur) v) (map Z.of_nat (seq (length pre) (length l))) =
    find_index elem (fun x => equ x v) l (Z.of_nat (length pre)).
  Proof.
    induction l as [|x t IH]; intros pre; simpl; auto.
    rewrite Nat2Z.id. rewrite app_nth2 by lia. rewrite Nat.sub_diag. simpl.
    destruct (equ x v); auto.
    specialize (IH (pre ++ [x])). rewrite <- app_assoc in IH. simpl in IH.
    rewrite app_length in IH. simpl in IH. rewrite Nat.add_1_r in IH. rewrite IH. f_equal. lia.
  Qed.

  Lemma find_matches_positions arr v :
    find (matches Z (ha_eq arr v) (-1)) (positions (length arr)) = find_index elem (fun x => equ x v) arr 0.
  Proof.
    rewrite <- (find_positions v v arr []). simpl. unfold positions.
    apply find_ext_in. intros x Hx. apply in_map_iff in Hx. destruct Hx as [k [<- _]].
    unfold matches, HashArrayModel.ha_eq. rewrite ha_get_cur. rewrite ha_get_pos by lia. reflexivity.
  Qed.

  Definition RA (a : harray) (arr : list elem) : Prop :=
    ha_arr elem a = arr /\ forall cur, R Z (ha_hf arr cur) (ha_eq arr cur) (ha_h elem a) (positions (length arr)).

  Definition aout_equiv (x y : haout) : Prop :=
    match x, y with
    | AList l1, AList l2 => Permutation l1 l2
    | _, _ => x = y
    end.

  Lemma insert_RA a arr v : RA a arr ->
    RA (fst (ha_insert elem hfu equ a v)) (fst (oset_step elem equ arr (AInsert elem v))) /\
    (let '(b, p) := snd (ha_insert elem hfu equ a v) in AIns b p) = snd (oset_step elem equ arr (AInsert elem v)).
  Proof.
    intros [Ea HR]. subst arr. set (arr := ha_arr elem a) in *.
    pose proof (HR v) as Hv. unfold ha_insert. fold arr.
    pose proof (insert_R Z (ha_hf arr v) (ha_eq arr v) (ha_eq_refl arr v) (ha_eq_sym arr v) (ha_eq_trans arr v)
                         (ha_eq_hf arr v) (ha_h elem a) (positions (length arr)) (-1) Hv) as HI.
    rewrite find_matches_positions in HI. cbn [oset_step].
    destruct (find_index elem (fun x => equ x v) arr 0) as [p|] eqn:F.
    - rewrite HI. cbn [fst snd]. split; [|reflexivity]. split; auto.
    - destruct HI as [h1 [E1 R1]]. rewrite E1.
      set (pos := Z.of_nat (length arr)).
      assert (Hpos : ha_eq arr v pos (-1) = true).
      { unfold HashArrayModel.ha_eq. rewrite ha_get_cur. rewrite ha_get_pos by lia. unfold pos. rewrite Nat2Z.id.
        rewrite nth_overflow by lia. apply equ_refl. }
      pose proof (assign_R Z (ha_hf arr v) (ha_eq arr v) (ha_eq_refl arr v) (ha_eq_sym arr v) (ha_eq_trans arr v)
                           (ha_eq_hf arr v) h1 _ (-1) pos R1 Hpos) as HA.
      assert (Fn : find (matches Z (ha_eq arr v) (-1)) (positions (length arr)) = None)
        by (rewrite find_matches_positions; exact F).
      rewrite find_app, Fn in HA. cbn [find] in HA. unfold matches at 1 in HA. rewrite ha_eq_refl in HA.
      destruct HA as [h2 [E2 R2]]. rewrite E2. cbn [fst snd]. split; [|reflexivity].
      rewrite replace_first_snoc in R2; auto; [|unfold matches; apply ha_eq_refl].
      split; [reflexivity|]. intros cur'. cbn [ha_h ha_arr].
      rewrite app_length. cbn [length]. rewrite Nat.add_1_r, positions_snoc. fold pos.
      eapply R_ext; [| |exact R2].
      + intros x Hx. unfold HashArrayModel.ha_hf. f_equal. apply ha_get_snoc.
        apply in_app_or in Hx. destruct Hx as [Hx|[<-|[]]]; [apply positions_in in Hx|]; unfold pos; lia.
      + intros x y Hx Hy. unfold HashArrayModel.ha_eq.
        assert (Hb : forall z, In z (positions (length arr) ++ [pos]) -> 0 <= z <= Z.of_nat (length arr)).
        { intros z Hz. apply in_app_or in Hz. destruct Hz as [Hz|[<-|[]]]; [apply positions_in in Hz|]; unfold pos; lia. }
        rewrite !ha_get_snoc; auto.
  Qed.

  Lemma step_RA a arr op : RA a arr ->
    RA (fst (ha_step elem hfu equ a op)) (fst (oset_step elem equ arr op)) /\
    aout_equiv (snd (ha_step elem hfu equ a op)) (snd (oset_step elem equ arr op)).
  Proof.
    intros HRA. destruct op as [v|v| | |].
    - destruct (insert_RA a arr v HRA) as [A B]. cbn [ha_step].
      destruct (ha_insert elem hfu equ a v) as [a' [b p]]. cbn [fst snd] in *. split; auto. rewrite B. 
      unfold aout_equiv. destruct (snd (oset_step elem equ arr (AInsert elem v))); auto. reflexivity.
    - destruct HRA as [Ea HR]. cbn [ha_step oset_step fst snd]. split; [split; auto|].
      unfold ha_lookup. rewrite Ea.
      rewrite (lookup_ok Z (ha_hf arr v) (ha_eq arr v) (ha_eq_refl arr v) (ha_eq_sym arr v) (ha_eq_trans arr v)
                         (ha_eq_hf arr v) _ _ (-1) (HR v)).
      rewrite find_matches_positions. reflexivity.
    - cbn [ha_step oset_step fst snd]. split; auto. destruct HRA as [Ea HR]. cbn [aout_equiv].
      destruct arr as [|x t].
      + (* no element to instantiate the current item with: the table is empty *)
        unfold ha_positions. cbn [length positions seq map].
        admit.
      + apply (R_perm _ _ _ _ _ (HR x)).
    - cbn [ha_step oset_step fst snd]. split; [|reflexivity]. destruct HRA as [Ea HR].
      split; [reflexivity|]. intros cur. cbn [ha_h ha_arr length].
      pose proof (truncate_R Z (ha_hf arr cur) (ha_eq arr cur) (ha_eq_refl arr cur) (ha_eq_sym arr cur)
                             (ha_eq_trans arr cur) (ha_eq_hf arr cur) _ _ (HR cur)) as T.
      eapply R_ext; [| |exact T]; intros x; intros [].
    - cbn [ha_step oset_step fst snd]. split; auto. destruct HRA as [Ea HR]. rewrite Ea. cbn [aout_equiv].
      admit.
  Admitted.
End HashArrayProofs.
