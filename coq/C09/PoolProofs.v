(* C09 - memory stamps and memory pools: items handed out are distinct from every live item, lie inside
   their stamp, are reused only after they were returned, and elem_count is the number of live items. *)
From Coq Require Import ZArith List Bool Lia Permutation.
From ScV Require Import Base.CInt C09.PoolModel.
Import ListNotations.
Local Open Scope Z_scope.
Ltac Zify.zify_post_hook ::= Z.div_mod_to_equations.

Lemma item_eqb_eq a b : item_eqb a b = true <-> a = b.
Proof.
  destruct a as [a1 a2], b as [b1 b2]; unfold item_eqb; simpl. rewrite andb_true_iff, !Z.eqb_eq.
  split; [intros [-> ->]; auto|intros E; inversion E; auto].
Qed.

Lemma item_eqb_refl a : item_eqb a a = true.
Proof. apply item_eqb_eq; auto. Qed.

Lemma item_eqb_neq a b : a <> b -> item_eqb a b = false.
Proof. intros H. destruct (item_eqb a b) eqn:E; auto. apply item_eqb_eq in E. contradiction. Qed.

Lemma item_eq_dec (a b : item) : {a = b} + {a <> b}.
Proof. destruct (item_eqb a b) eqn:E; [left; apply item_eqb_eq; auto|right; intros ->; rewrite item_eqb_refl in E; discriminate]. Qed.

Lemma existsb_item_false it l : existsb (item_eqb it) l = false <-> ~ In it l.
Proof.
  split.
  - intros H Hi. assert (existsb (item_eqb it) l = true); [|congruence].
    apply existsb_exists. exists it; split; auto. apply item_eqb_refl.
  - intros H. destruct (existsb (item_eqb it) l) eqn:E; auto.
    apply existsb_exists in E. destruct E as [x [Hx Hy]]. apply item_eqb_eq in Hy. subst; contradiction.
Qed.

Lemma cget_cset_same c it v : cget (cset c it v) it = v.
Proof. unfold cset; simpl. rewrite item_eqb_refl. auto. Qed.

Lemma cget_cset_other c it it' v : it <> it' -> cget (cset c it v) it' = cget c it'.
Proof. intros H. unfold cset; simpl. rewrite item_eqb_neq; auto. Qed.

Lemma remove_nth_perm {A} k (l : list A) d : (k < length l)%nat -> Permutation l (nth k l d :: remove_nth k l).
Proof.
  revert k; induction l as [|a t IH]; intros [|k] H; simpl in *; try lia; auto.
  rewrite (IH k) at 1 by lia. apply perm_swap.
Qed.

Lemma remove_nth_in {A} k (l : list A) x : In x (remove_nth k l) -> In x l.
Proof. revert k; induction l as [|a t IH]; intros [|k]; simpl; auto. intros [->|H]; eauto. Qed.

(* ---------- memory stamps ---------- *)
Definition ms_wf (m : mstamp) : Prop :=
  0 < ms_esz m /\ 0 < ms_per m /\ 0 <= ms_cur m < ms_per m /\ 1 <= ms_nst m /\ ms_ssz m = ms_per m * ms_esz m.

(* the items the stamp container has handed out so far *)
Definition created (m : mstamp) (it : item) : Prop :=
  0 <= fst it < ms_nst m /\ 0 <= snd it < ms_per m /\ (fst it = ms_nst m - 1 -> snd it < ms_cur m).

Lemma mstamp_init_wf unit esz : 0 < esz -> 0 <= unit -> ms_wf (mstamp_init unit esz).
Proof.
  intros He Hu. unfold mstamp_init. destruct (Z.ltb_spec 0 esz); [|lia].
  unfold ms_wf; simpl. assert (0 <= unit / esz) by (apply Z.div_pos; lia).
  destruct (Z.eqb_spec (unit / esz) 0); repeat split; lia.
Qed.

Lemma mstamp_init_none_created unit esz it : 0 < esz -> ~ created (mstamp_init unit esz) it.
Proof.
  intros He. unfold mstamp_init. destruct (Z.ltb_spec 0 esz); [|lia].
  unfold created; simpl. lia.
Qed.

(* the documented size of a stamp: as many whole items as fit into the unit, at least one *)
Lemma mstamp_init_per unit esz : 0 < esz -> 0 <= unit ->
  let m := mstamp_init unit esz in
  (esz <= unit -> ms_per m * esz <= unit < (ms_per m + 1) * esz) /\ (unit < esz -> ms_per m = 1).
Proof.
  intros He Hu. unfold mstamp_init. destruct (Z.ltb_spec 0 esz); [|lia]. simpl.
  destruct (Z.eqb_spec (unit / esz) 0) as [E|E]; split; intros; try nia.
  all: try (assert (unit / esz = 0) by (apply Z.div_small; lia); lia).
Qed.

Lemma mstamp_alloc_spec m : ms_wf m ->
  exists it m', mstamp_alloc m = (m', Some it) /\ ms_wf m' /\ ~ created m it /\ created m' it /\
    (forall x, created m x -> created m' x) /\
    (forall x, created m' x -> created m x \/ x = it) /\
    0 <= item_offset m it /\ item_offset m it + ms_esz m <= ms_ssz m.
Proof.
  intros [He [Hp [Hc [Hn Hs]]]]. unfold mstamp_alloc.
  destruct (Z.eqb_spec (ms_esz m) 0); [lia|].
  exists (ms_nst m - 1, ms_cur m).
  destruct (Z.eqb_spec (ms_cur m + 1) (ms_per m)) as [E|E]; eexists; (split; [reflexivity|]).
  all: split; [unfold ms_wf; simpl; lia|].
  all: split; [unfold created; simpl; lia|].
  all: split; [unfold created; simpl; lia|].
  all: split; [intros [x1 x2]; unfold created; simpl; lia|].
  all: split; [intros [x1 x2]; unfold created; simpl; intros H;
               destruct (Z.eq_dec x1 (ms_nst m - 1)); [|left; lia];
               destruct (Z.eq_dec x2 (ms_cur m)); [right; subst; auto|left; lia]|].
  all: unfold item_offset; simpl; nia.
Qed.

Lemma mstamp_truncate_wf m : ms_wf m -> ms_wf (mstamp_truncate m) /\ forall x, ~ created (mstamp_truncate m) x.
Proof.
  intros [He [Hp [Hc [Hn Hs]]]]. unfold mstamp_truncate. destruct (Z.ltb_spec 0 (ms_esz m)); [|lia].
  unfold ms_wf, created; simpl. split; [repeat split; lia|]. intros x. lia.
Qed.

(* byte ranges of two different items of one stamp do not overlap *)
Lemma item_ranges_disjoint m a b : 0 < ms_esz m -> fst a = fst b -> a <> b ->
  item_offset m a + ms_esz m <= item_offset m b \/ item_offset m b + ms_esz m <= item_offset m a.
Proof.
  destruct a as [a1 a2], b as [b1 b2]; unfold item_offset; simpl. intros He -> Hne.
  assert (a2 <> b2) by congruence. destruct (Z.lt_ge_cases a2 b2); [left|right]; nia.
Qed.

(* ---------- memory pools ---------- *)
Definition PoolInv (p : mempool) (live : list item) : Prop :=
  ms_wf (mp_ms p) /\ NoDup (live ++ mp_freed p) /\
  (forall it, In it (live ++ mp_freed p) -> created (mp_ms p) it) /\
  mp_count p = Z.of_nat (length live).

Lemma mempool_new_inv esz zp : 0 < esz -> PoolInv (mempool_new esz zp) [].
Proof.
  intros H. unfold PoolInv, mempool_new; simpl.
  split; [apply mstamp_init_wf; lia|]. split; [constructor|]. split; [intros it []|reflexivity].
Qed.

Lemma NoDup_app_left {A} (a b : list A) : NoDup (a ++ b) -> NoDup a.
Proof.
  induction a as [|x t IH]; simpl; intros H; [constructor|].
  inversion H; subst. constructor; auto. intros Hi. apply H2. apply in_or_app; auto.
Qed.

Lemma NoDup_snoc {A} (l : list A) x : NoDup l -> ~ In x l -> NoDup (l ++ [x]).
Proof.
  intros N H. apply Permutation_NoDup with (l := x :: l); [apply Permutation_cons_append|constructor; auto].
Qed.

Lemma mempool_alloc_spec p live : PoolInv p live ->
  exists it p' fresh, mempool_alloc p = (p', Some it, fresh) /\ ~ In it live /\ PoolInv p' (live ++ [it]) /\
    (fresh = false -> exists f, mp_freed p = it :: f) /\
    (fresh = true -> mp_freed p = [] /\ ~ created (mp_ms p) it) /\
    mp_zp p' = mp_zp p.
Proof.
  intros [W [N [C K]]]. unfold mempool_alloc. destruct (mp_freed p) as [|it f] eqn:F.
  - destruct (mstamp_alloc_spec _ W) as [it [m' [E [W' [NC [C' [Mono [Inv' _]]]]]]]]. rewrite E.
    exists it; eexists; exists true. split; [reflexivity|].
    rewrite app_nil_r in *.
    assert (Hni : ~ In it live) by (intros Hi; apply NC; apply C; auto).
    split; auto. split.
    + unfold PoolInv; simpl. rewrite app_nil_r.
      split; [exact W'|]. split; [apply NoDup_snoc; auto|]. split.
      * intros x Hx. apply in_app_or in Hx. destruct Hx as [Hx|[<-|[]]]; auto.
      * rewrite app_length; simpl. lia.
    + split; [discriminate|]. split; auto.
  - exists it; eexists; exists false. split; [reflexivity|].
    assert (Hni : ~ In it live).
    { intros Hi. apply NoDup_remove_2 in N. apply N. apply in_or_app; auto. }
    split; auto. split.
    + unfold PoolInv; simpl.
      split; [exact W|]. split; [rewrite <- app_assoc; simpl; auto|]. split.
      * intros x Hx. apply C. rewrite <- app_assoc in Hx. simpl in Hx. auto.
      * rewrite app_length; simpl. lia.
    + split; [eauto|]. split; [discriminate|reflexivity].
Qed.

Lemma mempool_free_spec p live k : PoolInv p live -> (k < length live)%nat ->
  PoolInv (mempool_free p (nth k live default_item)) (remove_nth k live).
Proof.
  intros [W [N [C K]]] Hk. pose proof (remove_nth_perm k live default_item Hk) as P.
  assert (P2 : Permutation (live ++ mp_freed p) (remove_nth k live ++ nth k live default_item :: mp_freed p)).
  { rewrite P at 1. simpl. apply Permutation_middle. }
  unfold PoolInv, mempool_free; simpl.
  split; [exact W|]. split; [eapply Permutation_NoDup; eauto|]. split.
  - intros x Hx. apply C. eapply Permutation_in; [apply Permutation_sym; exact P2|auto].
  - apply Permutation_length in P. simpl in P. lia.
Qed.

Lemma mempool_truncate_spec p live : PoolInv p live -> PoolInv (mempool_truncate p) [].
Proof.
  intros [W [N [C K]]]. destruct (mstamp_truncate_wf _ W) as [W' NC].
  unfold PoolInv, mempool_truncate; simpl.
  split; [exact W'|]. split; [constructor|]. split; [intros it []|reflexivity].
Qed.

(* ---------- pool + user ---------- *)
Definition PInv (s : pstate) : Prop := PoolInv (ps_pool s) (ps_live s).

(* what every single result must satisfy *)
Definition pout_ok (zp : bool) (o : pout) : Prop :=
  match o with
  | OAlloc None _ _ _ _ => False
  | OAlloc (Some _) fresh distinct zero _ => distinct = true /\ (zp = true -> fresh = true -> zero = true)
  | _ => True
  end.

Lemma pstep_inv s op : PInv s -> plegal s op ->
  let s' := fst (pstep s op) in
  PInv s' /\ pout_ok (mp_zp (ps_pool s)) (snd (pstep s op)) /\ mp_zp (ps_pool s') = mp_zp (ps_pool s) /\
  (* the content of an item that stays live changes only by a write to that very item *)
  (forall it, In it (ps_live s) -> In it (ps_live s') ->
     match op with PWrite k _ => it <> nth k (ps_live s) default_item | _ => True end ->
     cget (ps_mem s') it = cget (ps_mem s) it).
Proof.
  intros I L. destruct op as [|k|k v|k| |]; simpl in *.
  - destruct (mempool_alloc_spec _ _ I) as [it [p' [fresh [E [Hni [I' [_ [_ Z]]]]]]]]. rewrite E. simpl.
    split; [exact I'|]. split; [|split; [exact Z|]].
    + split.
      * apply negb_true_iff. apply existsb_item_false; auto.
      * intros Hz Hf. rewrite Hf, Z, Hz. simpl. rewrite ?cget_cset_same, ?item_eqb_refl. reflexivity.
    + intros x Hx _ _. destruct (fresh && mp_zp p'); auto. apply cget_cset_other. intros ->; contradiction.
  - split; [apply mempool_free_spec; auto|]. split; [exact Logic.I|]. split; [reflexivity|]. intros; reflexivity.
  - split; [exact I|]. split; [exact Logic.I|]. split; [reflexivity|].
    intros it Hi _ Hne. apply cget_cset_other. auto.
  - split; [exact I|]. split; [exact Logic.I|]. split; [reflexivity|]. intros; reflexivity.
  - split; [eapply mempool_truncate_spec; eauto|]. split; [exact Logic.I|]. split; [reflexivity|]. intros it _ [].
  - split; [exact I|]. split; [exact Logic.I|]. split; [reflexivity|]. intros; reflexivity.
Qed.

Lemma prun_inv ops : forall s, PInv s -> plegal_run s ops ->
  PInv (fst (prun_from s ops)) /\ Forall (pout_ok (mp_zp (ps_pool s))) (snd (prun_from s ops)).
Proof.
  induction ops as [|op r IH]; intros s I L; simpl.
  - split; auto.
  - destruct L as [L1 L2]. destruct (pstep_inv s op I L1) as [I1 [O1 [Z1 _]]].
    destruct (pstep s op) as [s1 o]. simpl in *.
    destruct (IH s1 I1 L2) as [I2 O2]. destruct (prun_from s1 r) as [s2 os]. simpl in *.
    split; auto. constructor; auto. rewrite <- Z1. auto.
Qed.

Lemma mstamp_alloc_esz m : ms_esz (fst (mstamp_alloc m)) = ms_esz m.
Proof.
  unfold mstamp_alloc. destruct (ms_esz m =? 0); [reflexivity|].
  destruct (ms_cur m + 1 =? ms_per m); reflexivity.
Qed.

Lemma mempool_alloc_esz p : ms_esz (mp_ms (fst (fst (mempool_alloc p)))) = ms_esz (mp_ms p).
Proof.
  unfold mempool_alloc. destruct (mp_freed p); [|reflexivity].
  pose proof (mstamp_alloc_esz (mp_ms p)) as H. destruct (mstamp_alloc (mp_ms p)) as [m o]. exact H.
Qed.

Lemma pstep_esz s op : ms_esz (mp_ms (ps_pool (fst (pstep s op)))) = ms_esz (mp_ms (ps_pool s)).
Proof.
  destruct op; simpl; try reflexivity.
  - pose proof (mempool_alloc_esz (ps_pool s)) as H.
    destruct (mempool_alloc (ps_pool s)) as [[p o] fresh]. destruct o; exact H.
  - unfold mstamp_truncate. destruct (0 <? ms_esz (mp_ms (ps_pool s))); reflexivity.
Qed.

Lemma prun_esz ops : forall s, ms_esz (mp_ms (ps_pool (fst (prun_from s ops)))) = ms_esz (mp_ms (ps_pool s)).
Proof.
  induction ops as [|op r IH]; intros s; simpl; auto.
  pose proof (pstep_esz s op) as H. destruct (pstep s op) as [s1 o]. specialize (IH s1).
  destruct (prun_from s1 r) as [s2 os]. simpl in *. congruence.
Qed.

(* the theorem of the property for pools *)
Theorem pool_safe esz zp ops : 0 < esz -> plegal_run (pstate_new esz zp) ops ->
  let '(s, outs) := prun_from (pstate_new esz zp) ops in
  Forall (pout_ok zp) outs /\ NoDup (ps_live s) /\ mp_count (ps_pool s) = Z.of_nat (length (ps_live s)) /\
  (forall it, In it (ps_live s) -> ~ In it (mp_freed (ps_pool s))) /\
  (forall it, In it (ps_live s) -> 0 <= item_offset (mp_ms (ps_pool s)) it /\
       item_offset (mp_ms (ps_pool s)) it + esz <= ms_ssz (mp_ms (ps_pool s))).
Proof.
  intros He L. assert (I0 : PInv (pstate_new esz zp)) by (apply mempool_new_inv; auto).
  destruct (prun_inv ops _ I0 L) as [I O].
  pose proof (prun_esz ops (pstate_new esz zp)) as Hesz.
  destruct (prun_from (pstate_new esz zp) ops) as [s outs]. simpl in *.
  destruct I as [W [N [C K]]]. repeat split; auto.
  - eapply NoDup_app_left; eauto.
  - intros it Hi Hf. clear - N Hi Hf. induction (ps_live s) as [|a t IH]; simpl in *; [contradiction|].
    inversion N; subst. destruct Hi as [->|Hi]; [apply H1; apply in_or_app; auto|auto].
  - assert (Cr : created (mp_ms (ps_pool s)) it) by (apply C; apply in_or_app; auto).
    destruct W as [W1 _]. destruct Cr as [_ [Cr _]]. unfold item_offset. nia.
  - assert (Cr : created (mp_ms (ps_pool s)) it) by (apply C; apply in_or_app; auto).
    destruct W as [W1 [W2 [W3 [W4 W5]]]]. destruct Cr as [_ [Cr _]]. unfold item_offset.
    unfold mempool_new, mstamp_init in Hesz. simpl in Hesz.
    destruct (0 <? esz) eqn:Z; simpl in Hesz; [|apply Z.ltb_ge in Z; lia]. rewrite W5. nia.
Qed.

(* content written into a live item is read back until that item is written again or returned *)
Theorem pool_content_stable s op it : PInv s -> plegal s op ->
  In it (ps_live s) -> In it (ps_live (fst (pstep s op))) ->
  match op with PWrite k _ => it <> nth k (ps_live s) default_item | _ => True end ->
  cget (ps_mem (fst (pstep s op))) it = cget (ps_mem s) it.
Proof. intros I L. apply (pstep_inv s op I L). Qed.

Theorem pool_write_read s k v : (k < length (ps_live s))%nat ->
  snd (pstep (fst (pstep s (PWrite k v))) (PRead k)) = ORd v.
Proof. intros H. simpl. rewrite ?cget_cset_same, ?item_eqb_refl. reflexivity. Qed.

(* a pure stamp container (no frees): all items ever handed out are pairwise distinct *)
Theorem mstamp_allocs_distinct esz unit n : 0 < esz -> 0 <= unit ->
  let fix go (m : mstamp) (n : nat) : list (option item) :=
      match n with O => [] | S k => let '(m', o) := mstamp_alloc m in o :: go m' k end in
  let outs := go (mstamp_init unit esz) n in
  NoDup outs /\ Forall (fun o => o <> None) outs.
Proof.
  intros He Hu go.
  assert (G : forall n m, ms_wf m ->
             NoDup (go m n) /\ Forall (fun o => o <> None) (go m n) /\
             forall it, In (Some it) (go m n) -> ~ created m it).
  { clear n. induction n as [|n IH]; intros m W; simpl.
    - repeat split; [constructor|constructor|intros it []].
    - destruct (mstamp_alloc_spec m W) as [it [m' [E [W' [NC [C' [Mono _]]]]]]]. rewrite E.
      destruct (IH m' W') as [N [F D]]. repeat split.
      + constructor; auto. intros Hi. apply (D it Hi). auto.
      + constructor; auto. discriminate.
      + intros x [Hx|Hx]; [inversion Hx; subst; auto|]. intros Cx. apply (D x Hx). auto. }
  destruct (G n (mstamp_init unit esz) (mstamp_init_wf unit esz He Hu)) as [A [B _]]. split; auto.
Qed.

(* ---------- facts used by the containers that draw their links from a pool ---------- *)
Lemma PoolInv_perm p l l' : Permutation l l' -> PoolInv p l -> PoolInv p l'.
Proof.
  intros P [W [N [C K]]]. unfold PoolInv.
  assert (P2 : Permutation (l ++ mp_freed p) (l' ++ mp_freed p)) by (apply Permutation_app_tail; auto).
  split; [exact W|]. split; [eapply Permutation_NoDup; eauto|]. split.
  - intros x Hx. apply C. eapply Permutation_in; [apply Permutation_sym; exact P2|auto].
  - rewrite K. rewrite (Permutation_length P). reflexivity.
Qed.

Lemma PoolInv_free p it live : PoolInv p (it :: live) -> PoolInv (mempool_free p it) live.
Proof.
  intros H. apply (mempool_free_spec p (it :: live) 0 H). simpl; lia.
Qed.

Lemma PoolInv_nodup p live : PoolInv p live -> NoDup live.
Proof. intros [W [N _]]. eapply NoDup_app_left; eauto. Qed.

Lemma pool_reachable_inv esz zp ops : 0 < esz -> plegal_run (pstate_new esz zp) ops ->
  PInv (fst (prun_from (pstate_new esz zp) ops)).
Proof.
  intros He L. assert (I0 : PInv (pstate_new esz zp)) by (apply mempool_new_inv; auto).
  apply (prun_inv ops _ I0 L).
Qed.
