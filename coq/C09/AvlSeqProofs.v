(* C09 - the AVL tree with caller-chosen positions refines a sequence (Coq list) with insertion and deletion by
   index: for every history and every balance decision.  No compare function, no order on the items. *)
From Coq Require Import ZArith List Bool Lia.
From ScV Require Import Base.CInt Gen.AvlBalance C09.HashModel C09.AvlModel C09.AvlProofs C09.AvlSeqModel.
Import ListNotations.
Local Open Scope Z_scope.

Section AvlSeqProofs.
  Variable key : Type.
  Notation tree := (tree key).
  Notation cnt := (cnt key).
  Notation rebal := (rebal key).
  Notation inorder := (inorder key).
  Notation wfc := (wfc key).
  Notation app_max := (app_max key).
  Notation app_min := (app_min key).
  Notation ins_before := (ins_before key).
  Notation ins_after := (ins_after key).
  Notation del_at := (del_at key).
  Notation rank_up := (rank_up key).
  Notation sq_ins := (sq_ins key).
  Notation sq_del := (sq_del key).

  Lemma wfc_leaf x : wfc (leaf key x).
  Proof. cbn. auto. Qed.

  Lemma app_max_spec t x : inorder (app_max t x) = inorder t ++ [x] /\ (wfc t -> wfc (app_max t x)).
  Proof.
    induction t as [|l IHl y c r IHr]; cbn [AvlSeqModel.app_max AvlModel.inorder].
    - split; auto. intros _. apply wfc_leaf.
    - destruct IHr as [I W]. rewrite inorder_rebal, I. split.
      + rewrite <- app_assoc. reflexivity.
      + intros [_ [Hl Hr]]. apply wfc_rebal; auto.
  Qed.

  Lemma app_min_spec t x : inorder (app_min t x) = x :: inorder t /\ (wfc t -> wfc (app_min t x)).
  Proof.
    induction t as [|l IHl y c r IHr]; cbn [AvlSeqModel.app_min AvlModel.inorder].
    - split; auto. intros _. apply wfc_leaf.
    - destruct IHl as [I W]. rewrite inorder_rebal, I. split; auto.
      intros [_ [Hl Hr]]. apply wfc_rebal; auto.
  Qed.

  (* list insertion / deletion by index through an append *)
  Lemma sq_ins_left (a b : list key) n x : (n <= length a)%nat -> sq_ins (a ++ b) n x = sq_ins a n x ++ b.
  Proof.
    intros H. unfold AvlSeqModel.sq_ins. rewrite firstn_app, skipn_app.
    replace (n - length a)%nat with 0%nat by lia. cbn [firstn skipn]. rewrite app_nil_r, <- app_assoc. reflexivity.
  Qed.

  Lemma sq_ins_right (a b : list key) n x : (length a <= n)%nat -> sq_ins (a ++ b) n x = a ++ sq_ins b (n - length a) x.
  Proof.
    intros H. unfold AvlSeqModel.sq_ins. rewrite firstn_app, skipn_app.
    rewrite firstn_all2 by lia. rewrite skipn_all2 by lia. rewrite <- app_assoc. reflexivity.
  Qed.

  Lemma sq_ins_end (a : list key) x : sq_ins a (length a) x = a ++ [x].
  Proof. unfold AvlSeqModel.sq_ins. rewrite firstn_all, skipn_all. reflexivity. Qed.

  Lemma sq_ins_zero (a : list key) x : sq_ins a 0 x = x :: a.
  Proof. reflexivity. Qed.

  Lemma sq_del_left (a b : list key) n : (n < length a)%nat -> sq_del (a ++ b) n = sq_del a n ++ b.
  Proof.
    intros H. unfold AvlSeqModel.sq_del. rewrite firstn_app, skipn_app.
    replace (n - length a)%nat with 0%nat by lia. replace (S n - length a)%nat with 0%nat by lia.
    cbn [firstn skipn]. rewrite app_nil_r, <- app_assoc. reflexivity.
  Qed.

  Lemma sq_del_right (a b : list key) n : (length a <= n)%nat -> sq_del (a ++ b) n = a ++ sq_del b (n - length a).
  Proof.
    intros H. unfold AvlSeqModel.sq_del. rewrite firstn_app, skipn_app.
    rewrite firstn_all2 by lia. rewrite skipn_all2 by lia. rewrite <- app_assoc.
    replace (S n - length a)%nat with (S (n - length a)) by lia. reflexivity.
  Qed.

  Lemma ins_before_spec t x : wfc t -> forall u, 0 <= u < cnt t ->
    inorder (ins_before t u x) = sq_ins (inorder t) (Z.to_nat u) x /\ wfc (ins_before t u x).
  Proof.
    induction t as [|l IHl y c r IHr]; intros W u Hu; cbn [AvlModel.cnt] in Hu; [lia|].
    destruct W as [Hc [Wl Wr]]. pose proof (cnt_size key l Wl) as Cl. pose proof (cnt_size key r Wr) as Cr.
    cbn [AvlSeqModel.ins_before AvlModel.inorder].
    destruct (Z.ltb_spec u (cnt l)) as [A|A].
    - destruct (IHl Wl u ltac:(lia)) as [I W']. rewrite inorder_rebal, I. split; [|apply wfc_rebal; auto].
      rewrite sq_ins_left by lia. reflexivity.
    - destruct (Z.ltb_spec (cnt l) u) as [B|B].
      + destruct (IHr Wr (u - (cnt l + 1)) ltac:(lia)) as [I W']. rewrite inorder_rebal, I. split; [|apply wfc_rebal; auto].
        rewrite sq_ins_right by lia. f_equal.
        change (y :: inorder r) with ([y] ++ inorder r). rewrite sq_ins_right by (cbn [length]; lia).
        cbn [length app]. f_equal. f_equal. lia.
      + destruct (app_max_spec l x) as [I W']. rewrite inorder_rebal, I. split; [|apply wfc_rebal; auto].
        rewrite sq_ins_right by lia. replace (Z.to_nat u - length (inorder l))%nat with 0%nat by lia.
        rewrite sq_ins_zero, <- app_assoc. reflexivity.
  Qed.

  Lemma ins_after_spec t x : wfc t -> forall u, 0 <= u < cnt t ->
    inorder (ins_after t u x) = sq_ins (inorder t) (S (Z.to_nat u)) x /\ wfc (ins_after t u x).
  Proof.
    induction t as [|l IHl y c r IHr]; intros W u Hu; cbn [AvlModel.cnt] in Hu; [lia|].
    destruct W as [Hc [Wl Wr]]. pose proof (cnt_size key l Wl) as Cl. pose proof (cnt_size key r Wr) as Cr.
    cbn [AvlSeqModel.ins_after AvlModel.inorder].
    destruct (Z.ltb_spec u (cnt l)) as [A|A].
    - destruct (IHl Wl u ltac:(lia)) as [I W']. rewrite inorder_rebal, I. split; [|apply wfc_rebal; auto].
      rewrite sq_ins_left by lia. reflexivity.
    - destruct (Z.ltb_spec (cnt l) u) as [B|B].
      + destruct (IHr Wr (u - (cnt l + 1)) ltac:(lia)) as [I W']. rewrite inorder_rebal, I. split; [|apply wfc_rebal; auto].
        rewrite sq_ins_right by lia. f_equal.
        change (y :: inorder r) with ([y] ++ inorder r). rewrite sq_ins_right by (cbn [length]; lia).
        cbn [length app]. f_equal. f_equal. lia.
      + destruct (app_min_spec r x) as [I W']. rewrite inorder_rebal, I. split; [|apply wfc_rebal; auto].
        rewrite sq_ins_right by lia. replace (S (Z.to_nat u) - length (inorder l))%nat with 1%nat by lia.
        reflexivity.
  Qed.

  Lemma del_at_spec t : wfc t -> forall u, 0 <= u < cnt t ->
    inorder (del_at t u) = sq_del (inorder t) (Z.to_nat u) /\ wfc (del_at t u).
  Proof.
    induction t as [|l IHl y c r IHr]; intros W u Hu; cbn [AvlModel.cnt] in Hu; [lia|].
    destruct W as [Hc [Wl Wr]]. pose proof (cnt_size key l Wl) as Cl. pose proof (cnt_size key r Wr) as Cr.
    cbn [AvlSeqModel.del_at AvlModel.inorder].
    destruct (Z.ltb_spec u (cnt l)) as [A|A].
    - destruct (IHl Wl u ltac:(lia)) as [I W']. rewrite inorder_rebal, I. split; [|apply wfc_rebal; auto].
      rewrite sq_del_left by lia. reflexivity.
    - destruct (Z.ltb_spec (cnt l) u) as [B|B].
      + destruct (IHr Wr (u - (cnt l + 1)) ltac:(lia)) as [I W']. rewrite inorder_rebal, I. split; [|apply wfc_rebal; auto].
        rewrite sq_del_right by lia. f_equal.
        change (y :: inorder r) with ([y] ++ inorder r). rewrite sq_del_right by (cbn [length]; lia).
        cbn [length app]. f_equal. f_equal. lia.
      + assert (Eu : Z.to_nat u = length (inorder l)) by lia.
        assert (G : sq_del (inorder l ++ y :: inorder r) (Z.to_nat u) = inorder l ++ inorder r).
        { rewrite sq_del_right by lia. rewrite Eu, Nat.sub_diag. reflexivity. }
        rewrite G.
        destruct l as [|ll ly lc lr] eqn:El.
        * split; auto.
        * destruct r as [|rl ry rc rr] eqn:Er.
          -- rewrite app_nil_r. split; auto.
          -- rewrite <- El in *. rewrite <- Er in *.
             pose proof (remove_max_spec key l) as RM.
             destruct (remove_max key l) as [[l' m]|].
             ++ destruct RM as [I W']. rewrite inorder_rebal, I. split; [|apply wfc_rebal; auto].
                rewrite <- app_assoc. reflexivity.
             ++ subst l. discriminate.
  Qed.

  Lemma rank_up_spec t : wfc t -> forall u acc,
    rank_up t u acc = if (0 <=? u) && (u <? cnt t) then Some (acc + u) else None.
  Proof.
    induction t as [|l IHl y c r IHr]; intros W u acc; cbn [AvlSeqModel.rank_up AvlModel.cnt].
    - destruct (0 <=? u) eqn:E0; cbn [andb]; auto. destruct (Z.ltb_spec u 0); auto. apply Z.leb_le in E0. lia.
    - destruct W as [Hc [Wl Wr]]. pose proof (cnt_nonneg key l Wl) as Nl. pose proof (cnt_nonneg key r Wr) as Nr. subst c.
      destruct (Z.ltb_spec u (cnt l)) as [A|A].
      + rewrite IHl by auto. destruct (Z.leb_spec 0 u); cbn [andb]; auto.
        destruct (Z.ltb_spec u (cnt l)); destruct (Z.ltb_spec u (cnt l + cnt r + 1)); auto; lia.
      + destruct (Z.ltb_spec (cnt l) u) as [B|B].
        * rewrite IHr by auto.
          destruct (Z.leb_spec 0 (u - (cnt l + 1))); destruct (Z.leb_spec 0 u); try lia; cbn [andb].
          destruct (Z.ltb_spec (u - (cnt l + 1)) (cnt r)); destruct (Z.ltb_spec u (cnt l + cnt r + 1)); try lia; auto.
          f_equal. lia.
        * destruct (Z.leb_spec 0 u); try lia. destruct (Z.ltb_spec u (cnt l + cnt r + 1)); try lia. cbn [andb].
          f_equal. lia.
  Qed.

  (* ---------- the refinement ---------- *)
  Definition QInv (st : avl key) (s : list key) : Prop :=
    inorder (a_top key st) = s /\ a_thread key st = s /\ wfc (a_top key st).

  (* AvlProofs.at_spec was proved inside a section with a comparator; it does not depend on it *)
  Lemma at_spec' t : wfc t -> forall u, at_ key t u = if u <? 0 then None else nth_error (inorder t) (Z.to_nat u).
  Proof.
    apply (at_spec key (fun _ _ => 0)); intros; cbn; lia.
  Qed.

  Lemma at_inrange t s u : wfc t -> inorder t = s ->
    at_ key t u = if inrange key s u then nth_error s (Z.to_nat u) else None.
  Proof.
    intros W I. rewrite (at_spec' t W). subst s. unfold inrange.
    destruct (Z.ltb_spec u 0); destruct (Z.leb_spec 0 u); try lia; cbn [andb]; auto.
    destruct (Z.ltb_spec u (Z.of_nat (length (inorder t)))); auto.
    apply nth_error_None. lia.
  Qed.

  Lemma inrange_true s u : inrange key s u = true -> 0 <= u < Z.of_nat (length s).
  Proof. unfold inrange. intros H. apply andb_true_iff in H. destruct H as [A B]. apply Z.leb_le in A. apply Z.ltb_lt in B. lia. Qed.

  Lemma qstep_inv st s op : QInv st s ->
    QInv (fst (qstep key st op)) (fst (sqstep key s op)) /\ snd (qstep key st op) = snd (sqstep key s op).
  Proof.
    intros [I [T W]]. pose proof (cnt_size key _ W) as C. rewrite I in C.
    destruct op as [u x|u x|u|u|u| | | | | |]; cbn [qstep sqstep fst snd].
    - rewrite (at_inrange _ s u W I). destruct (inrange key s u) eqn:Hin.
      + apply inrange_true in Hin.
        destruct (nth_error s (Z.to_nat u)) eqn:En; [|apply nth_error_None in En; lia].
        destruct (ins_before_spec _ x W u ltac:(lia)) as [I' W']. rewrite I in I'.
        cbn [a_top a_thread fst snd]. rewrite T. split; [split; [|split]; auto|].
        rewrite (cnt_size key _ W'), I'. reflexivity.
      + destruct (app_max_spec (a_top key st) x) as [I' W']. rewrite I in I'. cbn [a_top a_thread]. rewrite T.
        split; [split; [|split]; auto|]. rewrite (cnt_size key _ (W' W)), I'. reflexivity.
    - rewrite (at_inrange _ s u W I). destruct (inrange key s u) eqn:Hin.
      + apply inrange_true in Hin.
        destruct (nth_error s (Z.to_nat u)) eqn:En; [|apply nth_error_None in En; lia].
        destruct (ins_after_spec _ x W u ltac:(lia)) as [I' W']. rewrite I in I'.
        cbn [a_top a_thread fst snd]. rewrite T. split; [split; [|split]; auto|].
        rewrite (cnt_size key _ W'), I'. reflexivity.
      + destruct (app_min_spec (a_top key st) x) as [I' W']. rewrite I in I'. cbn [a_top a_thread]. rewrite T.
        split; [split; [|split]; auto|]. rewrite (cnt_size key _ (W' W)), I'. reflexivity.
    - rewrite (at_inrange _ s u W I). destruct (inrange key s u) eqn:Hin;
        [|split; [split; [|split]; auto|reflexivity]].
      apply inrange_true in Hin.
      destruct (nth_error s (Z.to_nat u)) eqn:En; [|apply nth_error_None in En; lia].
      destruct (del_at_spec _ W u ltac:(lia)) as [I' W']. rewrite I in I'.
      cbn [a_top a_thread fst snd]. rewrite T. split; [split; [|split]; auto|reflexivity].
    - rewrite (at_inrange _ s u W I). split; [split; [|split]; auto|reflexivity].
    - rewrite (rank_up_spec _ W). unfold inrange. rewrite C, Z.add_0_l. split; [split; [|split]; auto|reflexivity].
    - rewrite C. split; [split; [|split]; auto|reflexivity].
    - rewrite I. split; [split; [|split]; auto|reflexivity].
    - rewrite T. split; [split; [|split]; auto|reflexivity].
    - rewrite T. split; [split; [|split]; auto|reflexivity].
    - rewrite T. split; [split; [|split]; auto|reflexivity].
    - split; [|reflexivity]. split; [|split]; cbn; auto.
  Qed.

  Lemma qrun_inv ops : forall st s, QInv st s ->
    QInv (fst (qrun_from key st ops)) (fst (sqrun_from key s ops)) /\ snd (qrun_from key st ops) = snd (sqrun_from key s ops).
  Proof.
    induction ops as [|op r IH]; intros st s H; cbn [qrun_from sqrun_from].
    - split; auto.
    - destruct (qstep_inv st s op H) as [H1 O1].
      destruct (qstep key st op) as [st1 o]. destruct (sqstep key s op) as [s1 o']. cbn [fst snd] in *.
      destruct (IH st1 s1 H1) as [H2 O2].
      destruct (qrun_from key st1 r) as [st2 os]. destruct (sqrun_from key s1 r) as [s2 os']. cbn [fst snd] in *.
      split; auto. congruence.
  Qed.

  (* every history of positional insertions (before / after any node or NULL), deletions by node, rank queries,
     traversals and clear: the in-order sequence of the tree and the prev/next list equal the sequence, every stored
     count is the size of its subtree, avl_count is the length and every output equals the sequence's *)
  Theorem avl_seq_refines ops :
    let '(st, outs) := qrun_from key (avl_new key) ops in
    let '(s, souts) := sqrun_from key [] ops in
    inorder (a_top key st) = s /\ a_thread key st = s /\ wfc (a_top key st) /\
    cnt (a_top key st) = Z.of_nat (length s) /\ outs = souts.
  Proof.
    assert (H0 : QInv (avl_new key) []) by (split; [|split]; cbn; auto).
    destruct (qrun_inv ops _ _ H0) as [[I [T W]] O].
    destruct (qrun_from key (avl_new key) ops) as [st outs]. destruct (sqrun_from key [] ops) as [s souts].
    cbn [fst snd] in *. repeat split; auto. rewrite (cnt_size key _ W), I. reflexivity.
  Qed.

  (* a positional insertion never moves the other items: the old sequence is the new one without the new item *)
  Theorem avl_seq_insert_keeps_order t u x : wfc t -> 0 <= u < cnt t ->
    sq_del (inorder (ins_before t u x)) (Z.to_nat u) = inorder t /\
    sq_del (inorder (ins_after t u x)) (S (Z.to_nat u)) = inorder t /\
    nth_error (inorder (ins_before t u x)) (Z.to_nat u) = Some x /\
    nth_error (inorder (ins_after t u x)) (S (Z.to_nat u)) = Some x.
  Proof.
    intros W Hu. destruct (ins_before_spec t x W u Hu) as [I1 _]. destruct (ins_after_spec t x W u Hu) as [I2 _].
    pose proof (cnt_size key t W) as C. rewrite I1, I2.
    assert (G : forall (s : list key) n, (n <= length s)%nat -> sq_del (sq_ins s n x) n = s /\ nth_error (sq_ins s n x) n = Some x).
    { intros s n Hn. unfold AvlSeqModel.sq_ins.
      assert (La : length (firstn n s) = n) by (rewrite firstn_length; lia).
      split.
      - rewrite sq_del_right by lia. rewrite La, Nat.sub_diag. unfold AvlSeqModel.sq_del. cbn [firstn skipn app].
        apply firstn_skipn.
      - rewrite nth_error_app2 by lia. rewrite La, Nat.sub_diag. reflexivity. }
    destruct (G (inorder t) (Z.to_nat u) ltac:(lia)) as [G1 G2].
    destruct (G (inorder t) (S (Z.to_nat u)) ltac:(lia)) as [G3 G4]. auto.
  Qed.
End AvlSeqProofs.
