(* C09 - two sc_list objects (and a third user holding items) that draw their links from ONE sc_mempool and live in
   one memory: the heap and the pool are shared, each list keeps its own first / last / elem_count.  Every operation
   on one list is the operation of ListModel.v on the shared heap and pool.  Definitions only. *)
From Coq Require Import ZArith List Bool.
From ScV Require Import Base.CInt C09.PoolModel C09.ListModel.
Import ListNotations.
Local Open Scope Z_scope.

Record lhead := mkHd { h_first : option item; h_last : option item; h_count : Z }.

Record shared := mkSh {
  sh_heap : lheap;          (* the memory of all links *)
  sh_pool : mempool;        (* the common allocator *)
  sh_a : lhead;             (* list A *)
  sh_b : lhead              (* list B *)
}.

Definition sh_new (p : mempool) : shared := mkSh (fun _ => (0, None)) p (mkHd None None 0) (mkHd None None 0).

Definition as_list (s : shared) (h : lhead) : sclist := mkList (sh_heap s) (h_first h) (h_last h) (h_count h) (sh_pool s).
Definition head_of (l : sclist) : lhead := mkHd (l_first l) (l_last l) (l_count l).

(* which = false: list A, true: list B *)
Definition sh_step (s : shared) (which : bool) (op : lop) : shared * lout :=
  if which then
    let '(l', o) := lstep (as_list s (sh_b s)) op in (mkSh (l_heap l') (l_pool l') (sh_a s) (head_of l'), o)
  else
    let '(l', o) := lstep (as_list s (sh_a s)) op in (mkSh (l_heap l') (l_pool l') (head_of l') (sh_b s), o).

Fixpoint sh_run_from (s : shared) (ops : list (bool * lop)) : shared * list lout :=
  match ops with
  | [] => (s, [])
  | (w, op) :: r => let '(s1, o) := sh_step s w op in let '(s2, os) := sh_run_from s1 r in (s2, o :: os)
  end.

(* ---- the abstract data type: two independent sequences ---- *)
Definition sq2_step (st : list Z * list Z) (which : bool) (op : lop) : (list Z * list Z) * lout :=
  if which then let '(s', o) := seq_step (snd st) op in ((fst st, s'), o)
  else let '(s', o) := seq_step (fst st) op in ((s', snd st), o).

Fixpoint sq2_run_from (st : list Z * list Z) (ops : list (bool * lop)) : (list Z * list Z) * list lout :=
  match ops with
  | [] => (st, [])
  | (w, op) :: r => let '(s1, o) := sq2_step st w op in let '(s2, os) := sq2_run_from s1 r in (s2, o :: os)
  end.

Fixpoint sq2_legal_run (st : list Z * list Z) (ops : list (bool * lop)) : Prop :=
  match ops with
  | [] => True
  | (w, op) :: r => seq_legal (if w then snd st else fst st) op /\ sq2_legal_run (fst (sq2_step st w op)) r
  end.
