(* C09 - node OBJECTS with a history (src/sc_avl.c): avl_unlink_node takes a node out of the tree without touching the
   node's own fields, so the object keeps its stale left / right / count; the header recommends exactly this to
   change a search key: unlink, change the item, insert the same object again (avl_insert_node, or avl_insert_before /
   avl_insert_after / avl_insert_top at a place of the caller's choice).  A caller-allocated node that was filled in
   by hand is in the same situation.  The insert functions call avl_clear_node on the object (left = right = NULL,
   count = 1) before they link it in; avl_init_node only stores the item.
   The linking functions below take the subtree that is linked in as an argument (`nw`): with `leaf_of o` they are the
   C functions applied to the object o.  Definitions only; proofs are in AvlRelinkProofs.v. *)
From Coq Require Import ZArith List Bool.
From ScV Require Import Base.CInt Gen.AvlBalance C09.HashModel C09.PoolModel C09.AvlModel C09.AvlSeqModel.
Import ListNotations.
Local Open Scope Z_scope.

Section AvlRelink.
  Variable key : Type.
  Notation tree := (tree key).

  (* the fields of a node object that matter when it is outside the tree *)
  Record nobj := mkNobj { o_item : key; o_left : tree; o_right : tree; o_count : Z }.

  Definition clear_node (o : nobj) : nobj := mkNobj (o_item o) E E 1.                   (* avl_clear_node *)
  Definition init_node (o : nobj) (x : key) : nobj := mkNobj x (o_left o) (o_right o) (o_count o).   (* avl_init_node *)
  Definition as_tree (o : nobj) : tree := N (o_left o) (o_item o) (o_count o) (o_right o).
  (* what avl_insert_top / avl_insert_before / avl_insert_after link in: the object after avl_clear_node *)
  Definition leaf_of (o : nobj) : tree := as_tree (clear_node o).

  (* the node object of rank u, with the fields it has at that moment *)
  Fixpoint node_at (t : tree) (u : Z) : option nobj :=
    match t with
    | E => None
    | N l y c r => let k := cnt key l in
                   if u <? k then node_at l u else if k <? u then node_at r (u - (k + 1)) else Some (mkNobj y l r c)
    end.

  (* ---- the linking functions of AvlSeqModel.v / AvlModel.v with the linked-in subtree as an argument ---- *)
  Fixpoint app_max_g (t nw : tree) : tree :=
    match t with E => nw | N l y _ r => rebal key l y (app_max_g r nw) end.
  Fixpoint app_min_g (t nw : tree) : tree :=
    match t with E => nw | N l y _ r => rebal key (app_min_g l nw) y r end.
  Fixpoint ins_before_g (t : tree) (u : Z) (nw : tree) : tree :=
    match t with
    | E => nw
    | N l y _ r => let c := cnt key l in
                   if u <? c then rebal key (ins_before_g l u nw) y r
                   else if c <? u then rebal key l y (ins_before_g r (u - (c + 1)) nw)
                   else rebal key (app_max_g l nw) y r
    end.
  Fixpoint ins_after_g (t : tree) (u : Z) (nw : tree) : tree :=
    match t with
    | E => nw
    | N l y _ r => let c := cnt key l in
                   if u <? c then rebal key (ins_after_g l u nw) y r
                   else if c <? u then rebal key l y (ins_after_g r (u - (c + 1)) nw)
                   else rebal key l y (app_min_g r nw)
    end.

  (* ================= the sequence family with unlink / relink ================= *)
  Inductive eop : Type :=
  | EBase (op : qop key)
  | EUnlinkAt (u : Z)                               (* avl_unlink_node (avl_at (u)); the object is kept by the caller *)
  | ERelinkBefore (u : Z) (k : nat) (x : key)       (* k-th kept object: item := x, avl_insert_before (avl_at (u), object) *)
  | ERelinkAfter (u : Z) (k : nat) (x : key).

  Definition estate : Type := (avl key * list nobj)%type.

  Definition estep (s : estate) (op : eop) : estate * qout key :=
    let '(st, det) := s in
    let t := a_top key st in
    let th := a_thread key st in
    match op with
    | EBase b => let '(st', o) := qstep key st b in ((st', det), o)
    | EUnlinkAt u =>
      match node_at t u with
      | Some o => ((mkAvl key (del_at key t u) (sq_del key th (Z.to_nat u)), det ++ [o]), QoItem key (Some (o_item o)))
      | None => (s, QoItem key None)
      end
    | ERelinkBefore u k x =>
      match nth_error det k with
      | None => (s, QoUnit)
      | Some o =>
        let nw := leaf_of (init_node o x) in
        let st' := match at_ key t u with
                   | Some _ => mkAvl key (ins_before_g t u nw) (sq_ins key th (Z.to_nat u) x)
                   | None => mkAvl key (app_max_g t nw) (th ++ [x])
                   end in
        ((st', remove_nth k det), QoCnt key (cnt key (a_top key st')))
      end
    | ERelinkAfter u k x =>
      match nth_error det k with
      | None => (s, QoUnit)
      | Some o =>
        let nw := leaf_of (init_node o x) in
        let st' := match at_ key t u with
                   | Some _ => mkAvl key (ins_after_g t u nw) (sq_ins key th (S (Z.to_nat u)) x)
                   | None => mkAvl key (app_min_g t nw) (x :: th)
                   end in
        ((st', remove_nth k det), QoCnt key (cnt key (a_top key st')))
      end
    end.

  Fixpoint erun_from (s : estate) (ops : list eop) : estate * list (qout key) :=
    match ops with
    | [] => (s, [])
    | op :: r => let '(s1, o) := estep s op in let '(s2, os) := erun_from s1 r in (s2, o :: os)
    end.

  (* the abstract data type: the sequence, and the items of the objects the caller keeps *)
  Definition esstep (s : list key * list key) (op : eop) : (list key * list key) * qout key :=
    let '(q, d) := s in
    match op with
    | EBase b => let '(q', o) := sqstep key q b in ((q', d), o)
    | EUnlinkAt u => let '(q', o) := sqstep key q (QDeleteAt u) in
                     ((q', match o with QoItem _ (Some y) => d ++ [y] | _ => d end), o)
    | ERelinkBefore u k x =>
      match nth_error d k with
      | None => (s, QoUnit)
      | Some _ => let '(q', o) := sqstep key q (QInsBefore key u x) in ((q', remove_nth k d), o)
      end
    | ERelinkAfter u k x =>
      match nth_error d k with
      | None => (s, QoUnit)
      | Some _ => let '(q', o) := sqstep key q (QInsAfter key u x) in ((q', remove_nth k d), o)
      end
    end.

  Fixpoint esrun_from (s : list key * list key) (ops : list eop) : (list key * list key) * list (qout key) :=
    match ops with
    | [] => (s, [])
    | op :: r => let '(s1, o) := esstep s op in let '(s2, os) := esrun_from s1 r in (s2, o :: os)
    end.

  (* ================= the set family (avl_insert_node by search) with unlink / relink ================= *)
  Variable cmp : key -> key -> Z.

  Fixpoint ins_g (t : tree) (x : key) (nw : tree) : tree :=
    match t with
    | E => nw
    | N l y c r =>
      let d := cmp x y in
      if d <? 0 then rebal key (ins_g l x nw) y r
      else if 0 <? d then rebal key l y (ins_g r x nw)
      else t
    end.

  (* avl_insert_node (tree, object): NULL when an equal item is in the tree *)
  Definition avl_insert_obj (s : avl key) (o : nobj) : avl key * bool :=
    let x := o_item o in
    match closest key cmp (a_top key s) x with
    | None => (mkAvl key (leaf_of o) [x], true)
    | Some (y, sg) =>
      if sg =? 0 then (s, false)
      else (mkAvl key (ins_g (a_top key s) x (leaf_of o))
                  (if sg <? 0 then th_before key cmp (a_thread key s) y x else th_after key cmp (a_thread key s) y x), true)
    end.

  (* the node object holding an item equal to x *)
  Fixpoint node_of (t : tree) (x : key) : option nobj :=
    match t with
    | E => None
    | N l y c r => let d := cmp x y in
                   if d <? 0 then node_of l x else if 0 <? d then node_of r x else Some (mkNobj y l r c)
    end.

  Inductive xop : Type :=
  | XBase (op : vop key)
  | XUnlink (x : key)                  (* node = avl_search (x); avl_unlink_node (node); the object is kept *)
  | XRelink (k : nat) (x : key).       (* k-th kept object: item := x, avl_insert_node; it stays with the caller if x is present *)

  Definition xstate : Type := (avl key * list nobj)%type.

  Definition xstep (s : xstate) (op : xop) : xstate * vout key :=
    let '(st, det) := s in
    match op with
    | XBase b => let '(st', o) := vstep key cmp st b in ((st', det), o)
    | XUnlink x =>
      match node_of (a_top key st) x with
      | Some o => let '(st', r) := avl_delete key cmp st x in ((st', det ++ [o]), VoItem key r)
      | None => (s, VoItem key None)
      end
    | XRelink k x =>
      match nth_error det k with
      | None => (s, VoUnit)
      | Some o => let o' := init_node o x in
                  let '(st', added) := avl_insert_obj st o' in
                  ((st', if added then remove_nth k det else HashModel.upd k o' det), VoBool key added)
      end
    end.

  Fixpoint xrun_from (s : xstate) (ops : list xop) : xstate * list (vout key) :=
    match ops with
    | [] => (s, [])
    | op :: r => let '(s1, o) := xstep s op in let '(s2, os) := xrun_from s1 r in (s2, o :: os)
    end.

  (* the abstract data type: the set (strictly ascending list) and the items of the objects the caller keeps *)
  Definition xsstep (s : list key * list key) (op : xop) : (list key * list key) * vout key :=
    let '(q, d) := s in
    match op with
    | XBase b => let '(q', o) := sstep key cmp q b in ((q', d), o)
    | XUnlink x => match sfind key cmp q x with
                   | Some y => ((sdel key cmp q x, d ++ [y]), VoItem key (Some y))
                   | None => (s, VoItem key None)
                   end
    | XRelink k x => match nth_error d k with
                     | None => (s, VoUnit)
                     | Some _ => match sfind key cmp q x with
                                 | Some _ => ((q, HashModel.upd k x d), VoBool key false)
                                 | None => ((sins key cmp q x, remove_nth k d), VoBool key true)
                                 end
                     end
    end.

  Definition xout_ok (q : list key) (op : xop) (o o_spec : vout key) : Prop :=
    match op with XBase b => vout_ok key cmp q b o o_spec | _ => o = o_spec end.

  Fixpoint xouts_ok (s : list key * list key) (ops : list xop) (outs : list (vout key)) : Prop :=
    match ops, outs with
    | [], [] => True
    | op :: t, o :: os => xout_ok (fst s) op o (snd (xsstep s op)) /\ xouts_ok (fst (xsstep s op)) t os
    | _, _ => False
    end.

  Fixpoint xsstate (s : list key * list key) (ops : list xop) : list key * list key :=
    match ops with [] => s | op :: r => xsstate (fst (xsstep s op)) r end.
End AvlRelink.
