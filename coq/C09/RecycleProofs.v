(* C09 - the recycle array model refines a slot allocator: positions handed out are distinct from every live
   position, live contents never move, the array grows exactly when no freed slot exists, and the counters agree. *)
From Coq Require Import ZArith List Bool Lia Permutation.
From ScV Require Import Base.CInt C09.HashModel C09.HashProofs C09.RecycleModel.
Import ListNotations.
Local Open Scope Z_scope.

(* ---------- the live map ---------- *)
Lemma lget_none_iff m p : lget m p = None <-> ~ In p (map fst m).
Proof.
  induction m as [|[q v] t IH]; cbn [lget map fst In]; [tauto|].
  destruct (Z.eqb_spec q p) as [->|Hne].
  - split; [discriminate|]. intros H. exfalso. apply H. left; reflexivity.
  - rewrite IH. tauto.
Qed.

Lemma lget_some_in m p v : lget m p = Some v -> In p (map fst m).
Proof.
  intros H. destruct (in_dec Z.eq_dec p (map fst m)) as [Hi|Hn]; [exact Hi|].
  apply lget_none_iff in Hn. congruence.
Qed.

Lemma ldel_none m p : lget m p = None -> ldel m p = m.
Proof.
  induction m as [|[q v] t IH]; cbn [lget ldel]; [reflexivity|].
  destruct (Z.eqb_spec q p); [discriminate|]. intros H. rewrite IH by exact H. reflexivity.
Qed.

Lemma lget_ldel_same m p : lget (ldel m p) p = None.
Proof.
  induction m as [|[q v] t IH]; cbn [lget ldel]; [reflexivity|].
  destruct (Z.eqb_spec q p) as [->|Hne]; [exact IH|].
  cbn [lget]. destruct (Z.eqb_spec q p); [contradiction|exact IH].
Qed.

Lemma lget_ldel_other m p q : p <> q -> lget (ldel m p) q = lget m q.
Proof.
  intros Hpq. induction m as [|[x v] t IH]; cbn [lget ldel]; [reflexivity|].
  destruct (Z.eqb_spec x p) as [->|Hne].
  - destruct (Z.eqb_spec p q); [contradiction|exact IH].
  - cbn [lget]. destruct (Z.eqb_spec x q); [reflexivity|exact IH].
Qed.

Lemma ldel_keys_in m p q : In q (map fst (ldel m p)) -> In q (map fst m).
Proof.
  induction m as [|[x v] t IH]; cbn [ldel map fst In]; [tauto|].
  destruct (Z.eqb_spec x p) as [->|Hne].
  - intros H. right. apply IH, H.
  - cbn [map fst In]. intros [H|H]; [left; exact H|right; apply IH, H].
Qed.

Lemma ldel_keys_nodup m p : NoDup (map fst m) -> NoDup (map fst (ldel m p)).
Proof.
  induction m as [|[x v] t IH]; cbn [ldel map fst]; intros H; [constructor|].
  inversion H as [|a l Hn Ht]; subst.
  destruct (Z.eqb_spec x p) as [->|Hne]; [apply IH, Ht|].
  cbn [map fst]. constructor; [|apply IH, Ht]. intros Hi. apply Hn. eapply ldel_keys_in; exact Hi.
Qed.

Lemma ldel_length m p : NoDup (map fst m) -> lget m p <> None -> length m = S (length (ldel m p)).
Proof.
  induction m as [|[x v] t IH]; cbn [lget ldel map fst length]; intros H L; [congruence|].
  inversion H as [|a l Hn Ht]; subst.
  destruct (Z.eqb_spec x p) as [->|Hne].
  - apply lget_none_iff in Hn. rewrite ldel_none by exact Hn. reflexivity.
  - cbn [length]. f_equal. apply IH; assumption.
Qed.

Lemma lset_keys_nodup m p v : NoDup (map fst m) -> NoDup (map fst (lset m p v)).
Proof.
  intros H. unfold lset. cbn [map fst]. constructor; [|apply ldel_keys_nodup, H].
  apply lget_none_iff. apply lget_ldel_same.
Qed.

Lemma lget_lset_same m p v : lget (lset m p v) p = Some v.
Proof. unfold lset. cbn [lget]. rewrite Z.eqb_refl. reflexivity. Qed.

Lemma lget_lset_other m p v q : p <> q -> lget (lset m p v) q = lget m q.
Proof.
  intros H. unfold lset. cbn [lget]. destruct (Z.eqb_spec p q); [contradiction|]. apply lget_ldel_other, H.
Qed.

Lemma lset_length_live m p v : NoDup (map fst m) -> lget m p <> None -> length (lset m p v) = length m.
Proof. intros N L. unfold lset. cbn [length]. rewrite (ldel_length m p N L). reflexivity. Qed.

Lemma lset_length_new m p v : lget m p = None -> length (lset m p v) = S (length m).
Proof. intros L. unfold lset. cbn [length]. rewrite ldel_none by exact L. reflexivity. Qed.

Lemma nth_snoc_other {A} (l : list A) x d i : (i < length l)%nat -> nth i (l ++ [x]) d = nth i l d.
Proof. intros H. apply app_nth1, H. Qed.

(* ---------- the invariant ---------- *)
Record RInv (r : rarray) (m : lmap) (hw : Z) : Prop := mkRInv {
  I_hw : hw = Z.of_nat (length (ra_a r));
  I_nd : NoDup (map fst m);
  I_live : forall p v, lget m p = Some v -> 0 <= p < hw /\ nth (Z.to_nat p) (ra_a r) 0 = v;
  I_cnt : ra_count r = Z.of_nat (length m);
  I_sum : ra_count r + Z.of_nat (length (ra_f r)) = hw;
  I_fnd : NoDup (ra_f r);
  I_free : forall p, In p (ra_f r) -> 0 <= p < hw /\ lget m p = None;
  I_cover : forall p, 0 <= p < hw -> lget m p <> None \/ In p (ra_f r) }.

Lemma RInv_init : RInv ra_init [] 0.
Proof.
  constructor; cbn [ra_init ra_a ra_f ra_count length map lget].
  - reflexivity.
  - apply NoDup_nil.
  - intros p v H; discriminate.
  - reflexivity.
  - reflexivity.
  - apply NoDup_nil.
  - intros p [].
  - intros p H; lia.
Qed.

Lemma live_bound r m hw p : RInv r m hw -> lget m p <> None -> 0 <= p < hw.
Proof.
  intros I L. destruct (lget m p) as [v|] eqn:E; [|congruence]. apply (I_live _ _ _ I p v E).
Qed.

Lemma write_RInv r m hw p v : RInv r m hw -> lget m p <> None -> RInv (ra_write r p v) (lset m p v) hw.
Proof.
  intros I L. pose proof (live_bound _ _ _ _ I L) as Hp. pose proof (I_hw _ _ _ I) as Hhw.
  constructor; unfold ra_write; cbn [ra_a ra_f ra_count].
  - rewrite upd_length. exact Hhw.
  - apply lset_keys_nodup, (I_nd _ _ _ I).
  - intros q w Hq. destruct (Z.eq_dec p q) as [<-|Hne].
    + rewrite lget_lset_same in Hq. injection Hq as <-. split; [exact Hp|]. apply nth_upd_same. lia.
    + rewrite lget_lset_other in Hq by exact Hne. destruct (I_live _ _ _ I q w Hq) as [Hb Hn]. split; [exact Hb|].
      rewrite nth_upd_other by lia. exact Hn.
  - rewrite lset_length_live; [apply (I_cnt _ _ _ I)|apply (I_nd _ _ _ I)|exact L].
  - apply (I_sum _ _ _ I).
  - apply (I_fnd _ _ _ I).
  - intros q Hq. destruct (I_free _ _ _ I q Hq) as [Hb Hn]. split; [exact Hb|].
    rewrite lget_lset_other; [exact Hn|]. intros ->. congruence.
  - intros q Hq. destruct (Z.eq_dec p q) as [<-|Hne].
    + left. rewrite lget_lset_same. discriminate.
    + rewrite lget_lset_other by exact Hne. apply (I_cover _ _ _ I q Hq).
Qed.

Lemma step_RInv r m hw op : RInv r m hw -> rlegal m op ->
  forall r1 o, rstep r op = (r1, o) ->
  rout_ok (m, hw) op o /\ RInv r1 (fst (aspec_step (m, hw) op o)) (snd (aspec_step (m, hw) op o)).
Proof.
  intros I L r1 o E. pose proof (I_hw _ _ _ I) as Hhw.
  destruct op as [junk v|p|p v|p| |]; cbn [rstep rlegal] in *.
  - (* insert *)
    unfold ra_insert in E. destruct (ra_f r) as [|p f'] eqn:Ef.
    + (* push a fresh slot *)
      injection E as <- <-. cbn [rout_ok aspec_step fst snd].
      unfold ra_write; cbn [ra_a ra_f ra_count]. rewrite <- Hhw. rewrite Z.eqb_refl.
      assert (Hn : lget m hw = None).
      { destruct (lget m hw) as [w|] eqn:G; [|reflexivity]. destruct (I_live _ _ _ I hw w G). lia. }
      assert (Hall : forall q, 0 <= q < hw -> lget m q <> None).
      { intros q Hq. destruct (I_cover _ _ _ I q Hq) as [H|H]; [exact H|]. rewrite Ef in H. destruct H. }
      split.
      * split; [exact Hn|]. split; [lia|]. split; [split; [intros _; exact Hall|reflexivity]|].
        rewrite (I_cnt _ _ _ I). reflexivity.
      * constructor; cbn [ra_a ra_f ra_count].
        -- rewrite upd_length, app_length. cbn [length]. lia.
        -- apply lset_keys_nodup, (I_nd _ _ _ I).
        -- intros q w Hq. destruct (Z.eq_dec hw q) as [<-|Hne].
           ++ rewrite lget_lset_same in Hq. injection Hq as <-. split; [lia|].
              apply nth_upd_same. rewrite app_length. cbn [length]. lia.
           ++ rewrite lget_lset_other in Hq by exact Hne. destruct (I_live _ _ _ I q w Hq) as [Hb Hv].
              split; [lia|]. rewrite nth_upd_other by lia. rewrite nth_snoc_other by lia. exact Hv.
        -- rewrite lset_length_new by exact Hn. rewrite (I_cnt _ _ _ I). lia.
        -- pose proof (I_sum _ _ _ I) as S. rewrite Ef in S. cbn [length] in *. lia.
        -- constructor.
        -- intros q [].
        -- intros q Hq. left. destruct (Z.eq_dec hw q) as [<-|Hne].
           ++ rewrite lget_lset_same. discriminate.
           ++ rewrite lget_lset_other by exact Hne. apply Hall. lia.
    + (* pop a freed position *)
      injection E as <- <-. cbn [rout_ok aspec_step fst snd].
      unfold ra_write; cbn [ra_a ra_f ra_count].
      destruct (I_free _ _ _ I p) as [Hp Hn]; [rewrite Ef; left; reflexivity|].
      pose proof (I_fnd _ _ _ I) as Nf. rewrite Ef in Nf. inversion Nf as [|a l Hnotin Nf']; subst a l.
      destruct (Z.eqb_spec p hw) as [->|Hne]; [lia|].
      split.
      * split; [exact Hn|]. split; [lia|]. split.
        -- split; [intros ->; lia|]. intros H. exfalso. apply (H p Hp). exact Hn.
        -- rewrite (I_cnt _ _ _ I). reflexivity.
      * constructor; cbn [ra_a ra_f ra_count].
        -- rewrite upd_length. exact Hhw.
        -- apply lset_keys_nodup, (I_nd _ _ _ I).
        -- intros q w Hq. destruct (Z.eq_dec p q) as [<-|Hpq].
           ++ rewrite lget_lset_same in Hq. injection Hq as <-. split; [exact Hp|]. apply nth_upd_same. lia.
           ++ rewrite lget_lset_other in Hq by exact Hpq. destruct (I_live _ _ _ I q w Hq) as [Hb Hv].
              split; [exact Hb|]. rewrite nth_upd_other by lia. exact Hv.
        -- rewrite lset_length_new by exact Hn. rewrite (I_cnt _ _ _ I). lia.
        -- pose proof (I_sum _ _ _ I) as S. rewrite Ef in S. cbn [length] in *. lia.
        -- exact Nf'.
        -- intros q Hq. destruct (I_free _ _ _ I q) as [Hb Hqn]; [rewrite Ef; right; exact Hq|].
           split; [exact Hb|]. rewrite lget_lset_other; [exact Hqn|]. intros ->. contradiction.
        -- intros q Hq. destruct (Z.eq_dec p q) as [<-|Hpq].
           ++ left. rewrite lget_lset_same. discriminate.
           ++ rewrite lget_lset_other by exact Hpq. destruct (I_cover _ _ _ I q Hq) as [H|H]; [left; exact H|].
              rewrite Ef in H. destruct H as [H|H]; [contradiction|right; exact H].
  - (* remove *)
    unfold ra_remove in E. injection E as <- <-. cbn [rout_ok aspec_step fst snd ra_count].
    pose proof (live_bound _ _ _ _ I L) as Hp.
    pose proof (ldel_length m p (I_nd _ _ _ I) L) as Hlen.
    split.
    + split.
      * destruct (lget m p) as [w|] eqn:G; [|congruence]. destruct (I_live _ _ _ I p w G) as [_ ->]. reflexivity.
      * rewrite (I_cnt _ _ _ I). reflexivity.
    + constructor; cbn [ra_a ra_f ra_count].
      * exact Hhw.
      * apply ldel_keys_nodup, (I_nd _ _ _ I).
      * intros q w Hq. destruct (Z.eq_dec p q) as [<-|Hpq].
        -- rewrite lget_ldel_same in Hq. discriminate.
        -- rewrite lget_ldel_other in Hq by exact Hpq. apply (I_live _ _ _ I q w Hq).
      * rewrite (I_cnt _ _ _ I). lia.
      * pose proof (I_sum _ _ _ I). cbn [length]. lia.
      * constructor; [|apply (I_fnd _ _ _ I)]. intros Hi. destruct (I_free _ _ _ I p Hi) as [_ Hn]. congruence.
      * intros q [<-|Hq].
        -- split; [exact Hp|apply lget_ldel_same].
        -- destruct (I_free _ _ _ I q Hq) as [Hb Hn]. split; [exact Hb|].
           destruct (Z.eq_dec p q) as [<-|Hpq]; [apply lget_ldel_same|]. rewrite lget_ldel_other by exact Hpq. exact Hn.
      * intros q Hq. destruct (Z.eq_dec p q) as [<-|Hpq]; [right; left; reflexivity|].
        rewrite lget_ldel_other by exact Hpq. destruct (I_cover _ _ _ I q Hq) as [H|H]; [left; exact H|right; right; exact H].
  - (* write *)
    injection E as <- <-. cbn [rout_ok aspec_step fst snd]. split; [exact Logic.I|]. apply write_RInv; assumption.
  - (* read *)
    injection E as <- <-. cbn [rout_ok aspec_step fst snd]. split; [|exact I].
    unfold ra_read. destruct (lget m p) as [w|] eqn:G; [|congruence]. destruct (I_live _ _ _ I p w G) as [_ ->]. reflexivity.
  - (* count *)
    injection E as <- <-. cbn [rout_ok aspec_step fst snd]. split; [|exact I].
    pose proof (I_sum _ _ _ I). pose proof (I_cnt _ _ _ I). lia.
  - (* reset *)
    injection E as <- <-. cbn [rout_ok aspec_step fst snd]. split; [exact Logic.I|]. apply RInv_init.
Qed.

Lemma run_RInv ops : forall r m hw, RInv r m hw -> rlegal_run r (m, hw) ops ->
  routs_ok r (m, hw) ops /\ exists m' hw', RInv (fst (rrun_from r ops)) m' hw'.
Proof.
  induction ops as [|op t IH]; intros r m hw I L; cbn [rlegal_run routs_ok rrun_from fst] in *.
  - split; [exact Logic.I|]. exists m, hw. exact I.
  - destruct L as [L1 L2]. destruct (rstep r op) as [r1 o] eqn:E.
    destruct (step_RInv r m hw op I L1 r1 o E) as [O I1].
    destruct (aspec_step (m, hw) op o) as [m1 hw1]. cbn [fst snd] in I1.
    destruct (IH r1 m1 hw1 I1 L2) as [O2 I2]. split; [split; assumption|].
    destruct (rrun_from r1 t) as [r2 os]. exact I2.
Qed.

(* the theorems of the property *)
Theorem recycle_refines : forall ops, rlegal_run ra_init ([], 0) ops -> routs_ok ra_init ([], 0) ops.
Proof. intros ops L. apply (run_RInv ops _ _ _ RInv_init L). Qed.

(* the invariant, exposed *)
Theorem recycle_invariant : forall ops, rlegal_run ra_init ([], 0) ops ->
  let r := fst (rrun_from ra_init ops) in
  ra_count r + Z.of_nat (length (ra_f r)) = Z.of_nat (length (ra_a r)) /\ NoDup (ra_f r) /\ 0 <= ra_count r /\
  Forall (fun p => 0 <= p < Z.of_nat (length (ra_a r))) (ra_f r).
Proof.
  intros ops L r. destruct (run_RInv ops _ _ _ RInv_init L) as [_ [m [hw I]]]. fold r in I.
  pose proof (I_hw _ _ _ I) as Hhw. split; [rewrite <- Hhw; apply (I_sum _ _ _ I)|].
  split; [apply (I_fnd _ _ _ I)|]. split; [rewrite (I_cnt _ _ _ I); lia|].
  apply Forall_forall. intros p Hp. rewrite <- Hhw. apply (I_free _ _ _ I p Hp).
Qed.
