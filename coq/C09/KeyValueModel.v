(* C09 - executable model of the key-value store (src/sc_keyvalue.c): a hash table (the hash table model of
   HashModel.v, with its slot lists and resizes) of entries (key, type, value) hashed and compared BY KEY ONLY,
   plus the entry allocator value_allocator (modelled by its elem_count: every entry in the table is one live item).
   Types: 0 NONE, 1 INT, 2 DOUBLE, 3 STRING, 4 POINTER (sc_keyvalue_entry_type_t); a value is a Z (the int, the bit
   pattern of the double, the identity of the string / pointer).
   Definitions only; proofs are in KeyValueProofs.v. *)
From Coq Require Import ZArith List Bool Permutation.
From ScV Require Import Base.CInt Gen.HashResize C09.HashModel.
Import ListNotations.
Local Open Scope Z_scope.

Section KeyValue.
  Variable K : Type.                    (* keys (C strings) *)
  Variable hfk : K -> Z.                (* sc_hash_function_string on the key: any function *)
  Variable keq : K -> K -> bool.        (* !strcmp *)

  Record entry := mkE { e_key : K; e_type : Z; e_val : Z }.

  Definition ehf (e : entry) : Z := hfk (e_key e).                       (* sc_keyvalue_entry_hash *)
  Definition eeq (a b : entry) : bool := keq (e_key a) (e_key b).        (* sc_keyvalue_entry_equal *)

  Record kvs := mkKv {
    kv_hash : hash entry;      (* kv->hash, allocator owned *)
    kv_pool : Z                (* kv->value_allocator->elem_count *)
  }.

  Definition kv_new : kvs := mkKv (hash_new entry true 0) 0.

  (* the stack variable svalue used for lookups: key set, type NONE *)
  Definition probe (k : K) : entry := mkE k 0 0.

  Definition kv_lookup (s : kvs) (k : K) : option entry := lookup entry ehf eeq (kv_hash s) (probe k).

  (* sc_keyvalue_exists *)
  Definition kv_exists (s : kvs) (k : K) : Z :=
    match kv_lookup s k with Some e => e_type e | None => 0 end.

  (* sc_keyvalue_get_{int,double,string,pointer}: the value, or the default *)
  Definition kv_get (s : kvs) (k : K) (dflt : Z) : Z :=
    match kv_lookup s k with Some e => e_val e | None => dflt end.

  (* sc_keyvalue_get_int_check: (result, status); status 0 found int, 1 absent, 2 other type *)
  Definition kv_get_int_check (s : kvs) (k : K) (status_in : Z) : Z * Z :=
    match kv_lookup s k with
    | Some e => if e_type e =? 1 then (e_val e, 0) else (status_in, 2)
    | None => (status_in, 1)
    end.

  (* sc_keyvalue_set_<type>: overwrite the value of an existing entry in place (same entry object, same key
     pointer, same type), or allocate an entry and insert it *)
  Definition kv_set (s : kvs) (ty : Z) (k : K) (v : Z) : kvs :=
    match kv_lookup s k with
    | Some e => let '(h', _) := assign entry ehf eeq (kv_hash s) (probe k) (mkE (e_key e) (e_type e) v) in
                mkKv h' (kv_pool s)
    | None => let '(h', _) := insert_unique entry ehf eeq (kv_hash s) (mkE k ty v) in
              mkKv h' (kv_pool s + 1)
    end.

  (* one "type:key", value pair of sc_keyvalue_newv: allocate, insert; an entry with an equal key is freed and
     replaced by the new one (the type may change) *)
  Definition kv_put (s : kvs) (ty : Z) (k : K) (v : Z) : kvs :=
    let e := mkE k ty v in
    let '(h1, (added, _)) := insert_unique entry ehf eeq (kv_hash s) e in
    if added then mkKv h1 (kv_pool s + 1)
    else let '(h2, _) := assign entry ehf eeq h1 e e in mkKv h2 (kv_pool s + 1 - 1).

  (* sc_keyvalue_unset: the removed entry's type, or NONE *)
  Definition kv_unset (s : kvs) (k : K) : kvs * Z :=
    let '(h', found) := remove entry ehf eeq (kv_hash s) (probe k) in
    match found with
    | Some e => (mkKv h' (kv_pool s - 1), e_type e)
    | None => (mkKv h' (kv_pool s), 0)
    end.

  (* sc_keyvalue_foreach: the entries in the hash table's iteration order *)
  Definition kv_entries (s : kvs) : list entry := elements entry (kv_hash s).

  Inductive kop : Type :=
  | KSet (ty : Z) (k : K) (v : Z) | KPut (ty : Z) (k : K) (v : Z) | KGet (ty : Z) (k : K) (dflt : Z)
  | KGetIntCheck (k : K) (status : Z) | KExists (k : K) | KUnset (k : K) | KForeach | KCount.

  Inductive kout : Type :=
  | KoUnit | KoVal (v : Z) | KoChk (v st : Z) | KoType (ty : Z) | KoList (l : list entry) | KoCnt (entries items : Z).

  Definition kstep (s : kvs) (op : kop) : kvs * kout :=
    match op with
    | KSet ty k v => (kv_set s ty k v, KoUnit)
    | KPut ty k v => (kv_put s ty k v, KoUnit)
    | KGet _ k d => (s, KoVal (kv_get s k d))
    | KGetIntCheck k st => (s, let '(v, e) := kv_get_int_check s k st in KoChk v e)
    | KExists k => (s, KoType (kv_exists s k))
    | KUnset k => let '(s', t) := kv_unset s k in (s', KoType t)
    | KForeach => (s, KoList (kv_entries s))
    | KCount => (s, KoCnt (hcount entry (kv_hash s)) (kv_pool s))
    end.

  Fixpoint krun_from (s : kvs) (ops : list kop) : kvs * list kout :=
    match ops with
    | [] => (s, [])
    | op :: t => let '(s1, o) := kstep s op in let '(s2, os) := krun_from s1 t in (s2, o :: os)
    end.

  (* ---- the abstract data type: a typed map, as an association list with at most one binding per key (bindings
     are updated in place and new keys are appended, so the list is also the order of first insertion) ---- *)
  Definition tmap : Type := list (K * (Z * Z)).       (* key -> (type, value) *)

  Definition khas (k : K) : K * (Z * Z) -> bool := fun b => keq (fst b) k.

  Definition tget (m : tmap) (k : K) : option (Z * Z) :=
    match find (khas k) m with Some b => Some (snd b) | None => None end.

  Definition tdel (m : tmap) (k : K) : tmap := remove_first (khas k) m.

  Definition tset (m : tmap) (k : K) (tv : Z * Z) : tmap :=
    match find (khas k) m with
    | Some _ => replace_first (khas k) (k, tv) m
    | None => m ++ [(k, tv)]
    end.

  Definition tstep (m : tmap) (op : kop) : tmap * kout :=
    match op with
    | KSet ty k v => (match tget m k with Some (t0, _) => tset m k (t0, v) | None => tset m k (ty, v) end, KoUnit)
    | KPut ty k v => (tset m k (ty, v), KoUnit)
    | KGet _ k d => (m, KoVal (match tget m k with Some (_, v) => v | None => d end))
    | KGetIntCheck k st => (m, match tget m k with
                               | Some (t0, v) => if t0 =? 1 then KoChk v 0 else KoChk st 2
                               | None => KoChk st 1
                               end)
    | KExists k => (m, KoType (match tget m k with Some (t0, _) => t0 | None => 0 end))
    | KUnset k => (tdel m k, KoType (match tget m k with Some (t0, _) => t0 | None => 0 end))
    | KForeach => (m, KoList (map (fun b => mkE (fst b) (fst (snd b)) (snd (snd b))) m))
    | KCount => (m, KoCnt (Z.of_nat (length m)) (Z.of_nat (length m)))
    end.

  Fixpoint trun_from (m : tmap) (ops : list kop) : tmap * list kout :=
    match ops with
    | [] => (m, [])
    | op :: t => let '(m1, o) := tstep m op in let '(m2, os) := trun_from m1 t in (m2, o :: os)
    end.

  (* documented preconditions (SC_ASSERTs of sc_keyvalue.c): set/get of an existing key use the entry's type;
     types are one of the four value types *)
  Definition klegal (m : tmap) (op : kop) : Prop :=
    match op with
    | KSet ty k _ => 1 <= ty <= 4 /\ (forall t0 v0, tget m k = Some (t0, v0) -> t0 = ty)
    | KGet ty k _ => forall t0 v0, tget m k = Some (t0, v0) -> t0 = ty
    | KPut ty _ _ => 1 <= ty <= 4
    | _ => True
    end.

  Fixpoint klegal_run (m : tmap) (ops : list kop) : Prop :=
    match ops with
    | [] => True
    | op :: t => klegal m op /\ klegal_run (fst (tstep m op)) t
    end.

  (* outputs are compared exactly, except that an iteration may visit the entries in any order and reports, for
     every entry, a key EQUAL (keq) to the map's key with the same type and value *)
  Definition entry_equiv (a b : entry) : Prop :=
    keq (e_key a) (e_key b) = true /\ e_type a = e_type b /\ e_val a = e_val b.

  Definition kout_equiv (a b : kout) : Prop :=
    match a, b with
    | KoList l1, KoList l2 => exists l1', Permutation l1 l1' /\ Forall2 entry_equiv l1' l2
    | _, _ => a = b
    end.
End KeyValue.

Arguments KForeach {K}.  Arguments KCount {K}.
Arguments KoUnit {K}.
