(* C09 - re-inserting a node object with a history behaves exactly like inserting a fresh node with that item, for
   every state of the object's stale fields; the tree with unlink / relink refines the sequence (positions chosen by
   the caller) resp. the set (avl_insert_node), for every history and every initial collection of node objects. *)
From Coq Require Import ZArith List Bool Lia.
From ScV Require Import Base.CInt Gen.AvlBalance C09.HashModel C09.PoolModel C09.AvlModel C09.AvlProofs
  C09.AvlSeqModel C09.AvlSeqProofs C09.AvlRelinkModel.
Import ListNotations.
Local Open Scope Z_scope.

Section RelinkSeq.
  Variable key : Type.
  Notation tree := (tree key).
  Notation nobj := (nobj key).

  (* whatever the object carried (left, right, count, old item): after avl_init_node + avl_clear_node it is a fresh leaf *)
  Theorem leaf_of_init (o : nobj) x : leaf_of key (init_node key o x) = leaf key x.
  Proof. reflexivity. Qed.

  Lemma app_max_g_leaf t x : app_max_g key t (leaf key x) = app_max key t x.
  Proof. induction t as [|l IHl y c r IHr]; cbn; [reflexivity|rewrite IHr; reflexivity]. Qed.
  Lemma app_min_g_leaf t x : app_min_g key t (leaf key x) = app_min key t x.
  Proof. induction t as [|l IHl y c r IHr]; cbn; [reflexivity|rewrite IHl; reflexivity]. Qed.
  Lemma ins_before_g_leaf t x : forall u, ins_before_g key t u (leaf key x) = ins_before key t u x.
  Proof.
    induction t as [|l IHl y c r IHr]; intros u; cbn [ins_before_g ins_before]; [reflexivity|].
    rewrite IHl, IHr, app_max_g_leaf. reflexivity.
  Qed.
  Lemma ins_after_g_leaf t x : forall u, ins_after_g key t u (leaf key x) = ins_after key t u x.
  Proof.
    induction t as [|l IHl y c r IHr]; intros u; cbn [ins_after_g ins_after]; [reflexivity|].
    rewrite IHl, IHr, app_min_g_leaf. reflexivity.
  Qed.

  Lemma node_at_item t : forall u, option_map (o_item key) (node_at key t u) = at_ key t u.
  Proof.
    induction t as [|l IHl y c r IHr]; intros u; cbn [node_at at_]; [reflexivity|].
    destruct (u <? cnt key l); [apply IHl|]. destruct (cnt key l <? u); [apply IHr|reflexivity].
  Qed.

  (* an extended operation is a base operation of AvlSeqModel on the tree; the kept objects are book-keeping *)
  Definition etrans (det : list nobj) (op : eop key) : option (qop key) :=
    match op with
    | EBase _ b => Some b
    | EUnlinkAt _ u => Some (QDeleteAt u)
    | ERelinkBefore _ u k x => match nth_error det k with Some _ => Some (QInsBefore key u x) | None => None end
    | ERelinkAfter _ u k x => match nth_error det k with Some _ => Some (QInsAfter key u x) | None => None end
    end.

  Lemma estep_tree st det op :
    match etrans det op with
    | Some b => fst (fst (estep key (st, det) op)) = fst (qstep key st b) /\ snd (estep key (st, det) op) = snd (qstep key st b)
    | None => estep key (st, det) op = ((st, det), QoUnit)
    end.
  Proof.
    destruct op as [b|u|u k x|u k x]; cbn [etrans estep].
    - destruct (qstep key st b); auto.
    - cbn [qstep]. rewrite <- node_at_item. destruct (node_at key (a_top key st) u); cbn; auto.
    - destruct (nth_error det k) as [o|]; [|reflexivity]. rewrite leaf_of_init, ins_before_g_leaf, app_max_g_leaf.
      cbn [qstep]. destruct (at_ key (a_top key st) u); auto.
    - destruct (nth_error det k) as [o|]; [|reflexivity]. rewrite leaf_of_init, ins_after_g_leaf, app_min_g_leaf.
      cbn [qstep]. destruct (at_ key (a_top key st) u); auto.
  Qed.

  Definition EInv (s : estate key) (a : list key * list key) : Prop :=
    QInv key (fst s) (fst a) /\ map (o_item key) (snd s) = snd a.

  Lemma map_remove_nth {A B} (f : A -> B) k (l : list A) : map f (remove_nth k l) = remove_nth k (map f l).
  Proof. revert k; induction l as [|a t IH]; intros [|k]; cbn; auto. rewrite IH; auto. Qed.

  Lemma estep_inv s a op : EInv s a ->
    EInv (fst (estep key s op)) (fst (esstep key a op)) /\ snd (estep key s op) = snd (esstep key a op).
  Proof.
    destruct s as [st det], a as [q d]. intros [HQ HD]. cbn [fst snd] in HQ, HD.
    pose proof (estep_tree st det op) as ET.
    destruct op as [b|u|u k x|u k x]; cbn [etrans] in ET.
    - destruct ET as [E1 E2]. destruct (qstep_inv key st q b HQ) as [I O].
      cbn [estep esstep] in *. destruct (qstep key st b) as [st' o]. destruct (sqstep key q b) as [q' o'].
      cbn [fst snd] in *. split; [split; auto|auto].
    - destruct ET as [E1 E2]. destruct (qstep_inv key st q (QDeleteAt u) HQ) as [I O].
      cbn [esstep]. rewrite <- E1, <- E2 in *. clear E1 E2.
      cbn [estep] in *. destruct (node_at key (a_top key st) u) as [o|] eqn:EN;
        destruct (sqstep key q (QDeleteAt u)) as [q' o'] eqn:ES; cbn [fst snd] in *; subst o'.
      + split; [split; auto|reflexivity]. cbn [fst snd]. rewrite map_app, HD. reflexivity.
      + split; [split; auto|reflexivity].
    - cbn [esstep]. rewrite <- HD, nth_error_map. destruct (nth_error det k) as [o|] eqn:EK; cbn [option_map].
      + destruct ET as [E1 E2]. destruct (qstep_inv key st q (QInsBefore key u x) HQ) as [I O].
        rewrite <- E1, <- E2 in *. destruct (sqstep key q (QInsBefore key u x)) as [q' o'].
        cbn [estep] in *. rewrite EK in *. cbn [fst snd] in *. split; [split; auto|auto].
        cbn [fst snd]. apply map_remove_nth.
      + rewrite ET. cbn. split; [split; auto|reflexivity].
    - cbn [esstep]. rewrite <- HD, nth_error_map. destruct (nth_error det k) as [o|] eqn:EK; cbn [option_map].
      + destruct ET as [E1 E2]. destruct (qstep_inv key st q (QInsAfter key u x) HQ) as [I O].
        rewrite <- E1, <- E2 in *. destruct (sqstep key q (QInsAfter key u x)) as [q' o'].
        cbn [estep] in *. rewrite EK in *. cbn [fst snd] in *. split; [split; auto|auto].
        cbn [fst snd]. apply map_remove_nth.
      + rewrite ET. cbn. split; [split; auto|reflexivity].
  Qed.

  Lemma erun_inv ops : forall s a, EInv s a ->
    EInv (fst (erun_from key s ops)) (fst (esrun_from key a ops)) /\ snd (erun_from key s ops) = snd (esrun_from key a ops).
  Proof.
    induction ops as [|op r IH]; intros s a H; cbn [erun_from esrun_from].
    - split; auto.
    - destruct (estep_inv s a op H) as [H1 O1].
      destruct (estep key s op) as [s1 o]. destruct (esstep key a op) as [a1 o']. cbn [fst snd] in *.
      destruct (IH s1 a1 H1) as [H2 O2].
      destruct (erun_from key s1 r) as [s2 os]. destruct (esrun_from key a1 r) as [a2 os']. cbn [fst snd] in *.
      split; auto. congruence.
  Qed.

  (* C09_avl_seq_refines extended with unlink / relink.  det0: ANY collection of node objects the caller owns at the
     start - each with arbitrary stale left / right subtrees and count (objects from an earlier life, or allocated and
     filled in by hand).  For every history: the tree is the sequence, every stored count is exact, all outputs equal
     the sequence's, and the caller keeps exactly the objects he unlinked and did not insert again. *)
  Theorem avl_seq_relink_refines (det0 : list nobj) ops :
    let '((st, det), outs) := erun_from key (avl_new key, det0) ops in
    let '((q, d), souts) := esrun_from key ([], map (o_item key) det0) ops in
    inorder key (a_top key st) = q /\ a_thread key st = q /\ wfc key (a_top key st) /\
    cnt key (a_top key st) = Z.of_nat (length q) /\ outs = souts /\ map (o_item key) det = d.
  Proof.
    assert (H0 : EInv (avl_new key, det0) ([], map (o_item key) det0)).
    { split; [|reflexivity]. split; [|split]; cbn; auto. }
    destruct (erun_inv ops _ _ H0) as [[[I [T W]] D] O].
    destruct (erun_from key (avl_new key, det0) ops) as [[st det] outs].
    destruct (esrun_from key ([], map (o_item key) det0) ops) as [[q d] souts]. cbn [fst snd] in *.
    repeat split; auto. rewrite (cnt_size key _ W), I. reflexivity.
  Qed.
End RelinkSeq.

(* ---------------------------------------------------------------------------------------------------------------- *)
Section RelinkSet.
  Variable key : Type.
  Variable cmp : key -> key -> Z.
  Hypothesis cmp_antisym : forall a b, Z.sgn (cmp a b) = - Z.sgn (cmp b a).
  Hypothesis cmp_trans : forall a b c, cmp a b < 0 -> cmp b c < 0 -> cmp a c < 0.
  Hypothesis cmp_eq_l : forall a b c, cmp a b = 0 -> Z.sgn (cmp a c) = Z.sgn (cmp b c).
  Notation nobj := (nobj key).

  Lemma ins_g_leaf t x : ins_g key cmp t x (leaf key x) = ins key cmp t x.
  Proof.
    induction t as [|l IHl y c r IHr]; cbn [ins_g ins]; [reflexivity|]. rewrite IHl, IHr. reflexivity.
  Qed.

  (* avl_insert_node of an object with a history = avl_insert of its item *)
  Theorem insert_obj_fresh st (o : nobj) x : avl_insert_obj key cmp st (init_node key o x) = avl_insert key cmp st x.
  Proof.
    unfold avl_insert_obj, avl_insert. cbn [o_item init_node]. rewrite leaf_of_init, ins_g_leaf. reflexivity.
  Qed.

  Lemma node_of_item t x : option_map (o_item key) (node_of key cmp t x) = search key cmp t x.
  Proof.
    induction t as [|l IHl y c r IHr]; [reflexivity|]. rewrite search_node. cbn [node_of].
    destruct (cmp x y <? 0); [exact IHl|]. destruct (0 <? cmp x y); [exact IHr|reflexivity].
  Qed.

  Definition XInv (s : xstate key) (a : list key * list key) : Prop :=
    Inv key cmp (fst s) (fst a) /\ map (o_item key) (snd s) = snd a.

  Lemma map_upd {A B} (f : A -> B) k x (l : list A) : map f (upd k x l) = upd k (f x) (map f l).
  Proof. revert k; induction l as [|a t IH]; intros [|k]; cbn; auto. rewrite IH; auto. Qed.

  Lemma xstep_inv s a op : XInv s a ->
    XInv (fst (xstep key cmp s op)) (fst (xsstep key cmp a op)) /\
    xout_ok key cmp (fst a) op (snd (xstep key cmp s op)) (snd (xsstep key cmp a op)).
  Proof.
    destruct s as [st det], a as [q d]. intros [HI HD]. cbn [fst snd] in HI, HD.
    destruct op as [b|x|k x]; cbn [xstep xsstep xout_ok fst].
    - destruct (step_inv key cmp cmp_antisym cmp_trans cmp_eq_l st q b HI) as [I O].
      destruct (vstep key cmp st b) as [st' o]. destruct (sstep key cmp q b) as [q' o']. cbn [fst snd] in *.
      split; [split; auto|auto].
    - destruct (delete_inv key cmp cmp_antisym cmp_trans cmp_eq_l st q x HI) as [I O].
      pose proof HI as [Iq [_ [Sq _]]].
      pose proof (search_spec key cmp cmp_antisym cmp_trans cmp_eq_l (a_top key st) x) as SS. rewrite Iq in SS. specialize (SS Sq).
      pose proof (node_of_item (a_top key st) x) as NI. rewrite SS in NI.
      unfold avl_delete in *. rewrite SS in *. cbn [sstep] in I, O.
      destruct (node_of key cmp (a_top key st) x) as [o|]; destruct (sfind key cmp q x) as [y|]; cbn [option_map] in NI; try discriminate.
      + injection NI as NI. cbn [fst snd] in *. split; [split; auto|reflexivity].
        cbn [fst snd]. rewrite map_app, HD. cbn. rewrite NI. reflexivity.
      + cbn [fst snd]. split; [split; auto|reflexivity].
    - rewrite <- HD, nth_error_map. destruct (nth_error det k) as [o|]; cbn [option_map].
      + rewrite insert_obj_fresh.
        destruct (insert_inv key cmp cmp_antisym cmp_trans cmp_eq_l st q x HI) as [I O]. cbn [sstep] in I, O.
        destruct (avl_insert key cmp st x) as [st' added]. cbn [fst snd] in *.
        destruct (sfind key cmp q x) as [y|]; cbn [fst snd] in *; injection O as O; subst added.
        * split; [split; auto|reflexivity]. cbn [fst snd]. rewrite map_upd. reflexivity.
        * split; [split; auto|reflexivity]. cbn [fst snd]. apply map_remove_nth.
      + cbn [fst snd]. split; [split; auto|reflexivity].
  Qed.

  Lemma xrun_inv ops : forall s a, XInv s a ->
    XInv (fst (xrun_from key cmp s ops)) (xsstate key cmp a ops) /\ xouts_ok key cmp a ops (snd (xrun_from key cmp s ops)).
  Proof.
    induction ops as [|op r IH]; intros s a H; cbn [xrun_from xsstate xouts_ok].
    - cbn. auto.
    - destruct (xstep_inv s a op H) as [H1 O1].
      destruct (xstep key cmp s op) as [s1 o]. cbn [fst snd] in *.
      destruct (IH s1 _ H1) as [H2 O2].
      destruct (xrun_from key cmp s1 r) as [s2 os]. cbn [fst snd xouts_ok] in *. auto.
  Qed.

  (* C09_avl_refines extended with avl_unlink_node and re-insertion of the same node object by avl_insert_node (the
     documented way to change a search key), from ANY initial collection det0 of node objects with arbitrary stale
     fields: the tree is the set, all outputs are the set's, re-insertion reports novelty like a fresh insert, and an
     object whose new item is already present stays with the caller. *)
  Theorem avl_relink_refines (det0 : list nobj) ops :
    let '((st, det), outs) := xrun_from key cmp (avl_new key, det0) ops in
    let '(q, d) := xsstate key cmp ([], map (o_item key) det0) ops in
    inorder key (a_top key st) = q /\ a_thread key st = q /\ sorted key cmp q /\ wfc key (a_top key st) /\
    cnt key (a_top key st) = Z.of_nat (length q) /\ map (o_item key) det = d /\
    xouts_ok key cmp ([], map (o_item key) det0) ops outs.
  Proof.
    assert (H0 : XInv (avl_new key, det0) ([], map (o_item key) det0)).
    { split; [|reflexivity]. repeat split; cbn; auto. }
    destruct (xrun_inv ops _ _ H0) as [[[I [T [S W]]] D] O].
    destruct (xrun_from key cmp (avl_new key, det0) ops) as [[st det] outs].
    destruct (xsstate key cmp ([], map (o_item key) det0) ops) as [q d]. cbn [fst snd] in *.
    repeat split; auto. rewrite (cnt_size key _ W), I. reflexivity.
  Qed.
End RelinkSet.
