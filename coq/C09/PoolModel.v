(* C09 - executable models of the memory stamp container (sc_mstamp), the memory pool (sc_mempool, also with
   zero_and_persist) and the unique counter built on it (src/sc_containers.c/.h, src/sc_unique_counter.c).
   An item is identified by (index of its stamp in mst->remember, number within the stamp): its address is
   remember[stamp] + number * elem_size and stamps are never moved or freed before reset/truncate.
   Definitions only; proofs are in PoolProofs.v. *)
From Coq Require Import ZArith List Bool.
From ScV Require Import Base.CInt.
Import ListNotations.
Local Open Scope Z_scope.

Definition item : Type := (Z * Z)%type.
Definition item_eqb (a b : item) : bool := (fst a =? fst b) && (snd a =? snd b).

Record mstamp := mkMs {
  ms_esz : Z;      (* elem_size *)
  ms_per : Z;      (* per_stamp *)
  ms_ssz : Z;      (* stamp_size *)
  ms_cur : Z;      (* cur_snext *)
  ms_nst : Z       (* remember.elem_count: stamps allocated so far; `current` is stamp ms_nst - 1 *)
}.

(* sc_mstamp_init (followed by sc_mstamp_stamp when elem_size > 0) *)
Definition mstamp_init (stamp_unit esz : Z) : mstamp :=
  if 0 <? esz then
    let per0 := stamp_unit / esz in
    let per := if per0 =? 0 then 1 else per0 in
    mkMs esz per (per * esz) 0 1
  else mkMs esz 0 0 0 0.

(* sc_mstamp_alloc: NULL for item size zero *)
Definition mstamp_alloc (m : mstamp) : mstamp * option item :=
  if ms_esz m =? 0 then (m, None)
  else
    let it := (ms_nst m - 1, ms_cur m) in
    let cur' := ms_cur m + 1 in
    if cur' =? ms_per m
    then (mkMs (ms_esz m) (ms_per m) (ms_ssz m) 0 (ms_nst m + 1), Some it)
    else (mkMs (ms_esz m) (ms_per m) (ms_ssz m) cur' (ms_nst m), Some it).

(* sc_mstamp_truncate = reset + fresh first stamp *)
Definition mstamp_truncate (m : mstamp) : mstamp :=
  if 0 <? ms_esz m then mkMs (ms_esz m) (ms_per m) (ms_ssz m) 0 1
  else mkMs (ms_esz m) (ms_per m) (ms_ssz m) (ms_cur m) 0.

(* offset of an item inside its stamp, in bytes *)
Definition item_offset (m : mstamp) (it : item) : Z := snd it * ms_esz m.

Record mempool := mkMp {
  mp_esz : Z;               (* elem_size *)
  mp_count : Z;             (* elem_count *)
  mp_zp : bool;             (* zero_and_persist *)
  mp_ms : mstamp;
  mp_freed : list item      (* the array `freed` as a stack, head = top *)
}.

Definition mempool_new (esz : Z) (zp : bool) : mempool := mkMp esz 0 zp (mstamp_init 4096 esz) [].

(* sc_mempool_alloc: (pool, item, came fresh from the stamp container) *)
Definition mempool_alloc (p : mempool) : mempool * option item * bool :=
  match mp_freed p with
  | it :: f => (mkMp (mp_esz p) (mp_count p + 1) (mp_zp p) (mp_ms p) f, Some it, false)
  | [] => let '(m, o) := mstamp_alloc (mp_ms p) in
          (mkMp (mp_esz p) (mp_count p + 1) (mp_zp p) m [], o, true)
  end.

Definition mempool_free (p : mempool) (it : item) : mempool :=
  mkMp (mp_esz p) (mp_count p - 1) (mp_zp p) (mp_ms p) (it :: mp_freed p).

Definition mempool_truncate (p : mempool) : mempool :=
  mkMp (mp_esz p) 0 (mp_zp p) (mstamp_truncate (mp_ms p)) [].

(* ---------- a pool together with its user: the live items and what the user wrote into them ---------- *)
Definition content : Type := list (item * Z).
Fixpoint cget (c : content) (it : item) : Z :=
  match c with
  | [] => 0
  | (j, v) :: t => if item_eqb j it then v else cget t it
  end.
Definition cset (c : content) (it : item) (v : Z) : content := (it, v) :: c.

Fixpoint remove_nth {A : Type} (n : nat) (l : list A) : list A :=
  match l, n with
  | [], _ => []
  | _ :: t, O => t
  | a :: t, S m => a :: remove_nth m t
  end.

Record pstate := mkPs {
  ps_pool : mempool;
  ps_live : list item;       (* handed out and not yet returned, in order of allocation *)
  ps_mem : content           (* one word of content per item (what the user stored there) *)
}.

Inductive pop : Type :=
| PAlloc | PFree (k : nat) | PWrite (k : nat) (v : Z) | PRead (k : nat) | PTruncate | PCount.

Inductive pout : Type :=
| OAlloc (it : option item) (fresh : bool) (distinct : bool) (zero : bool) (count : Z)
| OFree (count : Z) | OWr | ORd (v : Z) | OTr (count : Z) | OCn (count : Z).

Definition pstate_new (esz : Z) (zp : bool) : pstate := mkPs (mempool_new esz zp) [] [].

Definition default_item : item := (-1, -1).

Definition pstep (s : pstate) (op : pop) : pstate * pout :=
  match op with
  | PAlloc =>
    let '(p, o, fresh) := mempool_alloc (ps_pool s) in
    match o with
    | None => (mkPs p (ps_live s) (ps_mem s), OAlloc None fresh true true (mp_count p))
    | Some it =>
      (* zero_and_persist: memset to zero when the item comes fresh from the stamp *)
      let mem := if fresh && mp_zp p then cset (ps_mem s) it 0 else ps_mem s in
      (mkPs p (ps_live s ++ [it]) mem,
       OAlloc (Some it) fresh (negb (existsb (item_eqb it) (ps_live s))) (cget mem it =? 0) (mp_count p))
    end
  | PFree k =>
    let it := nth k (ps_live s) default_item in
    let p := mempool_free (ps_pool s) it in
    (mkPs p (remove_nth k (ps_live s)) (ps_mem s), OFree (mp_count p))
  | PWrite k v => (mkPs (ps_pool s) (ps_live s) (cset (ps_mem s) (nth k (ps_live s) default_item) v), OWr)
  | PRead k => (s, ORd (cget (ps_mem s) (nth k (ps_live s) default_item)))
  | PTruncate => let p := mempool_truncate (ps_pool s) in (mkPs p [] (ps_mem s), OTr (mp_count p))
  | PCount => (s, OCn (mp_count (ps_pool s)))
  end.

Fixpoint prun_from (s : pstate) (ops : list pop) : pstate * list pout :=
  match ops with
  | [] => (s, [])
  | op :: r => let '(s1, o) := pstep s op in let '(s2, os) := prun_from s1 r in (s2, o :: os)
  end.

(* legality: only live items are freed, written or read *)
Definition plegal (s : pstate) (op : pop) : Prop :=
  match op with
  | PFree k | PWrite k _ | PRead k => (k < length (ps_live s))%nat
  | _ => True
  end.

Fixpoint plegal_run (s : pstate) (ops : list pop) : Prop :=
  match ops with
  | [] => True
  | op :: r => plegal s op /\ plegal_run (fst (pstep s op)) r
  end.

(* ---------- sc_unique_counter on a zero_and_persist pool of ints ---------- *)
Record ucounter := mkUc { uc_start : Z; uc_ps : pstate }.

Definition uc_new (start : Z) : ucounter := mkUc start (pstate_new 4 true).

(* sc_unique_counter_add: returns the counter's value *)
Definition uc_add (u : ucounter) : ucounter * Z :=
  let s := uc_ps u in
  let '(p, o, fresh) := mempool_alloc (ps_pool s) in
  match o with
  | None => (u, 0)
  | Some it =>
    let mem := if fresh && mp_zp p then cset (ps_mem s) it 0 else ps_mem s in
    let v0 := cget mem it in
    let v1 := if v0 =? 0 then s32 (mp_count p) else v0 in
    let v2 := s32 (v1 + s32 (uc_start u - 1)) in
    (mkUc (uc_start u) (mkPs p (ps_live s ++ [it]) (cset mem it v2)), v2)
  end.

(* sc_unique_counter_release of the k-th live counter *)
Definition uc_release (u : ucounter) (k : nat) : ucounter :=
  let s := uc_ps u in
  let it := nth k (ps_live s) default_item in
  let v := s32 (cget (ps_mem s) it - s32 (uc_start u - 1)) in
  mkUc (uc_start u) (mkPs (mempool_free (ps_pool s) it) (remove_nth k (ps_live s)) (cset (ps_mem s) it v)).

Definition uc_values (u : ucounter) : list Z := map (cget (ps_mem (uc_ps u))) (ps_live (uc_ps u)).

Inductive uop : Type := UAdd | URelease (k : nat).

Definition ustep (u : ucounter) (op : uop) : ucounter * option Z :=
  match op with
  | UAdd => let '(u', v) := uc_add u in (u', Some v)
  | URelease k => (uc_release u k, None)
  end.

Fixpoint urun_from (u : ucounter) (ops : list uop) : ucounter * list (option Z) :=
  match ops with
  | [] => (u, [])
  | op :: r => let '(u1, o) := ustep u op in let '(u2, os) := urun_from u1 r in (u2, o :: os)
  end.

Fixpoint ulegal_run (u : ucounter) (ops : list uop) : Prop :=
  match ops with
  | [] => True
  | op :: r => match op with URelease k => (k < length (ps_live (uc_ps u)))%nat | UAdd => True end
               /\ ulegal_run (fst (ustep u op)) r
  end.
