(* C09 - executable model of sc_recycle_array (src/sc_containers.c): an array `a` of slots, an array `f` of freed
   positions used as a stack (sc_array_push / sc_array_pop work at the END of f: the model keeps the top of the
   stack at the head of the list), and the number of live slots elem_count.
   Slot contents are what the user wrote through the pointer returned by insert; a slot that is pushed fresh holds
   an arbitrary value (parameter `junk` of the insert operation, so that theorems hold for every junk).
   Definitions only; proofs are in RecycleProofs.v. *)
From Coq Require Import ZArith List Bool.
From ScV Require Import Base.CInt C09.HashModel.
Import ListNotations.
Local Open Scope Z_scope.

Record rarray := mkRa {
  ra_a : list Z;       (* rec_array->a: one content value per slot *)
  ra_f : list Z;       (* rec_array->f: freed positions, head = top of the stack (last pushed) *)
  ra_count : Z         (* rec_array->elem_count *)
}.

Definition ra_init : rarray := mkRa [] [] 0.

(* sc_recycle_array_insert: (array, position); the new item is &a[position] *)
Definition ra_insert (r : rarray) (junk : Z) : rarray * Z :=
  match ra_f r with
  | p :: f' => (mkRa (ra_a r) f' (ra_count r + 1), p)                                   (* pop f; index a *)
  | [] => (mkRa (ra_a r ++ [junk]) [] (ra_count r + 1), Z.of_nat (length (ra_a r)))     (* push a *)
  end.

(* sc_recycle_array_remove: push the position on f; returns &a[position] (its content is still readable) *)
Definition ra_remove (r : rarray) (pos : Z) : rarray * Z :=
  (mkRa (ra_a r) (pos :: ra_f r) (ra_count r - 1), nth (Z.to_nat pos) (ra_a r) 0).

(* the user writes through the item pointer of position pos *)
Definition ra_write (r : rarray) (pos v : Z) : rarray :=
  mkRa (upd (Z.to_nat pos) v (ra_a r)) (ra_f r) (ra_count r).

Definition ra_read (r : rarray) (pos : Z) : Z := nth (Z.to_nat pos) (ra_a r) 0.

Definition ra_reset (r : rarray) : rarray := mkRa [] [] 0.

Inductive rop : Type :=
| RInsert (junk v : Z)      (* insert, then write v into the new item *)
| RRemove (pos : Z)
| RWrite (pos v : Z)
| RRead (pos : Z)
| RCount
| RReset.

Inductive rout : Type :=
| RoIns (pos count : Z)
| RoRem (content count : Z)
| RoRd (content : Z)
| RoCnt (count slots freed : Z)
| RoUnit.

Definition rstep (r : rarray) (op : rop) : rarray * rout :=
  match op with
  | RInsert junk v => let '(r1, p) := ra_insert r junk in
                      let r2 := ra_write r1 p v in (r2, RoIns p (ra_count r2))
  | RRemove pos => let '(r1, c) := ra_remove r pos in (r1, RoRem c (ra_count r1))
  | RWrite pos v => (ra_write r pos v, RoUnit)
  | RRead pos => (r, RoRd (ra_read r pos))
  | RCount => (r, RoCnt (ra_count r) (Z.of_nat (length (ra_a r))) (Z.of_nat (length (ra_f r))))
  | RReset => (ra_reset r, RoUnit)
  end.

Fixpoint rrun_from (r : rarray) (ops : list rop) : rarray * list rout :=
  match ops with
  | [] => (r, [])
  | op :: t => let '(r1, o) := rstep r op in let '(r2, os) := rrun_from r1 t in (r2, o :: os)
  end.

(* ---- the abstract data type: a slot allocator.  The abstract state is the finite map of LIVE positions to the
   value last written there; it knows nothing about the freed stack or the array. ---- *)
Definition lmap : Type := list (Z * Z).      (* live position -> content, most recent binding first *)

Fixpoint lget (m : lmap) (p : Z) : option Z :=
  match m with
  | [] => None
  | (q, v) :: t => if q =? p then Some v else lget t p
  end.

Fixpoint ldel (m : lmap) (p : Z) : lmap :=
  match m with
  | [] => []
  | (q, v) :: t => if q =? p then ldel t p else (q, v) :: ldel t p
  end.

Definition lset (m : lmap) (p v : Z) : lmap := (p, v) :: ldel m p.

(* documented preconditions: only live positions are removed, written or read *)
Definition rlegal (m : lmap) (op : rop) : Prop :=
  match op with
  | RRemove p | RWrite p _ | RRead p => lget m p <> None
  | _ => True
  end.

(* the abstract state: live map and the high-water mark hw = number of positions ever handed out since the last
   reset (positions are 0 .. hw-1).  The abstract step takes the position the implementation chose for an insert. *)
Definition aspec_step (st : lmap * Z) (op : rop) (o : rout) : lmap * Z :=
  let '(m, hw) := st in
  match op, o with
  | RInsert _ v, RoIns p _ => (lset m p v, if p =? hw then hw + 1 else hw)
  | RRemove p, _ => (ldel m p, hw)
  | RWrite p v, _ => (lset m p v, hw)
  | RReset, _ => ([], 0)
  | _, _ => (m, hw)
  end.

(* what the slot allocator contract says about one output, given the abstract state BEFORE the operation *)
Definition rout_ok (st : lmap * Z) (op : rop) (o : rout) : Prop :=
  let '(m, hw) := st in
  match op, o with
  | RInsert _ _, RoIns p c =>
      lget m p = None /\                                   (* distinct from every live position *)
      0 <= p <= hw /\                                      (* a position handed out before (and since freed), or the next new one *)
      (p = hw <-> forall q, 0 <= q < hw -> lget m q <> None) /\   (* the array grows exactly when no freed slot exists *)
      c = Z.of_nat (length m) + 1
  | RRemove p, RoRem v c => lget m p = Some v /\ c = Z.of_nat (length m) - 1
  | RRead p, RoRd v => lget m p = Some v                   (* live contents never move and never change *)
  | RCount, RoCnt c s f => c = Z.of_nat (length m) /\ s = hw /\ s = c + f
  | RWrite _ _, RoUnit => True
  | RReset, RoUnit => True
  | _, _ => False
  end.

Fixpoint rlegal_run (r : rarray) (st : lmap * Z) (ops : list rop) : Prop :=
  match ops with
  | [] => True
  | op :: t => rlegal (fst st) op /\ let '(r1, o) := rstep r op in rlegal_run r1 (aspec_step st op o) t
  end.

Fixpoint routs_ok (r : rarray) (st : lmap * Z) (ops : list rop) : Prop :=
  match ops with
  | [] => True
  | op :: t => let '(r1, o) := rstep r op in rout_ok st op o /\ routs_ok r1 (aspec_step st op o) t
  end.
