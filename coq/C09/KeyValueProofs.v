(* C09 - the key-value store model refines a typed map with one binding per key, for every hash function on keys. *)
From Coq Require Import ZArith List Bool Lia Permutation.
From ScV Require Import Base.CInt Gen.HashResize C09.HashModel C09.HashProofs C09.KeyValueModel.
Import ListNotations.
Local Open Scope Z_scope.

(* ---------- two lists related element by element, searched with predicates that agree on related elements ---------- *)
Section Related.
  Variables A B : Type.
  Variable P : A -> B -> Prop.
  Variable f : A -> bool.
  Variable g : B -> bool.
  Hypothesis fg : forall a b, P a b -> f a = g b.

  Lemma F2_find l m : Forall2 P l m ->
    match find f l, find g m with
    | Some a, Some b => P a b
    | None, None => True
    | _, _ => False
    end.
  Proof.
    induction 1 as [|a b l m Hab _ IH]; cbn [find]; [exact I|].
    rewrite (fg a b Hab). destruct (g b); [exact Hab|exact IH].
  Qed.

  Lemma F2_remove_first l m : Forall2 P l m -> Forall2 P (remove_first f l) (remove_first g m).
  Proof.
    induction 1 as [|a b l m Hab Hlm IH]; cbn [remove_first]; [constructor|].
    rewrite (fg a b Hab). destruct (g b); [exact Hlm|constructor; assumption].
  Qed.

  Lemma F2_replace_first l m y z : Forall2 P l m -> P y z -> Forall2 P (replace_first f y l) (replace_first g z m).
  Proof.
    intros H Hyz. induction H as [|a b l m Hab Hlm IH]; cbn [replace_first]; [constructor|].
    rewrite (fg a b Hab). destruct (g b); constructor; assumption.
  Qed.
End Related.

Lemma F2_nth_error {A B} (P : A -> B -> Prop) l m : Forall2 P l m ->
  forall i b, nth_error m i = Some b -> exists a, nth_error l i = Some a /\ P a b.
Proof.
  induction 1 as [|a b l m Hab _ IH]; intros [|i] c; cbn [nth_error]; try discriminate.
  - intros E; injection E as <-. exists a; split; [reflexivity|exact Hab].
  - apply IH.
Qed.

Lemma F2_length {A B} (P : A -> B -> Prop) l m : Forall2 P l m -> length l = length m.
Proof. induction 1; cbn [length]; congruence. Qed.

Lemma replace_first_length {A} (p : A -> bool) y l : length (replace_first p y l) = length l.
Proof. induction l as [|a t IH]; cbn [replace_first length]; [reflexivity|]. destruct (p a); cbn [length]; congruence. Qed.

Lemma remove_first_none {A} (p : A -> bool) l : find p l = None -> remove_first p l = l.
Proof.
  induction l as [|a t IH]; cbn [find remove_first]; [reflexivity|].
  destruct (p a); [discriminate|]. intros H. rewrite IH by exact H. reflexivity.
Qed.

Section KeyValueProofs.
  Variable K : Type.
  Variable hfk : K -> Z.
  Variable keq : K -> K -> bool.
  Hypothesis keq_refl : forall a, keq a a = true.
  Hypothesis keq_sym : forall a b, keq a b = true -> keq b a = true.
  Hypothesis keq_trans : forall a b c, keq a b = true -> keq b c = true -> keq a c = true.
  Hypothesis keq_hf : forall a b, keq a b = true -> hfk a = hfk b.

  Notation entry := (entry K).
  Notation ehf := (ehf K hfk).
  Notation eeq := (eeq K keq).
  Notation kvs := (kvs K).
  Notation tmap := (tmap K).
  Notation khas := (khas K keq).
  Notation probe := (probe K).
  Notation ematches := (matches entry eeq).
  Notation RH := (R entry ehf eeq).
  Notation mkEb := (fun b : K * (Z * Z) => mkE K (fst b) (fst (snd b)) (snd (snd b))).

  Lemma eeq_refl a : eeq a a = true.
  Proof. apply keq_refl. Qed.
  Lemma eeq_sym a b : eeq a b = true -> eeq b a = true.
  Proof. apply keq_sym. Qed.
  Lemma eeq_trans a b c : eeq a b = true -> eeq b c = true -> eeq a c = true.
  Proof. apply keq_trans. Qed.
  Lemma eeq_hf a b : eeq a b = true -> ehf a = ehf b.
  Proof. apply keq_hf. Qed.

  Lemma keq_congr a b c : keq a b = true -> keq a c = keq b c.
  Proof.
    intros H. destruct (keq b c) eqn:E.
    - eapply keq_trans; eassumption.
    - destruct (keq a c) eqn:F; [|reflexivity].
      rewrite <- E. symmetry. eapply keq_trans; [apply keq_sym; exact H|exact F].
  Qed.

  (* a stored entry and a binding of the map: equal keys, same type, same value *)
  Definition rel (e : entry) (b : K * (Z * Z)) : Prop :=
    keq (e_key K e) (fst b) = true /\ e_type K e = fst (snd b) /\ e_val K e = snd (snd b).

  Lemma rel_fg q e b : rel e b -> ematches q e = khas (e_key K q) b.
  Proof. intros [H _]. unfold matches, KeyValueModel.eeq, KeyValueModel.khas. apply keq_congr, H. Qed.

  Lemma rel_entry_equiv l m : Forall2 rel l m -> Forall2 (entry_equiv K keq) l (map mkEb m).
  Proof.
    induction 1 as [|e b l m Heb _ IH]; cbn [map]; constructor; [|exact IH].
    destruct Heb as [H1 [H2 H3]]. unfold entry_equiv. cbn [e_key e_type e_val]. auto.
  Qed.

  Definition KRl (s : kvs) (l : list entry) (m : tmap) : Prop :=
    RH (kv_hash K s) l /\ Forall2 rel l m /\ kv_pool K s = Z.of_nat (length m).

  Definition KR (s : kvs) (m : tmap) : Prop := exists l, KRl s l m.

  Lemma new_KR : KR (kv_new K) [].
  Proof. exists []. split; [apply new_R|]. split; [constructor|reflexivity]. Qed.

  Lemma kv_lookup_find s l k : RH (kv_hash K s) l -> kv_lookup K hfk keq s k = find (ematches (probe k)) l.
  Proof. intros H. unfold kv_lookup. apply (lookup_ok entry ehf eeq eeq_refl eeq_sym eeq_trans eeq_hf _ _ _ H). Qed.

  (* the lookup of the store against the lookup of the map *)
  Lemma find_rel l m q : Forall2 rel l m ->
    match find (ematches q) l, find (khas (e_key K q)) m with
    | Some e, Some b => rel e b
    | None, None => True
    | _, _ => False
    end.
  Proof. apply F2_find. apply rel_fg. Qed.

  (* insertion of an entry with a key that is / is not present *)
  Lemma insert_new_KRl s l m ty k v : KRl s l m -> find (ematches (mkE K k ty v)) l = None ->
    exists h', insert_unique entry ehf eeq (kv_hash K s) (mkE K k ty v) = (h', (true, Some (mkE K k ty v))) /\
               KRl (mkKv K h' (kv_pool K s + 1)) (l ++ [mkE K k ty v]) (m ++ [(k, (ty, v))]).
  Proof.
    intros [HR [HF HP]] E.
    pose proof (insert_R entry ehf eeq eeq_refl eeq_sym eeq_trans eeq_hf _ _ (mkE K k ty v) HR) as HI.
    rewrite E in HI. destruct HI as [h' [Eh R']]. exists h'. split; [exact Eh|].
    split; [exact R'|]. split.
    - apply Forall2_app; [exact HF|]. constructor; [|constructor].
      unfold rel. cbn [e_key e_type e_val fst snd]. auto.
    - cbn [kv_pool]. rewrite HP, app_length. cbn [length]. lia.
  Qed.

  Lemma assign_KRl s l m q ne k tv x : KRl s l m -> find (ematches q) l = Some x -> e_key K q = k ->
    keq (e_key K ne) k = true -> e_type K ne = fst tv -> e_val K ne = snd tv ->
    exists h', assign entry ehf eeq (kv_hash K s) q ne = (h', true) /\
               KRl (mkKv K h' (kv_pool K s)) (replace_first (ematches q) ne l) (replace_first (khas k) (k, tv) m).
  Proof.
    intros [HR [HF HP]] E Hq Hk Ht Hv.
    assert (Hnk : eeq ne q = true) by (unfold KeyValueModel.eeq; rewrite Hq; exact Hk).
    pose proof (assign_R entry ehf eeq eeq_refl eeq_sym eeq_trans eeq_hf _ _ q ne HR Hnk) as HA.
    rewrite E in HA. destruct HA as [h' [Eh R']]. exists h'. split; [exact Eh|].
    split; [exact R'|]. split.
    - rewrite <- Hq. apply F2_replace_first; [apply rel_fg|exact HF|].
      unfold rel. cbn [fst snd]. rewrite Hq. auto.
    - cbn [kv_pool]. rewrite replace_first_length. exact HP.
  Qed.

  Lemma set_KR s m ty k v : KR s m -> KR (kv_set K hfk keq s ty k v) (fst (tstep K keq m (KSet K ty k v))).
  Proof.
    intros [l HK]. pose proof HK as [HR [HF HP]]. cbn [tstep fst]. unfold kv_set, tget, tset.
    rewrite (kv_lookup_find s l k HR).
    pose proof (find_rel l m (probe k) HF) as FR. cbn [KeyValueModel.probe e_key] in FR.
    destruct (find (ematches (probe k)) l) as [e|] eqn:E1; destruct (find (khas k) m) as [b|] eqn:E2; try contradiction.
    - destruct b as [kb [t0 v0]]. cbn [snd].
      assert (Hek : keq (e_key K e) k = true) by (apply find_some in E1; apply E1).
      destruct FR as [_ [Ht _]]. cbn [fst snd] in Ht.
      destruct (assign_KRl s l m (probe k) (mkE K (e_key K e) (e_type K e) v) k (t0, v) e HK E1) as [h' [Eh HK']];
        cbn [e_key e_type e_val fst snd KeyValueModel.probe]; auto.
      rewrite Eh. exists (replace_first (ematches (probe k)) (mkE K (e_key K e) (e_type K e) v) l). exact HK'.
    -
      destruct (insert_new_KRl s l m ty k v HK E1) as [h' [Eh HK']]. rewrite Eh.
      exists (l ++ [mkE K k ty v]). exact HK'.
  Qed.

  Lemma put_KR s m ty k v : KR s m -> KR (kv_put K hfk keq s ty k v) (fst (tstep K keq m (KPut K ty k v))).
  Proof.
    intros [l HK]. pose proof HK as [HR [HF HP]]. cbn [tstep fst]. unfold kv_put, tset.
    pose proof (find_rel l m (mkE K k ty v) HF) as FR. cbn [e_key] in FR.
    destruct (find (ematches (mkE K k ty v)) l) as [e|] eqn:E1; destruct (find (khas k) m) as [b|] eqn:E2; try contradiction.
    - pose proof (insert_R entry ehf eeq eeq_refl eeq_sym eeq_trans eeq_hf _ _ (mkE K k ty v) HR) as HI.
      rewrite E1 in HI. rewrite HI.
      destruct (assign_KRl s l m (mkE K k ty v) (mkE K k ty v) k (ty, v) e HK E1) as [h' [Eh HK']];
        cbn [e_key e_type e_val fst snd]; auto.
      rewrite Eh. exists (replace_first (ematches (mkE K k ty v)) (mkE K k ty v) l).
      destruct HK' as [A [B C]]. split; [exact A|]. split; [exact B|]. cbn [kv_pool] in *. lia.
    - destruct (insert_new_KRl s l m ty k v HK E1) as [h' [Eh HK']]. rewrite Eh.
      exists (l ++ [mkE K k ty v]). exact HK'.
  Qed.

  Lemma unset_KR s m k : KR s m ->
    KR (fst (kv_unset K hfk keq s k)) (tdel K keq m k) /\
    snd (kv_unset K hfk keq s k) = match tget K keq m k with Some (t0, _) => t0 | None => 0 end.
  Proof.
    intros [l [HR [HF HP]]]. unfold kv_unset, tget, tdel.
    pose proof (find_rel l m (probe k) HF) as FR. cbn [KeyValueModel.probe e_key] in FR.
    pose proof (remove_R entry ehf eeq eeq_refl eeq_sym eeq_trans eeq_hf _ _ (probe k) HR) as HD.
    pose proof (F2_remove_first _ _ rel (ematches (probe k)) (khas k) (rel_fg (probe k)) l m HF) as HF'.
    destruct (find (ematches (probe k)) l) as [e|] eqn:E1; destruct (find (khas k) m) as [b|] eqn:E2; try contradiction.
    - destruct HD as [h' [Eh R']]. rewrite Eh. cbn [fst snd]. split.
      + exists (remove_first (ematches (probe k)) l). split; [exact R'|]. split; [exact HF'|].
        cbn [kv_pool]. rewrite HP. rewrite (length_remove_first _ _ _ E2). lia.
      + destruct b as [kb [t0 v0]]. destruct FR as [_ [Ht _]]. exact Ht.
    - rewrite HD. cbn [fst snd]. split; [|reflexivity].
      exists l. rewrite (remove_first_none _ _ E2). split; [exact HR|]. split; [exact HF|exact HP].
  Qed.

  Lemma step_KR s m op : KR s m ->
    KR (fst (kstep K hfk keq s op)) (fst (tstep K keq m op)) /\
    kout_equiv K keq (snd (kstep K hfk keq s op)) (snd (tstep K keq m op)).
  Proof.
    intros HK. destruct op as [ty k v|ty k v|ty k d|k st|k|k| |].
    - split; [apply set_KR, HK|reflexivity].
    - split; [apply put_KR, HK|reflexivity].
    - cbn [kstep tstep fst snd]. split; [exact HK|]. destruct HK as [l [HR [HF HP]]].
      unfold kout_equiv, kv_get, tget. rewrite (kv_lookup_find s l k HR).
      pose proof (find_rel l m (probe k) HF) as FR. cbn [KeyValueModel.probe e_key] in FR.
      destruct (find (ematches (probe k)) l) as [e|]; destruct (find (khas k) m) as [b|]; try contradiction; [|reflexivity].
      destruct b as [kb [t0 v0]]. destruct FR as [_ [_ Hv]]. cbn [snd] in *. rewrite Hv. reflexivity.
    - cbn [kstep tstep fst snd]. split; [exact HK|]. destruct HK as [l [HR [HF HP]]].
      unfold kv_get_int_check, tget. rewrite (kv_lookup_find s l k HR).
      pose proof (find_rel l m (probe k) HF) as FR. cbn [KeyValueModel.probe e_key] in FR.
      destruct (find (ematches (probe k)) l) as [e|]; destruct (find (khas k) m) as [b|]; try contradiction; [|reflexivity].
      destruct b as [kb [t0 v0]]. destruct FR as [_ [Ht Hv]]. cbn [fst snd] in *. rewrite Ht, Hv.
      destruct (t0 =? 1); reflexivity.
    - cbn [kstep tstep fst snd]. split; [exact HK|]. destruct HK as [l [HR [HF HP]]].
      unfold kout_equiv, kv_exists, tget. rewrite (kv_lookup_find s l k HR).
      pose proof (find_rel l m (probe k) HF) as FR. cbn [KeyValueModel.probe e_key] in FR.
      destruct (find (ematches (probe k)) l) as [e|]; destruct (find (khas k) m) as [b|]; try contradiction; [|reflexivity].
      destruct b as [kb [t0 v0]]. destruct FR as [_ [Ht _]]. cbn [fst snd] in *. rewrite Ht. reflexivity.
    - destruct (unset_KR s m k HK) as [A B]. cbn [kstep tstep].
      destruct (kv_unset K hfk keq s k) as [s' t]. cbn [fst snd] in *. split; [exact A|]. rewrite B. reflexivity.
    - cbn [kstep tstep fst snd]. split; [exact HK|]. destruct HK as [l [HR [HF HP]]].
      cbn [kout_equiv]. exists l. split; [apply (R_perm _ _ _ _ _ HR)|apply rel_entry_equiv, HF].
    - cbn [kstep tstep fst snd]. split; [exact HK|]. destruct HK as [l [HR [HF HP]]].
      cbn [kout_equiv]. rewrite (R_cnt _ _ _ _ _ HR), HP. rewrite (F2_length _ _ _ HF). reflexivity.
  Qed.

  Lemma run_from_KR ops : forall s m, KR s m ->
    KR (fst (krun_from K hfk keq s ops)) (fst (trun_from K keq m ops)) /\
    Forall2 (kout_equiv K keq) (snd (krun_from K hfk keq s ops)) (snd (trun_from K keq m ops)).
  Proof.
    induction ops as [|op t IH]; intros s m HK; cbn [krun_from trun_from].
    - split; [exact HK|constructor].
    - destruct (step_KR s m op HK) as [K1 O1].
      destruct (kstep K hfk keq s op) as [s1 o]. destruct (tstep K keq m op) as [m1 o'].
      cbn [fst snd] in K1, O1. destruct (IH s1 m1 K1) as [K2 O2].
      destruct (krun_from K hfk keq s1 t) as [s2 os]. destruct (trun_from K keq m1 t) as [m2 os'].
      cbn [fst snd] in *. split; [exact K2|constructor; assumption].
  Qed.

  (* what the relation says about a reachable state *)
  Lemma KR_facts s m : KR s m ->
    (exists l, Permutation (kv_entries K s) l /\ Forall2 (entry_equiv K keq) l (map mkEb m)) /\
    hcount entry (kv_hash K s) = Z.of_nat (length m) /\
    kv_pool K s = Z.of_nat (length m) /\
    (forall a b, In a (kv_entries K s) -> In b (kv_entries K s) -> keq (e_key K a) (e_key K b) = true -> a = b) /\
    (forall i j a b, nth_error m i = Some a -> nth_error m j = Some b -> keq (fst a) (fst b) = true -> i = j).
  Proof.
    intros [l [HR [HF HP]]].
    pose proof (R_perm _ _ _ _ _ HR) as P. pose proof (R_nd _ _ _ _ _ HR) as ND.
    split; [exists l; split; [exact P|apply rel_entry_equiv, HF]|].
    split; [rewrite (R_cnt _ _ _ _ _ HR), (F2_length _ _ _ HF); reflexivity|].
    split; [exact HP|]. split.
    - destruct (nodupeq_perm _ _ _ _ (Permutation_sym P) ND) as [_ U]. intros a b Ha Hb E. apply U; assumption.
    - destruct ND as [N U]. intros i j a b Hi Hj E.
      destruct (F2_nth_error rel l m HF i a Hi) as [ea [Li [Ka _]]].
      destruct (F2_nth_error rel l m HF j b Hj) as [eb [Lj [Kb _]]].
      assert (Eab : ea = eb).
      { apply U; [eapply nth_error_In; exact Li|eapply nth_error_In; exact Lj|].
        unfold KeyValueModel.eeq. eapply keq_trans; [exact Ka|]. eapply keq_trans; [exact E|]. apply keq_sym, Kb. }
      subst eb. rewrite NoDup_nth_error in N. apply N; [|congruence].
      apply nth_error_Some. congruence.
  Qed.

  (* the theorem of the property: for every hash function on keys and every history the store answers as the typed
     map does, holds exactly one entry per key of the map (same type and value), both counters equal the number of
     keys, and no two entries / bindings have equal keys *)
  Theorem kv_refines ops : klegal_run K keq [] ops ->
    let '(s, outs) := krun_from K hfk keq (kv_new K) ops in
    let '(m, mouts) := trun_from K keq [] ops in
    Forall2 (kout_equiv K keq) outs mouts /\
    (exists l, Permutation (kv_entries K s) l /\
               Forall2 (entry_equiv K keq) l (map (fun b => mkE K (fst b) (fst (snd b)) (snd (snd b))) m)) /\
    hcount (entry) (kv_hash K s) = Z.of_nat (length m) /\
    kv_pool K s = Z.of_nat (length m) /\
    (forall a b, In a (kv_entries K s) -> In b (kv_entries K s) -> keq (e_key K a) (e_key K b) = true -> a = b) /\
    (forall i j a b, nth_error m i = Some a -> nth_error m j = Some b -> keq (fst a) (fst b) = true -> i = j).
  Proof.
    intros _. destruct (run_from_KR ops _ _ new_KR) as [HK O].
    destruct (krun_from K hfk keq (kv_new K) ops) as [s outs].
    destruct (trun_from K keq [] ops) as [m mouts]. cbn [fst snd] in *.
    split; [exact O|]. apply KR_facts, HK.
  Qed.
End KeyValueProofs.
