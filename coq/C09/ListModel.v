(* C09 - executable model of libsc's singly linked list (sc_list functions in src/sc_containers.c).
   Links are items of a memory pool (PoolModel); the heap maps a link to (data, next).  The list object keeps
   first, last, elem_count and its allocator, exactly as sc_list_t.  Links are addressed by the caller through
   their position (the harness walks first->next->... to obtain the sc_link_t pointer it passes in).
   Definitions only; proofs are in ListProofs.v. *)
From Coq Require Import ZArith List Bool.
From ScV Require Import Base.CInt C09.PoolModel.
Import ListNotations.
Local Open Scope Z_scope.

Definition link : Type := (Z * option item)%type.          (* data, next *)
Definition lheap : Type := item -> link.
Definition hupd (h : lheap) (i : item) (v : link) : lheap := fun j => if item_eqb j i then v else h j.

Definition oitem_eqb (a b : option item) : bool :=
  match a, b with
  | Some x, Some y => item_eqb x y
  | None, None => true
  | _, _ => false
  end.

Record sclist := mkList {
  l_heap : lheap;
  l_first : option item;
  l_last : option item;
  l_count : Z;
  l_pool : mempool            (* list->allocator *)
}.

Definition list_new (p : mempool) : sclist := mkList (fun _ => (0, None)) None None 0 p.

Definition list_prepend (l : sclist) (d : Z) : sclist :=
  let '(p, o, _) := mempool_alloc (l_pool l) in
  match o with
  | None => l
  | Some it =>
    mkList (hupd (l_heap l) it (d, l_first l)) (Some it)
           (match l_last l with None => Some it | Some x => Some x end) (l_count l + 1) p
  end.

Definition list_append (l : sclist) (d : Z) : sclist :=
  let '(p, o, _) := mempool_alloc (l_pool l) in
  match o with
  | None => l
  | Some it =>
    let h1 := hupd (l_heap l) it (d, None) in
    match l_last l with
    | Some la => mkList (hupd h1 la (fst (h1 la), Some it)) (l_first l) (Some it) (l_count l + 1) p
    | None => mkList h1 (Some it) (Some it) (l_count l + 1) p
    end
  end.

Definition list_insert (l : sclist) (pred : item) (d : Z) : sclist :=
  let '(p, o, _) := mempool_alloc (l_pool l) in
  match o with
  | None => l
  | Some it =>
    let h1 := hupd (l_heap l) it (d, snd (l_heap l pred)) in
    let h2 := hupd h1 pred (fst (h1 pred), Some it) in
    mkList h2 (l_first l) (if oitem_eqb (Some pred) (l_last l) then Some it else l_last l) (l_count l + 1) p
  end.

Definition list_pop (l : sclist) : sclist * Z :=
  match l_first l with
  | None => (l, 0)
  | Some lynk =>
    let first' := snd (l_heap l lynk) in
    (mkList (l_heap l) first' (match first' with None => None | Some _ => l_last l end) (l_count l - 1)
            (mempool_free (l_pool l) lynk), fst (l_heap l lynk))
  end.

(* sc_list_remove with pred <> NULL *)
Definition list_remove (l : sclist) (pred : item) : sclist * Z :=
  match snd (l_heap l pred) with
  | None => (l, 0)
  | Some lynk =>
    let h1 := hupd (l_heap l) pred (fst (l_heap l pred), snd (l_heap l lynk)) in
    (mkList h1 (l_first l) (if oitem_eqb (l_last l) (Some lynk) then Some pred else l_last l) (l_count l - 1)
            (mempool_free (l_pool l) lynk), fst (l_heap l lynk))
  end.

(* sc_list_reset: return every link to the allocator, walking first->next->... *)
Fixpoint free_chain (fuel : nat) (h : lheap) (o : option item) (p : mempool) (cnt : Z) : mempool * Z :=
  match fuel, o with
  | S f, Some i => free_chain f h (snd (h i)) (mempool_free p i) (cnt - 1)
  | _, _ => (p, cnt)
  end.

Definition list_reset (l : sclist) : sclist :=
  let '(p, c) := free_chain (Z.to_nat (l_count l)) (l_heap l) (l_first l) (l_pool l) (l_count l) in
  mkList (l_heap l) None None c p.

Definition list_unlink (l : sclist) : sclist := mkList (l_heap l) None None 0 (l_pool l).

(* the link at a position, as the harness finds it *)
Fixpoint walk (h : lheap) (o : option item) (n : nat) : option item :=
  match n with
  | O => o
  | S m => match o with Some i => walk h (snd (h i)) m | None => None end
  end.

Fixpoint chain_data (fuel : nat) (h : lheap) (o : option item) : list Z :=
  match fuel, o with
  | S f, Some i => fst (h i) :: chain_data f h (snd (h i))
  | _, _ => []
  end.

Definition list_data (l : sclist) : list Z := chain_data (Z.to_nat (l_count l)) (l_heap l) (l_first l).

Inductive lop : Type :=
| LPrepend (d : Z) | LAppend (d : Z) | LInsert (pos : nat) (d : Z) | LRemove (pos : nat) | LPop
| LReset | LUnlink | LDump.

Inductive lout : Type :=
| LO (ret : Z) (count : Z) (first last : option Z)
| LList (l : list Z).

Definition data_of (l : sclist) (o : option item) : option Z :=
  match o with Some i => Some (fst (l_heap l i)) | None => None end.

Definition lo (l : sclist) (ret : Z) : lout := LO ret (l_count l) (data_of l (l_first l)) (data_of l (l_last l)).

Definition lstep (l : sclist) (op : lop) : sclist * lout :=
  match op with
  | LPrepend d => let l' := list_prepend l d in (l', lo l' 0)
  | LAppend d => let l' := list_append l d in (l', lo l' 0)
  | LInsert pos d =>
    match walk (l_heap l) (l_first l) pos with
    | Some pred => let l' := list_insert l pred d in (l', lo l' 0)
    | None => (l, lo l 0)
    end
  | LRemove pos =>
    match walk (l_heap l) (l_first l) pos with
    | Some pred => let '(l', d) := list_remove l pred in (l', lo l' d)
    | None => (l, lo l 0)
    end
  | LPop => let '(l', d) := list_pop l in (l', lo l' d)
  | LReset => let l' := list_reset l in (l', lo l' 0)
  | LUnlink => let l' := list_unlink l in (l', lo l' 0)
  | LDump => (l, LList (list_data l))
  end.

Fixpoint lrun_from (l : sclist) (ops : list lop) : sclist * list lout :=
  match ops with
  | [] => (l, [])
  | op :: r => let '(l1, o) := lstep l op in let '(l2, os) := lrun_from l1 r in (l2, o :: os)
  end.

(* ---------- the abstract data type: a sequence ---------- *)
Fixpoint last_opt {A : Type} (l : list A) : option A :=
  match l with
  | [] => None
  | [x] => Some x
  | _ :: t => last_opt t
  end.

Definition so (s : list Z) (ret : Z) : lout := LO ret (Z.of_nat (length s)) (hd_error s) (last_opt s).

Definition seq_step (s : list Z) (op : lop) : list Z * lout :=
  match op with
  | LPrepend d => let s' := d :: s in (s', so s' 0)
  | LAppend d => let s' := s ++ [d] in (s', so s' 0)
  | LInsert pos d => let s' := firstn (S pos) s ++ d :: skipn (S pos) s in (s', so s' 0)
  | LRemove pos => let s' := firstn (S pos) s ++ skipn (S (S pos)) s in (s', so s' (nth (S pos) s 0))
  | LPop => let s' := tl s in (s', so s' (hd 0 s))
  | LReset | LUnlink => ([], so [] 0)
  | LDump => (s, LList s)
  end.

Fixpoint seq_run_from (s : list Z) (ops : list lop) : list Z * list lout :=
  match ops with
  | [] => (s, [])
  | op :: r => let '(s1, o) := seq_step s op in let '(s2, os) := seq_run_from s1 r in (s2, o :: os)
  end.

(* documented preconditions, on the abstract sequence *)
Definition seq_legal (s : list Z) (op : lop) : Prop :=
  match op with
  | LInsert pos _ => (pos < length s)%nat
  | LRemove pos => (S pos < length s)%nat
  | LPop => s <> []
  | _ => True
  end.

Fixpoint seq_legal_run (s : list Z) (ops : list lop) : Prop :=
  match ops with
  | [] => True
  | op :: r => seq_legal s op /\ seq_legal_run (fst (seq_step s op)) r
  end.
