(* C09 - the AVL tree used as a SEQUENCE: the caller chooses the position of every new node himself
   (avl_insert_before / avl_insert_after / avl_insert_top of src/sc_avl.c, called directly with a node obtained from
   avl_at, or with NULL) and deletes by node (avl_delete_node (avl_at (u))).  No compare function is involved.
   The tree functions follow the C code: the new node becomes a leaf next to the chosen node (when the chosen node
   already has a child on that side the code redirects to the in-order neighbour, whose child pointer on the other
   side is free), and avl_rebalance runs from the parent of the new leaf to the top: `rebal` of AvlModel.v on the
   return path of the recursion.  Definitions only; proofs are in AvlSeqProofs.v. *)
From Coq Require Import ZArith List Bool.
From ScV Require Import Base.CInt Gen.AvlBalance C09.HashModel C09.AvlModel.
Import ListNotations.
Local Open Scope Z_scope.

Section AvlSeq.
  Variable key : Type.
  Notation tree := (tree key).

  Definition leaf (x : key) : tree := N E x 1 E.                         (* avl_clear_node *)

  (* avl_insert_after (tree, rightmost node of t, new): the rightmost node has no right child *)
  Fixpoint app_max (t : tree) (x : key) : tree :=
    match t with
    | E => leaf x
    | N l y _ r => rebal key l y (app_max r x)
    end.

  (* avl_insert_before (tree, leftmost node of t, new) *)
  Fixpoint app_min (t : tree) (x : key) : tree :=
    match t with
    | E => leaf x
    | N l y _ r => rebal key (app_min l x) y r
    end.

  (* avl_insert_before (tree, avl_at (tree, u), new), 0 <= u < count: at the node itself, the new leaf becomes its
     left child if there is none, else the right child of node->prev = the rightmost node of the left subtree *)
  Fixpoint ins_before (t : tree) (u : Z) (x : key) : tree :=
    match t with
    | E => leaf x
    | N l y _ r => let c := cnt key l in
                   if u <? c then rebal key (ins_before l u x) y r
                   else if c <? u then rebal key l y (ins_before r (u - (c + 1)) x)
                   else rebal key (app_max l x) y r
    end.

  (* avl_insert_after (tree, avl_at (tree, u), new) *)
  Fixpoint ins_after (t : tree) (u : Z) (x : key) : tree :=
    match t with
    | E => leaf x
    | N l y _ r => let c := cnt key l in
                   if u <? c then rebal key (ins_after l u x) y r
                   else if c <? u then rebal key l y (ins_after r (u - (c + 1)) x)
                   else rebal key l y (app_min r x)
    end.

  (* avl_unlink_node (tree, avl_at (tree, u)) *)
  Fixpoint del_at (t : tree) (u : Z) : tree :=
    match t with
    | E => E
    | N l y _ r => let c := cnt key l in
                   if u <? c then rebal key (del_at l u) y r
                   else if c <? u then rebal key l y (del_at r (u - (c + 1)))
                   else match l, r with
                        | E, _ => r
                        | _, E => l
                        | _, _ => match remove_max key l with
                                  | Some (l', m) => rebal key l' m r
                                  | None => r
                                  end
                        end
    end.

  (* avl_index (avl_at (tree, u)): the sum the upward walk accumulates *)
  Fixpoint rank_up (t : tree) (u : Z) (acc : Z) : option Z :=
    match t with
    | E => None
    | N l y _ r => let c := cnt key l in
                   if u <? c then rank_up l u acc
                   else if c <? u then rank_up r (u - (c + 1)) (acc + c + 1)
                   else Some (acc + c)
    end.

  (* the prev/next list *)
  Definition sq_ins (s : list key) (n : nat) (x : key) : list key := firstn n s ++ x :: skipn n s.
  Definition sq_del (s : list key) (n : nat) : list key := firstn n s ++ skipn (S n) s.

  Inductive qop : Type :=
  | QInsBefore (u : Z) (x : key)      (* node = avl_at (u) (NULL beyond the end: append) *)
  | QInsAfter (u : Z) (x : key)       (* node = avl_at (u) (NULL beyond the end: prepend) *)
  | QDeleteAt (u : Z) | QAt (u : Z) | QIndexAt (u : Z)
  | QCount | QForeach | QThread | QThreadRev | QEnds | QClear.

  Inductive qout : Type :=
  | QoCnt (n : Z) | QoItem (o : option key) | QoIdx (o : option Z) | QoList (l : list key)
  | QoEnds (first last : option key) | QoUnit.

  Definition qstep (s : avl key) (op : qop) : avl key * qout :=
    let t := a_top key s in
    let th := a_thread key s in
    match op with
    | QInsBefore u x =>
      let s' := match at_ key t u with
                | Some _ => mkAvl key (ins_before t u x) (sq_ins th (Z.to_nat u) x)
                | None => mkAvl key (app_max t x) (th ++ [x])                   (* node = NULL: after the tail, or avl_insert_top *)
                end in (s', QoCnt (cnt key (a_top key s')))
    | QInsAfter u x =>
      let s' := match at_ key t u with
                | Some _ => mkAvl key (ins_after t u x) (sq_ins th (S (Z.to_nat u)) x)
                | None => mkAvl key (app_min t x) (x :: th)                     (* node = NULL: before the head, or avl_insert_top *)
                end in (s', QoCnt (cnt key (a_top key s')))
    | QDeleteAt u =>
      match at_ key t u with
      | Some y => (mkAvl key (del_at t u) (sq_del th (Z.to_nat u)), QoItem (Some y))
      | None => (s, QoItem None)
      end
    | QAt u => (s, QoItem (at_ key t u))
    | QIndexAt u => (s, QoIdx (rank_up t u 0))
    | QCount => (s, QoCnt (cnt key t))
    | QForeach => (s, QoList (inorder key t))
    | QThread => (s, QoList th)
    | QThreadRev => (s, QoList (rev th))
    | QEnds => (s, QoEnds (hd_error th) (last_key key th))
    | QClear => (avl_new key, QoUnit)
    end.

  Fixpoint qrun_from (s : avl key) (ops : list qop) : avl key * list qout :=
    match ops with
    | [] => (s, [])
    | op :: t => let '(s1, o) := qstep s op in let '(s2, os) := qrun_from s1 t in (s2, o :: os)
    end.

  (* ---- the abstract data type: a sequence (Coq list) with insertion and deletion by index ---- *)
  Definition inrange (s : list key) (u : Z) : bool := (0 <=? u) && (u <? Z.of_nat (length s)).

  Definition sqstep (s : list key) (op : qop) : list key * qout :=
    match op with
    | QInsBefore u x => let s' := if inrange s u then sq_ins s (Z.to_nat u) x else s ++ [x] in (s', QoCnt (Z.of_nat (length s')))
    | QInsAfter u x => let s' := if inrange s u then sq_ins s (S (Z.to_nat u)) x else x :: s in (s', QoCnt (Z.of_nat (length s')))
    | QDeleteAt u => if inrange s u then (sq_del s (Z.to_nat u), QoItem (nth_error s (Z.to_nat u))) else (s, QoItem None)
    | QAt u => (s, QoItem (if inrange s u then nth_error s (Z.to_nat u) else None))
    | QIndexAt u => (s, QoIdx (if inrange s u then Some u else None))
    | QCount => (s, QoCnt (Z.of_nat (length s)))
    | QForeach | QThread => (s, QoList s)
    | QThreadRev => (s, QoList (rev s))
    | QEnds => (s, QoEnds (hd_error s) (last_key key s))
    | QClear => ([], QoUnit)
    end.

  Fixpoint sqrun_from (s : list key) (ops : list qop) : list key * list qout :=
    match ops with
    | [] => (s, [])
    | op :: t => let '(s1, o) := sqstep s op in let '(s2, os) := sqrun_from s1 t in (s2, o :: os)
    end.
End AvlSeq.

Arguments QCount {key}.  Arguments QForeach {key}.  Arguments QThread {key}.  Arguments QThreadRev {key}.
Arguments QEnds {key}.  Arguments QClear {key}.  Arguments QoUnit {key}.
Arguments QDeleteAt {key}.  Arguments QAt {key}.  Arguments QIndexAt {key}.
