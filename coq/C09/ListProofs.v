(* C09 - the linked list model (links in a pool, first/last/next pointers) refines a sequence. *)
From Coq Require Import ZArith List Bool Lia Permutation.
From ScV Require Import Base.CInt C09.PoolModel C09.PoolProofs C09.ListModel.
Import ListNotations.
Local Open Scope Z_scope.

(* ---------- list facts ---------- *)
Lemma split_at {A} n (l : list A) : (n < length l)%nat -> exists a x b, l = a ++ x :: b /\ length a = n.
Proof.
  revert n; induction l as [|y t IH]; intros [|n] H; simpl in *; try lia.
  - exists [], y, t; auto.
  - destruct (IH n) as [a [x [b [E L]]]]; [lia|]. exists (y :: a), x, b. simpl; split; congruence.
Qed.

Lemma firstn_S_app {A} (a : list A) x b : firstn (S (length a)) (a ++ x :: b) = a ++ [x].
Proof. induction a as [|y t IH]; simpl; auto. f_equal. exact IH. Qed.

Lemma skipn_S_app {A} (a : list A) x b : skipn (S (length a)) (a ++ x :: b) = b.
Proof. induction a as [|y t IH]; simpl; auto. Qed.

Lemma nth_app_len {A} (a : list A) x b d : nth (length a) (a ++ x :: b) d = x.
Proof. induction a; simpl; auto. Qed.

Lemma last_opt_cons_some {A} (l : list A) : forall b, last_opt (b :: l) <> None.
Proof. induction l as [|c t IH]; intros b; simpl; [discriminate|]. apply (IH c). Qed.

Lemma last_opt_cons {A} (a : A) l : last_opt (a :: l) = match last_opt l with None => Some a | Some x => Some x end.
Proof.
  destruct l as [|b t]; [reflexivity|]. change (last_opt (a :: b :: t)) with (last_opt (b :: t)).
  destruct (last_opt (b :: t)) eqn:E; auto. exfalso. eapply last_opt_cons_some; eauto.
Qed.

Lemma last_opt_none {A} (l : list A) : last_opt l = None -> l = [].
Proof. destruct l as [|a t]; auto. rewrite last_opt_cons. destruct (last_opt t); discriminate. Qed.

Lemma last_opt_snoc {A} (l : list A) x : last_opt (l ++ [x]) = Some x.
Proof. induction l as [|a t IH]; simpl; auto. rewrite IH. destruct (t ++ [x]) eqn:E; auto. destruct t; discriminate. Qed.

Lemma last_opt_app_cons {A} (a : list A) x b : last_opt (a ++ x :: b) = last_opt (x :: b).
Proof.
  induction a as [|y t IH]; simpl; auto. rewrite IH. destruct (t ++ x :: b) eqn:E; auto. destruct t; discriminate.
Qed.

Lemma last_opt_in {A} (l : list A) x : last_opt l = Some x -> In x l.
Proof.
  induction l as [|a t IH]; simpl; [discriminate|]. destruct t as [|b t'].
  - intros [= ->]; auto.
  - intros H. right. apply IH. exact H.
Qed.

Lemma last_opt_some_snoc {A} (l : list A) x : last_opt l = Some x -> exists a, l = a ++ [x].
Proof.
  induction l as [|y t IH]; simpl; [discriminate|]. destruct t as [|b t'].
  - intros [= ->]. exists []; auto.
  - intros H. destruct (IH H) as [a E]. exists (y :: a). simpl. rewrite E. auto.
Qed.

Lemma snoc_length_split {A B} (a : list A) (x : A) (l : list B) : length l = length (a ++ [x]) ->
  exists l1 d, l = l1 ++ [d] /\ length l1 = length a.
Proof.
  intros H. rewrite app_length in H; simpl in H.
  destruct (split_at (length a) l) as [l1 [d [l2 [E L]]]]; [lia|].
  subst l. rewrite app_length in H; simpl in H. destruct l2; [|simpl in H; lia]. eauto.
Qed.

(* ---------- heap facts ---------- *)
Lemma hupd_same h i v : hupd h i v i = v.
Proof. unfold hupd. rewrite item_eqb_refl. auto. Qed.

Lemma hupd_other h i j v : j <> i -> hupd h i v j = h j.
Proof. intros H. unfold hupd. rewrite item_eqb_neq; auto. Qed.

Lemma oitem_eqb_some a b : oitem_eqb (Some a) (Some b) = true <-> a = b.
Proof. simpl. apply item_eqb_eq. Qed.

(* a segment of links from o to e carrying the data l *)
Fixpoint seg (h : lheap) (o : option item) (its : list item) (l : list Z) (e : option item) : Prop :=
  match its, l with
  | [], [] => o = e
  | i :: its', d :: l' => o = Some i /\ fst (h i) = d /\ seg h (snd (h i)) its' l' e
  | _, _ => False
  end.

Lemma seg_length h its : forall o l e, seg h o its l e -> length its = length l.
Proof.
  induction its as [|i t IH]; intros o [|d l] e H; simpl in *; try contradiction; auto.
  destruct H as [_ [_ H]]. f_equal. eapply IH; eauto.
Qed.

Lemma seg_hupd h j v its : forall o l e, ~ In j its -> seg h o its l e -> seg (hupd h j v) o its l e.
Proof.
  induction its as [|i t IH]; intros o [|d l] e Hn H; simpl in *; try contradiction; auto.
  destruct H as [Ho [Hd Hs]]. assert (i <> j) by (intros ->; apply Hn; auto).
  rewrite hupd_other by auto. repeat split; auto.
Qed.

Lemma seg_app h a : forall b la lb o e, length a = length la ->
  (seg h o (a ++ b) (la ++ lb) e <-> exists m, seg h o a la m /\ seg h m b lb e).
Proof.
  induction a as [|i t IH]; intros b [|d la] lb o e L; simpl in *; try discriminate.
  - split; [intros H; exists o; auto|intros [m [-> H]]; auto].
  - split.
    + intros [Ho [Hd Hs]]. apply IH in Hs; [|lia]. destruct Hs as [m [A B]]. exists m; auto.
    + intros [m [[Ho [Hd Hs]] B]]. repeat split; auto. apply IH; [lia|]. exists m; auto.
Qed.

Lemma seg_walk h a : forall o la m, seg h o a la m -> walk h o (length a) = m.
Proof.
  induction a as [|i t IH]; intros o [|d la] m H; simpl in *; try contradiction; auto.
  destruct H as [-> [_ H]]. eapply IH; eauto.
Qed.

Lemma seg_chain_data h its : forall o l, seg h o its l None -> chain_data (length l) h o = l.
Proof.
  induction its as [|i t IH]; intros o [|d l] H; simpl in *; try contradiction; auto.
  destruct H as [-> [Hd H]]. rewrite Hd. f_equal. eapply IH; eauto.
Qed.

Lemma seg_first_data h its o l : seg h o its l None ->
  match o with Some i => Some (fst (h i)) | None => None end = hd_error l.
Proof.
  destruct its as [|i t], l as [|d l]; simpl; try contradiction.
  - intros ->; auto.
  - intros [-> [Hd _]]. rewrite Hd; auto.
Qed.

Lemma seg_last_data h its : forall o l, seg h o its l None ->
  match last_opt its with Some i => Some (fst (h i)) | None => None end = last_opt l.
Proof.
  induction its as [|i t IH]; intros o [|d l] H; try (simpl in H; contradiction); auto.
  destruct H as [Ho [Hd H]]. specialize (IH _ _ H).
  rewrite (last_opt_cons i t), (last_opt_cons d l).
  destruct (last_opt t); rewrite <- IH; auto. rewrite Hd; auto.
Qed.

(* ---------- the refinement relation ---------- *)
(* lk: links that were taken from the allocator and dropped by sc_list_unlink (or belong to other users) *)
Definition Rlk (st : sclist) (l : list Z) (lk : list item) : Prop := exists its,
  seg (l_heap st) (l_first st) its l None /\ l_last st = last_opt its /\
  l_count st = Z.of_nat (length l) /\ PoolInv (l_pool st) (its ++ lk).

Ltac proj := cbn [l_heap l_first l_last l_count l_pool].

Lemma Rl_out st l lk ret : Rlk st l lk -> lo st ret = so l ret.
Proof.
  intros [its [S [La [C P]]]]. unfold lo, so. rewrite C. f_equal.
  - unfold data_of. eapply seg_first_data; eauto.
  - unfold data_of. rewrite La. eapply seg_last_data; eauto.
Qed.

Lemma Rl_data st l lk : Rlk st l lk -> list_data st = l.
Proof.
  intros [its [S [La [C P]]]]. unfold list_data. rewrite C, Nat2Z.id. eapply seg_chain_data; eauto.
Qed.

Lemma new_Rl p lk : PoolInv p lk -> Rlk (list_new p) [] lk.
Proof. intros H. exists []. simpl. split; [auto|]. split; [auto|]. split; [auto|exact H]. Qed.

Lemma prepend_Rl st l lk d : Rlk st l lk -> Rlk (list_prepend st d) (d :: l) lk.
Proof.
  intros [its [S [La [C P]]]]. unfold list_prepend.
  destruct (mempool_alloc_spec _ _ P) as [it [p' [fresh [E [Hni [P' _]]]]]]. rewrite E.
  assert (Hn : ~ In it its) by (intros Hi; apply Hni; apply in_or_app; auto).
  exists (it :: its). proj. split; [|split; [|split]].
  - cbn [seg]. rewrite hupd_same. cbn [fst snd]. repeat split; auto. apply seg_hupd; auto.
  - rewrite La. rewrite (last_opt_cons it its). destruct (last_opt its); auto.
  - rewrite C. cbn [length]. lia.
  - eapply PoolInv_perm; [|exact P']. apply Permutation_sym. apply Permutation_cons_append.
Qed.

Lemma append_Rl st l lk d : Rlk st l lk -> Rlk (list_append st d) (l ++ [d]) lk.
Proof.
  intros [its [S [La [C P]]]]. unfold list_append.
  destruct (mempool_alloc_spec _ _ P) as [it [p' [fresh [E [Hni [P' _]]]]]]. rewrite E.
  assert (Hn : ~ In it its) by (intros Hi; apply Hni; apply in_or_app; auto).
  assert (PP : PoolInv p' ((its ++ [it]) ++ lk)).
  { eapply PoolInv_perm; [|exact P']. rewrite <- !app_assoc. apply Permutation_app_head. apply Permutation_app_comm. }
  destruct (l_last st) as [la|] eqn:EL.
  - symmetry in La. destruct (last_opt_some_snoc _ _ La) as [a Ea]. subst its.
    pose proof (seg_length _ _ _ _ _ S) as SL. destruct (snoc_length_split _ _ _ (eq_sym SL)) as [l1 [d1 [El L1]]]. subst l.
    apply seg_app in S; [|lia]. destruct S as [m [S1 S2]]. cbn [seg] in S2. destruct S2 as [-> [Hd1 Hnx]].
    assert (Hla : la <> it) by (intros ->; apply Hn; apply in_or_app; simpl; auto).
    assert (Hia : ~ In it a) by (intros Hi; apply Hn; apply in_or_app; auto).
    assert (Hlaa : ~ In la a).
    { pose proof (PoolInv_nodup _ _ P) as N. apply NoDup_app_left in N. apply NoDup_remove_2 in N. rewrite app_nil_r in N. auto. }
    exists ((a ++ [la]) ++ [it]). proj. split; [|split; [|split]]; auto.
    + rewrite <- !app_assoc. cbn [app]. apply seg_app; [lia|]. exists (Some la). split.
      * apply seg_hupd; auto. apply seg_hupd; auto.
      * cbn [seg]. rewrite hupd_same. cbn [fst snd]. rewrite (hupd_other _ _ _ _ Hla).
        assert (Hil : it <> la) by congruence. rewrite (hupd_other _ la it _ Hil). rewrite hupd_same.
        cbn [fst snd]. auto.
    + rewrite last_opt_snoc; auto.
    + rewrite C. rewrite !app_length. cbn [length]. lia.
  - symmetry in La. apply last_opt_none in La. subst its. destruct l; [|simpl in S; contradiction].
    exists [it]. proj. cbn [seg app]. rewrite hupd_same. cbn [fst snd].
    split; [auto|]. split; [auto|]. split; [rewrite C; reflexivity|exact PP].
Qed.

Lemma nodup_mid_notin {A} (a : list A) x b : NoDup (a ++ x :: b) -> ~ In x a /\ ~ In x b.
Proof.
  intros N. apply NoDup_remove_2 in N. split; intros H; apply N; apply in_or_app; auto.
Qed.

Lemma NoDup_app_right {A} (a b : list A) : NoDup (a ++ b) -> NoDup b.
Proof. induction a as [|x t IH]; simpl; auto. intros H. inversion H; auto. Qed.

Lemma insert_Rl st l lk pos d : Rlk st l lk -> (pos < length l)%nat ->
  exists pred, walk (l_heap st) (l_first st) pos = Some pred /\
    Rlk (list_insert st pred d) (firstn (S pos) l ++ d :: skipn (S pos) l) lk.
Proof.
  intros [its [S [La [C P]]]] Hpos.
  pose proof (seg_length _ _ _ _ _ S) as SL.
  destruct (split_at pos its) as [a [pred [b [Ei La']]]]; [lia|].
  destruct (split_at pos l) as [l1 [dp [l2 [El Ll]]]]; [lia|]. subst its l.
  apply seg_app in S; [|lia]. destruct S as [m [S1 S2]]. cbn [seg] in S2. destruct S2 as [-> [Hdp S2]].
  exists pred. split; [rewrite <- La'; eapply seg_walk; eauto|].
  unfold list_insert.
  destruct (mempool_alloc_spec _ _ P) as [it [p' [fresh [E [Hni [P' _]]]]]]. rewrite E.
  assert (Hn : ~ In it (a ++ pred :: b)) by (intros Hi; apply Hni; apply in_or_app; auto).
  assert (Hia : ~ In it a) by (intros Hi; apply Hn; apply in_or_app; auto).
  assert (Hib : ~ In it b) by (intros Hi; apply Hn; apply in_or_app; simpl; auto).
  assert (Hip : pred <> it) by (intros ->; apply Hn; apply in_or_app; simpl; auto).
  assert (Hpi : it <> pred) by congruence.
  pose proof (PoolInv_nodup _ _ P) as N. apply NoDup_app_left in N.
  destruct (nodup_mid_notin _ _ _ N) as [Hpa Hpb].
  rewrite <- Ll. rewrite firstn_S_app, skipn_S_app.
  exists (a ++ pred :: it :: b). proj. split; [|split; [|split]].
  - rewrite <- app_assoc. cbn [app]. apply seg_app; [lia|]. exists (Some pred). split.
    + apply seg_hupd; auto. apply seg_hupd; auto.
    + cbn [seg]. rewrite hupd_same. cbn [fst snd]. rewrite (hupd_other _ _ _ _ Hip).
      rewrite (hupd_other _ pred it _ Hpi). rewrite hupd_same. cbn [fst snd].
      repeat split; auto. apply seg_hupd; auto. apply seg_hupd; auto.
  - rewrite La. rewrite !last_opt_app_cons. destruct b as [|y b'].
    + cbn [last_opt oitem_eqb]. rewrite item_eqb_refl. reflexivity.
    + assert (Hl : exists z, last_opt (y :: b') = Some z /\ z <> pred).
      { destruct (last_opt (y :: b')) as [z|] eqn:Ez.
        - exists z; split; auto. intros ->. apply Hpb. apply last_opt_in; auto.
        - apply last_opt_none in Ez; discriminate. }
      destruct Hl as [z [Ez Hz]].
      rewrite (last_opt_cons pred (y :: b')), Ez. cbn [oitem_eqb].
      assert (Hzp : pred <> z) by congruence. rewrite (item_eqb_neq _ _ Hzp).
      rewrite (last_opt_cons pred (it :: y :: b')), (last_opt_cons it (y :: b')), Ez. reflexivity.
  - rewrite C. repeat (rewrite app_length; cbn [length]). lia.
  - eapply PoolInv_perm; [|exact P']. rewrite <- !app_assoc. cbn [app].
    apply Permutation_app_head. apply perm_skip.
    apply Permutation_sym. rewrite app_assoc. apply Permutation_cons_append.
Qed.

Lemma remove_Rl st l lk pos : Rlk st l lk -> (S pos < length l)%nat ->
  exists pred, walk (l_heap st) (l_first st) pos = Some pred /\
    Rlk (fst (list_remove st pred)) (firstn (S pos) l ++ skipn (S (S pos)) l) lk /\
    snd (list_remove st pred) = nth (S pos) l 0.
Proof.
  intros [its [S [La [C P]]]] Hpos.
  pose proof (seg_length _ _ _ _ _ S) as SL.
  destruct (split_at pos its) as [a [pred [b0 [Ei La']]]]; [lia|].
  destruct (split_at pos l) as [l1 [dp [l20 [El Ll]]]]; [lia|]. subst its l.
  rewrite !app_length in *. cbn [length] in *.
  destruct b0 as [|lynk b]; [cbn [length] in *; lia|]. destruct l20 as [|dl l2]; [cbn [length] in *; lia|].
  apply seg_app in S; [|lia]. destruct S as [m [S1 S2]]. cbn [seg] in S2.
  destruct S2 as [-> [Hdp [Hnx [Hdl S2]]]].
  exists pred. split; [rewrite <- La'; eapply seg_walk; eauto|].
  unfold list_remove. rewrite Hnx. cbn [fst snd].
  pose proof (PoolInv_nodup _ _ P) as N. apply NoDup_app_left in N.
  destruct (nodup_mid_notin _ _ _ N) as [Hpa Hpb].
  assert (N2 : NoDup (lynk :: b)) by (apply NoDup_app_right in N; inversion N; auto).
  assert (Hlb : ~ In lynk b) by (inversion N2; auto).
  assert (Hpl : pred <> lynk) by (intros ->; apply Hpb; simpl; auto).
  assert (Hpb' : ~ In pred b) by (intros Hi; apply Hpb; simpl; auto).
  assert (E1 : firstn (S pos) (l1 ++ dp :: dl :: l2) = l1 ++ [dp]) by (rewrite <- Ll; apply firstn_S_app).
  assert (E2 : skipn (S (S pos)) (l1 ++ dp :: dl :: l2) = l2).
  { replace (S pos) with (length (l1 ++ [dp])) by (rewrite app_length; cbn [length]; lia).
    replace (l1 ++ dp :: dl :: l2) with ((l1 ++ [dp]) ++ dl :: l2) by (rewrite <- app_assoc; auto).
    apply skipn_S_app. }
  assert (E3 : nth (S pos) (l1 ++ dp :: dl :: l2) 0 = dl).
  { replace (S pos) with (length (l1 ++ [dp])) by (rewrite app_length; cbn [length]; lia).
    replace (l1 ++ dp :: dl :: l2) with ((l1 ++ [dp]) ++ dl :: l2) by (rewrite <- app_assoc; auto).
    apply nth_app_len. }
  rewrite E1, E2, E3. split; [|auto].
  exists (a ++ pred :: b). proj. split; [|split; [|split]].
  - rewrite <- app_assoc. cbn [app]. apply seg_app; [lia|]. exists (Some pred). split.
    + apply seg_hupd; auto.
    + cbn [seg]. rewrite hupd_same. cbn [fst snd]. repeat split; auto. apply seg_hupd; auto.
  - rewrite La. rewrite !last_opt_app_cons. destruct b as [|y b'].
    + cbn [last_opt oitem_eqb]. rewrite item_eqb_refl. reflexivity.
    + assert (Hl : exists z, last_opt (y :: b') = Some z /\ z <> lynk).
      { destruct (last_opt (y :: b')) as [z|] eqn:Ez.
        - exists z; split; auto. intros ->. apply Hlb. apply last_opt_in; auto.
        - apply last_opt_none in Ez; discriminate. }
      destruct Hl as [z [Ez Hz]].
      rewrite (last_opt_cons pred (lynk :: y :: b')), (last_opt_cons lynk (y :: b')), Ez.
      cbn [oitem_eqb]. rewrite (item_eqb_neq _ _ Hz).
      rewrite (last_opt_cons pred (y :: b')), Ez. reflexivity.
  - rewrite C. repeat (rewrite app_length; cbn [length]). lia.
  - apply PoolInv_free. eapply PoolInv_perm; [|exact P].
    rewrite <- !app_assoc. cbn [app].
    apply Permutation_sym. etransitivity; [apply Permutation_middle|].
    apply Permutation_app_head. apply perm_swap.
Qed.

Lemma pop_Rl st l lk : Rlk st l lk -> l <> [] ->
  Rlk (fst (list_pop st)) (tl l) lk /\ snd (list_pop st) = hd 0 l.
Proof.
  intros [its [S [La [C P]]]] Hne. destruct l as [|dl l2]; [congruence|].
  destruct its as [|lynk b]; [simpl in S; contradiction|]. cbn [seg] in S. destruct S as [Hf [Hd S]].
  unfold list_pop. rewrite Hf. cbn [fst snd hd tl]. split; auto.
  exists b. proj. split; [|split; [|split]]; auto.
  - rewrite La. rewrite (last_opt_cons lynk b). destruct b as [|y b'].
    + cbn [seg] in S. destruct l2; [|contradiction]. rewrite S. reflexivity.
    + destruct l2; [simpl in S; contradiction|]. cbn [seg] in S. destruct S as [-> _].
      destruct (last_opt (y :: b')) eqn:Ez; auto. apply last_opt_none in Ez; discriminate.
  - rewrite C. cbn [length]. lia.
  - apply PoolInv_free. exact P.
Qed.

Lemma free_chain_spec h lk its : forall o l p cnt, seg h o its l None -> PoolInv p (its ++ lk) ->
  PoolInv (fst (free_chain (length l) h o p cnt)) lk /\ snd (free_chain (length l) h o p cnt) = cnt - Z.of_nat (length l).
Proof.
  induction its as [|i t IH]; intros o [|d l] p cnt S P; simpl in S; try contradiction.
  - subst o. simpl. split; auto. lia.
  - destruct S as [-> [_ S]]. cbn [free_chain length].
    destruct (IH _ _ (mempool_free p i) (cnt - 1) S (PoolInv_free _ _ _ P)) as [A B]. split; auto.
    rewrite B. lia.
Qed.

Lemma reset_Rl st l lk : Rlk st l lk -> Rlk (list_reset st) [] lk.
Proof.
  intros [its [S [La [C P]]]]. unfold list_reset. rewrite C, Nat2Z.id.
  destruct (free_chain_spec _ lk _ _ _ _ (Z.of_nat (length l)) S P) as [A B].
  destruct (free_chain (length l) (l_heap st) (l_first st) (l_pool st) (Z.of_nat (length l))) as [p c].
  cbn [fst snd] in *. exists []. proj. cbn [seg last_opt length app].
  split; [auto|]. split; [auto|]. split; [lia|exact A].
Qed.

Lemma unlink_Rl st l lk : Rlk st l lk -> exists lk', Rlk (list_unlink st) [] lk'.
Proof.
  intros [its [S [La [C P]]]]. exists (its ++ lk). exists []. simpl.
  split; [auto|]. split; [auto|]. split; [auto|exact P].
Qed.

Lemma lstep_Rl st l lk op : Rlk st l lk -> seq_legal l op ->
  exists lk', Rlk (fst (lstep st op)) (fst (seq_step l op)) lk' /\ (op <> LUnlink -> lk' = lk) /\
              snd (lstep st op) = snd (seq_step l op).
Proof.
  intros HR L. destruct op as [d|d|pos d|pos| | | |]; cbn [lstep seq_step seq_legal fst snd] in *.
  - pose proof (prepend_Rl st l lk d HR) as H. exists lk. split; [exact H|]. split; [auto|]. eapply Rl_out; eauto.
  - pose proof (append_Rl st l lk d HR) as H. exists lk. split; [exact H|]. split; [auto|]. eapply Rl_out; eauto.
  - destruct (insert_Rl st l lk pos d HR L) as [pred [W H]]. rewrite W. cbn [fst snd].
    exists lk. split; [exact H|]. split; [auto|]. eapply Rl_out; eauto.
  - destruct (remove_Rl st l lk pos HR L) as [pred [W [H D]]]. rewrite W.
    destruct (list_remove st pred) as [st' d']. cbn [fst snd] in *. subst d'.
    exists lk. split; [exact H|]. split; [auto|]. eapply Rl_out; eauto.
  - destruct (pop_Rl st l lk HR L) as [H D]. destruct (list_pop st) as [st' d']. cbn [fst snd] in *. subst d'.
    exists lk. split; [exact H|]. split; [auto|]. eapply Rl_out; eauto.
  - pose proof (reset_Rl st l lk HR) as H. exists lk. split; [exact H|]. split; [auto|]. apply (Rl_out _ [] lk 0 H).
  - destruct (unlink_Rl st l lk HR) as [lk' H]. exists lk'. split; [exact H|]. split; [congruence|]. apply (Rl_out _ [] lk' 0 H).
  - exists lk. split; [exact HR|]. split; [auto|]. rewrite (Rl_data _ _ _ HR). reflexivity.
Qed.

Lemma lrun_Rl ops : forall st l lk, Rlk st l lk -> seq_legal_run l ops ->
  exists lk', Rlk (fst (lrun_from st ops)) (fst (seq_run_from l ops)) lk' /\ (~ In LUnlink ops -> lk' = lk) /\
              snd (lrun_from st ops) = snd (seq_run_from l ops).
Proof.
  induction ops as [|op r IH]; intros st l lk HR L; cbn [lrun_from seq_run_from seq_legal_run] in *.
  - exists lk. split; [exact HR|]. split; auto.
  - destruct L as [L1 L2]. destruct (lstep_Rl st l lk op HR L1) as [lk1 [R1 [K1 O1]]].
    destruct (lstep st op) as [st1 o]. destruct (seq_step l op) as [l1 o']. cbn [fst snd] in *.
    destruct (IH st1 l1 lk1 R1 L2) as [lk2 [R2 [K2 O2]]].
    destruct (lrun_from st1 r) as [st2 os]. destruct (seq_run_from l1 r) as [l2 os']. cbn [fst snd] in *.
    exists lk2. split; [exact R2|]. split; [|congruence].
    intros NU. rewrite K2, K1; auto; intros Hx; apply NU; simpl; auto.
Qed.

(* the theorem of the property for lists: every legal history, any pool the links come from *)
Theorem list_refines p lk0 ops : PoolInv p lk0 -> seq_legal_run [] ops ->
  let '(st, outs) := lrun_from (list_new p) ops in
  let '(s, souts) := seq_run_from [] ops in
  outs = souts /\ list_data st = s /\ l_count st = Z.of_nat (length s) /\
  (* the links of the list are live items of the allocator, pairwise distinct; without sc_list_unlink the
     allocator holds exactly the links of the list besides what it held before *)
  exists its lk, length its = length s /\ NoDup its /\ PoolInv (l_pool st) (its ++ lk) /\
                 (~ In LUnlink ops -> lk = lk0 /\ mp_count (l_pool st) = l_count st + Z.of_nat (length lk0)).
Proof.
  intros P L. destruct (lrun_Rl ops _ _ _ (new_Rl p lk0 P) L) as [lk [HR [K O]]].
  destruct (lrun_from (list_new p) ops) as [st outs]. destruct (seq_run_from [] ops) as [s souts]. cbn [fst snd] in *.
  split; auto. split; [eapply Rl_data; eauto|].
  destruct HR as [its [S [La [C PI]]]]. split; auto.
  exists its, lk. pose proof (seg_length _ _ _ _ _ S) as SL. split; auto.
  split; [eapply NoDup_app_left; eapply PoolInv_nodup; eauto|]. split; auto.
  intros NU. specialize (K NU). subst lk. split; auto.
  destruct PI as [_ [_ [_ Kc]]]. rewrite Kc, C, app_length, SL. lia.
Qed.
