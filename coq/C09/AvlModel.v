(* C09 - executable model of the count-augmented, threaded AVL tree (src/sc_avl.c, AVL_COUNT configuration).
   The tree is an inductive value whose nodes carry the STORED count field; every function reads that field
   (NODE_COUNT) as the C code does, it never recomputes sizes.  The bottom-up loop of avl_rebalance (from a node
   along the parent pointers to the top, checking the balance of every node with the freshly stored counts of its
   children, rotating, recomputing counts) is the return path of the recursions `ins` / `del` / `remove_max`: they
   apply `rebal` at exactly the nodes the loop visits, in the same order, with the same children.  The balance
   decision (lg, avl_check_balance) is the function GENERATED from the repository's source (Gen/AvlBalance.v).
   The doubly linked prev/next list is the separate component a_thread, maintained the way avl_insert_before /
   avl_insert_after / avl_unlink_node splice it (relative to the neighbour node found by avl_search_closest).
   Definitions only; proofs are in AvlProofs.v. *)
From Coq Require Import ZArith List Bool.
From ScV Require Import Base.CInt Gen.AvlBalance C09.HashModel.
Import ListNotations.
Local Open Scope Z_scope.

Section Avl.
  Variable key : Type.
  Variable cmp : key -> key -> Z.      (* avl_compare_t: negative, zero, positive *)

  Inductive tree : Type := E | N (l : tree) (x : key) (c : Z) (r : tree).

  Definition cnt (t : tree) : Z := match t with E => 0 | N _ _ c _ => c end.      (* NODE_COUNT *)
  Definition mk (l : tree) (x : key) (r : tree) : tree := N l x (cnt l + cnt r + 1) r.   (* count = CALC_COUNT *)

  (* avl_check_balance of a node whose children are l and r *)
  Definition balance (l r : tree) : Z := avl_balance_decision (avl_lg (cnt l)) (cnt r).

  (* one iteration of the loop of avl_rebalance at the node with item x and children l, r: the new subtree top.
     The branches marked unreachable would dereference NULL in C; AvlProofs.rebal_never_stuck shows they are
     not taken on trees with exact counts. *)
  Definition rebal (l : tree) (x : key) (r : tree) : tree :=
    let d := balance l r in
    if d =? -1 then
      match l with
      | N ll y _ lr =>                                   (* child = avlnode->left *)
        if cnt lr <=? cnt ll                             (* L_COUNT(child) >= R_COUNT(child) *)
        then mk ll y (mk lr x r)
        else match lr with
             | N lrl z _ lrr => mk (mk ll y lrl) z (mk lrr x r)      (* gchild = child->right *)
             | E => mk l x r                             (* unreachable *)
             end
      | E => mk l x r                                    (* unreachable *)
      end
    else if d =? 1 then
      match r with
      | N rl y _ rr =>                                   (* child = avlnode->right *)
        if cnt rl <=? cnt rr                             (* R_COUNT(child) >= L_COUNT(child) *)
        then mk (mk l x rl) y rr
        else match rl with
             | N rll z _ rlr => mk (mk l x rll) z (mk rlr y rr)      (* gchild = child->left *)
             | E => mk l x r                             (* unreachable *)
             end
      | E => mk l x r                                    (* unreachable *)
      end
    else mk l x r.

  Definition rebal_stuck (l r : tree) : bool :=
    let d := balance l r in
    if d =? -1 then
      match l with
      | N ll _ _ lr => if cnt lr <=? cnt ll then false else match lr with E => true | _ => false end
      | E => true
      end
    else if d =? 1 then
      match r with
      | N rl _ _ rr => if cnt rl <=? cnt rr then false else match rl with E => true | _ => false end
      | E => true
      end
    else false.

  (* avl_search_closest: the last node of the search path and -1 / 0 / 1 *)
  Fixpoint closest (t : tree) (x : key) : option (key * Z) :=
    match t with
    | E => None
    | N l y _ r =>
      let c := cmp x y in
      if c <? 0 then match l with E => Some (y, -1) | _ => closest l x end
      else if 0 <? c then match r with E => Some (y, 1) | _ => closest r x end
      else Some (y, 0)
    end.

  Definition search (t : tree) (x : key) : option key :=
    match closest t x with Some (y, s) => if s =? 0 then Some y else None | None => None end.

  (* the new node becomes the left / right child of the node where the search ended; avl_rebalance runs from
     that node to the top.  Only called when no equal item is in the tree. *)
  Fixpoint ins (t : tree) (x : key) : tree :=
    match t with
    | E => N E x 1 E                                     (* avl_clear_node *)
    | N l y c r =>
      let d := cmp x y in
      if d <? 0 then rebal (ins l x) y r
      else if 0 <? d then rebal l y (ins r x)
      else t
    end.

  (* detach the rightmost node of a subtree (subst = avlnode->prev): its left child takes its place and
     avl_rebalance runs upward from its former parent *)
  Fixpoint remove_max (t : tree) : option (tree * key) :=
    match t with
    | E => None
    | N l y _ r => match remove_max r with
                   | None => Some (l, y)
                   | Some (r', m) => Some (rebal l y r', m)
                   end
    end.

  (* avl_unlink_node at the node holding an item equal to x *)
  Fixpoint del (t : tree) (x : key) : tree :=
    match t with
    | E => E
    | N l y c r =>
      let d := cmp x y in
      if d <? 0 then rebal (del l x) y r
      else if 0 <? d then rebal l y (del r x)
      else match l, r with
           | E, _ => r                                   (* !left: *superparent = right, balnode = parent *)
           | _, E => l                                   (* !right *)
           | _, _ => match remove_max l with
                     | Some (l', m) => rebal l' m r      (* subst takes the node's place; rebalance from balnode up *)
                     | None => r
                     end
           end
    end.

  (* avl_at *)
  Fixpoint at_ (t : tree) (u : Z) : option key :=
    match t with
    | E => None
    | N l y _ r => let c := cnt l in
                   if u <? c then at_ l u else if c <? u then at_ r (u - (c + 1)) else Some y
    end.

  (* avl_index of the node holding an item equal to x (the sum the upward walk accumulates) *)
  Fixpoint index (t : tree) (x : key) (acc : Z) : option Z :=
    match t with
    | E => None
    | N l y _ r => let d := cmp x y in
                   if d <? 0 then index l x acc
                   else if 0 <? d then index r x (acc + cnt l + 1)
                   else Some (acc + cnt l)
    end.

  (* avl_foreach (recursion left, node, right) *)
  Fixpoint inorder (t : tree) : list key :=
    match t with E => [] | N l x _ r => inorder l ++ x :: inorder r end.

  (* the prev/next list: splice a new node before / after the node holding y *)
  Fixpoint th_before (th : list key) (y x : key) : list key :=
    match th with
    | [] => [x]
    | a :: t => if cmp a y =? 0 then x :: a :: t else a :: th_before t y x
    end.
  Fixpoint th_after (th : list key) (y x : key) : list key :=
    match th with
    | [] => [x]
    | a :: t => if cmp a y =? 0 then a :: x :: t else a :: th_after t y x
    end.

  Record avl := mkAvl { a_top : tree; a_thread : list key }.

  Definition avl_new : avl := mkAvl E [].

  (* avl_insert: (tree, inserted?) *)
  Definition avl_insert (s : avl) (x : key) : avl * bool :=
    match closest (a_top s) x with
    | None => (mkAvl (N E x 1 E) [x], true)                                  (* avl_insert_top *)
    | Some (y, sg) =>
      if sg =? 0 then (s, false)
      else (mkAvl (ins (a_top s) x) (if sg <? 0 then th_before (a_thread s) y x else th_after (a_thread s) y x), true)
    end.

  (* avl_delete: the item of the deleted node *)
  Definition avl_delete (s : avl) (x : key) : avl * option key :=
    match search (a_top s) x with
    | None => (s, None)
    | Some y => (mkAvl (del (a_top s) x) (remove_first (fun a => cmp a y =? 0) (a_thread s)), Some y)
    end.

  Fixpoint last_key (l : list key) : option key :=
    match l with [] => None | [a] => Some a | _ :: t => last_key t end.

  Inductive vop : Type :=
  | VInsert (x : key) | VDelete (x : key) | VSearch (x : key) | VClosest (x : key) | VAt (u : Z) | VIndex (x : key)
  | VCount | VForeach | VThread | VThreadRev | VEnds | VClear.

  Inductive vout : Type :=
  | VoBool (b : bool) | VoItem (o : option key) | VoClosest (o : option (key * Z)) | VoIdx (o : option Z)
  | VoCnt (n : Z) | VoList (l : list key) | VoEnds (first last : option key) | VoUnit.

  Definition vstep (s : avl) (op : vop) : avl * vout :=
    match op with
    | VInsert x => let '(s', b) := avl_insert s x in (s', VoBool b)
    | VDelete x => let '(s', o) := avl_delete s x in (s', VoItem o)
    | VSearch x => (s, VoItem (search (a_top s) x))
    | VClosest x => (s, VoClosest (closest (a_top s) x))
    | VAt u => (s, VoItem (at_ (a_top s) u))
    | VIndex x => (s, VoIdx (index (a_top s) x 0))
    | VCount => (s, VoCnt (cnt (a_top s)))
    | VForeach => (s, VoList (inorder (a_top s)))
    | VThread => (s, VoList (a_thread s))
    | VThreadRev => (s, VoList (rev (a_thread s)))
    | VEnds => (s, VoEnds (hd_error (a_thread s)) (last_key (a_thread s)))
    | VClear => (avl_new, VoUnit)
    end.

  Fixpoint vrun_from (s : avl) (ops : list vop) : avl * list vout :=
    match ops with
    | [] => (s, [])
    | op :: t => let '(s1, o) := vstep s op in let '(s2, os) := vrun_from s1 t in (s2, o :: os)
    end.

  (* ---- the abstract data type: a set kept as the strictly ascending list of its elements ---- *)
  Fixpoint sins (s : list key) (x : key) : list key :=
    match s with
    | [] => [x]
    | a :: t => let c := cmp x a in
                if c <? 0 then x :: a :: t else if 0 <? c then a :: sins t x else a :: t
    end.

  Definition is_eq (x : key) : key -> bool := fun a => cmp x a =? 0.
  Definition sfind (s : list key) (x : key) : option key := find (is_eq x) s.
  Definition sdel (s : list key) (x : key) : list key := remove_first (is_eq x) s.

  Fixpoint sindex (s : list key) (x : key) (i : Z) : option Z :=
    match s with
    | [] => None
    | a :: t => if is_eq x a then Some i else sindex t x (i + 1)
    end.

  (* avl_search_closest may answer with either neighbour of an absent item: a relation *)
  Definition closest_ok (s : list key) (x : key) (o : option (key * Z)) : Prop :=
    match o with
    | None => s = []
    | Some (y, sg) =>
      exists l1 l2, s = l1 ++ y :: l2 /\
        ((sg = 0 /\ cmp x y = 0) \/
         (sg = -1 /\ cmp x y < 0 /\ forall a, In a l1 -> cmp a x < 0) \/     (* y is the successor of x *)
         (sg = 1 /\ 0 < cmp x y /\ forall b, In b l2 -> cmp x b < 0))        (* y is the predecessor of x *)
    end.

  Definition sstep (s : list key) (op : vop) : list key * vout :=
    match op with
    | VInsert x => match sfind s x with Some _ => (s, VoBool false) | None => (sins s x, VoBool true) end
    | VDelete x => match sfind s x with Some y => (sdel s x, VoItem (Some y)) | None => (s, VoItem None) end
    | VSearch x => (s, VoItem (sfind s x))
    | VClosest x => (s, VoClosest None)                  (* judged by closest_ok *)
    | VAt u => (s, VoItem (if u <? 0 then None else nth_error s (Z.to_nat u)))
    | VIndex x => (s, VoIdx (sindex s x 0))
    | VCount => (s, VoCnt (Z.of_nat (length s)))
    | VForeach | VThread => (s, VoList s)
    | VThreadRev => (s, VoList (rev s))
    | VEnds => (s, VoEnds (hd_error s) (last_key s))
    | VClear => ([], VoUnit)
    end.

  Fixpoint srun_from (s : list key) (ops : list vop) : list key * list vout :=
    match ops with
    | [] => (s, [])
    | op :: t => let '(s1, o) := sstep s op in let '(s2, os) := srun_from s1 t in (s2, o :: os)
    end.

  (* an output of the tree is right if it equals the set's, or, for a closest query, is one of the neighbours *)
  Definition vout_ok (s : list key) (op : vop) (o o_spec : vout) : Prop :=
    match op, o with
    | VClosest x, VoClosest c => closest_ok s x c
    | VClosest _, _ => False
    | _, _ => o = o_spec
    end.

  (* all outputs of a run, judged against the set that evolves alongside *)
  Fixpoint vouts_ok (s : list key) (ops : list vop) (outs : list vout) : Prop :=
    match ops, outs with
    | [], [] => True
    | op :: t, o :: os => vout_ok s op o (snd (sstep s op)) /\ vouts_ok (fst (sstep s op)) t os
    | _, _ => False
    end.

  (* rank queries use unsigned arguments *)
  Definition vlegal (op : vop) : Prop := match op with VAt u => 0 <= u | _ => True end.
End Avl.

Arguments E {key}.  Arguments N {key}.
Arguments VCount {key}.  Arguments VForeach {key}.  Arguments VThread {key}.  Arguments VThreadRev {key}.
Arguments VEnds {key}.  Arguments VClear {key}.  Arguments VoUnit {key}.
