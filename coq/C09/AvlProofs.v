(* C09 - the AVL tree model refines a set kept as a strictly ascending list, for EVERY compare function that is a
   total order comparator and every balance decision the generated avl_check_balance may take. *)
From Coq Require Import ZArith List Bool Lia.
From ScV Require Import Base.CInt Gen.AvlBalance C09.HashModel C09.HashProofs C09.AvlModel.
Import ListNotations.
Local Open Scope Z_scope.

Section AvlProofs.
  Variable key : Type.
  Variable cmp : key -> key -> Z.
  (* the contract of avl_compare_t: a total order comparator *)
  Hypothesis cmp_antisym : forall a b, Z.sgn (cmp a b) = - Z.sgn (cmp b a).
  Hypothesis cmp_trans : forall a b c, cmp a b < 0 -> cmp b c < 0 -> cmp a c < 0.
  Hypothesis cmp_eq_l : forall a b c, cmp a b = 0 -> Z.sgn (cmp a c) = Z.sgn (cmp b c).

  Notation tree := (tree key).
  Notation cnt := (cnt key).
  Notation mk := (mk key).
  Notation rebal := (rebal key).
  Notation inorder := (inorder key).
  Notation ins := (ins key cmp).
  Notation del := (del key cmp).
  Notation remove_max := (remove_max key).
  Notation closest := (closest key cmp).
  Notation search := (search key cmp).
  Notation at_ := (at_ key).
  Notation index := (index key cmp).
  Notation sins := (sins key cmp).
  Notation sfind := (sfind key cmp).
  Notation sdel := (sdel key cmp).
  Notation sindex := (sindex key cmp).
  Notation is_eq := (is_eq key cmp).

  (* ---------- the order ---------- *)
  Lemma cmp_refl a : cmp a a = 0.
  Proof. pose proof (cmp_antisym a a). lia. Qed.

  Lemma cmp_gt_lt a b : 0 < cmp a b <-> cmp b a < 0.
  Proof. pose proof (cmp_antisym a b). lia. Qed.

  Lemma cmp_eq_sym a b : cmp a b = 0 -> cmp b a = 0.
  Proof. pose proof (cmp_antisym a b). lia. Qed.

  Lemma cmp_eq_r a b c : cmp a b = 0 -> Z.sgn (cmp c a) = Z.sgn (cmp c b).
  Proof.
    intros H. pose proof (cmp_antisym c a). pose proof (cmp_antisym c b). pose proof (cmp_eq_l a b c H). lia.
  Qed.

  Lemma cmp_lt_eq a b c : cmp a b < 0 -> cmp b c = 0 -> cmp a c < 0.
  Proof. intros H E. pose proof (cmp_eq_r b c a E). lia. Qed.

  Lemma cmp_eq_lt a b c : cmp a b = 0 -> cmp b c < 0 -> cmp a c < 0.
  Proof. intros E H. pose proof (cmp_eq_l a b c E). lia. Qed.

  Fixpoint sorted (l : list key) : Prop :=
    match l with [] => True | a :: t => (forall b, In b t -> cmp a b < 0) /\ sorted t end.

  Lemma sorted_app l1 l2 : sorted (l1 ++ l2) <->
    sorted l1 /\ sorted l2 /\ forall a b, In a l1 -> In b l2 -> cmp a b < 0.
  Proof.
    induction l1 as [|x t IH]; cbn [app sorted].
    - split; [intros H; repeat split; auto; intros a b []|tauto].
    - rewrite IH. split.
      + intros [H1 [H2 [H3 H4]]]. repeat split; auto.
        * intros b Hb. apply H1. apply in_or_app; auto.
        * intros a b [<-|Ha] Hb; [apply H1; apply in_or_app; auto|auto].
      + intros [[H1 H2] [H3 H4]]. repeat split; auto.
        * intros b Hb. apply in_app_or in Hb. destruct Hb; [auto|apply H4; simpl; auto].
        * intros a b Ha Hb. apply H4; simpl; auto.
  Qed.

  Definition gt_all (x : key) (l : list key) : Prop := forall a, In a l -> 0 < cmp x a.
  Definition lt_all (x : key) (l : list key) : Prop := forall b, In b l -> cmp x b < 0.

  Lemma sorted_mid l1 y l2 : sorted (l1 ++ y :: l2) ->
    sorted l1 /\ sorted l2 /\ (forall a, In a l1 -> cmp a y < 0) /\ lt_all y l2.
  Proof.
    intros H. apply sorted_app in H. destruct H as [H1 [[H2 H3] H4]]. repeat split; auto.
    intros a Ha. apply H4; simpl; auto.
  Qed.

  Lemma left_gt l1 y l2 x : sorted (l1 ++ y :: l2) -> 0 <= cmp x y -> gt_all x l1.
  Proof.
    intros H C a Ha. destruct (sorted_mid _ _ _ H) as [_ [_ [H3 _]]]. specialize (H3 a Ha).
    apply cmp_gt_lt. destruct (Z.eq_dec (cmp x y) 0) as [E|E].
    - apply cmp_eq_sym in E. eapply cmp_lt_eq; eauto.
    - eapply cmp_trans; [exact H3|]. apply cmp_gt_lt. lia.
  Qed.

  Lemma right_lt l1 y l2 x : sorted (l1 ++ y :: l2) -> cmp x y <= 0 -> lt_all x l2.
  Proof.
    intros H C b Hb. destruct (sorted_mid _ _ _ H) as [_ [_ [_ H4]]]. specialize (H4 b Hb).
    destruct (Z.eq_dec (cmp x y) 0) as [E|E].
    - eapply cmp_eq_lt; eauto.
    - eapply cmp_trans; [|exact H4]. lia.
  Qed.

  Lemma gt_all_not_eq x l : gt_all x l -> forall a, In a l -> is_eq x a = false.
  Proof. intros H a Ha. unfold AvlModel.is_eq. specialize (H a Ha). apply Z.eqb_neq. lia. Qed.

  Lemma lt_all_not_eq x l : lt_all x l -> forall a, In a l -> is_eq x a = false.
  Proof. intros H a Ha. unfold AvlModel.is_eq. specialize (H a Ha). apply Z.eqb_neq. lia. Qed.

  (* ---------- list operations of the set under gt_all / lt_all ---------- *)
  Lemma sins_gt l1 l x : gt_all x l1 -> sins (l1 ++ l) x = l1 ++ sins l x.
  Proof.
    induction l1 as [|a t IH]; intros H; cbn [app AvlModel.sins]; auto.
    pose proof (H a (or_introl eq_refl)) as Ha.
    destruct (cmp x a <? 0) eqn:E1; [apply Z.ltb_lt in E1; lia|].
    destruct (0 <? cmp x a) eqn:E2; [|apply Z.ltb_ge in E2; lia].
    f_equal. apply IH. intros b Hb. apply H; right; auto.
  Qed.

  Lemma sins_lt l1 y l2 x : cmp x y < 0 -> sins (l1 ++ y :: l2) x = sins l1 x ++ y :: l2.
  Proof.
    intros C. induction l1 as [|a t IH]; cbn [app AvlModel.sins].
    - destruct (cmp x y <? 0) eqn:E1; [reflexivity|apply Z.ltb_ge in E1; lia].
    - destruct (cmp x a <? 0); [reflexivity|]. destruct (0 <? cmp x a); [|reflexivity].
      cbn [app]. f_equal. exact IH.
  Qed.

  Lemma sins_lt_all l x : lt_all x l -> sins l x = x :: l.
  Proof.
    destruct l as [|b t]; intros H; cbn [AvlModel.sins]; auto.
    pose proof (H b (or_introl eq_refl)) as Hb. destruct (cmp x b <? 0) eqn:E; auto. apply Z.ltb_ge in E; lia.
  Qed.

  Lemma sins_in l x b : In b (sins l x) -> b = x \/ In b l.
  Proof.
    induction l as [|a t IH]; cbn [AvlModel.sins].
    - intros [<-|[]]; auto.
    - destruct (cmp x a <? 0); [intros [<-|H]; auto|].
      destruct (0 <? cmp x a); [|auto].
      intros [<-|H]; [right; left; auto|]. destruct (IH H); auto. right; right; auto.
  Qed.

  Lemma sorted_sins l x : sorted l -> sorted (sins l x).
  Proof.
    induction l as [|a t IH]; intros H; cbn [AvlModel.sins sorted]; auto.
    - split; auto. intros b [].
    - destruct H as [H1 H2].
      destruct (cmp x a <? 0) eqn:E1.
      + apply Z.ltb_lt in E1. cbn [sorted]. repeat split; auto.
        intros b [<-|Hb]; auto. eapply cmp_trans; eauto.
      + destruct (0 <? cmp x a) eqn:E2; [|cbn [sorted]; auto].
        apply Z.ltb_lt in E2. cbn [sorted]. split; [|auto].
        intros b Hb. apply sins_in in Hb. destruct Hb as [->|Hb]; [apply cmp_gt_lt; auto|auto].
  Qed.

  Lemma find_app_skip {A} (p : A -> bool) l1 l : (forall a, In a l1 -> p a = false) -> find p (l1 ++ l) = find p l.
  Proof.
    induction l1 as [|a t IH]; intros H; cbn [app find]; auto.
    rewrite (H a (or_introl eq_refl)). apply IH. intros b Hb. apply H; right; auto.
  Qed.

  Lemma find_app_stop {A} (p : A -> bool) l1 l : (forall a, In a l -> p a = false) -> find p (l1 ++ l) = find p l1.
  Proof.
    intros H. induction l1 as [|a t IH]; cbn [app find].
    - apply find_none_iff. exact H.
    - destruct (p a); auto.
  Qed.

  Lemma remove_first_skip {A} (p : A -> bool) l1 l : (forall a, In a l1 -> p a = false) ->
    remove_first p (l1 ++ l) = l1 ++ remove_first p l.
  Proof.
    induction l1 as [|a t IH]; intros H; cbn [app remove_first]; auto.
    rewrite (H a (or_introl eq_refl)). f_equal. apply IH. intros b Hb. apply H; right; auto.
  Qed.

  Lemma remove_first_none {A} (p : A -> bool) l : (forall a, In a l -> p a = false) -> remove_first p l = l.
  Proof.
    induction l as [|a t IH]; intros H; cbn [remove_first]; auto.
    rewrite (H a (or_introl eq_refl)). f_equal. apply IH. intros b Hb. apply H; right; auto.
  Qed.

  Lemma remove_first_stop {A} (p : A -> bool) l1 l : (forall a, In a l -> p a = false) ->
    remove_first p (l1 ++ l) = remove_first p l1 ++ l.
  Proof.
    intros H. induction l1 as [|a t IH]; cbn [app remove_first].
    - apply remove_first_none; auto.
    - destruct (p a); auto. cbn [app]. f_equal. exact IH.
  Qed.

  Lemma remove_first_ext {A} (p q : A -> bool) l : (forall a, In a l -> p a = q a) -> remove_first p l = remove_first q l.
  Proof.
    induction l as [|a t IH]; intros H; cbn [remove_first]; auto.
    rewrite (H a (or_introl eq_refl)). destruct (q a); auto. f_equal. apply IH. intros b Hb. apply H; right; auto.
  Qed.

  Lemma sindex_skip l1 l x i : (forall a, In a l1 -> is_eq x a = false) ->
    sindex (l1 ++ l) x i = sindex l x (i + Z.of_nat (length l1)).
  Proof.
    revert i. induction l1 as [|a t IH]; intros i H; cbn [app AvlModel.sindex length].
    - f_equal. lia.
    - rewrite (H a (or_introl eq_refl)). rewrite IH by (intros b Hb; apply H; right; auto). f_equal. lia.
  Qed.

  Lemma sindex_none l x i : (forall a, In a l -> is_eq x a = false) -> sindex l x i = None.
  Proof.
    revert i. induction l as [|a t IH]; intros i H; cbn [AvlModel.sindex]; auto.
    rewrite (H a (or_introl eq_refl)). apply IH. intros b Hb. apply H; right; auto.
  Qed.

  Lemma sindex_stop l1 l x i : (forall a, In a l -> is_eq x a = false) -> sindex (l1 ++ l) x i = sindex l1 x i.
  Proof.
    intros H. revert i. induction l1 as [|a t IH]; intros i; cbn [app AvlModel.sindex].
    - apply sindex_none; auto.
    - destruct (is_eq x a); auto.
  Qed.

  Lemma sorted_remove_first (p : key -> bool) l : sorted l -> sorted (remove_first p l).
  Proof.
    induction l as [|a t IH]; intros H; cbn [remove_first]; auto.
    destruct H as [H1 H2]. destruct (p a); auto. cbn [sorted]. split; auto.
    intros b Hb. apply H1. clear - Hb. induction t as [|c u IHu]; cbn [remove_first] in Hb; auto.
    destruct (p c); [right; auto|]. destruct Hb as [<-|Hb]; [left; auto|right; auto].
  Qed.

  (* ---------- rotations keep the in-order sequence and the counts exact, whatever the balance decision ---------- *)
  Lemma inorder_mk l x r : inorder (mk l x r) = inorder l ++ x :: inorder r.
  Proof. reflexivity. Qed.

  Lemma inorder_rebal l x r : inorder (rebal l x r) = inorder l ++ x :: inorder r.
  Proof using. clear cmp_antisym cmp_trans cmp_eq_l; clear cmp.
    unfold AvlModel.rebal. destruct (balance key l r =? -1).
    - destruct l as [|ll y c lr]; [reflexivity|].
      destruct (cnt lr <=? cnt ll).
      + cbn [AvlModel.inorder AvlModel.mk]. rewrite <- app_assoc. reflexivity.
      + destruct lr as [|lrl z c2 lrr]; [reflexivity|].
        cbn [AvlModel.inorder AvlModel.mk]. rewrite <- ?app_assoc. cbn [app]. rewrite <- ?app_assoc. reflexivity.
    - destruct (balance key l r =? 1); [|reflexivity].
      destruct r as [|rl y c rr]; [reflexivity|].
      destruct (cnt rl <=? cnt rr).
      + cbn [AvlModel.inorder AvlModel.mk]. rewrite <- app_assoc. reflexivity.
      + destruct rl as [|rll z c2 rlr]; [reflexivity|].
        cbn [AvlModel.inorder AvlModel.mk]. rewrite <- ?app_assoc. cbn [app]. rewrite <- ?app_assoc. reflexivity.
  Qed.

  (* every stored count is the size of its subtree *)
  Fixpoint wfc (t : tree) : Prop :=
    match t with E => True | N l _ c r => c = cnt l + cnt r + 1 /\ wfc l /\ wfc r end.

  Lemma wfc_mk l x r : wfc l -> wfc r -> wfc (mk l x r).
  Proof using. clear cmp_antisym cmp_trans cmp_eq_l; clear cmp. intros; cbn; auto. Qed.

  Lemma cnt_size t : wfc t -> cnt t = Z.of_nat (length (inorder t)).
  Proof using. clear cmp_antisym cmp_trans cmp_eq_l; clear cmp.
    induction t as [|l IHl x c r IHr]; cbn [wfc AvlModel.cnt AvlModel.inorder]; auto.
    intros [-> [Hl Hr]]. rewrite app_length. cbn [length]. rewrite IHl, IHr by auto. lia.
  Qed.

  Lemma cnt_nonneg t : wfc t -> 0 <= cnt t.
  Proof using. clear cmp_antisym cmp_trans cmp_eq_l; clear cmp. intros H. rewrite cnt_size by auto. lia. Qed.

  Lemma wfc_rebal l x r : wfc l -> wfc r -> wfc (rebal l x r).
  Proof using. clear cmp_antisym cmp_trans cmp_eq_l; clear cmp.
    intros Hl Hr. unfold AvlModel.rebal. destruct (balance key l r =? -1).
    - destruct l as [|ll y c lr]; [apply wfc_mk; auto|]. pose proof Hl as [_ [H1 H2]].
      destruct (cnt lr <=? cnt ll); [repeat apply wfc_mk; auto|].
      destruct lr as [|lrl z c2 lrr]; [apply wfc_mk; auto|]. destruct H2 as [_ [H3 H4]].
      repeat apply wfc_mk; auto.
    - destruct (balance key l r =? 1); [|apply wfc_mk; auto].
      destruct r as [|rl y c rr]; [apply wfc_mk; auto|]. pose proof Hr as [_ [H1 H2]].
      destruct (cnt rl <=? cnt rr); [repeat apply wfc_mk; auto|].
      destruct rl as [|rll z c2 rlr]; [apply wfc_mk; auto|]. destruct H1 as [_ [H3 H4]].
      repeat apply wfc_mk; auto.
  Qed.

  (* ---------- the generated balance decision never sends a rotation through a NULL child ---------- *)
  (* written to survive edits of the thresholds that keep the property: only the shape "a rotation to the right needs
     lg(L_COUNT) above a positive bound, a rotation to the left needs a non-zero R_COUNT" is used *)
  Lemma decision_left_nonempty r : avl_balance_decision (avl_lg 0) r <> -1.
  Proof using. clear cmp_antisym cmp_trans cmp_eq_l; clear cmp.
    unfold avl_balance_decision. change (avl_lg 0) with 0.
    repeat match goal with |- context [if ?b then _ else _] => destruct b eqn:? end; try discriminate.
    all: try (exfalso; cbn in *; discriminate).
  Qed.

  Lemma decision_right_nonempty pl : avl_balance_decision pl 0 <> 1.
  Proof using. clear cmp_antisym cmp_trans cmp_eq_l; clear cmp.
    unfold avl_balance_decision. unfold shr. rewrite !Zdiv_0_l. cbn [z2b Z.eqb negb].
    repeat match goal with |- context [if ?b then _ else _] => destruct b eqn:? end; discriminate.
  Qed.

  Theorem rebal_never_stuck l r : wfc l -> wfc r -> rebal_stuck key l r = false.
  Proof using. clear cmp_antisym cmp_trans cmp_eq_l; clear cmp.
    intros Hl Hr. unfold rebal_stuck, balance.
    destruct (avl_balance_decision (avl_lg (cnt l)) (cnt r) =? -1) eqn:D1.
    - apply Z.eqb_eq in D1. destruct l as [|ll y c lr]; [exfalso; revert D1; apply decision_left_nonempty|].
      destruct (cnt lr <=? cnt ll) eqn:C; auto. destruct lr; auto.
      apply Z.leb_gt in C. destruct Hl as [_ [H1 _]]. pose proof (cnt_nonneg ll H1). cbn in C. lia.
    - destruct (avl_balance_decision (avl_lg (cnt l)) (cnt r) =? 1) eqn:D2; auto.
      apply Z.eqb_eq in D2. destruct r as [|rl y c rr]; [exfalso; revert D2; apply decision_right_nonempty|].
      destruct (cnt rl <=? cnt rr) eqn:C; auto. destruct rl; auto.
      apply Z.leb_gt in C. destruct Hr as [_ [_ H2]]. pose proof (cnt_nonneg rr H2). cbn in C. lia.
  Qed.

  (* ---------- insertion ---------- *)
  Lemma ins_inorder t x : sorted (inorder t) -> inorder (ins t x) = sins (inorder t) x.
  Proof.
    induction t as [|l IHl y c r IHr]; intros S; cbn [AvlModel.ins AvlModel.inorder]; auto.
    cbn [AvlModel.inorder] in S. destruct (sorted_mid _ _ _ S) as [Sl [Sr _]].
    destruct (cmp x y <? 0) eqn:E1.
    - apply Z.ltb_lt in E1. rewrite inorder_rebal, IHl by auto. symmetry. apply sins_lt; auto.
    - apply Z.ltb_ge in E1. pose proof (left_gt _ _ _ x S E1) as G.
      destruct (0 <? cmp x y) eqn:E2.
      + rewrite inorder_rebal, IHr by auto. rewrite sins_gt by auto. cbn [AvlModel.sins].
        rewrite E2. replace (cmp x y <? 0) with false by (symmetry; apply Z.ltb_ge; lia). reflexivity.
      + cbn [AvlModel.inorder]. rewrite sins_gt by auto. cbn [AvlModel.sins].
        rewrite E2. replace (cmp x y <? 0) with false by (symmetry; apply Z.ltb_ge; lia). reflexivity.
  Qed.

  Lemma wfc_ins t x : wfc t -> wfc (ins t x).
  Proof.
    induction t as [|l IHl y c r IHr]; intros H; cbn [AvlModel.ins].
    - cbn. auto.
    - pose proof H as [_ [Hl Hr]]. destruct (cmp x y <? 0); [apply wfc_rebal; auto|].
      destruct (0 <? cmp x y); [apply wfc_rebal; auto|auto].
  Qed.

  (* ---------- deletion ---------- *)
  Lemma remove_max_spec t : match remove_max t with
                            | None => t = E
                            | Some (t', m) => inorder t = inorder t' ++ [m] /\ (wfc t -> wfc t')
                            end.
  Proof.
    induction t as [|l IHl y c r IHr]; cbn [AvlModel.remove_max]; auto.
    destruct (remove_max r) as [[r' m]|].
    - destruct IHr as [I W]. cbn [AvlModel.inorder]. rewrite inorder_rebal, I. split.
      + rewrite <- app_assoc. reflexivity.
      + intros [_ [Hl Hr]]. apply wfc_rebal; auto.
    - subst r. cbn [AvlModel.inorder]. split; auto. intros [_ [Hl _]]; auto.
  Qed.

  Lemma del_inorder t x : sorted (inorder t) -> inorder (del t x) = sdel (inorder t) x.
  Proof.
    induction t as [|l IHl y c r IHr]; intros S; cbn [AvlModel.del AvlModel.inorder]; auto.
    cbn [AvlModel.inorder] in S. destruct (sorted_mid _ _ _ S) as [Sl [Sr _]].
    unfold AvlModel.sdel in *.
    destruct (cmp x y <? 0) eqn:E1.
    - apply Z.ltb_lt in E1. rewrite inorder_rebal, IHl by auto. symmetry. apply remove_first_stop.
      assert (L : lt_all x (y :: inorder r)).
      { intros b [<-|Hb]; auto. apply (right_lt _ _ _ x S); auto. lia. }
      apply lt_all_not_eq; auto.
    - apply Z.ltb_ge in E1. pose proof (left_gt _ _ _ x S E1) as G.
      rewrite remove_first_skip by (apply gt_all_not_eq; auto). cbn [remove_first]. unfold AvlModel.is_eq at 1.
      destruct (0 <? cmp x y) eqn:E2.
      + apply Z.ltb_lt in E2. replace (cmp x y =? 0) with false by (symmetry; apply Z.eqb_neq; lia).
        rewrite inorder_rebal, IHr by auto. reflexivity.
      + apply Z.ltb_ge in E2. replace (cmp x y =? 0) with true by (symmetry; apply Z.eqb_eq; lia).
        destruct l as [|ll ly lc lr]; [reflexivity|].
        destruct r as [|rl ry rc rr]; [cbn [AvlModel.inorder]; rewrite app_nil_r; reflexivity|].
        pose proof (remove_max_spec (N ll ly lc lr)) as RM.
        destruct (remove_max (N ll ly lc lr)) as [[l' m]|]; [|discriminate RM].
        destruct RM as [I _]. rewrite inorder_rebal, I. rewrite <- app_assoc. reflexivity.
  Qed.

  Lemma wfc_del t x : wfc t -> wfc (del t x).
  Proof.
    induction t as [|l IHl y c r IHr]; intros H; cbn [AvlModel.del]; auto.
    pose proof H as [_ [Hl Hr]]. destruct (cmp x y <? 0); [apply wfc_rebal; auto|].
    destruct (0 <? cmp x y); [apply wfc_rebal; auto|].
    destruct l as [|ll ly lc lr]; auto. destruct r as [|rl ry rc rr]; auto.
    pose proof (remove_max_spec (N ll ly lc lr)) as RM.
    destruct (remove_max (N ll ly lc lr)) as [[l' m]|]; auto.
    destruct RM as [_ W]. apply wfc_rebal; auto.
  Qed.

  (* ---------- search ---------- *)
  Lemma search_node l y c r x :
    search (N l y c r) x = if cmp x y <? 0 then search l x else if 0 <? cmp x y then search r x else Some y.
  Proof.
    unfold AvlModel.search. cbn [AvlModel.closest].
    destruct (cmp x y <? 0); [destruct l; reflexivity|]. destruct (0 <? cmp x y); [destruct r; reflexivity|reflexivity].
  Qed.

  Lemma search_spec t x : sorted (inorder t) -> search t x = sfind (inorder t) x.
  Proof.
    induction t as [|l IHl y c r IHr]; intros S; [reflexivity|].
    rewrite search_node. cbn [AvlModel.inorder] in *. destruct (sorted_mid _ _ _ S) as [Sl [Sr _]].
    unfold AvlModel.sfind in *.
    destruct (cmp x y <? 0) eqn:E1.
    - apply Z.ltb_lt in E1. rewrite IHl by auto. symmetry. apply find_app_stop.
      assert (L : lt_all x (y :: inorder r)).
      { intros b [<-|Hb]; auto. apply (right_lt _ _ _ x S); auto. lia. }
      apply lt_all_not_eq; auto.
    - apply Z.ltb_ge in E1. pose proof (left_gt _ _ _ x S E1) as G.
      rewrite find_app_skip by (apply gt_all_not_eq; auto). cbn [find]. unfold AvlModel.is_eq at 1.
      destruct (0 <? cmp x y) eqn:E2.
      + apply Z.ltb_lt in E2. replace (cmp x y =? 0) with false by (symmetry; apply Z.eqb_neq; lia). auto.
      + apply Z.ltb_ge in E2. replace (cmp x y =? 0) with true by (symmetry; apply Z.eqb_eq; lia). reflexivity.
  Qed.

  Lemma closest_nonempty t x : t <> E -> closest t x <> None.
  Proof.
    induction t as [|l IHl y c r IHr]; intros H; [congruence|]. cbn [AvlModel.closest].
    destruct (cmp x y <? 0).
    - destruct l; [discriminate|apply IHl; discriminate].
    - destruct (0 <? cmp x y); [|discriminate]. destruct r; [discriminate|apply IHr; discriminate].
  Qed.

  Lemma closest_spec t x : sorted (inorder t) -> closest_ok key cmp (inorder t) x (closest t x).
  Proof.
    induction t as [|l IHl y c r IHr]; intros S; [reflexivity|].
    cbn [AvlModel.inorder] in *. destruct (sorted_mid _ _ _ S) as [Sl [Sr [Hl Hr]]].
    cbn [AvlModel.closest].
    destruct (cmp x y <? 0) eqn:E1.
    - apply Z.ltb_lt in E1. destruct l as [|ll ly lc lr].
      + exists [], (inorder r). split; [reflexivity|]. right; left. repeat split; auto. intros a [].
      + specialize (IHl Sl). pose proof (closest_nonempty (N ll ly lc lr) x ltac:(discriminate)) as NE.
        destruct (closest (N ll ly lc lr) x) as [[y' sg]|]; [|congruence].
        destruct IHl as [l1 [l2 [EQ Hc]]]. exists l1, (l2 ++ y :: inorder r). split.
        { rewrite EQ. rewrite <- app_assoc. reflexivity. }
        destruct Hc as [Hc|[Hc|[Hs [Hc Ha]]]]; [left; auto|right; left; auto|].
        right; right. repeat split; auto. intros b Hb. apply in_app_or in Hb.
        destruct Hb as [Hb|[<-|Hb]]; auto. eapply cmp_trans; [exact E1|]. apply Hr; auto.
    - apply Z.ltb_ge in E1. destruct (0 <? cmp x y) eqn:E2.
      + apply Z.ltb_lt in E2. destruct r as [|rl ry rc rr].
        * exists (inorder l), []. split; [reflexivity|]. right; right. repeat split; auto. intros b [].
        * specialize (IHr Sr). pose proof (closest_nonempty (N rl ry rc rr) x ltac:(discriminate)) as NE.
          destruct (closest (N rl ry rc rr) x) as [[y' sg]|]; [|congruence].
          destruct IHr as [l1 [l2 [EQ Hc]]]. exists (inorder l ++ y :: l1), l2. split.
          { rewrite EQ. rewrite <- app_assoc. reflexivity. }
          destruct Hc as [Hc|[[Hs [Hc Ha]]|Hc]]; [left; auto| |right; right; auto].
          right; left. repeat split; auto. intros a Hin. apply in_app_or in Hin.
          assert (Hyx : cmp y x < 0) by (apply cmp_gt_lt; auto).
          destruct Hin as [Hin|[<-|Hin]]; auto. eapply cmp_trans; [apply Hl; exact Hin|exact Hyx].
      + apply Z.ltb_ge in E2. exists (inorder l), (inorder r). split; [reflexivity|]. left. split; auto. lia.
  Qed.

  (* ---------- rank queries ---------- *)
  Lemma at_spec t : wfc t -> forall u, at_ t u = if u <? 0 then None else nth_error (inorder t) (Z.to_nat u).
  Proof.
    induction t as [|l IHl y c r IHr]; intros W u; cbn [AvlModel.at_ AvlModel.inorder].
    - destruct (u <? 0); auto. destruct (Z.to_nat u); reflexivity.
    - destruct W as [_ [Wl Wr]]. pose proof (cnt_size l Wl) as Cl. 
      destruct (u <? cnt l) eqn:E1.
      + apply Z.ltb_lt in E1. rewrite IHl by auto. destruct (u <? 0) eqn:E0; auto. apply Z.ltb_ge in E0.
        rewrite nth_error_app1 by lia. reflexivity.
      + apply Z.ltb_ge in E1. replace (u <? 0) with false by (symmetry; apply Z.ltb_ge; pose proof (cnt_nonneg l Wl); lia).
        destruct (cnt l <? u) eqn:E2.
        * apply Z.ltb_lt in E2. rewrite IHr by auto.
          replace (u - (cnt l + 1) <? 0) with false by (symmetry; apply Z.ltb_ge; lia).
          rewrite nth_error_app2 by lia.
          replace (Z.to_nat u - length (inorder l))%nat with (S (Z.to_nat (u - (cnt l + 1)))) by lia. reflexivity.
        * apply Z.ltb_ge in E2. rewrite nth_error_app2 by lia.
          replace (Z.to_nat u - length (inorder l))%nat with 0%nat by lia. reflexivity.
  Qed.

  Lemma index_spec t : wfc t -> sorted (inorder t) -> forall x acc, index t x acc = sindex (inorder t) x acc.
  Proof.
    induction t as [|l IHl y c r IHr]; intros W S x acc; [reflexivity|].
    cbn [AvlModel.index AvlModel.inorder] in *. destruct W as [_ [Wl Wr]].
    destruct (sorted_mid _ _ _ S) as [Sl [Sr _]]. pose proof (cnt_size l Wl) as Cl.
    destruct (cmp x y <? 0) eqn:E1.
    - apply Z.ltb_lt in E1. rewrite IHl by auto. symmetry. apply sindex_stop.
      assert (L : lt_all x (y :: inorder r)).
      { intros b [<-|Hb]; auto. apply (right_lt _ _ _ x S); auto. lia. }
      apply lt_all_not_eq; auto.
    - apply Z.ltb_ge in E1. pose proof (left_gt _ _ _ x S E1) as G.
      rewrite sindex_skip by (apply gt_all_not_eq; auto). cbn [AvlModel.sindex]. unfold AvlModel.is_eq at 1.
      destruct (0 <? cmp x y) eqn:E2.
      + apply Z.ltb_lt in E2. replace (cmp x y =? 0) with false by (symmetry; apply Z.eqb_neq; lia).
        rewrite IHr by auto. f_equal. lia.
      + apply Z.ltb_ge in E2. replace (cmp x y =? 0) with true by (symmetry; apply Z.eqb_eq; lia). f_equal. lia.
  Qed.

  (* ---------- the prev/next list ---------- *)
  Lemma th_before_spec l1 y l2 x : (forall a, In a l1 -> cmp a y <> 0) ->
    th_before key cmp (l1 ++ y :: l2) y x = l1 ++ x :: y :: l2.
  Proof.
    induction l1 as [|a t IH]; intros H; cbn [app th_before].
    - rewrite cmp_refl. reflexivity.
    - pose proof (H a (or_introl eq_refl)) as Ha. replace (cmp a y =? 0) with false by (symmetry; apply Z.eqb_neq; auto).
      f_equal. apply IH. intros b Hb. apply H; right; auto.
  Qed.

  Lemma th_after_spec l1 y l2 x : (forall a, In a l1 -> cmp a y <> 0) ->
    th_after key cmp (l1 ++ y :: l2) y x = l1 ++ y :: x :: l2.
  Proof.
    induction l1 as [|a t IH]; intros H; cbn [app th_after].
    - rewrite cmp_refl. reflexivity.
    - pose proof (H a (or_introl eq_refl)) as Ha. replace (cmp a y =? 0) with false by (symmetry; apply Z.eqb_neq; auto).
      f_equal. apply IH. intros b Hb. apply H; right; auto.
  Qed.

  (* ---------- the refinement ---------- *)
  Definition Inv (st : avl key) (s : list key) : Prop :=
    inorder (a_top key st) = s /\ a_thread key st = s /\ sorted s /\ wfc (a_top key st).

  Lemma insert_inv st s x : Inv st s ->
    Inv (fst (avl_insert key cmp st x)) (fst (sstep key cmp s (VInsert key x))) /\
    VoBool key (snd (avl_insert key cmp st x)) = snd (sstep key cmp s (VInsert key x)).
  Proof.
    intros [I [T [S W]]]. unfold avl_insert. cbn [sstep].
    pose proof (closest_spec (a_top key st) x) as CS. rewrite I in CS. specialize (CS S).
    pose proof (search_spec (a_top key st) x) as SS. rewrite I in SS. specialize (SS S).
    unfold AvlModel.search in SS.
    destruct (closest (a_top key st) x) as [[y sg]|].
    - destruct CS as [l1 [l2 [EQ Hc]]].
      destruct (sg =? 0) eqn:E0.
      + rewrite <- SS. cbn [fst snd]. split; [repeat split; auto|reflexivity].
      + rewrite <- SS. cbn [fst snd]. split; [|reflexivity].
        apply Z.eqb_neq in E0.
        assert (Srt : sorted (l1 ++ y :: l2)) by (rewrite <- EQ; exact S).
        destruct (sorted_mid _ _ _ Srt) as [_ [_ [Hl1 Hl2]]].
        assert (NE : forall a, In a l1 -> cmp a y <> 0) by (intros a Ha; specialize (Hl1 a Ha); lia).
        assert (SI : sins s x = if sg <? 0 then l1 ++ x :: y :: l2 else l1 ++ y :: x :: l2).
        { destruct Hc as [[Hs _]|[[Hs [Hc Ha]]|[Hs [Hc Hb]]]]; [lia| |]; subst sg; cbn [Z.ltb Z.compare]; rewrite EQ.
          - rewrite sins_gt by (intros a Hin; apply cmp_gt_lt; auto). cbn [AvlModel.sins].
            replace (cmp x y <? 0) with true by (symmetry; apply Z.ltb_lt; auto). reflexivity.
          - rewrite sins_gt by (apply (left_gt _ _ _ x Srt); lia). cbn [AvlModel.sins].
            replace (cmp x y <? 0) with false by (symmetry; apply Z.ltb_ge; lia).
            replace (0 <? cmp x y) with true by (symmetry; apply Z.ltb_lt; lia).
            rewrite sins_lt_all by exact Hb. reflexivity. }
        repeat split; cbn [a_top a_thread].
        * rewrite ins_inorder by (rewrite I; auto). rewrite I. reflexivity.
        * rewrite T, SI. rewrite EQ. destruct (sg <? 0); [apply th_before_spec|apply th_after_spec]; auto.
        * apply sorted_sins; auto.
        * apply wfc_ins; auto.
    - cbn in CS. rewrite CS. cbn [fst snd AvlModel.sfind find AvlModel.sins]. split; [|reflexivity].
      repeat split; cbn; auto. intros b [].
  Qed.

  Lemma delete_inv st s x : Inv st s ->
    Inv (fst (avl_delete key cmp st x)) (fst (sstep key cmp s (VDelete key x))) /\
    VoItem key (snd (avl_delete key cmp st x)) = snd (sstep key cmp s (VDelete key x)).
  Proof.
    intros [I [T [S W]]]. unfold avl_delete. cbn [sstep].
    pose proof (search_spec (a_top key st) x) as SS. rewrite I in SS. specialize (SS S). rewrite SS.
    destruct (sfind s x) as [y|] eqn:F; cbn [fst snd]; [|split; [repeat split; auto|reflexivity]].
    split; [|reflexivity]. unfold AvlModel.sfind in F. apply find_some in F. destruct F as [_ Exy].
    unfold AvlModel.is_eq in Exy. apply Z.eqb_eq in Exy.
    repeat split; cbn [a_top a_thread].
    - rewrite del_inorder by (rewrite I; auto). rewrite I. reflexivity.
    - rewrite T. unfold AvlModel.sdel. apply remove_first_ext. intros a _. unfold AvlModel.is_eq.
      pose proof (cmp_eq_l x y a Exy). pose proof (cmp_antisym a y).
      destruct (Z.eqb_spec (cmp a y) 0), (Z.eqb_spec (cmp x a) 0); auto; lia.
    - apply sorted_remove_first; auto.
    - apply wfc_del; auto.
  Qed.

  Lemma step_inv st s op : Inv st s ->
    Inv (fst (vstep key cmp st op)) (fst (sstep key cmp s op)) /\
    vout_ok key cmp s op (snd (vstep key cmp st op)) (snd (sstep key cmp s op)).
  Proof.
    intros HI. pose proof HI as [I [T [S W]]].
    destruct op as [x|x|x|x|u|x| | | | | |]; cbn [vstep].
    - destruct (insert_inv st s x HI) as [A B]. destruct (avl_insert key cmp st x) as [st' b]. cbn [fst snd] in *. split; auto.
    - destruct (delete_inv st s x HI) as [A B]. destruct (avl_delete key cmp st x) as [st' b]. cbn [fst snd] in *. split; auto.
    - cbn [sstep fst snd vout_ok]. split; auto. rewrite search_spec by (rewrite I; auto). rewrite I. reflexivity.
    - cbn [sstep fst snd vout_ok]. split; auto. rewrite <- I. apply closest_spec. rewrite I; auto.
    - cbn [sstep fst snd vout_ok]. split; auto. rewrite at_spec by auto. rewrite I. reflexivity.
    - cbn [sstep fst snd vout_ok]. split; auto. rewrite index_spec by (auto; rewrite I; auto). rewrite I. reflexivity.
    - cbn [sstep fst snd vout_ok]. split; auto. rewrite cnt_size by auto. rewrite I. reflexivity.
    - cbn [sstep fst snd vout_ok]. split; auto. rewrite I. reflexivity.
    - cbn [sstep fst snd vout_ok]. split; auto. rewrite T. reflexivity.
    - cbn [sstep fst snd vout_ok]. split; auto. rewrite T. reflexivity.
    - cbn [sstep fst snd vout_ok]. split; auto. rewrite T. reflexivity.
    - cbn [sstep fst snd vout_ok]. split; auto. repeat split; cbn; auto.
  Qed.

  Lemma run_inv ops : forall st s, Inv st s ->
    Inv (fst (vrun_from key cmp st ops)) (fst (srun_from key cmp s ops)) /\
    vouts_ok key cmp s ops (snd (vrun_from key cmp st ops)).
  Proof.
    induction ops as [|op t IH]; intros st s HI; cbn [vrun_from srun_from vouts_ok].
    - cbn. auto.
    - destruct (step_inv st s op HI) as [A B].
      destruct (vstep key cmp st op) as [st1 o]. destruct (sstep key cmp s op) as [s1 o'] eqn:ES. cbn [fst snd] in *.
      destruct (IH st1 s1 A) as [A2 B2].
      destruct (vrun_from key cmp st1 t) as [st2 os]. destruct (srun_from key cmp s1 t) as [s2 os'].
      cbn [fst snd vouts_ok] in *. split; auto.
  Qed.

  (* the theorem of the property *)
  Theorem avl_refines ops :
    let '(st, outs) := vrun_from key cmp (avl_new key) ops in
    let '(s, souts) := srun_from key cmp [] ops in
    inorder (a_top key st) = s /\ a_thread key st = s /\ sorted s /\ wfc (a_top key st) /\
    cnt (a_top key st) = Z.of_nat (length s) /\ vouts_ok key cmp [] ops outs.
  Proof.
    assert (I0 : Inv (avl_new key) []) by (repeat split; cbn; auto).
    destruct (run_inv ops _ _ I0) as [[I [T [S W]]] O].
    destruct (vrun_from key cmp (avl_new key) ops) as [st outs].
    destruct (srun_from key cmp [] ops) as [s souts]. cbn [fst snd] in *.
    repeat split; auto. rewrite cnt_size by auto. rewrite I. reflexivity.
  Qed.

  (* ---------- avl_at and avl_index are inverse rank queries ---------- *)
  Lemma nth_sindex s : sorted s -> forall n y i, nth_error s n = Some y -> sindex s y i = Some (i + Z.of_nat n).
  Proof.
    induction s as [|a t IH]; intros S n y i H; [destruct n; discriminate|].
    destruct S as [S1 S2]. cbn [AvlModel.sindex]. unfold AvlModel.is_eq at 1. destruct n as [|m]; cbn [nth_error] in H.
    - inversion H; subst. rewrite cmp_refl. cbn. f_equal. lia.
    - pose proof (S1 y (nth_error_In _ _ H)) as L. apply cmp_gt_lt in L.
      replace (cmp y a =? 0) with false by (symmetry; apply Z.eqb_neq; lia).
      rewrite (IH S2 m y (i + 1) H). f_equal. lia.
  Qed.

  Lemma sindex_nth s x : forall k i, sindex s x k = Some i ->
    k <= i /\ exists y, nth_error s (Z.to_nat (i - k)) = Some y /\ cmp x y = 0.
  Proof.
    induction s as [|a t IH]; intros k i H; [discriminate|]. cbn [AvlModel.sindex] in H.
    destruct (is_eq x a) eqn:E.
    - inversion H; subst. split; [lia|]. exists a. rewrite Z.sub_diag. split; [reflexivity|].
      unfold AvlModel.is_eq in E. apply Z.eqb_eq in E. exact E.
    - destruct (IH _ _ H) as [L [y [N C]]]. split; [lia|]. exists y. split; auto.
      replace (Z.to_nat (i - k)) with (S (Z.to_nat (i - (k + 1)))) by lia. exact N.
  Qed.

  Theorem at_index t u y : wfc t -> sorted (inorder t) -> at_ t u = Some y -> index t y 0 = Some u.
  Proof.
    intros W S H. rewrite at_spec in H by auto. destruct (u <? 0) eqn:E; [discriminate|]. apply Z.ltb_ge in E.
    rewrite index_spec by auto. rewrite (nth_sindex _ S _ _ 0 H). f_equal. lia.
  Qed.

  Theorem index_at t x i : wfc t -> sorted (inorder t) -> index t x 0 = Some i ->
    exists y, at_ t i = Some y /\ cmp x y = 0.
  Proof.
    intros W S H. rewrite index_spec in H by auto. destruct (sindex_nth _ _ _ _ H) as [L [y [N C]]].
    exists y. split; auto. rewrite at_spec by auto.
    replace (i <? 0) with false by (symmetry; apply Z.ltb_ge; lia). rewrite Z.sub_0_r in N. exact N.
  Qed.
End AvlProofs.
