(* C09 - two lists on one allocator and one memory refine two independent sequences: an operation on one list never
   disturbs the other list nor the items a third user holds, and the allocator's count is the sum of all of them. *)
From Coq Require Import ZArith List Bool Lia Permutation.
From ScV Require Import Base.CInt C09.PoolModel C09.PoolProofs C09.ListModel C09.ListProofs C09.SharedModel.
Import ListNotations.
Local Open Scope Z_scope.

Lemma nodup_app_disjoint {A} (a b : list A) x : NoDup (a ++ b) -> In x a -> ~ In x b.
Proof.
  induction a as [|y t IH]; simpl; intros N Hx Hb; [contradiction|].
  inversion N; subst. destruct Hx as [->|Hx].
  - apply H1. apply in_or_app; auto.
  - apply (IH H2 Hx Hb).
Qed.

Lemma walk_nth h its : forall o l pos, seg h o its l None -> (pos < length its)%nat ->
  walk h o pos = Some (nth pos its default_item).
Proof.
  induction its as [|i t IH]; intros o [|d l] pos S Hp; simpl in *; try contradiction; try lia.
  destruct S as [-> [_ S]]. destruct pos as [|pos]; [reflexivity|]. simpl. apply (IH _ _ _ S). lia.
Qed.

Lemma seg_ext h h' its : forall o l e, (forall j, In j its -> h' j = h j) -> seg h o its l e -> seg h' o its l e.
Proof.
  induction its as [|i t IH]; intros o [|d l] e Hx S; simpl in *; try contradiction; auto.
  destruct S as [Ho [Hd S]]. rewrite (Hx i) by auto. repeat split; auto.
Qed.

(* an operation writes only into links of its own list and into the link it has just obtained from the allocator *)
Lemma lstep_frame st l lk op : Rlk st l lk -> seq_legal l op ->
  forall j, In j lk -> l_heap (fst (lstep st op)) j = l_heap st j.
Proof.
  intros [its [S [La [C P]]]] L j Hj.
  pose proof (PoolInv_nodup _ _ P) as N. pose proof (seg_length _ _ _ _ _ S) as SL.
  assert (Hown : forall x, In x its -> j <> x).
  { intros x Hx ->. exact (nodup_app_disjoint _ _ _ N Hx Hj). }
  destruct (mempool_alloc_spec _ _ P) as [it [p' [fr [E [Hni _]]]]].
  assert (Hit : j <> it) by (intros ->; apply Hni; apply in_or_app; auto).
  destruct op as [d|d|pos d|pos| | | |]; cbn [lstep seq_legal fst] in *.
  - unfold list_prepend. rewrite E. cbn [l_heap]. apply hupd_other; auto.
  - unfold list_append. rewrite E. destruct (l_last st) as [la|] eqn:EL; cbn [l_heap].
    + assert (In la its) by (apply last_opt_in; congruence).
      rewrite hupd_other by (apply Hown; auto). apply hupd_other; auto.
    + apply hupd_other; auto.
  - rewrite (walk_nth _ _ _ _ pos S) by lia. cbn [fst]. unfold list_insert. rewrite E. cbn [l_heap].
    rewrite hupd_other by (apply Hown; apply nth_In; lia). apply hupd_other; auto.
  - rewrite (walk_nth _ _ _ _ pos S) by lia. unfold list_remove.
    destruct (snd (l_heap st (nth pos its default_item))); cbn [fst l_heap]; auto.
    apply hupd_other. apply Hown. apply nth_In. lia.
  - unfold list_pop. destruct (l_first st); reflexivity.
  - unfold list_reset. destruct (free_chain _ _ _ _ _). reflexivity.
  - reflexivity.
  - reflexivity.
Qed.

(* the invariant: both lists are well-formed segments of the shared heap, their links and the foreign items lk are
   exactly the live items of the shared pool *)
Definition HInv (heap : lheap) (h : lhead) (its : list item) (s : list Z) : Prop :=
  seg heap (h_first h) its s None /\ h_last h = last_opt its /\ h_count h = Z.of_nat (length s).

Definition SInv (st : shared) (sa sb : list Z) (lk : list item) : Prop := exists ia ib,
  HInv (sh_heap st) (sh_a st) ia sa /\ HInv (sh_heap st) (sh_b st) ib sb /\ PoolInv (sh_pool st) (ia ++ ib ++ lk).

Lemma Rlk_of_HInv st h its s lk' : HInv (sh_heap st) h its s -> PoolInv (sh_pool st) (its ++ lk') -> Rlk (as_list st h) s lk'.
Proof. intros [S [La C]] P. exists its. cbn. auto. Qed.

(* one step on one list, the other list being part of the frame *)
Lemma step_generic heap pool h its s oh oits os lk op :
  HInv heap h its s -> HInv heap oh oits os -> PoolInv pool (its ++ oits ++ lk) -> seq_legal s op ->
  let l' := fst (lstep (mkList heap (h_first h) (h_last h) (h_count h) pool) op) in
  exists its' lk',
    HInv (l_heap l') (head_of l') its' (fst (seq_step s op)) /\ HInv (l_heap l') oh oits os /\
    PoolInv (l_pool l') (its' ++ oits ++ lk') /\ (op <> LUnlink -> lk' = lk) /\
    snd (lstep (mkList heap (h_first h) (h_last h) (h_count h) pool) op) = snd (seq_step s op).
Proof.
  intros [S [La C]] [OS [OLa OC]] P L. cbv zeta.
  set (st := mkList heap (h_first h) (h_last h) (h_count h) pool).
  assert (R : Rlk st s (oits ++ lk)) by (exists its; cbn; auto).
  destruct op as [d|d|pos d|pos| | | |] eqn:Eop.
  7: { (* LUnlink: the links are dropped, they stay live items of the pool *)
    cbn [lstep seq_step fst snd list_unlink l_heap l_pool head_of l_first l_last l_count].
    exists [], (its ++ lk). split; [|split; [|split; [|split]]].
    - split; [cbn; auto|]. split; cbn; auto.
    - split; auto.
    - cbn [app]. eapply PoolInv_perm; [|exact P].
      rewrite (app_assoc oits its lk). rewrite (app_assoc its oits lk).
      apply Permutation_app_tail. apply Permutation_app_comm.
    - congruence.
    - unfold lo, so. cbn. reflexivity. }
  all: rewrite <- Eop in *.
  all: destruct (lstep_Rl st s (oits ++ lk) op R L) as [lk1 [R1 [K1 O1]]].
  all: assert (NU : op <> LUnlink) by (rewrite Eop; discriminate).
  all: specialize (K1 NU); subst lk1.
  all: destruct R1 as [its' [S' [La' [C' P']]]].
  all: exists its', lk.
  all: (split; [split; [exact S'|split; [exact La'|exact C']]|]).
  all: (split; [|split; [exact P'|split; [auto|exact O1]]]).
  all: (split; [|split; auto]).
  all: apply (seg_ext heap); auto.
  all: intros j Hj; apply (lstep_frame st s (oits ++ lk) op R L); apply in_or_app; auto.
Qed.

Lemma sh_step_inv st sa sb lk (w : bool) op : SInv st sa sb lk -> seq_legal (if w then sb else sa) op ->
  exists lk', SInv (fst (sh_step st w op)) (fst (fst (sq2_step (sa, sb) w op))) (snd (fst (sq2_step (sa, sb) w op))) lk' /\
              (op <> LUnlink -> lk' = lk) /\ snd (sh_step st w op) = snd (sq2_step (sa, sb) w op).
Proof.
  intros [ia [ib [HA [HB P]]]] L. destruct w; unfold sh_step, sq2_step, as_list; cbn [fst snd].
  - assert (P2 : PoolInv (sh_pool st) (ib ++ ia ++ lk)).
    { eapply PoolInv_perm; [|exact P]. rewrite !app_assoc. apply Permutation_app_tail. apply Permutation_app_comm. }
    destruct (step_generic _ _ _ _ _ _ _ _ _ op HB HA P2 L) as [its' [lk' [H1 [H2 [P' [K O]]]]]].
    destruct (lstep _ op) as [l' o]. destruct (seq_step sb op) as [s' o']. cbn [fst snd] in *.
    exists lk'. split; [|split; auto].
    exists ia, its'. cbn [sh_heap sh_pool sh_a sh_b]. split; [exact H2|]. split; [exact H1|].
    eapply PoolInv_perm; [|exact P']. rewrite !app_assoc. apply Permutation_app_tail. apply Permutation_app_comm.
  - destruct (step_generic _ _ _ _ _ _ _ _ _ op HA HB P L) as [its' [lk' [H1 [H2 [P' [K O]]]]]].
    destruct (lstep _ op) as [l' o]. destruct (seq_step sa op) as [s' o']. cbn [fst snd] in *.
    exists lk'. split; [|split; auto].
    exists its', ib. cbn [sh_heap sh_pool sh_a sh_b]. auto.
Qed.

Lemma sh_run_inv ops : forall st sa sb lk, SInv st sa sb lk -> sq2_legal_run (sa, sb) ops ->
  exists lk', SInv (fst (sh_run_from st ops)) (fst (fst (sq2_run_from (sa, sb) ops))) (snd (fst (sq2_run_from (sa, sb) ops))) lk' /\
              ((forall w, ~ In (w, LUnlink) ops) -> lk' = lk) /\ snd (sh_run_from st ops) = snd (sq2_run_from (sa, sb) ops).
Proof.
  induction ops as [|[w op] r IH]; intros st sa sb lk H L; cbn [sh_run_from sq2_run_from sq2_legal_run] in *.
  - exists lk. cbn. auto.
  - destruct L as [L1 L2]. cbn [fst snd] in L1.
    destruct (sh_step_inv st sa sb lk w op H L1) as [lk1 [H1 [K1 O1]]].
    destruct (sh_step st w op) as [st1 o]. destruct (sq2_step (sa, sb) w op) as [[sa1 sb1] o']. cbn [fst snd] in *.
    destruct (IH st1 sa1 sb1 lk1 H1 L2) as [lk2 [H2 [K2 O2]]].
    destruct (sh_run_from st1 r) as [st2 os]. destruct (sq2_run_from (sa1, sb1) r) as [[sa2 sb2] os']. cbn [fst snd] in *.
    exists lk2. split; [exact H2|]. split; [|congruence].
    intros NU. rewrite K2, K1; auto.
    + intros ->. apply (NU w). left; reflexivity.
    + intros w' Hw. apply (NU w'). right; exact Hw.
Qed.

(* the data of one list of the shared state *)
Definition sh_data (st : shared) (h : lhead) : list Z := list_data (as_list st h).

(* Two lists and a third user (holding the items lk0) on one allocator in any reachable state, every legal history
   of operations on the two lists in any interleaving: all results equal those of two independent sequences, the
   links of the two lists are pairwise distinct live items of the allocator, distinct from the third user's, and -
   without sc_list_unlink - the allocator holds exactly the links of both lists besides lk0. *)
Theorem shared_lists_refine p lk0 ops : PoolInv p lk0 -> sq2_legal_run ([], []) ops ->
  let '(st, outs) := sh_run_from (sh_new p) ops in
  let '((sa, sb), souts) := sq2_run_from ([], []) ops in
  outs = souts /\ sh_data st (sh_a st) = sa /\ sh_data st (sh_b st) = sb /\
  h_count (sh_a st) = Z.of_nat (length sa) /\ h_count (sh_b st) = Z.of_nat (length sb) /\
  exists ia ib lk, length ia = length sa /\ length ib = length sb /\ NoDup (ia ++ ib ++ lk) /\
                   PoolInv (sh_pool st) (ia ++ ib ++ lk) /\
                   ((forall w, ~ In (w, LUnlink) ops) ->
                    lk = lk0 /\ mp_count (sh_pool st) = h_count (sh_a st) + h_count (sh_b st) + Z.of_nat (length lk0)).
Proof.
  intros P L.
  assert (H0 : SInv (sh_new p) [] [] lk0).
  { exists [], []. split; [|split]; [split; [|split]; reflexivity|split; [|split]; reflexivity|exact P]. }
  destruct (sh_run_inv ops _ _ _ _ H0 L) as [lk [[ia [ib [[SA [LA CA]] [[SB [LB CB]] PI]]]] [K O]]].
  destruct (sh_run_from (sh_new p) ops) as [st outs]. destruct (sq2_run_from ([], []) ops) as [[sa sb] souts].
  cbn [fst snd] in *. split; auto.
  pose proof (seg_length _ _ _ _ _ SA) as LA'. pose proof (seg_length _ _ _ _ _ SB) as LB'.
  split; [|split; [|split; [exact CA|split; [exact CB|]]]].
  - unfold sh_data, list_data, as_list. cbn [l_count l_heap l_first]. rewrite CA, Nat2Z.id. eapply seg_chain_data; eauto.
  - unfold sh_data, list_data, as_list. cbn [l_count l_heap l_first]. rewrite CB, Nat2Z.id. eapply seg_chain_data; eauto.
  - exists ia, ib, lk. split; auto. split; auto. split; [eapply PoolInv_nodup; eauto|]. split; auto.
    intros NU. specialize (K NU). subst lk. split; auto.
    destruct PI as [_ [_ [_ Kc]]]. rewrite Kc, CA, CB, !app_length. lia.
Qed.
