(* C09 - the hash table model refines a set (modulo the user's equality) for EVERY hash function. *)
From Coq Require Import ZArith List Bool Lia Permutation.
From ScV Require Import Base.CInt Gen.HashResize C09.HashModel.
Import ListNotations.
Local Open Scope Z_scope.
Ltac Zify.zify_post_hook ::= Z.div_mod_to_equations.

(* ---------- generic list facts ---------- *)
Lemma upd_length {A} i (x : A) l : length (upd i x l) = length l.
Proof. revert i; induction l as [|a t IH]; intros [|j]; simpl; auto. Qed.

Lemma nth_upd_same {A} i (x d : A) l : (i < length l)%nat -> nth i (upd i x l) d = x.
Proof. revert i; induction l as [|a t IH]; intros [|j] H; simpl in *; try lia; auto. apply IH; lia. Qed.

Lemma nth_upd_other {A} i j (x d : A) l : i <> j -> nth j (upd i x l) d = nth j l d.
Proof.
  revert i j; induction l as [|a t IH]; intros [|i] [|j] H; simpl; auto; try congruence.
Qed.

Lemma upd_nth_id {A} i (d : A) l : upd i (nth i l d) l = l.
Proof. revert i; induction l as [|a t IH]; intros [|j]; simpl; auto. f_equal; apply IH. Qed.

Lemma concat_upd_perm {A} i (l : list A) ss : (i < length ss)%nat ->
  Permutation (concat (upd i l ss)) (l ++ concat (upd i [] ss)).
Proof.
  revert i; induction ss as [|a t IH]; intros [|j] H; simpl in *; try lia.
  - reflexivity.
  - rewrite (IH j) by lia. rewrite !app_assoc. apply Permutation_app_tail. apply Permutation_app_comm.
Qed.

Lemma concat_nth_perm {A} i (ss : list (list A)) : (i < length ss)%nat ->
  Permutation (concat ss) (nth i ss [] ++ concat (upd i [] ss)).
Proof. intros H. rewrite <- (concat_upd_perm i (nth i ss []) ss H). rewrite upd_nth_id. reflexivity. Qed.

Lemma in_concat_nth {A} (x : A) ss : In x (concat ss) <-> exists j, (j < length ss)%nat /\ In x (nth j ss []).
Proof.
  split.
  - intros H. apply in_concat in H. destruct H as [l [Hl Hx]].
    destruct (In_nth _ _ [] Hl) as [j [Hj Hn]]. exists j; split; auto. rewrite Hn; auto.
  - intros [j [Hj Hx]]. apply in_concat. exists (nth j ss []); split; auto. apply nth_In; auto.
Qed.

Lemma nth_nil_in {A} (x : A) j (ss : list (list A)) : In x (nth j ss []) -> (j < length ss)%nat.
Proof. intros H. destruct (Nat.lt_ge_cases j (length ss)); auto. rewrite nth_overflow in H by lia. destruct H. Qed.

Lemma find_remove_first_perm {A} (p : A -> bool) l x : find p l = Some x -> Permutation l (x :: remove_first p l).
Proof.
  induction l as [|a t IH]; simpl; [discriminate|]. destruct (p a).
  - intros E; inversion E; subst; reflexivity.
  - intros E. rewrite (IH E) at 1. apply perm_swap.
Qed.

Lemma find_replace_first_perm {A} (p : A -> bool) l x y : find p l = Some x ->
  Permutation (replace_first p y l) (y :: remove_first p l).
Proof.
  induction l as [|a t IH]; simpl; [discriminate|]. destruct (p a).
  - intros _; reflexivity.
  - intros E. rewrite (IH E). apply perm_swap.
Qed.

Lemma find_none_iff {A} (p : A -> bool) l : find p l = None <-> forall x, In x l -> p x = false.
Proof.
  split; [apply find_none|]. intros H. destruct (find p l) eqn:E; auto.
  apply find_some in E. destruct E as [Hi Hp]. rewrite (H _ Hi) in Hp; discriminate.
Qed.

Lemma length_remove_first {A} (p : A -> bool) l x : find p l = Some x -> length l = S (length (remove_first p l)).
Proof. intros H. apply find_remove_first_perm in H. apply Permutation_length in H. exact H. Qed.

Lemma NoDup_app_l {A} (a b : list A) : NoDup (a ++ b) -> NoDup a.
Proof.
  induction a as [|x t IH]; simpl; intros H; [constructor|].
  inversion H; subst. constructor; auto. intros Hi. apply H2. apply in_or_app; auto.
Qed.

Lemma concat_map_nil {A B} (l : list B) : concat (map (fun _ => @nil A) l) = [].
Proof. induction l; simpl; auto. Qed.

Lemma nth_map_nil {A B} (l : list B) i : nth i (map (fun _ => @nil A) l) [] = [].
Proof. revert i; induction l; intros [|i]; simpl; auto. Qed.

Lemma nth_repeat_nil {A} n i : nth i (repeat (@nil A) n) [] = [].
Proof. revert i; induction n; intros [|i]; simpl; auto. Qed.

Lemma concat_repeat_nil {A} n : concat (repeat (@nil A) n) = [].
Proof. induction n; simpl; auto. Qed.

(* ---------- arithmetic of the generated resize decisions ---------- *)
Lemma hash_initial_size_pos : 0 < hash_initial_size.
Proof. reflexivity. Qed.

(* x - 1 computed in size_t is positive whenever x is an even multiple (4 * slots in the pinned source) *)
Lemma u64_kn_minus1_pos k n : Z.even k = true -> 0 < u64 (u64 (k * n) - 1).
Proof.
  intros Hk. apply Z.even_spec in Hk. destruct Hk as [k2 ->].
  unfold u64, wrapu.
  replace M64 with (2 * 9223372036854775808) by reflexivity.
  rewrite <- Z.mul_assoc. rewrite Z.mul_mod_distr_l by lia.
  pose proof (Z.mod_pos_bound (k2 * n) 9223372036854775808 ltac:(lia)) as Hb.
  set (t := (k2 * n) mod 9223372036854775808) in *.
  destruct (Z.eq_dec t 0) as [->|Ht].
  + reflexivity.
  + rewrite Z.mod_small; lia.
Qed.

Lemma hash_minimal_size_pos : 0 < sc_hash_minimal_size.
Proof. reflexivity. Qed.

(* written to survive edits of the thresholds that keep the property: every branch of the generated decision
   either returns None, or an even multiple of the slot count minus one, or a size that passed the
   comparison with sc_hash_minimal_size *)
Lemma hash_new_size_pos c n ns : 0 < n -> hash_new_size c n = Some ns -> 0 < ns.
Proof.
  intros Hn. unfold hash_new_size. cbv zeta.
  repeat match goal with
         | |- context [if ?b then _ else _] => destruct b eqn:?
         end; intros E; try discriminate E;
  (assert (Hns : Some ns = Some ns) by reflexivity; rewrite <- E in Hns at 1; clear E;
   match type of Hns with Some ?e = _ => assert (Hp : 0 < e); [|congruence] end;
   first [ apply u64_kn_minus1_pos; reflexivity
         | match goal with H : (_ <? sc_hash_minimal_size) = false |- _ =>
             apply Z.ltb_ge in H; pose proof hash_minimal_size_pos; lia end
         | unfold u64, wrapu, M64; lia ]).
Qed.

Section Rehash.
  Variable key : Type.
  Variable hf : key -> Z.
  Notation slot_of := (slot_of key hf).

  Lemma slot_of_lt n k : 0 < n -> (slot_of n k < Z.to_nat n)%nat.
  Proof.
    intros H. unfold HashModel.slot_of. pose proof (Z.mod_pos_bound (u32 (hf k)) n H). lia.
  Qed.

  (* well-placed: every element sits in the slot its hash value selects *)
  Definition placed (n : Z) (ss : list (list key)) : Prop :=
    forall i x, In x (nth i ss []) -> slot_of n x = i.

  Lemma placed_upd n ss i l : placed n ss -> (forall x, In x l -> slot_of n x = i) -> placed n (upd i l ss).
  Proof.
    intros PL Hl j x Hx. destruct (Nat.eq_dec i j) as [->|Hne].
    - destruct (Nat.lt_ge_cases j (length ss)).
      + rewrite nth_upd_same in Hx by auto. auto.
      + rewrite nth_overflow in Hx by (rewrite upd_length; lia). destruct Hx.
    - rewrite nth_upd_other in Hx by auto. apply PL; auto.
  Qed.

  (* ---------- rehash ---------- *)
  Lemma rehash_fold ns l acc : 0 < ns -> length acc = Z.to_nat ns -> placed ns acc ->
    let r := fold_left (rehash_put key hf ns) l acc in
    length r = Z.to_nat ns /\ placed ns r /\ Permutation (concat r) (l ++ concat acc).
  Proof.
    intros Hns. revert acc. induction l as [|k t IH]; intros acc Hlen PL; simpl.
    - repeat split; auto.
    - set (acc' := rehash_put key hf ns acc k).
      assert (Hj : (slot_of ns k < length acc)%nat) by (rewrite Hlen; apply slot_of_lt; auto).
      assert (Hlen' : length acc' = Z.to_nat ns) by (unfold acc', rehash_put; rewrite upd_length; auto).
      assert (PL' : placed ns acc').
      { unfold acc', rehash_put. apply placed_upd; auto. intros x [->|Hx]; auto. }
      destruct (IH acc' Hlen' PL') as [A [B C]]. repeat split; auto.
      rewrite C. unfold acc', rehash_put. rewrite concat_upd_perm by auto.
      rewrite (concat_nth_perm (slot_of ns k) acc Hj).
      simpl. apply Permutation_sym. apply Permutation_middle.
  Qed.

  Lemma rehash_ok ns old : 0 < ns ->
    length (rehash key hf ns old) = Z.to_nat ns /\ placed ns (rehash key hf ns old) /\
    Permutation (concat (rehash key hf ns old)) (concat old).
  Proof.
    intros H. unfold rehash.
    destruct (rehash_fold ns (concat old) (repeat [] (Z.to_nat ns)) H) as [A [B C]].
    - apply repeat_length.
    - intros i x Hx. rewrite nth_repeat_nil in Hx. destruct Hx.
    - repeat split; auto. rewrite C. rewrite concat_repeat_nil, app_nil_r. reflexivity.
  Qed.

  (* rehashing alone: same elements, every one in the slot its hash selects *)
  Theorem rehash_preserves ns old : 0 < ns ->
    Permutation (concat (rehash key hf ns old)) (concat old) /\
    length (rehash key hf ns old) = Z.to_nat ns /\
    forall i x, In x (nth i (rehash key hf ns old) []) -> slot_of ns x = i.
  Proof. intros H. destruct (rehash_ok ns old H) as [A [B C]]. auto. Qed.
End Rehash.

Section HashProofs.
  Variable key : Type.
  Variable hf : key -> Z.
  Variable eqb : key -> key -> bool.
  Hypothesis eqb_refl : forall a, eqb a a = true.
  Hypothesis eqb_sym : forall a b, eqb a b = true -> eqb b a = true.
  Hypothesis eqb_trans : forall a b c, eqb a b = true -> eqb b c = true -> eqb a c = true.
  Hypothesis eqb_hf : forall a b, eqb a b = true -> hf a = hf b.

  Notation hash := (hash key).
  Notation slot_of := (slot_of key hf).
  Notation matches := (matches key eqb).
  Notation nslots := (nslots key).
  Notation elements := (elements key).
  Notation placed := (placed key hf).
  Notation slot_of_lt := (slot_of_lt key hf).
  Notation placed_upd := (placed_upd key hf).
  Notation rehash_ok := (rehash_ok key hf).

  (* no two elements of the list are equal in the user's sense *)
  Definition nodupeq (l : list key) : Prop :=
    NoDup l /\ forall x y, In x l -> In y l -> eqb x y = true -> x = y.

  Lemma nodupeq_perm l l' : Permutation l l' -> nodupeq l -> nodupeq l'.
  Proof.
    intros P [N U]. split; [eapply Permutation_NoDup; eauto|].
    intros x y Hx Hy. apply U; eapply Permutation_in; try apply Permutation_sym; eauto.
  Qed.

  Lemma nodupeq_app_l a b : nodupeq (a ++ b) -> nodupeq a.
  Proof.
    intros [N U]. split; [eapply NoDup_app_l; eauto|].
    intros x y Hx Hy. apply U; apply in_or_app; auto.
  Qed.

  Lemma nodupeq_cons_inv x l : nodupeq (x :: l) -> nodupeq l /\ forall y, In y l -> eqb y x = false.
  Proof.
    intros [N U]. inversion N; subst. split.
    - split; auto. intros a b Ha Hb. apply U; right; auto.
    - intros y Hy. destruct (eqb y x) eqn:E; auto.
      assert (y = x) by (apply U; simpl; auto). subst; contradiction.
  Qed.

  Lemma nodupeq_cons x l : nodupeq l -> (forall y, In y l -> eqb y x = false) -> nodupeq (x :: l).
  Proof.
    intros [N U] H. split.
    - constructor; auto. intros Hi. specialize (H _ Hi). rewrite eqb_refl in H; discriminate.
    - intros a b [Ha|Ha] [Hb|Hb] E; subst; auto.
      + apply eqb_sym in E. rewrite (H _ Hb) in E; discriminate.
      + rewrite (H _ Ha) in E; discriminate.
  Qed.

  Lemma nodupeq_nil : nodupeq [].
  Proof. split; [constructor|]. intros x y []. Qed.

  Lemma find_char l k x : nodupeq l -> (find (matches k) l = Some x <-> In x l /\ eqb x k = true).
  Proof.
    intros [N U]. split.
    - intros H. apply find_some in H. exact H.
    - intros [Hi He]. destruct (find (matches k) l) as [y|] eqn:E.
      + apply find_some in E. destruct E as [Hy Hyk]. unfold HashModel.matches in Hyk.
        f_equal. apply U; auto. eapply eqb_trans; eauto.
      + rewrite find_none_iff in E. specialize (E _ Hi). unfold HashModel.matches in E. congruence.
  Qed.

  Lemma slot_of_eq n a b : eqb a b = true -> slot_of n a = slot_of n b.
  Proof. intros H. unfold HashModel.slot_of. rewrite (eqb_hf _ _ H). reflexivity. Qed.

  Record R (h : hash) (s : list key) : Prop := mkR {
    R_perm : Permutation (elements h) s;
    R_cnt : hcount key h = Z.of_nat (length s);
    R_placed : placed (nslots h) (slots key h);
    R_nd : nodupeq s;
    R_pos : 0 < nslots h }.

  Lemma slot_lt h k : 0 < nslots h -> (slot_of (nslots h) k < length (slots key h))%nat.
  Proof. intros H. pose proof (slot_of_lt (nslots h) k H). unfold HashModel.nslots in *. lia. Qed.

  (* searching the slot list = searching the whole set *)
  Lemma slot_find h s k : R h s ->
    find (matches k) (nth (slot_of (nslots h) k) (slots key h) []) = find (matches k) s.
  Proof.
    intros [P C PL ND POS].
    set (i := slot_of (nslots h) k). set (l := nth i (slots key h) []).
    assert (Hi : (i < length (slots key h))%nat) by (apply slot_lt; auto).
    assert (Hl : nodupeq l).
    { eapply nodupeq_app_l. eapply nodupeq_perm; [|exact ND].
      etransitivity; [apply Permutation_sym; exact P|]. apply concat_nth_perm; exact Hi. }
    assert (Hsub : forall x, In x l -> In x s).
    { intros x Hx. eapply Permutation_in; [exact P|]. apply in_concat_nth. exists i; auto. }
    destruct (find (matches k) s) as [x|] eqn:E.
    - apply find_some in E. destruct E as [Hx Hk]. unfold HashModel.matches in Hk.
      apply find_char; auto. split; auto.
      assert (Hc : In x (concat (slots key h))) by (eapply Permutation_in; [apply Permutation_sym; exact P|exact Hx]).
      apply in_concat_nth in Hc. destruct Hc as [j [Hj Hxj]].
      pose proof (PL _ _ Hxj) as Hs. rewrite (slot_of_eq _ _ _ Hk) in Hs. fold i in Hs. subst j. exact Hxj.
    - rewrite find_none_iff in E. apply find_none_iff. intros x Hx. apply E; auto.
  Qed.

  Lemma maybe_resize_R h s : R h s -> R (maybe_resize key hf h) s.
  Proof.
    intros [P C PL ND POS]. unfold maybe_resize.
    destruct (hash_new_size (hcount key h) (nslots h)) as [ns|] eqn:E.
    - pose proof (hash_new_size_pos _ _ _ POS E) as Hns.
      destruct (rehash_ok ns (slots key h) Hns) as [A [B D]].
      constructor; unfold HashModel.elements, HashModel.nslots in *; simpl; auto.
      + rewrite D; auto.
      + rewrite A. rewrite Z2Nat.id by lia. auto.
      + rewrite A. lia.
    - constructor; auto.
  Qed.

  Lemma maybe_resize_count h : hcount key (maybe_resize key hf h) = hcount key h.
  Proof. unfold maybe_resize. destruct (hash_new_size _ _); reflexivity. Qed.

  (* ---------- the operations ---------- *)
  Lemma lookup_ok h s k : R h s -> lookup key hf eqb h k = find (matches k) s.
  Proof. intros H. unfold lookup. apply slot_find; auto. Qed.

  Lemma insert_R h s k : R h s ->
    match find (matches k) s with
    | Some x => insert_unique key hf eqb h k = (h, (false, Some x))
    | None => exists h', insert_unique key hf eqb h k = (h', (true, Some k)) /\ R h' (s ++ [k])
    end.
  Proof.
    intros HR. pose proof (slot_find h s k HR) as SF. destruct HR as [P C PL ND POS].
    unfold insert_unique. rewrite SF. destruct (find (matches k) s) as [x|] eqn:E; [reflexivity|].
    set (i := slot_of (nslots h) k) in *. set (l := nth i (slots key h) []) in *.
    assert (Hi : (i < length (slots key h))%nat) by (apply slot_lt; auto).
    set (h1 := mkHash key (upd i (l ++ [k]) (slots key h)) (hcount key h + 1) (hchecks key h) (hactions key h) (hlinks key h + 1) (howned key h)).
    assert (R1 : R h1 (s ++ [k])).
    { rewrite find_none_iff in E.
      constructor; unfold HashModel.elements, HashModel.nslots in *; simpl.
      - rewrite concat_upd_perm by auto. rewrite <- app_assoc.
        rewrite (Permutation_app_comm [k]). rewrite app_assoc. apply Permutation_app_tail.
        rewrite <- P. apply Permutation_sym. apply concat_nth_perm; auto.
      - rewrite app_length; simpl. lia.
      - rewrite upd_length. apply placed_upd; auto.
        intros x Hx. apply in_app_or in Hx. destruct Hx as [Hx|[->|[]]]; auto.
      - eapply nodupeq_perm; [apply Permutation_cons_append|]. apply nodupeq_cons; auto.
      - rewrite upd_length. auto. }
    destruct (hash_insert_checks (hcount key h1) (nslots h1)).
    - exists (maybe_resize key hf h1). pose proof (maybe_resize_R _ _ R1) as R2. split; auto.
      rewrite (lookup_ok _ _ k R2).
      replace (find (matches k) (s ++ [k])) with (Some k); auto.
      symmetry. apply find_char; [apply (R_nd _ _ R1)|]. split; [apply in_or_app; simpl; auto|apply eqb_refl].
    - exists h1; auto.
  Qed.

  Lemma remove_R h s k : R h s ->
    match find (matches k) s with
    | Some x => exists h', remove key hf eqb h k = (h', Some x) /\ R h' (remove_first (matches k) s)
    | None => remove key hf eqb h k = (h, None)
    end.
  Proof.
    intros HR. pose proof (slot_find h s k HR) as SF. destruct HR as [P C PL ND POS].
    unfold remove. rewrite SF. destruct (find (matches k) s) as [x|] eqn:E; [|reflexivity].
    set (i := slot_of (nslots h) k) in *. set (l := nth i (slots key h) []) in *.
    assert (Hi : (i < length (slots key h))%nat) by (apply slot_lt; auto).
    set (h1 := mkHash key (upd i (remove_first (matches k) l) (slots key h)) (hcount key h - 1) (hchecks key h) (hactions key h) (hlinks key h - 1) (howned key h)).
    assert (R1 : R h1 (remove_first (matches k) s)).
    { pose proof (find_remove_first_perm _ _ _ E) as Ps.
      pose proof (find_remove_first_perm _ _ _ SF) as Pl.
      constructor; unfold HashModel.elements, HashModel.nslots in *; simpl.
      - rewrite concat_upd_perm by auto.
        apply Permutation_cons_inv with (a := x). rewrite <- Ps. rewrite <- P.
        rewrite (concat_nth_perm i (slots key h) Hi). fold l. rewrite Pl at 2. reflexivity.
      - rewrite (length_remove_first _ _ _ E) in C. lia.
      - rewrite upd_length. apply placed_upd; auto.
        intros y Hy. apply PL. fold i l. eapply Permutation_in; [apply Permutation_sym; exact Pl|]. right; auto.
      - pose proof (nodupeq_perm _ _ Ps ND) as N2. apply nodupeq_cons_inv in N2. tauto.
      - rewrite upd_length. auto. }
    destruct (hash_remove_checks (hcount key h1)).
    - exists (maybe_resize key hf h1). split; auto. apply maybe_resize_R; auto.
    - exists h1; auto.
  Qed.

  Lemma assign_R h s k nk : R h s -> eqb nk k = true ->
    match find (matches k) s with
    | Some x => exists h', assign key hf eqb h k nk = (h', true) /\ R h' (replace_first (matches k) nk s)
    | None => assign key hf eqb h k nk = (h, false)
    end.
  Proof.
    intros HR Hnk. pose proof (slot_find h s k HR) as SF. destruct HR as [P C PL ND POS].
    unfold assign. rewrite SF. destruct (find (matches k) s) as [x|] eqn:E; [|reflexivity].
    set (i := slot_of (nslots h) k) in *. set (l := nth i (slots key h) []) in *.
    assert (Hi : (i < length (slots key h))%nat) by (apply slot_lt; auto).
    eexists; split; [reflexivity|].
    pose proof (find_remove_first_perm _ _ _ E) as Ps.
    pose proof (find_remove_first_perm _ _ _ SF) as Pl.
    pose proof (find_replace_first_perm _ _ _ nk E) as Qs.
    pose proof (find_replace_first_perm _ _ _ nk SF) as Ql.
    assert (Hxk : eqb x k = true) by (apply find_some in E; apply E).
    constructor; unfold HashModel.elements, HashModel.nslots in *; simpl.
    - rewrite concat_upd_perm by auto. rewrite Ql, Qs. simpl. apply perm_skip.
      apply Permutation_cons_inv with (a := x). rewrite <- Ps. rewrite <- P.
      rewrite (concat_nth_perm i (slots key h) Hi). fold l.
      apply (Permutation_app_tail (concat (upd i [] (slots key h))) (Permutation_sym Pl)).
    - rewrite (Permutation_length Qs). cbn [length]. rewrite <- (length_remove_first _ _ _ E). auto.
    - rewrite upd_length. apply placed_upd; auto.
      intros y Hy. apply (Permutation_in _ Ql) in Hy. destruct Hy as [<-|Hy].
      + unfold i. apply slot_of_eq; auto.
      + apply PL. fold i l. eapply Permutation_in; [apply Permutation_sym; exact Pl|]. right; auto.
    - eapply nodupeq_perm; [apply Permutation_sym; exact Qs|].
      pose proof (nodupeq_perm _ _ Ps ND) as N2. apply nodupeq_cons_inv in N2. destruct N2 as [N2 N3].
      apply nodupeq_cons; auto. intros y Hy. specialize (N3 _ Hy).
      destruct (eqb y nk) eqn:Ey; auto.
      assert (eqb y x = true); [|congruence].
      eapply eqb_trans; [exact Ey|]. eapply eqb_trans; [exact Hnk|]. apply eqb_sym; auto.
    - rewrite upd_length; auto.
  Qed.

  Lemma unlink_R h s : R h s -> R (unlink key h) [].
  Proof.
    intros [P C PL ND POS]. constructor; unfold HashModel.elements, HashModel.nslots in *; simpl.
    - rewrite concat_map_nil. constructor.
    - reflexivity.
    - intros i x Hx. rewrite nth_map_nil in Hx. destruct Hx.
    - apply nodupeq_nil.
    - rewrite map_length; auto.
  Qed.

  Lemma truncate_R h s : R h s -> R (truncate key h) [].
  Proof.
    intros HR. unfold truncate. destruct (hcount key h =? 0) eqn:E.
    - apply Z.eqb_eq in E. destruct HR as [P C PL ND POS]. rewrite C in E.
      destruct s; [|simpl in E; lia]. constructor; auto.
    - pose proof (unlink_R h s HR) as [P C PL ND POS].
      destruct (howned key h); constructor; auto.
  Qed.

  (* outputs are compared exactly, except that an iteration may visit the elements in any order *)
  Definition out_equiv (a b : hout key) : Prop :=
    match a, b with
    | OList _ l1, OList _ l2 => Permutation l1 l2
    | _, _ => a = b
    end.

  Lemma step_R h s op : R h s -> legal_op key eqb op ->
    R (fst (step key hf eqb h op)) (fst (set_step key eqb s op)) /\
    out_equiv (snd (step key hf eqb h op)) (snd (set_step key eqb s op)).
  Proof.
    intros HR L. destruct op as [k|k|k|k nk| | | |]; simpl.
    - pose proof (insert_R h s k HR) as H. destruct (find (matches k) s) as [x|].
      + rewrite H; simpl; auto.
      + destruct H as [h' [-> R']]; simpl; auto.
    - rewrite (lookup_ok h s k HR). simpl; auto.
    - pose proof (remove_R h s k HR) as H. destruct (find (matches k) s) as [x|].
      + destruct H as [h' [-> R']]; simpl; auto.
      + rewrite H; simpl; auto.
    - pose proof (assign_R h s k nk HR L) as H. destruct (find (matches k) s) as [x|].
      + destruct H as [h' [-> R']]; simpl; auto.
      + rewrite H; simpl; auto.
    - split; auto. simpl. apply (R_perm _ _ HR).
    - split; [eapply truncate_R; eauto|reflexivity].
    - split; [eapply unlink_R; eauto|reflexivity].
    - split; auto. simpl. rewrite (R_cnt _ _ HR). reflexivity.
  Qed.

  Lemma new_R owned links : R (hash_new key owned links) [].
  Proof.
    constructor; unfold HashModel.elements, HashModel.nslots, hash_new; cbn [slots hcount].
    - rewrite concat_repeat_nil. constructor.
    - reflexivity.
    - intros i x Hx. rewrite nth_repeat_nil in Hx. destruct Hx.
    - apply nodupeq_nil.
    - rewrite repeat_length. pose proof hash_initial_size_pos. lia.
  Qed.

  Lemma run_from_R ops : forall h s, R h s -> Forall (legal_op key eqb) ops ->
    R (fst (run_from key hf eqb h ops)) (fst (set_run_from key eqb s ops)) /\
    Forall2 out_equiv (snd (run_from key hf eqb h ops)) (snd (set_run_from key eqb s ops)).
  Proof.
    induction ops as [|op r IH]; intros h s HR L; simpl.
    - split; auto.
    - inversion L; subst.
      destruct (step_R h s op HR H1) as [R1 O1].
      destruct (step key hf eqb h op) as [h1 o]. destruct (set_step key eqb s op) as [s1 o'].
      simpl in R1, O1. destruct (IH h1 s1 R1 H2) as [R2 O2].
      destruct (run_from key hf eqb h1 r) as [h2 os]. destruct (set_run_from key eqb s1 r) as [s2 os'].
      simpl in *. split; auto.
  Qed.

  (* the theorem of the property: for every hash function and every history *)
  Theorem hash_refines owned links ops : Forall (legal_op key eqb) ops ->
    let '(h, outs) := run key hf eqb owned links ops in
    let '(s, souts) := set_run key eqb ops in
    Permutation (elements h) s /\ Forall2 out_equiv outs souts /\
    NoDup (elements h) /\ (forall x y, In x (elements h) -> In y (elements h) -> eqb x y = true -> x = y) /\
    hcount key h = Z.of_nat (length s) /\
    hcount key h = Z.of_nat (length (elements h)).
  Proof.
    intros L. unfold run, set_run.
    destruct (run_from_R ops _ _ (new_R owned links) L) as [HR O].
    destruct (run_from key hf eqb (hash_new key owned links) ops) as [h outs].
    destruct (set_run_from key eqb [] ops) as [s souts]. simpl in *.
    pose proof (nodupeq_perm _ _ (Permutation_sym (R_perm _ _ HR)) (R_nd _ _ HR)) as [N U].
    repeat split; auto; try apply HR.
    rewrite (Permutation_length (R_perm _ _ HR)). apply HR.
  Qed.

End HashProofs.
