(* C09 - tie T1 for the container code: the hand-written models of coq/C09 compute exactly what the definitions
   GENERATED from the current source say (Gen/ContainersC09.v, Gen/AvlStepsC09.v, Gen/KeyValueC09.v; translator
   groups in tools/c2g/groups_C09.py).  Pointers are integers in the generated slices; the models identify pool
   items by (stamp, number) and list links by items, so the statements relate the two through an address map
   (item -> address, injective, never NULL) or through the base address of the current stamp. *)
From Coq Require Import ZArith List Bool Lia.
From ScV Require Import Base.CInt Gen.ContainersC09 Gen.AvlStepsC09 Gen.KeyValueC09 Gen.AvlBalance.
From ScV Require Import C09.PoolModel C09.PoolProofs C09.ListModel C09.HashModel C09.HashArrayModel C09.RecycleModel
  C09.KeyValueModel C09.AvlModel C09.AvlSeqModel C09.AvlRelinkModel.
Import ListNotations.
Local Open Scope Z_scope.

Ltac zb := repeat match goal with
  | |- context [?a =? ?b] => destruct (Z.eqb_spec a b)
  | |- context [?a <? ?b] => destruct (Z.ltb_spec a b)
  | |- context [?a <=? ?b] => destruct (Z.leb_spec a b)
  end.

Lemma u64_small x : 0 <= x < M64 -> u64 x = x.  Proof. apply u64_id. Qed.
Lemma M64_val : M64 = 18446744073709551616.  Proof. reflexivity. Qed.
Lemma M32_val : M32 = 4294967296.  Proof. reflexivity. Qed.

(* ---------------------------------------------------------------------------------------------------------------- *)
(* memory stamps                                                                                                    *)
(* ---------------------------------------------------------------------------------------------------------------- *)

(* sc_mstamp_init: the fields of the model are the fields the code computes; the number of stamps after
   initialisation is the number of sc_mstamp_stamp calls; remember is an array of pointers *)
Theorem gen_mstamp_init unit esz a mst : 0 <= unit < M64 -> 0 <= esz < M64 ->
  let '(e, per, ssz, cur, ai_called, ai_arg0, ai_arg1, st_called, st_arg) := c9_mstamp_init unit esz a mst in
  let m := mstamp_init unit esz in
  ms_esz m = e /\ ms_per m = per /\ ms_ssz m = ssz /\ ms_cur m = cur /\ ms_nst m = st_called /\
  ai_called = 1 /\ ai_arg0 = a /\ ai_arg1 = 8 /\ (st_called = 1 -> st_arg = mst).
Proof.
  intros Hu He. unfold c9_mstamp_init, mstamp_init.
  destruct (Z.ltb_spec 0 esz) as [P|P].
  - assert (D : 0 <= unit / esz) by (apply Z.div_pos; lia).
    assert (D2 : unit / esz * esz <= unit) by (rewrite Z.mul_comm; apply Z.mul_div_le; lia).
    destruct (Z.eqb_spec (unit / esz) 0) as [Q|Q]; cbn [ms_esz ms_per ms_ssz ms_cur ms_nst].
    + rewrite u64_small by lia. repeat split; auto.
    + rewrite u64_small by nia. repeat split; auto.
  - cbn [ms_esz ms_per ms_ssz ms_cur ms_nst]. repeat split; auto; lia.
Qed.

(* sc_mstamp_stamp: a block of stamp_size bytes is allocated, becomes `current`, is remembered; cur_snext = 0 *)
Theorem gen_mstamp_stamp pkg ssz blk a : 0 <= ssz < M64 ->
  let '(cur, current, stored, m_called, m_pkg, m_size, p_called, p_arr) := c9_mstamp_stamp pkg ssz blk a in
  cur = 0 /\ current = blk /\ stored = blk /\ m_called = 1 /\ m_size = ssz /\ p_called = 1 /\ p_arr = a.
Proof. intros H. unfold c9_mstamp_stamp. rewrite Z.mul_1_r, u64_small by lia. repeat split. Qed.

(* sc_mstamp_alloc: the item handed out is number cur_snext of the current stamp, at offset item_offset; the
   model's next state is the incremented counter, or (when the code calls sc_mstamp_stamp) what sc_mstamp_stamp
   leaves: counter 0 and one more stamp *)
Theorem gen_mstamp_alloc m base mst pkg blk a :
  0 < ms_esz m -> 0 <= ms_cur m < ms_per m -> ms_per m * ms_esz m < M64 -> 0 <= ms_ssz m < M64 ->
  let '(ret, cur1, called, arg) := c9_mstamp_alloc (ms_esz m) (ms_cur m) base (ms_per m) mst in
  let '(scur, _, _, _, _, _, pushes, _) := c9_mstamp_stamp pkg (ms_ssz m) blk a in
  let '(m', o) := mstamp_alloc m in
  o = Some (ms_nst m - 1, ms_cur m) /\ ret = base + item_offset m (ms_nst m - 1, ms_cur m) /\
  (called = 0 \/ called = 1) /\ (called = 1 -> arg = mst) /\
  ms_cur m' = (if called =? 1 then scur else cur1) /\ ms_nst m' = ms_nst m + called * pushes /\
  ms_esz m' = ms_esz m /\ ms_per m' = ms_per m /\ ms_ssz m' = ms_ssz m.
Proof.
  intros He Hc Hp Hs. unfold c9_mstamp_alloc, c9_mstamp_stamp, mstamp_alloc, item_offset. cbn [fst snd].
  destruct (Z.eqb_spec (ms_esz m) 0) as [Q|Q]; [lia|].
  rewrite (u64_small (ms_cur m * ms_esz m)) by nia.
  rewrite (u64_small (ms_cur m + 1)) by nia.
  destruct (Z.eqb_spec (ms_cur m + 1) (ms_per m)) as [R|R]; cbn [ms_cur ms_nst ms_esz ms_per ms_ssz];
    repeat split; auto; try lia.
Qed.

Theorem gen_mstamp_alloc_null m base mst : ms_esz m = 0 ->
  let '(ret, _, called, _) := c9_mstamp_alloc (ms_esz m) (ms_cur m) base (ms_per m) mst in
  ret = 0 /\ called = 0 /\ mstamp_alloc m = (m, None).
Proof. intros E. unfold c9_mstamp_alloc, mstamp_alloc. rewrite E. cbn. auto. Qed.

(* sc_mstamp_truncate: reset, then a first stamp exactly when the item size is positive *)
Theorem gen_mstamp_truncate m mst pkg blk a : 0 <= ms_esz m -> 0 <= ms_ssz m < M64 ->
  let '(r_called, r_arg, s_called, s_arg) := c9_mstamp_truncate mst (ms_esz m) in
  let '(scur, _, _, _, _, _, _, _) := c9_mstamp_stamp pkg (ms_ssz m) blk a in
  r_called = 1 /\ r_arg = mst /\ ms_nst (mstamp_truncate m) = s_called /\
  (s_called = 1 -> s_arg = mst /\ ms_cur (mstamp_truncate m) = scur).
Proof.
  intros He Hs. unfold c9_mstamp_truncate, c9_mstamp_stamp, mstamp_truncate.
  destruct (Z.ltb_spec 0 (ms_esz m)); cbn [ms_nst ms_cur]; repeat split; auto; lia.
Qed.

(* ---------------------------------------------------------------------------------------------------------------- *)
(* memory pools                                                                                                     *)
(* ---------------------------------------------------------------------------------------------------------------- *)
Theorem gen_mempool_init esz zp am af :
  let '(e, c, z, mi_called, mi_arg0, mi_unit, mi_esz, ai_called, ai_arg0, ai_esz) := c9_mempool_init esz (b2z zp) am af in
  let p := mempool_new esz zp in
  mp_esz p = e /\ mp_count p = c /\ b2z (mp_zp p) = z /\ mp_ms p = mstamp_init mi_unit mi_esz /\ mp_freed p = [] /\
  mi_called = 1 /\ mi_arg0 = am /\ ai_called = 1 /\ ai_arg0 = af /\ ai_esz = 8.
Proof. unfold c9_mempool_init, mempool_new. cbn. repeat split. Qed.

(* sc_mempool_alloc: top = the pointer stored in the last slot of `freed`, fresh = what sc_mstamp_alloc returns *)
Theorem gen_mempool_alloc p af am top fresh : 0 <= mp_count p -> mp_count p + 1 < M64 ->
  let '(ret, cnt, pop_called, pop_arr, ms_called, ms_arg, set_called, set_ptr, set_val, set_len) :=
      c9_mempool_alloc (mp_count p) (Z.of_nat (length (mp_freed p))) af top am fresh (b2z (mp_zp p)) (mp_esz p) in
  let '(p', o, fr) := mempool_alloc p in
  mp_count p' = cnt /\ pop_called = b2z (negb fr) /\ ms_called = b2z fr /\
  (fr = false -> ret = top /\ pop_arr = af /\ mp_freed p' = tl (mp_freed p) /\ o = hd_error (mp_freed p) /\ mp_ms p' = mp_ms p) /\
  (fr = true -> ret = fresh /\ ms_arg = am /\ (mp_ms p', o) = mstamp_alloc (mp_ms p) /\ mp_freed p' = []) /\
  set_called = b2z (fr && mp_zp p) /\ (set_called = 1 -> set_ptr = ret /\ set_val = 0 /\ set_len = mp_esz p).
Proof.
  intros H0 H1. unfold c9_mempool_alloc, mempool_alloc. rewrite (u64_small (mp_count p + 1)) by lia.
  destruct (mp_freed p) as [|it f] eqn:EF.
  - cbn [length Z.of_nat]. change (0 <? 0) with false. cbv iota.
    destruct (mstamp_alloc (mp_ms p)) as [m o] eqn:EA. destruct (mp_zp p); cbn; repeat split; auto; try discriminate.
  - assert (L : 0 <? Z.of_nat (length (it :: f)) = true) by (apply Z.ltb_lt; cbn [length]; lia). rewrite L.
    cbn. repeat split; auto; try discriminate.
Qed.

Theorem gen_mempool_free p it af e : 0 < mp_count p < M64 ->
  let '(cnt, stored, push_called, push_arr) := c9_mempool_free (mp_count p) af e in
  mp_count (mempool_free p it) = cnt /\ stored = e /\ push_called = 1 /\ push_arr = af /\
  mp_freed (mempool_free p it) = it :: mp_freed p.
Proof. intros H. unfold c9_mempool_free, mempool_free. rewrite u64_small by lia. cbn. repeat split. Qed.

Theorem gen_mempool_truncate p af am :
  let '(cnt, r_called, r_arr, t_called, t_arg) := c9_mempool_truncate af am in
  mp_count (mempool_truncate p) = cnt /\ r_called = 1 /\ r_arr = af /\ t_called = 1 /\ t_arg = am /\
  mp_freed (mempool_truncate p) = [] /\ mp_ms (mempool_truncate p) = mstamp_truncate (mp_ms p).
Proof. unfold c9_mempool_truncate, mempool_truncate. cbn. repeat split. Qed.

(* ---------------------------------------------------------------------------------------------------------------- *)
(* linked lists: links are pool items; `addr` is the address of an item (any injective map that avoids NULL)        *)
(* ---------------------------------------------------------------------------------------------------------------- *)
Section ListTies.
  Variable addr : item -> Z.
  Hypothesis addr_inj : forall a b, addr a = addr b -> a = b.
  Hypothesis addr_nonnull : forall a, addr a <> 0.

  Definition oaddr (o : option item) : Z := match o with Some i => addr i | None => 0 end.

  Lemma oaddr_eqb a b : (oaddr a =? oaddr b) = oitem_eqb a b.
  Proof.
    destruct a as [x|], b as [y|]; cbn [oaddr oitem_eqb].
    - destruct (Z.eqb_spec (addr x) (addr y)) as [E|E].
      + apply addr_inj in E. subst. symmetry. apply item_eqb_refl.
      + symmetry. apply item_eqb_neq. congruence.
    - apply Z.eqb_neq. apply addr_nonnull.
    - apply Z.eqb_neq. intros E. symmetry in E. revert E. apply addr_nonnull.
    - reflexivity.
  Qed.

  Theorem gen_list_init alloc p :
    let '(f, la, c, al, owned) := c9_list_init alloc in
    let l := list_new p in oaddr (l_first l) = f /\ oaddr (l_last l) = la /\ l_count l = c /\ al = alloc /\ owned = 0.
  Proof. cbn. repeat split. Qed.

  Theorem gen_list_unlink l :
    let '(f, la, c) := c9_list_unlink in
    let l' := list_unlink l in oaddr (l_first l') = f /\ oaddr (l_last l') = la /\ l_count l' = c /\ l_pool l' = l_pool l.
  Proof. cbn. repeat split. Qed.

  (* the three insertion functions: `it` is the link sc_mempool_alloc hands out *)
  Theorem gen_list_prepend l d alloc p it fr : mempool_alloc (l_pool l) = (p, Some it, fr) -> 0 <= l_count l -> l_count l + 1 < M64 ->
    let '(ret, f, la, c, ldata, lnext, a_called, a_arg) :=
        c9_list_prepend alloc (addr it) d (oaddr (l_first l)) (oaddr (l_last l)) (l_count l) in
    let l' := list_prepend l d in
    ret = addr it /\ oaddr (l_first l') = f /\ oaddr (l_last l') = la /\ l_count l' = c /\ l_pool l' = p /\
    fst (l_heap l' it) = ldata /\ oaddr (snd (l_heap l' it)) = lnext /\ a_called = 1 /\ a_arg = alloc /\
    (forall j, j <> it -> l_heap l' j = l_heap l j).
  Proof.
    intros E H0 H1. unfold c9_list_prepend, list_prepend. rewrite E, (u64_small (l_count l + 1)) by lia.
    cbn [l_first l_last l_count l_pool l_heap]. unfold hupd. rewrite item_eqb_refl. cbn [fst snd].
    repeat split; auto.
    - destruct (l_last l) as [x|]; cbn [oaddr].
      + destruct (Z.eqb_spec (addr x) 0) as [Q|Q]; [exfalso; revert Q; apply addr_nonnull|reflexivity].
      + reflexivity.
    - intros j Hj. rewrite item_eqb_neq by auto. reflexivity.
  Qed.

  (* list_last_next (output) = the next field of the link that was last on entry *)
  Theorem gen_list_append l d alloc p it fr oldnext : mempool_alloc (l_pool l) = (p, Some it, fr) -> 0 <= l_count l -> l_count l + 1 < M64 ->
    l_last l <> Some it ->
    let '(ret, f, la, c, ldata, lnext, lastnext, a_called, a_arg) :=
        c9_list_append alloc (addr it) d (oaddr (l_last l)) (oaddr (l_first l)) oldnext (l_count l) in
    let l' := list_append l d in
    ret = addr it /\ oaddr (l_first l') = f /\ oaddr (l_last l') = la /\ l_count l' = c /\ l_pool l' = p /\
    fst (l_heap l' it) = ldata /\ oaddr (snd (l_heap l' it)) = lnext /\ a_called = 1 /\ a_arg = alloc /\
    match l_last l with
    | Some x => oaddr (snd (l_heap l' x)) = lastnext /\ fst (l_heap l' x) = fst (l_heap l x) /\
                forall j, j <> it -> j <> x -> l_heap l' j = l_heap l j
    | None => lastnext = oldnext /\ forall j, j <> it -> l_heap l' j = l_heap l j
    end.
  Proof.
    intros E H0 H1 Hne. unfold c9_list_append, list_append. rewrite E, (u64_small (l_count l + 1)) by lia.
    destruct (l_last l) as [x|] eqn:EL; cbn [oaddr].
    - assert (Hx : x <> it) by congruence.
      destruct (Z.eqb_spec (addr x) 0) as [Q|Q]; [exfalso; revert Q; apply addr_nonnull|]. cbn [negb].
      cbn [l_first l_last l_count l_pool l_heap oaddr]. unfold hupd.
      rewrite (item_eqb_neq it x) by congruence. rewrite !item_eqb_refl. rewrite (item_eqb_neq x it) by congruence.
      cbn [fst snd oaddr]. repeat split; auto.
      intros j J1 J2. rewrite !item_eqb_neq by auto. reflexivity.
    - change (0 =? 0) with true. cbn [negb]. cbn [l_first l_last l_count l_pool l_heap oaddr]. unfold hupd.
      rewrite item_eqb_refl. cbn [fst snd oaddr]. repeat split; auto.
      intros j J. rewrite item_eqb_neq by auto. reflexivity.
  Qed.

  Theorem gen_list_insert l pred d alloc p it fr : mempool_alloc (l_pool l) = (p, Some it, fr) -> 0 <= l_count l -> l_count l + 1 < M64 ->
    pred <> it ->
    let '(ret, f, la, c, ldata, lnext, prednext, a_called, a_arg) :=
        c9_list_insert alloc (addr it) d (oaddr (snd (l_heap l pred))) (addr pred) (oaddr (l_last l)) (l_count l) (oaddr (l_first l)) in
    let l' := list_insert l pred d in
    ret = addr it /\ oaddr (l_first l') = f /\ oaddr (l_last l') = la /\ l_count l' = c /\ l_pool l' = p /\
    fst (l_heap l' it) = ldata /\ oaddr (snd (l_heap l' it)) = lnext /\ oaddr (snd (l_heap l' pred)) = prednext /\
    fst (l_heap l' pred) = fst (l_heap l pred) /\ a_called = 1 /\ a_arg = alloc /\
    (forall j, j <> it -> j <> pred -> l_heap l' j = l_heap l j).
  Proof.
    intros E H0 H1 Hne. unfold c9_list_insert, list_insert. rewrite E, (u64_small (l_count l + 1)) by lia.
    cbn [l_first l_last l_count l_pool l_heap]. unfold hupd.
    rewrite (item_eqb_neq it pred) by congruence. rewrite !item_eqb_refl. rewrite (item_eqb_neq pred it) by congruence.
    cbn [fst snd oaddr]. change (addr pred) with (oaddr (Some pred)). rewrite oaddr_eqb.
    repeat split; auto.
    - destruct (oitem_eqb (Some pred) (l_last l)); reflexivity.
    - intros j J1 J2. rewrite !item_eqb_neq by auto. reflexivity.
  Qed.

  (* sc_list_remove with pred <> NULL: lynk = pred->next is unlinked and returned to the allocator *)
  Theorem gen_list_remove l pred lynk alloc lst popret : snd (l_heap l pred) = Some lynk -> 0 < l_count l < M64 ->
    let '(ret, f, la, c, prednext, pop_called, pop_arg, f_called, f_alloc, f_item) :=
        c9_list_remove (addr pred) lst popret (oaddr (l_first l)) (oaddr (l_last l)) (l_count l) (addr lynk)
                       (oaddr (snd (l_heap l lynk))) (fst (l_heap l lynk)) alloc in
    let '(l', data) := list_remove l pred in
    ret = data /\ oaddr (l_first l') = f /\ oaddr (l_last l') = la /\ l_count l' = c /\
    oaddr (snd (l_heap l' pred)) = prednext /\ fst (l_heap l' pred) = fst (l_heap l pred) /\
    pop_called = 0 /\ f_called = 1 /\ f_alloc = alloc /\ f_item = addr lynk /\ l_pool l' = mempool_free (l_pool l) lynk /\
    (forall j, j <> pred -> l_heap l' j = l_heap l j).
  Proof.
    intros E H. unfold c9_list_remove, list_remove. rewrite E, (u64_small (l_count l - 1)) by lia.
    destruct (Z.eqb_spec (addr pred) 0) as [Q|Q]; [exfalso; revert Q; apply addr_nonnull|].
    cbn [l_first l_last l_count l_pool l_heap]. unfold hupd. rewrite item_eqb_refl. cbn [fst snd].
    change (addr lynk) with (oaddr (Some lynk)). rewrite oaddr_eqb.
    repeat split; auto.
    - destruct (oitem_eqb (l_last l) (Some lynk)); reflexivity.
    - intros j J. rewrite item_eqb_neq by auto. reflexivity.
  Qed.

  (* sc_list_remove (list, NULL) is sc_list_pop *)
  Theorem gen_list_remove_null lst popret f la c pn ln ld alloc :
    let '(ret, f', la', c', pn', pop_called, pop_arg, f_called, _, _) := c9_list_remove 0 lst popret f la c pn ln ld alloc in
    ret = popret /\ pop_called = 1 /\ pop_arg = lst /\ f_called = 0 /\ f' = f /\ la' = la /\ c' = c /\ pn' = pn.
  Proof. cbn. repeat split. Qed.

  Theorem gen_list_pop l lynk alloc : l_first l = Some lynk -> 0 < l_count l < M64 ->
    let '(ret, f, la, c, f_called, f_alloc, f_item) :=
        c9_list_pop (addr lynk) (oaddr (snd (l_heap l lynk))) (fst (l_heap l lynk)) alloc (oaddr (l_last l)) (l_count l) in
    let '(l', data) := list_pop l in
    ret = data /\ oaddr (l_first l') = f /\ oaddr (l_last l') = la /\ l_count l' = c /\
    f_called = 1 /\ f_alloc = alloc /\ f_item = addr lynk /\ l_pool l' = mempool_free (l_pool l) lynk /\ l_heap l' = l_heap l.
  Proof.
    intros E H. unfold c9_list_pop, list_pop. rewrite E, (u64_small (l_count l - 1)) by lia.
    cbn [l_first l_last l_count l_pool l_heap]. repeat split; auto.
    destruct (snd (l_heap l lynk)) as [x|]; cbn [oaddr].
    - destruct (Z.eqb_spec (addr x) 0) as [Q|Q]; [exfalso; revert Q; apply addr_nonnull|reflexivity].
    - reflexivity.
  Qed.

  (* one iteration of the loop of sc_list_reset = one unfolding of free_chain *)
  Theorem gen_list_reset_step fuel h i p cnt alloc : 0 < cnt < M64 ->
    let '(nxt, c, f_called, f_alloc, f_item) := c9_list_reset_step (addr i) cnt (oaddr (snd (h i))) alloc in
    f_called = 1 /\ f_alloc = alloc /\ f_item = addr i /\ nxt = oaddr (snd (h i)) /\
    free_chain (S fuel) h (Some i) p cnt = free_chain fuel h (snd (h i)) (mempool_free p i) c.
  Proof. intros H. unfold c9_list_reset_step. rewrite u64_small by lia. cbn. repeat split. Qed.
End ListTies.

(* ---------------------------------------------------------------------------------------------------------------- *)
(* hash table: the slot of a key; hash array; recycle array                                                         *)
(* ---------------------------------------------------------------------------------------------------------------- *)
Theorem gen_hash_slot (key : Type) (hf : key -> Z) n k : 0 < n ->
  Z.of_nat (slot_of key hf n k) = c9_hash_slot_lookup (u32 (hf k)) n /\
  Z.of_nat (slot_of key hf n k) = c9_hash_slot_insert (u32 (hf k)) n /\
  Z.of_nat (slot_of key hf n k) = c9_hash_slot_remove (u32 (hf k)) n /\
  Z.of_nat (slot_of key hf n k) = c9_hash_slot_rehash (u32 (hf k)) n.
Proof.
  intros H. unfold slot_of, c9_hash_slot_lookup, c9_hash_slot_insert, c9_hash_slot_remove, c9_hash_slot_rehash.
  rewrite Z2Nat.id by (apply Z.mod_pos_bound; lia). auto.
Qed.

(* sc_hash_array_insert_unique: a = result of sc_hash_insert_unique on the key (void * ) -1, fnd = the position found
   in the table when nothing was added; position <> NULL *)
Theorem gen_harr_insert (elem : Type) (hfu : elem -> Z) (equ : elem -> elem -> bool) (a : harray elem) (v : elem)
    vp hp posp pd aa pr :
  posp <> 0 -> Z.of_nat (length (ha_arr elem a)) < M64 ->
  let hf := ha_hf elem hfu (ha_arr elem a) v in
  let eq := ha_eq elem equ (ha_arr elem a) v in
  let '(h1, (added, found)) := insert_unique Z hf eq (ha_h elem a) (-1) in
  let fnd := match found with Some p => p | None => -1 end in
  let '(ret, pos, stored, cur, i_called, i_arg0, i_key, p_called, p_arr) :=
      c9_harr_insert vp hp (b2z added) posp pd (Z.of_nat (length (ha_arr elem a))) aa pr fnd in
  let '(a', (added', pos')) := ha_insert elem hfu equ a v in
  added' = added /\ pos' = pos /\ cur = 0 /\ i_called = 1 /\ i_arg0 = hp /\ s64 i_key = -1 /\ p_called = b2z added /\
  (added = true -> stored = Z.of_nat (length (ha_arr elem a)) /\ ret = pr /\ p_arr = aa /\
                   ha_arr elem a' = ha_arr elem a ++ [v] /\
                   ha_h elem a' = fst (assign Z hf eq h1 (-1) stored)) /\
  (added = false -> stored = fnd /\ ret = 0 /\ a' = mkHa elem (ha_arr elem a) h1).
Proof.
  intros Hp Hl. cbv zeta. unfold ha_insert.
  destruct (insert_unique Z (ha_hf elem hfu (ha_arr elem a) v) (ha_eq elem equ (ha_arr elem a) v) (ha_h elem a) (-1))
    as [h1 [added found]] eqn:EI.
  unfold c9_harr_insert. destruct (Z.eqb_spec posp 0) as [Q|Q]; [contradiction|]. cbn [negb].
  destruct added; cbn [b2z z2b Z.eqb negb].
  - destruct (assign Z _ _ h1 (-1) (Z.of_nat (length (ha_arr elem a)))) as [h2 b] eqn:EA.
    repeat split; auto; try discriminate.
  - repeat split; auto; try discriminate.
Qed.

Theorem gen_harr_lookup (elem : Type) (hfu : elem -> Z) (equ : elem -> elem -> bool) (a : harray elem) (v : elem)
    vp hp posp pd :
  posp <> 0 ->
  let o := ha_lookup elem hfu equ a v in
  let '(ret, pos, cur, l_called, l_arg0, l_key) :=
      c9_harr_lookup vp hp (match o with Some _ => 1 | None => 0 end) posp pd (match o with Some p => p | None => 0 end) in
  cur = 0 /\ l_called = 1 /\ l_arg0 = hp /\ s64 l_key = -1 /\
  match o with Some p => ret = 1 /\ pos = p | None => ret = 0 /\ pos = pd end.
Proof.
  intros Hp. cbv zeta. unfold c9_harr_lookup. destruct (Z.eqb_spec posp 0) as [Q|Q]; [contradiction|]. cbn [negb].
  destruct (ha_lookup elem hfu equ a v); cbn; repeat split; auto.
Qed.

(* recycle array: top = the position read from the popped slot of f (the head of the model's stack) *)
Theorem gen_rec_insert r junk af aa ip pr posp pd : posp <> 0 -> 0 <= ra_count r -> ra_count r + 1 < M64 ->
  let top := hd 0 (ra_f r) in
  let '(ret, pos, cnt, pop_called, pop_arr, ix_called, ix_arr, ix_pos, push_called, push_arr) :=
      c9_rec_insert (Z.of_nat (length (ra_f r))) af top aa ip (Z.of_nat (length (ra_a r))) pr posp pd (ra_count r) in
  let '(r', p) := ra_insert r junk in
  p = pos /\ ra_count r' = cnt /\
  match ra_f r with
  | _ :: f' => pop_called = 1 /\ pop_arr = af /\ ix_called = 1 /\ ix_arr = aa /\ ix_pos = p /\ push_called = 0 /\ ret = ip /\
               ra_f r' = f' /\ ra_a r' = ra_a r
  | [] => pop_called = 0 /\ ix_called = 0 /\ push_called = 1 /\ push_arr = aa /\ ret = pr /\
          ra_f r' = [] /\ length (ra_a r') = S (length (ra_a r))
  end.
Proof.
  intros Hp H0 H1. cbv zeta. unfold c9_rec_insert, ra_insert. rewrite (u64_small (ra_count r + 1)) by lia.
  destruct (Z.eqb_spec posp 0) as [Q|Q]; [contradiction|]. cbn [negb].
  destruct (ra_f r) as [|q f'].
  - cbn [length Z.of_nat hd]. change (0 <? 0) with false. cbv iota. cbn [ra_count ra_f ra_a].
    repeat split; auto. rewrite app_length. cbn. lia.
  - assert (L : 0 <? Z.of_nat (length (q :: f')) = true) by (apply Z.ltb_lt; cbn [length]; lia). rewrite L.
    cbn [hd ra_count ra_f ra_a]. repeat split; auto.
Qed.

Theorem gen_rec_remove r pos af aa ip : 0 < ra_count r < M64 ->
  let '(ret, cnt, stored, push_called, push_arr, ix_called, ix_arr, ix_pos) := c9_rec_remove af pos (ra_count r) aa ip in
  let '(r', _) := ra_remove r pos in
  ra_count r' = cnt /\ ra_f r' = stored :: ra_f r /\ ra_a r' = ra_a r /\ push_called = 1 /\ push_arr = af /\
  ix_called = 1 /\ ix_arr = aa /\ ix_pos = pos /\ ret = ip.
Proof. intros H. unfold c9_rec_remove, ra_remove. rewrite u64_small by lia. cbn. repeat split. Qed.

Theorem gen_rec_init_reset r aa af esz :
  let '(c0, i1, i1_arr, i1_esz, i2, i2_arr, i2_esz) := c9_rec_init aa esz af in
  let '(c1, r1, r1_arr, r2, r2_arr) := c9_rec_reset aa af in
  ra_count ra_init = c0 /\ ra_count (ra_reset r) = c1 /\ i1 = 1 /\ i1_arr = aa /\ i1_esz = esz /\ i2 = 1 /\ i2_arr = af /\ i2_esz = 8 /\
  r1 = 1 /\ r1_arr = aa /\ r2 = 1 /\ r2_arr = af.
Proof. cbn. repeat split. Qed.

(* sc_array_index / sc_array_pop as used above: element addresses are base + size * index, pop removes the last *)
Theorem gen_array_index_pop base esz n : 0 < n -> 0 <= esz -> esz * n < M64 -> n < M64 ->
  c9_array_index base esz (n - 1) = base + esz * (n - 1) /\
  c9_array_pop n base esz = (c9_array_index base esz (n - 1), n - 1).
Proof.
  intros H0 H1 H2 H3. unfold c9_array_index, c9_array_pop. rewrite (u64_small (n - 1)) by lia.
  rewrite (u64_small (esz * (n - 1))) by nia. auto.
Qed.

(* ---------------------------------------------------------------------------------------------------------------- *)
(* AVL tree: loop bodies of avl_at / avl_index / avl_search_closest, rotation kind, CALC_COUNT                      *)
(* A node pointer is NULL exactly when the subtree is empty (hypotheses pl = 0 <-> l = E).                           *)
(* ---------------------------------------------------------------------------------------------------------------- *)
Section AvlTies.
  Variable key : Type.
  Variable cmp : key -> key -> Z.

  Definition nullp (p : Z) (t : tree key) : Prop := p = 0 <-> t = E.

  Lemma node_count p (t : tree key) : nullp p t -> (if z2b p then cnt key t else 0) = cnt key t.
  Proof.
    intros [A B]. unfold z2b. destruct (Z.eqb_spec p 0) as [Q|Q]; cbn [negb]; auto.
    rewrite (A Q). reflexivity.
  Qed.

  (* one iteration of avl_at at the node p = (l, y, r) *)
  Theorem gen_avl_at_step l y c r p pl pr u : nullp pl l -> 0 <= cnt key l -> cnt key l + 1 < M32 -> 0 <= u < M32 ->
    let '(stop, ret, nxt, u') := c9_avl_at_step p u pl (cnt key l) pr in
    (stop = 1 -> ret = p /\ at_ key (N l y c r) u = Some y) /\
    (stop = 0 -> (nxt = pl /\ u' = u /\ at_ key (N l y c r) u = at_ key l u) \/
                 (nxt = pr /\ 0 <= u' < M32 /\ at_ key (N l y c r) u = at_ key r u')) /\
    (stop = 0 \/ stop = 1).
  Proof.
    intros Hl H0 H1 Hu. unfold c9_avl_at_step. rewrite (node_count pl l Hl). cbn [at_].
    destruct (Z.ltb_spec u (cnt key l)) as [A|A].
    - repeat split; auto; try discriminate.
    - destruct (Z.ltb_spec (cnt key l) u) as [B|B].
      + rewrite (u32_id (cnt key l + 1)) by lia. rewrite (u32_id (u - (cnt key l + 1))) by lia.
        repeat split; auto; try discriminate. intros _. right. repeat split; auto; lia.
      + repeat split; auto; try discriminate.
  Qed.

  (* one step of the upward walk of avl_index from the child `ch` to its parent (l, y, r): the rank grows by
     cnt l + 1 exactly when the child is the right child - the amount `index` adds when it descends to the right *)
  Theorem gen_avl_index_step l y c r x acc ch pp pl pr : nullp pl l -> 0 <= cnt key l -> 0 <= acc -> acc + cnt key l + 1 < M32 ->
    (0 < cmp x y -> ch = pr) -> (cmp x y < 0 -> ch <> pr) -> cmp x y <> 0 ->
    let '(nxt, acc') := c9_avl_index_step ch acc pp pr pl (cnt key l) in
    nxt = pp /\ index key cmp (N l y c r) x acc = index key cmp (if cmp x y <? 0 then l else r) x acc'.
  Proof.
    intros Hl H0 H1 H2 HR HL HN. unfold c9_avl_index_step. rewrite (node_count pl l Hl). cbn [index].
    destruct (Z.ltb_spec (cmp x y) 0) as [A|A].
    - destruct (Z.eqb_spec ch pr) as [Q|Q]; [exfalso; apply (HL A Q)|]. auto.
    - destruct (Z.ltb_spec 0 (cmp x y)) as [B|B]; [|lia].
      rewrite (HR B), Z.eqb_refl. rewrite (u32_id (cnt key l + 1)) by lia. rewrite u32_id by lia.
      split; auto. f_equal. lia.
  Qed.

  (* one iteration of avl_search_closest at the node p = (l, y, r) *)
  Theorem gen_avl_search_step l y c r x p pl pr out : nullp pl l -> nullp pr r ->
    let '(stop, ret, nxt, out') := c9_avl_search_step (cmp x y) pl out p pr in
    (stop = 1 -> out' = p /\ closest key cmp (N l y c r) x = Some (y, ret)) /\
    (stop = 0 -> out' = out /\ ((nxt = pl /\ l <> E /\ closest key cmp (N l y c r) x = closest key cmp l x) \/
                                (nxt = pr /\ r <> E /\ closest key cmp (N l y c r) x = closest key cmp r x))) /\
    (stop = 0 \/ stop = 1).
  Proof.
    intros [L1 L2] [R1 R2]. unfold c9_avl_search_step, z2b. cbn [closest].
    destruct (Z.ltb_spec (cmp x y) 0) as [A|A].
    - destruct (Z.eqb_spec pl 0) as [Q|Q]; cbn [negb].
      + rewrite (L1 Q). repeat split; auto; try discriminate.
      + assert (l <> E) by (intros X; apply Q; auto). destruct l; [contradiction|].
        repeat split; auto; try discriminate.
    - destruct (Z.ltb_spec 0 (cmp x y)) as [B|B].
      + destruct (Z.eqb_spec pr 0) as [Q|Q]; cbn [negb].
        * rewrite (R1 Q). repeat split; auto; try discriminate.
        * assert (r <> E) by (intros X; apply Q; auto). destruct r; [contradiction|].
          repeat split; auto; try discriminate.
      + repeat split; auto; try discriminate.
  Qed.

  (* the single / double rotation tests of avl_rebalance are the tests of `rebal` *)
  Theorem gen_avl_rotation_kind (a b : tree key) pa pb : nullp pa a -> nullp pb b ->
    c9_avl_left_single pa (cnt key a) pb (cnt key b) = (cnt key b <=? cnt key a) /\
    c9_avl_right_single pb (cnt key b) pa (cnt key a) = (cnt key a <=? cnt key b).
  Proof.
    intros Ha Hb. unfold c9_avl_left_single, c9_avl_right_single.
    rewrite (node_count pa a Ha), (node_count pb b Hb). auto.
  Qed.

  (* CALC_COUNT is the count `mk` stores (below 2^32) *)
  Theorem gen_avl_calc_count (l r : tree key) x pl pr : nullp pl l -> nullp pr r ->
    0 <= cnt key l -> 0 <= cnt key r -> cnt key l + cnt key r + 1 < M32 ->
    cnt key (mk key l x r) = c9_avl_calc_count pl (cnt key l) pr (cnt key r).
  Proof.
    intros Hl Hr H0 H1 H2. unfold c9_avl_calc_count, mk. rewrite (node_count pl l Hl), (node_count pr r Hr).
    cbn [cnt]. rewrite (u32_id (cnt key l + cnt key r)) by lia. rewrite u32_id by lia. reflexivity.
  Qed.

  (* Which fields of the node OBJECT the insert functions overwrite before they link it in.  An object may carry stale
     left / right / count (unlinked earlier, or never initialised): avl_clear_node sets exactly the fields `clear_node`
     sets (left = right = NULL, count = 1); avl_insert_top, avl_insert_before and avl_insert_after call it on the new node
     on the path that links the node in (so what they link in is `leaf_of o`), and set its prev / next / parent;
     avl_init_node stores the item and nothing else (`init_node`; it makes no call of avl_clear_node: the slice has no such
     ghost output). *)
  Theorem gen_avl_insert_clears (o : nobj key) np itemp olditem pl pr node nprev nprevnext head nnext nnextprev tail treep :
    np <> 0 ->
    let '(cl, cr, cc) := c9_avl_clear_node in
    nullp cl (o_left key (clear_node key o)) /\ nullp cr (o_right key (clear_node key o)) /\ cc = o_count key (clear_node key o) /\
    leaf_of key o = N E (o_item key o) cc E /\
    (let '(ret, it, l, r, c) := c9_avl_init_node np itemp olditem pl pr (o_count key o) in
     ret = np /\ it = itemp /\ l = pl /\ r = pr /\ c = o_count key (init_node key o (o_item key o))) /\
    (let '(ret, p, n, pa, hd, tl, top, cl_called, cl_arg) := c9_avl_insert_top np in
     cl_called = 1 /\ cl_arg = np /\ ret = np /\ p = 0 /\ n = 0 /\ pa = 0 /\ hd = np /\ tl = np /\ top = np) /\
    (let '(ret, n, pa, p, pn, hd, ndprev, ndleft, cl_called, cl_arg, rb_called, rb_tree, rb_node) :=
         c9_avl_insert_before_link np node nprev head nprevnext treep in
     cl_called = 1 /\ cl_arg = np /\ ret = np /\ n = node /\ pa = node /\ p = nprev /\ ndprev = np /\ ndleft = np /\
     rb_called = 1 /\ rb_tree = treep /\ rb_node = node /\
     (nprev <> 0 -> pn = np /\ hd = head) /\ (nprev = 0 -> hd = np /\ pn = nprevnext)) /\
    (let '(ret, p, pa, n, nxp, tl, ndnext, ndright, cl_called, cl_arg, rb_called, rb_tree, rb_node) :=
         c9_avl_insert_after_link np node nnext tail nnextprev treep in
     cl_called = 1 /\ cl_arg = np /\ ret = np /\ p = node /\ pa = node /\ n = nnext /\ ndnext = np /\ ndright = np /\
     rb_called = 1 /\ rb_tree = treep /\ rb_node = node /\
     (nnext <> 0 -> nxp = np /\ tl = tail) /\ (nnext = 0 -> tl = np /\ nxp = nnextprev)).
  Proof.
    intros Hnp. unfold c9_avl_clear_node, c9_avl_init_node, c9_avl_insert_top, c9_avl_insert_before_link, c9_avl_insert_after_link, nullp, z2b.
    cbn [clear_node init_node o_left o_right o_count o_item leaf_of as_tree].
    destruct (Z.eqb_spec np 0) as [Q|Q]; [contradiction|]. cbn [negb].
    split; [split; auto|]. split; [split; auto|]. split; [reflexivity|]. split; [reflexivity|].
    split; [repeat split; auto|]. split; [repeat split; auto|].
    split.
    - destruct (Z.eqb_spec nprev 0) as [A|A]; cbn [negb]; repeat split; auto; try contradiction; intros; congruence.
    - destruct (Z.eqb_spec nnext 0) as [A|A]; cbn [negb]; repeat split; auto; try contradiction; intros; congruence.
  Qed.
End AvlTies.

(* the counts are recomputed bottom-up, as the nested `mk` of `rebal` do: avlnode (1) and child (2) before gchild (3),
   avlnode before child in the single rotations (child is the new parent of avlnode) *)
Theorem gen_avl_count_order : c9_avl_count_order = [1; 2;  1; 2; 3;  1; 2;  1; 2; 3;  1].
Proof. reflexivity. Qed.

(* ---------------------------------------------------------------------------------------------------------------- *)
(* key-value store: the type codes, the status logic of sc_keyvalue_get_int_check, exists, unset                     *)
(* ---------------------------------------------------------------------------------------------------------------- *)
Theorem gen_kv_types :
  c9_SC_KEYVALUE_ENTRY_NONE = 0 /\ c9_SC_KEYVALUE_ENTRY_INT = 1 /\ c9_SC_KEYVALUE_ENTRY_DOUBLE = 2 /\
  c9_SC_KEYVALUE_ENTRY_STRING = 3 /\ c9_SC_KEYVALUE_ENTRY_POINTER = 4.
Proof. repeat split. Qed.

Section KvTies.
  Variable K : Type.
  Variable hfk : K -> Z.
  Variable keq : K -> K -> bool.

  Definition found_flag (o : option (entry K)) : Z := match o with Some _ => 1 | None => 0 end.
  Definition found_type (o : option (entry K)) : Z := match o with Some e => e_type K e | None => 0 end.
  Definition found_val (o : option (entry K)) : Z := match o with Some e => e_val K e | None => 0 end.

  (* status <> NULL; st = *status on entry; the entry found has a type code in the enum's range *)
  Theorem gen_kv_get_int_check s k statusp st keyp hp fp : statusp <> 0 ->
    let o := kv_lookup K hfk keq s k in
    0 <= found_type o < M32 ->
    let '(ret, st', probe_key, l_called, l_arg0) :=
        c9_kv_get_int_check statusp st keyp c9_SC_KEYVALUE_ENTRY_NONE hp (found_flag o) fp (found_type o)
                            c9_SC_KEYVALUE_ENTRY_INT (found_val o) in
    kv_get_int_check K hfk keq s k st = (ret, st') /\ probe_key = keyp /\ l_called = 1 /\ l_arg0 = hp.
  Proof.
    intros Hp. cbv zeta. intros Ht. unfold c9_kv_get_int_check, kv_get_int_check.
    destruct (Z.eqb_spec statusp 0) as [Q|Q]; [contradiction|]. cbn [negb].
    destruct (kv_lookup K hfk keq s k) as [e|]; cbn [found_flag found_type found_val z2b Z.eqb negb] in *.
    - change (u32 c9_SC_KEYVALUE_ENTRY_INT) with 1. destruct (Z.eqb_spec (e_type K e) 1); repeat split; auto.
    - repeat split; auto.
  Qed.

  Theorem gen_kv_exists s k keyp hp fp :
    let o := kv_lookup K hfk keq s k in
    let '(ret, probe_key, l_called, l_arg0) := c9_kv_exists keyp c9_SC_KEYVALUE_ENTRY_NONE hp (found_flag o) fp (found_type o) in
    kv_exists K hfk keq s k = ret /\ probe_key = keyp /\ l_called = 1 /\ l_arg0 = hp.
  Proof.
    cbv zeta. unfold c9_kv_exists, kv_exists.
    destruct (kv_lookup K hfk keq s k) as [e|]; cbn; repeat split; auto.
  Qed.

  (* sc_keyvalue_unset: the entry handed back by sc_hash_remove is returned to the entry allocator *)
  Theorem gen_kv_unset s k keyp hp ep ap :
    let '(h', found) := remove (entry K) (ehf K hfk) (eeq K keq) (kv_hash K s) (probe K k) in
    let '(ret, probe_key, r_called, r_arg0, f_called, f_alloc, f_item) :=
        c9_kv_unset keyp c9_SC_KEYVALUE_ENTRY_NONE hp (found_flag found) ep (found_type found) ap in
    let '(s', ty) := kv_unset K hfk keq s k in
    ty = ret /\ probe_key = keyp /\ r_called = 1 /\ r_arg0 = hp /\ kv_pool K s' = kv_pool K s - f_called /\
    (f_called = 1 -> f_alloc = ap /\ f_item = ep) /\ f_called = found_flag found.
  Proof.
    unfold kv_unset. destruct (remove (entry K) (ehf K hfk) (eeq K keq) (kv_hash K s) (probe K k)) as [h' found].
    unfold c9_kv_unset. destruct found as [e|]; cbn; repeat split; auto; lia.
  Qed.
End KvTies.
