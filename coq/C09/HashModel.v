(* C09 - executable model of libsc's hash table (src/sc_containers.c, the sc_hash functions).
   The table is an array of slot lists; the model keeps the exact slot lists, the element counter,
   the resize counters and the number of links drawn from the link allocator.  The integer decisions
   (initial size, when sc_hash_maybe_resize is called, its thresholds and new sizes) are the constants
   GENERATED from the repository's source by the translator (Gen/HashResize.v).
   Definitions only; proofs are in HashProofs.v. *)
From Coq Require Import ZArith List Bool.
From ScV Require Import Base.CInt Gen.HashResize.
Import ListNotations.
Local Open Scope Z_scope.

(* replace position i of a list (no effect beyond the end) *)
Fixpoint upd {A : Type} (i : nat) (x : A) (l : list A) : list A :=
  match l, i with
  | [], _ => []
  | _ :: t, O => x :: t
  | a :: t, S j => a :: upd j x t
  end.

(* remove / replace the first element satisfying p *)
Fixpoint remove_first {A : Type} (p : A -> bool) (l : list A) : list A :=
  match l with
  | [] => []
  | a :: t => if p a then t else a :: remove_first p t
  end.

Fixpoint replace_first {A : Type} (p : A -> bool) (y : A) (l : list A) : list A :=
  match l with
  | [] => []
  | a :: t => if p a then y :: t else a :: replace_first p y t
  end.

Section Hash.
  Variable key : Type.
  Variable hf : key -> Z.              (* hash_fn: any function *)
  Variable eqb : key -> key -> bool.   (* equal_fn (stored element, argument) *)

  Record hash := mkHash {
    slots : list (list key);     (* hash->slots: one sc_list per slot, first..last *)
    hcount : Z;                  (* hash->elem_count *)
    hchecks : Z;                 (* hash->resize_checks *)
    hactions : Z;                (* hash->resize_actions *)
    hlinks : Z;                  (* hash->allocator->elem_count: links currently allocated *)
    howned : bool                (* hash->allocator_owned *)
  }.

  Definition nslots (h : hash) : Z := Z.of_nat (length (slots h)).

  (* hval = hash_fn (v, user_data) % slots->elem_count, with hash_fn returning unsigned int *)
  Definition slot_of (n : Z) (k : key) : nat := Z.to_nat (u32 (hf k) mod n).

  Definition matches (k : key) : key -> bool := fun x => eqb x k.

  Definition hash_new (owned : bool) (links : Z) : hash :=
    mkHash (repeat [] (Z.to_nat hash_initial_size)) 0 0 0 links owned.

  (* sc_hash_maybe_resize: walk the old slots in order, every list from first to last, and PREPEND
     each element to its new slot list *)
  Definition rehash_put (ns : Z) (acc : list (list key)) (k : key) : list (list key) :=
    let j := slot_of ns k in upd j (k :: nth j acc []) acc.

  Definition rehash (ns : Z) (old : list (list key)) : list (list key) :=
    fold_left (rehash_put ns) (concat old) (repeat [] (Z.to_nat ns)).

  Definition maybe_resize (h : hash) : hash :=
    match hash_new_size (hcount h) (nslots h) with
    | None => mkHash (slots h) (hcount h) (hchecks h + 1) (hactions h) (hlinks h) (howned h)
    | Some ns => mkHash (rehash ns (slots h)) (hcount h) (hchecks h + 1) (hactions h + 1) (hlinks h) (howned h)
    end.

  (* sc_hash_lookup: *found = &lynk->data of the first equal element in the slot list *)
  Definition lookup (h : hash) (k : key) : option key :=
    find (matches k) (nth (slot_of (nslots h) k) (slots h) []).

  (* sc_hash_insert_unique; second component: (added, **found) *)
  Definition insert_unique (h : hash) (k : key) : hash * (bool * option key) :=
    let i := slot_of (nslots h) k in
    let l := nth i (slots h) [] in
    match find (matches k) l with
    | Some x => (h, (false, Some x))
    | None =>
      let h1 := mkHash (upd i (l ++ [k]) (slots h)) (hcount h + 1) (hchecks h) (hactions h) (hlinks h + 1) (howned h) in
      if hash_insert_checks (hcount h1) (nslots h1)
      then let h2 := maybe_resize h1 in (h2, (true, lookup h2 k))
      else (h1, (true, Some k))
    end.

  (* sc_hash_remove; second component: the removed element *)
  Definition remove (h : hash) (k : key) : hash * option key :=
    let i := slot_of (nslots h) k in
    let l := nth i (slots h) [] in
    match find (matches k) l with
    | None => (h, None)
    | Some x =>
      let h1 := mkHash (upd i (remove_first (matches k) l) (slots h)) (hcount h - 1) (hchecks h) (hactions h) (hlinks h - 1) (howned h) in
      ((if hash_remove_checks (hcount h1) then maybe_resize h1 else h1), Some x)
    end.

  (* sc_hash_lookup followed by the documented override `**found = nk` *)
  Definition assign (h : hash) (k nk : key) : hash * bool :=
    let i := slot_of (nslots h) k in
    let l := nth i (slots h) [] in
    match find (matches k) l with
    | None => (h, false)
    | Some _ => (mkHash (upd i (replace_first (matches k) nk l) (slots h)) (hcount h) (hchecks h) (hactions h) (hlinks h) (howned h), true)
    end.

  (* sc_hash_foreach visits slot 0 first..last, slot 1, ... *)
  Definition elements (h : hash) : list key := concat (slots h).

  Definition unlink (h : hash) : hash :=
    mkHash (map (fun _ => []) (slots h)) 0 (hchecks h) (hactions h) (hlinks h) (howned h).

  Definition truncate (h : hash) : hash :=
    if hcount h =? 0 then h
    else if howned h
      then mkHash (map (fun _ => []) (slots h)) 0 (hchecks h) (hactions h) 0 (howned h)      (* unlink + sc_mempool_truncate *)
      else mkHash (map (fun _ => []) (slots h)) 0 (hchecks h) (hactions h)
                  (hlinks h - Z.of_nat (length (concat (slots h)))) (howned h).               (* sc_list_reset per slot *)

  Inductive hop : Type :=
  | HInsert (k : key) | HLookup (k : key) | HRemove (k : key) | HAssign (k nk : key)
  | HForeach | HTruncate | HUnlink | HCount.

  Inductive hout : Type :=
  | OIns (added : bool) (found : option key) | OLook (found : option key) | ORem (found : option key)
  | OAsg (ok : bool) | OList (l : list key) | OUnit | OCnt (n : Z).

  Definition step (h : hash) (op : hop) : hash * hout :=
    match op with
    | HInsert k => let '(h', (a, f)) := insert_unique h k in (h', OIns a f)
    | HLookup k => (h, OLook (lookup h k))
    | HRemove k => let '(h', f) := remove h k in (h', ORem f)
    | HAssign k nk => let '(h', b) := assign h k nk in (h', OAsg b)
    | HForeach => (h, OList (elements h))
    | HTruncate => (truncate h, OUnit)
    | HUnlink => (unlink h, OUnit)
    | HCount => (h, OCnt (hcount h))
    end.

  Fixpoint run_from (h : hash) (ops : list hop) : hash * list hout :=
    match ops with
    | [] => (h, [])
    | op :: r => let '(h1, o) := step h op in let '(h2, os) := run_from h1 r in (h2, o :: os)
    end.

  Definition run (owned : bool) (links : Z) (ops : list hop) := run_from (hash_new owned links) ops.

  (* ---- the abstract data type: a set modulo eqb, kept in insertion order ---- *)
  Definition set_step (s : list key) (op : hop) : list key * hout :=
    match op with
    | HInsert k => match find (matches k) s with
                   | Some x => (s, OIns false (Some x))
                   | None => (s ++ [k], OIns true (Some k))
                   end
    | HLookup k => (s, OLook (find (matches k) s))
    | HRemove k => match find (matches k) s with
                   | Some x => (remove_first (matches k) s, ORem (Some x))
                   | None => (s, ORem None)
                   end
    | HAssign k nk => match find (matches k) s with
                      | Some _ => (replace_first (matches k) nk s, OAsg true)
                      | None => (s, OAsg false)
                      end
    | HForeach => (s, OList s)
    | HTruncate | HUnlink => ([], OUnit)
    | HCount => (s, OCnt (Z.of_nat (length s)))
    end.

  Fixpoint set_run_from (s : list key) (ops : list hop) : list key * list hout :=
    match ops with
    | [] => (s, [])
    | op :: r => let '(s1, o) := set_step s op in let '(s2, os) := set_run_from s1 r in (s2, o :: os)
    end.

  Definition set_run (ops : list hop) := set_run_from [] ops.

  (* documented precondition: an override through **found must store an element equal to the old one *)
  Definition legal_op (op : hop) : Prop :=
    match op with HAssign k nk => eqb nk k = true | _ => True end.
End Hash.

Arguments HForeach {key}.  Arguments HTruncate {key}.  Arguments HUnlink {key}.  Arguments HCount {key}.
Arguments OUnit {key}.
