(* C09 - histories that empty a container and fill it again. *)
From Coq Require Import ZArith List Bool Permutation Lia.
From ScV Require Import Base.CInt Gen.HashResize C09.HashModel C09.HashProofs.
Import ListNotations.
Local Open Scope Z_scope.

Section Drain.
  Variable key : Type.
  Variable hf : key -> Z.
  Variable eqb : key -> key -> bool.
  Hypothesis eqb_refl : forall a, eqb a a = true.
  Hypothesis eqb_sym : forall a b, eqb a b = true -> eqb b a = true.
  Hypothesis eqb_trans : forall a b c, eqb a b = true -> eqb b c = true -> eqb a c = true.
  Hypothesis hf_compat : forall a b, eqb a b = true -> hf a = hf b.

  (* Whatever the first history did (growth of the slot array, collisions, overrides) - once it has removed every
     element again (by sc_hash_remove, truncate or unlink; the slot array may still be large and the resize counters
     are not reset), the table is indistinguishable from a new one: elem_count 0, nothing to iterate, and every
     further history produces the outputs of the set started from empty. *)
  Theorem hash_drain_refill owned links ops1 ops2 :
    Forall (legal_op key eqb) ops1 -> Forall (legal_op key eqb) ops2 -> fst (set_run key eqb ops1) = [] ->
    let h1 := fst (run key hf eqb owned links ops1) in
    hcount key h1 = 0 /\ elements key h1 = [] /\
    Forall2 (out_equiv key) (snd (run_from key hf eqb h1 ops2)) (snd (set_run key eqb ops2)) /\
    hcount key (fst (run_from key hf eqb h1 ops2)) = Z.of_nat (length (fst (set_run key eqb ops2))).
  Proof.
    intros L1 L2 E. cbv zeta. unfold run, set_run in *.
    destruct (run_from_R key hf eqb eqb_refl eqb_sym eqb_trans hf_compat ops1 _ _
                (new_R key hf eqb owned links) L1) as [R1 _].
    rewrite E in R1.
    destruct (run_from_R key hf eqb eqb_refl eqb_sym eqb_trans hf_compat ops2 _ _ R1 L2) as [R2 O2].
    split; [rewrite (R_cnt _ _ _ _ _ R1); reflexivity|].
    split; [apply Permutation_nil; apply Permutation_sym; apply (R_perm _ _ _ _ _ R1)|].
    split; [exact O2|]. apply (R_cnt _ _ _ _ _ R2).
  Qed.
End Drain.
