(* C09 - the recycle array never allocates a slot while a freed one exists: after every legal history the number of
   slots of the array `a` is the PEAK number of simultaneously live items since the last reset. *)
From Coq Require Import ZArith List Bool Lia.
From ScV Require Import Base.CInt C09.HashModel C09.RecycleModel C09.RecycleProofs.
Import ListNotations.
Local Open Scope Z_scope.

(* the largest elem_count seen since the last reset, computed along the run *)
Fixpoint peak_run (r : rarray) (pk : Z) (ops : list rop) : Z :=
  match ops with
  | [] => pk
  | op :: t => let r1 := fst (rstep r op) in
               peak_run r1 (match op with RReset => 0 | _ => Z.max pk (ra_count r1) end) t
  end.

Lemma upd_length_Z (i : nat) (x : Z) (l : list Z) : length (upd i x l) = length l.
Proof. revert i; induction l as [|a t IH]; intros [|i]; simpl; auto. Qed.

Lemma peak_step r m hw op : RInv r m hw -> rlegal m op ->
  let r1 := fst (rstep r op) in
  Z.of_nat (length (ra_a r1)) = match op with RReset => 0 | _ => Z.max hw (ra_count r1) end.
Proof.
  intros I L. pose proof (I_hw _ _ _ I) as Hhw. pose proof (I_sum _ _ _ I) as Hs. pose proof (I_cnt _ _ _ I) as Hc.
  destruct op as [junk v|p|p v|p| |]; cbn [rstep fst].
  - unfold ra_insert. destruct (ra_f r) as [|q f'] eqn:EF.
    + cbn [fst snd ra_write ra_a ra_count length] in *. rewrite upd_length_Z, app_length. cbn [length]. lia.
    + cbn [fst snd ra_write ra_a ra_count length] in *. rewrite upd_length_Z. lia.
  - cbn [ra_remove fst ra_a ra_count]. lia.
  - cbn [ra_write ra_a ra_count]. rewrite upd_length_Z. lia.
  - lia.
  - lia.
  - reflexivity.
Qed.

Lemma peak_run_spec ops : forall r m hw, RInv r m hw -> rlegal_run r (m, hw) ops ->
  Z.of_nat (length (ra_a (fst (rrun_from r ops)))) = peak_run r hw ops.
Proof.
  induction ops as [|op t IH]; intros r m hw I L; cbn [rlegal_run rrun_from peak_run fst] in *.
  - symmetry. apply (I_hw _ _ _ I).
  - destruct L as [L1 L2]. pose proof (peak_step r m hw op I L1) as PS. cbv zeta in PS.
    destruct (rstep r op) as [r1 o] eqn:E. cbn [fst] in *.
    destruct (step_RInv r m hw op I L1 r1 o E) as [_ I1].
    destruct (aspec_step (m, hw) op o) as [m1 hw1]. cbn [fst snd] in I1.
    pose proof (I_hw _ _ _ I1) as H1. rewrite <- PS, <- H1.
    specialize (IH r1 m1 hw1 I1 L2). destruct (rrun_from r1 t) as [r2 os]. exact IH.
Qed.

Theorem recycle_slots_are_peak : forall ops, rlegal_run ra_init ([], 0) ops ->
  Z.of_nat (length (ra_a (fst (rrun_from ra_init ops)))) = peak_run ra_init 0 ops.
Proof. intros ops L. apply (peak_run_spec ops _ _ _ RInv_init L). Qed.

(* a position that was just removed is the next one handed out (the freed positions form a stack) *)
Theorem recycle_reuse_lifo : forall r p junk, snd (ra_insert (fst (ra_remove r p)) junk) = p.
Proof. reflexivity. Qed.
