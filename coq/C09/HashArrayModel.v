(* C09 - executable model of sc_hash_array (src/sc_containers.c): an array of elements plus a hash table whose
   hashed items are array POSITIONS; position -1 stands for the element currently being looked up
   (internal_data->current_item).  Built on the hash table model, with the position-based hash and equality
   functions sc_hash_array_hash_fn / sc_hash_array_equal_fn.  Definitions only. *)
From Coq Require Import ZArith List Bool.
From ScV Require Import Base.CInt Gen.HashResize C09.HashModel.
Import ListNotations.
Local Open Scope Z_scope.

Section HashArray.
  Variable elem : Type.
  Variable hfu : elem -> Z.                (* the user's hash function on elements *)
  Variable equ : elem -> elem -> bool.     (* the user's equality on elements *)

  Record harray := mkHa {
    ha_arr : list elem;        (* hash_array->a *)
    ha_h : hash Z              (* hash_array->h, storing positions *)
  }.

  (* p == -1 ? current_item : sc_array_index (pa, p) *)
  Definition ha_get (arr : list elem) (cur : elem) (p : Z) : elem :=
    if p =? -1 then cur else nth (Z.to_nat p) arr cur.
  Definition ha_hf (arr : list elem) (cur : elem) (p : Z) : Z := hfu (ha_get arr cur p).
  Definition ha_eq (arr : list elem) (cur : elem) (p q : Z) : bool := equ (ha_get arr cur p) (ha_get arr cur q).

  Definition ha_new : harray := mkHa [] (hash_new Z true 0).

  (* sc_hash_array_lookup: the position of the element equal to v *)
  Definition ha_lookup (a : harray) (v : elem) : option Z :=
    lookup Z (ha_hf (ha_arr a) v) (ha_eq (ha_arr a) v) (ha_h a) (-1).

  (* sc_hash_array_insert_unique: (added, position); the caller copies v into the new array slot *)
  Definition ha_insert (a : harray) (v : elem) : harray * (bool * Z) :=
    let hf := ha_hf (ha_arr a) v in
    let eq := ha_eq (ha_arr a) v in
    let '(h1, (added, found)) := insert_unique Z hf eq (ha_h a) (-1) in
    if added then
      let pos := Z.of_nat (length (ha_arr a)) in
      let '(h2, _) := assign Z hf eq h1 (-1) pos in          (* store a.elem_count through found_void *)
      (mkHa (ha_arr a ++ [v]) h2, (true, pos))
    else (mkHa (ha_arr a) h1, (false, match found with Some p => p | None => -1 end)).

  Definition ha_truncate (a : harray) : harray := mkHa [] (truncate Z (ha_h a)).

  (* sc_hash_array_foreach hands the stored positions to the callback *)
  Definition ha_positions (a : harray) : list Z := elements Z (ha_h a).

  Inductive haop : Type := AInsert (v : elem) | ALookup (v : elem) | AForeach | ATruncate | ACount.
  Inductive haout : Type :=
  | AIns (added : bool) (pos : Z) | ALook (pos : option Z) | AList (l : list Z) | AUnit | ACnt (arr h : Z).

  Definition ha_step (a : harray) (op : haop) : harray * haout :=
    match op with
    | AInsert v => let '(a', (b, p)) := ha_insert a v in (a', AIns b p)
    | ALookup v => (a, ALook (ha_lookup a v))
    | AForeach => (a, AList (ha_positions a))
    | ATruncate => (ha_truncate a, AUnit)
    | ACount => (a, ACnt (Z.of_nat (length (ha_arr a))) (hcount Z (ha_h a)))
    end.

  Fixpoint ha_run_from (a : harray) (ops : list haop) : harray * list haout :=
    match ops with
    | [] => (a, [])
    | op :: r => let '(a1, o) := ha_step a op in let '(a2, os) := ha_run_from a1 r in (a2, o :: os)
    end.

  (* ---- the abstract data type: an insertion-ordered set; the position of an element is its insertion rank ---- *)
  Fixpoint find_index (p : elem -> bool) (l : list elem) (i : Z) : option Z :=
    match l with
    | [] => None
    | x :: t => if p x then Some i else find_index p t (i + 1)
    end.

  Definition positions (n : nat) : list Z := map Z.of_nat (seq 0 n).

  Definition oset_step (s : list elem) (op : haop) : list elem * haout :=
    match op with
    | AInsert v => match find_index (fun x => equ x v) s 0 with
                   | Some p => (s, AIns false p)
                   | None => (s ++ [v], AIns true (Z.of_nat (length s)))
                   end
    | ALookup v => (s, ALook (find_index (fun x => equ x v) s 0))
    | AForeach => (s, AList (positions (length s)))
    | ATruncate => ([], AUnit)
    | ACount => (s, ACnt (Z.of_nat (length s)) (Z.of_nat (length s)))
    end.

  Fixpoint oset_run_from (s : list elem) (ops : list haop) : list elem * list haout :=
    match ops with
    | [] => (s, [])
    | op :: r => let '(s1, o) := oset_step s op in let '(s2, os) := oset_run_from s1 r in (s2, o :: os)
    end.
End HashArray.

Arguments AForeach {elem}.  Arguments ATruncate {elem}.  Arguments ACount {elem}.
