(* C01/C02 - record arrays as sets of notifications: canonical construction from a selection predicate (`build`),
   extensionality, filters, and the int-level helpers of the per-rank programs on encoded arrays. *)
From Coq Require Import ZArith Lia List Bool Permutation Sorting.Sorted.
From ScV Require Import Base.CInt MPI.Prog Gen.Consts Gen.NotifyC01 C01.MergeModel C01.MergeProofs C01.MergeCorr
     C01.NotifyProgs C01.NotifyProgProofs.
Import ListNotations.
Local Open Scope Z_scope.

(* ---- extensionality ------------------------------------------------------------------------------------------ *)
Lemma ssorted_NoDup {A} (key : A -> Z) l : ssorted key l -> NoDup l.
Proof.
  induction 1 as [|x l Hs IH Hf]; constructor; [|assumption].
  intros Hin. rewrite Forall_forall in Hf. specialize (Hf _ Hin). lia.
Qed.

Lemma NoDup_app_intro {A} (l1 l2 : list A) : NoDup l1 -> NoDup l2 -> (forall x, In x l1 -> In x l2 -> False) -> NoDup (l1 ++ l2).
Proof.
  induction 1 as [|x l Hx Hn IH]; intros H2 Hd; simpl; [assumption|]. constructor.
  - intros Hin. apply in_app_or in Hin. destruct Hin as [Hin|Hin]; [contradiction|]. apply (Hd x); [left; reflexivity|assumption].
  - apply IH; [assumption|]. intros y Hy1 Hy2. apply (Hd y); [right; assumption|assumption].
Qed.

Lemma wfr_pairs_NoDup rs : wfr rs -> NoDup (pairs rs).
Proof.
  induction rs as [|r rs IH]; intros Hw; [constructor|].
  destruct (wfr_inv _ _ Hw) as [W [F [N S]]]. rewrite pairs_cons. apply NoDup_app_intro.
  - apply FinFun.Injective_map_NoDup; [intros a b E; inversion E; reflexivity|]. eapply ssorted_NoDup; eassumption.
  - apply IH; assumption.
  - intros [t x] H1 H2. apply in_map_iff in H1. destruct H1 as [it [E _]]. inversion E; subst.
    apply in_pairs in H2. destruct H2 as [q [Hq [Eq _]]]. rewrite Forall_forall in F. specialize (F _ Hq). lia.
Qed.

Theorem wfr_ext a b : wfr a -> wfr b -> (forall p, In p (pairs a) <-> In p (pairs b)) -> a = b.
Proof.
  intros Ha Hb H. apply wfr_canonical; try assumption.
  apply NoDup_Permutation; [apply wfr_pairs_NoDup|apply wfr_pairs_NoDup|]; assumption.
Qed.

(* ---- filtering records by their destination -------------------------------------------------------------------- *)
Definition rfilter (g : Z -> bool) (rs : list rcd) : list rcd := filter (fun r => g (fst r)) rs.

Lemma rfilter_wfr g rs : wfr rs -> wfr (rfilter g rs).
Proof.
  intros [S F]. split; [apply filter_ssorted; assumption|].
  apply Forall_forall. intros r Hr. apply filter_In in Hr. rewrite Forall_forall in F. apply F. tauto.
Qed.

Lemma rfilter_pairs g rs t x : In (t, x) (pairs (rfilter g rs)) <-> In (t, x) (pairs rs) /\ g t = true.
Proof.
  rewrite !in_pairs. unfold rfilter. split.
  - intros [r [Hr [E Hx]]]. apply filter_In in Hr. destruct Hr as [Hr Hg]. subst t. split; [exists r; auto|assumption].
  - intros [[r [Hr [E Hx]]] Hg]. exists r. split; [apply filter_In; subst t; auto|auto].
Qed.

Lemma rfilter_wfpay n g rs : wfpay n rs -> wfpay n (rfilter g rs).
Proof.
  unfold wfpay. rewrite !Forall_forall. intros H r Hr. apply filter_In in Hr. apply H. tauto.
Qed.

(* ---- canonical record array of a set of notifications ------------------------------------------------------------ *)
(* destinations t and senders f range over 0..G-1; sel t f: the notification of f for t is in the set; payf f t: its
   payload ints *)
Definition build (G : Z) (sel : Z -> Z -> bool) (payf : Z -> Z -> list Z) : list rcd :=
  flat_map (fun t => match map (fun f => (f, payf f t)) (filter (sel t) (ranks G)) with
                     | [] => []
                     | items => [(t, items)]
                     end) (ranks G).

Lemma build_in_rec G sel payf r : In r (build G sel payf) ->
  0 <= fst r < G /\ snd r = map (fun f => (f, payf f (fst r))) (filter (sel (fst r)) (ranks G)) /\ snd r <> [].
Proof.
  unfold build. rewrite in_flat_map. intros [t [Ht Hr]]. apply in_ranks in Ht.
  destruct (map (fun f => (f, payf f t)) (filter (sel t) (ranks G))) eqn:E; [destruct Hr|].
  destruct Hr as [<-|[]]. cbn [fst snd]. split; [assumption|]. split; [symmetry; assumption|discriminate].
Qed.

Lemma build_pairs G sel payf t f p :
  In (t, (f, p)) (pairs (build G sel payf)) <-> 0 <= t < G /\ 0 <= f < G /\ sel t f = true /\ p = payf f t.
Proof.
  rewrite in_pairs. split.
  - intros [r [Hr [E Hx]]]. destruct (build_in_rec _ _ _ _ Hr) as [Ht [Hs _]]. subst t. rewrite Hs in Hx.
    apply in_map_iff in Hx. destruct Hx as [f' [E Hf]]. inversion E; subst. apply filter_In in Hf. destruct Hf as [Hf Hsel].
    apply in_ranks in Hf. auto.
  - intros [Ht [Hf [Hsel ->]]].
    assert (Hin : In (f, payf f t) (map (fun f => (f, payf f t)) (filter (sel t) (ranks G)))).
    { apply in_map_iff. exists f. split; [reflexivity|]. apply filter_In. split; [apply in_ranks; assumption|assumption]. }
    destruct (map (fun f => (f, payf f t)) (filter (sel t) (ranks G))) as [|i l] eqn:E; [destruct Hin|].
    exists (t, i :: l). split; [|split; [reflexivity|exact Hin]].
    unfold build. apply in_flat_map. exists t. split; [apply in_ranks; assumption|]. rewrite E. left. reflexivity.
Qed.

Lemma build_wfr G sel payf : wfr (build G sel payf).
Proof.
  split.
  - unfold build, ranks. generalize (seq_ssorted (Z.to_nat G) 0). generalize (map Z.of_nat (seq 0 (Z.to_nat G))) at 1 3.
    intros l. induction 1 as [|t l Hs IH Hf]; [constructor|]. cbn [flat_map].
    set (items := map (fun f => (f, payf f t)) (filter (sel t) (map Z.of_nat (seq 0 (Z.to_nat G))))).
    assert (Hrest : Forall (fun q : rcd => t < fst q)
                           (flat_map (fun t0 => match map (fun f => (f, payf f t0)) (filter (sel t0) (map Z.of_nat (seq 0 (Z.to_nat G)))) with
                                                | [] => [] | i :: l0 => [(t0, i :: l0)] end) l)).
    { apply Forall_forall. intros q Hq. apply in_flat_map in Hq. destruct Hq as [t' [Ht' Hq]].
      rewrite Forall_forall in Hf. specialize (Hf _ Ht').
      destruct (map (fun f => (f, payf f t')) _); [destruct Hq|]. destruct Hq as [<-|[]]. exact Hf. }
    destruct items; [exact IH|]. constructor; assumption.
  - apply Forall_forall. intros r Hr. destruct (build_in_rec _ _ _ _ Hr) as [_ [Hs Hne]]. split; [assumption|].
    destruct r as [t items]. cbn [fst snd] in *. subst items. assert (Hss : ssorted (fun x => x) (filter (sel t) (ranks G))) by (apply filter_ssorted, seq_ssorted).
    clear -Hss. induction Hss as [|x l Hs IH Hf]; simpl; constructor; [assumption|].
    rewrite Forall_forall in *. intros y Hy. apply in_map_iff in Hy. destruct Hy as [f [<- Hf']]. cbn [fst]. apply Hf. assumption.
Qed.

Lemma build_wfpay n G sel payf : (forall f t, length (payf f t) = n) -> wfpay n (build G sel payf).
Proof.
  intros H. apply Forall_forall. intros r Hr. destruct (build_in_rec _ _ _ _ Hr) as [_ [Hs _]].
  destruct r as [t items]. cbn [fst snd] in *. subst items.
  apply Forall_forall. intros it Hit. apply in_map_iff in Hit. destruct Hit as [f [<- _]]. apply H.
Qed.

(* two builds over the same universe agree when their selections agree *)
Lemma build_ext G sel1 sel2 payf :
  (forall t f, 0 <= t < G -> 0 <= f < G -> sel1 t f = sel2 t f) -> build G sel1 payf = build G sel2 payf.
Proof.
  intros H. apply wfr_ext; try apply build_wfr. intros [t [f p]]. rewrite !build_pairs.
  split; intros [Ht [Hf [Hs Hp]]]; (split; [assumption|split; [assumption|split; [|assumption]]]); [rewrite <- H|rewrite H]; assumption.
Qed.

(* ---- encoded arrays ------------------------------------------------------------------------------------------------ *)
Lemma encode_app a b : encode (a ++ b) = encode a ++ encode b.
Proof. unfold encode. apply flat_map_app. Qed.

Lemma encode_nil_inv rs : encode rs = [] -> rs = [].
Proof. destruct rs as [|r rs]; [reflexivity|]. rewrite encode_cons. unfold enc_rcd. discriminate. Qed.
