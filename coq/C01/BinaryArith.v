(* C01 - arithmetic of the binary notify recursion sc_notify_recursive (sc_notify.c), including communicator sizes
   that are not powers of two (`peer -= length`, `peer2`).  binary_peers, binary_tag, binary_pow2length are
   GENERATED slices (Gen/NotifyC01.v).  One level with half length h = 2^j works on groups of 2h consecutive
   ranks; as far as peers, receive counts and routing are concerned it is the n-ary level with width D = 2 and
   part length L = h, so the statements are obtained from the general level lemmas of NaryArith.v. *)
From Coq Require Import ZArith Lia List Bool ZifyBool.
From ScV Require Import Base.CInt Gen.Consts Gen.Macros C18.MacroProofs Gen.NotifyC01 C01.NaryArith.
Import ListNotations.
Local Open Scope Z_scope.
Ltac Zify.zify_post_hook ::= Z.div_mod_to_equations.

(* ---- tags and the top-level length ---------------------------------------------------------------------- *)
Lemma binary_tag_unfold T len : binary_tag T len = (s32 (T + w_sc_log2_32 len), s32 (cdiv len 2)).
Proof. reflexivity. Qed.

Lemma binary_pow2length_unfold P : binary_pow2length P = w_sc_roundup2_32 P.
Proof. reflexivity. Qed.

(* level with group length 2^k: tag = SC_TAG_NOTIFY_RECURSIVE + k, half length 2^(k-1) *)
Theorem binary_tag_spec k : 1 <= k <= 30 ->
  binary_tag c_SC_TAG_NOTIFY_RECURSIVE (2 ^ k) = (c_SC_TAG_NOTIFY_RECURSIVE + k, 2 ^ (k - 1)).
Proof.
  intros Hk. rewrite binary_tag_unfold.
  assert (Hp : 0 < 2 ^ k < 2 ^ 31) by (split; [apply Z.pow_pos_nonneg; lia|apply Z.pow_lt_mono_r; lia]).
  rewrite log2_32_correct by exact Hp. rewrite Z.log2_pow2 by lia.
  assert (Hh : 2 ^ k = 2 * 2 ^ (k - 1)) by (rewrite <- Z.pow_succ_r by lia; f_equal; lia).
  assert (Hq : cdiv (2 ^ k) 2 = 2 ^ (k - 1)).
  { unfold cdiv. rewrite Z.quot_div_nonneg by lia. rewrite Hh. rewrite Z.mul_comm, Z.div_mul by lia. reflexivity. }
  rewrite Hq. f_equal.
  - apply s32_id. unfold in_s32. change (M32 / 2) with 2147483648. unfold c_SC_TAG_NOTIFY_RECURSIVE. lia.
  - apply s32_id. unfold in_s32. change (M32 / 2) with 2147483648.
    assert (0 < 2 ^ (k - 1)) by (apply Z.pow_pos_nonneg; lia).
    assert (2 ^ (k - 1) <= 2 ^ 29) by (apply Z.pow_le_mono_r; lia). change (2 ^ 29) with 536870912 in *. lia.
Qed.

(* the levels of one call use pairwise distinct tags, all below the tags of the n-ary recursion *)
Corollary binary_tags_distinct k1 k2 : 1 <= k1 <= 30 -> 1 <= k2 <= 30 -> k1 <> k2 ->
  fst (binary_tag c_SC_TAG_NOTIFY_RECURSIVE (2 ^ k1)) <> fst (binary_tag c_SC_TAG_NOTIFY_RECURSIVE (2 ^ k2)) /\
  fst (binary_tag c_SC_TAG_NOTIFY_RECURSIVE (2 ^ k1)) < c_SC_TAG_NOTIFY_NARY.
Proof.
  intros H1 H2 Hne. rewrite !binary_tag_spec by assumption. cbn [fst]. unfold c_SC_TAG_NOTIFY_NARY, c_SC_TAG_NOTIFY_RECURSIVE. lia.
Qed.

(* sc_notify starts the recursion with the least power of two that is >= mpisize *)
Theorem binary_pow2length_spec P : 0 < P <= 2 ^ 30 -> is_roundup2 P (binary_pow2length P).
Proof. intros H. rewrite binary_pow2length_unfold. apply roundup2_32_correct. exact H. Qed.

(* ---- me ^ length2 ------------------------------------------------------------------------------------------ *)
Lemma land_pow2_clear a j : 0 <= j -> Z.testbit a j = false -> Z.land a (2 ^ j) = 0.
Proof.
  intros Hj Hb. apply Z.bits_inj'. intros n Hn. rewrite Z.land_spec, Z.bits_0, Z.pow2_bits_eqb by lia.
  destruct (Z.eqb_spec j n) as [->|]; [rewrite Hb; reflexivity|apply andb_false_r].
Qed.

Lemma lxor_pow2 me j : 0 <= j ->
  Z.lxor me (2 ^ j) = if Z.testbit me j then me - 2 ^ j else me + 2 ^ j.
Proof.
  intros Hj. destruct (Z.testbit me j) eqn:Hb.
  - set (m' := Z.lxor me (2 ^ j)).
    assert (Hb' : Z.testbit m' j = false).
    { unfold m'. rewrite Z.lxor_spec, Hb, Z.pow2_bits_true by lia. reflexivity. }
    pose proof (Z.add_nocarry_lxor m' (2 ^ j) (land_pow2_clear m' j Hj Hb')) as Hadd.
    unfold m' in Hadd at 2. rewrite Z.lxor_assoc, Z.lxor_nilpotent, Z.lxor_0_r in Hadd. lia.
  - symmetry. apply Z.add_nocarry_lxor. apply land_pow2_clear; assumption.
Qed.

(* which half of its group a rank is in: the part index of the n-ary description with D = 2 *)
Definition bhalf (h me : Z) : Z := gpart h 2 me.

Lemma bhalf_range h me : 0 < h -> 0 <= me -> 0 <= bhalf h me < 2.
Proof. intros Hh Hme. unfold bhalf. destruct (canon h 2 Hh ltac:(lia) me Hme) as [_ [_ [H _]]]. exact H. Qed.

Lemma testbit_half me j : 0 <= me -> 0 <= j -> Z.testbit me j = (bhalf (2 ^ j) me =? 1).
Proof.
  intros Hme Hj. assert (Hh : 0 < 2 ^ j) by (apply Z.pow_pos_nonneg; lia).
  pose proof (Z.testbit_spec' me j Hj) as Hs.
  assert (Hg : bhalf (2 ^ j) me = (me / 2 ^ j) mod 2).
  { unfold bhalf, gpart. replace (2 * 2 ^ j) with (2 ^ j * 2) by ring.
    rewrite Z.rem_mul_r by lia. pose proof (Z.mod_pos_bound me (2 ^ j) Hh).
    replace (me mod 2 ^ j + 2 ^ j * ((me / 2 ^ j) mod 2)) with (me mod 2 ^ j + (me / 2 ^ j) mod 2 * 2 ^ j) by ring.
    rewrite Z.div_add by lia. rewrite Z.div_small by lia. lia. }
  rewrite Hg, <- Hs. destruct (Z.testbit me j); reflexivity.
Qed.

(* the code's test `me < start + length2` *)
Lemma bhalf_test h me : 0 < h -> 0 <= me ->
  bhalf h me = if me <? gstart h 2 me + h then 0 else 1.
Proof.
  intros Hh Hme. destruct (canon h 2 Hh ltac:(lia) me Hme) as [Hd [Hs [Ha Ho]]].
  unfold bhalf. unfold gstart. set (a := gpart h 2 me) in *. set (s := me / (2 * h)) in *.
  destruct (me <? s * (2 * h) + h) eqn:E; nia.
Qed.

(* ---- spec form of the generated peer computation ------------------------------------------------------------- *)
Section BinaryLevel.
  Variables j G : Z.
  Hypothesis Hj : 0 <= j.
  Hypothesis HG : 0 < G <= BIG.
  Let h := 2 ^ j.
  Hypothesis HW : 2 * h <= BIG.

  Lemma h_pos : 0 < h.  Proof. unfold h. apply Z.pow_pos_nonneg; lia. Qed.

  Definition bsend_spec (me : Z) : Z := sendp h (2 * h) G me (bhalf h me) (1 - bhalf h me).
  Definition brecv2_spec (me : Z) : Z :=
    if (bhalf h me =? 1) && ((me + h <? G) && (G <=? me + 2 * h)) then me + h else -1.

  Lemma binary_peers_spec me : 0 <= me < G ->
    binary_peers me h G (2 * h) (bhalf h me) = (bsend_spec me, brecv2_spec me).
  Proof.
    intros Hme. pose proof h_pos as Hh. pose proof (bhalf_range h me Hh ltac:(lia)) as Ha.
    unfold binary_peers. cbv zeta.
    assert (Hx : Z.lxor me h = me + (1 - 2 * bhalf h me) * h).
    { unfold h. rewrite lxor_pow2 by lia. rewrite testbit_half by lia. fold h.
      destruct (bhalf h me =? 1) eqn:E; [replace (bhalf h me) with 1 by lia|replace (bhalf h me) with 0 by lia]; ring. }
    rewrite Hx.
    assert (HBIG : BIG = 536870912) by reflexivity.
    assert (Hp : me + (1 - 2 * bhalf h me) * h = me + (1 - bhalf h me - bhalf h me) * h) by ring.
    unfold bsend_spec, sendp. cbv zeta. rewrite <- Hp.
    set (p1 := me + (1 - 2 * bhalf h me) * h) in *.
    assert (Hp1 : - BIG <= p1 < 2 * BIG).
    { unfold p1. assert (Ha01 : bhalf h me = 0 \/ bhalf h me = 1) by lia. destruct Ha01 as [-> | ->]; lia. }
    assert (E1 : (p1 <? G) = negb (G <=? p1)) by lia.
    rewrite E1.
    rewrite (s32_id (me + h)) by (unfold in_s32; change (M32 / 2) with 2147483648; lia).
    assert (Hpeer : (if negb (G <=? p1) then p1 else s32 (p1 - 2 * h)) = (if G <=? p1 then p1 - 2 * h else p1)).
    { destruct (G <=? p1); cbn [negb]; [apply s32_id; unfold in_s32; change (M32 / 2) with 2147483648; lia|reflexivity]. }
    rewrite Hpeer.
    assert (Hx2 : Z.lxor (me + h) h = me + h + (1 - 2 * bhalf h (me + h)) * h).
    { unfold h. rewrite lxor_pow2 by lia. rewrite testbit_half by (fold h; lia). fold h.
      pose proof (bhalf_range h (me + h) Hh ltac:(lia)).
      destruct (bhalf h (me + h) =? 1) eqn:E; [replace (bhalf h (me + h)) with 1 by lia|replace (bhalf h (me + h)) with 0 by lia]; ring. }
    (* in the upper half, me + h lies in the lower half of the next group *)
    unfold brecv2_spec.
    destruct (bhalf h me =? 1) eqn:Ea.
    - assert (Hnext : bhalf h (me + h) = 0).
      { destruct (canon h 2 Hh ltac:(lia) me ltac:(lia)) as [Hd [Hs [Hpa Ho]]].
        fold (bhalf h me) in Hd, Hpa.
        destruct (canon h 2 Hh ltac:(lia) (me + h) ltac:(lia)) as [Hd' [Hs' [Hpa' Ho']]].
        fold (bhalf h (me + h)) in Hd', Hpa'.
        assert (Hu : (me + h) / (2 * h) = me / (2 * h) + 1 /\ bhalf h (me + h) * h + (me + h) mod h = 0 * h + me mod h).
        { apply (decomp_unique (2 * h)); [lia| | |].
          - assert (bhalf h (me + h) * h <= 1 * h) by (apply Z.mul_le_mono_nonneg_r; lia). nia.
          - nia.
          - replace (bhalf h me) with 1 in Hd by lia. lia. }
        destruct Hu as [_ Hu]. nia. }
      rewrite Hx2, Hnext.
      replace (z2b (bhalf h me)) with true by (unfold z2b; replace (bhalf h me) with 1 by lia; reflexivity).
      replace (me + h + (1 - 2 * 0) * h) with (me + 2 * h) by ring.
      cbn [andb]. destruct ((me + h <? G) && (G <=? me + 2 * h)); reflexivity.
    - replace (z2b (bhalf h me)) with false by (unfold z2b; replace (bhalf h me) with 0 by lia; reflexivity).
      reflexivity.
  Qed.

  (* the two receives of the code: `if (peer >= start)` one message from peer, `if (peer2 >= 0)` one from peer2 *)
  Definition brecv1_ok (me : Z) : bool := gstart h 2 me <=? bsend_spec me.

  (* decomposed coordinates of a rank *)
  Lemma bcanon x : 0 <= x ->
    x = (x / (2 * h)) * (2 * h) + bhalf h x * h + x mod h /\ 0 <= x / (2 * h) /\ 0 <= bhalf h x < 2 /\ 0 <= x mod h < h.
  Proof. intros Hx. exact (canon h 2 h_pos ltac:(lia) x Hx). Qed.

  (* number of messages the n-ary description (D = 2) expects = what the two tests of the binary code select *)
  Lemma nrecvp_binary me : 0 <= me < G ->
    nrecvp h 2 G me (bhalf h me) =
    (if bhalf h me =? 0 then (if me + h <? G then 1 else 0)
     else (if (me + h <? G) && (G <=? me + 2 * h) then 2 else 1)).
  Proof.
    intros Hme. pose proof h_pos as Hh. pose proof (bhalf_range h me Hh ltac:(lia)) as Ha.
    unfold nrecvp. cbv zeta.
    set (d := (G - 1 - me) / h).
    assert (Hd : d * h <= G - 1 - me < (d + 1) * h).
    { unfold d. pose proof (Z.div_mod (G - 1 - me) h ltac:(lia)). pose proof (Z.mod_pos_bound (G - 1 - me) h Hh). nia. }
    assert (Hd0 : 0 <= d) by (unfold d; apply Z.div_pos; lia).
    destruct (bhalf h me =? 0) eqn:E0.
    - replace (bhalf h me) with 0 by lia. replace (0 + d) with d by ring.
      destruct (me + h <? G) eqn:E1.
      + assert (1 <= d) by nia. destruct (d <? 2) eqn:E2; [lia|]. destruct (d <? 2 + 0) eqn:E3; lia.
      + assert (d = 0) by nia. subst d. rewrite H. reflexivity.
    - replace (bhalf h me) with 1 by lia.
      destruct ((me + h <? G) && (G <=? me + 2 * h)) eqn:E1.
      + assert (d = 1) by nia. rewrite H. reflexivity.
      + destruct (me + h <? G) eqn:E2.
        * assert (2 <= d) by nia. destruct (1 + d <? 2) eqn:E3; [lia|]. destruct (1 + d <? 2 + 1) eqn:E4; lia.
        * assert (d = 0) by nia. rewrite H. reflexivity.
  Qed.

  (* MATCHING for the binary recursion, every G (powers of two or not): rank q sends its message of this level
     to `me`  iff  `me` waits for a message from q (as its peer, test `peer >= start`, or as its peer2) *)
  Theorem binary_matching me q : 0 <= me < G -> 0 <= q < G ->
    (bsend_spec q = me <->
     (q = bsend_spec me /\ brecv1_ok me = true) \/ (q = brecv2_spec me /\ 0 <= brecv2_spec me)).
  Proof.
    intros Hme Hq. pose proof h_pos as Hh.
    destruct (bcanon me ltac:(lia)) as [Dm [Sm [Am Om]]]. destruct (bcanon q ltac:(lia)) as [Dq [Sq [Aq Oq]]].
    assert (HW2 : 2 * h = 2 * h) by reflexivity.
    split.
    - intros Hs.
      assert (Hex : exists k, 0 <= k <= nrecvp h 2 G me (bhalf h me) /\ k <> bhalf h me /\ q = me + (k - bhalf h me) * h).
      { eapply (sender_index h 2 (2 * h) G) with (s := me / (2 * h)) (o := me mod h) (sq := q / (2 * h)) (oq := q mod h)
                                                 (aq := bhalf h q) (j := 1 - bhalf h q); eauto; try reflexivity; lia. }
      destruct Hex as [k [Hk [Hne Hqk]]].
      rewrite nrecvp_binary in Hk by lia.
      unfold brecv1_ok, brecv2_spec, bsend_spec, sendp. cbv zeta.
      assert (Hgs : gstart h 2 me = me / (2 * h) * (2 * h)) by reflexivity.
      destruct (bhalf h me =? 0) eqn:E0.
      + assert (Ha0 : bhalf h me = 0) by lia. rewrite Ha0 in *.
        destruct (me + h <? G) eqn:E1; [|lia].
        assert (k = 1) by lia. subst k. left.
        replace (me + (1 - 0 - 0) * h) with (me + h) by ring.
        destruct (G <=? me + h) eqn:E2; [lia|]. split; [lia|]. rewrite Hgs. apply Z.leb_le. nia.
      + assert (Ha1 : bhalf h me = 1) by lia. rewrite Ha1 in *. rewrite ?Z.eqb_refl. cbn [andb].
        destruct ((me + h <? G) && (G <=? me + 2 * h)) eqn:E1.
        * assert (k = 0 \/ k = 2) by lia. destruct H as [-> | ->].
          -- left. replace (me + (1 - 1 - 1) * h) with (me - h) by ring.
             destruct (G <=? me - h) eqn:E2; [lia|]. split; [lia|]. rewrite Hgs. apply Z.leb_le. nia.
          -- right. split; lia.
        * assert (k = 0) by lia. subst k. left.
          replace (me + (1 - 1 - 1) * h) with (me - h) by ring.
          destruct (G <=? me - h) eqn:E2; [lia|]. split; [lia|]. rewrite Hgs. apply Z.leb_le. nia.
    - intros Hr.
      assert (Hk : exists k, 0 <= k <= nrecvp h 2 G me (bhalf h me) /\ k <> bhalf h me /\ q = me + (k - bhalf h me) * h).
      { rewrite nrecvp_binary by lia.
        unfold brecv1_ok, brecv2_spec, bsend_spec, sendp in Hr. cbv zeta in Hr.
        assert (Hgs : gstart h 2 me = me / (2 * h) * (2 * h)) by reflexivity. rewrite Hgs in Hr.
        destruct (bhalf h me =? 0) eqn:E0.
        - assert (Ha0 : bhalf h me = 0) by lia. rewrite Ha0 in *. change (0 =? 1) with false in Hr. cbn [andb] in Hr.
          destruct Hr as [[Hq1 Hok]|[Hq2 Hge]]; [|lia].
          replace (me + (1 - 0 - 0) * h) with (me + h) in * by ring.
          destruct (G <=? me + h) eqn:E2.
          + exfalso. apply Z.leb_le in Hok. nia.
          + exists 1. replace (me + h <? G) with true by lia. split; [lia|]. split; [lia|]. lia.
        - assert (Ha1 : bhalf h me = 1) by lia. rewrite Ha1 in *. rewrite ?Z.eqb_refl in Hr. cbn [andb] in Hr.
          replace (me + (1 - 1 - 1) * h) with (me - h) in * by ring.
          destruct Hr as [[Hq1 Hok]|[Hq2 Hge]].
          + destruct (G <=? me - h) eqn:E2; [lia|]. exists 0.
            split; [destruct ((me + h <? G) && (G <=? me + 2 * h)); lia|]. split; [lia|]. lia.
          + destruct ((me + h <? G) && (G <=? me + 2 * h)) eqn:E1; [|lia]. exists 2. split; [lia|]. split; [lia|]. lia. }
      destruct Hk as [k [Hk [Hne Hqk]]].
      assert (HIS : bhalf h me <> bhalf h q /\ sendp h (2 * h) G q (bhalf h q) (bhalf h me) = me).
      { eapply (index_sender h 2 (2 * h) G) with (s := me / (2 * h)) (o := me mod h) (sq := q / (2 * h)) (oq := q mod h) (k := k);
          eauto; try reflexivity; lia. }
      destruct HIS as [Hna Hs].
      unfold bsend_spec. replace (1 - bhalf h q) with (bhalf h me) by lia. exact Hs.
  Qed.

  (* the two sources a rank waits for are different ranks (so the first, wildcard, receive and the second,
     named, receive of the code consume one message each) *)
  Lemma binary_sources_distinct me : 0 <= me < G -> 0 <= brecv2_spec me -> brecv2_spec me <> bsend_spec me /\ brecv2_spec me <> me.
  Proof.
    intros Hme. pose proof h_pos as Hh. unfold brecv2_spec, bsend_spec, sendp. cbv zeta.
    destruct (bhalf h me =? 1) eqn:E; cbn [andb]; [|lia].
    assert (Ha : bhalf h me = 1) by lia. rewrite Ha.
    destruct ((me + h <? G) && (G <=? me + 2 * h)); [|lia].
    replace (me + (1 - 1 - 1) * h) with (me - h) by ring. destruct (G <=? me - h); lia.
  Qed.

  (* ROUTING: a record for rank t held by `me` with t = me modulo h (invariant of the level below) either stays
     (t = me modulo 2h, the code's test `torank % length != me % length`) or is sent to the peer, which then
     exists and is congruent to t modulo 2h *)
  Theorem binary_routing me t : 0 <= me < G -> 0 <= t < G -> t mod h = me mod h ->
    (t mod (2 * h) = me mod (2 * h)) \/
    (t mod (2 * h) <> me mod (2 * h) /\ 0 <= bsend_spec me < G /\ t mod (2 * h) = bsend_spec me mod (2 * h)).
  Proof.
    intros Hme Ht Hmod. pose proof h_pos as Hh.
    destruct (bcanon me ltac:(lia)) as [Dm [Sm [Am Om]]].
    assert (HW2 : 2 * h = 2 * h) by reflexivity.
    assert (HR : let j := (t mod (2 * h)) / h in 0 <= j < 2 /\ (j = bhalf h me -> t mod (2 * h) = me mod (2 * h)) /\
                 (j <> bhalf h me -> let p := sendp h (2 * h) G me (bhalf h me) j in 0 <= p < G /\ t mod (2 * h) = p mod (2 * h))).
    { eapply (routing h 2 (2 * h) G) with (s := me / (2 * h)) (o := me mod h); eauto; try reflexivity; lia. }
    cbv zeta in HR. destruct HR as [Hjr [Hstay Hmove]].
    set (jt := t mod (2 * h) / h) in *.
    destruct (Z.eq_dec jt (bhalf h me)) as [E|E].
    - left. apply Hstay. exact E.
    - right. specialize (Hmove E). destruct Hmove as [Hp Hc].
      assert (Hj1 : jt = 1 - bhalf h me) by lia.
      unfold bsend_spec. rewrite <- Hj1. split; [|split; assumption].
      intros Heq. apply E.
      assert (Hmem : me mod (2 * h) = bhalf h me * h + me mod h).
      { symmetry. apply Z.mod_unique_pos with (q := me / (2 * h)); [|lia]. nia. }
      unfold jt. rewrite Heq, Hmem. rewrite Z.add_comm, Z.div_add by lia. rewrite Z.div_small by lia. lia.
  Qed.
End BinaryLevel.

(* ---- composition of the levels ------------------------------------------------------------------------------ *)
Ltac Zify.zify_post_hook ::= idtac.
(* holder of a record for rank t after the level with half length 2^j *)
Definition broute (j G holder t : Z) : Z :=
  let h := 2 ^ j in
  if t mod (2 * h) =? holder mod (2 * h) then holder else fst (binary_peers holder h G (2 * h) (bhalf h holder)).

(* levels j = j0, j0 + 1, ..., j0 + n - 1 (from the deepest to the top) *)
Fixpoint bdeliver (n : nat) (j G holder t : Z) : Z :=
  match n with
  | O => holder
  | S n' => bdeliver n' (j + 1) G (broute j G holder t) t
  end.

Lemma broute_inv j G holder t :
  0 <= j -> 0 < G <= BIG -> 2 * 2 ^ j <= BIG -> 0 <= holder < G -> 0 <= t < G -> t mod 2 ^ j = holder mod 2 ^ j ->
  0 <= broute j G holder t < G /\ t mod 2 ^ (j + 1) = broute j G holder t mod 2 ^ (j + 1).
Proof.
  intros Hj HG HW Hh Ht Hm. unfold broute. cbv zeta.
  replace (2 ^ (j + 1)) with (2 * 2 ^ j) by (rewrite Z.pow_add_r by lia; ring).
  rewrite (binary_peers_spec j G Hj HG HW holder Hh). cbn [fst].
  destruct (binary_routing j G Hj HG HW holder t Hh Ht Hm) as [Hs|[Hne [Hp Hc]]].
  - rewrite Hs, Z.eqb_refl. split; [exact Hh|reflexivity].
  - destruct (Z.eqb_spec (t mod (2 * 2 ^ j)) (holder mod (2 * 2 ^ j))) as [E|E]; [contradiction|]. split; assumption.
Qed.

(* DELIVERY: after the levels j0 .. j0+n-1 with 2^(j0+n) >= G every record is at its addressee *)
Theorem bdeliver_correct : forall n j G holder t,
  0 <= j -> 0 < G <= BIG -> 2 ^ (j + Z.of_nat n) <= BIG -> G <= 2 ^ (j + Z.of_nat n) ->
  0 <= holder < G -> 0 <= t < G -> t mod 2 ^ j = holder mod 2 ^ j ->
  bdeliver n j G holder t = t.
Proof.
  induction n as [|n IH]; intros j G holder t Hj HG HB HP Hh Ht Hm.
  - cbn [bdeliver]. replace (j + Z.of_nat 0) with j in * by lia. rewrite !Z.mod_small in Hm by lia. symmetry; exact Hm.
  - cbn [bdeliver].
    assert (HW : 2 * 2 ^ j <= BIG).
    { replace (2 * 2 ^ j) with (2 ^ (j + 1)) by (rewrite Z.pow_add_r by lia; ring).
      eapply Z.le_trans; [|exact HB]. apply Z.pow_le_mono_r; lia. }
    destruct (broute_inv j G holder t Hj HG HW Hh Ht Hm) as [Hr Hc].
    apply IH; try assumption; try lia.
    + replace (j + 1 + Z.of_nat n) with (j + Z.of_nat (S n)) by lia. exact HB.
    + replace (j + 1 + Z.of_nat n) with (j + Z.of_nat (S n)) by lia. exact HP.
Qed.

(* PATTERN INVERSION for the binary recursion, any G >= 1: with n levels, 2^n >= G, the ranks whose notifications
   end at p are exactly the ranks that listed p *)
Definition bfinal_senders (n : nat) (G : Z) (R : Z -> list Z) (p : Z) : list Z :=
  filter (fun f => existsb (fun t => bdeliver n 0 G f t =? p) (R f)) (map Z.of_nat (seq 0 (Z.to_nat G))).

Theorem binary_inverts_pattern n G (R : Z -> list Z) p :
  0 < G <= BIG -> 2 ^ Z.of_nat n <= BIG -> G <= 2 ^ Z.of_nat n ->
  (forall f t, 0 <= f < G -> In t (R f) -> 0 <= t < G) -> 0 <= p < G ->
  forall f, In f (bfinal_senders n G R p) <-> (0 <= f < G /\ In p (R f)).
Proof.
  intros HG HB HP HR Hp f. unfold bfinal_senders. rewrite filter_In, in_map_iff, existsb_exists.
  assert (Hd : forall f t, 0 <= f < G -> 0 <= t < G -> bdeliver n 0 G f t = t).
  { intros f0 t Hf Ht. apply bdeliver_correct; try assumption; try lia. change (2 ^ 0) with 1. rewrite !Z.mod_1_r. reflexivity. }
  split.
  - intros [[m [Hm Hin]] [t [Ht Hdel]]]. apply in_seq in Hin. assert (Hf : 0 <= f < G) by lia.
    split; [exact Hf|]. rewrite Hd in Hdel by (first [assumption | eapply HR; eassumption]).
    assert (t = p) by lia. subst t. exact Ht.
  - intros [Hf Hin]. split.
    + exists (Z.to_nat f). split; [lia|apply in_seq; lia].
    + exists p. split; [exact Hin|]. rewrite Hd by assumption. apply Z.eqb_refl.
Qed.

(* ---- the same statements about the GENERATED peer computation ------------------------------------------------- *)
(* peer and peer2 as the code computes them at the level with half length 2^j (half = bhalf, see bhalf_test) *)
Definition bpeer (j G me : Z) : Z := fst (binary_peers me (2 ^ j) G (2 * 2 ^ j) (bhalf (2 ^ j) me)).
Definition bpeer2 (j G me : Z) : Z := snd (binary_peers me (2 ^ j) G (2 * 2 ^ j) (bhalf (2 ^ j) me)).
Definition bstart (j me : Z) : Z := gstart (2 ^ j) 2 me.      (* first rank of the group of 2 * 2^j ranks *)

(* MATCHING: q posts its send of the level to me (peer >= 0 and peer = me)  iff  me posts a receive that q's
   message satisfies: the one guarded by `peer >= start` or the one guarded by `peer2 >= 0` *)
Theorem binary_matching_gen j G me q : 0 <= j -> 0 < G <= BIG -> 2 * 2 ^ j <= BIG -> 0 <= me < G -> 0 <= q < G ->
  (bpeer j G q = me <->
   (q = bpeer j G me /\ bstart j me <= bpeer j G me) \/ (q = bpeer2 j G me /\ 0 <= bpeer2 j G me)).
Proof.
  intros Hj HG HW Hme Hq. unfold bpeer, bpeer2, bstart.
  rewrite (binary_peers_spec j G Hj HG HW q Hq), (binary_peers_spec j G Hj HG HW me Hme). cbn [fst snd].
  rewrite (binary_matching j G Hj HG HW me q Hme Hq). unfold brecv1_ok. rewrite Z.leb_le. reflexivity.
Qed.

Theorem binary_sources_distinct_gen j G me : 0 <= j -> 0 < G <= BIG -> 2 * 2 ^ j <= BIG -> 0 <= me < G ->
  0 <= bpeer2 j G me -> bpeer2 j G me <> bpeer j G me /\ bpeer2 j G me <> me /\ bpeer j G me <> me.
Proof.
  intros Hj HG HW Hme. unfold bpeer, bpeer2. rewrite (binary_peers_spec j G Hj HG HW me Hme). cbn [fst snd]. intros H2.
  destruct (binary_sources_distinct j G Hj me Hme H2) as [A B]. split; [exact A|split; [exact B|]].
  unfold bsend_spec, sendp. cbv zeta. assert (Hh : 0 < 2 ^ j) by (apply Z.pow_pos_nonneg; lia).
  pose proof (bhalf_range (2 ^ j) me Hh ltac:(lia)) as Ha.
  assert (Ha01 : bhalf (2 ^ j) me = 0 \/ bhalf (2 ^ j) me = 1) by lia.
  destruct Ha01 as [-> | ->]; match goal with |- context [if ?c then _ else _] => destruct c end; lia.
Qed.

Theorem binary_routing_gen j G me t : 0 <= j -> 0 < G <= BIG -> 2 * 2 ^ j <= BIG -> 0 <= me < G -> 0 <= t < G ->
  t mod 2 ^ j = me mod 2 ^ j ->
  (t mod (2 * 2 ^ j) = me mod (2 * 2 ^ j)) \/
  (t mod (2 * 2 ^ j) <> me mod (2 * 2 ^ j) /\ 0 <= bpeer j G me < G /\ t mod (2 * 2 ^ j) = bpeer j G me mod (2 * 2 ^ j)).
Proof.
  intros Hj HG HW Hme Ht Hm. unfold bpeer. rewrite (binary_peers_spec j G Hj HG HW me Hme). cbn [fst].
  apply binary_routing; assumption.
Qed.
