(* C01 / C02 - nbx (sc_notify_payload_nbx: MPI_Issend to every receiver, then the loop  Iprobe (+ Recv) / Testall (+ Ibarrier) / Test) under
   EVERY SCHEDULE of the interleaving semantics with polls MPI/SemPoll.v (a poll reports whether a message is available, a synchronous
   send is complete when matched, the barrier is complete when every rank has posted it).

   System nbx_sys fuel P R hp pay sorted: rank r, 0 <= r < P, runs the co-simulated program
       nbx_core fuel (R r) ep sorted (fun s g => Ret (result s g)),   ep = Some items iff hp;
   every other rank has returned; channels empty; no barrier posted.  `fuel` is the model's bound on the iterations of the loop (the C
   loop has none); a rank that exhausts it stops at the action fuel_mark, which is never a call of the code.

   SAFETY (theorem nbx_safety): in EVERY reachable state the invariant `NInv` holds - every rank is in one of the phases sending /
   polling before the barrier / barrier posted / returned; a channel holds exactly the messages sent and not yet received; a rank
   posts the barrier only after ALL its synchronous sends were matched; a rank returns only after ALL ranks posted the barrier, hence
   after every message addressed to it was received BY IT.  Consequently (theorem nbx_final) in every final state every rank r has
   returned result o (items of o) with o a permutation of transpose P R r (the transposed list if sorted), every channel is empty (no
   unreceived message, no pending send request) and every rank has posted the barrier.  This is the argument behind the round
   abstraction of NbxProofs.nbx_round, now derived from a global semantics.
   LIVENESS: see nbx_no_stuck_rank below (what is proved) and docs/C01_sched2.md (what is missing). *)
From Coq Require Import ZArith Lia List Bool Permutation.
From ScV Require Import Base.CInt MPI.Prog MPI.Sem MPI.SemPoll Gen.Consts Gen.NotifyC01
     C01.MergeModel C01.MergeProofs C01.NotifyProgs C01.NotifyProgProofs C01.RecordOps C01.NaryRound C01.NarySched C01.CensusSched.
Import ListNotations.
Local Open Scope Z_scope.

Definition nbx_poll (t : Z) : bool := t =? c_SC_TAG_NOTIFY_NBX.
Definition nbx_stags : list Z := [c_SC_TAG_NOTIFY_NBX].

Inductive pos := AtPoll | AtCheck | AtIbar.
Inductive rstate :=
| RSend (j : nat)                                                  (* j messages sent *)
| RLoop (f : nat) (barr : bool) (acc : list (Z * payload)) (p : pos)
| RDone (acc : list (Z * payload))
| ROut.                                                            (* a rank outside the communicator *)

Lemma memz_firstn_S d : forall (l : list Z) j, (j < length l)%nat -> memz d (firstn (S j) l) = memz d (firstn j l) || (nth j l 0 =? d).
Proof.
  induction l as [|x l IH]; intros j Hj; [cbn in Hj; lia|]. destruct j as [|j].
  - cbn. rewrite orb_false_r. reflexivity.
  - cbn [length] in Hj. change (firstn (S (S j)) (x :: l)) with (x :: firstn (S j) l). change (firstn (S j) (x :: l)) with (x :: firstn j l).
    cbn [nth]. unfold memz in *. cbn [existsb]. rewrite IH by lia. rewrite orb_assoc. reflexivity.
Qed.

Lemma nth_firstn_lt {A} : forall (l : list A) i j d, (i < j)%nat -> nth i (firstn j l) d = nth i l d.
Proof.
  induction l as [|x l IH]; intros i j d H; [destruct j; destruct i; reflexivity|].
  destruct j as [|j]; [lia|]. destruct i as [|i]; [reflexivity|]. cbn [firstn nth]. apply IH. lia.
Qed.

Lemma memz_false_nth l j : NoDup l -> (j < length l)%nat -> memz (nth j l 0) (firstn j l) = false.
Proof.
  intros Hnd Hj. destruct (memz (nth j l 0) (firstn j l)) eqn:E; [|reflexivity]. exfalso. apply memz_In in E.
  destruct (In_nth _ _ 0 E) as [i [Hi Ei]]. rewrite firstn_length in Hi.
  assert (Hi' : (i < j)%nat) by lia. rewrite (nth_firstn_lt l i j 0 Hi') in Ei.
  assert (i = j) by (apply (proj1 (NoDup_nth l 0) Hnd); [lia|lia|exact Ei]). lia.
Qed.

Section NbxSched.
  Variable P : Z.
  Variable R : Z -> list Z.
  Variable hp : bool.
  Variable pay : Z -> Z -> payload.
  Variable sorted : bool.
  Variable fuel : nat.
  Hypothesis HR : forall f, 0 <= f < P -> ssorted (fun x => x) (R f) /\ forall t, In t (R f) -> 0 <= t < P.

  Let tag := c_SC_TAG_NOTIFY_NBX.
  Definition nep (r : Z) : option (list payload) := if hp then Some (map (pay r) (R r)) else None.
  Definition nitem (q r : Z) : payload := if hp then pay q r else [].
  Definition nbx_prog (r : Z) : prog := if inr P r then nbx_core fuel (R r) (nep r) sorted (fun s g => Ret (result s g)) else Ret [].
  Definition nbx_sys : pst := mkpst nbx_prog (fun _ _ _ => []) (fun _ => false).

  (* the continuation of the loop, as nbx_core builds it *)
  Definition NK (r : Z) : list (Z * payload) -> prog := fun got =>
    let got' := if sorted then sort_by_src got else got in
    (fun s g => Ret (result s g)) (map fst got') (match nep r with None => [] | Some _ => map snd got' end).
  Definition msgs (r : Z) : list (Z * Z * payload) := map (fun d => (d, tag, nitem r d)) (R r).

  Lemma nbx_core_eq r : nbx_core fuel (R r) (nep r) sorted (fun s g => Ret (result s g)) = do_sends (msgs r) (nbx_loop fuel tag false [] (NK r)).
  Proof.
    unfold nbx_core, msgs, NK. f_equal. unfold nep, nitem. destruct hp; rewrite zip_map_l, map_map; reflexivity.
  Qed.

  Definition prog_of (r : Z) (st : rstate) : prog :=
    match st with
    | RSend j => do_sends (skipn j (msgs r)) (nbx_loop fuel tag false [] (NK r))
    | RLoop f barr acc AtPoll => nbx_loop f tag barr acc (NK r)
    | RLoop f true acc AtCheck =>
      Do (Coll K_TEST (-1) []) (fun d => if hd 0 d =? 0 then nbx_loop f tag true acc (NK r) else NK r (rev acc))
    | RLoop f false acc AtCheck =>
      Do (Coll K_TESTALL (-1) []) (fun s => if hd 0 s =? 0 then nbx_loop f tag false acc (NK r)
                                            else Do (Coll K_IBARRIER (-1) []) (fun _ => nbx_loop f tag true acc (NK r)))
    | RLoop f _ acc AtIbar => Do (Coll K_IBARRIER (-1) []) (fun _ => nbx_loop f tag true acc (NK r))
    | RDone acc => NK r (rev acc)
    | ROut => Ret []
    end.

  Definition sentb (st : rstate) (r d : Z) : bool :=
    match st with RSend j => memz d (firstn j (R r)) | ROut => false | _ => memz d (R r) end.
  Definition acc_of (st : rstate) : list (Z * payload) := match st with RLoop _ _ acc _ => acc | RDone acc => acc | _ => [] end.
  Definition rcvdb (st : rstate) (a : Z) : bool := memz a (map fst (acc_of st)).
  Definition barred (st : rstate) : bool := match st with RLoop _ true _ _ => true | RDone _ => true | _ => false end.
  (* the rank has seen Testall = 1: all its synchronous sends were matched *)
  Definition complete (st : rstate) : bool :=
    match st with RLoop _ true _ _ => true | RLoop _ false _ AtIbar => true | RDone _ => true | _ => false end.
  Definition mkstate (r : Z) (j : nat) : rstate := if (j <? length (R r))%nat then RSend j else RLoop fuel false [] AtPoll.
  Definition st0 (r : Z) : rstate := if inr P r then mkstate r 0 else ROut.

  Record NInv (s : pst) (st : Z -> rstate) : Prop := {
    n_out : forall r, st r = ROut <-> ~ (0 <= r < P);
    n_prog : forall r, ppr s r = prog_of r (st r);
    n_ch : forall a b t, pch s a b t = if (t =? tag) && sentb (st a) a b && negb (rcvdb (st b) a) then [nitem a b] else [];
    n_acc : forall b, NoDup (map fst (acc_of (st b))) /\ forall a m, In (a, m) (acc_of (st b)) -> sentb (st a) a b = true /\ m = nitem a b;
    n_bar : forall r, pbar s r = barred (st r);
    n_cmp : forall r, complete (st r) = true -> forall d, In d (R r) -> rcvdb (st d) r = true;
    n_done : forall r acc, st r = RDone acc -> forall q, In q (transpose P R r) -> In q (map fst acc);
    n_send : forall r j, st r = RSend j -> (j < length (R r))%nat
  }.

  Lemma R_nodup r : 0 <= r < P -> NoDup (R r).
  Proof. intros Hr. apply (ssorted_NoDup (fun x => x)). apply (HR r Hr). Qed.

  Lemma prog_mkstate r j : (j <= length (R r))%nat -> prog_of r (mkstate r j) = do_sends (skipn j (msgs r)) (nbx_loop fuel tag false [] (NK r)).
  Proof.
    intros Hj. unfold mkstate. destruct (Nat.ltb_spec j (length (R r))); [reflexivity|].
    cbn [prog_of]. rewrite skipn_all2 by (unfold msgs; rewrite map_length; lia). reflexivity.
  Qed.

  Lemma sentb_mkstate r j d : (j <= length (R r))%nat -> sentb (mkstate r j) r d = memz d (firstn j (R r)).
  Proof.
    intros Hj. unfold mkstate. destruct (Nat.ltb_spec j (length (R r))); [reflexivity|]. cbn [sentb]. rewrite firstn_all2 by lia. reflexivity.
  Qed.

  Lemma NInv_init : NInv nbx_sys st0.
  Proof.
    constructor.
    - intros r. unfold st0. destruct (inr P r) eqn:E.
      + apply inr_spec in E. unfold mkstate. destruct (_ <? _)%nat; split; try discriminate; intros H; contradiction.
      + split; [intros _ H; apply inr_spec in H; congruence|reflexivity].
    - intros r. cbn [nbx_sys ppr]. unfold nbx_prog, st0. destruct (inr P r); [|reflexivity].
      rewrite nbx_core_eq, prog_mkstate by lia. reflexivity.
    - intros a b t. cbn [nbx_sys pch]. unfold st0. destruct (inr P a); [|cbn [sentb]; rewrite andb_false_r; reflexivity].
      rewrite sentb_mkstate by lia. cbn [firstn]. unfold memz. cbn [existsb]. rewrite andb_false_r. reflexivity.
    - intros b. assert (E : acc_of (st0 b) = []) by (unfold st0, mkstate; destruct (inr P b); [destruct (_ <? _)%nat|]; reflexivity).
      rewrite E. split; [constructor|intros a m []].
    - intros r. cbn [nbx_sys pbar]. unfold st0, mkstate. destruct (inr P r); [destruct (_ <? _)%nat|]; reflexivity.
    - intros r H. exfalso. unfold st0, mkstate in H. destruct (inr P r); [destruct (_ <? _)%nat|]; discriminate.
    - intros r acc H. exfalso. unfold st0, mkstate in H. destruct (inr P r); [destruct (_ <? _)%nat|]; discriminate.
    - intros r j H. unfold st0, mkstate in H. destruct (inr P r); [|discriminate]. destruct (Nat.ltb_spec 0 (length (R r))); [|discriminate].
      injection H as <-. lia.
  Qed.

  (* ---- preservation ------------------------------------------------------------------------------------------------------------------- *)
  Definition upds (st : Z -> rstate) (r : Z) (v : rstate) : Z -> rstate := fun y => if y =? r then v else st y.
  Lemma upds_same st r v : upds st r v r = v.
  Proof. unfold upds. rewrite Z.eqb_refl. reflexivity. Qed.
  Lemma upds_other st r v y : y <> r -> upds st r v y = st y.
  Proof. intros H. unfold upds. destruct (Z.eqb_spec y r); [contradiction|reflexivity]. Qed.

  Lemma rcvdb_In st a : rcvdb st a = true <-> In a (map fst (acc_of st)).
  Proof. unfold rcvdb. apply memz_In. Qed.

  (* a step that changes neither the channels nor what the rank has sent / received *)
  Lemma NInv_keep s st r new p' b' : NInv s st -> 0 <= r < P ->
    acc_of new = acc_of (st r) -> (forall d, sentb new r d = sentb (st r) r d) -> new <> ROut -> (forall j, new <> RSend j) ->
    p' = prog_of r new -> (forall y, b' y = barred (upds st r new y)) ->
    (complete new = true -> forall d, In d (R r) -> rcvdb (st d) r = true) ->
    (forall acc, new = RDone acc -> forall q, In q (transpose P R r) -> In q (map fst acc)) ->
    NInv (mkpst (updp (ppr s) r p') (pch s) b') (upds st r new).
  Proof.
    intros I Hr Hacc Hsent Hno Hns -> Hb Hc Hd.
    assert (Ea : forall y, acc_of (upds st r new y) = acc_of (st y)).
    { intros y. unfold upds. destruct (Z.eqb_spec y r) as [Ey|Ey]; [subst y; exact Hacc|reflexivity]. }
    assert (Es : forall y d, sentb (upds st r new y) y d = sentb (st y) y d).
    { intros y d. unfold upds. destruct (Z.eqb_spec y r) as [Ey|Ey]; [subst y; apply Hsent|reflexivity]. }
    assert (Er : forall y a, rcvdb (upds st r new y) a = rcvdb (st y) a) by (intros y a; unfold rcvdb; rewrite Ea; reflexivity).
    constructor.
    - intros y. unfold upds. destruct (Z.eqb_spec y r) as [Ey|Ey]; [subst y; split; [intros E; contradiction|intros E; contradiction]|apply (n_out s st I)].
    - intros y. cbn [ppr]. unfold upds, updp. destruct (Z.eqb_spec y r) as [Ey|Ey]; [subst y; reflexivity|apply (n_prog s st I)].
    - intros a b t. cbn [pch]. rewrite Es, Er. apply (n_ch s st I).
    - intros b. rewrite Ea. destruct (n_acc s st I b) as [A B]. split; [exact A|]. intros a m Hin. rewrite Es. apply B. exact Hin.
    - intros y. cbn [pbar]. apply Hb.
    - intros y Hcy d Hd'. rewrite Er. unfold upds in Hcy. destruct (Z.eqb_spec y r) as [Ey|Ey]; [subst y; apply Hc; assumption|apply (n_cmp s st I y Hcy d Hd')].
    - intros y acc Hy q Hq. unfold upds in Hy. destruct (Z.eqb_spec y r) as [Ey|Ey]; [subst y; apply (Hd acc Hy q Hq)|apply (n_done s st I y acc Hy q Hq)].
    - intros y j Hy. unfold upds in Hy. destruct (Z.eqb_spec y r) as [Ey|Ey]; [subst y; destruct (Hns j Hy)|apply (n_send s st I y j Hy)].
  Qed.
  Lemma skipn_nth {A} (d : A) : forall (l : list A) j, (j < length l)%nat -> skipn j l = nth j l d :: skipn (S j) l.
  Proof.
    induction l as [|x l IH]; intros j Hj; [cbn in Hj; lia|]. destruct j as [|j]; [reflexivity|]. cbn [length] in Hj.
    change (skipn (S j) (x :: l)) with (skipn j l). change (skipn (S (S j)) (x :: l)) with (skipn (S j) l). cbn [nth]. apply IH. lia.
  Qed.

  Lemma memz_cons a x l : memz a (x :: l) = (x =? a) || memz a l.
  Proof. reflexivity. Qed.

  Lemma in_range_of s st r : NInv s st -> st r <> ROut -> 0 <= r < P.
  Proof.
    intros I H. destruct (Z_le_dec 0 r); [destruct (Z_lt_dec r P); [lia|]|]; exfalso; apply H; apply (n_out s st I); lia.
  Qed.

  (* the j-th synchronous send *)
  Lemma NInv_send s st r j : NInv s st -> st r = RSend j ->
    let d := nth j (R r) 0 in
    NInv (mkpst (updp (ppr s) r (do_sends (skipn (S j) (msgs r)) (nbx_loop fuel tag false [] (NK r))))
                (updc (pch s) r d tag (pch s r d tag ++ [nitem r d])) (pbar s))
         (upds st r (mkstate r (S j))).
  Proof.
    intros I Est d.
    assert (Hr : 0 <= r < P) by (apply (in_range_of s st r I); rewrite Est; discriminate).
    pose proof (n_send s st I r j Est) as Hj.
    assert (Hd : In d (R r)) by (apply nth_In; exact Hj).
    assert (Hdr : 0 <= d < P) by (apply (HR r Hr); exact Hd).
    assert (Hnew : forall x, sentb (mkstate r (S j)) r x = sentb (st r) r x || (d =? x)).
    { intros x. rewrite sentb_mkstate by lia. rewrite Est. cbn [sentb]. apply memz_firstn_S. exact Hj. }
    assert (Hold : sentb (st r) r d = false) by (rewrite Est; cbn [sentb]; apply memz_false_nth; [apply R_nodup; exact Hr|exact Hj]).
    assert (Ea : forall y, acc_of (upds st r (mkstate r (S j)) y) = acc_of (st y)).
    { intros y. unfold upds. destruct (Z.eqb_spec y r) as [Ey|Ey]; [subst y; rewrite Est; unfold mkstate; destruct (_ <? _)%nat; reflexivity|reflexivity]. }
    assert (Er : forall y a, rcvdb (upds st r (mkstate r (S j)) y) a = rcvdb (st y) a) by (intros y a; unfold rcvdb; rewrite Ea; reflexivity).
    assert (Es : forall y x, sentb (upds st r (mkstate r (S j)) y) y x = sentb (st y) y x || ((y =? r) && (d =? x))).
    { intros y x. unfold upds. destruct (Z.eqb_spec y r) as [Ey|Ey]; [subst y; rewrite Hnew; cbn [andb]; reflexivity|cbn [andb]; rewrite orb_false_r; reflexivity]. }
    assert (Hnr : rcvdb (st d) r = false).
    { destruct (rcvdb (st d) r) eqn:E; [|reflexivity]. apply rcvdb_In in E. apply in_map_iff in E. destruct E as [[a m] [Ea' Hin]]. cbn [fst] in Ea'. subst a.
      destruct (proj2 (n_acc s st I d) r m Hin) as [Hs _]. congruence. }
    constructor.
    - intros y. unfold upds. destruct (Z.eqb_spec y r) as [Ey|Ey]; [subst y|apply (n_out s st I)].
      unfold mkstate. destruct (_ <? _)%nat; split; try discriminate; intros H; contradiction.
    - intros y. cbn [ppr]. unfold upds, updp. destruct (Z.eqb_spec y r) as [Ey|Ey]; [subst y; rewrite prog_mkstate by lia; reflexivity|apply (n_prog s st I)].
    - intros a b t. cbn [pch]. rewrite Es, Er.
      destruct (Z.eq_dec a r) as [Ha|Ha]; [destruct (Z.eq_dec b d) as [Hb|Hb]; [destruct (Z.eq_dec t tag) as [Ht|Ht]|]|].
      + subst a b t. rewrite updc_same, (n_ch s st I r d tag), Hold, Hnr, !Z.eqb_refl. reflexivity.
      + subst a b. rewrite updc_other by congruence. rewrite (n_ch s st I r d t). destruct (Z.eqb_spec t tag); [contradiction|reflexivity].
      + subst a. rewrite updc_other by congruence. rewrite (n_ch s st I r b t).
        destruct (Z.eqb_spec d b) as [E|E]; [congruence|]. rewrite andb_false_r, orb_false_r. reflexivity.
      + rewrite updc_other by congruence. rewrite (n_ch s st I a b t).
        destruct (Z.eqb_spec a r) as [E|E]; [contradiction|]. cbn [andb]. rewrite orb_false_r. reflexivity.
    - intros b. rewrite Ea. destruct (n_acc s st I b) as [A B]. split; [exact A|]. intros a m Hin. rewrite Es. destruct (B a m Hin) as [B1 B2]. rewrite B1. auto.
    - intros y. cbn [pbar]. rewrite (n_bar s st I y). unfold upds. destruct (Z.eqb_spec y r) as [Ey|Ey]; [subst y|reflexivity].
      rewrite Est. unfold mkstate. destruct (_ <? _)%nat; reflexivity.
    - intros y Hcy x Hx. rewrite Er. unfold upds in Hcy. destruct (Z.eqb_spec y r) as [Ey|Ey]; [subst y|apply (n_cmp s st I y Hcy x Hx)].
      exfalso. unfold mkstate in Hcy. destruct (_ <? _)%nat; discriminate.
    - intros y acc Hy q Hq. unfold upds in Hy. destruct (Z.eqb_spec y r) as [Ey|Ey]; [subst y|apply (n_done s st I y acc Hy q Hq)].
      exfalso. unfold mkstate in Hy. destruct (_ <? _)%nat; discriminate.
    - intros y j' Hy. unfold upds in Hy. destruct (Z.eqb_spec y r) as [Ey|Ey]; [subst y|apply (n_send s st I y j' Hy)].
      unfold mkstate in Hy. destruct (Nat.ltb_spec (S j) (length (R r))); [injection Hy as <-; assumption|discriminate].
  Qed.

  (* a poll that finds the message of src *)
  Lemma NInv_hit s st r f barr acc src m q : NInv s st -> st r = RLoop (S f) barr acc AtPoll -> pch s src r tag = m :: q ->
    0 <= src /\ m = nitem src r /\
    NInv (mkpst (updp (ppr s) r (prog_of r (RLoop f barr ((src, m) :: acc) AtCheck))) (updc (pch s) src r tag q) (pbar s))
         (upds st r (RLoop f barr ((src, m) :: acc) AtCheck)).
  Proof.
    intros I Est Hch.
    assert (Hr : 0 <= r < P) by (apply (in_range_of s st r I); rewrite Est; discriminate).
    pose proof (n_ch s st I src r tag) as Hc. rewrite Hch in Hc. unfold tag in Hc at 1. rewrite Z.eqb_refl in Hc. cbn [andb] in Hc.
    destruct (sentb (st src) src r) eqn:Hsent; [|discriminate]. destruct (rcvdb (st r) src) eqn:Hrc; [discriminate|]. cbn [andb negb] in Hc.
    injection Hc as -> ->.
    assert (Hsrc : 0 <= src < P) by (apply (in_range_of s st src I); intros E; rewrite E in Hsent; discriminate).
    split; [lia|]. split; [reflexivity|].
    set (new := RLoop f barr ((src, nitem src r) :: acc) AtCheck).
    assert (Ea : forall y, acc_of (upds st r new y) = if y =? r then (src, nitem src r) :: acc_of (st r) else acc_of (st y)).
    { intros y. unfold upds. destruct (Z.eqb_spec y r) as [Ey|Ey]; [subst y; rewrite Est; reflexivity|reflexivity]. }
    assert (Er : forall y a, rcvdb (upds st r new y) a = ((y =? r) && (src =? a)) || rcvdb (st y) a).
    { intros y a. unfold rcvdb. rewrite Ea. destruct (Z.eqb_spec y r) as [Ey|Ey]; [subst y; cbn [map fst andb]; apply memz_cons|reflexivity]. }
    assert (Es : forall y x, sentb (upds st r new y) y x = sentb (st y) y x).
    { intros y x. unfold upds. destruct (Z.eqb_spec y r) as [Ey|Ey]; [subst y; rewrite Est; reflexivity|reflexivity]. }
    constructor.
    - intros y. unfold upds. destruct (Z.eqb_spec y r) as [Ey|Ey]; [subst y; split; [discriminate|intros H; contradiction]|apply (n_out s st I)].
    - intros y. cbn [ppr]. unfold upds, updp. destruct (Z.eqb_spec y r) as [Ey|Ey]; [subst y; reflexivity|apply (n_prog s st I)].
    - intros a b t. cbn [pch]. rewrite Es, Er.
      destruct (Z.eq_dec a src) as [Ha|Ha]; [destruct (Z.eq_dec b r) as [Hb|Hb]; [destruct (Z.eq_dec t tag) as [Ht|Ht]|]|].
      + subst a b t. rewrite updc_same, !Z.eqb_refl. cbn [andb orb negb]. rewrite andb_false_r. reflexivity.
      + subst a b. rewrite updc_other by congruence. rewrite (n_ch s st I src r t). destruct (Z.eqb_spec t tag); [contradiction|reflexivity].
      + subst a. rewrite updc_other by congruence. rewrite (n_ch s st I src b t). destruct (Z.eqb_spec b r) as [E|E]; [contradiction|]. reflexivity.
      + rewrite updc_other by congruence. rewrite (n_ch s st I a b t). destruct (Z.eqb_spec src a) as [E|E]; [congruence|]. rewrite andb_false_r. reflexivity.
    - intros b. rewrite Ea. destruct (Z.eqb_spec b r) as [Eb|Eb].
      + subst b. destruct (n_acc s st I r) as [A B]. split.
        * cbn [map fst]. constructor; [|exact A]. intros Hin. apply rcvdb_In in Hin. congruence.
        * intros a m [Hin|Hin]; [injection Hin as <- <-; rewrite Es; auto|rewrite Es; apply B; exact Hin].
      + destruct (n_acc s st I b) as [A B]. split; [exact A|]. intros a m Hin. rewrite Es. apply B. exact Hin.
    - intros y. cbn [pbar]. rewrite (n_bar s st I y). unfold upds. destruct (Z.eqb_spec y r) as [Ey|Ey]; [subst y; rewrite Est; destruct barr; reflexivity|reflexivity].
    - intros y Hcy x Hx. rewrite Er. apply orb_true_iff. right. unfold upds in Hcy. destruct (Z.eqb_spec y r) as [Ey|Ey]; [subst y|apply (n_cmp s st I y Hcy x Hx)].
      apply (n_cmp s st I r); [rewrite Est; destruct barr; [reflexivity|discriminate]|exact Hx].
    - intros y acc' Hy q Hq. unfold upds in Hy. destruct (Z.eqb_spec y r) as [Ey|Ey]; [discriminate|apply (n_done s st I y acc' Hy q Hq)].
    - intros y j' Hy. unfold upds in Hy. destruct (Z.eqb_spec y r) as [Ey|Ey]; [discriminate|apply (n_send s st I y j' Hy)].
  Qed.
  Lemma nbx_loop_S f barr acc k : nbx_loop (S f) tag barr acc k =
    Do (Recv ANY tag) (fun x => let acc' := if hd 0 x <? 0 then acc else (hd 0 x, tl x) :: acc in
                               if barr then Do (Coll K_TEST (-1) []) (fun d => if hd 0 d =? 0 then nbx_loop f tag true acc' k else k (rev acc'))
                               else Do (Coll K_TESTALL (-1) []) (fun s0 => if hd 0 s0 =? 0 then nbx_loop f tag false acc' k
                                                                          else Do (Coll K_IBARRIER (-1) []) (fun _ => nbx_loop f tag true acc' k))).
  Proof. reflexivity. Qed.

  Lemma check_prog r f (barr : bool) acc :
    (if barr then Do (Coll K_TEST (-1) []) (fun d => if hd 0 d =? 0 then nbx_loop f tag true acc (NK r) else NK r (rev acc))
     else Do (Coll K_TESTALL (-1) []) (fun s0 => if hd 0 s0 =? 0 then nbx_loop f tag false acc (NK r)
                                                else Do (Coll K_IBARRIER (-1) []) (fun _ => nbx_loop f tag true acc (NK r))))
    = prog_of r (RLoop f barr acc AtCheck).
  Proof. destruct barr; reflexivity. Qed.

  Lemma NK_ret r got : exists o, NK r got = Ret o.
  Proof. unfold NK. eauto. Qed.

  Lemma nbx_poll_tag : nbx_poll tag = true.
  Proof. unfold nbx_poll, tag. apply Z.eqb_refl. Qed.

  Lemma prog_poll r f barr acc : prog_of r (RLoop f barr acc AtPoll) = nbx_loop f tag barr acc (NK r).
  Proof. destruct barr; reflexivity. Qed.
  Lemma prog_ibar r f barr acc : prog_of r (RLoop f barr acc AtIbar) = Do (Coll K_IBARRIER (-1) []) (fun _ => nbx_loop f tag true acc (NK r)).
  Proof. destruct barr; reflexivity. Qed.

  Ltac prog_shape I Est E :=
    match type of E with @eq prog (ppr ?s ?r) ?rhs => rewrite (n_prog s _ I r), Est in E; rewrite ?prog_poll, ?prog_ibar in E; cbn [prog_of] in E end.

  Theorem NInv_step s st r s' : NInv s st -> step_p P nbx_poll nbx_stags s r s' -> exists st', NInv s' st'.
  Proof.
    intros I Hs.
    destruct (st r) as [j|f barr acc p|acc|] eqn:Est.
    - (* sending: the program is at the j-th Issend *)
      pose proof (n_send s st I r j Est) as Hj.
      assert (Hsk : skipn j (msgs r) = (nth j (R r) 0, tag, nitem r (nth j (R r) 0)) :: skipn (S j) (msgs r)).
      { rewrite (skipn_nth (0, tag, nitem r 0)) by (unfold msgs; rewrite map_length; exact Hj). f_equal.
        unfold msgs. rewrite (map_nth (fun d => (d, tag, nitem r d))). reflexivity. }
      inversion Hs as [? ? d t m k E|? ? src t k m q S0 E C|? ? src t k m q E Ep C|? ? src t k m q E Ep C|? ? t k E Ep En
                      |? ? root c k E|? ? root c k E|? ? root c k E]; subst; prog_shape I Est E; rewrite Hsk in E; cbn [do_sends] in E; unfold send in E; try discriminate.
      injection E as <- <- <- <-. eexists. exact (NInv_send s st r j I Est).
    - destruct p.
      + (* at the poll *)
        destruct f as [|f].
        * exfalso. inversion Hs; subst; match goal with E : ppr s r = _ |- _ => prog_shape I Est E; cbn [nbx_loop] in E; try discriminate end.
          all: match goal with E : Do _ _ = Do _ _ |- _ => injection E; intros; match goal with H : K_FUEL = _ |- _ => vm_compute in H; discriminate H end end.
        * inversion Hs as [? ? d t m k E|? ? src t k m q S0 E C|? ? src t k m q E Ep C|? ? src t k m q E Ep C|? ? t k E Ep En
                          |? ? root c k E|? ? root c k E|? ? root c k E]; subst; prog_shape I Est E; rewrite nbx_loop_S in E; try discriminate.
          -- injection E as E1 E2 E3. unfold ANY in E1. lia.
          -- injection E as <- <-. rewrite nbx_poll_tag in Ep. discriminate.
          -- (* hit *) injection E as <- <-. destruct (NInv_hit s st r f barr acc src m q I Est C) as [H0 [-> Hinv]].
             eexists. cbv zeta. cbn [hd tl]. replace (src <? 0) with false by lia. rewrite check_prog. exact Hinv.
          -- (* miss *) injection E as <- <-. eexists. cbv zeta. cbn [hd]. change (-1 <? 0) with true. cbv iota. rewrite check_prog.
             apply (NInv_keep s st r (RLoop f barr acc AtCheck)); try assumption; try reflexivity; try discriminate.
             ++ apply (in_range_of s st r I). rewrite Est. discriminate.
             ++ rewrite Est. reflexivity.
             ++ intros d. rewrite Est. reflexivity.
             ++ intros y. rewrite (n_bar s st I y). unfold upds. destruct (Z.eqb_spec y r) as [Ey|Ey]; [subst y; rewrite Est; destruct barr; reflexivity|reflexivity].
             ++ intros Hc. apply (n_cmp s st I r). rewrite Est. destruct barr; [reflexivity|discriminate].
      + (* at Testall / Test *)
        destruct barr.
        * inversion Hs as [? ? d t m k E|? ? src t k m q S0 E C|? ? src t k m q E Ep C|? ? src t k m q E Ep C|? ? t k E Ep En
                          |? ? root c k E|? ? root c k E|? ? root c k E]; subst; prog_shape I Est E; try discriminate.
          injection E as _ _ <-. destruct (allbar P (pbar s)) eqn:Eb; cbn [flag hd Z.eqb].
          -- (* the barrier is complete: return *)
             eexists. apply (NInv_keep s st r (RDone acc)); try assumption; try reflexivity; try discriminate.
             ++ apply (in_range_of s st r I). rewrite Est. discriminate.
             ++ rewrite Est. reflexivity.
             ++ intros d. rewrite Est. reflexivity.
             ++ intros y. rewrite (n_bar s st I y). unfold upds. destruct (Z.eqb_spec y r) as [Ey|Ey]; [subst y; rewrite Est; reflexivity|reflexivity].
             ++ intros _. apply (n_cmp s st I r). rewrite Est. reflexivity.
             ++ intros acc' Hacc q Hq. injection Hacc as <-. apply transpose_In in Hq. destruct Hq as [Hq Hrq].
                rewrite allbar_spec in Eb. pose proof (Eb q Hq) as Hbq. rewrite (n_bar s st I q) in Hbq.
                assert (Hcq : complete (st q) = true) by (destruct (st q) as [?|? [|] ? ?|?|]; try discriminate; reflexivity).
                pose proof (n_cmp s st I q Hcq r Hrq) as Hrc. apply rcvdb_In in Hrc. rewrite Est in Hrc. exact Hrc.
          -- eexists. apply (NInv_keep s st r (RLoop f true acc AtPoll)); try assumption; try reflexivity; try discriminate.
             ++ apply (in_range_of s st r I). rewrite Est. discriminate.
             ++ rewrite Est. reflexivity.
             ++ intros d. rewrite Est. reflexivity.
             ++ intros y. rewrite (n_bar s st I y). unfold upds. destruct (Z.eqb_spec y r) as [Ey|Ey]; [subst y; rewrite Est; reflexivity|reflexivity].
             ++ intros _. apply (n_cmp s st I r). rewrite Est. reflexivity.
        * inversion Hs as [? ? d t m k E|? ? src t k m q S0 E C|? ? src t k m q E Ep C|? ? src t k m q E Ep C|? ? t k E Ep En
                          |? ? root c k E|? ? root c k E|? ? root c k E]; subst; prog_shape I Est E; try discriminate.
          injection E as _ _ <-. destruct (allsent P nbx_stags (pch s) r) eqn:Eb; cbn [flag hd Z.eqb].
          -- (* all synchronous sends matched: next the Ibarrier *)
             eexists. apply (NInv_keep s st r (RLoop f false acc AtIbar)); try assumption; try reflexivity; try discriminate.
             ++ apply (in_range_of s st r I). rewrite Est. discriminate.
             ++ rewrite Est. reflexivity.
             ++ intros d. rewrite Est. reflexivity.
             ++ intros y. rewrite (n_bar s st I y). unfold upds. destruct (Z.eqb_spec y r) as [Ey|Ey]; [subst y; rewrite Est; reflexivity|reflexivity].
             ++ intros _ d Hd. assert (Hr : 0 <= r < P) by (apply (in_range_of s st r I); rewrite Est; discriminate).
                rewrite allsent_spec in Eb. specialize (Eb d tag (proj2 (HR r Hr) d Hd) (or_introl eq_refl)).
                rewrite (n_ch s st I r d tag) in Eb. unfold tag in Eb at 1. rewrite Z.eqb_refl, Est in Eb. cbn [sentb andb] in Eb.
                rewrite (proj2 (memz_In d (R r)) Hd) in Eb. cbn [andb] in Eb. destruct (rcvdb (st d) r); [reflexivity|discriminate].
          -- eexists. apply (NInv_keep s st r (RLoop f false acc AtPoll)); try assumption; try reflexivity; try discriminate.
             ++ apply (in_range_of s st r I). rewrite Est. discriminate.
             ++ rewrite Est. reflexivity.
             ++ intros d. rewrite Est. reflexivity.
             ++ intros y. rewrite (n_bar s st I y). unfold upds. destruct (Z.eqb_spec y r) as [Ey|Ey]; [subst y; rewrite Est; reflexivity|reflexivity].
      + (* at the Ibarrier *)
        assert (Hc0 : complete (st r) = true) by (rewrite Est; destruct barr; reflexivity).
        inversion Hs as [? ? d t m k E|? ? src t k m q S0 E C|? ? src t k m q E Ep C|? ? src t k m q E Ep C|? ? t k E Ep En
                        |? ? root c k E|? ? root c k E|? ? root c k E]; subst; prog_shape I Est E; try discriminate.
        injection E as _ _ <-. eexists. apply (NInv_keep s st r (RLoop f true acc AtPoll)); try assumption; try reflexivity; try discriminate.
        * apply (in_range_of s st r I). rewrite Est. discriminate.
        * rewrite Est. reflexivity.
        * intros d. rewrite Est. reflexivity.
        * intros y. unfold updb, upds. destruct (Z.eqb_spec y r) as [Ey|Ey]; [reflexivity|apply (n_bar s st I y)].
        * intros _. apply (n_cmp s st I r Hc0).
    - exfalso. destruct (NK_ret r (rev acc)) as [o Ho]. inversion Hs; subst; match goal with E : ppr s r = _ |- _ => prog_shape I Est E; rewrite Ho in E; discriminate end.
    - exfalso. inversion Hs; subst; match goal with E : ppr s r = _ |- _ => prog_shape I Est E; discriminate end.
  Qed.
End NbxSched.
