(* C01 / C02 - nbx (sc_notify_payload_nbx: MPI_Issend to every receiver, then the loop  Iprobe (+ Recv) / Testall (+ Ibarrier) / Test) under
   EVERY SCHEDULE of the interleaving semantics with polls MPI/SemPoll.v (a poll reports whether a message is available, a synchronous
   send is complete when matched, the barrier is complete when every rank has posted it).

   System nbx_sys fuel P R hp pay sorted: rank r, 0 <= r < P, runs the co-simulated program
       nbx_core fuel (R r) ep sorted (fun s g => Ret (result s g)),   ep = Some items iff hp;
   every other rank has returned; channels empty; no barrier posted.  `fuel` is the model's bound on the iterations of the loop (the C
   loop has none); a rank that exhausts it stops at the action fuel_mark, which is never a call of the code.

   SAFETY (theorem nbx_safety): in EVERY reachable state the invariant `NInv` holds - every rank is in one of the phases sending /
   polling before the barrier / barrier posted / returned; a channel holds exactly the messages sent and not yet received; a rank
   posts the barrier only after ALL its synchronous sends were matched; a rank returns only after ALL ranks posted the barrier, hence
   after every message addressed to it was received BY IT.  Consequently (theorem nbx_final) in every final state every rank r has
   returned result o (items of o) with o a permutation of transpose P R r (the transposed list if sorted), every channel is empty (no
   unreceived message, no pending send request) and every rank has posted the barrier.  This is the argument behind the round
   abstraction of NbxProofs.nbx_round, now derived from a global semantics.
   LIVENESS: see nbx_no_stuck_rank below (what is proved) and docs/C01_sched2.md (what is missing). *)
From Coq Require Import ZArith Lia List Bool Permutation.
From ScV Require Import Base.CInt MPI.Prog MPI.Sem MPI.SemPoll Gen.Consts Gen.NotifyC01
     C01.MergeModel C01.MergeProofs C01.NotifyProgs C01.NotifyProgProofs C01.RecordOps C01.NaryRound C01.NarySched C01.CensusSched.
Import ListNotations.
Local Open Scope Z_scope.

Definition nbx_poll (t : Z) : bool := t =? c_SC_TAG_NOTIFY_NBX.
Definition nbx_stags : list Z := [c_SC_TAG_NOTIFY_NBX].

Inductive pos := AtPoll | AtCheck | AtIbar.
Inductive rstate :=
| RSend (j : nat)                                                  (* j messages sent *)
| RLoop (f : nat) (barr : bool) (acc : list (Z * payload)) (p : pos)
| RDone (acc : list (Z * payload))
| ROut.                                                            (* a rank outside the communicator *)

Lemma memz_firstn_S d : forall (l : list Z) j, (j < length l)%nat -> memz d (firstn (S j) l) = memz d (firstn j l) || (nth j l 0 =? d).
Proof.
  induction l as [|x l IH]; intros j Hj; [cbn in Hj; lia|]. destruct j as [|j].
  - cbn. rewrite orb_false_r. reflexivity.
  - cbn [length] in Hj. change (firstn (S (S j)) (x :: l)) with (x :: firstn (S j) l). change (firstn (S j) (x :: l)) with (x :: firstn j l).
    cbn [nth]. unfold memz in *. cbn [existsb]. rewrite IH by lia. rewrite orb_assoc. reflexivity.
Qed.

Lemma nth_firstn_lt {A} : forall (l : list A) i j d, (i < j)%nat -> nth i (firstn j l) d = nth i l d.
Proof.
  induction l as [|x l IH]; intros i j d H; [destruct j; destruct i; reflexivity|].
  destruct j as [|j]; [lia|]. destruct i as [|i]; [reflexivity|]. cbn [firstn nth]. apply IH. lia.
Qed.

Lemma memz_false_nth l j : NoDup l -> (j < length l)%nat -> memz (nth j l 0) (firstn j l) = false.
Proof.
  intros Hnd Hj. destruct (memz (nth j l 0) (firstn j l)) eqn:E; [|reflexivity]. exfalso. apply memz_In in E.
  destruct (In_nth _ _ 0 E) as [i [Hi Ei]]. rewrite firstn_length in Hi.
  assert (Hi' : (i < j)%nat) by lia. rewrite (nth_firstn_lt l i j 0 Hi') in Ei.
  assert (i = j) by (apply (proj1 (NoDup_nth l 0) Hnd); [lia|lia|exact Ei]). lia.
Qed.

Section NbxSched.
  Variable P : Z.
  Variable R : Z -> list Z.
  Variable hp : bool.
  Variable pay : Z -> Z -> payload.
  Variable sorted : bool.
  Variable fuel : nat.
  Hypothesis HR : forall f, 0 <= f < P -> ssorted (fun x => x) (R f) /\ forall t, In t (R f) -> 0 <= t < P.

  Let tag := c_SC_TAG_NOTIFY_NBX.
  Definition nep (r : Z) : option (list payload) := if hp then Some (map (pay r) (R r)) else None.
  Definition nitem (q r : Z) : payload := if hp then pay q r else [].
  Definition nbx_prog (r : Z) : prog := if inr P r then nbx_core fuel (R r) (nep r) sorted (fun s g => Ret (result s g)) else Ret [].
  Definition nbx_sys : pst := mkpst nbx_prog (fun _ _ _ => []) (fun _ => false).

  (* the continuation of the loop, as nbx_core builds it *)
  Definition NK (r : Z) : list (Z * payload) -> prog := fun got =>
    let got' := if sorted then sort_by_src got else got in
    (fun s g => Ret (result s g)) (map fst got') (match nep r with None => [] | Some _ => map snd got' end).
  Definition msgs (r : Z) : list (Z * Z * payload) := map (fun d => (d, tag, nitem r d)) (R r).

  Lemma nbx_core_eq r : nbx_core fuel (R r) (nep r) sorted (fun s g => Ret (result s g)) = do_sends (msgs r) (nbx_loop fuel tag false [] (NK r)).
  Proof.
    unfold nbx_core, msgs, NK. f_equal. unfold nep, nitem. destruct hp; rewrite zip_map_l, map_map; reflexivity.
  Qed.

  Definition prog_of (r : Z) (st : rstate) : prog :=
    match st with
    | RSend j => do_sends (skipn j (msgs r)) (nbx_loop fuel tag false [] (NK r))
    | RLoop f barr acc AtPoll => nbx_loop f tag barr acc (NK r)
    | RLoop f true acc AtCheck =>
      Do (Coll K_TEST (-1) []) (fun d => if hd 0 d =? 0 then nbx_loop f tag true acc (NK r) else NK r (rev acc))
    | RLoop f false acc AtCheck =>
      Do (Coll K_TESTALL (-1) []) (fun s => if hd 0 s =? 0 then nbx_loop f tag false acc (NK r)
                                            else Do (Coll K_IBARRIER (-1) []) (fun _ => nbx_loop f tag true acc (NK r)))
    | RLoop f _ acc AtIbar => Do (Coll K_IBARRIER (-1) []) (fun _ => nbx_loop f tag true acc (NK r))
    | RDone acc => NK r (rev acc)
    | ROut => Ret []
    end.

  Definition sentb (st : rstate) (r d : Z) : bool :=
    match st with RSend j => memz d (firstn j (R r)) | ROut => false | _ => memz d (R r) end.
  Definition acc_of (st : rstate) : list (Z * payload) := match st with RLoop _ _ acc _ => acc | RDone acc => acc | _ => [] end.
  Definition rcvdb (st : rstate) (a : Z) : bool := memz a (map fst (acc_of st)).
  Definition barred (st : rstate) : bool := match st with RLoop _ true _ _ => true | RDone _ => true | _ => false end.
  (* the rank has seen Testall = 1: all its synchronous sends were matched *)
  Definition complete (st : rstate) : bool :=
    match st with RLoop _ true _ _ => true | RLoop _ false _ AtIbar => true | RDone _ => true | _ => false end.
  Definition mkstate (r : Z) (j : nat) : rstate := if (j <? length (R r))%nat then RSend j else RLoop fuel false [] AtPoll.
  Definition st0 (r : Z) : rstate := if inr P r then mkstate r 0 else ROut.

  Record NInv (s : pst) (st : Z -> rstate) : Prop := {
    n_out : forall r, st r = ROut <-> ~ (0 <= r < P);
    n_prog : forall r, ppr s r = prog_of r (st r);
    n_ch : forall a b t, pch s a b t = if (t =? tag) && sentb (st a) a b && negb (rcvdb (st b) a) then [nitem a b] else [];
    n_acc : forall b, NoDup (map fst (acc_of (st b))) /\ forall a m, In (a, m) (acc_of (st b)) -> sentb (st a) a b = true /\ m = nitem a b;
    n_bar : forall r, pbar s r = barred (st r);
    n_cmp : forall r, complete (st r) = true -> forall d, In d (R r) -> rcvdb (st d) r = true;
    n_done : forall r acc, st r = RDone acc -> forall q, In q (transpose P R r) -> In q (map fst acc);
    n_send : forall r j, st r = RSend j -> (j < length (R r))%nat
  }.

  Lemma R_nodup r : 0 <= r < P -> NoDup (R r).
  Proof. intros Hr. apply (ssorted_NoDup (fun x => x)). apply (HR r Hr). Qed.

  Lemma prog_mkstate r j : (j <= length (R r))%nat -> prog_of r (mkstate r j) = do_sends (skipn j (msgs r)) (nbx_loop fuel tag false [] (NK r)).
  Proof.
    intros Hj. unfold mkstate. destruct (Nat.ltb_spec j (length (R r))); [reflexivity|].
    cbn [prog_of]. rewrite skipn_all2 by (unfold msgs; rewrite map_length; lia). reflexivity.
  Qed.

  Lemma sentb_mkstate r j d : (j <= length (R r))%nat -> sentb (mkstate r j) r d = memz d (firstn j (R r)).
  Proof.
    intros Hj. unfold mkstate. destruct (Nat.ltb_spec j (length (R r))); [reflexivity|]. cbn [sentb]. rewrite firstn_all2 by lia. reflexivity.
  Qed.

  Lemma NInv_init : NInv nbx_sys st0.
  Proof.
    constructor.
    - intros r. unfold st0. destruct (inr P r) eqn:E.
      + apply inr_spec in E. unfold mkstate. destruct (_ <? _)%nat; split; try discriminate; intros H; contradiction.
      + split; [intros _ H; apply inr_spec in H; congruence|reflexivity].
    - intros r. cbn [nbx_sys ppr]. unfold nbx_prog, st0. destruct (inr P r); [|reflexivity].
      rewrite nbx_core_eq, prog_mkstate by lia. reflexivity.
    - intros a b t. cbn [nbx_sys pch]. unfold st0. destruct (inr P a); [|cbn [sentb]; rewrite andb_false_r; reflexivity].
      rewrite sentb_mkstate by lia. cbn [firstn]. unfold memz. cbn [existsb]. rewrite andb_false_r. reflexivity.
    - intros b. assert (E : acc_of (st0 b) = []) by (unfold st0, mkstate; destruct (inr P b); [destruct (_ <? _)%nat|]; reflexivity).
      rewrite E. split; [constructor|intros a m []].
    - intros r. cbn [nbx_sys pbar]. unfold st0, mkstate. destruct (inr P r); [destruct (_ <? _)%nat|]; reflexivity.
    - intros r H. exfalso. unfold st0, mkstate in H. destruct (inr P r); [destruct (_ <? _)%nat|]; discriminate.
    - intros r acc H. exfalso. unfold st0, mkstate in H. destruct (inr P r); [destruct (_ <? _)%nat|]; discriminate.
    - intros r j H. unfold st0, mkstate in H. destruct (inr P r); [|discriminate]. destruct (Nat.ltb_spec 0 (length (R r))); [|discriminate].
      injection H as <-. lia.
  Qed.

  (* ---- preservation ------------------------------------------------------------------------------------------------------------------- *)
  Definition upds (st : Z -> rstate) (r : Z) (v : rstate) : Z -> rstate := fun y => if y =? r then v else st y.
  Lemma upds_same st r v : upds st r v r = v.
  Proof. unfold upds. rewrite Z.eqb_refl. reflexivity. Qed.
  Lemma upds_other st r v y : y <> r -> upds st r v y = st y.
  Proof. intros H. unfold upds. destruct (Z.eqb_spec y r); [contradiction|reflexivity]. Qed.

  Lemma rcvdb_In st a : rcvdb st a = true <-> In a (map fst (acc_of st)).
  Proof. unfold rcvdb. apply memz_In. Qed.

  (* a step that changes neither the channels nor what the rank has sent / received *)
  Lemma NInv_keep s st r new p' b' : NInv s st -> 0 <= r < P ->
    acc_of new = acc_of (st r) -> (forall d, sentb new r d = sentb (st r) r d) -> new <> ROut -> (forall j, new <> RSend j) ->
    p' = prog_of r new -> (forall y, b' y = barred (upds st r new y)) ->
    (complete new = true -> forall d, In d (R r) -> rcvdb (st d) r = true) ->
    (forall acc, new = RDone acc -> forall q, In q (transpose P R r) -> In q (map fst acc)) ->
    NInv (mkpst (updp (ppr s) r p') (pch s) b') (upds st r new).
  Proof.
    intros I Hr Hacc Hsent Hno Hns -> Hb Hc Hd.
    assert (Ea : forall y, acc_of (upds st r new y) = acc_of (st y)).
    { intros y. unfold upds. destruct (Z.eqb_spec y r) as [Ey|Ey]; [subst y; exact Hacc|reflexivity]. }
    assert (Es : forall y d, sentb (upds st r new y) y d = sentb (st y) y d).
    { intros y d. unfold upds. destruct (Z.eqb_spec y r) as [Ey|Ey]; [subst y; apply Hsent|reflexivity]. }
    assert (Er : forall y a, rcvdb (upds st r new y) a = rcvdb (st y) a) by (intros y a; unfold rcvdb; rewrite Ea; reflexivity).
    constructor.
    - intros y. unfold upds. destruct (Z.eqb_spec y r) as [Ey|Ey]; [subst y; split; [intros E; contradiction|intros E; contradiction]|apply (n_out s st I)].
    - intros y. cbn [ppr]. unfold upds, updp. destruct (Z.eqb_spec y r) as [Ey|Ey]; [subst y; reflexivity|apply (n_prog s st I)].
    - intros a b t. cbn [pch]. rewrite Es, Er. apply (n_ch s st I).
    - intros b. rewrite Ea. destruct (n_acc s st I b) as [A B]. split; [exact A|]. intros a m Hin. rewrite Es. apply B. exact Hin.
    - intros y. cbn [pbar]. apply Hb.
    - intros y Hcy d Hd'. rewrite Er. unfold upds in Hcy. destruct (Z.eqb_spec y r) as [Ey|Ey]; [subst y; apply Hc; assumption|apply (n_cmp s st I y Hcy d Hd')].
    - intros y acc Hy q Hq. unfold upds in Hy. destruct (Z.eqb_spec y r) as [Ey|Ey]; [subst y; apply (Hd acc Hy q Hq)|apply (n_done s st I y acc Hy q Hq)].
    - intros y j Hy. unfold upds in Hy. destruct (Z.eqb_spec y r) as [Ey|Ey]; [subst y; destruct (Hns j Hy)|apply (n_send s st I y j Hy)].
  Qed.
  Lemma skipn_nth {A} (d : A) : forall (l : list A) j, (j < length l)%nat -> skipn j l = nth j l d :: skipn (S j) l.
  Proof.
    induction l as [|x l IH]; intros j Hj; [cbn in Hj; lia|]. destruct j as [|j]; [reflexivity|]. cbn [length] in Hj.
    change (skipn (S j) (x :: l)) with (skipn j l). change (skipn (S (S j)) (x :: l)) with (skipn (S j) l). cbn [nth]. apply IH. lia.
  Qed.

  Lemma memz_cons a x l : memz a (x :: l) = (x =? a) || memz a l.
  Proof. reflexivity. Qed.

  Lemma in_range_of s st r : NInv s st -> st r <> ROut -> 0 <= r < P.
  Proof.
    intros I H. destruct (Z_le_dec 0 r); [destruct (Z_lt_dec r P); [lia|]|]; exfalso; apply H; apply (n_out s st I); lia.
  Qed.

  (* the j-th synchronous send *)
  Lemma NInv_send s st r j : NInv s st -> st r = RSend j ->
    let d := nth j (R r) 0 in
    NInv (mkpst (updp (ppr s) r (do_sends (skipn (S j) (msgs r)) (nbx_loop fuel tag false [] (NK r))))
                (updc (pch s) r d tag (pch s r d tag ++ [nitem r d])) (pbar s))
         (upds st r (mkstate r (S j))).
  Proof.
    intros I Est d.
    assert (Hr : 0 <= r < P) by (apply (in_range_of s st r I); rewrite Est; discriminate).
    pose proof (n_send s st I r j Est) as Hj.
    assert (Hd : In d (R r)) by (apply nth_In; exact Hj).
    assert (Hdr : 0 <= d < P) by (apply (HR r Hr); exact Hd).
    assert (Hnew : forall x, sentb (mkstate r (S j)) r x = sentb (st r) r x || (d =? x)).
    { intros x. rewrite sentb_mkstate by lia. rewrite Est. cbn [sentb]. apply memz_firstn_S. exact Hj. }
    assert (Hold : sentb (st r) r d = false) by (rewrite Est; cbn [sentb]; apply memz_false_nth; [apply R_nodup; exact Hr|exact Hj]).
    assert (Ea : forall y, acc_of (upds st r (mkstate r (S j)) y) = acc_of (st y)).
    { intros y. unfold upds. destruct (Z.eqb_spec y r) as [Ey|Ey]; [subst y; rewrite Est; unfold mkstate; destruct (_ <? _)%nat; reflexivity|reflexivity]. }
    assert (Er : forall y a, rcvdb (upds st r (mkstate r (S j)) y) a = rcvdb (st y) a) by (intros y a; unfold rcvdb; rewrite Ea; reflexivity).
    assert (Es : forall y x, sentb (upds st r (mkstate r (S j)) y) y x = sentb (st y) y x || ((y =? r) && (d =? x))).
    { intros y x. unfold upds. destruct (Z.eqb_spec y r) as [Ey|Ey]; [subst y; rewrite Hnew; cbn [andb]; reflexivity|cbn [andb]; rewrite orb_false_r; reflexivity]. }
    assert (Hnr : rcvdb (st d) r = false).
    { destruct (rcvdb (st d) r) eqn:E; [|reflexivity]. apply rcvdb_In in E. apply in_map_iff in E. destruct E as [[a m] [Ea' Hin]]. cbn [fst] in Ea'. subst a.
      destruct (proj2 (n_acc s st I d) r m Hin) as [Hs _]. congruence. }
    constructor.
    - intros y. unfold upds. destruct (Z.eqb_spec y r) as [Ey|Ey]; [subst y|apply (n_out s st I)].
      unfold mkstate. destruct (_ <? _)%nat; split; try discriminate; intros H; contradiction.
    - intros y. cbn [ppr]. unfold upds, updp. destruct (Z.eqb_spec y r) as [Ey|Ey]; [subst y; rewrite prog_mkstate by lia; reflexivity|apply (n_prog s st I)].
    - intros a b t. cbn [pch]. rewrite Es, Er.
      destruct (Z.eq_dec a r) as [Ha|Ha]; [destruct (Z.eq_dec b d) as [Hb|Hb]; [destruct (Z.eq_dec t tag) as [Ht|Ht]|]|].
      + subst a b t. rewrite updc_same, (n_ch s st I r d tag), Hold, Hnr, !Z.eqb_refl. reflexivity.
      + subst a b. rewrite updc_other by congruence. rewrite (n_ch s st I r d t). destruct (Z.eqb_spec t tag); [contradiction|reflexivity].
      + subst a. rewrite updc_other by congruence. rewrite (n_ch s st I r b t).
        destruct (Z.eqb_spec d b) as [E|E]; [congruence|]. rewrite andb_false_r, orb_false_r. reflexivity.
      + rewrite updc_other by congruence. rewrite (n_ch s st I a b t).
        destruct (Z.eqb_spec a r) as [E|E]; [contradiction|]. cbn [andb]. rewrite orb_false_r. reflexivity.
    - intros b. rewrite Ea. destruct (n_acc s st I b) as [A B]. split; [exact A|]. intros a m Hin. rewrite Es. destruct (B a m Hin) as [B1 B2]. rewrite B1. auto.
    - intros y. cbn [pbar]. rewrite (n_bar s st I y). unfold upds. destruct (Z.eqb_spec y r) as [Ey|Ey]; [subst y|reflexivity].
      rewrite Est. unfold mkstate. destruct (_ <? _)%nat; reflexivity.
    - intros y Hcy x Hx. rewrite Er. unfold upds in Hcy. destruct (Z.eqb_spec y r) as [Ey|Ey]; [subst y|apply (n_cmp s st I y Hcy x Hx)].
      exfalso. unfold mkstate in Hcy. destruct (_ <? _)%nat; discriminate.
    - intros y acc Hy q Hq. unfold upds in Hy. destruct (Z.eqb_spec y r) as [Ey|Ey]; [subst y|apply (n_done s st I y acc Hy q Hq)].
      exfalso. unfold mkstate in Hy. destruct (_ <? _)%nat; discriminate.
    - intros y j' Hy. unfold upds in Hy. destruct (Z.eqb_spec y r) as [Ey|Ey]; [subst y|apply (n_send s st I y j' Hy)].
      unfold mkstate in Hy. destruct (Nat.ltb_spec (S j) (length (R r))); [injection Hy as <-; assumption|discriminate].
  Qed.

  (* a poll that finds the message of src *)
  Lemma NInv_hit s st r f barr acc src m q : NInv s st -> st r = RLoop (S f) barr acc AtPoll -> pch s src r tag = m :: q ->
    0 <= src /\ m = nitem src r /\
    NInv (mkpst (updp (ppr s) r (prog_of r (RLoop f barr ((src, m) :: acc) AtCheck))) (updc (pch s) src r tag q) (pbar s))
         (upds st r (RLoop f barr ((src, m) :: acc) AtCheck)).
  Proof.
    intros I Est Hch.
    assert (Hr : 0 <= r < P) by (apply (in_range_of s st r I); rewrite Est; discriminate).
    pose proof (n_ch s st I src r tag) as Hc. rewrite Hch in Hc. unfold tag in Hc at 1. rewrite Z.eqb_refl in Hc. cbn [andb] in Hc.
    destruct (sentb (st src) src r) eqn:Hsent; [|discriminate]. destruct (rcvdb (st r) src) eqn:Hrc; [discriminate|]. cbn [andb negb] in Hc.
    injection Hc as -> ->.
    assert (Hsrc : 0 <= src < P) by (apply (in_range_of s st src I); intros E; rewrite E in Hsent; discriminate).
    split; [lia|]. split; [reflexivity|].
    set (new := RLoop f barr ((src, nitem src r) :: acc) AtCheck).
    assert (Ea : forall y, acc_of (upds st r new y) = if y =? r then (src, nitem src r) :: acc_of (st r) else acc_of (st y)).
    { intros y. unfold upds. destruct (Z.eqb_spec y r) as [Ey|Ey]; [subst y; rewrite Est; reflexivity|reflexivity]. }
    assert (Er : forall y a, rcvdb (upds st r new y) a = ((y =? r) && (src =? a)) || rcvdb (st y) a).
    { intros y a. unfold rcvdb. rewrite Ea. destruct (Z.eqb_spec y r) as [Ey|Ey]; [subst y; cbn [map fst andb]; apply memz_cons|reflexivity]. }
    assert (Es : forall y x, sentb (upds st r new y) y x = sentb (st y) y x).
    { intros y x. unfold upds. destruct (Z.eqb_spec y r) as [Ey|Ey]; [subst y; rewrite Est; reflexivity|reflexivity]. }
    constructor.
    - intros y. unfold upds. destruct (Z.eqb_spec y r) as [Ey|Ey]; [subst y; split; [discriminate|intros H; contradiction]|apply (n_out s st I)].
    - intros y. cbn [ppr]. unfold upds, updp. destruct (Z.eqb_spec y r) as [Ey|Ey]; [subst y; reflexivity|apply (n_prog s st I)].
    - intros a b t. cbn [pch]. rewrite Es, Er.
      destruct (Z.eq_dec a src) as [Ha|Ha]; [destruct (Z.eq_dec b r) as [Hb|Hb]; [destruct (Z.eq_dec t tag) as [Ht|Ht]|]|].
      + subst a b t. rewrite updc_same, !Z.eqb_refl. cbn [andb orb negb]. rewrite andb_false_r. reflexivity.
      + subst a b. rewrite updc_other by congruence. rewrite (n_ch s st I src r t). destruct (Z.eqb_spec t tag); [contradiction|reflexivity].
      + subst a. rewrite updc_other by congruence. rewrite (n_ch s st I src b t). destruct (Z.eqb_spec b r) as [E|E]; [contradiction|]. reflexivity.
      + rewrite updc_other by congruence. rewrite (n_ch s st I a b t). destruct (Z.eqb_spec src a) as [E|E]; [congruence|]. rewrite andb_false_r. reflexivity.
    - intros b. rewrite Ea. destruct (Z.eqb_spec b r) as [Eb|Eb].
      + subst b. destruct (n_acc s st I r) as [A B]. split.
        * cbn [map fst]. constructor; [|exact A]. intros Hin. apply rcvdb_In in Hin. congruence.
        * intros a m [Hin|Hin]; [injection Hin as <- <-; rewrite Es; auto|rewrite Es; apply B; exact Hin].
      + destruct (n_acc s st I b) as [A B]. split; [exact A|]. intros a m Hin. rewrite Es. apply B. exact Hin.
    - intros y. cbn [pbar]. rewrite (n_bar s st I y). unfold upds. destruct (Z.eqb_spec y r) as [Ey|Ey]; [subst y; rewrite Est; destruct barr; reflexivity|reflexivity].
    - intros y Hcy x Hx. rewrite Er. apply orb_true_iff. right. unfold upds in Hcy. destruct (Z.eqb_spec y r) as [Ey|Ey]; [subst y|apply (n_cmp s st I y Hcy x Hx)].
      apply (n_cmp s st I r); [rewrite Est; destruct barr; [reflexivity|discriminate]|exact Hx].
    - intros y acc' Hy q Hq. unfold upds in Hy. destruct (Z.eqb_spec y r) as [Ey|Ey]; [discriminate|apply (n_done s st I y acc' Hy q Hq)].
    - intros y j' Hy. unfold upds in Hy. destruct (Z.eqb_spec y r) as [Ey|Ey]; [discriminate|apply (n_send s st I y j' Hy)].
  Qed.
  Lemma nbx_loop_S f barr acc k : nbx_loop (S f) tag barr acc k =
    Do (Recv ANY tag) (fun x => let acc' := if hd 0 x <? 0 then acc else (hd 0 x, tl x) :: acc in
                               if barr then Do (Coll K_TEST (-1) []) (fun d => if hd 0 d =? 0 then nbx_loop f tag true acc' k else k (rev acc'))
                               else Do (Coll K_TESTALL (-1) []) (fun s0 => if hd 0 s0 =? 0 then nbx_loop f tag false acc' k
                                                                          else Do (Coll K_IBARRIER (-1) []) (fun _ => nbx_loop f tag true acc' k))).
  Proof. reflexivity. Qed.

  Lemma check_prog r f (barr : bool) acc :
    (if barr then Do (Coll K_TEST (-1) []) (fun d => if hd 0 d =? 0 then nbx_loop f tag true acc (NK r) else NK r (rev acc))
     else Do (Coll K_TESTALL (-1) []) (fun s0 => if hd 0 s0 =? 0 then nbx_loop f tag false acc (NK r)
                                                else Do (Coll K_IBARRIER (-1) []) (fun _ => nbx_loop f tag true acc (NK r))))
    = prog_of r (RLoop f barr acc AtCheck).
  Proof. destruct barr; reflexivity. Qed.

  Lemma NK_ret r got : exists o, NK r got = Ret o.
  Proof. unfold NK. eauto. Qed.

  Lemma nbx_poll_tag : nbx_poll tag = true.
  Proof. unfold nbx_poll, tag. apply Z.eqb_refl. Qed.

  Lemma prog_poll r f barr acc : prog_of r (RLoop f barr acc AtPoll) = nbx_loop f tag barr acc (NK r).
  Proof. destruct barr; reflexivity. Qed.
  Lemma prog_ibar r f barr acc : prog_of r (RLoop f barr acc AtIbar) = Do (Coll K_IBARRIER (-1) []) (fun _ => nbx_loop f tag true acc (NK r)).
  Proof. destruct barr; reflexivity. Qed.

  (* the transitions of a rank's ghost state; the flag says whether the step is PRODUCTIVE (false: an empty poll, Testall = 0, Test = 0) *)
  Inductive gstep (r : Z) : rstate -> rstate -> bool -> Prop :=
  | g_send j : gstep r (RSend j) (mkstate r (S j)) true
  | g_hit f barr acc x : gstep r (RLoop (S f) barr acc AtPoll) (RLoop f barr (x :: acc) AtCheck) true
  | g_miss f barr acc : gstep r (RLoop (S f) barr acc AtPoll) (RLoop f barr acc AtCheck) false
  | g_tall_yes f acc : gstep r (RLoop f false acc AtCheck) (RLoop f false acc AtIbar) true
  | g_tall_no f acc : gstep r (RLoop f false acc AtCheck) (RLoop f false acc AtPoll) false
  | g_ibar f barr acc : gstep r (RLoop f barr acc AtIbar) (RLoop f true acc AtPoll) true
  | g_test_yes f acc : gstep r (RLoop f true acc AtCheck) (RDone acc) true
  | g_test_no f acc : gstep r (RLoop f true acc AtCheck) (RLoop f true acc AtPoll) false.

  (* what an unproductive step has observed *)
  Definition idle_ok (s : pst) (r : Z) (old : rstate) (pb : bool) : Prop :=
    pb = false ->
    match old with
    | RLoop _ barr _ p =>
      match p with
      | AtPoll => nothing P (pch s) r tag = true
      | AtCheck => if barr then allbar P (pbar s) = false else allsent P nbx_stags (pch s) r = false
      | AtIbar => False
      end
    | _ => False
    end.

  Ltac prog_shape I Est E :=
    match type of E with @eq prog (ppr ?s ?r) ?rhs => rewrite (n_prog s _ I r), Est in E; rewrite ?prog_poll, ?prog_ibar in E; cbn [prog_of] in E end.

  Theorem NInv_step s st r s' : NInv s st -> step_p P nbx_poll nbx_stags s r s' ->
    exists new pb, gstep r (st r) new pb /\ idle_ok s r (st r) pb /\ NInv s' (upds st r new).
  Proof.
    intros I Hs.
    destruct (st r) as [j|f barr acc p|acc|] eqn:Est.
    - (* sending: the program is at the j-th Issend *)
      pose proof (n_send s st I r j Est) as Hj.
      assert (Hsk : skipn j (msgs r) = (nth j (R r) 0, tag, nitem r (nth j (R r) 0)) :: skipn (S j) (msgs r)).
      { rewrite (skipn_nth (0, tag, nitem r 0)) by (unfold msgs; rewrite map_length; exact Hj). f_equal.
        unfold msgs. rewrite (map_nth (fun d => (d, tag, nitem r d))). reflexivity. }
      inversion Hs as [? ? d t m k E|? ? src t k m q S0 E C|? ? src t k m q E Ep C|? ? src t k m q E Ep C|? ? t k E Ep En
                      |? ? root c k E|? ? root c k E|? ? root c k E]; subst; prog_shape I Est E; rewrite Hsk in E; cbn [do_sends] in E; unfold send in E; try discriminate.
      injection E as <- <- <- <-. exists (mkstate r (S j)), true. split; [constructor|]. split; [discriminate|]. exact (NInv_send s st r j I Est).
    - destruct p.
      + (* at the poll *)
        destruct f as [|f].
        * exfalso. inversion Hs; subst; match goal with E : ppr s r = _ |- _ => prog_shape I Est E; cbn [nbx_loop] in E; try discriminate end.
          all: match goal with E : Do _ _ = Do _ _ |- _ => injection E; intros; match goal with H : K_FUEL = _ |- _ => vm_compute in H; discriminate H end end.
        * inversion Hs as [? ? d t m k E|? ? src t k m q S0 E C|? ? src t k m q E Ep C|? ? src t k m q E Ep C|? ? t k E Ep En
                          |? ? root c k E|? ? root c k E|? ? root c k E]; subst; prog_shape I Est E; rewrite nbx_loop_S in E; try discriminate.
          -- injection E as E1 E2 E3. unfold ANY in E1. lia.
          -- injection E as <- <-. rewrite nbx_poll_tag in Ep. discriminate.
          -- (* hit *) injection E as <- <-. destruct (NInv_hit s st r f barr acc src m q I Est C) as [H0 [-> Hinv]].
             exists (RLoop f barr ((src, nitem src r) :: acc) AtCheck), true. split; [constructor|]. split; [discriminate|].
             cbv zeta. cbn [hd tl]. replace (src <? 0) with false by lia. rewrite check_prog. exact Hinv.
          -- (* miss *) injection E as <- <-. exists (RLoop f barr acc AtCheck), false. split; [constructor|]. split; [intros _; exact En|]. cbv zeta. cbn [hd]. change (-1 <? 0) with true. cbv iota. rewrite check_prog.
             apply (NInv_keep s st r (RLoop f barr acc AtCheck)); try assumption; try reflexivity; try discriminate.
             ++ apply (in_range_of s st r I). rewrite Est. discriminate.
             ++ rewrite Est. reflexivity.
             ++ intros d. rewrite Est. reflexivity.
             ++ intros y. rewrite (n_bar s st I y). unfold upds. destruct (Z.eqb_spec y r) as [Ey|Ey]; [subst y; rewrite Est; destruct barr; reflexivity|reflexivity].
             ++ intros Hc. apply (n_cmp s st I r). rewrite Est. destruct barr; [reflexivity|discriminate].
      + (* at Testall / Test *)
        destruct barr.
        * inversion Hs as [? ? d t m k E|? ? src t k m q S0 E C|? ? src t k m q E Ep C|? ? src t k m q E Ep C|? ? t k E Ep En
                          |? ? root c k E|? ? root c k E|? ? root c k E]; subst; prog_shape I Est E; try discriminate.
          injection E as _ _ <-. destruct (allbar P (pbar s)) eqn:Eb; cbn [flag hd Z.eqb].
          -- (* the barrier is complete: return *)
             exists (RDone acc), true. split; [constructor|]. split; [discriminate|]. apply (NInv_keep s st r (RDone acc)); try assumption; try reflexivity; try discriminate.
             ++ apply (in_range_of s st r I). rewrite Est. discriminate.
             ++ rewrite Est. reflexivity.
             ++ intros d. rewrite Est. reflexivity.
             ++ intros y. rewrite (n_bar s st I y). unfold upds. destruct (Z.eqb_spec y r) as [Ey|Ey]; [subst y; rewrite Est; reflexivity|reflexivity].
             ++ intros _. apply (n_cmp s st I r). rewrite Est. reflexivity.
             ++ intros acc' Hacc q Hq. injection Hacc as <-. apply transpose_In in Hq. destruct Hq as [Hq Hrq].
                rewrite allbar_spec in Eb. pose proof (Eb q Hq) as Hbq. rewrite (n_bar s st I q) in Hbq.
                assert (Hcq : complete (st q) = true) by (destruct (st q) as [?|? [|] ? ?|?|]; try discriminate; reflexivity).
                pose proof (n_cmp s st I q Hcq r Hrq) as Hrc. apply rcvdb_In in Hrc. rewrite Est in Hrc. exact Hrc.
          -- exists (RLoop f true acc AtPoll), false. split; [constructor|]. split; [intros _; exact Eb|]. apply (NInv_keep s st r (RLoop f true acc AtPoll)); try assumption; try reflexivity; try discriminate.
             ++ apply (in_range_of s st r I). rewrite Est. discriminate.
             ++ rewrite Est. reflexivity.
             ++ intros d. rewrite Est. reflexivity.
             ++ intros y. rewrite (n_bar s st I y). unfold upds. destruct (Z.eqb_spec y r) as [Ey|Ey]; [subst y; rewrite Est; reflexivity|reflexivity].
             ++ intros _. apply (n_cmp s st I r). rewrite Est. reflexivity.
        * inversion Hs as [? ? d t m k E|? ? src t k m q S0 E C|? ? src t k m q E Ep C|? ? src t k m q E Ep C|? ? t k E Ep En
                          |? ? root c k E|? ? root c k E|? ? root c k E]; subst; prog_shape I Est E; try discriminate.
          injection E as _ _ <-. destruct (allsent P nbx_stags (pch s) r) eqn:Eb; cbn [flag hd Z.eqb].
          -- (* all synchronous sends matched: next the Ibarrier *)
             exists (RLoop f false acc AtIbar), true. split; [constructor|]. split; [discriminate|]. apply (NInv_keep s st r (RLoop f false acc AtIbar)); try assumption; try reflexivity; try discriminate.
             ++ apply (in_range_of s st r I). rewrite Est. discriminate.
             ++ rewrite Est. reflexivity.
             ++ intros d. rewrite Est. reflexivity.
             ++ intros y. rewrite (n_bar s st I y). unfold upds. destruct (Z.eqb_spec y r) as [Ey|Ey]; [subst y; rewrite Est; reflexivity|reflexivity].
             ++ intros _ d Hd. assert (Hr : 0 <= r < P) by (apply (in_range_of s st r I); rewrite Est; discriminate).
                rewrite allsent_spec in Eb. specialize (Eb d tag (proj2 (HR r Hr) d Hd) (or_introl eq_refl)).
                rewrite (n_ch s st I r d tag) in Eb. unfold tag in Eb at 1. rewrite Z.eqb_refl, Est in Eb. cbn [sentb andb] in Eb.
                rewrite (proj2 (memz_In d (R r)) Hd) in Eb. cbn [andb] in Eb. destruct (rcvdb (st d) r); [reflexivity|discriminate].
          -- exists (RLoop f false acc AtPoll), false. split; [constructor|]. split; [intros _; exact Eb|]. apply (NInv_keep s st r (RLoop f false acc AtPoll)); try assumption; try reflexivity; try discriminate.
             ++ apply (in_range_of s st r I). rewrite Est. discriminate.
             ++ rewrite Est. reflexivity.
             ++ intros d. rewrite Est. reflexivity.
             ++ intros y. rewrite (n_bar s st I y). unfold upds. destruct (Z.eqb_spec y r) as [Ey|Ey]; [subst y; rewrite Est; reflexivity|reflexivity].
      + (* at the Ibarrier *)
        assert (Hc0 : complete (st r) = true) by (rewrite Est; destruct barr; reflexivity).
        inversion Hs as [? ? d t m k E|? ? src t k m q S0 E C|? ? src t k m q E Ep C|? ? src t k m q E Ep C|? ? t k E Ep En
                        |? ? root c k E|? ? root c k E|? ? root c k E]; subst; prog_shape I Est E; try discriminate.
        injection E as _ _ <-. exists (RLoop f true acc AtPoll), true. split; [constructor|]. split; [discriminate|]. apply (NInv_keep s st r (RLoop f true acc AtPoll)); try assumption; try reflexivity; try discriminate.
        * apply (in_range_of s st r I). rewrite Est. discriminate.
        * rewrite Est. reflexivity.
        * intros d. rewrite Est. reflexivity.
        * intros y. unfold updb, upds. destruct (Z.eqb_spec y r) as [Ey|Ey]; [reflexivity|apply (n_bar s st I y)].
        * intros _. apply (n_cmp s st I r Hc0).
    - exfalso. destruct (NK_ret r (rev acc)) as [o Ho]. inversion Hs; subst; match goal with E : ppr s r = _ |- _ => prog_shape I Est E; rewrite Ho in E; discriminate end.
    - exfalso. inversion Hs; subst; match goal with E : ppr s r = _ |- _ => prog_shape I Est E; discriminate end.
  Qed.
  Lemma NInv_run : forall n s0 s st, NInv s0 st -> run_p P nbx_poll nbx_stags n s0 s -> exists st', NInv s st'.
  Proof.
    induction n as [|n IH]; intros s0 s st I Hr; inversion Hr as [|? ? r s1 ? Hs Hrest]; subst; [eauto|].
    destruct (NInv_step s0 st r s1 I Hs) as [new [pb [_ [_ I1]]]]. exact (IH s1 s _ I1 Hrest).
  Qed.

  (* SAFETY: the invariant holds in every reachable state *)
  Theorem nbx_safety n s : run_p P nbx_poll nbx_stags n nbx_sys s -> exists st, NInv s st.
  Proof. exact (NInv_run n nbx_sys s st0 NInv_init). Qed.

  Lemma sentb_In st r d : sentb st r d = true -> st <> ROut /\ In d (R r).
  Proof.
    destruct st as [j|f b a p|a|]; cbn [sentb]; intros H; try discriminate; (split; [discriminate|]); apply memz_In in H; [|exact H|exact H].
    rewrite <- (firstn_skipn j (R r)). apply in_app_iff. left. exact H.
  Qed.

  (* what a returned rank has returned *)
  Lemma done_result s st r acc : NInv s st -> 0 <= r < P -> st r = RDone acc ->
    exists o, Permutation o (transpose P R r) /\ (sorted = true -> o = transpose P R r) /\
              ppr s r = Ret (result o (if hp then map (fun q => pay q r) o else [])).
  Proof.
    intros I Hr Est. pose proof (n_prog s st I r) as Hp. rewrite Est in Hp. cbn [prog_of] in Hp.
    destruct (n_acc s st I r) as [Hnd Hacc]. rewrite Est in Hnd, Hacc. cbn [acc_of] in Hnd, Hacc.
    set (arr := map fst (rev acc)).
    assert (Hperm : Permutation arr (transpose P R r)).
    { apply NoDup_Permutation.
      - unfold arr. rewrite map_rev. apply NoDup_rev. exact Hnd.
      - apply transpose_NoDup.
      - intros a. unfold arr. rewrite map_rev, <- in_rev. split.
        + intros Ha. apply in_map_iff in Ha. destruct Ha as [[a' m] [E Hin]]. cbn [fst] in E. subst a'.
          destruct (Hacc a m Hin) as [Hs _]. apply sentb_In in Hs. destruct Hs as [Hno Hin'].
          apply transpose_In. split; [apply (in_range_of s st a I Hno)|exact Hin'].
        + intros Ha. apply (n_done s st I r acc Est a Ha). }
    assert (Hgot : rev acc = map (fun a => (a, nitem a r)) arr).
    { unfold arr. rewrite map_map. rewrite <- (map_id (rev acc)) at 1. apply map_ext_in. intros [a m] Hin. apply in_rev in Hin.
      destruct (Hacc a m Hin) as [_ ->]. reflexivity. }
    set (final := if sorted then transpose P R r else arr).
    assert (Hsorted : (if sorted then sort_by_src (rev acc) else rev acc) = map (fun a => (a, nitem a r)) final).
    { unfold final. rewrite Hgot. destruct sorted; [|reflexivity]. apply (sort_arrivals (fun a => nitem a r)); [apply transpose_ssorted|exact Hperm]. }
    exists final. split; [unfold final; destruct sorted; [apply Permutation_refl|exact Hperm]|]. split; [intros ->; reflexivity|].
    rewrite Hp. unfold NK. rewrite Hsorted. rewrite !map_map. cbn [fst snd]. rewrite map_id. unfold nep, nitem. destruct hp; reflexivity.
  Qed.

  (* FINAL STATES: the transposed lists (a permutation if unsorted), every channel empty, every barrier posted *)
  Theorem nbx_final n s : run_p P nbx_poll nbx_stags n nbx_sys s -> pfinal s ->
    (forall r, 0 <= r < P -> exists o, Permutation o (transpose P R r) /\ (sorted = true -> o = transpose P R r) /\
                                      ppr s r = Ret (result o (if hp then map (fun q => pay q r) o else []))) /\
    (forall a b t, pch s a b t = []) /\ (forall r, 0 <= r < P -> pbar s r = true).
  Proof.
    intros Hr Hf. destruct (nbx_safety n s Hr) as [st I].
    assert (Hdone : forall r, 0 <= r < P -> exists acc, st r = RDone acc).
    { intros r Hrr. destruct (Hf r) as [o Ho]. pose proof (n_prog s st I r) as Hp. rewrite Ho in Hp.
      destruct (st r) as [j|f barr acc p|acc|] eqn:Est.
      - exfalso. pose proof (n_send s st I r j Est) as Hj. cbn [prog_of] in Hp.
        rewrite (skipn_nth (0, tag, nitem r 0)) in Hp by (unfold msgs; rewrite map_length; exact Hj).
        destruct (nth j (msgs r) (0, tag, nitem r 0)) as [[d t] m]. cbn [do_sends] in Hp. unfold send in Hp. discriminate.
      - exfalso. destruct p; [rewrite prog_poll in Hp; destruct f; cbn [nbx_loop] in Hp; discriminate|destruct barr; cbn [prog_of] in Hp; discriminate|rewrite prog_ibar in Hp; discriminate].
      - eauto.
      - exfalso. apply (proj1 (n_out s st I r) Est). exact Hrr. }
    split; [|split].
    - intros r Hrr. destruct (Hdone r Hrr) as [acc Est]. exact (done_result s st r acc I Hrr Est).
    - intros a b t. rewrite (n_ch s st I a b t). destruct (t =? tag); [|reflexivity]. cbn [andb].
      destruct (sentb (st a) a b) eqn:Hs; [|reflexivity]. cbn [andb]. apply sentb_In in Hs. destruct Hs as [Hno Hin].
      destruct (Hdone a (in_range_of s st a I Hno)) as [acc Est].
      rewrite (n_cmp s st I a ltac:(rewrite Est; reflexivity) b Hin). reflexivity.
    - intros r Hrr. destruct (Hdone r Hrr) as [acc Est]. rewrite (n_bar s st I r), Est. reflexivity.
  Qed.

  (* NO RANK IS EVER BLOCKED: in every reachable state every rank of the communicator has returned, or stands at the model's fuel
     mark (loop bound exhausted), or can make a step *)
  Definition at_fuel_mark (s : pst) (r : Z) : Prop := exists k, ppr s r = Do (Coll K_FUEL (-1) []) k.

  Theorem nbx_never_blocked n s : run_p P nbx_poll nbx_stags n nbx_sys s ->
    forall r, 0 <= r < P -> (exists o, ppr s r = Ret o) \/ at_fuel_mark s r \/ exists s', step_p P nbx_poll nbx_stags s r s'.
  Proof.
    intros Hr r Hrr. destruct (nbx_safety n s Hr) as [st I]. pose proof (n_prog s st I r) as Hp.
    destruct (st r) as [j|f barr acc p|acc|] eqn:Est.
    - right. right. pose proof (n_send s st I r j Est) as Hj. cbn [prog_of] in Hp.
      rewrite (skipn_nth (0, tag, nitem r 0)) in Hp by (unfold msgs; rewrite map_length; exact Hj).
      destruct (nth j (msgs r) (0, tag, nitem r 0)) as [[d t] m]. cbn [do_sends] in Hp. unfold send in Hp. eexists. eapply stepp_send. exact Hp.
    - destruct p.
      + rewrite prog_poll in Hp. destruct f as [|f]; [right; left; cbn [nbx_loop] in Hp; eexists; exact Hp|]. right. right. rewrite nbx_loop_S in Hp.
        destruct (nothing P (pch s) r tag) eqn:En; [eexists; eapply stepp_miss; [exact Hp|apply nbx_poll_tag|exact En]|].
        assert (Hex : exists src m q, pch s src r tag = m :: q).
        { unfold nothing in En. destruct (forallb_forall (fun src => isnil (pch s src r tag)) (pranks P)) as [_ Hall].
          destruct (existsb (fun src => negb (isnil (pch s src r tag))) (pranks P)) eqn:Ee.
          - apply existsb_exists in Ee. destruct Ee as [src [_ Hs]]. destruct (pch s src r tag) as [|m q] eqn:Ec; [discriminate|exists src, m, q; exact Ec].
          - exfalso. rewrite Hall in En; [discriminate|]. intros src Hsrc. destruct (isnil (pch s src r tag)) eqn:Ei; [reflexivity|].
            exfalso. assert (Ht : existsb (fun src0 => negb (isnil (pch s src0 r tag))) (pranks P) = true) by (apply existsb_exists; exists src; rewrite Ei; auto). congruence. }
        destruct Hex as [src [m [q Hc]]]. eexists. eapply stepp_hit; [exact Hp|apply nbx_poll_tag|exact Hc].
      + right. right. destruct barr; cbn [prog_of] in Hp; eexists; [eapply stepp_test|eapply stepp_testall]; exact Hp.
      + right. right. rewrite prog_ibar in Hp. eexists. eapply stepp_ibar. exact Hp.
    - left. cbn [prog_of] in Hp. destruct (NK_ret r (rev acc)) as [o Ho]. rewrite Ho in Hp. eauto.
    - exfalso. apply (proj1 (n_out s st I r) Est). exact Hrr.
  Qed.
  (* ---- NO ENDLESS POLLING: from every reachable state a final state is reachable (or the model's loop bound is hit) ------------------------
     A potential Phi on the ghost states that some enabled step always decreases: a rank that still sends can send; else a rank that
     has not yet received everything addressed to it finds a message at its next poll (all senders have sent); else all channels are
     empty, every Testall says 1 and the ranks post the barrier; else every Test says 1 and the ranks return. *)
  Definition T (r : Z) : list Z := transpose P R r.
  Definition need (r : Z) (st : rstate) : nat := length (T r) - length (acc_of st).
  Definition phi (r : Z) (st : rstate) : nat :=
    match st with
    | RSend j => 3 * (length (R r) - j) + 3 * length (T r) + 6
    | RLoop f barr acc p =>
      if (need r st =? 0)%nat then
        match p, barr with AtPoll, false => 5 | AtCheck, false => 4 | AtIbar, _ => 3 | AtPoll, true => 2 | AtCheck, true => 1 end
      else 3 * need r st + 6 + match p with AtPoll => 0 | AtCheck => 2 | AtIbar => 1 end
    | RDone _ => 0
    | ROut => 0
    end%nat.
  Definition Phi (st : Z -> rstate) : nat := list_sum (map (fun r => phi r (st r)) (ranks P)).

  Lemma sum_upd_lt (g h : Z -> nat) : forall l r, NoDup l -> In r l -> (forall y, y <> r -> h y = g y) -> (h r < g r)%nat ->
    (list_sum (map h l) < list_sum (map g l))%nat.
  Proof.
    induction l as [|x l IH]; intros r Hnd Hin Heq Hlt; [contradiction|]. inversion Hnd as [|? ? Hx Hnd']; subst. cbn [map list_sum fold_right].
    change (fold_right Nat.add 0%nat (map h l)) with (list_sum (map h l)). change (fold_right Nat.add 0%nat (map g l)) with (list_sum (map g l)).
    destruct Hin as [->|Hin].
    - assert (E : map h l = map g l) by (apply map_ext_in; intros y Hy; apply Heq; intros ->; contradiction). rewrite E. lia.
    - assert (x <> r) by (intros ->; contradiction). rewrite (Heq x H). specialize (IH r Hnd' Hin Heq Hlt). lia.
  Qed.

  Lemma Phi_upd st r new : 0 <= r < P -> (phi r new < phi r (st r))%nat -> (Phi (upds st r new) < Phi st)%nat.
  Proof.
    intros Hr Hlt. unfold Phi. apply (sum_upd_lt _ _ (ranks P) r (ranks_NoDup P) (proj2 (in_ranks P r) Hr)).
    - intros y Hy. rewrite upds_other by exact Hy. reflexivity.
    - rewrite upds_same. exact Hlt.
  Qed.

  Lemma find_rank (p : Z -> bool) : (exists r, 0 <= r < P /\ p r = true) \/ (forall r, 0 <= r < P -> p r = false).
  Proof.
    destruct (existsb p (ranks P)) eqn:E.
    - left. apply existsb_exists in E. destruct E as [r [Hr Hp]]. apply in_ranks in Hr. eauto.
    - right. intros r Hr. destruct (p r) eqn:Ep; [|reflexivity]. exfalso.
      assert (existsb p (ranks P) = true) by (apply existsb_exists; exists r; split; [apply in_ranks; exact Hr|exact Ep]). congruence.
  Qed.

  Lemma pick_missing (A B : list Z) : NoDup A -> (length B < length A)%nat -> exists a, In a A /\ ~ In a B.
  Proof.
    intros Hnd Hlen. destruct (existsb (fun a => negb (memz a B)) A) eqn:E.
    - apply existsb_exists in E. destruct E as [a [Ha Hn]]. exists a. split; [exact Ha|]. intros Hin. apply memz_In in Hin. rewrite Hin in Hn. discriminate.
    - exfalso. assert (Hincl : incl A B).
      { intros a Ha. destruct (memz a B) eqn:Em; [apply memz_In; exact Em|]. exfalso.
        assert (existsb (fun a0 => negb (memz a0 B)) A = true) by (apply existsb_exists; exists a; rewrite Em; auto). congruence. }
      pose proof (NoDup_incl_length Hnd Hincl). lia.
  Qed.

  (* what a rank has received was addressed to it *)
  Lemma acc_incl s st b : NInv s st -> incl (map fst (acc_of (st b))) (T b).
  Proof.
    intros I a Ha. apply in_map_iff in Ha. destruct Ha as [[a' m] [E Hin]]. cbn [fst] in E. subst a'.
    destruct (proj2 (n_acc s st I b) a m Hin) as [Hs _]. apply sentb_In in Hs. destruct Hs as [Hno Hin'].
    apply transpose_In. split; [apply (in_range_of s st a I Hno)|exact Hin'].
  Qed.

  Lemma need0_all s st b : NInv s st -> need b (st b) = 0%nat -> incl (T b) (map fst (acc_of (st b))).
  Proof.
    intros I Hn. apply NoDup_length_incl; [apply (n_acc s st I b)| |apply (acc_incl s st b I)].
    unfold need in Hn. rewrite map_length. lia.
  Qed.

  Lemma done_need0 s st r acc : NInv s st -> st r = RDone acc -> need r (st r) = 0%nat.
  Proof.
    intros I Est. unfold need. rewrite Est. cbn [acc_of].
    assert (H : (length (T r) <= length (map fst acc))%nat) by (apply NoDup_incl_length; [apply transpose_NoDup|intros q Hq; apply (n_done s st I r acc Est q Hq)]).
    rewrite map_length in H. lia.
  Qed.

  (* all messages sent and received: every channel is empty *)
  Lemma all_empty s st : NInv s st -> (forall r, 0 <= r < P -> need r (st r) = 0%nat) -> forall a b t, pch s a b t = [].
  Proof.
    intros I Hn a b t. rewrite (n_ch s st I a b t). destruct (t =? tag); [|reflexivity]. cbn [andb].
    destruct (sentb (st a) a b) eqn:Hs; [|reflexivity]. cbn [andb]. pose proof Hs as Hs'. apply sentb_In in Hs'. destruct Hs' as [Hno Hin].
    pose proof (in_range_of s st a I Hno) as Ha. pose proof (proj2 (HR a Ha) b Hin) as Hb.
    assert (Hrc : rcvdb (st b) a = true).
    { apply rcvdb_In. apply (need0_all s st b I (Hn b Hb)). apply transpose_In. auto. }
    rewrite Hrc. reflexivity.
  Qed.

  Definition is_send (st : rstate) : bool := match st with RSend _ => true | _ => false end.
  Definition is_done (st : rstate) : bool := match st with RDone _ => true | _ => false end.

  Lemma nbx_move s st : NInv s st ->
    pfinal s \/ (exists r, 0 <= r < P /\ at_fuel_mark s r) \/
    (exists r s' new pb, 0 <= r < P /\ step_p P nbx_poll nbx_stags s r s' /\ gstep r (st r) new pb /\ NInv s' (upds st r new) /\
                         (phi r new < phi r (st r))%nat).
  Proof.
    intros I.
    destruct (find_rank (fun r => is_send (st r))) as [[r [Hr Hp]]|Hnosend].
    { (* 1. a rank that still sends *)
      right. right. destruct (st r) as [j| | |] eqn:Est; try discriminate. pose proof (n_send s st I r j Est) as Hj.
      pose proof (n_prog s st I r) as Hprog. rewrite Est in Hprog. cbn [prog_of] in Hprog.
      assert (Hsk : skipn j (msgs r) = (nth j (R r) 0, tag, nitem r (nth j (R r) 0)) :: skipn (S j) (msgs r)).
      { rewrite (skipn_nth (0, tag, nitem r 0)) by (unfold msgs; rewrite map_length; exact Hj). f_equal.
        unfold msgs. rewrite (map_nth (fun d => (d, tag, nitem r d))). reflexivity. }
      rewrite Hsk in Hprog. cbn [do_sends] in Hprog. unfold send in Hprog.
      exists r; eexists; exists (mkstate r (S j)), true. split; [exact Hr|]. split; [eapply stepp_send; exact Hprog|]. split; [rewrite Est; constructor|]. split; [exact (NInv_send s st r j I Est)|].
      rewrite Est. unfold mkstate. destruct (Nat.ltb_spec (S j) (length (R r))); cbn [phi]; [lia|].
      unfold need. cbn [acc_of length]. destruct (Nat.eqb_spec (length (T r) - 0) 0); lia. }
    assert (Hsent : forall a b, 0 <= a < P -> In b (R a) -> sentb (st a) a b = true).
    { intros a b Ha Hb. specialize (Hnosend a Ha). destruct (st a) as [j|f barr acc p|acc|] eqn:Est; cbn [is_send sentb] in *; try discriminate; try (apply memz_In; exact Hb).
      exfalso. apply (proj1 (n_out s st I a) Est). exact Ha. }
    destruct (find_rank (fun r => negb (need r (st r) =? 0)%nat)) as [[b [Hb Hp]]|Hnoneed].
    { (* 2. a rank that has not yet received everything addressed to it *)
      apply negb_true_iff, Nat.eqb_neq in Hp.
      destruct (st b) as [j|f barr acc p|acc|] eqn:Est.
      - specialize (Hnosend b Hb). rewrite Est in Hnosend. discriminate.
      - pose proof (n_prog s st I b) as Hprog. rewrite Est in Hprog. destruct p.
        + rewrite prog_poll in Hprog. destruct f as [|f]; [right; left; exists b; split; [exact Hb|eexists; exact Hprog]|]. right. right.
          rewrite nbx_loop_S in Hprog.
          destruct (pick_missing (T b) (map fst acc) (transpose_NoDup P R b)) as [a [Ha Hna]]; [unfold need in Hp; cbn [acc_of] in Hp; rewrite map_length; lia|].
          apply transpose_In in Ha. destruct Ha as [Ha Hba].
          assert (Hch : pch s a b tag = [nitem a b]).
          { rewrite (n_ch s st I a b tag). unfold tag at 1. rewrite Z.eqb_refl, (Hsent a b Ha Hba). cbn [andb].
            replace (rcvdb (st b) a) with false; [reflexivity|]. symmetry. destruct (rcvdb (st b) a) eqn:Erc; [|reflexivity].
            apply rcvdb_In in Erc. rewrite Est in Erc. contradiction. }
          destruct (NInv_hit s st b f barr acc a (nitem a b) [] I Est Hch) as [H0 [_ Hinv]].
          exists b; eexists; exists (RLoop f barr ((a, nitem a b) :: acc) AtCheck), true. split; [exact Hb|]. split; [eapply stepp_hit; [exact Hprog|apply nbx_poll_tag|exact Hch]|]. split; [rewrite Est; constructor|].
          cbv zeta. cbn [hd tl]. replace (a <? 0) with false by lia. rewrite check_prog. split; [exact Hinv|].
          rewrite Est. unfold need in *. cbn [phi acc_of length] in *. unfold need. cbn [acc_of length].
          destruct (Nat.eqb_spec (length (T b) - length acc) 0); [lia|]. destruct (Nat.eqb_spec (length (T b) - S (length acc)) 0); [destruct barr; lia|lia].
        + (* at the check: one (possibly idle) step brings it back to the poll *)
          right. right. destruct barr; cbn [prog_of] in Hprog.
          * destruct (allbar P (pbar s)) eqn:Eb.
            -- exists b; eexists; exists (RDone acc), true. split; [exact Hb|]. split; [eapply stepp_test; exact Hprog|]. split; [rewrite Est; constructor|]. rewrite Eb. cbn [flag hd Z.eqb]. split.
               ++ apply (NInv_keep s st b (RDone acc)); try assumption; try reflexivity; try discriminate.
                  ** rewrite Est. reflexivity.
                  ** intros d. rewrite Est. reflexivity.
                  ** intros y. rewrite (n_bar s st I y). unfold upds. destruct (Z.eqb_spec y b) as [Ey|Ey]; [subst y; rewrite Est; reflexivity|reflexivity].
                  ** intros _. apply (n_cmp s st I b). rewrite Est. reflexivity.
                  ** intros acc' Hacc q Hq. injection Hacc as <-. apply transpose_In in Hq. destruct Hq as [Hq Hrq].
                     rewrite allbar_spec in Eb. pose proof (Eb q Hq) as Hbq. rewrite (n_bar s st I q) in Hbq.
                     assert (Hcq : complete (st q) = true) by (destruct (st q) as [?|? [|] ? ?|?|]; try discriminate; reflexivity).
                     pose proof (n_cmp s st I q Hcq b Hrq) as Hrc. apply rcvdb_In in Hrc. rewrite Est in Hrc. exact Hrc.
               ++ rewrite Est. cbn [phi]. destruct (Nat.eqb_spec (need b (RLoop f true acc AtCheck)) 0); lia.
            -- exists b; eexists; exists (RLoop f true acc AtPoll), false. split; [exact Hb|]. split; [eapply stepp_test; exact Hprog|]. split; [rewrite Est; constructor|]. rewrite Eb. cbn [flag hd Z.eqb]. split.
               ++ apply (NInv_keep s st b (RLoop f true acc AtPoll)); try assumption; try reflexivity; try discriminate.
                  ** rewrite Est. reflexivity.
                  ** intros d. rewrite Est. reflexivity.
                  ** intros y. rewrite (n_bar s st I y). unfold upds. destruct (Z.eqb_spec y b) as [Ey|Ey]; [subst y; rewrite Est; reflexivity|reflexivity].
                  ** intros _. apply (n_cmp s st I b). rewrite Est. reflexivity.
               ++ rewrite Est. unfold need in *. cbn [phi acc_of] in *. unfold need. cbn [acc_of].
                  destruct (Nat.eqb_spec (length (T b) - length acc) 0); lia.
          * destruct (allsent P nbx_stags (pch s) b) eqn:Eb.
            -- exists b; eexists; exists (RLoop f false acc AtIbar), true. split; [exact Hb|]. split; [eapply stepp_testall; exact Hprog|]. split; [rewrite Est; constructor|]. rewrite Eb. cbn [flag hd Z.eqb]. split.
               ++ apply (NInv_keep s st b (RLoop f false acc AtIbar)); try assumption; try reflexivity; try discriminate.
                  ** rewrite Est. reflexivity.
                  ** intros d. rewrite Est. reflexivity.
                  ** intros y. rewrite (n_bar s st I y). unfold upds. destruct (Z.eqb_spec y b) as [Ey|Ey]; [subst y; rewrite Est; reflexivity|reflexivity].
                  ** intros _ d Hd. rewrite allsent_spec in Eb. specialize (Eb d tag (proj2 (HR b Hb) d Hd) (or_introl eq_refl)).
                     rewrite (n_ch s st I b d tag) in Eb. unfold tag in Eb at 1. rewrite Z.eqb_refl, Est in Eb. cbn [sentb andb] in Eb.
                     rewrite (proj2 (memz_In d (R b)) Hd) in Eb. cbn [andb] in Eb. destruct (rcvdb (st d) b); [reflexivity|discriminate].
               ++ rewrite Est. unfold need in *. cbn [phi acc_of] in *. unfold need. cbn [acc_of].
                  destruct (Nat.eqb_spec (length (T b) - length acc) 0); lia.
            -- exists b; eexists; exists (RLoop f false acc AtPoll), false. split; [exact Hb|]. split; [eapply stepp_testall; exact Hprog|]. split; [rewrite Est; constructor|]. rewrite Eb. cbn [flag hd Z.eqb]. split.
               ++ apply (NInv_keep s st b (RLoop f false acc AtPoll)); try assumption; try reflexivity; try discriminate.
                  ** rewrite Est. reflexivity.
                  ** intros d. rewrite Est. reflexivity.
                  ** intros y. rewrite (n_bar s st I y). unfold upds. destruct (Z.eqb_spec y b) as [Ey|Ey]; [subst y; rewrite Est; reflexivity|reflexivity].
               ++ rewrite Est. unfold need in *. cbn [phi acc_of] in *. unfold need. cbn [acc_of].
                  destruct (Nat.eqb_spec (length (T b) - length acc) 0); lia.
        + right. right. rewrite prog_ibar in Hprog.
          assert (Hc0 : complete (st b) = true) by (rewrite Est; destruct barr; reflexivity).
          exists b; eexists; exists (RLoop f true acc AtPoll), true. split; [exact Hb|]. split; [eapply stepp_ibar; exact Hprog|]. split; [rewrite Est; constructor|]. split.
          * apply (NInv_keep s st b (RLoop f true acc AtPoll)); try assumption; try reflexivity; try discriminate.
            -- rewrite Est. reflexivity.
            -- intros d. rewrite Est. reflexivity.
            -- intros y. unfold updb, upds. destruct (Z.eqb_spec y b) as [Ey|Ey]; [reflexivity|apply (n_bar s st I y)].
            -- intros _. apply (n_cmp s st I b Hc0).
          * rewrite Est. unfold need in *. cbn [phi acc_of] in *. unfold need. cbn [acc_of].
            destruct (Nat.eqb_spec (length (T b) - length acc) 0); lia.
      - exfalso. apply Hp. rewrite <- Est. apply (done_need0 s st b acc I Est).
      - exfalso. apply (proj1 (n_out s st I b) Est). exact Hb. }
    assert (Hneed0 : forall r, 0 <= r < P -> need r (st r) = 0%nat).
    { intros r Hr. specialize (Hnoneed r Hr). apply negb_false_iff, Nat.eqb_eq in Hnoneed. exact Hnoneed. }
    pose proof (all_empty s st I Hneed0) as Hempty.
    assert (Hnothing : forall r, nothing P (pch s) r tag = true) by (intros r; apply nothing_spec; intros src _; apply Hempty).
    destruct (find_rank (fun r => negb (is_done (st r)))) as [[r [Hr Hp]]|Hall].
    2:{ (* every rank has returned *)
        left. intros r. rewrite (n_prog s st I r). destruct (Z_le_dec 0 r) as [H0|H0]; [destruct (Z_lt_dec r P) as [H1|H1]|].
        - specialize (Hall r (conj H0 H1)). destruct (st r) as [?|? ? ? ?|acc|]; try discriminate. cbn [prog_of]. apply NK_ret.
        - rewrite (proj2 (n_out s st I r)) by lia. cbn [prog_of]. eauto.
        - rewrite (proj2 (n_out s st I r)) by lia. cbn [prog_of]. eauto. }
    (* 3. / 4. all channels are empty: pick, if there is one, a rank that has not posted the barrier, else any rank that has not returned *)
    assert (Hpick : exists r0, 0 <= r0 < P /\ is_done (st r0) = false /\ (barred (st r0) = true -> forall q, 0 <= q < P -> barred (st q) = true)).
    { destruct (find_rank (fun q => negb (barred (st q)))) as [[q [Hq Hpq]]|Hallbar].
      - exists q. split; [exact Hq|]. apply negb_true_iff in Hpq. split; [destruct (st q) as [?|? [|] ? ?|?|]; try discriminate; reflexivity|]. intros E. congruence.
      - exists r. split; [exact Hr|]. split; [apply negb_true_iff; exact Hp|]. intros _ q Hq. specialize (Hallbar q Hq). apply negb_false_iff. exact Hallbar. }
    clear r Hr Hp. destruct Hpick as [r [Hr [Hnd Hbar]]].
    destruct (st r) as [j|f barr acc p|acc|] eqn:Est.
    - specialize (Hnosend r Hr). rewrite Est in Hnosend. discriminate.
    - pose proof (n_prog s st I r) as Hprog. rewrite Est in Hprog. pose proof (Hneed0 r Hr) as Hn0. rewrite Est in Hn0.
      destruct p.
      + rewrite prog_poll in Hprog. destruct f as [|f]; [right; left; exists r; split; [exact Hr|eexists; exact Hprog]|]. right. right.
        rewrite nbx_loop_S in Hprog.
        exists r; eexists; exists (RLoop f barr acc AtCheck), false. split; [exact Hr|]. split; [eapply stepp_miss; [exact Hprog|apply nbx_poll_tag|apply Hnothing]|]. split; [rewrite Est; constructor|].
        cbv zeta. cbn [hd]. change (-1 <? 0) with true. cbv iota. rewrite check_prog. split.
        * apply (NInv_keep s st r (RLoop f barr acc AtCheck)); try assumption; try reflexivity; try discriminate.
          -- rewrite Est. reflexivity.
          -- intros d. rewrite Est. reflexivity.
          -- intros y. rewrite (n_bar s st I y). unfold upds. destruct (Z.eqb_spec y r) as [Ey|Ey]; [subst y; rewrite Est; destruct barr; reflexivity|reflexivity].
          -- intros Hc. apply (n_cmp s st I r). rewrite Est. destruct barr; [reflexivity|discriminate].
        * rewrite Est. unfold need in *. cbn [phi acc_of] in *. unfold need. cbn [acc_of]. rewrite Hn0. cbn [Nat.eqb]. destruct barr; lia.
      + right. right. destruct barr; cbn [prog_of] in Hprog.
        * (* every rank has posted the barrier: Test says 1 *)
          assert (Eb : allbar P (pbar s) = true).
          { apply allbar_spec. intros q Hq. rewrite (n_bar s st I q). apply Hbar; [reflexivity|exact Hq]. }
          exists r; eexists; exists (RDone acc), true. split; [exact Hr|]. split; [eapply stepp_test; exact Hprog|]. split; [rewrite Est; constructor|]. rewrite Eb. cbn [flag hd Z.eqb]. split.
          -- apply (NInv_keep s st r (RDone acc)); try assumption; try reflexivity; try discriminate.
             ++ rewrite Est. reflexivity.
             ++ intros d. rewrite Est. reflexivity.
             ++ intros y. rewrite (n_bar s st I y). unfold upds. destruct (Z.eqb_spec y r) as [Ey|Ey]; [subst y; rewrite Est; reflexivity|reflexivity].
             ++ intros _. apply (n_cmp s st I r). rewrite Est. reflexivity.
             ++ intros acc' Hacc q Hq. injection Hacc as <-. pose proof (need0_all s st r I (Hneed0 r Hr) q Hq) as Hin. rewrite Est in Hin. exact Hin.
          -- rewrite Est. cbn [phi]. rewrite Hn0. cbn [Nat.eqb]. lia.
        * (* all channels are empty: Testall says 1 *)
          assert (Eb : allsent P nbx_stags (pch s) r = true) by (apply allsent_spec; intros d t _ _; apply Hempty).
          exists r; eexists; exists (RLoop f false acc AtIbar), true. split; [exact Hr|]. split; [eapply stepp_testall; exact Hprog|]. split; [rewrite Est; constructor|]. rewrite Eb. cbn [flag hd Z.eqb]. split.
          -- apply (NInv_keep s st r (RLoop f false acc AtIbar)); try assumption; try reflexivity; try discriminate.
             ++ rewrite Est. reflexivity.
             ++ intros d. rewrite Est. reflexivity.
             ++ intros y. rewrite (n_bar s st I y). unfold upds. destruct (Z.eqb_spec y r) as [Ey|Ey]; [subst y; rewrite Est; reflexivity|reflexivity].
             ++ intros _ d Hd. pose proof (Hempty r d tag) as Hc. rewrite (n_ch s st I r d tag) in Hc. unfold tag in Hc at 1.
                rewrite Z.eqb_refl, (Hsent r d Hr Hd) in Hc. cbn [andb] in Hc. destruct (rcvdb (st d) r); [reflexivity|discriminate].
          -- rewrite Est. unfold need in *. cbn [phi acc_of] in *. unfold need. cbn [acc_of]. rewrite Hn0. cbn [Nat.eqb]. lia.
      + right. right. rewrite prog_ibar in Hprog.
        assert (Hc0 : complete (st r) = true) by (rewrite Est; destruct barr; reflexivity).
        exists r; eexists; exists (RLoop f true acc AtPoll), true. split; [exact Hr|]. split; [eapply stepp_ibar; exact Hprog|]. split; [rewrite Est; constructor|]. split.
        * apply (NInv_keep s st r (RLoop f true acc AtPoll)); try assumption; try reflexivity; try discriminate.
          -- rewrite Est. reflexivity.
          -- intros d. rewrite Est. reflexivity.
          -- intros y. unfold updb, upds. destruct (Z.eqb_spec y r) as [Ey|Ey]; [reflexivity|apply (n_bar s st I y)].
          -- intros _. apply (n_cmp s st I r Hc0).
        * rewrite Est. unfold need in *. cbn [phi acc_of] in *. unfold need. cbn [acc_of]. rewrite Hn0. cbn [Nat.eqb]. destruct barr; lia.
    - discriminate.
    - exfalso. apply (proj1 (n_out s st I r) Est). exact Hr.
  Qed.

  Theorem nbx_reach_final : forall k s st, NInv s st -> Phi st = k ->
    exists m s', run_p P nbx_poll nbx_stags m s s' /\ (m <= k)%nat /\ (pfinal s' \/ exists r, 0 <= r < P /\ at_fuel_mark s' r).
  Proof.
    induction k as [k IH] using lt_wf_ind. intros s st I Hk.
    destruct (nbx_move s st I) as [Hf|[Hm|[r [s1 [new [pb [Hrr [Hs [_ [I1 Hlt0]]]]]]]]]].
    - exists 0%nat, s. split; [constructor|]. split; [lia|left; exact Hf].
    - exists 0%nat, s. split; [constructor|]. split; [lia|right; exact Hm].
    - pose proof (Phi_upd st r new Hrr Hlt0) as Hlt.
      destruct (IH (Phi (upds st r new)) ltac:(lia) s1 _ I1 eq_refl) as [m [s' [Hr [Hle Hend]]]].
      exists (S m), s'. split; [econstructor; eassumption|]. split; [lia|exact Hend].
  Qed.

  (* NO ENDLESS POLLING: every run can be continued - by at most Phi st0 <= 9 P (P + 1) further steps - to a final state, unless a rank
     hits the model's loop bound on the way *)
  Theorem nbx_no_endless_polling n s : run_p P nbx_poll nbx_stags n nbx_sys s ->
    exists m s', run_p P nbx_poll nbx_stags m s s' /\ (pfinal s' \/ exists r, 0 <= r < P /\ at_fuel_mark s' r).
  Proof.
    intros Hr. destruct (nbx_safety n s Hr) as [st I]. destruct (nbx_reach_final (Phi st) s st I eq_refl) as [m [s' [H1 [_ H2]]]]. eauto.
  Qed.
  (* ---- THE FUEL: the model's loop bound is not hit as long as the run is shorter than fuel -------------------------------------------------
     every iteration of the loop of a rank is at least one step of the run: a rank in the loop with f iterations left after n steps
     has fuel <= f + n *)
  Definition floor (st : rstate) : nat := match st with RLoop f _ _ _ => f | _ => fuel end.
  Definition fuel_inv (n : nat) (st : Z -> rstate) : Prop := forall r, (fuel <= floor (st r) + n)%nat.

  Lemma gstep_floor r old new pb : gstep r old new pb -> (floor new = fuel \/ floor old <= S (floor new))%nat.
  Proof. intros H. inversion H; subst; cbn [floor]; unfold mkstate; try (destruct (_ <? _)%nat); cbn [floor]; lia. Qed.

  Lemma fuel_inv_init : fuel_inv 0 st0.
  Proof. intros r. unfold st0, mkstate. destruct (inr P r); [destruct (_ <? _)%nat|]; cbn [floor]; lia. Qed.

  Lemma fuel_inv_step n st r new pb : fuel_inv n st -> gstep r (st r) new pb -> fuel_inv (S n) (upds st r new).
  Proof.
    intros Hf Hg y. unfold upds. destruct (Z.eqb_spec y r) as [Ey|Ey]; [subst y|specialize (Hf y); lia].
    pose proof (gstep_floor r _ _ _ Hg). specialize (Hf r). lia.
  Qed.

  Lemma NInv_run_fuel : forall n s0 s st k, NInv s0 st -> fuel_inv k st -> run_p P nbx_poll nbx_stags n s0 s ->
    exists st', NInv s st' /\ fuel_inv (k + n) st'.
  Proof.
    induction n as [|n IH]; intros s0 s st k I Hf Hr; inversion Hr as [|? ? r s1 ? Hs Hrest]; subst.
    - exists st. rewrite Nat.add_0_r. auto.
    - destruct (NInv_step s0 st r s1 I Hs) as [new [pb [Hg [_ I1]]]].
      destruct (IH s1 s _ (S k) I1 (fuel_inv_step k st r new pb Hf Hg) Hrest) as [st' [I' Hf']]. exists st'. split; [exact I'|].
      replace (k + S n)%nat with (S k + n)%nat by lia. exact Hf'.
  Qed.

  Lemma nbx_reachable n s : run_p P nbx_poll nbx_stags n nbx_sys s -> exists st, NInv s st /\ fuel_inv n st.
  Proof. intros Hr. exact (NInv_run_fuel n nbx_sys s st0 0 NInv_init fuel_inv_init Hr). Qed.

  Lemma fuel_mark_floor s st r : NInv s st -> at_fuel_mark s r -> floor (st r) = 0%nat.
  Proof.
    intros I [k Hk]. rewrite (n_prog s st I r) in Hk. destruct (st r) as [j|f barr acc p|acc|] eqn:Est.
    - exfalso. pose proof (n_send s st I r j Est) as Hj. cbn [prog_of] in Hk.
      rewrite (skipn_nth (0, tag, nitem r 0)) in Hk by (unfold msgs; rewrite map_length; exact Hj).
      destruct (nth j (msgs r) (0, tag, nitem r 0)) as [[d t] m]. cbn [do_sends] in Hk. unfold send in Hk. discriminate.
    - destruct p.
      + rewrite prog_poll in Hk. destruct f as [|f]; [reflexivity|]. rewrite nbx_loop_S in Hk. discriminate.
      + exfalso. destruct barr; cbn [prog_of] in Hk; injection Hk as E _; vm_compute in E; discriminate E.
      + exfalso. rewrite prog_ibar in Hk. injection Hk as E _. vm_compute in E. discriminate E.
    - exfalso. cbn [prog_of] in Hk. destruct (NK_ret r (rev acc)) as [o Ho]. rewrite Ho in Hk. discriminate.
    - discriminate.
  Qed.

  (* a bound for the potential in terms of P and the pattern *)
  Definition nbx_bound : nat := list_sum (map (fun r => 3 * length (R r) + 3 * length (T r) + 8)%nat (ranks P)).

  Lemma phi_le r st : (phi r st <= 3 * length (R r) + 3 * length (T r) + 8)%nat.
  Proof.
    destruct st as [j|f barr acc p|acc|]; cbn [phi]; try lia. unfold need. cbn [acc_of].
    destruct (Nat.eqb_spec (length (T r) - length acc) 0); [destruct p, barr; lia|destruct p; lia].
  Qed.

  Lemma Phi_le st : (Phi st <= nbx_bound)%nat.
  Proof. unfold Phi, nbx_bound. apply SemRounds.list_sum_le. intros r _. apply phi_le. Qed.

  Theorem nbx_reach_final_fuel : forall k s st n, NInv s st -> fuel_inv n st -> Phi st = k -> (n + k < fuel)%nat ->
    exists m s', run_p P nbx_poll nbx_stags m s s' /\ (m <= k)%nat /\ pfinal s'.
  Proof.
    induction k as [k IH] using lt_wf_ind. intros s st n I Hf Hk Hfuel.
    destruct (nbx_move s st I) as [Hfin|[[r [Hr Hm]]|[r [s1 [new [pb [Hrr [Hs [Hg [I1 Hlt0]]]]]]]]]].
    - exists 0%nat, s. split; [constructor|]. split; [lia|exact Hfin].
    - exfalso. pose proof (fuel_mark_floor s st r I Hm) as H0. specialize (Hf r). lia.
    - pose proof (Phi_upd st r new Hrr Hlt0) as Hlt.
      destruct (IH (Phi (upds st r new)) ltac:(lia) s1 _ (S n) I1 (fuel_inv_step n st r new pb Hf Hg) eq_refl ltac:(lia)) as [m [s' [Hr [Hle Hend]]]].
      exists (S m), s'. split; [econstructor; eassumption|]. split; [lia|exact Hend].
  Qed.

  (* NBX, EVERY SCHEDULE (without fairness): for every run of n steps with n + nbx_bound < fuel - for the C loop, which has no bound, every
     finite run - (a) if the state is final it is correct, (b) no rank is blocked, (c) a FINAL state is reachable by at most nbx_bound
     further steps *)
  Theorem nbx_every_schedule n s : run_p P nbx_poll nbx_stags n nbx_sys s -> (n + nbx_bound < fuel)%nat ->
    (pfinal s ->
       (forall r, 0 <= r < P -> exists o, Permutation o (transpose P R r) /\ (sorted = true -> o = transpose P R r) /\
                                         ppr s r = Ret (result o (if hp then map (fun q => pay q r) o else []))) /\
       (forall a b t, pch s a b t = []) /\ (forall r, 0 <= r < P -> pbar s r = true)) /\
    (forall r, 0 <= r < P -> (exists o, ppr s r = Ret o) \/ exists s', step_p P nbx_poll nbx_stags s r s') /\
    (exists m s', run_p P nbx_poll nbx_stags m s s' /\ (m <= nbx_bound)%nat /\ pfinal s').
  Proof.
    intros Hr Hfuel. destruct (nbx_reachable n s Hr) as [st [I Hf]]. split; [exact (nbx_final n s Hr)|]. split.
    - intros r Hrr. destruct (nbx_never_blocked n s Hr r Hrr) as [H|[H|H]]; [left; exact H| |right; exact H].
      exfalso. pose proof (fuel_mark_floor s st r I H) as H0. specialize (Hf r). lia.
    - pose proof (Phi_le st) as Hle.
      destruct (nbx_reach_final_fuel (Phi st) s st n I Hf eq_refl ltac:(lia)) as [m [s' [H1 [H2 H3]]]]. exists m, s'. split; [exact H1|]. split; [lia|exact H3].
  Qed.
  (* ---- FAIRNESS: every weakly fair run terminates ---------------------------------------------------------------------------------------------
     Rho counts the PRODUCTIVE steps still to come (sends, successful polls, the Testall that says 1, the Ibarrier, the Test that says 1):
     it is unchanged by an unproductive step (empty poll, Testall = 0, Test = 0) and drops by exactly 1 on every other step.  In every
     non-final reachable state there is a CRITICAL rank c: its next step is productive, or its next step is an unproductive check that
     brings it to a poll which is productive - whatever the other ranks do in between, as long as they only make unproductive steps.
     Hence every segment of a run in which every rank that has not returned steps at least twice contains a productive step, and a run
     made of nbx_rounds such segments ends in a final state. *)
  Definition unsent (r : Z) (st : rstate) : nat := match st with RSend j => length (R r) - j | _ => 0 end.
  Definition phase (st : rstate) : nat :=
    match st with
    | RSend _ => 3
    | RLoop _ barr _ p => match p with AtIbar => 2 | _ => if barr then 1 else 3 end
    | RDone _ => 0
    | ROut => 0
    end.
  Definition rho (r : Z) (st : rstate) : nat := unsent r st + need r st + phase st.
  Definition Rho (st : Z -> rstate) : nat := list_sum (map (fun r => rho r (st r)) (ranks P)).
  Definition nbx_rounds : nat := list_sum (map (fun r => length (R r) + length (T r) + 3)%nat (ranks P)).

  Lemma sum_upd_eq (g h : Z -> nat) : forall l r, NoDup l -> In r l -> (forall y, y <> r -> h y = g y) ->
    (list_sum (map h l) + g r = list_sum (map g l) + h r)%nat.
  Proof.
    induction l as [|x l IH]; intros r Hnd Hin Heq; [contradiction|]. inversion Hnd as [|? ? Hx Hnd']; subst. cbn [map list_sum fold_right].
    change (fold_right Nat.add 0%nat (map h l)) with (list_sum (map h l)). change (fold_right Nat.add 0%nat (map g l)) with (list_sum (map g l)).
    destruct Hin as [->|Hin].
    - assert (E : map h l = map g l) by (apply map_ext_in; intros y Hy; apply Heq; intros ->; contradiction). rewrite E. lia.
    - assert (x <> r) by (intros ->; contradiction). rewrite (Heq x H). specialize (IH r Hnd' Hin Heq). lia.
  Qed.

  Lemma Rho_upd st r new : 0 <= r < P -> (Rho (upds st r new) + rho r (st r) = Rho st + rho r new)%nat.
  Proof.
    intros Hr. unfold Rho.
    pose proof (sum_upd_eq (fun y => rho y (st y)) (fun y => rho y (upds st r new y)) (ranks P) r (ranks_NoDup P) (proj2 (in_ranks P r) Hr)) as H.
    cbv beta in H. rewrite upds_same in H. apply H. intros y Hy. rewrite upds_other by exact Hy. reflexivity.
  Qed.

  Lemma gstep_rho s st r new pb s' : NInv s st -> NInv s' (upds st r new) -> gstep r (st r) new pb ->
    (rho r new + (if pb then 1 else 0) = rho r (st r))%nat.
  Proof.
    intros I I' Hg.
    assert (Hlen : (length (acc_of new) <= length (T r))%nat).
    { pose proof (NoDup_incl_length (proj1 (n_acc _ _ I' r)) (acc_incl _ _ r I')) as H. rewrite upds_same, map_length in H. exact H. }
    remember (st r) as old eqn:Eo. destruct Hg; unfold rho, need in *; cbn [unsent acc_of phase length] in *; try lia; try (destruct barr; lia).
    pose proof (n_send s st I r j (eq_sym Eo)) as Hj. unfold mkstate. destruct (Nat.ltb_spec (S j) (length (R r))); cbn [unsent acc_of phase length]; lia.
  Qed.

  Lemma Rho_step s st r new pb s' : NInv s st -> NInv s' (upds st r new) -> 0 <= r < P -> gstep r (st r) new pb ->
    (Rho (upds st r new) + (if pb then 1 else 0) = Rho st)%nat.
  Proof. intros I I' Hr Hg. pose proof (gstep_rho s st r new pb s' I I' Hg). pose proof (Rho_upd st r new Hr). lia. Qed.

  (* runs with the ranks that move *)
  Inductive runl : list Z -> pst -> pst -> Prop :=
  | runl_nil s : runl [] s s
  | runl_cons r ls s s1 s2 : step_p P nbx_poll nbx_stags s r s1 -> runl ls s1 s2 -> runl (r :: ls) s s2.
  Definition cnt (r : Z) (ls : list Z) : nat := count_occ Z.eq_dec ls r.

  Lemma runl_run ls s s' : runl ls s s' -> run_p P nbx_poll nbx_stags (length ls) s s'.
  Proof. induction 1; [constructor|econstructor; eassumption]. Qed.

  Lemma step_in_range s st r s' : NInv s st -> step_p P nbx_poll nbx_stags s r s' -> 0 <= r < P.
  Proof.
    intros I Hs. apply (in_range_of s st r I). intros E. pose proof (n_prog s st I r) as Hp. rewrite E in Hp. cbn [prog_of] in Hp.
    inversion Hs; subst; congruence.
  Qed.

  Lemma rho_run_le : forall ls s st s', NInv s st -> runl ls s s' -> exists st', NInv s' st' /\ (Rho st' <= Rho st)%nat.
  Proof.
    induction ls as [|y ls IH]; intros s st s' I Hr; inversion Hr as [|? ? ? s1 ? Hs Hrest]; subst; [exists st; split; [exact I|lia]|].
    destruct (NInv_step s st y s1 I Hs) as [new [pb [Hg [_ I1]]]]. pose proof (Rho_step s st y new pb s1 I I1 (step_in_range s st y s1 I Hs) Hg) as HRho.
    destruct (IH s1 _ s' I1 Hrest) as [st' [I' Hle]]. exists st'. split; [exact I'|]. destruct pb; lia.
  Qed.

  Definition nosend (st : Z -> rstate) : Prop := forall y, 0 <= y < P -> is_send (st y) = false.
  Definition allneed0 (st : Z -> rstate) : Prop := forall y, 0 <= y < P -> need y (st y) = 0%nat.
  Definition allbarred (st : Z -> rstate) : Prop := forall y, 0 <= y < P -> barred (st y) = true.

  (* crit st c k: c is critical; its k-th step from now (k = 1 or 2) is productive if only unproductive steps happen before *)
  Inductive crit (st : Z -> rstate) (c : Z) : nat -> Prop :=
  | c_send j : 0 <= c < P -> st c = RSend j -> crit st c 1
  | c_need f barr acc p : 0 <= c < P -> nosend st -> st c = RLoop f barr acc p -> need c (st c) <> 0%nat ->
      crit st c (match p with AtCheck => 2 | _ => 1 end)
  | c_prebar f acc p : 0 <= c < P -> nosend st -> allneed0 st -> st c = RLoop f false acc p ->
      crit st c (match p with AtPoll => 2 | _ => 1 end)
  | c_post f acc p : 0 <= c < P -> nosend st -> allneed0 st -> allbarred st -> st c = RLoop f true acc p ->
      crit st c (match p with AtPoll => 2 | _ => 1 end).

  Lemma crit_pos st c k : crit st c k -> (1 <= k <= 2)%nat /\ 0 <= c < P /\ is_done (st c) = false /\ st c <> ROut.
  Proof. intros H. destruct H as [j Hc E|f barr acc p Hc _ E _|f acc p Hc _ _ E|f acc p Hc _ _ _ E]; rewrite E; (split; [try (destruct p); lia|]); (split; [exact Hc|]); (split; [reflexivity|discriminate]). Qed.

  Lemma crit_exists s st : NInv s st -> (exists r, 0 <= r < P /\ is_done (st r) = false) -> exists c k, crit st c k.
  Proof.
    intros I [r0 [Hr0 Hnd0]].
    destruct (find_rank (fun r => is_send (st r))) as [[r [Hr Hp]]|Hnosend].
    { destruct (st r) as [j| | |] eqn:Est; try discriminate. exists r, 1%nat. eapply c_send; eassumption. }
    destruct (find_rank (fun r => negb (need r (st r) =? 0)%nat)) as [[b [Hb Hp]]|Hnoneed].
    { apply negb_true_iff, Nat.eqb_neq in Hp. destruct (st b) as [j|f barr acc p|acc|] eqn:Est.
      - specialize (Hnosend b Hb). rewrite Est in Hnosend. discriminate.
      - exists b. eexists. eapply (c_need st b f barr acc p); try eassumption. rewrite Est. exact Hp.
      - exfalso. apply Hp. rewrite <- Est. apply (done_need0 s st b acc I Est).
      - exfalso. apply (proj1 (n_out s st I b) Est). exact Hb. }
    assert (Hneed0 : allneed0 st).
    { intros r Hr. specialize (Hnoneed r Hr). apply negb_false_iff, Nat.eqb_eq in Hnoneed. exact Hnoneed. }
    destruct (find_rank (fun q => negb (barred (st q)))) as [[q [Hq Hpq]]|Hallbar].
    - apply negb_true_iff in Hpq. destruct (st q) as [j|f barr acc p|acc|] eqn:Est.
      + specialize (Hnosend q Hq). rewrite Est in Hnosend. discriminate.
      + destruct barr; [discriminate|]. exists q. eexists. eapply (c_prebar st q f acc p); eassumption.
      + discriminate.
      + exfalso. apply (proj1 (n_out s st I q) Est). exact Hq.
    - assert (Hab : allbarred st) by (intros q Hq; specialize (Hallbar q Hq); apply negb_false_iff; exact Hallbar).
      pose proof (Hab r0 Hr0) as Hb0. destruct (st r0) as [j|f barr acc p|acc|] eqn:Est; try discriminate.
      destruct barr; [|discriminate]. exists r0. eexists. eapply (c_post st r0 f acc p); eassumption.
  Qed.

  Lemma idle_attrs y old new : gstep y old new false ->
    is_send new = is_send old /\ acc_of new = acc_of old /\ barred new = barred old /\ is_send old = false.
  Proof. intros H. inversion H; subst; cbn; auto. Qed.

  Lemma frozen_upds st y new : gstep y (st y) new false ->
    (nosend st -> nosend (upds st y new)) /\ (allneed0 st -> allneed0 (upds st y new)) /\ (allbarred st -> allbarred (upds st y new)).
  Proof.
    intros Hg. destruct (idle_attrs y _ _ Hg) as [A [B [C D]]]. split; [|split]; intros H z Hz; unfold upds; destruct (Z.eqb_spec z y) as [E|E]; try (apply H; exact Hz); subst z.
    - rewrite A. apply H. exact Hz.
    - unfold need. rewrite B. apply (H y Hz).
    - rewrite C. apply H. exact Hz.
  Qed.

  (* an unproductive step of another rank leaves c critical *)
  Lemma crit_other st c k y new : crit st c k -> y <> c -> gstep y (st y) new false -> crit (upds st y new) c k.
  Proof.
    intros Hc Hy Hg. destruct (frozen_upds st y new Hg) as [F1 [F2 F3]].
    destruct Hc as [j Hcr E|f barr acc p Hcr Hns E Hn|f acc p Hcr Hns Hn0 E|f acc p Hcr Hns Hn0 Hab E].
    - eapply c_send; [exact Hcr|rewrite upds_other by (intros X; apply Hy; auto); exact E].
    - eapply c_need; [exact Hcr|apply F1; exact Hns|rewrite upds_other by (intros X; apply Hy; auto); exact E|rewrite upds_other by (intros X; apply Hy; auto); exact Hn].
    - eapply c_prebar; [exact Hcr|apply F1; exact Hns|apply F2; exact Hn0|rewrite upds_other by (intros X; apply Hy; auto); exact E].
    - eapply c_post; [exact Hcr|apply F1; exact Hns|apply F2; exact Hn0|apply F3; exact Hab|rewrite upds_other by (intros X; apply Hy; auto); exact E].
  Qed.

  (* a step of the critical rank is productive, or it is the check before its productive poll / the poll before its productive check *)
  Lemma crit_self s st c k new pb : NInv s st -> crit st c k -> gstep c (st c) new pb -> idle_ok s c (st c) pb ->
    pb = true \/ (k = 2%nat /\ crit (upds st c new) c 1).
  Proof.
    intros I Hc Hg Hi. destruct pb; [left; reflexivity|right]. specialize (Hi eq_refl). destruct (frozen_upds st c new Hg) as [F1 [F2 F3]].
    destruct Hc as [j Hcr E|f barr acc p Hcr Hns E Hn|f acc p Hcr Hns Hn0 E|f acc p Hcr Hns Hn0 Hab E]; rewrite E in Hg, Hi; inversion Hg; subst.
    - (* need > 0, at the poll: the poll cannot be empty *)
      exfalso. cbn in Hi. rewrite nothing_spec in Hi.
      destruct (pick_missing (T c) (map fst acc) (transpose_NoDup P R c)) as [a [Ha Hna]]; [unfold need in Hn; rewrite E in Hn; cbn [acc_of] in Hn; rewrite map_length; lia|].
      apply transpose_In in Ha. destruct Ha as [Ha Hca].
      assert (Hs : sentb (st a) a c = true).
      { specialize (Hns a Ha). destruct (st a) as [?|? ? ? ?|?|] eqn:Ea; cbn [is_send sentb] in *; try discriminate; try (apply memz_In; exact Hca).
        exfalso. apply (proj1 (n_out s st I a) Ea). exact Ha. }
      assert (Hr : rcvdb (st c) a = false).
      { destruct (rcvdb (st c) a) eqn:Erc; [|reflexivity]. apply rcvdb_In in Erc. rewrite E in Erc. contradiction. }
      pose proof (Hi a Ha) as Hnil. rewrite (n_ch s st I a c tag), Hs, Hr in Hnil. unfold tag in Hnil. rewrite Z.eqb_refl in Hnil. discriminate.
    - (* need > 0, Testall = 0: back to the poll *)
      split; [reflexivity|]. eapply (c_need _ c _ false _ AtPoll); [exact Hcr|apply F1; exact Hns|apply upds_same|].
      rewrite upds_same. unfold need in *. rewrite E in Hn. exact Hn.
    - split; [reflexivity|]. eapply (c_need _ c _ true _ AtPoll); [exact Hcr|apply F1; exact Hns|apply upds_same|].
      rewrite upds_same. unfold need in *. rewrite E in Hn. exact Hn.
    - (* all received, barrier not posted, empty poll: on to Testall, which will say 1 *)
      split; [reflexivity|]. eapply (c_prebar _ c _ _ AtCheck); [exact Hcr|apply F1; exact Hns|apply F2; exact Hn0|apply upds_same].
    - (* Testall = 0 although every channel is empty: impossible *)
      exfalso. cbn in Hi. assert (Ht : allsent P nbx_stags (pch s) c = true) by (apply allsent_spec; intros d t _ _; apply (all_empty s st I Hn0)). congruence.
    - split; [reflexivity|]. eapply (c_post _ c _ _ AtCheck); [exact Hcr|apply F1; exact Hns|apply F2; exact Hn0|apply F3; exact Hab|apply upds_same].
    - (* Test = 0 although every rank has posted the barrier: impossible *)
      exfalso. cbn in Hi. assert (Ht : allbar P (pbar s) = true) by (apply allbar_spec; intros q Hq; rewrite (n_bar s st I q); apply Hab; exact Hq). congruence.
  Qed.

  Lemma idle_run : forall ls s st s' c k, NInv s st -> crit st c k -> runl ls s s' ->
    (exists st', NInv s' st' /\ (Rho st' < Rho st)%nat) \/
    (exists st' k', NInv s' st' /\ Rho st' = Rho st /\ crit st' c k' /\ (cnt c ls + k' = k)%nat).
  Proof.
    induction ls as [|y ls IH]; intros s st s' c k I Hc Hr; inversion Hr as [|? ? ? s1 ? Hs Hrest]; subst.
    - right. exists st, k. cbn. auto.
    - destruct (NInv_step s st y s1 I Hs) as [new [pb [Hg [Hi I1]]]].
      pose proof (Rho_step s st y new pb s1 I I1 (step_in_range s st y s1 I Hs) Hg) as HRho.
      destruct pb.
      + left. destruct (rho_run_le ls s1 _ s' I1 Hrest) as [st' [I' Hle]]. exists st'. split; [exact I'|lia].
      + destruct (Z.eq_dec y c) as [->|Hy].
        * destruct (crit_self s st c k new false I Hc Hg Hi) as [E|[-> Hc1]]; [discriminate|].
          destruct (IH s1 _ s' c 1%nat I1 Hc1 Hrest) as [[st' [I' Hlt]]|[st' [k' [I' [E' [Hc' Hcnt]]]]]].
          -- left. exists st'. split; [exact I'|lia].
          -- right. exists st', k'. split; [exact I'|]. split; [lia|]. split; [exact Hc'|]. unfold cnt in *. cbn [count_occ]. destruct (Z.eq_dec c c); [lia|contradiction].
        * pose proof (crit_other st c k y new Hc Hy Hg) as Hc1.
          destruct (IH s1 _ s' c k I1 Hc1 Hrest) as [[st' [I' Hlt]]|[st' [k' [I' [E' [Hc' Hcnt]]]]]].
          -- left. exists st'. split; [exact I'|lia].
          -- right. exists st', k'. split; [exact I'|]. split; [lia|]. split; [exact Hc'|]. unfold cnt in *. cbn [count_occ]. destruct (Z.eq_dec y c); [contradiction|exact Hcnt].
  Qed.

  Lemma not_ret s st r : NInv s st -> is_done (st r) = false -> st r <> ROut -> forall o, ppr s r <> Ret o.
  Proof.
    intros I Hnd Hno o Ho. rewrite (n_prog s st I r) in Ho. destruct (st r) as [j|f barr acc p|acc|] eqn:Est; try discriminate; [|clear Hnd|contradiction].
    - pose proof (n_send s st I r j Est) as Hj. cbn [prog_of] in Ho.
      rewrite (skipn_nth (0, tag, nitem r 0)) in Ho by (unfold msgs; rewrite map_length; exact Hj).
      destruct (nth j (msgs r) (0, tag, nitem r 0)) as [[d t] m]. cbn [do_sends] in Ho. unfold send in Ho. discriminate.
    - destruct p; [rewrite prog_poll in Ho; destruct f; cbn [nbx_loop] in Ho; discriminate|destruct barr; cbn [prog_of] in Ho; discriminate|rewrite prog_ibar in Ho; discriminate].
  Qed.

  (* a FAIR SEGMENT: every rank of the communicator has returned at its end or has moved at least twice in it *)
  Definition fair_seg (ls : list Z) (s1 : pst) : Prop := forall r, 0 <= r < P -> (exists o, ppr s1 r = Ret o) \/ (2 <= cnt r ls)%nat.

  Lemma segment_productive ls s st s' : NInv s st -> runl ls s s' -> (exists r, 0 <= r < P /\ is_done (st r) = false) -> fair_seg ls s' ->
    exists st', NInv s' st' /\ (Rho st' < Rho st)%nat.
  Proof.
    intros I Hr Hnd Hfair. destruct (crit_exists s st I Hnd) as [c [k Hc]].
    destruct (idle_run ls s st s' c k I Hc Hr) as [H|[st' [k' [I' [_ [Hc' Hcnt]]]]]]; [exact H|exfalso].
    destruct (crit_pos st c k Hc) as [Hk _]. destruct (crit_pos st' c k' Hc') as [Hk' [Hcr [Hnd' Hno']]].
    destruct (Hfair c Hcr) as [[o Ho]|H2]; [exact (not_ret s' st' c I' Hnd' Hno' o Ho)|lia].
  Qed.

  Inductive fair_segs : nat -> pst -> pst -> Prop :=
  | fs_nil s : fair_segs 0 s s
  | fs_cons k ls s s1 s2 : runl ls s s1 -> fair_seg ls s1 -> fair_segs k s1 s2 -> fair_segs (S k) s s2.

  Lemma all_done_final s st : NInv s st -> (forall r, 0 <= r < P -> is_done (st r) = true) -> pfinal s.
  Proof.
    intros I Hall r. rewrite (n_prog s st I r). destruct (Z_le_dec 0 r) as [H0|H0]; [destruct (Z_lt_dec r P) as [H1|H1]|].
    - specialize (Hall r (conj H0 H1)). destruct (st r) as [?|? ? ? ?|acc|]; try discriminate. cbn [prog_of]. apply NK_ret.
    - rewrite (proj2 (n_out s st I r)) by lia. cbn [prog_of]. eauto.
    - rewrite (proj2 (n_out s st I r)) by lia. cbn [prog_of]. eauto.
  Qed.

  Lemma runl_final ls s s' : pfinal s -> runl ls s s' -> s' = s.
  Proof. intros Hf Hr. inversion Hr as [|? ? ? s1 ? Hs Hrest]; subst; [reflexivity|]. exfalso. eapply pfinal_no_step; eauto. Qed.

  Lemma fair_segs_final k s s' : pfinal s -> fair_segs k s s' -> s' = s.
  Proof. intros Hf H. induction H as [|k ls s s1 s2 Hr _ _ IH]; [reflexivity|]. rewrite (runl_final ls s s1 Hf Hr) in IH. apply IH. exact Hf. Qed.

  Theorem fair_final : forall k s st s', NInv s st -> fair_segs k s s' -> (Rho st <= k)%nat -> pfinal s'.
  Proof.
    induction k as [|k IH]; intros s st s' I Hfs Hle.
    - inversion Hfs; subst. destruct (find_rank (fun r => negb (is_done (st r)))) as [[r [Hr Hp]]|Hall].
      + exfalso. apply negb_true_iff in Hp.
        assert (H1 : (1 <= rho r (st r))%nat) by (unfold rho; destruct (st r) as [?|? [|] ? [| |]|?|] eqn:E; cbn [phase]; try lia; try discriminate; exfalso; apply (proj1 (n_out s' st I r) E); exact Hr).
        assert (H2 : (rho r (st r) <= Rho st)%nat).
        { unfold Rho. pose proof (proj2 (in_ranks P r) Hr) as Hin. induction (ranks P) as [|x l IHl]; [contradiction|]. cbn [map list_sum fold_right].
          change (fold_right Nat.add 0%nat (map (fun r0 => rho r0 (st r0)) l)) with (list_sum (map (fun r0 => rho r0 (st r0)) l)).
          destruct Hin as [->|Hin]; [lia|specialize (IHl Hin); lia]. }
        lia.
      + apply (all_done_final s' st I). intros r Hr. specialize (Hall r Hr). apply negb_false_iff. exact Hall.
    - inversion Hfs as [|? ls ? s1 ? Hr Hfair Hrest]; subst.
      destruct (find_rank (fun r => negb (is_done (st r)))) as [[r [Hr0 Hp]]|Hall].
      + apply negb_true_iff in Hp. destruct (segment_productive ls s st s1 I Hr (ex_intro _ r (conj Hr0 Hp)) Hfair) as [st1 [I1 Hlt]].
        apply (IH s1 st1 s' I1 Hrest). lia.
      + assert (Hf : pfinal s) by (apply (all_done_final s st I); intros r Hr0; specialize (Hall r Hr0); apply negb_false_iff; exact Hall).
        rewrite (fair_segs_final (S k) s s' Hf Hfs). exact Hf.
  Qed.

  Lemma Rho_init : Rho st0 = nbx_rounds.
  Proof.
    unfold Rho, nbx_rounds. apply f_equal. apply map_ext_in. intros r Hr. apply in_ranks in Hr. unfold st0. rewrite (proj2 (inr_spec P r) Hr).
    unfold rho, need, mkstate. destruct (Nat.ltb_spec 0 (length (R r))); cbn [unsent acc_of phase length]; lia.
  Qed.

  (* NO ENDLESS POLLING UNDER FAIRNESS: a run from the initial state that consists of nbx_rounds = sum over the ranks of (receivers +
     senders + 3) fair segments - or more - ends in a final state.  (With the unbounded loop of the C code: an infinite weakly fair run
     would contain arbitrarily many fair segments, every rank that has not returned being always able to step - nbx_every_schedule (b).) *)
  Theorem nbx_fair_termination k s : fair_segs k nbx_sys s -> (nbx_rounds <= k)%nat -> pfinal s.
  Proof. intros H Hk. apply (fair_final k nbx_sys st0 s NInv_init H). rewrite Rho_init. exact Hk. Qed.

  (* the number of productive steps of any run is bounded: Rho never increases *)
  Theorem nbx_productive_bound ls s : runl ls nbx_sys s -> exists st, NInv s st /\ (Rho st <= nbx_rounds)%nat.
  Proof. intros H. destruct (rho_run_le ls nbx_sys st0 s NInv_init H) as [st [I Hle]]. exists st. rewrite <- Rho_init. auto. Qed.
End NbxSched.

(* the system runs the program notify_prog gives for typ = 6 (nbx) without payload *)
Lemma nbx_is_notify_prog fuel P me ntop nint nbot sorted (R : list Z) sz eager extra supers :
  notify_prog fuel 6 P me ntop nint nbot sorted R None sz eager extra supers = nbx_core fuel R None sorted (fun s g => Ret (result s g)).
Proof. destruct eager; reflexivity. Qed.
