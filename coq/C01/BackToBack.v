(* C01 - BACK-TO-BACK CALLS of the n-ary notify recursion are NOT correct under every schedule (the recorded finding
   `back-to-back:nary` of known_findings.txt), as a theorem about the interleaving semantics with wildcard receives.

   The system: every rank runs the co-simulated program nary_core TWICE in sequence - second call with the same tags, as the C
   code does - and returns the result of the first call followed by the result of the second.  Instance: 3 ranks, widths
   ntop = nint = nbot = 2 (two levels).  Call 1: only rank 2 lists rank 1; call 2: only rank 0 lists rank 1.
   At the deepest level rank 1 waits for TWO wildcard messages on tag SC_TAG_NOTIFY_NARY + 1: from rank 0 and (wrapped) from
   rank 2.  Ranks 0 and 2 can finish call 1 without rank 1 having received anything; rank 0 then enters call 2 and sends its
   deepest-level message of call 2 to rank 1 on the same tag.  Rank 1, still in call 1, takes BOTH messages of rank 0 (they are
   consecutive in the FIFO channel 0 -> 1) and leaves the level: the message of rank 2 is missed.
   In the final state of the schedule `b2b_schedule` (executed by SemAny.exec, sound for the step relation) rank 1 has returned
     call 1: one sender, rank 0   - rank 0 did not list it in call 1, rank 2 (which did) is lost;
     call 2: no sender            - rank 0 (which did list it) is lost;
   and no message is left over, nothing deadlocks: the error is silent.
   By nary_every_schedule each call ALONE returns the transposed pattern under every schedule; two calls of the BINARY recursion
   in sequence (binary_sys2 below) are correct under every schedule: C01/BinaryTwice.binary_back_to_back. *)
From Coq Require Import ZArith Lia List Bool.
From ScV Require Import Base.CInt MPI.Prog MPI.Sem MPI.SemAny Gen.Consts Gen.NotifyC01 C01.NotifyProgs C01.NotifyProgProofs C01.NarySched.
Import ListNotations.
Local Open Scope Z_scope.

(* sequencing of programs *)
Fixpoint bind (p : prog) (f : payload -> prog) : prog :=
  match p with Ret o => f o | Do a k => Do a (fun r => bind (k r) f) end.
Definition twice (p1 p2 : prog) : prog := bind p1 (fun o1 => bind p2 (fun o2 => Ret (o1 ++ o2))).

Definition nary_call (G ntop nint nbot : Z) (R : Z -> list Z) (r : Z) : prog :=
  nary_core G r ntop nint nbot (R r) None 0 (fun s g => Ret (result s g)).
Definition nary_sys2 (G ntop nint nbot : Z) (R1 R2 : Z -> list Z) : gs :=
  mkgs (fun r => if inr G r then twice (nary_call G ntop nint nbot R1 r) (nary_call G ntop nint nbot R2 r) else Ret [])
       (fun _ _ _ => []).
Definition binary_sys2 (G : Z) (R1 R2 : Z -> list Z) : gs :=
  mkgs (fun r => if inr G r then twice (binary_core G r (R1 r) None (fun s g => Ret (result s g)))
                                      (binary_core G r (R2 r) None (fun s g => Ret (result s g))) else Ret [])
       (fun _ _ _ => []).

(* ---- executed schedules: what they leave untouched ---------------------------------------------------------------------------- *)
Lemma exec_step_other s c s' r : exec_step s c = Some s' -> fst c <> r -> pr s' r = pr s r.
Proof.
  destruct c as [r0 src]. cbn [fst]. intros H Hne. unfold exec_step in H.
  destruct (pr s r0) as [o|[d t m|x t|kd rt cb] k]; try discriminate.
  - injection H as <-. cbn [pr]. apply updp_other. congruence.
  - unfold take in H. destruct (x =? ANY).
    + destruct (ch s src r0 t); [discriminate|]. injection H as <-. cbn [pr]. apply updp_other. congruence.
    + destruct (0 <=? x); [|discriminate]. destruct (ch s x r0 t); [discriminate|]. injection H as <-. cbn [pr]. apply updp_other. congruence.
Qed.

Lemma exec_other : forall l s s' r, exec l s = Some s' -> (forall c, In c l -> fst c <> r) -> pr s' r = pr s r.
Proof.
  induction l as [|c l IH]; intros s s' r H Hne; cbn [exec] in H; [injection H as <-; reflexivity|].
  destruct (exec_step s c) as [s1|] eqn:E; [|discriminate].
  rewrite (IH s1 s' r H (fun c0 Hc0 => Hne c0 (or_intror Hc0))). apply (exec_step_other s c s1 r E). apply Hne. left. reflexivity.
Qed.

Definition run_sched (l : list choice) (s : gs) : gs := match exec l s with Some s' => s' | None => s end.
Definition runs_ok (l : list choice) (s : gs) : bool := match exec l s with Some _ => true | None => false end.
Lemma run_sched_exec l s : runs_ok l s = true -> exec l s = Some (run_sched l s).
Proof. unfold runs_ok, run_sched. destruct (exec l s); [reflexivity|discriminate]. Qed.

(* ---- the instance --------------------------------------------------------------------------------------------------------------- *)
Definition b2b_R1 (f : Z) : list Z := if f =? 2 then [1] else [].       (* call 1: rank 2 notifies rank 1 *)
Definition b2b_R2 (f : Z) : list Z := if f =? 0 then [1] else [].       (* call 2: rank 0 notifies rank 1 *)
Definition b2b_init : gs := nary_sys2 3 2 2 2 b2b_R1 b2b_R2.
(* (rank that moves, source matched if the move is a wildcard receive) *)
Definition b2b_schedule : list choice :=
  [(1, 0);            (* call 1, deepest level: rank 1 sends to 0 *)
   (0, 0); (0, 1);    (* rank 0 sends to 1, receives from 1 *)
   (0, 0);            (* top level: rank 0 sends to 2 *)
   (2, 0); (2, 0);    (* rank 2: deepest level send to 1 (wrapped peer), top level send to 0 *)
   (2, 0); (0, 2);    (* rank 2 receives from 0, rank 0 receives from 2: ranks 0 and 2 have left call 1 *)
   (0, 0);            (* CALL 2 of rank 0: deepest level, sends to 1 - channel 0 -> 1 now holds two messages *)
   (1, 0); (1, 0);    (* rank 1, still in call 1, takes both: it leaves call 1 with a wrong result *)
   (1, 0); (0, 1); (0, 0); (2, 0); (2, 0); (2, 0); (0, 2);
   (1, 2); (1, 2)].   (* rank 1 in call 2 takes the call-1 message and the call-2 message of rank 2 *)
Definition b2b_final : gs := run_sched b2b_schedule b2b_init.

Lemma b2b_runs : exec b2b_schedule b2b_init = Some b2b_final.
Proof. apply run_sched_exec. vm_compute. reflexivity. Qed.

(* the moment of the error: after 9 steps the channel from 0 to 1 of the deepest level holds the message of call 1 AND that of
   call 2 (rank 0's record for rank 1), rank 1 has not received anything yet *)
Example b2b_two_calls_in_one_channel :
  let s9 := run_sched (firstn 9 b2b_schedule) b2b_init in
  ch s9 0 1 (c_SC_TAG_NOTIFY_NARY + 1) = [[]; [1; 1; 0]] /\ ch s9 2 1 (c_SC_TAG_NOTIFY_NARY + 1) = [[1; 1; 2]].
Proof. vm_compute. split; reflexivity. Qed.

Theorem nary_back_to_back_refuted :
  exists (sched : list choice) (s' : gs),
    exec sched (nary_sys2 3 2 2 2 b2b_R1 b2b_R2) = Some s' /\
    run_a (length sched) (nary_sys2 3 2 2 2 b2b_R1 b2b_R2) s' /\
    final s' /\
    (* what rank 1 returns: call 1 -> 1 sender: rank 0;  call 2 -> 0 senders *)
    pr s' 1 = Ret ([1; 0] ++ [0]) /\
    (* what it has to return: call 1 -> 1 sender: rank 2;  call 2 -> 1 sender: rank 0 *)
    result (transpose 3 b2b_R1 1) [] ++ result (transpose 3 b2b_R2 1) [] = [1; 2] ++ [1; 0].
Proof.
  exists b2b_schedule, b2b_final. split; [exact b2b_runs|]. split; [apply exec_sound; exact b2b_runs|]. split; [|split].
  - intros r.
    destruct (Z.eq_dec r 0) as [->|H0]; [eexists; vm_compute; reflexivity|].
    destruct (Z.eq_dec r 1) as [->|H1]; [eexists; vm_compute; reflexivity|].
    destruct (Z.eq_dec r 2) as [->|H2]; [eexists; vm_compute; reflexivity|].
    exists []. rewrite (exec_other b2b_schedule b2b_init b2b_final r b2b_runs).
    + unfold b2b_init, nary_sys2. cbn [pr]. unfold inr. destruct (Z.leb_spec 0 r); destruct (Z.ltb_spec r 3); cbn [andb]; try reflexivity. lia.
    + intros c Hc. cbn in Hc. repeat (destruct Hc as [<-|Hc]; [cbn [fst]; lia|]). contradiction.
  - vm_compute. reflexivity.
  - vm_compute. reflexivity.
Qed.

(* the same instance, ONE call at a time: by nary_every_schedule rank 1 returns [1; 2] (call 1) resp. [1; 0] (call 2) in every final
   state of every schedule; the widths and the size satisfy the hypotheses of that theorem *)
Lemma b2b_instance_hyps : (0 < 3 <= NaryArith.BIG) /\ 3 <> 1 /\ 2 <= 2 /\ 2 <= NaryArith.BIG /\ 2 * 2 <= NaryArith.BIG /\ 3 * 2 <= NaryArith.BIG.
Proof. unfold NaryArith.BIG. change (2 ^ 29) with 536870912. lia. Qed.
